import Revm.Model.Interp
/-! Lower bounds of the dynamic gas formulas used by C25's `gas_decreases`: every instruction that can continue
charges at least 1 gas. -/
set_option linter.unusedSimpArgs false
set_option linter.unusedVariables false
namespace Revm.Proofs.Interp
open Revm Revm.Model Revm.Model.GasCalc

theorem checkedAdd_ge {a b c : Nat} (h : U64ops.checkedAdd a b = some c) : a ≤ c := by
  unfold U64ops.checkedAdd at h
  split at h
  · injection h with h; omega
  · cases h

theorem keccak256Cost_ge {len c : Nat} (h : keccak256Cost len = some c) : 30 ≤ c := by
  unfold keccak256Cost at h
  split at h
  · cases h
  · exact checkedAdd_ge h

theorem create2Cost_ge {len c : Nat} (h : create2Cost len = some c) : 32000 ≤ c := by
  unfold create2Cost at h
  split at h
  · cases h
  · exact checkedAdd_ge h

theorem logCost_ge {n len c : Nat} (h : logCost n len = some c) : 375 ≤ c := by
  unfold logCost at h
  split at h
  · cases h
  · split at h
    · cases h
    · rename_i b hb
      have h1 := checkedAdd_ge hb
      have h2 := checkedAdd_ge h
      unfold LOG at h1; omega

theorem warmColdCost_ge (c : Bool) : 100 ≤ warmColdCost c := by
  unfold warmColdCost COLD_ACCOUNT_ACCESS_COST WARM_STORAGE_READ_COST; split <;> omega

theorem extcodecopyCost_ge {spec len c : Nat} {cold : Bool} (h : extcodecopyCost spec len cold = some c) :
    20 ≤ c := by
  unfold extcodecopyCost at h
  simp only [] at h
  split at h
  · cases h
  · have h1 := checkedAdd_ge h
    have h2 := warmColdCost_ge cold
    split at h1 <;> try split at h1
    all_goals omega

theorem sloadCost_ge (spec : Nat) (cold : Bool) : 50 ≤ sloadCost spec cold := by
  unfold sloadCost COLD_SLOAD_COST WARM_STORAGE_READ_COST INSTANBUL_SLOAD_GAS
  split
  · split <;> omega
  · split
    · omega
    · split <;> omega

theorem istanbulSstoreCost_ge (a b o p n : Nat) (ha : 100 ≤ a) (hb : 100 ≤ b) :
    100 ≤ istanbulSstoreCost a b o p n := by
  unfold istanbulSstoreCost SSTORE_SET
  split
  · exact ha
  · split
    · omega
    · split
      · exact hb
      · exact ha

theorem sstoreCost_ge {spec o p n gas c : Nat} {cold : Bool} (h : sstoreCost spec o p n gas cold = some c) :
    100 ≤ c := by
  unfold sstoreCost at h
  split at h
  · cases h
  · split at h
    · injection h with h
      have := istanbulSstoreCost_ge WARM_STORAGE_READ_COST WARM_SSTORE_RESET o p n (by decide) (by decide)
      split at h <;> omega
    · split at h
      · injection h with h
        have := istanbulSstoreCost_ge INSTANBUL_SLOAD_GAS SSTORE_RESET o p n (by decide) (by decide)
        omega
      · injection h with h
        unfold frontierSstoreCost SSTORE_SET SSTORE_RESET at h
        split at h <;> omega

theorem callCost_ge (spec : Nat) (tv cold : Bool) (deleg : Option Bool) (empty : Bool) :
    40 ≤ callCost spec tv cold deleg empty ∧ (tv = true → 9040 ≤ callCost spec tv cold deleg empty) := by
  have hw := warmColdCost_ge cold
  have hg0 : 40 ≤ (if enabled spec SpecId.BERLIN = true then warmColdCostWithDelegation cold deleg
      else if enabled spec SpecId.TANGERINE = true then 700 else 40) := by
    split
    · unfold warmColdCostWithDelegation
      simp only []
      split <;> omega
    · split <;> omega
  unfold callCost
  simp only []
  generalize (if enabled spec SpecId.BERLIN = true then warmColdCostWithDelegation cold deleg
      else if enabled spec SpecId.TANGERINE = true then 700 else 40) = g0 at *
  unfold CALLVALUE NEWACCOUNT
  cases tv
  · simp only [Bool.false_eq_true, if_false]
    refine ⟨?_, fun e => by cases e⟩
    repeat' split
    all_goals omega
  · simp only [if_true]
    refine ⟨?_, fun _ => ?_⟩
    · repeat' split
      all_goals omega
    · repeat' split
      all_goals omega

theorem balanceGas_ge (spec : Nat) (cold : Bool) :
    20 ≤ (if enabled spec SpecId.BERLIN = true then warmColdCost cold
      else if enabled spec SpecId.ISTANBUL = true then 700
      else if enabled spec SpecId.TANGERINE = true then 400 else 20) := by
  have := warmColdCost_ge cold
  repeat' split
  all_goals omega

theorem extcodesizeGas_ge (spec : Nat) (cold : Bool) :
    20 ≤ (if enabled spec SpecId.BERLIN = true then warmColdCost cold
      else if enabled spec SpecId.TANGERINE = true then 700 else 20) := by
  have := warmColdCost_ge cold
  repeat' split
  all_goals omega

theorem extcodehashGas_ge (spec : Nat) (cold : Bool) :
    20 ≤ (if enabled spec SpecId.BERLIN = true then warmColdCost cold
      else if enabled spec SpecId.ISTANBUL = true then 700 else 400) := by
  have := warmColdCost_ge cold
  repeat' split
  all_goals omega

theorem satAdd_le_add (a b : Nat) : U64ops.saturatingAdd a b ≤ a + b := by
  unfold U64ops.saturatingAdd; split <;> omega

end Revm.Proofs.Interp
