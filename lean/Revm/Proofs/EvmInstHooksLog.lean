import Revm.Proofs.EvmInstSd
/-! C29 instance, part 4: the concrete LOG0..LOG4 instruction (`Interp.logI` resolved by `EvmHost.answer`) against what
the LOG wrapper of the inspector reads (`Insn.logOp prevLen after`, `Spec.InspectorHooks.insnLog`): a LOG that reaches
the host appends exactly one id, namely the number of the new record `w.logs.length`, to the journal's logs and
continues; a LOG that stops before (static call, stack underflow, out of gas, memory) appends nothing. So at every
resolved LOG the wrapper's report equals the ground truth `logTruth` (`log_consistent`); together with
`EvmInstSd.sd_consistent`: `insn_consistent`. -/
namespace Revm.Proofs.EvmInstHooks
open Revm Revm.Model Revm.Model.Evm Revm.Model.Interp
open Revm.Spec.EvmRules (adv)
open Revm.Proofs.EvmStep Revm.Proofs.EvmStep2
open Revm.Proofs.EvmInstSd (Resolved)
open Revm.Model.InspectorHooks (Insn)
open Revm.Spec.InspectorHooks (insnLog insnSd)

set_option linter.unusedSimpArgs false
set_option linter.unusedVariables false

theorem bind_ok_inv {α β} (m : M α) (f : α → M β) (s s' : IState) (b : β) (h : (m >>= f) s = .ok b s') :
    ∃ a s1, m s = .ok a s1 ∧ f a s1 = .ok b s' := by
  have h' : M.bind m f s = .ok b s' := h
  unfold M.bind at h'
  cases hm : m s with
  | ok a s1 => rw [hm] at h'; exact ⟨a, s1, rfl, h'⟩
  | halt r o s1 => rw [hm] at h'; cases h'
  | fault x => rw [hm] at h'; cases h'

theorem hostCall_pure_inv {β} (pre : M (HostOp × β)) (post : β → HostResp → M Unit) (s : IState) (d : Done)
    (h : hostCall pre post s = .pure d) : (∃ r o s', d = .halt r o s') ∨ ∃ f, d = .fault f := by
  unfold hostCall at h
  cases hp : pre s with
  | ok x s1 => rw [hp] at h; cases h
  | halt r o s1 => rw [hp] at h; injection h with h; exact Or.inl ⟨r, o, s1, h.symm⟩
  | fault f => rw [hp] at h; injection h with h; exact Or.inr ⟨f, h.symm⟩

theorem hostCall_host_inv {β} (pre : M (HostOp × β)) (post : β → HostResp → M Unit) (s : IState) (op : HostOp)
    (k : HostResp → Done) (h : hostCall pre post s = .host op k) :
    ∃ b s1, pre s = .ok (op, b) s1 ∧ k = fun r => (post b r s1).toDone := by
  unfold hostCall at h
  cases hp : pre s with
  | ok x s1 =>
    rw [hp] at h
    obtain ⟨op', b⟩ := x
    simp only at h
    injection h with h1 h2
    subst h1
    exact ⟨b, s1, rfl, h2.symm⟩
  | halt r o s1 => rw [hp] at h; cases h
  | fault f => rw [hp] at h; cases h

/-- `Interp.step` at LOG0..LOG4 -/
theorem step_log (s : IState) (op : Nat) (hcode : s.code[s.pc]? = some op) (hop : isLogOp op) :
    step s = logI (op - 0xa0) (adv s) := by
  unfold isLogOp at hop
  have : op = 0xa0 ∨ op = 0xa1 ∨ op = 0xa2 ∨ op = 0xa3 ∨ op = 0xa4 := by omega
  unfold step
  rw [hcode]
  rcases this with rfl | rfl | rfl | rfl | rfl
  · have hdec : decode 0xa0 = .log ⟨0, by omega⟩ := rfl
    simp only [hdec, execInstr, execPure]; rfl
  · have hdec : decode 0xa1 = .log ⟨1, by omega⟩ := rfl
    simp only [hdec, execInstr, execPure]; rfl
  · have hdec : decode 0xa2 = .log ⟨2, by omega⟩ := rfl
    simp only [hdec, execInstr, execPure]; rfl
  · have hdec : decode 0xa3 = .log ⟨3, by omega⟩ := rfl
    simp only [hdec, execInstr, execPure]; rfl
  · have hdec : decode 0xa4 = .log ⟨4, by omega⟩ := rfl
    simp only [hdec, execInstr, execPure]; rfl

/-- a LOG that asks the host asks `log` and then continues -/
theorem logI_host_inv (n : Nat) (s : IState) (op : HostOp) (k : HostResp → Done) (h : logI n s = .host op k) :
    ∃ a topics data s1, op = .log a topics data ∧ k = fun _ => .next s1 := by
  unfold logI at h
  obtain ⟨b, s1, hpre, hk⟩ := hostCall_host_inv _ _ _ _ _ h
  obtain ⟨_, sa, _, hpre⟩ := bind_ok_inv _ _ _ _ _ hpre
  obtain ⟨⟨offset, len⟩, sb, _, hpre⟩ := bind_ok_inv _ _ _ _ _ hpre
  simp only at hpre
  obtain ⟨len', sc, _, hpre⟩ := bind_ok_inv _ _ _ _ _ hpre
  obtain ⟨_, sd, _, hpre⟩ := bind_ok_inv _ _ _ _ _ hpre
  obtain ⟨data, se, _, hpre⟩ := bind_ok_inv _ _ _ _ _ hpre
  obtain ⟨topics, sf, _, hpre⟩ := bind_ok_inv _ _ _ _ _ hpre
  obtain ⟨sg, sh, _, hpre⟩ := bind_ok_inv _ _ _ _ _ hpre
  have hp : (Exec.ok (HostOp.log sg.target topics data, ()) sh : Exec (HostOp × Unit)) = .ok (op, b) s1 := hpre
  injection hp with hp1 hp2
  injection hp1 with hop hb
  refine ⟨sg.target, topics, data, s1, hop.symm, ?_⟩
  rw [hk]
  rfl

theorem answer_log {he : HostEnv} {w w' : World} {a : Nat} {topics data : List Nat} {resp : HostResp}
    (h : answer he w (.log a topics data) = .ok (resp, w')) : w'.js.logs = w.js.logs ++ [w.logs.length] := by
  simp only [answer, pure, Except.pure, Except.ok.injEq, Prod.mk.injEq] at h
  rw [← h.2]
  rfl

/-- at every resolved LOG0..4 what the wrapper reports is the id of the record the instruction appended -/
theorem log_consistent {he : HostEnv} {s : IState} {w w' : World} {d : Done} {op : Nat}
    (hcode : s.code[s.pc]? = some op) (hop : isLogOp op) (hr : Resolved he s w d w') :
    insnLog (.logOp w.js.logs.length w'.js.logs) = logTruth w d := by
  have hstep := step_log s op hcode hop
  cases hr with
  | pure d hs =>
    rw [hstep] at hs
    unfold logI at hs
    rcases hostCall_pure_inv _ _ _ _ hs with ⟨r, o, s', rfl⟩ | ⟨f, rfl⟩
    · simp [insnLog, logTruth]
    · simp [insnLog, logTruth]
  | host hop' k resp w' hs ha =>
    rw [hstep] at hs
    obtain ⟨a, topics, data, s1, rfl, rfl⟩ := logI_host_inv _ _ _ _ hs
    have hl := answer_log ha
    simp [insnLog, logTruth, hl]

/-- what an event's instruction says to the wrappers agrees with its ground truth -/
def Consistent : LEv → Prop
  | .insn x g => insnSd x = g.sd ∧ insnLog x = g.log
  | .next _ => True

/-- at every resolved instruction, whatever the opcode: the SELFDESTRUCT note and the LOG report of the wrappers are
the ground truth -/
theorem insn_consistent {he : HostEnv} {s : IState} {w w' : World} {d : Done} (hr : Resolved he s w d w') :
    Consistent (.insn (insnOf s w.js w'.js d) (truthOf s w d)) := by
  unfold Consistent insnOf truthOf
  cases hc : s.code[s.pc]? with
  | none => exact ⟨rfl, rfl⟩
  | some op =>
    simp only
    by_cases hlog : isLogOp op
    · simp only [if_pos hlog]
      exact ⟨rfl, log_consistent hc hlog hr⟩
    · simp only [if_neg hlog]
      by_cases hsd : op = 0xff
      · subst hsd
        simp only [if_true]
        exact ⟨Revm.Proofs.EvmInstSd.sd_consistent hc hr, rfl⟩
      · simp only [if_neg hsd]
        exact ⟨rfl, rfl⟩

end Revm.Proofs.EvmInstHooks
