import Revm.Proofs.JournalInv
/-! C06: along every admissible history the journal only refers to entries of the state map that are present,
so `checkpoint_revert` of a live checkpoint never hits an `unwrap` on a vacant entry. -/
namespace Revm.Proofs.Journal
open Revm Revm.Model.Journal Revm.Spec.JournalAbs
set_option linter.unusedSimpArgs false
set_option linter.unusedVariables false

theorem _root_.Revm.Spec.JournalAbs.JRefs.of_pushes {db : Db} {s s' : JState} {es : List Entry} (h : JRefs s) (p : Pushes db s s' es)
    (hne : s.journal ≠ []) : JRefs s' := by
  obtain ⟨top, rest, hj⟩ : ∃ top rest, s.journal = top :: rest := by
    cases hj : s.journal with
    | nil => exact absurd hj hne
    | cons t r => exact ⟨t, r, rfl⟩
  intro l hl e he
  rw [p.journal top rest hj] at hl
  rcases List.mem_cons.1 hl with rfl | hl
  · rcases List.mem_append.1 he with he | he
    · exact p.refs e he
    · exact refsOk_mono p.grows (h top (by rw [hj]; simp) e he)
  · exact refsOk_mono p.grows (h l (by rw [hj]; simp [hl]) e he)

theorem _root_.Revm.Spec.JournalAbs.JRefs.of_same {s s' : JState} (h : JRefs s) (h1 : s'.state = s.state) (h2 : s'.journal = s.journal) :
    JRefs s' := by
  intro l hl e he
  rw [h2] at hl
  exact refsOk_congr h1 (h l hl e he)

theorem _root_.Revm.Spec.JournalAbs.JRefs.checkpoint {s : JState} (h : JRefs s) : JRefs (checkpoint s).1 := by
  intro l hl e he
  change l ∈ [] :: s.journal at hl
  rcases List.mem_cons.1 hl with rfl | hl
  · cases he
  · exact refsOk_congr (s := s) rfl (h l hl e he)

variable {db : Db} {J L : Nat} {x0 : AState} {logs0 : List Nat} {spec0 : Nat} {pre0 : Addr → Bool} {base : Nat}

/-- the references stay valid along one admissible step -/
theorem jrefs_step {hasStorage : Addr → Bool} (hdb : DbOk db hasStorage) {r r' : Run} {op : Op} {b : Nat}
    (hbal : BalOk (absT db r.js)) (hne : r.js.journal ≠ []) (hr : JRefs r.js)
    (hadm : admissible db hasStorage b r op = true) (hs : Spec.JournalAbs.step db r op = some r') :
    JRefs r'.js := by
  cases op with
  | load a =>
    simp only [Spec.JournalAbs.step, Option.map_eq_some_iff] at hs
    obtain ⟨⟨js', c⟩, h1, rfl⟩ := hs
    exact hr.of_pushes (loadAccount_pushes (db := db) h1).1 hne
  | loadCode a =>
    simp only [Spec.JournalAbs.step, Option.map_eq_some_iff] at hs
    obtain ⟨⟨js', c⟩, h1, rfl⟩ := hs
    exact hr.of_pushes (loadCode_pushes (db := db) h1).1 hne
  | loadDelegated a =>
    simp only [Spec.JournalAbs.step, Option.map_eq_some_iff] at hs
    obtain ⟨⟨js', e, c, d⟩, h1, rfl⟩ := hs
    obtain ⟨⟨es, p⟩, _⟩ := loadAccountDelegated_pushes (db := db) h1
    exact hr.of_pushes p hne
  | initLoad a ks => simp [admissible] at hadm
  | touch a =>
    simp only [Spec.JournalAbs.step, Option.map_eq_some_iff] at hs
    obtain ⟨js', h1, rfl⟩ := hs
    obtain ⟨es, p, _⟩ := touch_pushes (db := db) h1
    exact hr.of_pushes p hne
  | transfer f t v =>
    simp only [Spec.JournalAbs.step, Option.map_eq_some_iff] at hs
    obtain ⟨⟨js', e⟩, h1, rfl⟩ := hs
    obtain ⟨⟨es, p⟩, _⟩ := transfer_pushes (db := db) hbal h1
    exact hr.of_pushes p hne
  | incNonce a =>
    simp only [Spec.JournalAbs.step, Option.map_eq_some_iff] at hs
    obtain ⟨⟨js', e⟩, h1, rfl⟩ := hs
    obtain ⟨es, p, _⟩ := incNonce_pushes (db := db) h1
    exact hr.of_pushes p hne
  | setCode a hash =>
    simp only [Spec.JournalAbs.step, Option.map_eq_some_iff] at hs
    obtain ⟨js', h1, rfl⟩ := hs
    have hk : ∀ acc, r.js.state a = some acc → acc.info.codeHash = KECCAK_EMPTY := by
      intro acc hacc; simp [admissible, hacc] at hadm; exact hadm
    obtain ⟨es, p, _⟩ := setCode_pushes (db := db) hk h1
    exact hr.of_pushes p hne
  | sload a k =>
    simp only [Spec.JournalAbs.step, Option.map_eq_some_iff] at hs
    obtain ⟨⟨js', v, c⟩, h1, rfl⟩ := hs
    exact hr.of_pushes (sload_pushes (db := db) h1).1 hne
  | sstore a k v =>
    simp only [Spec.JournalAbs.step, Option.map_eq_some_iff] at hs
    obtain ⟨⟨js', o, p, n, c⟩, h1, rfl⟩ := hs
    obtain ⟨⟨es, p⟩, _⟩ := sstore_pushes (db := db) h1
    exact hr.of_pushes p hne
  | tload a k => simp [Spec.JournalAbs.step] at hs; subst hs; exact hr
  | tstore a k v =>
    simp only [Spec.JournalAbs.step, Option.map_eq_some_iff] at hs
    obtain ⟨js', h1, rfl⟩ := hs
    obtain ⟨es, p, _⟩ := tstore_pushes (db := db) h1
    exact hr.of_pushes p hne
  | log l => simp [Spec.JournalAbs.step] at hs; subst hs; exact hr.of_same rfl rfl
  | selfdestruct a t =>
    simp only [Spec.JournalAbs.step, Option.map_eq_some_iff] at hs
    obtain ⟨⟨js', x⟩, h1, rfl⟩ := hs
    obtain ⟨⟨es, p⟩, _⟩ := selfdestruct_pushes (db := db) hbal h1
    exact hr.of_pushes p hne
  | create c a hst bal spec =>
    simp only [Spec.JournalAbs.step] at hs
    simp only [admissible, Bool.and_eq_true, Bool.or_eq_true, Bool.not_eq_true'] at hadm
    obtain ⟨⟨ha1, ha2⟩, ha3⟩ := hadm
    have hcr : ∀ acc, r.js.state a = some acc → acc.created = false := by
      intro acc hacc; simp [hacc] at ha1; exact ha1
    have hcal : ∀ acc, r.js.state c = some acc → bal ≤ acc.info.balance := by
      intro acc hacc; simp [hacc] at ha3; exact ha3
    cases hc : createAccountCheckpoint r.js c a hst bal spec with
    | none => simp [hc] at hs
    | some res =>
      obtain ⟨js', out⟩ := res
      have hp := create_pushes hdb hbal hcr ha2 hcal hc
      cases out with
      | error e => simp [hc] at hs; subst hs; exact hr.of_pushes hp hne
      | ok cp =>
        simp [hc] at hs; subst hs
        obtain ⟨rfl, es, p, _⟩ := hp
        exact hr.checkpoint.of_pushes p (by simp [Model.Journal.checkpoint])
  | checkpoint => simp [Spec.JournalAbs.step] at hs; subst hs; exact hr.checkpoint
  | commit => simp [Spec.JournalAbs.step] at hs; subst hs; exact hr.of_same rfl rfl
  | revert i =>
    simp only [Spec.JournalAbs.step] at hs
    cases hcp : r.cps[i]? with
    | none => simp [hcp] at hs
    | some cp =>
      simp only [hcp, Option.map_eq_some_iff] at hs
      obtain ⟨js', h1, rfl⟩ := hs
      have g := revert_grows h1
      intro l hl e he
      have hj : js'.journal = r.js.journal.drop (r.js.journal.length - cp.journalI) := by
        unfold Model.Journal.revert at h1
        by_cases hlt : r.js.journal.length < cp.journalI
        · simp [hlt] at h1
        · simp only [hlt, if_false] at h1
          split at h1
          · cases h1
          · cases h1; rfl
      rw [hj] at hl
      exact refsOk_mono g (hr l (List.mem_of_mem_drop hl) e he)

theorem jrefs_run {hasStorage : Addr → Bool} (hdb : DbOk db hasStorage) (ops : List Op) {r r' : Run}
    (h : Inv db J L x0 logs0 spec0 pre0 base r) (hr : JRefs r.js)
    (hadm : admissibleRun db hasStorage base r ops = true) (hrun : run db r ops = some r') : JRefs r'.js := by
  induction ops generalizing r with
  | nil => simp [run] at hrun; subst hrun; exact hr
  | cons op ops ih =>
    simp only [run] at hrun
    simp only [admissibleRun, Bool.and_eq_true] at hadm
    cases hs : Spec.JournalAbs.step db r op with
    | none => simp [hs] at hrun
    | some r1 =>
      simp only [hs] at hrun hadm
      have hne : r.js.journal ≠ [] := by
        intro e; have := h.len; rw [e] at this; simp at this
      exact ih (inv_step hdb h hadm.1 hs) (jrefs_step hdb h.bal hne hr hadm.1 hs) hadm.2 hrun


/-- **C06, total form.** As `revert_restores_core`, and the revert itself does not panic: from a state whose
journal refers to present entries only (true of `JournaledState::new` and preserved by every operation) -/
theorem revert_restores_total {hasStorage : Addr → Bool} (hdb : DbOk db hasStorage) {rpre r0 r : Run} {op : Op}
    {cp : Checkpoint} {ops : List Op}
    (hbal : BalOk (absT db rpre.js)) (hrefs : JRefs rpre.js) (hne : rpre.js.journal ≠ [])
    (hadm0 : admissible db hasStorage 0 rpre op = true)
    (hs : Spec.JournalAbs.step db rpre op = some r0) (hcp : r0.cps = rpre.cps ++ [cp])
    (hadm : admissibleRun db hasStorage (rpre.cps.length + 1) r0 ops = true)
    (hr : run db r0 ops = some r) :
    ∃ s', Model.Journal.revert r.js cp = some s' ∧ AbsEq db s' rpre.js := by
  obtain ⟨hcpe, i0⟩ := inv_init hdb hbal hadm0 hs hcp
  have i := inv_run hdb ops i0 hadm hr
  have j0 : JRefs r0.js := jrefs_step hdb hbal hne hrefs hadm0 hs
  have j := jrefs_run hdb ops i0 j0 hadm hr
  have hJ : cp.journalI = rpre.js.journal.length := by rw [hcpe]; rfl
  obtain ⟨s', h1, _, _⟩ := revert_isSome (cp := cp) j (by rw [hJ]; exact Nat.le_of_lt i.len)
  exact ⟨s', h1, revert_restores_core hdb hbal hadm0 hs hcp hadm hr h1⟩
