import Revm.Proofs.InterpInstr
import Revm.Proofs.InterpCost
/-! Proofs for C25, part 4: instructions that move the instruction pointer (PUSHn, JUMP, JUMPI), instructions that
ask the host, and calls / creates; then `execInstr` and `step` as a whole. -/
set_option linter.unusedSimpArgs false
set_option linter.unusedVariables false
namespace Revm.Proofs.Interp
open Revm Revm.Model Revm.Model.Interp
open Revm.Proofs.Memory (WF)

/-- the host's answers are Rust values: a `Bytes` is at most `isize::MAX` long -/
def RespOk (r : HostResp) : Prop := r.bytes.length ≤ Memory.ISIZE_MAX

/-- the return-data window of a call lies inside the memory of the caller (or is empty) -/
def RetOk (a : Action) (L : Nat) : Prop :=
  match a with
  | .call i => i.retEnd - i.retStart = 0 ∨ (i.retStart ≤ i.retEnd ∧ i.retEnd ≤ L)
  | .create _ => True

/-- an action leaves the instruction: invariant, gas for the child (and at least 1 more) consumed -/
structure ActOk (s0 : IState) (a : Action) (s' : IState) : Prop where
  core : Core 1 true false 0 s0 s'
  pcOk : s'.pc < s'.code.length
  gas : measure s' + a.gasLimit + 1 ≤ measure s0
  ret : RetOk a (clen s'.mem)

/-- what one resolved instruction may do (inductive predicates: looking at a statement never evaluates the
instruction) -/
inductive DoneGood (s0 : IState) : Done → Prop
  | next {s' : IState} (h : Next s0 s') : DoneGood s0 (.next s')
  | action {a : Action} {s' : IState} (h : ActOk s0 a s') : DoneGood s0 (.action a s')
  | halt {r : IResult} {o : List Nat} {s' : IState} (h : Halt s0 s') : DoneGood s0 (.halt r o s')

/-- what one instruction may do, started in `s0` (after the opcode fetch) -/
inductive Good (s0 : IState) : Outcome → Prop
  | pure {d : Done} (h : DoneGood s0 d) : Good s0 (.pure d)
  | host {op : HostOp} {k : HostResp → Done} (h : ∀ r, RespOk r → DoneGood s0 (k r)) : Good s0 (.host op k)

section ctl
variable {s0 s : IState}

theorem toDone_good (hs : Start s0) {e : Exec Unit}
    (h : Exec.Sat e (Halt s0) (fun _ s' => Done1 s0 s')) : DoneGood s0 e.toDone := by
  cases h with
  | ok h => exact .next (Done1.next hs h)
  | halt h => exact .halt h

theorem toDone_next {e : Exec Unit}
    (h : Exec.Sat e (Halt s0) (fun _ s' => Next s0 s')) : DoneGood s0 e.toDone := by
  cases h with
  | ok h => exact .next h
  | halt h => exact .halt h

/-- the action post-condition before the instruction pointer is looked at -/
def ActRel (s0 : IState) (a : Action) (s' : IState) : Prop :=
  ∃ k st ne L, Rel k st ne L s0 s' ∧ a.gasLimit + 1 ≤ k ∧ RetOk a L

theorem ActRel.ok (hs : Start s0) {a : Action} {s' : IState} (h : ActRel s0 a s') : ActOk s0 a s' := by
  obtain ⟨k, st, ne, L, hr, hk, hret⟩ := h
  have hk1 : 1 ≤ k := by omega
  refine ⟨(hr.mkStrict hk1).toCore.weaken hk1 (fun e => e) (fun e => by cases e) (Nat.zero_le _), ?_, ?_, ?_⟩
  · rw [hr.pc, hr.code, hs.codeLen]; have := hs.pc; omega
  · have := hr.meas; omega
  · cases a with
    | call i =>
      rcases hret with h0 | ⟨h1, h2⟩
      · exact Or.inl h0
      · exact Or.inr ⟨h1, Nat.le_trans h2 hr.memL⟩
    | create i => trivial

theorem toDoneAction_good (hs : Start s0) {e : Exec Action}
    (h : Exec.Sat e (Halt s0) (fun a s' => ActRel s0 a s')) : DoneGood s0 e.toDoneAction := by
  cases h with
  | ok h => exact .action (ActRel.ok hs h)
  | halt h => exact .halt h

/-! ### PUSHn, JUMP, JUMPI -/

theorem Core.withPc {k : Nat} {st ne : Bool} {L : Nat} {s' : IState} (h : Core k st ne L s0 s') (p : Nat) :
    Core k st ne L s0 { s' with pc := p } := { h with }

theorem Rel.toNext {k : Nat} {st ne : Bool} {L : Nat} {s' : IState} (hs : Start s0)
    (hr : Rel k st ne L s0 s') (hk : 1 ≤ k) : Next s0 s' := Done1.next hs (done1_of hr hk)

theorem pushI_sat (hs : Start s0) (h : Rel 0 false false 0 s0 s) (n : Nat) (hn : n ≤ 32) :
    Exec.Sat (pushI n s) (Halt s0) (fun _ s' => Next s0 s') := by
  unfold pushI
  refine sat_bind (gasCharge_sat h _) ?_
  intro _ s1 h1
  have hpc : s1.pc + n ≤ s1.code.length := by
    rw [h1.pc, h1.code, hs.codeLen]; have := hs.pc; omega
  refine sat_bind (m := codeSlice n) (Q := fun _ s' => s1 = s') ?_ ?_
  · unfold codeSlice; rw [if_pos hpc]; exact sat_ok rfl
  · rintro bs _ rfl
    refine sat_bind (stackCall_sat (h1.mkStrict (by decide)) _ (.pushSlice bs) trivial ?_) ?_
    · intro d
      exact ⟨rfl, fun e => by show Stack.Out.ofUnit _ = _; rw [e]; rfl,
        fun e => by show Stack.Out.ofUnit _ = _; rw [e]; rfl⟩
    · intro _ s2 h2
      refine sat_ok ?_
      show Next s0 { s2 with pc := s2.pc + n }
      have hk : 1 ≤ 0 + GasCalc.VERYLOW := by decide
      refine ⟨((h2.toCore).weaken hk (fun e => e) (fun e => e) (Nat.le_refl _)).withPc _, ?_⟩
      show s2.pc + n < s2.code.length
      rw [h2.pc, h2.code, hs.codeLen]; have := hs.pc; omega

theorem jumpInner_sat {k : Nat} {st ne : Bool} {L : Nat} (hs : Start s0) (h : Rel k st ne L s0 s)
    (hk : 1 ≤ k) (target : Nat) :
    Exec.Sat (jumpInner target s) (Halt s0) (fun _ s' => Next s0 s') := by
  unfold jumpInner
  refine sat_bind (asUsizeOrFail_sat h target _) ?_
  rintro t _ ⟨rfl, ht⟩
  refine sat_bind (getS_sat h) ?_
  rintro _ _ ⟨rfl, rfl⟩
  cases hv : Jump.isValid s.jumpTable t with
  | false =>
    simp only [Bool.not_false, if_true]
    exact haltWith_sat h _
  | true =>
    simp only [Bool.not_true, Bool.false_eq_true, if_false]
    refine sat_ok ?_
    show Next s0 { s with pc := t }
    have hc : Core 1 true false 0 s0 s :=
      ((h.mkStrict hk).toCore).weaken hk (fun e => e) (fun e => by cases e) (Nat.zero_le _)
    refine ⟨hc.withPc t, ?_⟩
    show t < s.code.length
    have := hs.jt t (by rw [← h.jt]; exact hv)
    rw [h.code, hs.codeLen]; omega

theorem jumpI_sat (hs : Start s0) (h : Rel 0 false false 0 s0 s) :
    Exec.Sat (jumpI s) (Halt s0) (fun _ s' => Next s0 s') := by
  unfold jumpI
  refine sat_bind (gasCharge_sat h _) ?_
  intro _ s1 h1
  refine sat_bind (pop1_sat h1) ?_
  intro target s2 h2
  exact jumpInner_sat hs h2 (by decide) target

theorem jumpiI_sat (hs : Start s0) (h : Rel 0 false false 0 s0 s) :
    Exec.Sat (jumpiI s) (Halt s0) (fun _ s' => Next s0 s') := by
  unfold jumpiI
  refine sat_bind (gasCharge_sat h _) ?_
  intro _ s1 h1
  refine sat_bind (pop2_sat h1) ?_
  rintro ⟨target, cond⟩ s2 h2
  show Exec.Sat ((if cond ≠ 0 then jumpInner target else pure ()) s2) _ _
  split
  · exact jumpInner_sat hs h2 (by decide) target
  · exact sat_pure (h2.toNext hs (by decide))

/-! ### the pure instructions as a whole -/

theorem sat_next_of_done1 (hs : Start s0) {e : Exec Unit}
    (h : Exec.Sat e (Halt s0) (fun _ s' => Done1 s0 s')) :
    Exec.Sat e (Halt s0) (fun _ s' => Next s0 s') :=
  sat_mono h (fun _ _ hq => Done1.next hs hq)

theorem Tier.cost_pos (t : Tier) : 1 ≤ t.cost := by cases t <;> decide

/-- an EOF-only handler in legacy code stops at `require_eof!` -/
theorem eofGuard_sat {α} (hs : Start s0) (k : Unit → M α) {Q : α → IState → Prop} :
    Exec.Sat ((requireEof >>= k) s0) (Halt s0) Q := by
  refine sat_bind (m := requireEof) (Q := fun _ _ => False) ?_ (fun _ _ hf => hf.elim)
  unfold requireEof
  rw [hs.legacy]
  exact sat_halt hs.rel.toCore.toHalt

theorem execPure_sat (hs : Start s0) (i : Instr) (m : M Unit) (hm : execPure i = some m) :
    Exec.Sat (m s0) (Halt s0) (fun _ s' => Next s0 s') := by
  have h := hs.rel
  cases i <;> simp only [execPure, Option.some.injEq, reduceCtorEq] at hm <;> subst hm
  case stop => exact haltWith_sat h _
  case invalid => exact haltWith_sat h _
  case unknown => exact haltWith_sat h _
  case eofOnly => exact eofGuard_sat hs _
  case rjump => unfold rjumpI; exact eofGuard_sat hs _
  case rjumpi => unfold rjumpiI; exact eofGuard_sat hs _
  case rjumpv => unfold rjumpvI; exact eofGuard_sat hs _
  case callf => unfold callfI; exact eofGuard_sat hs _
  case retf => unfold retfI; exact eofGuard_sat hs _
  case jumpf => unfold jumpfI; exact eofGuard_sat hs _
  case dupn => unfold dupnI; exact eofGuard_sat hs _
  case swapn => unfold swapnI; exact eofGuard_sat hs _
  case exchange => unfold exchangeI; exact eofGuard_sat hs _
  case dataload => unfold dataloadI; exact eofGuard_sat hs _
  case dataloadn => unfold dataloadnI; exact eofGuard_sat hs _
  case datasize => unfold datasizeI; exact eofGuard_sat hs _
  case datacopy => unfold datacopyI; exact eofGuard_sat hs _
  case returndataload => unfold returndataloadI; exact eofGuard_sat hs _
  case returnContract =>
    show Exec.Sat (if !s0.isEofInit then _ else _) _ _
    rw [hs.notInit]
    exact sat_halt h.toCore.toHalt
  case unop g f => exact sat_next_of_done1 hs (unopI_sat h _ f (Tier.cost_pos g))
  case binop g k f => exact sat_next_of_done1 hs (binopI_sat h _ k f (Tier.cost_pos g))
  case terop g f => exact sat_next_of_done1 hs (teropI_sat h _ f (Tier.cost_pos g))
  case exp => exact sat_next_of_done1 hs (expI_sat h)
  case pushVal g k v => exact sat_next_of_done1 hs (pushValI_sat h _ k v (Tier.cost_pos g))
  case difficulty => exact sat_next_of_done1 hs (difficultyI_sat hs h)
  case calldataload => exact sat_next_of_done1 hs (calldataloadI_sat h)
  case calldatacopy =>
    exact sat_next_of_done1 hs (copyToMem_sat h _ (fun s' hi _ _ => by rw [hi]; exact hs.inLen))
  case codecopy =>
    refine sat_next_of_done1 hs (copyToMem_sat h _ (fun s' _ hc ho => ?_))
    have := hs.origLe
    simp only [List.length_take]
    rw [ho]; omega
  case returndatacopy => exact sat_next_of_done1 hs (returndatacopyI_sat h)
  case blobhash => exact sat_next_of_done1 hs (blobhashI_sat h)
  case pop => exact sat_next_of_done1 hs (popI_sat h)
  case push0 => exact sat_next_of_done1 hs (push0I_sat h)
  case push n => exact pushI_sat hs h _ (by have := n.isLt; omega)
  case dup n => exact sat_next_of_done1 hs (dupI_sat h _ (by omega))
  case swap n => exact sat_next_of_done1 hs (swapI_sat h _ (by omega) (by have := n.isLt; omega))
  case mload => exact sat_next_of_done1 hs (mloadI_sat h)
  case mstore => exact sat_next_of_done1 hs (mstoreI_sat h)
  case mstore8 => exact sat_next_of_done1 hs (mstore8I_sat h)
  case mcopy => exact sat_next_of_done1 hs (mcopyI_sat h)
  case jump => exact jumpI_sat hs h
  case jumpi => exact jumpiI_sat hs h
  case jumpdest => exact sat_next_of_done1 hs (jumpdest_sat h)
  case ret => exact sat_next_of_done1 hs (returnInner_sat h _)
  case revert => exact sat_next_of_done1 hs (revertI_sat h)

end ctl

end Revm.Proofs.Interp
