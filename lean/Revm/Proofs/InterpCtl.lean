import Revm.Proofs.InterpInstr
import Revm.Proofs.InterpCost
/-! Proofs for C25, part 4: instructions that move the instruction pointer (PUSHn, JUMP, JUMPI), instructions that
ask the host, and calls / creates; then `execInstr` and `step` as a whole. -/
set_option linter.unusedSimpArgs false
set_option linter.unusedVariables false
namespace Revm.Proofs.Interp
open Revm Revm.Model Revm.Model.Interp
open Revm.Proofs.Memory (WF)

/-- the host's answers are Rust values: a `Bytes` is at most `isize::MAX` long -/
def RespOk (r : HostResp) : Prop := r.bytes.length ≤ Memory.ISIZE_MAX

/-- the return-data window of a call lies inside the memory of the caller (or is empty) -/
def RetOk (a : Action) (L : Nat) : Prop :=
  match a with
  | .call i => i.retEnd - i.retStart = 0 ∨ (i.retStart ≤ i.retEnd ∧ i.retEnd ≤ L)
  | .create _ => True
  | .eofCreate _ => True

/-- an action leaves the instruction: invariant, gas for the child (and at least 1 more) consumed -/
structure ActOk (s0 : IState) (a : Action) (s' : IState) : Prop where
  core : Core 1 true false 0 s0 s'
  pcOk : s'.pc < s'.code.length
  gas : measure s' + a.gasLimit + 1 ≤ measure s0
  ret : RetOk a (clen s'.mem)

/-- what one resolved instruction may do, for given post-conditions of halting (`H`), continuing (`N`) and
handing out an action (`A`) (inductive predicates: looking at a statement never evaluates the instruction) -/
inductive DoneGoodP (H N : IState → Prop) (A : Action → IState → Prop) : Done → Prop
  | next {s' : IState} (h : N s') : DoneGoodP H N A (.next s')
  | action {a : Action} {s' : IState} (h : A a s') : DoneGoodP H N A (.action a s')
  | halt {r : IResult} {o : List Nat} {s' : IState} (h : H s') : DoneGoodP H N A (.halt r o s')

inductive GoodP (H N : IState → Prop) (A : Action → IState → Prop) : Outcome → Prop
  | pure {d : Done} (h : DoneGoodP H N A d) : GoodP H N A (.pure d)
  | host {op : HostOp} {k : HostResp → Done} (h : ∀ r, RespOk r → DoneGoodP H N A (k r)) :
      GoodP H N A (.host op k)

/-- legacy code: what one instruction may do, started in `s0` (after the opcode fetch) -/
abbrev DoneGood (s0 : IState) : Done → Prop := DoneGoodP (Halt s0) (Next s0) (ActOk s0)
abbrev Good (s0 : IState) : Outcome → Prop := GoodP (Halt s0) (Next s0) (ActOk s0)

section ctl
variable {s0 s : IState}

theorem toDoneP {N : IState → Prop} {A : Action → IState → Prop} {Q : IState → Prop} {e : Exec Unit}
    (hN : ∀ s', Q s' → N s') (h : Exec.Sat e (Halt s0) (fun _ s' => Q s')) :
    DoneGoodP (Halt s0) N A e.toDone := by
  cases h with
  | ok h => exact .next (hN _ h)
  | halt h => exact .halt h

theorem toDone_good (hs : Start s0) {e : Exec Unit}
    (h : Exec.Sat e (Halt s0) (fun _ s' => Done1 s0 s')) : DoneGood s0 e.toDone :=
  toDoneP (fun _ hq => Done1.next hs hq) h

theorem toDone_next {e : Exec Unit}
    (h : Exec.Sat e (Halt s0) (fun _ s' => Next s0 s')) : DoneGood s0 e.toDone :=
  toDoneP (fun _ hq => hq) h

/-- the action post-condition before the instruction pointer is looked at -/
def ActRel (s0 : IState) (a : Action) (s' : IState) : Prop :=
  ∃ k st ne L, Rel k st ne L s0 s' ∧ a.gasLimit + 1 ≤ k ∧ RetOk a L

theorem ActRel.ok (hs : Start s0) {a : Action} {s' : IState} (h : ActRel s0 a s') : ActOk s0 a s' := by
  obtain ⟨k, st, ne, L, hr, hk, hret⟩ := h
  have hk1 : 1 ≤ k := by omega
  refine ⟨(hr.mkStrict hk1).toCore.weaken hk1 (fun e => e) (fun e => by cases e) (Nat.zero_le _), ?_, ?_, ?_⟩
  · rw [hr.pc, hr.code, hs.codeLen]; have := hs.pc; omega
  · have := hr.meas; omega
  · cases a with
    | call i =>
      rcases hret with h0 | ⟨h1, h2⟩
      · exact Or.inl h0
      · exact Or.inr ⟨h1, Nat.le_trans h2 hr.memL⟩
    | create i => trivial
    | eofCreate i => trivial

theorem toDoneActionP {N : IState → Prop} {A : Action → IState → Prop} {e : Exec Action}
    (hA : ∀ a s', ActRel s0 a s' → A a s') (h : Exec.Sat e (Halt s0) (fun a s' => ActRel s0 a s')) :
    DoneGoodP (Halt s0) N A e.toDoneAction := by
  cases h with
  | ok h => exact .action (hA _ _ h)
  | halt h => exact .halt h

theorem toDoneActionQ {N : IState → Prop} {A QA : Action → IState → Prop} {e : Exec Action}
    (hA : ∀ a s', QA a s' → A a s') (h : Exec.Sat e (Halt s0) (fun a s' => QA a s')) :
    DoneGoodP (Halt s0) N A e.toDoneAction := by
  cases h with
  | ok h => exact .action (hA _ _ h)
  | halt h => exact .halt h

theorem toDoneAction_good (hs : Start s0) {e : Exec Action}
    (h : Exec.Sat e (Halt s0) (fun a s' => ActRel s0 a s')) : DoneGood s0 e.toDoneAction :=
  toDoneActionP (fun _ _ hq => ActRel.ok hs hq) h

/-- an instruction that either hands out an action or continues (EXT*CALL) -/
theorem toDoneOptActionP {N : IState → Prop} {A : Action → IState → Prop} {e : Exec (Option Action)}
    (hN : ∀ s', Done1 s0 s' → N s') (hA : ∀ a s', ActRel s0 a s' → A a s')
    (h : Exec.Sat e (Halt s0) (fun oa s' => match oa with
      | some a => ActRel s0 a s'
      | none => Done1 s0 s')) :
    DoneGoodP (Halt s0) N A e.toDoneOptAction := by
  cases h with
  | @ok oa s' h =>
    cases oa with
    | some a => exact .action (hA _ _ h)
    | none => exact .next (hN _ h)
  | halt h => exact .halt h

/-! ### PUSHn, JUMP, JUMPI -/

theorem Core.withPc {k : Nat} {st ne : Bool} {L : Nat} {s' : IState} (h : Core k st ne L s0 s') (p : Nat) :
    Core k st ne L s0 { s' with pc := p } := { h with }

theorem Rel.toNext {k : Nat} {st ne : Bool} {L : Nat} {s' : IState} (hs : Start s0)
    (hr : Rel k st ne L s0 s') (hk : 1 ≤ k) : Next s0 s' := Done1.next hs (done1_of hr hk)

theorem pushI_sat (hs : Start s0) (h : Rel 0 false false 0 s0 s) (n : Nat) (hn : n ≤ 32) :
    Exec.Sat (pushI n s) (Halt s0) (fun _ s' => Next s0 s') := by
  unfold pushI
  refine sat_bind (gasCharge_sat h _) ?_
  intro _ s1 h1
  have hpc : s1.pc + n ≤ s1.code.length := by
    rw [h1.pc, h1.code, hs.codeLen]; have := hs.pc; omega
  refine sat_bind (m := codeSlice n) (Q := fun _ s' => s1 = s') ?_ ?_
  · unfold codeSlice; rw [if_pos hpc]; exact sat_ok rfl
  · rintro bs _ rfl
    refine sat_bind (stackCall_sat (h1.mkStrict (by decide)) _ (.pushSlice bs) trivial ?_) ?_
    · intro d
      exact ⟨rfl, fun e => by show Stack.Out.ofUnit _ = _; rw [e]; rfl,
        fun e => by show Stack.Out.ofUnit _ = _; rw [e]; rfl⟩
    · intro _ s2 h2
      refine sat_ok ?_
      show Next s0 { s2 with pc := s2.pc + n }
      have hk : 1 ≤ 0 + GasCalc.VERYLOW := by decide
      refine ⟨((h2.toCore).weaken hk (fun e => e) (fun e => e) (Nat.le_refl _)).withPc _, ?_⟩
      show s2.pc + n < s2.code.length
      rw [h2.pc, h2.code, hs.codeLen]; have := hs.pc; omega

theorem jumpInner_sat {k : Nat} {st ne : Bool} {L : Nat} (hs : Start s0) (h : Rel k st ne L s0 s)
    (hk : 1 ≤ k) (target : Nat) :
    Exec.Sat (jumpInner target s) (Halt s0) (fun _ s' => Next s0 s') := by
  unfold jumpInner
  refine sat_bind (asUsizeOrFail_sat h target _) ?_
  rintro t _ ⟨rfl, ht⟩
  refine sat_bind (getS_sat h) ?_
  rintro _ _ ⟨rfl, rfl⟩
  cases hv : Jump.isValid s.jumpTable t with
  | false =>
    simp only [Bool.not_false, if_true]
    exact haltWith_sat h _
  | true =>
    simp only [Bool.not_true, Bool.false_eq_true, if_false]
    refine sat_ok ?_
    show Next s0 { s with pc := t }
    have hc : Core 1 true false 0 s0 s :=
      ((h.mkStrict hk).toCore).weaken hk (fun e => e) (fun e => by cases e) (Nat.zero_le _)
    refine ⟨hc.withPc t, ?_⟩
    show t < s.code.length
    have := hs.jt t (by rw [← h.jt]; exact hv)
    rw [h.code, hs.codeLen]; omega

theorem jumpI_sat (hs : Start s0) (h : Rel 0 false false 0 s0 s) :
    Exec.Sat (jumpI s) (Halt s0) (fun _ s' => Next s0 s') := by
  unfold jumpI
  refine sat_bind (gasCharge_sat h _) ?_
  intro _ s1 h1
  refine sat_bind (pop1_sat h1) ?_
  intro target s2 h2
  exact jumpInner_sat hs h2 (by decide) target

theorem jumpiI_sat (hs : Start s0) (h : Rel 0 false false 0 s0 s) :
    Exec.Sat (jumpiI s) (Halt s0) (fun _ s' => Next s0 s') := by
  unfold jumpiI
  refine sat_bind (gasCharge_sat h _) ?_
  intro _ s1 h1
  refine sat_bind (pop2_sat h1) ?_
  rintro ⟨target, cond⟩ s2 h2
  show Exec.Sat ((if cond ≠ 0 then jumpInner target else pure ()) s2) _ _
  split
  · exact jumpInner_sat hs h2 (by decide) target
  · exact sat_pure (h2.toNext hs (by decide))

/-! ### the pure instructions as a whole -/

theorem sat_next_of_done1 (hs : Start s0) {e : Exec Unit}
    (h : Exec.Sat e (Halt s0) (fun _ s' => Done1 s0 s')) :
    Exec.Sat e (Halt s0) (fun _ s' => Next s0 s') :=
  sat_mono h (fun _ _ hq => Done1.next hs hq)

theorem Tier.cost_pos (t : Tier) : 1 ≤ t.cost := by cases t <;> decide

/-- an EOF-only handler in legacy code stops at `require_eof!` -/
theorem eofGuard_sat {α} (hs : Start s0) (k : Unit → M α) {Q : α → IState → Prop} :
    Exec.Sat ((requireEof >>= k) s0) (Halt s0) Q := by
  refine sat_bind (m := requireEof) (Q := fun _ _ => False) ?_ (fun _ _ hf => hf.elim)
  unfold requireEof
  rw [hs.legacy]
  exact sat_halt hs.rel.toCore.toHalt

/-- the instructions whose handler neither moves the instruction pointer nor looks at the code format -/
def isOrd : Instr → Bool
  | .stop | .invalid | .unknown | .unop _ _ | .binop _ _ _ | .terop _ _ | .exp | .pushVal _ _ _ | .difficulty
  | .calldataload | .calldatacopy | .returndatacopy | .blobhash | .pop | .push0 | .dup _ | .swap _
  | .mload | .mstore | .mstore8 | .mcopy | .jumpdest | .ret | .revert => true
  | _ => false

/-- every ordinary pure instruction, in any code format: invariant kept, no fault, ≥ 1 gas when it continues -/
theorem execOrd_sat (hb : Base s0) (i : Instr) (m : M Unit) (hm : execPure i = some m) (ho : isOrd i = true) :
    Exec.Sat (m s0) (Halt s0) (fun _ s' => Done1 s0 s') := by
  have h := hb.rel
  cases i <;> (try (simp only [isOrd, Bool.false_eq_true] at ho)) <;>
    (try (simp only [execPure, Option.some.injEq, reduceCtorEq] at hm)) <;> (try subst hm)
  case stop => exact haltWith_sat h _
  case invalid => exact haltWith_sat h _
  case unknown => exact haltWith_sat h _
  case unop g f => exact unopI_sat h _ f (Tier.cost_pos g)
  case binop g k f => exact binopI_sat h _ k f (Tier.cost_pos g)
  case terop g f => exact teropI_sat h _ f (Tier.cost_pos g)
  case exp => exact expI_sat h
  case pushVal g k v => exact pushValI_sat h _ k v (Tier.cost_pos g)
  case difficulty => exact difficultyI_sat hb.envOk h
  case calldataload => exact calldataloadI_sat h
  case calldatacopy =>
    exact copyToMem_sat h _ (fun s' hi _ _ => by rw [hi]; exact hb.inLen) _ (fun x _ => sat_ok rfl)
  case returndatacopy => exact returndatacopyI_sat h
  case blobhash => exact blobhashI_sat h
  case pop => exact popI_sat h
  case push0 => exact push0I_sat h
  case dup n => exact dupI_sat h _ (by omega)
  case swap n => exact swapI_sat h _ (by omega) (by have := n.isLt; omega)
  case mload => exact mloadI_sat h
  case mstore => exact mstoreI_sat h
  case mstore8 => exact mstore8I_sat h
  case mcopy => exact mcopyI_sat h
  case jumpdest => exact jumpdest_sat h
  case ret => exact returnInner_sat h _
  case revert => exact revertI_sat h

theorem execPure_sat (hs : Start s0) (i : Instr) (m : M Unit) (hm : execPure i = some m) :
    Exec.Sat (m s0) (Halt s0) (fun _ s' => Next s0 s') := by
  have h := hs.rel
  by_cases ho : isOrd i = true
  · exact sat_next_of_done1 hs (execOrd_sat hs.toBase i m hm ho)
  · cases i <;> (try (simp only [isOrd, not_true_eq_false] at ho)) <;>
      (try (simp only [execPure, Option.some.injEq, reduceCtorEq] at hm)) <;> (try subst hm)
    case rjump => unfold rjumpI; exact eofGuard_sat hs _
    case rjumpi => unfold rjumpiI; exact eofGuard_sat hs _
    case rjumpv => unfold rjumpvI; exact eofGuard_sat hs _
    case callf => unfold callfI; exact eofGuard_sat hs _
    case retf => unfold retfI; exact eofGuard_sat hs _
    case jumpf => unfold jumpfI; exact eofGuard_sat hs _
    case dupn => unfold dupnI; exact eofGuard_sat hs _
    case swapn => unfold swapnI; exact eofGuard_sat hs _
    case exchange => unfold exchangeI; exact eofGuard_sat hs _
    case dataload => unfold dataloadI; exact eofGuard_sat hs _
    case dataloadn => unfold dataloadnI; exact eofGuard_sat hs _
    case datasize => unfold datasizeI; exact eofGuard_sat hs _
    case datacopy => unfold datacopyI; exact eofGuard_sat hs _
    case returndataload => unfold returndataloadI; exact eofGuard_sat hs _
    case returnContract =>
      unfold returnContractI
      refine sat_bind (m := requireInitEof) (Q := fun _ _ => False) ?_ (fun _ _ hf => hf.elim)
      unfold requireInitEof
      rw [hs.notInit]
      exact sat_halt h.toCore.toHalt
    case codesize => exact sat_next_of_done1 hs (codesizeI_sat hs.legacy h)
    case codecopy =>
      refine sat_next_of_done1 hs (copyToMem_sat h _ (fun s' _ hc ho => ?_) _ (assumeNotEof_sat hs.legacy))
      have := hs.origLe
      simp only [List.length_take]
      rw [ho]; omega
    case push n => exact pushI_sat hs h _ (by have := n.isLt; omega)
    case jump => exact jumpI_sat hs h
    case jumpi => exact jumpiI_sat hs h

end ctl

end Revm.Proofs.Interp
