import Revm.Proofs.EvmLinkKeep5
/-! LINK, frame accounting and static mode, part 6: EXTCALL / EXTDELEGATECALL / EXTSTATICCALL and `Interp.step`:
**one step of any frame keeps `is_static` and the gas limit, only spends gas, and an action has paid for the gas it
hands to the child.** -/
set_option linter.unusedSimpArgs false
set_option linter.unusedVariables false
namespace Revm.Proofs.EvmLink
open Revm Revm.Model Revm.Model.Interp

/-- the stack push of the light failure keeps the gas meter -/
theorem keep_modifyS_gas {s0 s : IState} (h : Kept s0 s) (f : IState → IState) (hst : (f s).isStatic = s.isStatic)
    (hg : (f s).gas = s.gas) : Keep s0 (fun _ s' => s'.gas = s.gas) (modifyS f s) :=
  .ok (h.trans (kept_of_eq hst hg)) hg

attribute [local irreducible] gasCharge getS check requireNonStatic requireEof requireInitEof requireSome assumeNotEof
  gasOrFail refund advancePc setEof popN popTop setTop push stackCall stackCallAdv asUsizeOrFail resizeMem memSlice
  memSliceRange memGetU256 memSetU256 memSetByte memSetData memCopy codeSlice codeByte jumpRel getEof loadEofCode
  haltWith haltOut faultWith modifyS liftMemWrite pop1 pop2 pop3 pop4 popAddress popTop1 popTop2 popTop3 readU16 readI16
  resizeMemRange getMemoryInputAndOutRanges popExtcallTarget extcallInput

section
variable {s0 s : IState}

macro_rules | `(tactic| keep_prim) => `(tactic| first
  | exact keep_resizeMemRange ‹_› _ _
  | exact keep_getMemoryInputAndOutRanges ‹_› | exact keep_popExtcallTarget ‹_› | exact keep_extcallInput ‹_›)

theorem keep_rebase {s0 s : IState} {α} {Q : α → IState → Prop} {e : Exec α} (h : Kept s0 s) (hk : Keep s Q e) :
    Keep s0 Q e := by
  cases hk with
  | ok h' hq => exact .ok (h.trans h') hq
  | halt h' => exact .halt (h.trans h')
  | fault => exact .fault

/-- `extcall_gas_calc`: a granted gas limit has been paid -/
theorem keep_extcallGasCalc (h : Kept s0 s) (r : HostResp) (tv : Bool) :
    Keep s0 (fun g s' => ∀ gl, g = some gl → s'.gas.remaining + gl ≤ s.gas.remaining) (extcallGasCalc r tv s) := by
  refine keep_rebase h ?_
  have h := Kept.refl s
  unfold extcallGasCalc
  refine keep_bind (keep_requireSome h r) (fun _ s1 h1 _ => ?_)
  refine keep_bind (keep_gasCharge h1 _) (fun _ s2 h2 hq2 => ?_)
  refine keep_bind (keep_getS h2) (fun x s3 h3 hx => ?_)
  obtain ⟨rfl, rfl⟩ := hx
  (try dsimp only)
  have hle : s3.gas.remaining ≤ s.gas.remaining := h3.rem
  by_cases hc : U64ops.saturatingSub s3.gas.remaining (max (s3.gas.remaining / 64) 5000) < GasCalc.MIN_CALLEE_GAS
  · rw [if_pos hc]
    refine keep_bind (Q := T) (by keep_prim) (fun _ s4 h4 _ => ?_)
    exact keep_pure h4 (fun gl hg => nomatch hg)
  · rw [if_neg hc]
    refine keep_bind (keep_gasCharge h3 _) (fun _ s4 h4 hq4 => ?_)
    refine keep_pure h4 (fun gl hg => ?_)
    cases hg
    omega

theorem ext_post (h : Kept s0 s) (r : HostResp) (tv : Bool) (mk : Nat → IState → CallInputs)
    (hmk : ∀ g x, (mk g x).gasLimit = g) :
    Keep s0 (PaidOpt s0) ((do
      let g ← extcallGasCalc r tv
      match g with
      | none => pure none
      | some gasLimit => do
        let s ← getS
        pure (some (Action.call (mk gasLimit s))) : M (Option Action)) s) := by
  refine keep_bind (keep_extcallGasCalc h r tv) (fun g s1 h1 hq => ?_)
  cases g with
  | none => exact keep_pure h1 (fun x hx => nomatch hx)
  | some gl =>
    (try dsimp only)
    refine keep_bind (keep_getS h1) (fun y s2 h2 hy => ?_)
    obtain ⟨rfl, rfl⟩ := hy
    refine keep_pure h2 (fun x hx => ?_)
    cases hx
    show s2.gas.remaining + (mk gl s2).gasLimit ≤ s0.gas.remaining
    rw [hmk]
    have := hq gl rfl
    have := h.rem
    omega

theorem extcallI_kept (s : IState) : KOutcome s (extcallI s) := by
  unfold extcallI
  have h := Kept.refl s
  refine hostCallOptAction_kept ?_ (fun b r s' h => ?_)
  · keep_auto
  · obtain ⟨target, input, value⟩ := b
    exact ext_post h r _ (fun gl x =>
      { input := input, retStart := 0, retEnd := 0, gasLimit := gl, bytecodeAddress := target,
        targetAddress := target, caller := x.target, valueTransfer := true, value := value,
        scheme := .extCall, isStatic := x.isStatic, isEof := true }) (fun _ _ => rfl)

theorem extdelegatecallI_kept (s : IState) : KOutcome s (extdelegatecallI s) := by
  unfold extdelegatecallI
  have h := Kept.refl s
  refine hostCallOptAction_kept ?_ (fun b r s' h => ?_)
  · keep_auto
  · obtain ⟨target, input⟩ := b
    exact ext_post h r _ (fun gl x =>
      { input := input, retStart := 0, retEnd := 0, gasLimit := gl, bytecodeAddress := target,
        targetAddress := x.target, caller := x.caller, valueTransfer := false, value := x.callValue,
        scheme := .extDelegateCall, isStatic := x.isStatic, isEof := true }) (fun _ _ => rfl)

theorem extstaticcallI_kept (s : IState) : KOutcome s (extstaticcallI s) := by
  unfold extstaticcallI
  have h := Kept.refl s
  refine hostCallOptAction_kept ?_ (fun b r s' h => ?_)
  · keep_auto
  · obtain ⟨target, input⟩ := b
    exact ext_post h r _ (fun gl x =>
      { input := input, retStart := 0, retEnd := 0, gasLimit := gl, bytecodeAddress := target,
        targetAddress := target, caller := x.target, valueTransfer := true, value := 0,
        scheme := .extStaticCall, isStatic := true, isEof := true }) (fun _ _ => rfl)

/-- a weaker base: everything `Kept` after `s1` is `Kept` after `s0` -/
theorem KDone.rebase {s0 s1 : IState} (h : Kept s0 s1) (hg : s1.gas.remaining = s0.gas.remaining) {d : Done}
    (hd : KDone s1 d) : KDone s0 d := by
  cases hd with
  | next h' => exact .next (h.trans h')
  | halt h' => exact .halt (h.trans h')
  | fault => exact .fault
  | action h' hg' => exact .action (h.trans h') (by omega)

theorem execInstr_kept (i : Instr) (s : IState) : KOutcome s (execInstr i s) := by
  unfold execInstr
  cases hp : execPure i with
  | some m => exact .pure (toDone_kept (keep_execPure i m hp (Kept.refl s)))
  | none =>
    simp only
    cases i <;> first
      | exact keccak256I_kept s | exact balanceI_kept s | exact selfbalanceI_kept s | exact extcodesizeI_kept s
      | exact extcodehashI_kept s | exact extcodecopyI_kept s | exact blockhashI_kept s | exact sloadI_kept s
      | exact sstoreI_kept s | exact tloadI_kept s | exact tstoreI_kept s | exact logI_kept _ s
      | exact selfdestructI_kept s | exact createI_kept _ s | exact callI_kept s | exact callcodeI_kept s
      | exact delegatecallI_kept s | exact staticcallI_kept s | exact eofcreateI_kept s | exact extcallI_kept s
      | exact extdelegatecallI_kept s | exact extstaticcallI_kept s
      | exact .pure .fault

/-- **one interpreter step of any frame, in any state**: `is_static` and the limit of the gas meter are kept, gas is
only spent, and an action (call, create — directly or after the host's answer) has paid for the gas limit it hands
to the child: `remaining' + child_gas_limit ≤ remaining` -/
theorem step_kept (s : IState) : KOutcome s (step s) := by
  unfold step
  cases s.code[s.pc]? with
  | none => exact .pure .fault
  | some op =>
    (try dsimp only)
    have hk : Kept s { s with pc := s.pc + 1 } := ⟨rfl, rfl, Nat.le_refl _⟩
    have := execInstr_kept (decode op) { s with pc := s.pc + 1 }
    generalize execInstr (decode op) { s with pc := s.pc + 1 } = o at this
    cases this with
    | pure hd => exact .pure (hd.rebase hk rfl)
    | host hk' => exact .host (fun r => (hk' r).rebase hk rfl)

end
end Revm.Proofs.EvmLink
