import Revm.Model.Interp
/-! Frame condition, part 1: what EVERY handler of `Model.Interp` leaves alone. A handler never writes the frame's
`target` (the account whose storage / balance it acts on), its `caller`, or the `spec` of its instruction table:
`KeptT s0 s`. The predicate `KeepT` carries this through the handler monad; this file proves it of the primitives.
(Same shape as the `Kept` sweep of `EvmLinkKeep*.lean`, without the gas facts.) -/
set_option linter.unusedSimpArgs false
set_option linter.unusedVariables false
namespace Revm.Proofs.EvmInstTgt
open Revm Revm.Model Revm.Model.Interp

/-- `s` comes after `s0` in the same frame: same `target`, same `caller`, same `spec` -/
structure KeptT (s0 s : IState) : Prop where
  tgt : s.target = s0.target
  clr : s.caller = s0.caller
  spc : s.spec = s0.spec

theorem KeptT.refl (s : IState) : KeptT s s := ⟨rfl, rfl, rfl⟩
theorem KeptT.trans {a b c : IState} (h1 : KeptT a b) (h2 : KeptT b c) : KeptT a c :=
  ⟨h2.tgt.trans h1.tgt, h2.clr.trans h1.clr, h2.spc.trans h1.spc⟩

/-- a handler result whose state (ok or halt) is `KeptT` after `s0`; `Q` holds of an ok result -/
inductive KeepT (s0 : IState) {α} (Q : α → IState → Prop) : Exec α → Prop
  | ok {a s} (h : KeptT s0 s) (hq : Q a s) : KeepT s0 Q (.ok a s)
  | halt {r o s} (h : KeptT s0 s) : KeepT s0 Q (.halt r o s)
  | fault {f} : KeepT s0 Q (.fault f)

abbrev T {α} : α → IState → Prop := fun _ _ => True

theorem keepT_bind {s0 s : IState} {α β} {m : M α} {f : α → M β} {Q : α → IState → Prop} {Q' : β → IState → Prop}
    (h1 : KeepT s0 Q (m s)) (h2 : ∀ a s', KeptT s0 s' → Q a s' → KeepT s0 Q' (f a s')) :
    KeepT s0 Q' ((m >>= f) s) := by
  show KeepT s0 Q' (M.bind m f s)
  unfold M.bind
  cases hm : m s with
  | ok a s' => rw [hm] at h1; cases h1 with | ok h hq => exact h2 a s' h hq
  | halt r o s' => rw [hm] at h1; cases h1 with | halt h => exact .halt h
  | fault f => exact .fault

theorem keepT_pure {s0 s : IState} {α} {a : α} {Q : α → IState → Prop} (h : KeptT s0 s) (hq : Q a s) :
    KeepT s0 Q ((pure a : M α) s) := .ok h hq

theorem keepT_mono {s0 : IState} {α} {e : Exec α} {Q Q' : α → IState → Prop} (h : KeepT s0 Q e)
    (hq : ∀ a s, KeptT s0 s → Q a s → Q' a s) : KeepT s0 Q' e := by
  cases h with
  | ok h hq' => exact .ok h (hq _ _ h hq')
  | halt h => exact .halt h
  | fault => exact .fault

theorem keepT_rebase {s0 s : IState} {α} {Q : α → IState → Prop} {e : Exec α} (h : KeptT s0 s) (hk : KeepT s Q e) :
    KeepT s0 Q e := by
  cases hk with
  | ok h' hq => exact .ok (h.trans h') hq
  | halt h' => exact .halt (h.trans h')
  | fault => exact .fault

/-! ## primitives -/

section prims
variable {s0 s : IState}

theorem keepT_haltWith {α} (h : KeptT s0 s) (r : IResult) {Q : α → IState → Prop} :
    KeepT s0 Q ((haltWith r : M α) s) := .halt h
theorem keepT_haltOut {α} (h : KeptT s0 s) (r : IResult) (o : List Nat) {Q : α → IState → Prop} :
    KeepT s0 Q ((haltOut r o : M α) s) := .halt h
theorem keepT_faultWith {α} (f : Fault) {Q : α → IState → Prop} : KeepT s0 Q ((faultWith f : M α) s) := .fault

theorem keepT_getS (h : KeptT s0 s) : KeepT s0 (fun x s' => x = s ∧ s' = s) (getS s) := .ok h ⟨rfl, rfl⟩

theorem keepT_modifyS (h : KeptT s0 s) (f : IState → IState) (hf : KeptT s (f s)) : KeepT s0 T (modifyS f s) :=
  .ok (h.trans hf) trivial

theorem keepT_check (h : KeptT s0 s) (fork : Nat) : KeepT s0 T (check fork s) := by
  unfold check; split
  · exact .ok h trivial
  · exact .halt h

theorem keepT_requireNonStatic (h : KeptT s0 s) : KeepT s0 T (requireNonStatic s) := by
  unfold requireNonStatic; split
  · exact .halt h
  · exact .ok h trivial

theorem keepT_requireEof (h : KeptT s0 s) : KeepT s0 T (requireEof s) := by
  unfold requireEof; split
  · exact .halt h
  · exact .ok h trivial

theorem keepT_requireInitEof (h : KeptT s0 s) : KeepT s0 T (requireInitEof s) := by
  unfold requireInitEof; split
  · exact .halt h
  · exact .ok h trivial

theorem keepT_requireSome (h : KeptT s0 s) (r : HostResp) : KeepT s0 T (requireSome r s) := by
  unfold requireSome; split
  · exact .ok h trivial
  · exact .halt h

theorem keepT_assumeNotEof (h : KeptT s0 s) : KeepT s0 T (assumeNotEof s) := by
  unfold assumeNotEof; split
  · exact .fault
  · exact .ok h trivial

theorem keepT_gasCharge (h : KeptT s0 s) (c : Nat) : KeepT s0 T (gasCharge c s) := by
  unfold gasCharge
  generalize Gas.recordCost s.gas c = r
  obtain ⟨g', ok⟩ := r
  cases ok with
  | true => exact .ok (h.trans ⟨rfl, rfl, rfl⟩) trivial
  | false => exact .halt h

end prims
end Revm.Proofs.EvmInstTgt
