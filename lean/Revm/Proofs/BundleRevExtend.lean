import Revm.Proofs.BundleRevMain
import Revm.Proofs.BundleInvExtend
/-! C18, `revert` after `extend` (the region outside finding F5): `revert(j)` on `extend(A, B)`, for j within B's
blocks, none of them holding a storage-wiping revert, and no account that A holds with a destroyed status present
in B, leaves a bundle that describes the reference state after B's first n-j groups relative to A's pre-state.
Reuses the chain of B (`RevChain`, recorded relative to B's pre-state) with A's pre-state on the reverted side
(`revertLatest_rstate_gen`). Core Lean only. -/
namespace Revm.Proofs.Bundle
open Revm.Model.Bundle Revm.Spec.Bundle

set_option linter.unusedSimpArgs false
set_option linter.unusedVariables false

/-! ## `extend` leaves blocks without wiping reverts as they are -/

theorem erStepAcc_nowipe (st : BMap BAcct) (e : Nat × ARevert) (h : e.2.wipe = false) : erStepAcc st e = (st, e) := by
  simp [erStepAcc, h]

theorem erStepBlk_nowipe (st : BMap BAcct) (blk : BMap ARevert) (h : ∀ e, e ∈ blk → e.2.wipe = false) :
    erStepBlk st blk = (st, blk) := by
  unfold erStepBlk
  have gen : ∀ (b : BMap ARevert) (l : BMap ARevert), (∀ e, e ∈ b → e.2.wipe = false) →
      b.foldl (fun (acc : BMap BAcct × BMap ARevert) e => ((erStepAcc acc.1 e).1, acc.2 ++ [(erStepAcc acc.1 e).2])) (st, l)
        = (st, l ++ b) := by
    intro b
    induction b with
    | nil => intro l _; simp
    | cons e r ih =>
      intro l hb
      simp only [List.foldl]
      rw [erStepAcc_nowipe st e (hb e List.mem_cons_self)]
      rw [ih _ (fun e' he' => hb e' (List.mem_cons_of_mem _ he'))]
      simp
  simpa using gen blk [] h

theorem extendReverts_nowipe_suffix (st : BMap BAcct) (pre suf : List (BMap ARevert))
    (h : ∀ blk, blk ∈ suf → ∀ e, e ∈ blk → e.2.wipe = false) :
    ∃ Y, (extendReverts st (pre ++ suf)).2 = Y ++ suf := by
  rw [extendReverts_eq, List.foldl_append]
  generalize (pre.foldl (fun (acc : BMap BAcct × List (BMap ARevert)) blk =>
      ((erStepBlk acc.1 blk).1, acc.2 ++ [(erStepBlk acc.1 blk).2])) (st, [])) = p
  obtain ⟨st1, out1⟩ := p
  have gen : ∀ (sf : List (BMap ARevert)) (l : List (BMap ARevert)), (∀ blk, blk ∈ sf → ∀ e, e ∈ blk → e.2.wipe = false) →
      (sf.foldl (fun (acc : BMap BAcct × List (BMap ARevert)) blk =>
        ((erStepBlk acc.1 blk).1, acc.2 ++ [(erStepBlk acc.1 blk).2])) (st1, l)) = (st1, l ++ sf) := by
    intro sf
    induction sf with
    | nil => intro l _; simp
    | cons b r ih =>
      intro l hb
      simp only [List.foldl]
      rw [erStepBlk_nowipe st1 b (hb b List.mem_cons_self)]
      rw [ih _ (fun b' hb' => hb b' (List.mem_cons_of_mem _ hb'))]
      simp
  exact ⟨out1, by rw [gen suf out1 h]⟩

/-! ## the extended bundle matches the second bundle's state -/

theorem extend_rstate (b1 b2 : BState) (p0 r1 r2 : Plain) (h1 : BundleOK b1.state p0 r1)
    (h2 : BundleOK b2.state r1 r2) (hwi : WipeInv b2)
    (hreg : ∀ a t, b1.state.get a = some t → t.status.wasDestroyed = true → b2.state.get a = none) :
    RState (extend b1 b2) b2.state p0 r2 := by
  have hE := extend_bundleOK b1 b2 p0 r1 r2 h1 h2 hwi
  have hd := extendReverts_drained b1.state b2.reverts h1.1
  refine ⟨hE.1, fun a => ?_⟩
  have hEa := hE.2 a
  have hget : (extend b1 b2).state.get a = (b2.state.get a).elim ((extendReverts b1.state b2.reverts).1.get a)
      (fun o => extF o ((extendReverts b1.state b2.reverts).1.get a)) := by
    rw [extend_state_eq, extendState_get _ _ h2.1]
  cases ho : b2.state.get a with
  | none =>
    cases he : (extend b1 b2).state.get a with
    | none => rw [he] at hEa; exact ⟨hEa.1, hEa.2⟩
    | some e => rw [he] at hEa; exact ⟨hEa.1, hEa.2.1, hEa.2.2⟩
  | some o =>
    rw [ho] at hget
    simp only [Option.elim, extF] at hget
    have hos : StorageInv o (fun k => r1.slot a k) (fun k => r2.slot a k) := by
      have := h2.2 a; rw [ho] at this; exact this.2.2
    cases hst : (extendReverts b1.state b2.reverts).1.get a with
    | none =>
      rw [hst] at hget
      simp only at hget
      rw [hget] at hEa ⊢
      exact ⟨⟨hEa.1, hEa.2.1, hEa.2.2⟩, rfl, fun _ k hk => hk⟩
    | some t =>
      rw [hst] at hget
      simp only at hget
      rw [hget] at hEa ⊢
      have htnd : t.status.wasDestroyed = false := by
        cases hd.2 a with
        | inl h =>
          rw [hst] at h
          cases hwd : t.status.wasDestroyed with
          | false => rfl
          | true => have := hreg a t h.symm hwd; rw [ho] at this; cases this
        | inr h =>
          obtain ⟨_, ta, h2', h3⟩ := h
          rw [hst] at h3; injection h3 with h3
          cases hwd : ta.status.wasDestroyed with
          | false => rw [h3]; exact hwd
          | true => have := hreg a ta h2' hwd; rw [ho] at this; cases this
      refine ⟨⟨hEa.1, hEa.2.1, hEa.2.2⟩, ?_, fun hwa k hk => ?_⟩
      · show (t.status.transition o.status).wasDestroyed = o.status.wasDestroyed
        rw [transition_wd, htnd]; simp
      · show ((if o.status.wasDestroyed then o.storage else extendStorage t.storage o.storage).get k).isSome = true
        simp only [hwa, Bool.false_eq_true, if_false]
        exact extendStorage_keys _ _ hos.1 k (Or.inr hk)

/-- a bundle account whose address does not exist in the reference state has a destroyed status -/
theorem destroyed_of_noinfo (s : SState) (p0 r : Plain) (hinv : SInv s p0 r r) (hts : s.ts = []) (a : Nat) (t1 : BAcct)
    (hg : s.bundle.state.get a = some t1) (hn : r.acct a = none) : t1.status.wasDestroyed = true := by
  obtain ⟨_, _, hrest⟩ := hinv.acct a
  have htn : s.ts.get a = none := by rw [hts]; rfl
  cases hc : s.cache.get a with
  | none => rw [hc] at hrest; rw [hrest.2.1] at hg; cases hg
  | some c =>
    rw [hc] at hrest
    obtain ⟨_, ms, _, hF, hB⟩ := hrest
    rw [hg] at hB
    obtain ⟨hB1, hB2⟩ := hB
    have hhi : hasInfo ms = false := by
      have := hF.some_iff; rw [hn] at this; exact this.symm
    rw [hB1.status]
    exact hasInfo_false_st5 _ hhi hB2

/-! ## `revert(j)` down a chain whose blocks are a suffix of the bundle's blocks -/

theorem revertN_chain_ext (p0 p' : Plain) (hwf' : ∀ a, p'.acct a = none → ∀ k, p'.slot a k = 0) (j : Nat) :
    ∀ (fr : List (BMap BAcct × Plain)) (f : BMap BAcct × Plain) (b' : BState) (revs Y : List (BMap ARevert)),
    RevChain p0 (f :: fr) revs → j ≤ fr.length → b'.reverts = Y ++ revs.drop (revs.length - j) →
    (∀ blk, blk ∈ revs.drop (revs.length - j) → ∀ e, e ∈ blk → e.2.wipe = false) →
    RState b' f.1 p' f.2 →
    (∀ a, (f.1.get a).isSome = true → p0.acct a = none → p'.acct a = none) →
    ∃ f', (f :: fr)[j]? = some f' ∧ RState (revertN b' j) f'.1 p' f'.2 := by
  induction j with
  | zero => intro fr f b' revs Y _ _ _ _ hR _; exact ⟨f, by simp, hR⟩
  | succ j ih =>
    intro fr f b' revs Y hch hj hrev hnw hR hIII
    cases fr with
    | nil => simp at hj
    | cons f0 tl =>
      obtain ⟨pre, blk, hrevs, hblk, hrest⟩ := hch
      have hdrop : revs.drop (revs.length - (j + 1)) = pre.drop (pre.length - j) ++ [blk] := by
        rw [hrevs]
        have : (pre ++ [blk]).length - (j + 1) = pre.length - j := by simp
        rw [this, List.drop_append_of_le_length (Nat.sub_le _ _)]
      rw [hdrop] at hrev hnw
      have hrev' : b'.reverts = (Y ++ pre.drop (pre.length - j)) ++ [blk] := by rw [hrev, List.append_assoc]
      have hbw : ∀ e, e ∈ blk → e.2.wipe = false := hnw blk (by simp)
      have hl : b'.reverts.getLast? = some blk := by rw [hrev']; simp
      have hok : revertStepOk b' = true := by
        simp only [revertStepOk, hl, List.all_eq_true]
        intro e he
        simp only [wipeOk, hbw e he, Bool.not_false, Bool.true_or]
      obtain ⟨g1, g2, g3⟩ := revertLatest_rstate_gen b' f0.1 f.1 p0 p' f0.2 f.2 _ blk hrev' hR hblk hok
        (fun a r hr => ⟨fun hn hM => hIII a (hblk.pres a r hr) ((hblk.selfc a r hr).1 hn hM), hwf' a,
          fun hw => by rw [hbw (a, r) (mem_of_get _ _ _ hr)] at hw; cases hw⟩)
      obtain ⟨f', w1, w2⟩ := ih tl f0 (revertLatest b').1 pre Y hrest (by simpa using hj) g2
        (fun b hb => hnw b (by simp [hb])) g1
        (fun a ha => hIII a (hblk.mono a ha))
      refine ⟨f', by rw [List.getElem?_cons_succ]; exact w1, ?_⟩
      rw [revertN_succ]; simp only [g3, if_true]; exact w2

/-- **C18, `revert` after `extend`, region outside F5** -/
theorem extend_revert_proof (db db2 : BMap Info) (sc : Bool) (p0 : Plain) (h1 h2 : List Group) (j : Nat) (known : Bool)
    (hdb : dbMatches db p0) (hwf : plainWF p0) (hr : reachHistory sc p0 (h1 ++ h2) = true) :
    ∃ l1 l2, runHistory { db := db, sc := sc } p0 h1 = some l1 ∧
      ∀ s1 r1, l1.getLast? = some (s1, r1) → dbMatches db2 r1 →
        runHistory { db := db2, sc := sc } r1 h2 = some l2 ∧
        ∀ s2 r2, l2.getLast? = some (s2, r2) → extRevertOk s1.bundle s2.bundle j = true →
          ∀ tgt, (r1 :: l2.map (·.2))[h2.length - j]? = some tgt →
            PlainEq (applyChangeset (toPlainState (revertN (extend s1.bundle s2.bundle) j) known) p0) tgt := by
  rw [reachHistory_append, Bool.and_eq_true] at hr
  obtain ⟨l1, q1, _, q3⟩ := runHistory_inv sc p0 h1 { db := db, sc := sc } p0 (init_inv db sc p0 hdb hwf) rfl hr.1
  cases hl1 : l1.getLast? with
  | none => exact ⟨l1, [], q1, fun s1 r1 h => by rw [hl1] at h; cases h⟩
  | some x =>
    obtain ⟨s1, r1⟩ := x
    obtain ⟨i1, t1, e1, _⟩ := q3 s1 r1 hl1
    by_cases hdb2 : dbMatches db2 r1
    · have hr2 : reachHistory sc r1 h2 = true := by rw [e1]; exact hr.2
      have hwf1 := plainWF_of_inv s1 p0 r1 r1 i1
      have hinit2 := init_inv db2 sc r1 hdb2 hwf1
      obtain ⟨l2, w1, w2, w3⟩ := runHistory_inv sc r1 h2 { db := db2, sc := sc } r1 hinit2 rfl hr2
      refine ⟨l1, l2, q1, fun s1' r1' h _ => ?_⟩
      rw [hl1] at h; injection h with h; injection h with ha hb; subst ha; subst hb
      refine ⟨w1, fun s2 r2 hl2 hreg tgt htgt => ?_⟩
      obtain ⟨i2, t2, _, blks, hb1, hb2, _⟩ := w3 s2 r2 hl2
      have hOK1 := bundleOK_of_inv s1 p0 r1 i1 t1
      have hOK2 := bundleOK_of_inv s2 r1 r2 i2 t2
      simp only [extRevertOk, Bool.and_eq_true, decide_eq_true_eq, List.all_eq_true] at hreg
      obtain ⟨⟨hjle, hnw⟩, hdes⟩ := hreg
      have hrevlen : s2.bundle.reverts.length = h2.length := by
        rw [hb1]; simp only [List.nil_append]; rw [hb2, List.length_map, w2]
      -- the chain of the second bundle
      have hch := runHistory_chain sc r1 h2 { db := db2, sc := sc } r1 [] hinit2 rfl hr2
        (show RevChain r1 [(([] : BMap BAcct), r1)] [] from rfl) l2 w1
      have hlr : lastReverts { db := db2, sc := sc } l2 = s2.bundle.reverts := by simp only [lastReverts, hl2]
      rw [hlr] at hch
      obtain ⟨ys, hys⟩ := List.getLast?_eq_some_iff.mp hl2
      have hfr : (l2.map frameOf).reverse ++ [(([] : BMap BAcct), r1)] =
          (s2.bundle.state, r2) :: ((ys.map frameOf).reverse ++ [(([] : BMap BAcct), r1)]) := by
        rw [hys]; simp [frameOf]
      rw [hfr] at hch
      have hlen : ((ys.map frameOf).reverse ++ [(([] : BMap BAcct), r1)]).length = h2.length := by
        rw [← w2, hys]; simp
      -- the region
      have hregion : ∀ a t, s1.bundle.state.get a = some t → t.status.wasDestroyed = true →
          s2.bundle.state.get a = none := by
        intro a t hg hwd
        have := hdes (a, t) (mem_of_get _ _ _ hg)
        simp only [hwd, Bool.not_true, Bool.false_or, Option.isNone_iff_eq_none] at this
        exact this
      have hR0 := extend_rstate s1.bundle s2.bundle p0 r1 r2 hOK1 hOK2 i2.wipe hregion
      have hIII : ∀ a, (s2.bundle.state.get a).isSome = true → r1.acct a = none → p0.acct a = none := by
        intro a hs hn
        cases hg : s1.bundle.state.get a with
        | none => have := hOK1.2 a; rw [hg] at this; rw [← this.1]; exact hn
        | some t =>
          have hwd := destroyed_of_noinfo s1 p0 r1 i1 t1 a t hg hn
          rw [hregion a t hg hwd] at hs; cases hs
      -- the reverts of the extended bundle end with the last j blocks of the second bundle
      have hnw' : ∀ blk, blk ∈ s2.bundle.reverts.drop (s2.bundle.reverts.length - j) → ∀ e, e ∈ blk → e.2.wipe = false := by
        intro blk hblk e he
        simp only [noWipeInLast, List.all_eq_true] at hnw
        have := hnw blk hblk e he
        simpa using this
      obtain ⟨Y, hY⟩ := extendReverts_nowipe_suffix s1.bundle.state
        (s2.bundle.reverts.take (s2.bundle.reverts.length - j)) (s2.bundle.reverts.drop (s2.bundle.reverts.length - j)) hnw'
      rw [List.take_append_drop] at hY
      have hrevE : (extend s1.bundle s2.bundle).reverts =
          (s1.bundle.reverts ++ Y) ++ s2.bundle.reverts.drop (s2.bundle.reverts.length - j) := by
        rw [extend_reverts_eq, hY, List.append_assoc]
      obtain ⟨f', g1, g2⟩ := revertN_chain_ext r1 p0 hwf j _ (s2.bundle.state, r2) (extend s1.bundle s2.bundle)
        s2.bundle.reverts (s1.bundle.reverts ++ Y) hch (by rw [hlen, ← hrevlen]; exact hjle) hrevE hnw' hR0 hIII
      rw [← hfr] at g1
      have hsnd : ((l2.map frameOf).reverse ++ [(([] : BMap BAcct), r1)]).map (·.2) = (r1 :: l2.map (·.2)).reverse := by
        simp [frameOf, List.map_reverse, Function.comp_def]
      have g1' : ((r1 :: l2.map (·.2)).reverse)[j]? = some f'.2 := by
        rw [← hsnd, List.getElem?_map, g1]; rfl
      have hjl : j ≤ h2.length := by rw [← hrevlen]; exact hjle
      have hlt : j < (r1 :: l2.map (·.2)).length := by simp [w2]; omega
      rw [List.getElem?_reverse hlt] at g1'
      have hidx : (r1 :: l2.map (·.2)).length - 1 - j = h2.length - j := by simp [w2]
      rw [hidx, htgt] at g1'
      injection g1' with g1'
      rw [g1']
      exact changeset_of_bundleOK _ known p0 f'.2 g2.bundleOK
    · refine ⟨l1, [], q1, fun s1' r1' h hdb' => ?_⟩
      rw [hl1] at h; injection h with h; injection h with ha hb; subst ha; subst hb
      exact absurd hdb' hdb2

end Revm.Proofs.Bundle
