import Revm.Proofs.EvmInstSdRun
import Revm.Proofs.Evm
import Revm.Spec.Evm
/-! C29 / C30 instance: the hypotheses of `evm_hooks_balanced`, `evm_hooks_logs`, `evm_selfdestruct_notified_once` are
satisfiable by a non-trivial concrete run, evaluated by the kernel: the transaction calls contract `0xbb` (value 5),
which CALLs `0xcc`; `0xcc` runs `LOG0` and `SELFDESTRUCT` to the fresh account `0xdd` (balance 7 moves); `0xbb` stops. -/
namespace Revm.Proofs.EvmInstSd
open Revm Revm.Model Revm.Model.Evm Revm.Proofs.EvmInstHooks
open Revm.Model.InspectorHooks (Spawn Ev Kind runTx)

def witnessWorld : World := Revm.Spec.Evm.freshWorld 17
  [{ addr := 0xaa, balance := 10^18, nonce := 0, code := [], codeHash := Evm.KECCAK_EMPTY, storage := [] },
   { addr := 0xbb, balance := 1, nonce := 1,
     code := [0x60, 0, 0x60, 0, 0x60, 0, 0x60, 0, 0x60, 0, 0x60, 0xcc, 0x61, 0xff, 0xff, 0xf1, 0x00],
     codeHash := 0x1234, storage := [] },
   { addr := 0xcc, balance := 7, nonce := 1, code := [0x60, 0, 0x60, 0, 0xa0, 0x60, 0xdd, 0xff], codeHash := 0x5678,
     storage := [] }] true []

def witnessEnv : Env :=
  { block := { gasLimit := 30000000, basefee := 7, prevrandao := some 0, blobGasPrice := some 1 },
    tx := { caller := 0xaa, gasLimit := 200000, gasPrice := 10, to := some 0xbb, value := 5, nonce := some 0 } }

/-- completed?, the completed SELFDESTRUCTs, the appended logs, the number of turns, the callback word -/
def summary (p : R (Outcome × World) × Option (Spawn × List LEv)) :
    Bool × List (Nat × Nat × Nat) × List Nat × Nat × List Ev :=
  (Revm.Proofs.Evm.isOk p.1,
   match p.2 with
   | some (f, evs) =>
     (completedSelfdestructs evs, appendedLogs evs, (scriptOf evs).length, (runTx {} f (scriptOf evs)).2.word)
   | none => ([], [], 0, []))

/-- the traced run completes with a trace; three turns; one log, one self-destruct notification; the word -/
theorem witness_run :
    summary (transactTr 100 witnessWorld witnessEnv 17) =
      (true, [(0xcc, 0xdd, 7)], [0], 3,
       [.opn .call 0, .initInterp, .step, .stepEnd, .step, .stepEnd, .step, .stepEnd, .step, .stepEnd, .step, .stepEnd,
        .step, .stepEnd, .step, .stepEnd, .step, .stepEnd,
        .opn .call 1, .initInterp, .step, .stepEnd, .step, .stepEnd, .step, .stepEnd, .log 0, .step, .stepEnd,
        .step, .stepEnd, .selfdestruct 0xcc 0xdd 7, .cls .call 1 0,
        .step, .stepEnd, .cls .call 0 0]) := by decide +kernel

/-- hence the hypothesis of the headline theorems holds for some outcome and trace -/
theorem witness_hypothesis : ∃ o w' first evs,
    transactTr 100 witnessWorld witnessEnv 17 = (.ok (o, w'), some (first, evs)) ∧
    completedSelfdestructs evs = [(0xcc, 0xdd, 7)] ∧ appendedLogs evs = [0] := by
  have h := witness_run
  unfold summary at h
  cases hp : transactTr 100 witnessWorld witnessEnv 17 with
  | mk r t =>
    rw [hp] at h
    cases r with
    | error e => simp [Revm.Proofs.Evm.isOk] at h
    | ok x =>
      cases t with
      | none => simp at h
      | some y =>
        obtain ⟨o, w'⟩ := x
        obtain ⟨first, evs⟩ := y
        simp only [Prod.mk.injEq] at h
        exact ⟨o, w', first, evs, rfl, h.2.1, h.2.2.1⟩

end Revm.Proofs.EvmInstSd
