import Revm.Proofs.EvmInstWrapMachine
import Revm.Proofs.EvmInstStages
import Revm.Proofs.InspectorWrapTop
/-! Instantiating C28 with the whole-EVM model, part 3: "error outcomes return no gas" ON THE CONCRETE FUNCTIONS, and
`Respects (evmMachine C cfg lim) ORel.errGas`.

`Interp.insertCallOutcome`, `Interp.insertCreateOutcome` and the `last_frame_return` stage `EvmInst.lastFrameGas` of the
concrete model never read `gasRemaining` / `gasRefunded` of an outcome whose result is error-class (neither `return_ok!`
nor `return_revert!`). Hence the frame machine of the concrete model cannot tell apart two outcomes that differ only in
the gas of an error-class result: it respects `ORel.errGas`, the relation up to which `GasInspector` and the EIP-3155
tracer are observing. -/
namespace Revm.Proofs.EvmInstWrap
open Revm Revm.Model

variable {κ : Type}

/-! ## the concrete consumers are blind to the gas of an error-class outcome -/

/-- `Interpreter::insert_call_outcome` of the concrete model: for an error-class result the two gas fields are dead -/
theorem insert_call_outcome_blind_concrete (rs re : Nat) (o : Interp.ChildResult) (g : Nat) (r : Int)
    (h : isErr o.result = true) :
    Interp.insertCallOutcome rs re { o with gasRemaining := g, gasRefunded := r } =
      Interp.insertCallOutcome rs re o := by
  obtain ⟨hok, hrev⟩ := isErr_not_ok_revert h
  obtain ⟨res, out, gr, gf, addr⟩ := o
  simp only at hok hrev
  unfold Interp.insertCallOutcome
  simp only [hok, hrev, Bool.false_eq_true, if_false]

/-- `Interpreter::insert_create_outcome` of the concrete model -/
theorem insert_create_outcome_blind_concrete (o : Interp.ChildResult) (g : Nat) (r : Int)
    (h : isErr o.result = true) :
    Interp.insertCreateOutcome { o with gasRemaining := g, gasRefunded := r } = Interp.insertCreateOutcome o := by
  obtain ⟨hok, hrev⟩ := isErr_not_ok_revert h
  obtain ⟨res, out, gr, gf, addr⟩ := o
  simp only at hok hrev
  unfold Interp.insertCreateOutcome
  simp only [hok, hrev, Bool.false_eq_true, if_false]

/-- `last_frame_return` of the concrete model (`EvmInst.lastFrameGas`, the first stage of `Evm.finalGas`) -/
theorem last_frame_gas_blind_concrete (e : Evm.Env) (o : Interp.ChildResult) (g : Nat) (r : Int)
    (h : isErr o.result = true) :
    EvmInst.lastFrameGas e { o with gasRemaining := g, gasRefunded := r } = EvmInst.lastFrameGas e o := by
  obtain ⟨hok, hrev⟩ := isErr_not_ok_revert h
  obtain ⟨res, out, gr, gf, addr⟩ := o
  simp only at hok hrev
  unfold EvmInst.lastFrameGas
  simp only [hok, hrev, Bool.false_eq_true, if_false]

/-- hence the whole post-execution gas meter of the transaction -/
theorem final_gas_blind_concrete (e : Evm.Env) (spec floorGas refund : Nat) (o : Interp.ChildResult) (g : Nat)
    (r : Int) (h : isErr o.result = true) :
    Evm.finalGas e spec floorGas refund { o with gasRemaining := g, gasRefunded := r } =
      Evm.finalGas e spec floorGas refund o := by
  rw [EvmInst.finalGas_eq, EvmInst.finalGas_eq, last_frame_gas_blind_concrete e o g r h]

-- the hypothesis is satisfiable, and the statement is not void: the gas fields really differ
example : isErr ({ result := .InvalidJump, output := [], gasRemaining := 40, gasRefunded := 7 } :
    Interp.ChildResult).result = true := rfl

/-! ## two `errGas`-related abstract results have the same concrete reading, up to dead gas fields -/

/-- the concrete reading of `errGas`-related results: equal, or error-class and equal up to the two gas fields -/
theorem childOf_errGas {r r' : InspectorWrap.InterpreterResult} (h : InspectorWrap.errGasEq r r') (a : Option Nat) :
    childOf r' a = childOf r a ∨
    (isErr (childOf r a).result = true ∧
      childOf r' a = { childOf r a with gasRemaining := r'.gas.remaining, gasRefunded := r'.gas.refunded }) := by
  rcases Proofs.InspectorWrap.errGasEq_cases h with heq | ⟨he, hres, hout⟩
  · left; rw [heq]
  · right
    refine ⟨?_, ?_⟩
    · show isErr (ofIR r.result) = true
      rw [ofIR_isErr]; exact he
    · simp only [childOf, hres, hout]

theorem insertCall_childOf_errGas (rs re : Nat) {r r' : InspectorWrap.InterpreterResult}
    (h : InspectorWrap.errGasEq r r') (a : Option Nat) :
    Interp.insertCallOutcome rs re (childOf r' a) = Interp.insertCallOutcome rs re (childOf r a) := by
  rcases childOf_errGas h a with heq | ⟨he, heq⟩
  · rw [heq]
  · rw [heq]; exact insert_call_outcome_blind_concrete rs re _ _ _ he

theorem insertCreate_childOf_errGas {r r' : InspectorWrap.InterpreterResult}
    (h : InspectorWrap.errGasEq r r') (a : Option Nat) :
    Interp.insertCreateOutcome (childOf r' a) = Interp.insertCreateOutcome (childOf r a) := by
  rcases childOf_errGas h a with heq | ⟨he, heq⟩
  · rw [heq]
  · rw [heq]; exact insert_create_outcome_blind_concrete _ _ _ he

/-! ## `Respects` -/

/-- **the frame machine of the whole-EVM model respects `ORel.errGas`**: its four outcome consumers cannot tell apart
outcomes that differ in the gas of an error-class result -/
theorem evmMachine_respects (C : Evm.CpOps κ) (cfg : Evm.Cfg) (lim : Nat) :
    InspectorWrap.Respects (evmMachine C cfg lim) InspectorWrap.ORel.errGas where
  insertCall c f sh o o' h := by
    obtain ⟨hm, hg⟩ := h
    show evmInsertCall c f sh o' = evmInsertCall c f sh o
    unfold evmInsertCall
    rw [hm, insertCall_childOf_errGas _ _ hg]
  insertCreate c f o o' h := by
    obtain ⟨ha, hg⟩ := h
    show evmInsertCreate c f o' = evmInsertCreate c f o
    unfold evmInsertCreate
    rw [ha, insertCreate_childOf_errGas hg]
  insertEofcreate _ _ _ _ _ := rfl
  lastCall c o o' h := by
    show InspectorWrap.Res.ok (InspectorWrap.lastFrameReturn lim (.call o'), c) = .ok (InspectorWrap.lastFrameReturn lim (.call o), c)
    rw [Proofs.InspectorWrap.lastFrameReturn_blind_call lim o o' h]
  lastCreate c o o' h := by
    show InspectorWrap.Res.ok (InspectorWrap.lastFrameReturn lim (.create o'), c) = .ok (InspectorWrap.lastFrameReturn lim (.create o), c)
    rw [(Proofs.InspectorWrap.lastFrameReturn_blind_create lim o o' h).1]
  lastEofcreate c o o' h := by
    show InspectorWrap.Res.ok (InspectorWrap.lastFrameReturn lim (.eofcreate o'), c) = .ok (InspectorWrap.lastFrameReturn lim (.eofcreate o), c)
    rw [(Proofs.InspectorWrap.lastFrameReturn_blind_create lim o o' h).2]

/-! ## the abstract `last_frame_return` computes the concrete `lastFrameGas` -/

theorem lastFrameReturn_frameResultOf (e : Evm.Env) (isCreate : Bool) (lim0 : Nat) (res : Interp.ChildResult) :
    InspectorWrap.lastFrameReturn e.tx.gasLimit (frameResultOf isCreate lim0 res) =
      (frameResultOf isCreate lim0 res).setGas (EvmInst.lastFrameGas e res) := by
  unfold InspectorWrap.lastFrameReturn EvmInst.lastFrameGas
  cases isCreate <;>
    simp only [frameResultOf, InspectorWrap.FrameResult.interpreterResult, callOutcomeOf, createOutcomeOf, resOfChild,
      toIR_isOk, toIR_isRevert, Bool.false_eq_true, if_false, if_true] <;>
    (by_cases hok : res.result.isOk = true
     · simp only [hok, if_true]
     · simp only [hok, if_false, Bool.false_eq_true]
       by_cases hrev : res.result.isRevert = true
       · simp only [hrev, if_true]
       · simp only [hrev, if_false, Bool.false_eq_true])

end Revm.Proofs.EvmInstWrap
