import Revm.Proofs.AccessStep3
/-! C34: what the code has warmed when the first frame starts, against the EIP lists. -/
namespace Revm.Proofs.Access
open Revm Revm.Model.Journal Revm.Spec.JournalAbs Revm.Proofs.Journal Revm.Spec.AccessHistory
open Revm.Spec.AccessSets (Access Sets State TxEnv)
set_option linter.unusedSimpArgs false
set_option linter.unusedVariables false

theorem addAll_append (s : Sets) (xs ys : List Access) : (s.addAll xs).addAll ys = s.addAll (xs ++ ys) := by
  simp [Sets.addAll, List.foldl_append]

/-- keys of the pre-execution operations that do not depend on the state -/
def staticKeys : Op → List Access
  | .initLoad a ks => Access.addr a :: ks.map (Access.slot a)
  | .load a => [Access.addr a]
  | .loadCode a => [Access.addr a]
  | _ => []

def isStatic : Op → Prop
  | .initLoad _ _ => True
  | .load _ => True
  | .loadCode _ => True
  | _ => False

theorem lockRun_static {db : Db} {hasStorage : Addr → Bool} (ops : List Op) (hall : ∀ op, op ∈ ops → isStatic op)
    {l l' : Lock} (hr : lockRun db hasStorage l ops = some l') :
    l'.st.cur = l.st.cur.addAll (ops.flatMap staticKeys) := by
  induction ops generalizing l with
  | nil => simp [lockRun] at hr; subst hr; simp [Sets.addAll]
  | cons op ops ih =>
    simp only [lockRun] at hr
    cases hs : lockStep db hasStorage l op with
    | none => simp [hs] at hr
    | some l1 =>
      simp only [hs] at hr
      have h1 := ih (fun o ho => hall o (by simp [ho])) hr
      have hop := hall op (by simp)
      have hk : l1.st.cur = l.st.cur.addAll (staticKeys op) := by
        cases op <;> simp only [isStatic] at hop
        · exact lockStep_keys hs (Or.inr (Or.inl ⟨_, rfl⟩))
        · exact lockStep_keys hs (Or.inr (Or.inr (Or.inl ⟨_, rfl⟩)))
        · exact lockStep_keys hs (Or.inl ⟨_, _, rfl⟩)
      rw [h1, hk, addAll_append, List.flatMap_cons]

theorem lockRun_append {db : Db} {hasStorage : Addr → Bool} (xs ys : List Op) {l l' : Lock}
    (hr : lockRun db hasStorage l (xs ++ ys) = some l') :
    ∃ l1, lockRun db hasStorage l xs = some l1 ∧ lockRun db hasStorage l1 ys = some l' := by
  induction xs generalizing l with
  | nil => exact ⟨l, rfl, hr⟩
  | cons x xs ih =>
    simp only [List.cons_append, lockRun] at hr ⊢
    cases hs : lockStep db hasStorage l x with
    | none => simp [hs] at hr
    | some l1 => simp only [hs] at hr ⊢; exact ih hr


theorem map_addr_contains (xs : List Addr) (b : Addr) : (xs.map Access.addr).contains (Access.addr b) = xs.contains b := by
  induction xs with
  | nil => rfl
  | cons x xs ih =>
    rw [List.map_cons, List.contains_cons, List.contains_cons, ih]
    congr 1
    by_cases h : b = x
    · subst h; simp
    · have h1 : ¬ Access.addr b = Access.addr x := fun e => h (by cases e; rfl)
      have e1 : (Access.addr b == Access.addr x) = false := Bool.eq_false_iff.2 (fun e => h1 (eq_of_beq e))
      have e2 : (b == x) = false := Bool.eq_false_iff.2 (fun e => h (eq_of_beq e))
      rw [e1, e2]

theorem map_addr_contains_slot (xs : List Addr) (b : Addr) (k : Nat) :
    (xs.map Access.addr).contains (Access.slot b k) = false := by
  induction xs with
  | nil => rfl
  | cons x xs ih =>
    rw [List.map_cons, List.contains_cons, ih]
    have : (Access.slot b k == Access.addr x) = false := Bool.eq_false_iff.2 (fun e => by cases eq_of_beq e)
    rw [this]; rfl

/-- the pre-execution operations before the first frame -/
def prewarmPrefix (e : TxEnv) : List Op :=
  e.accessList.map (fun x => Op.initLoad x.1 x.2) ++ [Op.load e.sender] ++
  (if e.spec ≥ Spec.AccessSets.PRAGUE then e.authorities.map Op.loadCode else [])

def prewarmLast (e : TxEnv) (isCreate : Bool) : Op := if isCreate then Op.load e.target else Op.loadDelegated e.target

theorem codePrewarmOps_eq (e : TxEnv) (isCreate : Bool) :
    codePrewarmOps e isCreate = prewarmPrefix e ++ [prewarmLast e isCreate] := by
  simp [codePrewarmOps, prewarmPrefix, prewarmLast]

/-- every key the code has warmed when the first frame starts -/
def codeKeys (e : TxEnv) (delegate : Option Addr) : List Access :=
  (codePreloaded e).map Access.addr ++
  ((prewarmPrefix e).flatMap staticKeys ++ (Access.addr e.target :: (delegate.map Access.addr).toList))

theorem prewarm_cur {db : Db} {hasStorage : Addr → Bool} (e : TxEnv) (isCreate : Bool) {l : Lock}
    (hr : lockRun db hasStorage (Lock.init e.spec (fun a => (codePreloaded e).contains a))
      (codePrewarmOps e isCreate) = some l) :
    ∃ l1, lockRun db hasStorage (Lock.init e.spec (fun a => (codePreloaded e).contains a)) (prewarmPrefix e) = some l1 ∧
      SetsEq l.st.cur (Sets.empty.addAll (codeKeys e (if isCreate then none else delegateOf db l1.r.js e.target))) := by
  rw [codePrewarmOps_eq] at hr
  obtain ⟨l1, h1, h2⟩ := lockRun_append _ _ hr
  refine ⟨l1, h1, ?_⟩
  have hstat : ∀ op, op ∈ prewarmPrefix e → isStatic op := by
    intro op hop
    simp only [prewarmPrefix, List.mem_append, List.mem_map, List.mem_singleton] at hop
    rcases hop with (⟨x, _, rfl⟩ | rfl) | hop
    · trivial
    · trivial
    · split at hop
      · obtain ⟨x, _, rfl⟩ := List.mem_map.1 hop; trivial
      · cases hop
  have c1 := lockRun_static _ hstat h1
  simp only [lockRun] at h2
  cases hs : lockStep db hasStorage l1 (prewarmLast e isCreate) with
  | none => simp [hs] at h2
  | some l2 =>
    simp [hs] at h2; subst h2
    have c2 : l2.st.cur = l1.st.cur.addAll (opKeys db l1.r.js (prewarmLast e isCreate)) := by
      cases isCreate
      · exact lockStep_keys hs (Or.inr (Or.inr (Or.inr ⟨_, rfl⟩)))
      · exact lockStep_keys hs (Or.inr (Or.inl ⟨_, rfl⟩))
    rw [c2, c1, addAll_append]
    have hk : opKeys db l1.r.js (prewarmLast e isCreate) =
        Access.addr e.target :: ((if isCreate then none else delegateOf db l1.r.js e.target).map Access.addr).toList := by
      cases isCreate <;> simp [prewarmLast, opKeys, accessesOf]
    rw [hk]
    refine ⟨fun b => ?_, fun b k => ?_⟩
    · rw [addAll_addrs, addAll_addrs]
      simp only [codeKeys, Lock.init, Spec.AccessSets.State.init, Sets.empty, List.contains_append,
        map_addr_contains, Bool.false_or]
    · rw [addAll_slots, addAll_slots]
      simp only [codeKeys, Lock.init, Spec.AccessSets.State.init, Sets.empty, List.contains_append,
        map_addr_contains_slot, Bool.false_or]



theorem contains_congr {xs ys : List Access} (h : ∀ x, x ∈ xs ↔ x ∈ ys) (x : Access) :
    xs.contains x = ys.contains x := by
  rw [Bool.eq_iff_iff, List.contains_iff_mem, List.contains_iff_mem]; exact h x

theorem addAll_congr {xs ys : List Access} (h : ∀ x, x ∈ xs ↔ x ∈ ys) (s : Sets) :
    SetsEq (s.addAll xs) (s.addAll ys) :=
  ⟨fun a => by rw [addAll_addrs, addAll_addrs, contains_congr h],
   fun a k => by rw [addAll_slots, addAll_slots, contains_congr h]⟩

/-- the keys the code warms are, as a set, the EIP lists -/
theorem mem_codeKeys (e : TxEnv) (hB : e.spec ≥ Spec.AccessSets.BERLIN) (x : Access) :
    x ∈ codeKeys e (if e.spec ≥ Spec.AccessSets.PRAGUE then e.targetDelegate else none) ↔
    x ∈ Spec.AccessSets.eipPrewarm e := by
  have hnb : ¬ e.spec < Spec.AccessSets.BERLIN := Nat.not_lt.2 hB
  simp only [codeKeys, codePreloaded, prewarmPrefix, Spec.AccessSets.eipPrewarm, hnb, if_false,
    Spec.AccessSets.accessListKeys]
  by_cases hS : e.spec ≥ Spec.AccessSets.SHANGHAI <;> by_cases hP : e.spec ≥ Spec.AccessSets.PRAGUE <;>
    simp [hS, hP, List.flatMap_append, List.flatMap_map, staticKeys, List.mem_append, List.mem_flatMap,
      List.mem_map, Function.comp_def]
  all_goals grind

/-- the sets the code has built when the first frame starts = the EIP sets -/
theorem codeKeys_sets (e : TxEnv) (hB : e.spec ≥ Spec.AccessSets.BERLIN) :
    SetsEq (Sets.empty.addAll (codeKeys e (if e.spec ≥ Spec.AccessSets.PRAGUE then e.targetDelegate else none)))
      (Spec.AccessSets.txInit e).cur :=
  addAll_congr (mem_codeKeys e hB) _

theorem addAll_nil (s : Sets) : s.addAll [] = s := rfl

end Revm.Proofs.Access
