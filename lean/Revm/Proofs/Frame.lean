import Revm.Model.Frame
/-! Depth lemmas for the journal operations and the frame functions (C07). Core Lean only. -/
namespace Revm.Proofs.Frame
open Revm Revm.Model.Journal Revm.Model.Frame

/-- `depth -= 1` after `depth += 1` gives the old depth back, for every value (also at the wrap) -/
theorem dec_inc (x : Nat) : decU64 (incU64 x) = x := by
  unfold decU64 incU64
  have := U64_val
  split <;> split <;> omega

theorem inc_small {x : Nat} (h : x ≤ CALL_STACK_LIMIT) : incU64 x = x + 1 := by
  unfold incU64
  have := U64_val
  unfold CALL_STACK_LIMIT at h
  split <;> omega

theorem dec_pos {x : Nat} (h : 1 ≤ x) : decU64 x = x - 1 := by
  unfold decU64
  split <;> omega

@[simp] theorem setAcct_depth (s : JState) (a : Addr) (acc : Acct) : (setAcct s a acc).depth = s.depth := rfl
@[simp] theorem setTransient_depth (s : JState) (a k : Nat) (v : Option Nat) : (setTransient s a k v).depth = s.depth := rfl
@[simp] theorem log_depth (s : JState) (l : Nat) : (log s l).depth = s.depth := rfl
@[simp] theorem commit_depth (s : JState) : (commit s).depth = decU64 s.depth := rfl
@[simp] theorem checkpoint_depth (s : JState) : (checkpoint s).1.depth = incU64 s.depth := rfl

theorem pushEntry_depth {s s' : JState} {e : Entry} (h : pushEntry s e = some s') : s'.depth = s.depth := by
  unfold pushEntry at h
  split at h
  · cases h
  · cases h; rfl

theorem touchAccount_depth {s s' : JState} {a : Addr} {acc acc' : Acct}
    (h : touchAccount s a acc = some (s', acc')) : s'.depth = s.depth := by
  simp only [touchAccount, bind, Option.bind] at h
  grind [pushEntry_depth, setAcct_depth]

theorem touch_depth {s s' : JState} {a : Addr} (h : touch s a = some s') : s'.depth = s.depth := by
  simp only [touch] at h
  grind [touchAccount_depth, Option.map_eq_some_iff]

theorem loadAccount_depth {db : Db} {s s' : JState} {a : Addr} {c : Bool}
    (h : loadAccount db s a = some (s', c)) : s'.depth = s.depth := by
  simp only [loadAccount] at h
  grind [pushEntry_depth, setAcct_depth, Option.map_eq_some_iff]

theorem loadCode_depth {db : Db} {s s' : JState} {a : Addr} {c : Bool}
    (h : loadCode db s a = some (s', c)) : s'.depth = s.depth := by
  simp only [loadCode, bind, Option.bind] at h
  grind [loadAccount_depth, setAcct_depth]

theorem loadAccountDelegated_depth {db : Db} {s s' : JState} {a : Addr} {r}
    (h : loadAccountDelegated db s a = some (s', r)) : s'.depth = s.depth := by
  simp only [loadAccountDelegated, bind, Option.bind_eq_some_iff] at h
  obtain ⟨⟨s1, c1⟩, h1, acc, h2, h3⟩ := h
  have d1 := loadCode_depth h1
  split at h3
  · simp only [Option.bind_eq_some_iff] at h3
    obtain ⟨⟨s2, c2⟩, h4, h5⟩ := h3
    have d2 := loadAccount_depth h4
    grind
  · grind

theorem transfer_depth {db : Db} {s s' : JState} {a b v : Nat} {r}
    (h : transfer db s a b v = some (s', r)) : s'.depth = s.depth := by
  simp only [transfer, bind, Option.bind_eq_some_iff] at h
  obtain ⟨⟨s1, c1⟩, h1, ⟨s2, c2⟩, h2, fa, h3, ⟨s3, fa'⟩, h4, h5⟩ := h
  have d1 := loadAccount_depth h1
  have d2 := loadAccount_depth h2
  have d3 := touchAccount_depth h4
  split at h5
  · grind
  · simp only [Option.bind_eq_some_iff] at h5
    obtain ⟨ta, h6, ⟨s4, ta'⟩, h7, h8⟩ := h5
    have d4 := touchAccount_depth h7
    simp only [setAcct_depth] at d4
    split at h8
    · simp only [Option.bind_eq_some_iff] at h8
      grind [setAcct_depth]
    · simp only [Option.bind_eq_some_iff] at h8
      grind [setAcct_depth, pushEntry_depth]

theorem incNonce_depth {s s' : JState} {a : Addr} {r}
    (h : incNonce s a = some (s', r)) : s'.depth = s.depth := by
  simp only [incNonce, bind, Option.bind_eq_some_iff] at h
  obtain ⟨acc, h1, h2⟩ := h
  split at h2
  · grind
  · simp only [Option.bind_eq_some_iff] at h2
    obtain ⟨⟨s1, acc1⟩, h3, s2, h4, h5⟩ := h2
    have d1 := touchAccount_depth h3
    have d2 := pushEntry_depth h4
    grind [setAcct_depth]

theorem setCode_depth {s s' : JState} {a : Addr} {hash : Nat}
    (h : setCode s a hash = some s') : s'.depth = s.depth := by
  simp only [setCode, bind, Option.bind_eq_some_iff] at h
  obtain ⟨acc, h1, ⟨s1, acc1⟩, h3, s2, h4, h5⟩ := h
  have d1 := touchAccount_depth h3
  have d2 := pushEntry_depth h4
  grind [setAcct_depth]

theorem sload_depth {db : Db} {s s' : JState} {a k : Nat} {r}
    (h : sload db s a k = some (s', r)) : s'.depth = s.depth := by
  simp only [sload, bind, Option.bind_eq_some_iff] at h
  obtain ⟨acc, h1, h2⟩ := h
  grind [pushEntry_depth, setAcct_depth, Option.map_eq_some_iff]

theorem sstore_depth {db : Db} {s s' : JState} {a k v : Nat} {r}
    (h : sstore db s a k v = some (s', r)) : s'.depth = s.depth := by
  simp only [sstore, bind, Option.bind_eq_some_iff] at h
  obtain ⟨⟨s1, p, c⟩, h1, acc, h2, sl, h3, h4⟩ := h
  have d1 := sload_depth h1
  split at h4
  · grind
  · simp only [Option.bind_eq_some_iff] at h4
    obtain ⟨s2, h5, h6⟩ := h4
    have d2 := pushEntry_depth h5
    grind [setAcct_depth]

theorem tstore_depth {s s' : JState} {a k v : Nat}
    (h : tstore s a k v = some s') : s'.depth = s.depth := by
  simp only [tstore] at h
  grind [pushEntry_depth, setTransient_depth]

theorem revert_depth {s s' : JState} {cp : Checkpoint} (h : revert s cp = some s') : s'.depth = decU64 s.depth := by
  simp only [revert] at h
  split at h
  · cases h
  · split at h
    · cases h
    · cases h; rfl

theorem selfdestruct_depth {db : Db} {s s' : JState} {a t : Nat} {r}
    (h : selfdestruct db s a t = some (s', r)) : s'.depth = s.depth := by
  simp only [selfdestruct, bind, Option.bind_eq_some_iff] at h
  obtain ⟨⟨s1, c1⟩, h1, tacc, h2, s2, h3, acc, h4, s3, h5, h6⟩ := h
  have d1 := loadAccount_depth h1
  have d2 : s2.depth = s1.depth := by
    split at h3
    · simp only [Option.bind_eq_some_iff] at h3
      obtain ⟨acc0, _, t0, _, ⟨s4, t1⟩, h7, h8⟩ := h3
      have := touchAccount_depth h7
      grind [setAcct_depth]
    · grind
  have d3 : s3.depth = s2.depth := by
    split at h5
    · grind [pushEntry_depth, setAcct_depth]
    · split at h5
      · grind [pushEntry_depth, setAcct_depth]
      · grind
  grind

/-- `create_account_checkpoint`: a handed-out checkpoint leaves the depth one higher, an error leaves it as it was -/
theorem createAccountCheckpoint_depth {s s' : JState} {caller a : Addr} {hs : Bool} {v spec : Nat} {r}
    (h : createAccountCheckpoint s caller a hs v spec = some (s', r)) :
    s'.depth = (match r with | .ok _ => incU64 s.depth | .error _ => s.depth) := by
  simp only [createAccountCheckpoint, bind, Option.bind_eq_some_iff] at h
  obtain ⟨acc, h1, h2⟩ := h
  split at h2
  · simp only [Option.bind_eq_some_iff] at h2
    obtain ⟨s1, h3, h4⟩ := h2
    have := revert_depth h3
    have := dec_inc s.depth
    grind [checkpoint_depth]
  · simp only [Option.bind_eq_some_iff] at h2
    obtain ⟨s1, h3, ⟨s2, acc2⟩, h4, h5⟩ := h2
    have d1 := pushEntry_depth h3
    have d2 := touchAccount_depth h4
    simp only [setAcct_depth, checkpoint_depth] at d1 d2
    split at h5
    · simp only [Option.bind_eq_some_iff] at h5
      obtain ⟨s3, h6, h7⟩ := h5
      have := revert_depth h6
      have := dec_inc s.depth
      grind
    · simp only [Option.bind_eq_some_iff] at h5
      obtain ⟨c, h6, s3, h7, h8⟩ := h5
      have := pushEntry_depth h7
      grind [setAcct_depth]
end Revm.Proofs.Frame
