import Revm.Proofs.EvmLinkEther4
import Revm.Proofs.EtherTx
/-! LINK, ether conservation (C08), part 6: the fee legs of `EvmTx` ARE the fee legs of `Model.TxFeeLegs` (C08):
`deduct_caller`, `reimburse_caller`, `reward_beneficiary` as functions on the journal. -/
set_option linter.unusedSimpArgs false
set_option linter.unusedVariables false
namespace Revm.Proofs.EvmLink
open Revm Revm.Model Revm.Model.Evm
open Revm.Spec.Ether Revm.Proofs.Ether

/-- the fields of the environment the fee legs of C08 read -/
def feeEnv (e : Evm.Env) : TxFeeLegs.FeeEnv :=
  { caller := e.tx.caller, coinbase := e.block.coinbase, gasLimit := e.tx.gasLimit, gasPrice := e.tx.gasPrice,
    priorityFee := e.tx.priorityFee, basefee := e.block.basefee, blobGasPrice := e.block.blobGasPrice,
    totalBlobGas := e.totalBlobGas, isCall := e.tx.to.isSome }

theorem feeEnv_eff (e : Evm.Env) : TxFeeLegs.effectiveGasPrice (feeEnv e) = e.effectiveGasPrice := rfl
theorem feeEnv_dataFee (e : Evm.Env) : TxFeeLegs.calcDataFee (feeEnv e) = e.calcDataFee := rfl

/-- LINK: **`Evm.deductCaller` is `TxFeeLegs.deductCaller`** on the world's journal -/
theorem deductCaller_feeLegs {e : Evm.Env} {spec : Nat} {w w' : World} (h : Evm.deductCaller e spec w = .ok w') :
    TxFeeLegs.deductCaller w.db w.js spec (feeEnv e) = some w'.js ∧ w'.db = w.db := by
  unfold Evm.deductCaller at h
  obtain ⟨⟨w1, cold⟩, h1, h⟩ := bind_ok h
  obtain ⟨acc, h2, h⟩ := bind_ok h
  obtain ⟨d, h3, h⟩ := bind_ok h
  simp only [pure, Except.pure, Except.ok.injEq] at h
  subst h
  obtain ⟨t1, t2⟩ := w_loadAccount_tr h1
  have hcost : TxFeeLegs.gasCost spec (feeEnv e) = some d := by
    unfold TxFeeLegs.gasCost
    rw [feeEnv_eff, feeEnv_dataFee]
    show (if spec ≥ Journal.CANCUN then _ else _) = _
    split at h3
    · rename_i hc
      have hc' : spec ≥ Journal.CANCUN := by
        have : spec ≥ GasCalc.SpecId.CANCUN := by simpa [GasCalc.enabled] using hc
        exact this
      obtain ⟨fee, hf, h3⟩ := bind_ok h3
      have hf' := Proofs.EvmHost.ofOpt_ok hf
      simp only [pure, Except.pure, Except.ok.injEq] at h3
      rw [if_pos hc', hf', ← h3]; rfl
    · rename_i hc
      have hc' : ¬ spec ≥ Journal.CANCUN := by
        have : ¬ spec ≥ GasCalc.SpecId.CANCUN := by simpa [GasCalc.enabled] using hc
        exact this
      simp only [pure, Except.pure, Except.ok.injEq] at h3
      rw [if_neg hc', ← h3]; rfl
  refine ⟨?_, t2⟩
  have hcall : (feeEnv e).caller = e.tx.caller := rfl
  have hic : (feeEnv e).isCall = e.tx.to.isSome := rfl
  unfold TxFeeLegs.deductCaller
  rw [hcall]
  simp only [bind, Option.bind, t1, acct_ok h2, TxFeeLegs.deductCallerInner, hcost, Option.map_some, hic]
  by_cases hto : e.tx.to.isSome = true
  · simp only [hto, if_true]
  · simp only [hto, if_false, Bool.false_eq_true]

end Revm.Proofs.EvmLink

namespace Revm.Proofs.EvmLink
open Revm Revm.Model Revm.Model.Evm
open Revm.Spec.Ether Revm.Proofs.Ether

theorem feeEnv_coinbasePrice (e : Evm.Env) (spec : Nat) :
    TxFeeLegs.coinbaseGasPrice spec (feeEnv e) =
      (if GasCalc.enabled spec GasCalc.SpecId.LONDON then U256.saturatingSub e.effectiveGasPrice e.block.basefee
       else e.effectiveGasPrice) := by
  unfold TxFeeLegs.coinbaseGasPrice
  rw [feeEnv_eff]
  by_cases h : spec ≥ GasCalc.SpecId.LONDON
  · have h' : spec ≥ TxFeeLegs.LONDON := h
    simp only [GasCalc.enabled, h, h', decide_true, if_true]; rfl
  · have h' : ¬ spec ≥ TxFeeLegs.LONDON := h
    simp only [GasCalc.enabled, h, h', decide_false, if_false, Bool.false_eq_true]

/-- LINK: **the balance part of `Evm.finish` is `TxFeeLegs.postExecution`** (`reimburse_caller`, then
`reward_beneficiary`, rewards enabled) on the world's journal, with the numbers of the final meter -/
theorem finish_feeLegs {e : Evm.Env} {spec floorGas r7 : Nat} {isCreate : Bool} {res : Interp.ChildResult}
    {w w' : World} {r : TxResult} (h : Evm.finish e spec floorGas r7 isCreate res w = .ok (r, w')) :
    TxFeeLegs.postExecution w.db w.js spec (feeEnv e) true (Evm.finalGas e spec floorGas r7 res).remaining
      (Gas.spent (Evm.finalGas e spec floorGas r7 res)) (Gas.i64AsU64 (Evm.finalGas e spec floorGas r7 res).refunded)
      = some w'.js ∧ w'.db = w.db := by
  unfold Evm.finish at h
  generalize Evm.finalGas e spec floorGas r7 res = g at h ⊢
  obtain ⟨⟨w1, c1⟩, h1, h⟩ := bind_ok h
  obtain ⟨cacc, h2, h⟩ := bind_ok h
  obtain ⟨⟨w3, c3⟩, h3, h⟩ := bind_ok h
  obtain ⟨bacc, h4, h⟩ := bind_ok h
  obtain ⟨cls, h5, h⟩ := bind_ok h
  simp only [pure, Except.pure, Except.ok.injEq, Prod.mk.injEq] at h
  obtain ⟨_, hw⟩ := h
  obtain ⟨t1, d1⟩ := w_loadAccount_tr h1
  obtain ⟨t3, d3⟩ := w_loadAccount_tr h3
  have hdb3 : w3.db = w.db := by rw [d3]; exact d1
  refine ⟨?_, by rw [← hw]; exact hdb3⟩
  have hcall : (feeEnv e).caller = e.tx.caller := rfl
  have hcb : (feeEnv e).coinbase = e.block.coinbase := rfl
  have t3' : Journal.loadAccount w.db
      (Journal.setAcct w1.js e.tx.caller (withBalance cacc (U256.saturatingAdd cacc.info.balance
        (TxFeeLegs.reimbursement (feeEnv e) g.remaining (Gas.i64AsU64 g.refunded)))))
      e.block.coinbase = some (w3.js, c3) := by
    rw [← d1]; exact t3
  unfold TxFeeLegs.postExecution TxFeeLegs.reimburseCaller TxFeeLegs.rewardBeneficiary
  rw [hcall, hcb]
  simp only [withBalance] at t3'
  simp only [bind, Option.bind, t1, acct_ok h2, t3', acct_ok h4, if_true]
  rw [← hw]
  show some _ = some _
  congr 3
  unfold TxFeeLegs.reward
  rw [feeEnv_coinbasePrice]

end Revm.Proofs.EvmLink
