import Revm.Proofs.EvmLinkFeeVal
import Revm.Proofs.EvmLinkLoop2
/-! LINK, payments: the caller's balance that `deduct_caller` debits is the balance validation saw; `prepare` runs
`deduct_caller` on the world after `load_accounts`; the fee pipeline `TxGas.pipeline` on the first frame's result. -/
set_option linter.unusedSimpArgs false
namespace Revm.Proofs.EvmLink
open Revm Revm.Model Revm.Model.Evm
open Revm.Model.GasCalc (enabled)

/-! ## `load_accounts` keeps the `AccountInfo` of loaded accounts -/

/-- the account at `a` is loaded and has this `AccountInfo` -/
def HasInfo (js : Journal.JState) (a : Nat) (info : Journal.Info) : Prop :=
  ∃ acc, js.state a = some acc ∧ acc.info = info

theorem foldl_info (f : Journal.Acct → Nat → Journal.Acct) (hf : ∀ acc k, (f acc k).info = acc.info) :
    ∀ (keys : List Nat) (acc : Journal.Acct), (keys.foldl f acc).info = acc.info := by
  intro keys
  induction keys with
  | nil => intro acc; rfl
  | cons k ks ih => intro acc; simp only [List.foldl_cons]; rw [ih, hf]

theorem initialAccountLoad_info {db : Journal.Db} {s : Journal.JState} {a : Nat} {info : Journal.Info}
    (x : Nat) (keys : List Nat) (h : HasInfo s a info) : HasInfo (Journal.initialAccountLoad db s x keys) a info := by
  obtain ⟨acc, h1, h2⟩ := h
  unfold Journal.initialAccountLoad
  by_cases hx : a = x
  · subst hx
    have hset : ∀ accx, (Journal.setAcct s a accx).state a = some accx :=
      fun accx => by simp only [Journal.setAcct, if_true]
    refine ⟨_, hset _, ?_⟩
    rw [foldl_info _ (by intro acc k; dsimp only; split <;> rfl), h1]
    exact h2
  · exact ⟨acc, by simp only [Journal.setAcct, hx, if_false]; exact h1, h2⟩

theorem accessList_info {a : Nat} {info : Journal.Info} : ∀ (l : List AccessItem) (w : World),
    HasInfo w.js a info →
    HasInfo (l.foldl (fun w it =>
      let w := { w with js := Journal.initialAccountLoad w.db w.js it.addr it.keys }.noteAddr it.addr
      it.keys.foldl (fun w k => w.noteSlot it.addr k) w) w).js a info := by
  intro l
  induction l with
  | nil => intro w h; exact h
  | cons it l ih =>
    intro w h
    simp only [List.foldl_cons]
    apply ih
    rw [foldl_noteSlot_js, Proofs.EvmHost.noteAddr_js]
    exact initialAccountLoad_info it.addr it.keys h

theorem loadAccounts_info {e : Evm.Env} {spec : Nat} {w : World} {a : Nat} {info : Journal.Info}
    (h : HasInfo w.js a info) : HasInfo (loadAccounts e spec w).js a info := by
  unfold loadAccounts
  simp only
  exact accessList_info _ _ h

/-- `load_account` of a loaded account keeps its `AccountInfo` -/
theorem loadAccount_info {db : Journal.Db} {s s' : Journal.JState} {a : Nat} {c : Bool} {info : Journal.Info}
    (h : Journal.loadAccount db s a = some (s', c)) (hi : HasInfo s a info) : HasInfo s' a info := by
  obtain ⟨acc, h1, h2⟩ := hi
  simp only [Journal.loadAccount, h1] at h
  split at h
  · simp only [Option.map_eq_some_iff, Prod.mk.injEq] at h
    obtain ⟨s2, hp, rfl, _⟩ := h
    refine ⟨{ acc with cold := false }, ?_, h2⟩
    rw [Proofs.EvmHost.pushEntry_state _ _ _ hp]
    simp only [Journal.setAcct, if_true]
  · simp only [Option.some.injEq, Prod.mk.injEq] at h
    rw [← h.1]
    exact ⟨{ acc with cold := false }, by simp only [Journal.setAcct, if_true], h2⟩

/-! ## `prepare` -/

/-- `prepare` runs `deduct_caller` on the world after `load_accounts` -/
theorem prepare_deduct {e : Evm.Env} {spec ig : Nat} {w w2 : World} {first : FrameOrResult Journal.Checkpoint}
    {isCreate : Bool} {k : Nat} (h : prepare journalOps e spec ig w = .ok (first, w2, isCreate, k)) :
    ∃ wd, deductCaller e spec (loadAccounts e spec w) = .ok wd := by
  unfold prepare at h
  obtain ⟨wd, hd, _⟩ := bind_ok h
  exact ⟨wd, hd⟩

/-- **the debit leg on the validated balance**: when validation loaded the sender with `AccountInfo` `info`, the
`deduct_caller` inside `prepare` finds exactly this balance and leaves `TxGas.deductCaller info.balance d` -/
theorem deduct_on_validated {e : Evm.Env} {spec : Nat} {w1 wd : World} {info : Journal.Info}
    (hinfo : HasInfo w1.js e.tx.caller info)
    (hd : deductCaller e spec (loadAccounts e spec w1) = .ok wd) :
    ∃ d acc', TxGas.deductAmount (gasEnv e spec) = some d ∧ wd.js.state e.tx.caller = some acc' ∧
      acc'.info.balance = TxGas.deductCaller info.balance d := by
  obtain ⟨wl, cold, acc, acc', d, h1, h2, h3, h4, h5, _, _⟩ := deductCaller_leg e spec _ wd hd
  have hl := loadAccount_info (world_loadAccount_inv h1) (loadAccounts_info (e := e) (spec := spec) hinfo)
  obtain ⟨accl, hs, hi⟩ := hl
  have : acc = accl := by
    have := acct_ok h2
    rw [hs] at this
    exact (Option.some.inj this).symm
  subst this
  exact ⟨d, acc', h3, h4, by rw [h5, hi]⟩

/-- the fee pipeline of C09 on given inputs, once the debit amount exists -/
theorem pipeline_of_deduct (g : TxGas.Env) (fl k : Nat) (fr : TxGas.FrameRes) (d : Nat)
    (h : TxGas.deductAmount g = some d) :
    ∃ o, TxGas.pipeline g fl k fr = some o ∧ o.deducted = d ∧
      o.gasUsed = TxGas.gasUsed (TxGas.finalGas g fl k fr) ∧
      o.reimbursed = TxGas.reimburseAmount g (TxGas.finalGas g fl k fr) ∧
      o.reward = TxGas.rewardAmount g (TxGas.finalGas g fl k fr) := by
  unfold TxGas.pipeline
  rw [h]
  exact ⟨_, rfl, rfl, rfl, rfl, rfl⟩

end Revm.Proofs.EvmLink

namespace Revm.Proofs.EvmLink
open Revm Revm.Model Revm.Model.Evm
open Revm.Model.GasCalc (enabled)

/-- the effective gas price / the EIP-4844 fee of the transaction, as C09 computes them -/
abbrev effPrice (e : Evm.Env) (spec : Nat) : Nat := TxGas.effectiveGasPrice (gasEnv e (GasCalc.canon spec))
abbrev blobFeeOf (e : Evm.Env) (spec : Nat) : Nat := Props.C09.blobFee (gasEnv e (GasCalc.canon spec))
/-- what the beneficiary earns per gas: `effective price − base fee` from London, the effective price before -/
abbrev tipPrice (e : Evm.Env) (spec : Nat) : Nat :=
  if enabled (GasCalc.canon spec) GasCalc.SpecId.LONDON = true then effPrice e spec - e.block.basefee else effPrice e spec

/-- everything C09's payment theorems say, on a completed executed `Evm.transact` -/
theorem transact_payments (fuel : Nat) (w w' : World) (e : Evm.Env) (spec : Nat) (r : TxResult)
    (h : Evm.transact fuel w e spec = .ok (.executed r, w'))
    (hL : e.tx.gasLimit < U64) (hfa : FrameAccounting fuel w e spec) :
    ∃ (w1 : World) (accV : Journal.Acct) (code : List Nat) (ig fg k : Nat) (res : Interp.ChildResult) (w3 : World),
      loadSender w e.tx.caller = .ok (w1, accV, code) ∧
      FirstFrameResult fuel w e spec ig fg k res w3 ∧
      (accV.info.balance < W →
        -- the debit
        e.tx.gasLimit * effPrice e spec + blobFeeOf e spec ≤ accV.info.balance ∧
        effPrice e spec * r.gasUsed + blobFeeOf e spec ≤ e.tx.gasLimit * effPrice e spec + blobFeeOf e spec ∧
        (∃ wd accD, deductCaller e (GasCalc.canon spec) (loadAccounts e (GasCalc.canon spec) w1) = .ok wd ∧
          wd.js.state e.tx.caller = some accD ∧
          accD.info.balance = accV.info.balance - (e.tx.gasLimit * effPrice e spec + blobFeeOf e spec)) ∧
        -- the reimbursement
        (e.tx.caller ≠ e.block.coinbase → ∃ (wx : World) (c : Bool) (accX accF : Journal.Acct),
          w3.loadAccount e.tx.caller = .ok (wx, c) ∧ wx.acct e.tx.caller = .ok accX ∧
          w'.js.state e.tx.caller = some accF ∧
          accF.info.balance = U256.saturatingAdd accX.info.balance
            (e.tx.gasLimit * effPrice e spec + blobFeeOf e spec - (effPrice e spec * r.gasUsed + blobFeeOf e spec))) ∧
        -- the reward
        (∃ (wy : World) (accB accG : Journal.Acct), wy.acct e.block.coinbase = .ok accB ∧
          w'.js.state e.block.coinbase = some accG ∧
          accG.info.balance = U256.saturatingAdd accB.info.balance (tipPrice e spec * r.gasUsed))) := by
  obtain ⟨w1, ig, fg, first, w2, isCreate, k, res, w3, hp, hpr, hk, hrf, hfin⟩ :=
    transact_executed_stages fuel w w' e spec r h
  have hff : FirstFrameResult fuel w e spec ig fg k res w3 := ⟨w1, first, w2, isCreate, hp, hpr, hrf⟩
  obtain ⟨hvE, hi, _, _, accV, code, hl, hvs⟩ := preverify_some_inv w w1 e _ ig fg hp
  refine ⟨w1, accV, code, ig, fg, k, res, w3, hl, hff, fun hW => ?_⟩
  have hv := txgas_validateEnv_of_evm e _ hvE
  have hs := txgas_validateAgainstState_of_evm e _ code accV.info hvs
  have ha := admissible_of_firstFrame hff hL (hfa ig fg k res w3 hff) (U64ops.wsub e.tx.gasLimit ig)
  obtain ⟨wd, hd⟩ := prepare_deduct hpr
  obtain ⟨cold, hh, _, hacct, _, _⟩ := loadSender_inv hl
  have hinfo : HasInfo w1.js e.tx.caller accV.info := ⟨accV, acct_ok hacct, rfl⟩
  obtain ⟨d, accD, hda, hsD, hbD⟩ := deduct_on_validated hinfo hd
  obtain ⟨o, hpipe, o1, o2, o3, o4⟩ :=
    pipeline_of_deduct (gasEnv e (GasCalc.canon spec)) fg k (txFrame e ig res) d hda
  obtain ⟨s1, s2, _, s4, _, _⟩ :=
    Props.C09.sender_pays _ ig fg k _ ha (feeShape e) accV.info.balance hW hv hs o hpipe
  obtain ⟨hmul, _, _, _⟩ := Props.C09.validated_facts _ (feeShape e) accV.info.balance hv hs
  obtain ⟨b1, _, _, _⟩ := Props.C09.beneficiary_gets _ ig fg k _ ha hmul o hpipe
  obtain ⟨_, hu, _, _⟩ := finish_gas e _ fg _ isCreate res w3 w' r hfin
  have hfg : Evm.finalGas e (GasCalc.canon spec) fg
      (U64ops.wmul k (Evm.PER_EMPTY_ACCOUNT_COST - Evm.PER_AUTH_BASE_COST)) res =
      TxGas.finalGas (gasEnv e (GasCalc.canon spec)) fg k (txFrame e ig res) :=
    finalGas_eq_txgas e (GasCalc.canon spec) fg k res (U64ops.wsub e.tx.gasLimit ig)
  rw [hfg] at hu
  rw [← o2] at hu
  have hgl : (gasEnv e (GasCalc.canon spec)).gasLimit = e.tx.gasLimit := rfl
  rw [hgl, o1] at s1
  rw [o1] at s2 s4
  -- s1 : d = gasLimit * eff + blobFee; s2 : d ≤ bal; s4 : d = o.reimbursed + (eff * o.gasUsed + blobFee)
  have e1 : d = e.tx.gasLimit * effPrice e spec + blobFeeOf e spec := s1
  have e4 : d = o.reimbursed + (effPrice e spec * r.gasUsed + blobFeeOf e spec) := by rw [hu]; exact s4
  refine ⟨by rw [← e1]; exact s2, by rw [← e1]; omega, ⟨wd, accD, hd, hsD, ?_⟩, fun hne => ?_, ?_⟩
  · rw [hbD, ← e1]; rfl
  · obtain ⟨wx, c, accX, accF, x1, x2, x3, x4⟩ := finish_caller e _ fg _ isCreate res w3 w' r hfin hne
    refine ⟨wx, c, accX, accF, x1, x2, x3, ?_⟩
    rw [x4, hfg, ← o3, ← e1]
    congr 1
    omega
  · obtain ⟨wy, accB, accG, y1, y2, y3⟩ := finish_beneficiary e _ fg _ isCreate res w3 w' r hfin
    refine ⟨wy, accB, accG, y1, y2, ?_⟩
    rw [y3, hfg, ← o4, b1, hu]
    rfl

end Revm.Proofs.EvmLink
