import Revm.Proofs.EofJumps
/-! Two more facts `validate_eof_code` establishes about an accepted code section, both needed by the interpreter
(C25):
* **no section runs off its end**: every instruction of the linear decoding is followed by another instruction of
  the section, unless its opcode is terminating (`is_after_termination` at the end of the loop,
  `LastInstructionNotTerminating`);
* **returning discipline**: a section typed non-returning contains neither RETF nor a JUMPF to a returning section
  (`is_returning == this_types.is_non_returning()` ⇒ `NonReturningSectionIsReturning`).
Core Lean only. -/
namespace Revm.Proofs.EofValidate
open Revm.Model.Eof Revm.Model.EofValidate Revm.Spec.Eof Revm.Proofs.Eof

set_option linter.unusedSimpArgs false
set_option linter.unusedVariables false

/-- the opcode at `j` is terminating according to `OPCODE_INFO_JUMPTABLE` -/
def Term (code : Array Nat) (j : Nat) : Prop :=
  ∃ op inf, code[j]? = some op ∧ opInfo op = some inf ∧ inf.terminating = true

/-- the instruction at `j` does not return: it is not RETF, and if it is JUMPF its target section is non-returning -/
def NoRet (types : Array TypesSection) (code : Array Nat) (j : Nat) : Prop :=
  code[j]? ≠ some RETF ∧
  (code[j]? = some JUMPF → ∀ k tt, u16At code (j + 1) = some k → types[k]? = some tt → tt.isNonReturning = true)

structure SectionFlow (code : Array Nat) (types : Array TypesSection) (thisTypes : TypesSection) : Prop where
  noRunOff : ∀ j, IsInstrStart code j → j + 1 + immLen code j < code.size ∨ Term code j
  discipline : thisTypes.isNonReturning = true → ∀ j, IsInstrStart code j → NoRet types code j

/-! ## `is_returning` in the `match op` -/

theorem opSpecific_isRet_other {c : Ctx} {i op : Nat} {inf : OpInfo} {this : InstrInfo}
    {jumps : Array InstrInfo} {tr : Tracker} {isRet : Bool} (h1 : op ≠ RETF) (h2 : op ≠ JUMPF) :
    Holds (fun r => r.isReturning = isRet) (opSpecific c i op inf this jumps tr isRet) := by
  unfold opSpecific
  dsimp only
  repeat' first
    | exact holds_err
    | exact holds_panic
    | (refine holds_ite (fun _ => ?_) (fun _ => ?_))
    | (refine holds_bind (fun _ _ => ?_))
    | exact holds_pure rfl
    | exact holds_ok rfl
    | contradiction
    | split

theorem opSpecific_retf {c : Ctx} {i : Nat} {inf : OpInfo} {this : InstrInfo}
    {jumps : Array InstrInfo} {tr : Tracker} {isRet : Bool} {r : OpRes}
    (h : opSpecific c i RETF inf this jumps tr isRet = .ok r) : r.isReturning = true := by
  unfold opSpecific at h
  dsimp only at h
  rw [if_neg (by decide), if_neg (by decide), if_neg (by decide), if_neg (by decide), if_neg (by decide),
    if_neg (by decide), if_neg (by decide), if_neg (by decide), if_pos rfl] at h
  have hx := ite_err_eq_ok h
  have := hx.2
  simp only [pure_def, R.ok.injEq] at this
  rw [← this]

theorem opSpecific_jumpf_ret {c : Ctx} {i : Nat} {inf : OpInfo} {this : InstrInfo}
    {jumps : Array InstrInfo} {tr : Tracker} {isRet : Bool} {r : OpRes}
    (h : opSpecific c i JUMPF inf this jumps tr isRet = .ok r) :
    ∃ k tt, u16At c.code (i + 1) = some k ∧ c.types[k]? = some tt ∧
      (r.isReturning = true ∨ (tt.isNonReturning = true ∧ r.isReturning = isRet)) := by
  unfold opSpecific at h
  dsimp only at h
  rw [if_neg (by decide), if_neg (by decide), if_neg (by decide), if_pos rfl, bind_eq_ok] at h
  obtain ⟨k, hk, h⟩ := h
  split at h
  · cases h
  rename_i tt htt
  refine ⟨k, tt, readU16_ok hk, htt, ?_⟩
  have hx := ite_err_eq_ok h; clear h; obtain ⟨_, h⟩ := hx
  rw [bind_eq_ok] at h
  obtain ⟨tr1, _, h⟩ := h
  by_cases hn : tt.isNonReturning = true
  · rw [if_pos hn] at h
    simp only [pure_def, R.ok.injEq] at h
    right; exact ⟨hn, by rw [← h]⟩
  · rw [if_neg hn] at h
    have hx := ite_err_eq_ok h; clear h; obtain ⟨_, h⟩ := hx
    have hx := ite_err_eq_ok h; clear h; obtain ⟨_, h⟩ := hx
    have hx := ite_err_eq_ok h; clear h; obtain ⟨_, h⟩ := hx
    simp only [pure_def, R.ok.injEq] at h
    left; rw [← h]

/-! ## one iteration -/

theorem step_flow {c : Ctx} {s s' : St} (h : step c s = .ok s') :
    (s'.afterTerm = true → Term c.code s.i) ∧
    (s'.isReturning = false → s.isReturning = false ∧ NoRet c.types c.code s.i) := by
  unfold step at h
  rw [bind_eq_ok] at h
  obtain ⟨op, hop, h⟩ := h
  have hcode := byteAt_ok hop
  split at h
  · cases h
  rename_i inf hinf
  have hx := ite_err_eq_ok h; clear h; obtain ⟨hne, h⟩ := hx
  split at h
  · cases h
  rename_i this0 hthis
  dsimp only at h
  have hx := ite_err_eq_ok h; clear h; obtain ⟨_, h⟩ := hx
  have hx := ite_err_eq_ok h; clear h; obtain ⟨himm, h⟩ := hx
  rw [bind_eq_ok] at h
  obtain ⟨j1, hj1, h⟩ := h
  rw [bind_eq_ok] at h
  obtain ⟨r, hr, h⟩ := h
  have hx := ite_err_eq_ok h; clear h; obtain ⟨_, h⟩ := hx
  rw [bind_eq_ok] at h
  obtain ⟨j2, hj2, h⟩ := h
  simp only [pure_def, R.ok.injEq] at h
  subst h
  dsimp only
  refine ⟨fun ht => ⟨op, inf, hcode, hinf, ht⟩, fun hret => ?_⟩
  by_cases h1 : op = RETF
  · subst h1
    rw [opSpecific_retf hr] at hret; cases hret
  by_cases h2 : op = JUMPF
  · subst h2
    obtain ⟨k, tt, hk, htt, hor⟩ := opSpecific_jumpf_ret hr
    rcases hor with hor | ⟨hn, hor⟩
    · rw [hor] at hret; cases hret
    · refine ⟨by rw [← hor]; exact hret, ?_, ?_⟩
      · rw [hcode]; intro e; exact absurd (Option.some.inj e) (by decide : ¬ (JUMPF = RETF))
      · intro _ k' tt' hk' htt'
        have e1 : k = k' := Option.some.inj (hk.symm.trans hk')
        subst e1
        have e2 : tt = tt' := Option.some.inj (htt.symm.trans htt')
        subst e2
        exact hn
  · have := opSpecific_isRet_other (c := c) (i := s.i) (inf := inf) (jumps := j1) (tr := s.tracker)
      (isRet := s.isReturning) (this := if (!s.afterTerm) = true then
        { this0 with smallest := min this0.smallest s.nextSmallest, biggest := max this0.biggest s.nextBiggest }
        else this0) h1 h2 r hr
    refine ⟨by rw [← this]; exact hret, ?_, ?_⟩
    · rw [hcode]; intro e; exact h1 (Option.some.inj e)
    · rw [hcode]; intro e; exact absurd (Option.some.inj e) h2

/-! ## the loop -/

structure Flow (c : Ctx) (s : St) : Prop where
  reach : Reach c.code 0 s.i
  last : (s.i = 0 ∧ s.afterTerm = false) ∨
    ∃ j, Reach c.code 0 j ∧ j < c.code.size ∧ s.i = j + 1 + immLen c.code j ∧ (s.afterTerm = true → Term c.code j)
  noret : s.isReturning = false → ∀ j, Reach c.code 0 j → j < s.i → NoRet c.types c.code j

theorem step_flow_inv {c : Ctx} {s s' : St} (h : step c s = .ok s') (hi : s.i < c.code.size) (inv : Flow c s) :
    Flow c s' := by
  obtain ⟨_, hnext⟩ := step_ok h
  obtain ⟨hterm, hret⟩ := step_flow h
  refine ⟨by rw [hnext]; exact Reach.snoc inv.reach hi, Or.inr ⟨s.i, inv.reach, hi, hnext, hterm⟩, ?_⟩
  intro hr' j hj hlt
  obtain ⟨hr0, hnr⟩ := hret hr'
  by_cases hjs : j < s.i
  · exact inv.noret hr0 j hj hjs
  · by_cases hje : j = s.i
    · subst hje; exact hnr
    · have := Reach.next_le inv.reach hj (by omega)
      omega

theorem loop_flow (c : Ctx) : ∀ (fuel : Nat) (s s' : St), loop c fuel s = .ok s' → Flow c s →
    Flow c s' ∧ ¬ s'.i < c.code.size := by
  intro fuel
  induction fuel with
  | zero =>
    intro s s' h inv
    unfold loop at h
    by_cases hi : s.i < c.code.size
    · rw [if_pos hi] at h; cases h
    · rw [if_neg hi] at h; cases h; exact ⟨inv, hi⟩
  | succ fuel ih =>
    intro s s' h inv
    unfold loop at h
    by_cases hi : s.i < c.code.size
    · rw [if_pos hi] at h
      dsimp only at h
      rw [bind_eq_ok] at h
      obtain ⟨s1, h1, h2⟩ := h
      exact ih s1 s' h2 (step_flow_inv h1 hi inv)
    · rw [if_neg hi] at h; cases h; exact ⟨inv, hi⟩

/-- **per section**: no instruction runs off the end, and the returning discipline -/
theorem validateEofCode_flow {code : Array Nat} {dataSize idx nContainers : Nat}
    {types : Array TypesSection} {tr tr' : Tracker}
    (h : validateEofCode code dataSize idx nContainers types tr = .ok tr') :
    ∃ thisTypes, types[idx]? = some thisTypes ∧ SectionFlow code types thisTypes := by
  unfold validateEofCode at h
  split at h
  · cases h
  rename_i thisTypes hty
  dsimp only at h
  rw [bind_eq_ok] at h
  obtain ⟨s, hs, h⟩ := h
  have hx := ite_err_eq_ok h; clear h; obtain ⟨hretc, h⟩ := hx
  have hx := ite_err_eq_ok h; clear h; obtain ⟨hat, h⟩ := hx
  have inv0 : Flow (⟨code, dataSize, nContainers, types, thisTypes⟩ : Ctx) (⟨Array.replicate code.size {}, false, thisTypes.inputs, thisTypes.inputs, false, 0, tr⟩ : St) :=
    ⟨Reach.refl 0, Or.inl ⟨rfl, rfl⟩, fun _ j _ hj => absurd hj (Nat.not_lt_zero _)⟩
  obtain ⟨inv, hend⟩ := loop_flow _ _ _ _ hs inv0
  dsimp only at inv hend
  have hat' : s.afterTerm = true := by simpa using hat
  refine ⟨thisTypes, hty, ⟨?_, ?_⟩⟩
  · intro j hj
    by_cases hn : j + 1 + immLen code j < code.size
    · exact Or.inl hn
    · right
      have hl := inv.last
      dsimp only at hl
      rcases hl with ⟨_, hf⟩ | ⟨j', hj', hlt', hi', ht'⟩
      · rw [hf] at hat'; cases hat'
      · have hjj : j = j' := by
          rcases Nat.lt_trichotomy j j' with hlt | heq | hgt
          · have := Reach.next_le hj.1 hj' hlt; omega
          · exact heq
          · have := Reach.next_le hj' hj.1 hgt; have := hj.2; omega
        subst hjj
        exact ht' hat'
  · intro hnr j hj
    have hr : s.isReturning = false := by
      cases hsr : s.isReturning with
      | false => rfl
      | true => rw [hsr, hnr] at hretc; simp at hretc
    have hn := inv.noret
    dsimp only at hn
    exact hn hr j hj.1 (by have := hj.2; omega)

end Revm.Proofs.EofValidate
