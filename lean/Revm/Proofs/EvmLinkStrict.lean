import Revm.Proofs.EvmLinkKeep
/-! LINK, termination, part 1: the gas sweep of `EvmLinkKeep*` once more, with a flag: `KeptB true s0 s` = `Kept s0 s`
and at least one unit of gas has been consumed since `s0`. Every instruction that lets its frame continue, and every
instruction that hands out an action, ends with the flag set — in ANY state, with no invariant: `record_cost` either
fails or lowers `remaining` by exactly the cost, and every such instruction records a cost of at least 1. -/
set_option linter.unusedSimpArgs false
set_option linter.unusedVariables false
namespace Revm.Proofs.EvmLink
open Revm Revm.Model Revm.Model.Interp

/-- `Kept`, and with the flag set at least one unit of gas has been consumed since `s0` -/
structure KeptB (fl : Bool) (s0 s : IState) : Prop extends Kept s0 s where
  strict : fl = true → s.gas.remaining + 1 ≤ s0.gas.remaining

theorem KeptB.refl (s : IState) : KeptB false s s := ⟨Kept.refl s, fun h => nomatch h⟩
theorem KeptB.trans {fl : Bool} {a x c : IState} (h1 : KeptB fl a x) (h2 : Kept x c) : KeptB fl a c :=
  ⟨h1.toKept.trans h2, fun h => by have := h1.strict h; have := h2.rem; omega⟩
/-- a step that consumed at least one unit of gas -/
theorem KeptB.charge {fl : Bool} {a x c : IState} (h1 : KeptB fl a x) (h2 : Kept x c)
    (hc : c.gas.remaining + 1 ≤ x.gas.remaining) : KeptB true a c :=
  ⟨h1.toKept.trans h2, fun _ => by have := h1.rem; omega⟩
theorem KeptB.rebase {fl : Bool} {a x c : IState} (h1 : Kept a x) (h2 : KeptB fl x c) : KeptB fl a c :=
  ⟨h1.trans h2.toKept, fun h => by have := h2.strict h; have := h1.rem; omega⟩

/-- a result a frame may end with: not one of the four internal flags on which `output` (`SuccessOrHalt::from`) panics -/
def RGood (r : IResult) : Prop :=
  r ≠ .Continue ∧ r ≠ .CallOrCreate ∧ r ≠ .FatalExternalError ∧ r ≠ .InvalidExtDelegateCallTarget

instance (r : IResult) : Decidable (RGood r) := by unfold RGood; exact inferInstance

/-- a handler result whose state (ok or halt) is `Kept` after `s0`, with the flag on an ok result; `Q` holds of an ok
result; a halt carries a result that is not an internal flag -/
inductive SKeep (fl : Bool) (s0 : IState) {α} (Q : α → IState → Prop) : Exec α → Prop
  | ok {a s} (h : KeptB fl s0 s) (hq : Q a s) : SKeep fl s0 Q (.ok a s)
  | halt {r o s} {fl' : Bool} (h : KeptB fl' s0 s) (hr : RGood r) : SKeep fl s0 Q (.halt r o s)
  | fault {f} : SKeep fl s0 Q (.fault f)

theorem sk_bind {fl fl' : Bool} {s0 s : IState} {α β} {m : M α} {f : α → M β} {Q : α → IState → Prop}
    {Q' : β → IState → Prop} (h1 : SKeep fl s0 Q (m s))
    (h2 : ∀ a s', KeptB fl s0 s' → Q a s' → SKeep fl' s0 Q' (f a s')) : SKeep fl' s0 Q' ((m >>= f) s) := by
  show SKeep fl' s0 Q' (M.bind m f s)
  unfold M.bind
  cases hm : m s with
  | ok a s' => rw [hm] at h1; cases h1 with | ok h hq => exact h2 a s' h hq
  | halt r o s' => rw [hm] at h1; cases h1 with | halt h hr => exact .halt h hr
  | fault f => exact .fault

theorem sk_pure {fl : Bool} {s0 s : IState} {α} {a : α} {Q : α → IState → Prop} (h : KeptB fl s0 s) (hq : Q a s) :
    SKeep fl s0 Q ((pure a : M α) s) := .ok h hq

theorem sk_mono {fl : Bool} {s0 : IState} {α} {e : Exec α} {Q Q' : α → IState → Prop} (h : SKeep fl s0 Q e)
    (hq : ∀ a s, KeptB fl s0 s → Q a s → Q' a s) : SKeep fl s0 Q' e := by
  cases h with
  | ok h hq' => exact .ok h (hq _ _ h hq')
  | halt h hr => exact .halt h hr
  | fault => exact .fault

/-! ## primitives -/

section prims
variable {fl : Bool} {s0 s : IState}

theorem sk_haltWith {α} {fl' : Bool} (h : KeptB fl s0 s) (r : IResult) (hr : RGood r) {Q : α → IState → Prop} :
    SKeep fl' s0 Q ((haltWith r : M α) s) := .halt h hr
theorem sk_haltOut {α} {fl' : Bool} (h : KeptB fl s0 s) (r : IResult) (o : List Nat) (hr : RGood r)
    {Q : α → IState → Prop} : SKeep fl' s0 Q ((haltOut r o : M α) s) := .halt h hr
theorem sk_faultWith {α} {fl' : Bool} (f : Fault) {Q : α → IState → Prop} : SKeep fl' s0 Q ((faultWith f : M α) s) :=
  .fault

theorem sk_getS (h : KeptB fl s0 s) : SKeep fl s0 (fun x s' => x = s ∧ s' = s) (getS s) := .ok h ⟨rfl, rfl⟩

theorem sk_modifyS (h : KeptB fl s0 s) (f : IState → IState) (hf : Kept s (f s)) : SKeep fl s0 T (modifyS f s) :=
  .ok (h.trans hf) trivial

theorem sk_check (h : KeptB fl s0 s) (fork : Nat) : SKeep fl s0 T (check fork s) := by
  unfold check; split
  · exact .ok h trivial
  · exact .halt h (by decide)

theorem sk_requireNonStatic (h : KeptB fl s0 s) : SKeep fl s0 T (requireNonStatic s) := by
  unfold requireNonStatic; split
  · exact .halt h (by decide)
  · exact .ok h trivial

theorem sk_requireEof (h : KeptB fl s0 s) : SKeep fl s0 T (requireEof s) := by
  unfold requireEof; split
  · exact .halt h (by decide)
  · exact .ok h trivial

theorem sk_requireInitEof (h : KeptB fl s0 s) : SKeep fl s0 T (requireInitEof s) := by
  unfold requireInitEof; split
  · exact .halt h (by decide)
  · exact .ok h trivial

theorem sk_requireSome (h : KeptB fl s0 s) (r : HostResp) (hok : r.ok = true) : SKeep fl s0 T (requireSome r s) := by
  unfold requireSome; rw [if_pos hok]
  exact .ok h trivial

theorem sk_assumeNotEof (h : KeptB fl s0 s) : SKeep fl s0 T (assumeNotEof s) := by
  unfold assumeNotEof; split
  · exact .fault
  · exact .ok h trivial

/-- `gas!`: the flag is kept -/
theorem sk_gasCharge (h : KeptB fl s0 s) (c : Nat) :
    SKeep fl s0 (fun _ s' => s'.gas.remaining + c ≤ s.gas.remaining) (gasCharge c s) := by
  unfold gasCharge
  have hsp := fun g' ok e => recordCost_spec s.gas g' c ok e (fun hn => wsub_le' _ _ (by omega))
  generalize Gas.recordCost s.gas c = r at hsp ⊢
  obtain ⟨g', ok⟩ := r
  obtain ⟨h1, h2, h3⟩ := hsp g' ok rfl
  cases ok with
  | true => exact .ok (h.trans ⟨rfl, h1, h2⟩) (h3 rfl)
  | false => exact .halt h (by decide)

/-- `gas!` of a cost of at least 1: the flag is set -/
theorem sk_gasCharge1 (h : KeptB fl s0 s) (c : Nat) (hc : 1 ≤ c) :
    SKeep true s0 (fun _ s' => s'.gas.remaining + c ≤ s.gas.remaining) (gasCharge c s) := by
  unfold gasCharge
  have hsp := fun g' ok e => recordCost_spec s.gas g' c ok e (fun hn => wsub_le' _ _ (by omega))
  generalize Gas.recordCost s.gas c = r at hsp ⊢
  obtain ⟨g', ok⟩ := r
  obtain ⟨h1, h2, h3⟩ := hsp g' ok rfl
  cases ok with
  | true =>
    have h4 : g'.remaining + 1 ≤ s.gas.remaining := by have := h3 rfl; omega
    exact .ok (h.charge ⟨rfl, h1, h2⟩ h4) (h3 rfl)
  | false => exact .halt h (by decide)

end prims
end Revm.Proofs.EvmLink
