import Revm.Proofs.EvmLinkGasInv
/-! LINK, frame accounting, part 8: the frame functions. An opened frame's meter is `Gas::new(inputs.gas_limit)`; an
immediate result, and the result a `*_return` passes on, give back at most the gas the frame had. -/
set_option linter.unusedSimpArgs false
set_option linter.unusedVariables false
namespace Revm.Proofs.EvmLink
open Revm Revm.Model Revm.Model.Evm

variable {κ : Type}

theorem callTail_gas {C : CpOps κ} {cfg : Cfg} {w w' : World} {cp : κ} {i : Interp.CallInputs}
    {mem : Memory.SharedMemory} {fr : FrameOrResult κ} (h : callTail C cfg w cp i mem = .ok (fr, w')) :
    (∀ r, fr = .result r → r.gasRemaining ≤ i.gasLimit) ∧
    (∀ f, fr = .frame f → f.interp.gas = Gas.new i.gasLimit ∧ f.interp.isStatic = i.isStatic) := by
  unfold callTail at h
  obtain ⟨⟨w1, c⟩, _, h⟩ := bind_ok h
  obtain ⟨acc, _, h⟩ := bind_ok h
  obtain ⟨hh, _, h⟩ := bind_ok h
  obtain ⟨bytecode, _, h⟩ := bind_ok h
  split at h
  · simp only [pure, Except.pure, Except.ok.injEq, Prod.mk.injEq] at h
    rw [← h.1]
    exact ⟨fun r hr => by cases hr; exact Nat.le_refl _, fun f hf => nomatch hf⟩
  · obtain ⟨⟨w2, code2⟩, _, h⟩ := bind_ok h
    simp only [pure, Except.pure, Except.ok.injEq, Prod.mk.injEq] at h
    rw [← h.1]
    exact ⟨fun r hr => (nomatch hr), fun f hf => by cases hf; exact ⟨rfl, rfl⟩⟩

theorem makeCallFrame_gas {C : CpOps κ} {cfg : Cfg} {w w' : World} {i : Interp.CallInputs}
    {mem : Memory.SharedMemory} {fr : FrameOrResult κ} (h : makeCallFrame C cfg w i mem = .ok (fr, w')) :
    (∀ r, fr = .result r → r.gasRemaining ≤ i.gasLimit) ∧
    (∀ f, fr = .frame f → f.interp.gas = Gas.new i.gasLimit ∧ f.interp.isStatic = i.isStatic) := by
  have early : ∀ x : Interp.IResult, (∀ r, FrameOrResult.result (κ := κ) (earlyResult x i.gasLimit) = .result r →
      r.gasRemaining ≤ i.gasLimit) ∧ (∀ f, FrameOrResult.result (κ := κ) (earlyResult x i.gasLimit) = .frame f →
      f.interp.gas = Gas.new i.gasLimit ∧ f.interp.isStatic = i.isStatic) :=
    fun x => ⟨fun r hr => by cases hr; exact Nat.le_refl _, fun f hf => nomatch hf⟩
  rw [makeCallFrame_staged] at h
  unfold makeCallFrameS at h
  split at h
  · simp only [pure, Except.pure, Except.ok.injEq, Prod.mk.injEq] at h
    rw [← h.1]; exact early _
  · obtain ⟨⟨w1, x⟩, _, h⟩ := bind_ok h
    simp only at h
    obtain ⟨⟨w2, failed⟩, _, h⟩ := bind_ok h
    cases failed with
    | some r0 =>
      simp only at h
      obtain ⟨w3, _, h⟩ := bind_ok h
      simp only [pure, Except.pure, Except.ok.injEq, Prod.mk.injEq] at h
      rw [← h.1]; exact early _
    | none =>
      simp only at h
      unfold callPrecompile at h
      obtain ⟨pc, _, h⟩ := bind_ok h
      cases pc with
      | none => exact callTail_gas h
      | some res =>
        simp only at h
        cases res with
        | ok gasUsed out =>
          simp only at h
          split at h
          · simp only [pure, Except.pure, Except.ok.injEq, Prod.mk.injEq] at h
            rw [← h.1]
            exact ⟨fun r hr => by cases hr; exact Nat.sub_le _ _, fun f hf => nomatch hf⟩
          · obtain ⟨w3, _, h⟩ := bind_ok h
            simp only [pure, Except.pure, Except.ok.injEq, Prod.mk.injEq] at h
            rw [← h.1]; exact early _
        | err e =>
          simp only at h
          obtain ⟨w3, _, h⟩ := bind_ok h
          simp only [pure, Except.pure, Except.ok.injEq, Prod.mk.injEq] at h
          rw [← h.1]; exact early _
        | panic =>
          simp only at h
          obtain ⟨x, hx, _⟩ := bind_ok h
          cases hx

theorem createTail_gas {C : CpOps κ} {cfg : Cfg} {w w' : World} {i : Interp.CreateInputs}
    {mem : Memory.SharedMemory} {created : Nat} {fr : FrameOrResult κ}
    (h : createTail C cfg w i mem created = .ok (fr, w')) :
    (∀ r, fr = .result r → r.gasRemaining ≤ i.gasLimit) ∧
    (∀ f, fr = .frame f → f.interp.gas = Gas.new i.gasLimit ∧ f.interp.isStatic = false) := by
  have early : ∀ x : Interp.IResult, (∀ r, FrameOrResult.result (κ := κ) (earlyResult x i.gasLimit) = .result r →
      r.gasRemaining ≤ i.gasLimit) ∧ (∀ f, FrameOrResult.result (κ := κ) (earlyResult x i.gasLimit) = .frame f →
      f.interp.gas = Gas.new i.gasLimit ∧ f.interp.isStatic = false) :=
    fun x => ⟨fun r hr => by cases hr; exact Nat.le_refl _, fun f hf => nomatch hf⟩
  unfold createTail at h
  simp only [pure, Except.pure] at h
  split at h
  · simp only [Except.ok.injEq, Prod.mk.injEq] at h
    rw [← h.1]; exact early _
  · obtain ⟨⟨w3, c3⟩, _, h⟩ := bind_ok h
    obtain ⟨⟨w4, r4⟩, _, h⟩ := bind_ok h
    simp only at h
    split at h
    · simp only [Except.ok.injEq, Prod.mk.injEq] at h
      rw [← h.1]; exact early _
    · simp only [Except.ok.injEq, Prod.mk.injEq] at h
      rw [← h.1]; exact early _
    · simp only [Except.ok.injEq, Prod.mk.injEq] at h
      rw [← h.1]
      exact ⟨fun r hr => (nomatch hr), fun f hf => by cases hf; exact ⟨rfl, rfl⟩⟩

theorem makeCreateFrame_gas {C : CpOps κ} {cfg : Cfg} {w w' : World} {i : Interp.CreateInputs}
    {mem : Memory.SharedMemory} {fr : FrameOrResult κ} (h : makeCreateFrame C cfg w i mem = .ok (fr, w')) :
    (∀ r, fr = .result r → r.gasRemaining ≤ i.gasLimit) ∧
    (∀ f, fr = .frame f → f.interp.gas = Gas.new i.gasLimit ∧ f.interp.isStatic = false) := by
  have early : ∀ x : Interp.IResult, (∀ r, FrameOrResult.result (κ := κ) (earlyResult x i.gasLimit) = .result r →
      r.gasRemaining ≤ i.gasLimit) ∧ (∀ f, FrameOrResult.result (κ := κ) (earlyResult x i.gasLimit) = .frame f →
      f.interp.gas = Gas.new i.gasLimit ∧ f.interp.isStatic = false) :=
    fun x => ⟨fun r hr => by cases hr; exact Nat.le_refl _, fun f hf => nomatch hf⟩
  rw [makeCreateFrame_staged] at h
  unfold makeCreateFrameS at h
  simp only [pure, Except.pure] at h
  split at h
  · simp only [Except.ok.injEq, Prod.mk.injEq] at h
    rw [← h.1]; exact early _
  · obtain ⟨⟨w1, c⟩, _, h⟩ := bind_ok h
    obtain ⟨cacc, _, h⟩ := bind_ok h
    simp only at h
    split at h
    · simp only [Except.ok.injEq, Prod.mk.injEq] at h
      rw [← h.1]; exact early _
    · obtain ⟨⟨js, nn⟩, _, h⟩ := bind_ok h
      simp only at h
      cases nn with
      | none =>
        simp only [Except.ok.injEq, Prod.mk.injEq] at h
        rw [← h.1]; exact early _
      | some newNonce =>
        simp only at h
        exact createTail_gas h

/-- `call_return` passes the frame's result on -/
theorem callReturn_res {C : CpOps κ} {w w' : World} {cp : κ} {r r' : Interp.ChildResult}
    (h : callReturn C w cp r = .ok (r', w')) : r' = r := by
  unfold callReturn at h
  split at h
  · simp only [pure, Except.pure, Except.ok.injEq, Prod.mk.injEq] at h; exact h.1.symm
  · obtain ⟨w1, _, h⟩ := bind_ok h
    simp only [pure, Except.pure, Except.ok.injEq, Prod.mk.injEq] at h; exact h.1.symm

end Revm.Proofs.EvmLink
