import Revm.Model.Evm
import Revm.Model.TxValidate
/-! LINK between the validation of the whole-transaction model (`Evm.validateEnv`, `Evm.validateAgainstState`,
`Evm.preverify`, which only say accept / reject) and the validation model of C02 (`Model.TxValidate`, which also says
which error). Part 1: the translations, `Evm.validateEnv` cut into the stages of `TxValidate.validateTx`, and the two
last stages (EIP-4844 and EIP-7702 rules). -/
set_option linter.unusedSimpArgs false
namespace Revm.Proofs.EvmLink
open Revm Revm.Model Revm.Model.Evm
open Revm.Model.GasCalc (enabled)

/-- `CfgEnv` as C02 reads it (the blob schedule is the default one, as in `Evm.blobMaxCount`) -/
def tvCfg (e : Evm.Env) : TxValidate.Cfg :=
  { chainId := e.cfg.chainId, limitContractCodeSize := e.cfg.limitContractCodeSize }
/-- `BlockEnv` as C02 reads it -/
def tvBlock (e : Evm.Env) : TxValidate.Block :=
  { gasLimit := e.block.gasLimit, basefee := e.block.basefee, prevrandaoSet := e.block.prevrandao.isSome,
    blobGasPrice := e.block.blobGasPrice }
/-- `TxEnv` as C02 reads it: access list as key counts, blob hashes as version bytes, authorization list as length -/
def tvTx (e : Evm.Env) : TxValidate.Tx :=
  { gasLimit := e.tx.gasLimit, gasPrice := e.tx.gasPrice, priorityFee := e.tx.priorityFee, value := e.tx.value,
    data := e.tx.data, isCreate := e.tx.to.isNone, chainId := e.tx.chainId, nonce := e.tx.nonce,
    accessList := e.tx.accessList.map (fun it => it.keys.length),
    blobHashes := e.tx.blobHashes.map (fun h => h / 2 ^ 248),
    maxFeePerBlobGas := e.tx.maxFeePerBlobGas, authList := e.tx.authList.map List.length }
/-- what a `TxValidate` verdict is in the accept / reject reading of `EvmTx` -/
def resToR : TxValidate.Res → R Bool
  | .ok => .ok true
  | .err _ => .ok false
  | .panic => .error (.panic "already checked")
/-- `?`: go on with `k` after `Ok` -/
def thenR (r : TxValidate.Res) (k : R Bool) : R Bool :=
  match r with
  | .ok => k
  | .err _ => .ok false
  | .panic => .error (.panic "already checked")
theorem thenR_resToR (r k : TxValidate.Res) : thenR r (resToR k) = resToR (r.andThen k) := by cases r <;> rfl

/-- the EIP-7702 block of `Evm.validateEnv` (the same source text) -/
def vAuth (e : Evm.Env) (spec : Nat) : R Bool := do
  if !enabled spec GasCalc.SpecId.PRAGUE ∧ e.tx.authList.isSome then return false
  if let some l := e.tx.authList then
    if l.isEmpty then return false
    if e.tx.maxFeePerBlobGas.isSome ∨ !e.tx.blobHashes.isEmpty then return false
    if e.tx.to.isNone then return false
  return true

/-- the EIP-4844 blocks of `Evm.validateEnv`, then `vAuth` -/
def vBlob (e : Evm.Env) (spec : Nat) : R Bool := do
  if !enabled spec GasCalc.SpecId.CANCUN ∧ (e.tx.maxFeePerBlobGas.isSome ∨ !e.tx.blobHashes.isEmpty) then return false
  match e.tx.maxFeePerBlobGas with
  | some mx =>
    let some price := e.block.blobGasPrice | throw (.panic "already checked")
    if price > mx then return false
    if e.tx.blobHashes.isEmpty then return false
    if e.tx.to.isNone then return false
    if e.tx.blobHashes.any (fun h => h / 2^248 != VERSIONED_HASH_VERSION_KZG) then return false
    if enabled spec GasCalc.SpecId.CANCUN ∧ e.tx.blobHashes.length > blobMaxCount spec then return false
  | none =>
    if !e.tx.blobHashes.isEmpty then return false
  vAuth e spec

/-- the EIP-3860 block, then `vBlob` -/
def vInit (e : Evm.Env) (spec : Nat) : R Bool := do
  if enabled spec GasCalc.SpecId.SHANGHAI ∧ e.tx.to.isNone then
    let maxInit := match e.cfg.limitContractCodeSize with
      | some l => U64ops.saturatingMul l 2
      | none => MAX_INITCODE_SIZE
    if e.tx.data.length > maxInit then return false
  vBlob e spec

/-- the EIP-1559 block, then `vInit` -/
def vFee (e : Evm.Env) (spec : Nat) : R Bool := do
  if enabled spec GasCalc.SpecId.LONDON then
    if let some p := e.tx.priorityFee then
      if p > e.tx.gasPrice then return false
    if e.effectiveGasPrice < e.block.basefee then return false
  vInit e spec

/-- `validate_block_env`, chain id, block gas limit, access list, then `vFee` -/
def vHead (e : Evm.Env) (spec : Nat) : R Bool := do
  if enabled spec GasCalc.SpecId.MERGE ∧ e.block.prevrandao.isNone then return false
  if enabled spec GasCalc.SpecId.CANCUN ∧ e.block.blobGasPrice.isNone then return false
  if let some c := e.tx.chainId then
    if c ≠ e.cfg.chainId then return false
  if e.tx.gasLimit > e.block.gasLimit then return false
  if !enabled spec GasCalc.SpecId.BERLIN ∧ !e.tx.accessList.isEmpty then return false
  vFee e spec

/-- `Evm.validateEnv` IS the five stages in sequence (the same do-block, cut at the stage boundaries) -/
theorem validateEnv_staged (e : Evm.Env) (spec : Nat) : Evm.validateEnv e spec = vHead e spec := by
  unfold Evm.validateEnv vHead vFee vInit vBlob vAuth
  rfl

theorem blobMaxCount_eq (e : Evm.Env) (spec : Nat) : TxValidate.blobMaxCount (tvCfg e) spec = Evm.blobMaxCount spec := by
  unfold TxValidate.blobMaxCount Evm.blobMaxCount tvCfg
  simp only [List.reverse_cons, List.reverse_nil, List.nil_append, List.cons_append, List.find?]
  by_cases h1 : spec ≥ GasCalc.SpecId.PRAGUE
  · simp [h1]
  · by_cases h2 : spec ≥ GasCalc.SpecId.CANCUN <;> simp [h1, h2]

theorem vAuth_link (e : Evm.Env) (spec : Nat) : vAuth e spec = resToR (TxValidate.authChecks spec (tvTx e)) := by
  unfold vAuth TxValidate.authChecks
  cases hal : e.tx.authList with
  | none => simp [tvTx, hal, resToR, pure, Except.pure]
  | some l =>
    simp only [bind, Except.bind, pure, Except.pure, tvTx, hal]
    by_cases hp : enabled spec GasCalc.SpecId.PRAGUE = true
    · by_cases hl : l = []
      · simp [hp, hl, resToR]
      · by_cases hb : e.tx.maxFeePerBlobGas.isSome = true ∨ (!e.tx.blobHashes.isEmpty) = true
        · rcases hb with hb | hb <;> simp [hp, hl, hb, resToR]
        · have hb1 : e.tx.maxFeePerBlobGas.isSome = false := by simpa using fun h => hb (Or.inl h)
          have hb2 : e.tx.blobHashes.isEmpty = true := by simpa using fun h => hb (Or.inr h)
          cases hto : e.tx.to.isNone <;> simp [hp, hl, hb1, hb2, hto, resToR]
    · simp [hp, resToR]

theorem vBlob_link (e : Evm.Env) (spec : Nat) :
    vBlob e spec = thenR (TxValidate.blobChecks spec (tvCfg e) (tvBlock e) (tvTx e)) (vAuth e spec) := by
  unfold vBlob TxValidate.blobChecks
  rw [blobMaxCount_eq]
  have hany : (List.map (fun h => h / 2 ^ 248) e.tx.blobHashes).any (fun v => v != TxValidate.VERSIONED_HASH_VERSION_KZG)
      = e.tx.blobHashes.any (fun h => h / 2^248 != VERSIONED_HASH_VERSION_KZG) := by
    rw [List.any_map]; rfl
  cases hmx : e.tx.maxFeePerBlobGas with
  | none =>
    simp only [bind, Except.bind, pure, Except.pure, tvTx, tvBlock, hmx]
    by_cases hc : enabled spec GasCalc.SpecId.CANCUN = true
    · cases hb : e.tx.blobHashes.isEmpty <;> simp [hc, hb, thenR]
    · cases hb : e.tx.blobHashes.isEmpty <;> simp [hc, hb, thenR]
  | some mx =>
    simp only [bind, Except.bind, pure, Except.pure, tvTx, tvBlock, hmx]
    by_cases hc : enabled spec GasCalc.SpecId.CANCUN = true
    · cases hpr : e.block.blobGasPrice with
      | none => simp [hc, thenR, throw, throwThe, MonadExceptOf.throw]
      | some price =>
        by_cases h1 : price > mx
        · simp [hc, h1, thenR]
        · cases hb : e.tx.blobHashes.isEmpty
          · cases hto : e.tx.to.isNone
            · simp only [hany]
              cases ha : e.tx.blobHashes.any (fun h => h / 2^248 != VERSIONED_HASH_VERSION_KZG)
              · by_cases hn : e.tx.blobHashes.length > blobMaxCount spec
                · simp [hc, h1, hb, hto, ha, hn, thenR]
                · simp [hc, h1, hb, hto, ha, hn, thenR]
              · simp [hc, h1, hb, hto, ha, thenR]
            · simp [hc, h1, hb, hto, thenR]
          · simp [hc, h1, hb, thenR]
    · simp [hc, thenR]

end Revm.Proofs.EvmLink
