import Revm.Proofs.EvmInstHooksLog
import Revm.Proofs.EvmInstHooksMachine
/-! C30 instance, part 2 (and the log statement of C29): over a whole completed `Evm.transact` run.

Every `.insn x g` of the trace is the wrapper-view `insnOf` / the ground truth `truthOf` of an instruction actually
resolved by the loop (`runLoopTr_resolved`, for ANY run, completed or not). With the step lemmas
(`EvmInstSd.sd_consistent`, `log_consistent`) and C30's `selfdestruct_callbacks_exact` / C29's `log_reported_once`
instantiated with the script of the run (which the machine consumes entirely, `completed_finished`):

* `evm_selfdestruct_notified_once`: the `selfdestruct` callbacks are, in order, exactly `(contract, popped beneficiary,
  balance moved)` of the SELFDESTRUCT instructions that ended with `SelfDestruct` — one each, none else;
* `evm_hooks_logs`: the `log` callbacks are, in order, exactly the ids of the records appended by the LOG0..4
  instructions that reached the host. -/
namespace Revm.Proofs.EvmInstSd
open Revm Revm.Model Revm.Model.Evm
open Revm.Proofs.EvmInstHooks
open Revm.Model.InspectorHooks (Insn Spawn Turn Kind Ev Stacks St Status runTx)
open Revm.Spec.InspectorHooks (logsOf sdsOf insnLog insnSd)

set_option linter.unusedSimpArgs false
set_option linter.unusedVariables false

/-- an instruction event that stems from an instruction the loop resolved -/
def EvOk (he : HostEnv) : LEv → Prop
  | .insn x g => ∃ s w d w', Resolved he s w d w' ∧ x = insnOf s w.js w'.js d ∧ g = truthOf s w d
  | .next _ => True

theorem actionEvs_ok {κ : Type} (he : HostEnv) (C : CpOps κ) (cfg : Cfg) (a : Interp.Action)
    (mem : Memory.SharedMemory) (w : World) : ∀ ev ∈ actionEvs C cfg a mem w, EvOk he ev := by
  intro ev hev
  unfold actionEvs at hev
  split at hev
  · simp only [List.mem_singleton] at hev; subst hev; trivial
  · simp only [List.mem_singleton] at hev; subst hev; trivial
  · cases hev

theorem doneEvs_ok {κ : Type} (he : HostEnv) (C : CpOps κ) (cfg : Cfg) (d : Interp.Done) (w : World) :
    ∀ ev ∈ doneEvs C cfg d w, EvOk he ev := by
  intro ev hev
  cases d with
  | next s => cases hev
  | action a s => exact actionEvs_ok he C cfg a s.mem w ev hev
  | halt r o s =>
    simp only [doneEvs, retEv, List.mem_singleton] at hev; subst hev; trivial
  | fault f => cases hev

theorem stepEvs_ok {κ : Type} (C : CpOps κ) (cfg : Cfg) (top : Frame κ) (w w' : World) (d : Interp.Done)
    (hr : Resolved cfg.he top.interp w d w') : ∀ ev ∈ stepEvs C cfg top w d w', EvOk cfg.he ev := by
  intro ev hev
  unfold stepEvs at hev
  rcases List.mem_cons.1 hev with rfl | hev
  · exact ⟨top.interp, w, d, w', hr, rfl, rfl⟩
  · exact doneEvs_ok cfg.he C cfg d w' ev hev

theorem iterEvs_ok {κ : Type} (C : CpOps κ) (cfg : Cfg) (stack : List (Frame κ)) (w : World) :
    ∀ ev ∈ iterEvs C cfg stack w, EvOk cfg.he ev := by
  intro ev hev
  unfold iterEvs at hev
  cases stack with
  | nil => cases hev
  | cons top rest =>
    simp only at hev
    cases hs : Interp.step top.interp with
    | pure d =>
      rw [hs] at hev
      exact stepEvs_ok C cfg top w w d (.pure d hs) ev hev
    | host op k =>
      rw [hs] at hev
      simp only at hev
      cases ha : answer cfg.he w op with
      | error e => rw [ha] at hev; cases hev
      | ok p =>
        obtain ⟨resp, w'⟩ := p
        rw [ha] at hev
        exact stepEvs_ok C cfg top w w' (k resp) (.host op k resp w' hs ha) ev hev

theorem runLoopTr_resolved_aux {κ : Type} (C : CpOps κ) (cfg : Cfg) : ∀ fuel : Nat,
    (∀ stack w, ∀ ev ∈ (runLoopTr C cfg fuel stack w).2, EvOk cfg.he ev) ∧
    (∀ top rest r out s w, ∀ ev ∈ (runEndedTr C cfg fuel top rest r out s w).2, EvOk cfg.he ev) := by
  intro fuel
  induction fuel with
  | zero =>
    constructor
    · intro stack w ev hev; rw [runLoopTr] at hev; cases hev
    · intro top rest r out s w ev hev; rw [runEndedTr] at hev; cases hev
  | succ n ih =>
    have hret : EvOk cfg.he retEv := trivial
    constructor
    · intro stack w ev hev
      rw [runLoopTr] at hev
      have hi := iterEvs_ok C cfg stack w
      cases hit : iterate C cfg stack w with
      | error e => rw [hit] at hev; exact hi ev hev
      | ok nx =>
        rw [hit] at hev
        cases nx with
        | run st w' =>
          rcases List.mem_append.1 hev with h | h
          · exact hi ev h
          · exact ih.1 st w' ev h
        | ended t rs r o s w' =>
          rcases List.mem_append.1 hev with h | h
          · exact hi ev h
          · exact ih.2 t rs r o s w' ev h
        | done r w' => exact hi ev hev
    · intro top rest r out s w ev hev
      rw [runEndedTr] at hev
      cases hit : frameEnd C cfg top rest r out s w with
      | error e =>
        rw [hit] at hev
        simp only [List.mem_singleton] at hev; subst hev; exact hret
      | ok nx =>
        rw [hit] at hev
        cases nx with
        | run st w' =>
          rcases List.mem_cons.1 hev with rfl | h
          · exact hret
          · exact ih.1 st w' ev h
        | ended t rs r o s w' =>
          rcases List.mem_cons.1 hev with rfl | h
          · exact hret
          · exact ih.2 t rs r o s w' ev h
        | done r w' =>
          simp only [List.mem_singleton] at hev; subst hev; exact hret

/-- every instruction event of a traced loop run (completed or not) stems from an instruction the loop resolved -/
theorem runLoopTr_resolved {κ : Type} (C : CpOps κ) (cfg : Cfg) (fuel : Nat) (stack : List (Frame κ)) (w : World) :
    ∀ ev ∈ (runLoopTr C cfg fuel stack w).2, EvOk cfg.he ev := (runLoopTr_resolved_aux C cfg fuel).1 stack w

/-- the same for the trace of a transaction; the host environment is the transaction's block number -/
theorem transactTr_resolved (fuel : Nat) (w : World) (e : Env) (spec : Nat) (r : R (Outcome × World)) (first : Spawn)
    (evs : List LEv) (h : transactTr fuel w e spec = (r, some (first, evs))) :
    ∀ ev ∈ evs, EvOk { blockNumber := e.block.number } ev := by
  unfold transactTr transactWithTr at h
  cases hp : preverify w e (GasCalc.canon spec) with
  | error err => rw [hp] at h; simp at h
  | ok x =>
    rw [hp] at h
    cases x with
    | none => simp at h
    | some y =>
      obtain ⟨w1, initialGas, floorGas⟩ := y
      simp only at h
      cases hq : prepare journalOps e (GasCalc.canon spec) initialGas w1 with
      | error err => rw [hq] at h; simp at h
      | ok z =>
        rw [hq] at h
        obtain ⟨fr, w2, isCreate, refund⟩ := z
        simp only [Prod.mk.injEq, Option.some.injEq] at h
        obtain ⟨_, _, hevs⟩ := h
        subst hevs
        cases fr with
        | result r => intro ev hev; cases hev
        | frame f => exact runLoopTr_resolved journalOps (e.toCfg (GasCalc.canon spec)) fuel [f] w2

theorem consistent_of_ok {he : HostEnv} {ev : LEv} (h : EvOk he ev) : Consistent ev := by
  cases ev with
  | next n => trivial
  | insn x g =>
    obtain ⟨s, w, d, w', hr, rfl, rfl⟩ := h
    exact insn_consistent hr

theorem sds_of_consistent : ∀ (evs : List LEv), (∀ ev ∈ evs, Consistent ev) →
    (insnsOf evs).filterMap insnSd = (truthsOf evs).filterMap (·.sd) := by
  intro evs
  induction evs with
  | nil => intro _; rfl
  | cons ev l ih =>
    intro h
    have hl := ih (fun ev' h' => h ev' (List.mem_cons_of_mem _ h'))
    have hev := h ev List.mem_cons_self
    cases ev with
    | next n => simpa [insnsOf, truthsOf] using hl
    | insn x g =>
      have hx : insnSd x = g.sd := hev.1
      simp only [insnsOf, truthsOf, List.filterMap_cons] at hl ⊢
      rw [hx]
      cases g.sd with
      | none => exact hl
      | some v => simp only [List.cons.injEq, true_and]; exact hl

theorem logs_of_consistent : ∀ (evs : List LEv), (∀ ev ∈ evs, Consistent ev) →
    (insnsOf evs).filterMap insnLog = (truthsOf evs).filterMap (·.log) := by
  intro evs
  induction evs with
  | nil => intro _; rfl
  | cons ev l ih =>
    intro h
    have hl := ih (fun ev' h' => h ev' (List.mem_cons_of_mem _ h'))
    have hev := h ev List.mem_cons_self
    cases ev with
    | next n => simpa [insnsOf, truthsOf] using hl
    | insn x g =>
      have hx : insnLog x = g.log := hev.2
      simp only [insnsOf, truthsOf, List.filterMap_cons] at hl ⊢
      rw [hx]
      cases g.log with
      | none => exact hl
      | some v => simp only [List.cons.injEq, true_and]; exact hl

/-- the completed SELFDESTRUCTs along a traced run, in order: (executing contract, beneficiary popped from the stack,
balance that moved), each computed from the state BEFORE the instruction (`sdTruth`) -/
def completedSelfdestructs (evs : List LEv) : List (Nat × Nat × Nat) := (truthsOf evs).filterMap (·.sd)

/-- the ids of the log records appended by the LOG0..4 instructions that reached the host, in order -/
def appendedLogs (evs : List LEv) : List Nat := (truthsOf evs).filterMap (·.log)

/-- HEADLINE (C30 instance): in every completed `Evm.transact` run the inspector's `selfdestruct` callbacks are, in
order, exactly one per SELFDESTRUCT instruction that completed (`.halt .SelfDestruct`), naming the executing contract,
the beneficiary popped from the stack and the balance that moved; no other instruction or frame event makes one -/
theorem evm_selfdestruct_notified_once (b : Stacks) (fuel : Nat) (w : World) (e : Env) (spec : Nat) (o : Outcome)
    (w' : World) (first : Spawn) (evs : List LEv) (h : transactTr fuel w e spec = (.ok (o, w'), some (first, evs))) :
    sdsOf (runTx b first (scriptOf evs)).2.word = completedSelfdestructs evs := by
  rw [evm_hooks_sds_insns b fuel w e spec o w' first evs h]
  exact sds_of_consistent evs fun ev hev =>
    consistent_of_ok (transactTr_resolved fuel w e spec _ first evs h ev hev)

/-- C29 instance, logs: the `log` callbacks of a completed run are, in order, exactly the ids of the records appended
by the LOG instructions that succeeded — each reported once -/
theorem evm_hooks_logs (b : Stacks) (fuel : Nat) (w : World) (e : Env) (spec : Nat) (o : Outcome)
    (w' : World) (first : Spawn) (evs : List LEv) (h : transactTr fuel w e spec = (.ok (o, w'), some (first, evs))) :
    logsOf (runTx b first (scriptOf evs)).2.word = appendedLogs evs := by
  rw [evm_hooks_logs_insns b fuel w e spec o w' first evs h]
  exact logs_of_consistent evs fun ev hev =>
    consistent_of_ok (transactTr_resolved fuel w e spec _ first evs h ev hev)

/-- what an entry of `completedSelfdestructs` is: it belongs to an instruction the loop resolved at opcode `0xFF`
that ended `.halt .SelfDestruct`, with the beneficiary on top of the stack; `acc` is the contract's account as
`JournaledState::selfdestruct` reads it -/
theorem sdTruth_some {s : Interp.IState} {w : World} {d : Interp.Done} {x : Nat × Nat × Nat}
    (h : sdTruth s w d = some x) :
    ∃ out s' rest t0 acc, d = .halt .SelfDestruct out s' ∧ s.stack = rest ++ [t0] ∧
      contractAcct w s.target (Interp.addrOfWord t0) = some acc ∧
      x = (s.target, Interp.addrOfWord t0,
        Revm.Proofs.SelfdestructNotify.movedValue acc w.js.spec s.target (Interp.addrOfWord t0)) := by
  cases d with
  | next _ => cases h
  | action _ _ => cases h
  | fault _ => cases h
  | halt r out s' =>
    simp only [sdTruth] at h
    by_cases hr : r = .SelfDestruct
    · subst hr
      simp only [if_true] at h
      rcases list_snoc_cases s.stack with hnil | ⟨rest, t0, hst⟩
      · simp [hnil] at h
      · simp only [hst, List.getLast?_append, List.getLast?_singleton, Option.or_some, Option.some_or] at h
        cases hc : contractAcct w s.target (Interp.addrOfWord t0) with
        | none => simp [hc] at h
        | some acc =>
          simp only [hc, Option.some.injEq] at h
          exact ⟨out, s', rest, t0, acc, rfl, hst, hc, h.symm⟩
    · simp [hr] at h

/-! ### the reported value as "balance before minus balance after" -/

/-- PARTIAL (per instruction): for a completed SELFDESTRUCT whose executing contract IS in the journal when the
instruction starts, the entry of `completedSelfdestructs` (= the notification) names the contract, and its value is
exactly what left the contract's journal balance. The hypothesis `hloaded` is C30's own assumption ("revm loads the
executing contract before any of its code runs"); it is NOT derived here from the run, see
`FullStatementContractLoaded`. Without it `sdTruth` still is `(contract, beneficiary, movedValue acc …)` for the
account `acc` that `JournaledState::selfdestruct` itself reads (`sdTruth_some`). -/
theorem evm_selfdestruct_balance_left_partial {he : HostEnv} {s : Interp.IState} {w w' : World} {d : Interp.Done}
    {acc : Journal.Acct} {x : Nat × Nat × Nat} (hcode : s.code[s.pc]? = some 0xff) (hr : Resolved he s w d w')
    (hloaded : w.js.state s.target = some acc) (hx : sdTruth s w d = some x) :
    x.1 = s.target ∧
    x.2.2 = Revm.Proofs.SelfdestructNotify.movedValue acc w.js.spec s.target x.2.1 ∧
    SelfdestructNotify.balanceOf w.js s.target = SelfdestructNotify.balanceOf w'.js s.target + x.2.2 := by
  obtain ⟨out, s', _, _, _, hd, _, _, _⟩ := sdTruth_some hx
  obtain ⟨rest, t0, _, hn, hbal⟩ := sd_step_completed_loaded hcode hr hd hloaded
  rw [sd_consistent hcode hr, hx] at hn
  injection hn with hn
  subst hn
  exact ⟨rfl, rfl, hbal⟩

/-- an instruction event whose executing contract is in the journal when the instruction starts -/
def EvLoaded (he : HostEnv) : LEv → Prop
  | .insn x g => ∃ s w d w', Resolved he s w d w' ∧ x = insnOf s w.js w'.js d ∧ g = truthOf s w d ∧
      (w.js.state s.target).isSome = true
  | .next _ => True

/-- NOT PROVED. What is missing to discharge `hloaded` of `evm_selfdestruct_balance_left_partial` (and of C30's
`selfdestruct_notified_once`) for every instruction of every `transact` run: the run invariant "the target of every
frame on the call stack is in the journal". It needs (1) `Interp.step` never changes `IState.target` (no such lemma
exists yet: it is a sweep over all handlers like `Proofs/EvmLinkKeep*.lean`), (2) the `targetAddress` of every
`Action.call` is the `bytecodeAddress` (CALL, STATICCALL: loaded by `make_call_frame`) or the running frame's own
target (CALLCODE, DELEGATECALL: `make_call_frame` does NOT load it when `valueTransfer = false`), (3) no journal
operation (incl. `checkpoint_revert`) removes an account from `JState.state`. The journal model itself does not need
it: for an unloaded self-target `Journal.selfdestruct` loads the contract from the database and succeeds. -/
def FullStatementContractLoaded : Prop :=
  ∀ (fuel : Nat) (w : World) (e : Env) (spec : Nat) (r : R (Outcome × World)) (first : Spawn) (evs : List LEv),
    transactTr fuel w e spec = (r, some (first, evs)) → ∀ ev ∈ evs, EvLoaded { blockNumber := e.block.number } ev

end Revm.Proofs.EvmInstSd
