import Revm.Proofs.EvmStep2Prim
import Revm.Spec.EvmRules2Call
/-! (f) CALL, CALLCODE, DELEGATECALL, STATICCALL: `Interp.step` is the rule of `Spec/EvmRules2Call.lean`. -/
set_option linter.unusedSimpArgs false
set_option linter.unusedVariables false
namespace Revm.Proofs.EvmStep2
open Revm Revm.Model Revm.Model.Interp
open Revm.Model.GasCalc (enabled)
open Revm.Spec.EvmRules Revm.Spec.EvmRules2
open Revm.Spec.GasCalc (Fork ceil32 memCost)
open Revm.Proofs.EvmStep

/-! ## operands -/

theorem call_popAddress_ok (s : IState) (l : List Nat) (a : Nat) (h : s.stack = l ++ [a]) :
    popAddress s = .ok (addrOf a) { s with stack := l } := by
  unfold popAddress
  rw [bind_ok _ _ _ _ _ (pop1_ok s l a h)]
  rfl

theorem call_popAddress_underflow (s : IState) (h : s.stack.length < 1) : popAddress s = .halt .StackUnderflow [] s := by
  unfold popAddress
  rw [bind_halt _ _ _ _ _ _ (pop1_underflow s h)]

theorem asUsizeSat_eq (v : Nat) : asUsizeSat v = gasWord v := by
  have hU := U64_val
  unfold asUsizeSat U256.asU64Sat gasWord
  split <;> omega

theorem gasWord_lt (v : Nat) : gasWord v < U64 := by
  have hU := U64_val
  unfold gasWord; omega

/-- the frame's memory stays short: its cost is below the gas bound -/
theorem MemOK.memLen {s : IState} (h : MemOK s) : (memOf s).length ≤ 2^60 := by
  apply len_of_cost
  have := h.budget
  omega

/-! ## the memory ranges -/

/-- `call_helpers::resize_memory` followed by the rest of the `pre` part is `rangeAccess`; the rest runs on a state that
differs from `s` in gas and memory only, is `MemOK` again and has the range addressable -/
theorem resizeMemRange_bind {β} (off len : Nat) (gk : Nat × Nat → M (HostOp × β)) (post : β → HostResp → M Action)
    (s : IState) (K : IState → Outcome) (h : MemOK s) (hoff : off < W) (hlen : len < W)
    (hK : ∀ (g : Gas.Gas) (m : Memory.SharedMemory), MemOK { s with gas := g, mem := m } →
        (len ≠ 0 → off + len ≤ (memOf { s with gas := g, mem := m }).length) →
        hostCallAction (gk (retWindow off len)) post { s with gas := g, mem := m } = K { s with gas := g, mem := m }) :
    hostCallAction (resizeMemRange off len >>= gk) post s = rangeAccess s off len K := by
  have hU := U64_val
  unfold resizeMemRange rangeAccess
  rw [hostCallAction_assoc]
  by_cases hl : U64 ≤ len
  · rw [hostCallAction_halt _ _ _ _ _ _ _ (asUsizeOrFail_fail len _ s hl hlen), if_pos hl]
  · rw [hostCallAction_ok _ _ _ _ _ _ (asUsizeOrFail_ok len _ s (by omega)), if_neg hl]
    by_cases hz : len = 0
    · rw [if_neg (fun hne => hne hz), if_pos hz]
      have hk := hK s.gas s.mem h (fun hne => absurd hz hne)
      unfold retWindow at hk
      rw [if_pos hz] at hk
      exact hk
    · rw [if_pos hz, if_neg hz, hostCallAction_assoc]
      by_cases ho : U64 ≤ off
      · rw [hostCallAction_halt _ _ _ _ _ _ _ (asUsizeOrFail_fail off _ s ho hoff), if_pos ho]
      · rw [hostCallAction_ok _ _ _ _ _ _ (asUsizeOrFail_ok off _ s (by omega)), if_neg ho, hostCallAction_assoc]
        unfold memAccessO
        by_cases hc : s.gas.remaining < touchCost (memOf s) off len
        · rw [hostCallAction_halt _ _ _ _ _ _ _ (resizeMem_fail s _ len h (by omega) (by omega) hc), if_pos hc]
        · rw [hostCallAction_ok _ _ _ _ _ _ (resizeMem_ok s _ len h (by omega) (by omega) hc), if_neg hc]
          have h3 := h.touch off len hc
          have hcov := touch_covers (memOf s) off len
          have hm3 : memOf (setMem (charge s (touchCost (memOf s) off len)) (touch (memOf s) off len))
              = touch (memOf s) off len := memOf_setMem h.mem _
          have hlen3 := h3.memLen
          rw [hm3] at hlen3
          have hk := hK (setMem (charge s (touchCost (memOf s) off len)) (touch (memOf s) off len)).gas
            (setMem (charge s (touchCost (memOf s) off len)) (touch (memOf s) off len)).mem h3
            (fun _ => by
              show off + len ≤ (memOf (setMem (charge s (touchCost (memOf s) off len)) (touch (memOf s) off len))).length
              rw [hm3]; exact hcov)
          unfold retWindow at hk
          rw [if_neg hz] at hk
          have hmod : (off + len) % U64 = off + len := Nat.mod_eq_of_lt (by omega)
          show hostCallAction (gk (off, (off + len) % U64)) post _ = _
          rw [hmod]
          exact hk

theorem memSliceRange_eq (s : IState) (off len : Nat) (h : Proofs.Memory.WF s.mem)
    (hin : off + len ≤ (memOf s).length) (hlt : off + len < U64) :
    memSliceRange off (off + len) s = .ok (load (memOf s) off len) s := by
  have := memSlice_eq s off len h hin
  unfold memSlice Memory.slice at this
  rw [Nat.mod_eq_of_lt hlt] at this
  exact this

/-- `get_memory_input_and_out_ranges` followed by the rest of the `pre` part is `callMem` -/
theorem ranges_bind {β} (f : List Nat × Nat × Nat → M (HostOp × β)) (post : β → HostResp → M Action) (s : IState)
    (inOff inLen outOff outLen : Nat) (rest : List Nat)
    (K : IState → List Nat → Nat × Nat → Outcome) (h : MemOK s) (hw : ∀ w ∈ s.stack, w < W)
    (hrev : s.stack.reverse = inOff :: inLen :: outOff :: outLen :: rest)
    (hK : ∀ (g : Gas.Gas) (m : Memory.SharedMemory) (input : List Nat) (win : Nat × Nat),
        MemOK { s with stack := rest.reverse, gas := g, mem := m } →
        hostCallAction (f (input, win.1, win.2)) post { s with stack := rest.reverse, gas := g, mem := m }
          = K { s with stack := rest.reverse, gas := g, mem := m } input win) :
    hostCallAction (getMemoryInputAndOutRanges >>= f) post s
      = callMem { s with stack := rest.reverse } inOff inLen outOff outLen K := by
  have hU := U64_val
  have hs : s.stack = rest.reverse ++ [outLen, outOff, inLen, inOff] := by
    have := stack_of_reverse (pre := [inOff, inLen, outOff, outLen]) hrev
    simpa using this
  have h1 : inOff < W := lt_W_of_mem hw (pre := [inOff, inLen, outOff, outLen]) hrev (by simp)
  have h2 : inLen < W := lt_W_of_mem hw (pre := [inOff, inLen, outOff, outLen]) hrev (by simp)
  have h3 : outOff < W := lt_W_of_mem hw (pre := [inOff, inLen, outOff, outLen]) hrev (by simp)
  have h4 : outLen < W := lt_W_of_mem hw (pre := [inOff, inLen, outOff, outLen]) hrev (by simp)
  unfold getMemoryInputAndOutRanges callMem
  rw [hostCallAction_assoc, hostCallAction_ok _ _ _ _ _ _ (pop4_ok s _ inOff inLen outOff outLen hs)]
  simp only []
  rw [hostCallAction_assoc]
  apply resizeMemRange_bind _ _ _ _ _ _ (h.stack _) h1 h2
  intro g m hm hcov
  have hlen := hm.memLen
  unfold retWindow
  by_cases hz : inLen = 0
  · rw [if_pos hz, if_pos hz]
    simp only []
    rw [if_neg (Nat.lt_irrefl _), hostCallAction_assoc]
    have hp : (pure [] : M (List Nat)) { s with stack := rest.reverse, gas := g, mem := m }
        = .ok [] { s with stack := rest.reverse, gas := g, mem := m } := rfl
    rw [hostCallAction_ok _ _ _ _ _ _ hp, hostCallAction_assoc]
    apply resizeMemRange_bind _ _ _ _ _ _ hm h3 h4
    intro g' m' hm' _
    exact hK g' m' [] _ hm'
  · rw [if_neg hz, if_neg hz]
    simp only []
    have hcov' := hcov hz
    rw [if_pos (by omega), hostCallAction_assoc,
      hostCallAction_ok _ _ _ _ _ _ (memSliceRange_eq _ inOff inLen hm.mem hcov' (by omega)), hostCallAction_assoc]
    apply resizeMemRange_bind _ _ _ _ _ _ hm h3 h4
    intro g' m' hm' _
    exact hK g' m' _ _ hm'

theorem ranges_underflow {β} (f : List Nat × Nat × Nat → M (HostOp × β)) (post : β → HostResp → M Action) (s : IState)
    (h : s.stack.length < 4) :
    hostCallAction (getMemoryInputAndOutRanges >>= f) post s = .halt .StackUnderflow [] s := by
  unfold getMemoryInputAndOutRanges
  rw [hostCallAction_assoc, hostCallAction_halt _ _ _ _ _ _ _ (pop4_underflow s h)]

/-! ## the price of the call and the gas of the child -/

theorem calcCallGas_eq (f : Fork) (r : HostResp) (e ht : Bool) (lgl : Nat) (s : IState) (hf : s.spec = f.id)
    (hg : s.gas.remaining < U64) :
    calcCallGas r e ht lgl s =
      if s.gas.remaining < Spec.GasCalc.callCost f ht r.isCold r.delegCold e then .halt .OutOfGas [] s
      else .ok (forwardedGas f (charge s (Spec.GasCalc.callCost f ht r.isCold r.delegCold e)).gas lgl)
             (charge s (Spec.GasCalc.callCost f ht r.isCold r.delegCold e)) := by
  have hU := U64_val
  unfold calcCallGas
  rw [bind_ok _ _ _ _ _ (getS_ok s)]
  rw [hf, Proofs.GasCalc.callCost_eq]
  by_cases hc : s.gas.remaining < Spec.GasCalc.callCost f ht r.isCold r.delegCold e
  · rw [bind_halt _ _ _ _ _ _ (gasCharge_fail s _ hc), if_pos hc]
  · rw [bind_ok _ _ _ _ _ (gasCharge_ok s _ hg (by omega)), if_neg hc, bind_ok _ _ _ _ _ (getS_ok _)]
    show Exec.ok _ _ = Exec.ok _ _
    congr 1
    unfold forwardedGas
    show (if enabled s.spec GasCalc.SpecId.TANGERINE = true then _ else _) = _
    rw [hf, Proofs.GasCalc.en_tangerine, Proofs.Gas.remaining63of64_eq _ (by show s.gas.remaining - _ < U64; omega)]
    rfl

/-- the `post` part of the four calls: `requireSome`, `calc_call_gas`, `gas!(gas_limit)`, and the rest `k` (stipend and
inputs), which sees a state that differs from `s` in the gas meter only -/
theorem callPost_eq (f : Fork) (r : HostResp) (e ht ce : Bool) (lgl : Nat) (k : Nat → M Action) (mk : Nat → CallInputs)
    (s : IState) (hf : s.spec = f.id) (h : MemOK s) (he : e = (ce && r.isEmpty))
    (hk : ∀ (g : Gas.Gas) (fwd : Nat), fwd + g.remaining < GAS_BOUND →
        (k fwd { s with gas := g }).toDoneAction
          = .action (.call (mk (if ht then fwd + 2300 else fwd))) { s with gas := g }) :
    ((requireSome r >>= fun _ => calcCallGas r e ht lgl >>= fun g => gasCharge g >>= fun _ => k g) s).toDoneAction
      = callAfter f s lgl ht ce mk r := by
  have hU := U64_val
  have hG := GAS_BOUND_val
  subst he
  unfold callAfter needGas
  by_cases hok : r.ok = true
  · have hr : requireSome r s = .ok () s := by simp [requireSome, hok]
    rw [bind_ok _ _ _ _ _ hr]
    have hcg := calcCallGas_eq f r (ce && r.isEmpty) ht lgl s hf h.gas
    simp only [hok, Bool.not_true, Bool.false_eq_true, if_false]
    by_cases hc : s.gas.remaining < Spec.GasCalc.callCost f ht r.isCold r.delegCold (ce && r.isEmpty)
    · rw [if_pos hc] at hcg
      rw [bind_halt _ _ _ _ _ _ hcg, if_pos hc]
      rfl
    · rw [if_neg hc] at hcg
      rw [bind_ok _ _ _ _ _ hcg, if_neg hc]
      have h1 : MemOK (charge s (Spec.GasCalc.callCost f ht r.isCold r.delegCold (ce && r.isEmpty))) := h.charge _
      have hb1 := h1.bound
      generalize hfw : forwardedGas f (charge s (Spec.GasCalc.callCost f ht r.isCold r.delegCold (ce && r.isEmpty))).gas lgl
        = fwd at *
      by_cases hc2 : (charge s (Spec.GasCalc.callCost f ht r.isCold r.delegCold (ce && r.isEmpty))).gas.remaining < fwd
      · rw [bind_halt _ _ _ _ _ _ (gasCharge_fail _ _ hc2), if_pos hc2]
        rfl
      · rw [bind_ok _ _ _ _ _ (gasCharge_ok _ _ h1.gas (by omega)), if_neg hc2]
        exact hk _ fwd (by
          show fwd + ((charge s (Spec.GasCalc.callCost f ht r.isCold r.delegCold (ce && r.isEmpty))).gas.remaining - fwd)
            < GAS_BOUND
          omega)
  · have hr : requireSome r s = .halt .FatalExternalError [] s := by simp [requireSome, hok]
    rw [bind_halt _ _ _ _ _ _ hr]
    simp only [hok, Bool.not_false, if_true]
    rfl

/-! ## CALL -/

theorem call_stack_nil {s : IState} (h : s.stack.reverse = []) : ({ s with stack := [] } : IState) = s := by
  have hs : s.stack = [] := by simpa using h
  rw [← hs]

theorem callI_eq (f : Fork) (s : IState) (hf : s.spec = f.id) (h : MemOK s) (hw : ∀ w ∈ s.stack, w < W) :
    callI s =
      match s.stack.reverse with
      | g :: to :: value :: ops =>
        let s1 := { s with stack := ops.reverse }
        if s.isStatic ∧ value ≠ 0 then .halt .CallNotAllowedInsideStatic [] s1
        else callBody f s1 ops (addrOf to) (gasWord g) (decide (value ≠ 0)) true fun input win limit =>
          { input := input, retStart := win.1, retEnd := win.2, gasLimit := limit, bytecodeAddress := addrOf to,
            targetAddress := addrOf to, caller := s.target, valueTransfer := true, value := value, scheme := .call,
            isStatic := s.isStatic, isEof := false }
      | _ => .halt .StackUnderflow [] { s with stack := [] } := by
  have hU := U64_val
  have hG := GAS_BOUND_val
  unfold callI
  rcases hrev : s.stack.reverse with _ | ⟨g, _ | ⟨to, _ | ⟨value, ops⟩⟩⟩
  · have : s.stack.length < 1 := by rw [← List.length_reverse, hrev]; decide
    rw [hostCallAction_halt _ _ _ _ _ _ _ (pop1_underflow s this)]
    simp only []
    rw [call_stack_nil hrev]
  · have hs : s.stack = [] ++ [g] := by simpa using stack_of_reverse (pre := [g]) (rest := []) hrev
    rw [hostCallAction_ok _ _ _ _ _ _ (pop1_ok s _ g hs),
      hostCallAction_halt _ _ _ _ _ _ _ (call_popAddress_underflow _ (by simp))]
  · have hs : s.stack = [to] ++ [g] := by simpa using stack_of_reverse (pre := [g, to]) (rest := []) hrev
    rw [hostCallAction_ok _ _ _ _ _ _ (pop1_ok s _ g hs),
      hostCallAction_ok _ _ _ _ _ _ (call_popAddress_ok _ [] to rfl),
      hostCallAction_halt _ _ _ _ _ _ _ (pop1_underflow _ (by simp))]
  · have hs : s.stack = (ops.reverse ++ [value, to]) ++ [g] := by
      simpa using stack_of_reverse (pre := [g, to, value]) hrev
    have hw1 : ∀ w ∈ ops.reverse, w < W := fun w hm => hw w (by rw [hs]; simp [List.mem_reverse.mp hm])
    rw [hostCallAction_ok _ _ _ _ _ _ (pop1_ok s _ g hs),
      hostCallAction_ok _ _ _ _ _ _ (call_popAddress_ok _ (ops.reverse ++ [value]) to (by simp)),
      hostCallAction_ok _ _ _ _ _ _ (pop1_ok _ ops.reverse value rfl),
      hostCallAction_ok _ _ _ _ _ _ (getS_ok _)]
    simp only []
    by_cases hst : s.isStatic = true ∧ value ≠ 0
    · rw [if_pos hst, if_pos hst]
      rfl
    · rw [if_neg hst, if_neg hst]
      unfold callBody
      have h1 : MemOK ({ s with stack := ops.reverse } : IState) := h.stack _
      rcases ops with _ | ⟨inOff, _ | ⟨inLen, _ | ⟨outOff, _ | ⟨outLen, rest⟩⟩⟩⟩
      · exact ranges_underflow _ _ _ (by simp)
      · exact ranges_underflow _ _ _ (by simp)
      · exact ranges_underflow _ _ _ (by simp)
      · exact ranges_underflow _ _ _ (by simp)
      · simp only []
        apply ranges_bind _ _ _ inOff inLen outOff outLen rest _ h1 hw1 (by simp)
        intro gm m input win hm
        show Outcome.host _ _ = Outcome.host _ _
        congr 1
        funext r
        simp only []
        rw [asUsizeSat_eq]
        apply callPost_eq f r _ _ true _ _ _ _ (by exact hf) hm rfl
        intro g' fwd hb
        by_cases hv : value = 0
        · simp [hv]
          rfl
        · have hsat : U64ops.saturatingAdd fwd GasCalc.CALL_STIPEND = fwd + 2300 := by
            unfold U64ops.saturatingAdd GasCalc.CALL_STIPEND
            rw [if_pos (by omega)]
          simp [hv, hsat]
          rfl

theorem step_call (f : Fork) (s : IState) (hcode : s.code[s.pc]? = some 0xf1) (hwf : WFM s) (hf : s.spec = f.id) :
    step s = callRule f s := by
  unfold step
  rw [hcode]
  have hdec : decode 0xf1 = .call := rfl
  simp only [hdec, execInstr, execPure]
  show callI (adv s) = _
  rw [callI_eq f (adv s) hf hwf.memOK.adv hwf.words]
  rfl

/-! ## CALLCODE -/

theorem callcodeI_eq (f : Fork) (s : IState) (hf : s.spec = f.id) (h : MemOK s) (hw : ∀ w ∈ s.stack, w < W) :
    callcodeI s =
      match s.stack.reverse with
      | g :: to :: value :: ops =>
        callBody f { s with stack := ops.reverse } ops (addrOf to) (gasWord g) (decide (value ≠ 0)) false
          fun input win limit =>
            { input := input, retStart := win.1, retEnd := win.2, gasLimit := limit, bytecodeAddress := addrOf to,
              targetAddress := s.target, caller := s.target, valueTransfer := true, value := value,
              scheme := .callCode, isStatic := s.isStatic, isEof := false }
      | _ => .halt .StackUnderflow [] { s with stack := [] } := by
  have hU := U64_val
  have hG := GAS_BOUND_val
  unfold callcodeI
  rcases hrev : s.stack.reverse with _ | ⟨g, _ | ⟨to, _ | ⟨value, ops⟩⟩⟩
  · have : s.stack.length < 1 := by rw [← List.length_reverse, hrev]; decide
    rw [hostCallAction_halt _ _ _ _ _ _ _ (pop1_underflow s this)]
    simp only []
    rw [call_stack_nil hrev]
  · have hs : s.stack = [] ++ [g] := by simpa using stack_of_reverse (pre := [g]) (rest := []) hrev
    rw [hostCallAction_ok _ _ _ _ _ _ (pop1_ok s _ g hs),
      hostCallAction_halt _ _ _ _ _ _ _ (call_popAddress_underflow _ (by simp))]
  · have hs : s.stack = [to] ++ [g] := by simpa using stack_of_reverse (pre := [g, to]) (rest := []) hrev
    rw [hostCallAction_ok _ _ _ _ _ _ (pop1_ok s _ g hs),
      hostCallAction_ok _ _ _ _ _ _ (call_popAddress_ok _ [] to rfl),
      hostCallAction_halt _ _ _ _ _ _ _ (pop1_underflow _ (by simp))]
  · have hs : s.stack = (ops.reverse ++ [value, to]) ++ [g] := by
      simpa using stack_of_reverse (pre := [g, to, value]) hrev
    have hw1 : ∀ w ∈ ops.reverse, w < W := fun w hm => hw w (by rw [hs]; simp [List.mem_reverse.mp hm])
    rw [hostCallAction_ok _ _ _ _ _ _ (pop1_ok s _ g hs),
      hostCallAction_ok _ _ _ _ _ _ (call_popAddress_ok _ (ops.reverse ++ [value]) to (by simp)),
      hostCallAction_ok _ _ _ _ _ _ (pop1_ok _ ops.reverse value rfl)]
    simp only []
    unfold callBody
    have h1 : MemOK ({ s with stack := ops.reverse } : IState) := h.stack _
    rcases ops with _ | ⟨inOff, _ | ⟨inLen, _ | ⟨outOff, _ | ⟨outLen, rest⟩⟩⟩⟩
    · exact ranges_underflow _ _ _ (by simp)
    · exact ranges_underflow _ _ _ (by simp)
    · exact ranges_underflow _ _ _ (by simp)
    · exact ranges_underflow _ _ _ (by simp)
    · simp only []
      apply ranges_bind _ _ _ inOff inLen outOff outLen rest _ h1 hw1 (by simp)
      intro gm m input win hm
      show Outcome.host _ _ = Outcome.host _ _
      congr 1
      funext r
      simp only []
      rw [asUsizeSat_eq]
      apply callPost_eq f r _ _ false _ _ _ _ (by exact hf) hm rfl
      intro g' fwd hb
      by_cases hv : value = 0
      · simp [hv]
        rfl
      · have hsat : U64ops.saturatingAdd fwd GasCalc.CALL_STIPEND = fwd + 2300 := by
          unfold U64ops.saturatingAdd GasCalc.CALL_STIPEND
          rw [if_pos (by omega)]
        simp [hv, hsat]
        rfl

theorem step_callcode (f : Fork) (s : IState) (hcode : s.code[s.pc]? = some 0xf2) (hwf : WFM s)
    (hf : s.spec = f.id) : step s = callcodeRule f s := by
  unfold step
  rw [hcode]
  have hdec : decode 0xf2 = .callcode := rfl
  simp only [hdec, execInstr, execPure]
  show callcodeI (adv s) = _
  rw [callcodeI_eq f (adv s) hf hwf.memOK.adv hwf.words]
  rfl

/-! ## DELEGATECALL, STATICCALL -/

theorem call_en_byzantium (f : Fork) : enabled f.id GasCalc.SpecId.BYZANTIUM = hasEIP214 f := by cases f <;> rfl

theorem delegatecallI_eq (f : Fork) (s : IState) (hf : s.spec = f.id) (h : MemOK s) (hw : ∀ w ∈ s.stack, w < W) :
    delegatecallI s =
      if !f.hasEIP2 then .halt .NotActivated [] s
      else match s.stack.reverse with
        | g :: to :: ops =>
          callBody f { s with stack := ops.reverse } ops (addrOf to) (gasWord g) false false
            fun input win limit =>
              { input := input, retStart := win.1, retEnd := win.2, gasLimit := limit, bytecodeAddress := addrOf to,
                targetAddress := s.target, caller := s.caller, valueTransfer := false, value := s.callValue,
                scheme := .delegateCall, isStatic := s.isStatic, isEof := false }
        | _ => .halt .StackUnderflow [] { s with stack := [] } := by
  have hU := U64_val
  have hG := GAS_BOUND_val
  unfold delegatecallI
  by_cases hen : enabled s.spec GasCalc.SpecId.HOMESTEAD = true
  · rw [hostCallAction_ok _ _ _ _ _ _ (check_ok _ s hen)]
    rw [hf, Proofs.GasCalc.en_homestead] at hen
    simp only [hen, Bool.not_true, Bool.false_eq_true, if_false]
    rcases hrev : s.stack.reverse with _ | ⟨g, _ | ⟨to, ops⟩⟩
    · have : s.stack.length < 1 := by rw [← List.length_reverse, hrev]; decide
      rw [hostCallAction_halt _ _ _ _ _ _ _ (pop1_underflow s this)]
      simp only []
      rw [call_stack_nil hrev]
    · have hs : s.stack = [] ++ [g] := by simpa using stack_of_reverse (pre := [g]) (rest := []) hrev
      rw [hostCallAction_ok _ _ _ _ _ _ (pop1_ok s _ g hs),
        hostCallAction_halt _ _ _ _ _ _ _ (call_popAddress_underflow _ (by simp))]
    · have hs : s.stack = (ops.reverse ++ [to]) ++ [g] := by
        simpa using stack_of_reverse (pre := [g, to]) hrev
      have hw1 : ∀ w ∈ ops.reverse, w < W := fun w hm => hw w (by rw [hs]; simp [List.mem_reverse.mp hm])
      rw [hostCallAction_ok _ _ _ _ _ _ (pop1_ok s _ g hs),
        hostCallAction_ok _ _ _ _ _ _ (call_popAddress_ok _ ops.reverse to rfl)]
      simp only []
      unfold callBody
      have h1 : MemOK ({ s with stack := ops.reverse } : IState) := h.stack _
      rcases ops with _ | ⟨inOff, _ | ⟨inLen, _ | ⟨outOff, _ | ⟨outLen, rest⟩⟩⟩⟩
      · exact ranges_underflow _ _ _ (by simp)
      · exact ranges_underflow _ _ _ (by simp)
      · exact ranges_underflow _ _ _ (by simp)
      · exact ranges_underflow _ _ _ (by simp)
      · simp only []
        apply ranges_bind _ _ _ inOff inLen outOff outLen rest _ h1 hw1 (by simp)
        intro gm m input win hm
        show Outcome.host _ _ = Outcome.host _ _
        congr 1
        funext r
        simp only []
        rw [asUsizeSat_eq]
        apply callPost_eq f r _ _ false _ _ _ _ (by exact hf) hm rfl
        intro g' fwd hb
        rfl
  · rw [hostCallAction_halt _ _ _ _ _ _ _ (check_fail _ s hen)]
    rw [hf, Proofs.GasCalc.en_homestead] at hen
    simp only [hen, Bool.not_false, if_true]

theorem step_delegatecall (f : Fork) (s : IState) (hcode : s.code[s.pc]? = some 0xf4) (hwf : WFM s)
    (hf : s.spec = f.id) : step s = delegatecallRule f s := by
  unfold step
  rw [hcode]
  have hdec : decode 0xf4 = .delegatecall := rfl
  simp only [hdec, execInstr, execPure]
  show delegatecallI (adv s) = _
  rw [delegatecallI_eq f (adv s) hf hwf.memOK.adv hwf.words]
  rfl

theorem staticcallI_eq (f : Fork) (s : IState) (hf : s.spec = f.id) (h : MemOK s) (hw : ∀ w ∈ s.stack, w < W) :
    staticcallI s =
      if !hasEIP214 f then .halt .NotActivated [] s
      else match s.stack.reverse with
        | g :: to :: ops =>
          callBody f { s with stack := ops.reverse } ops (addrOf to) (gasWord g) false false
            fun input win limit =>
              { input := input, retStart := win.1, retEnd := win.2, gasLimit := limit, bytecodeAddress := addrOf to,
                targetAddress := addrOf to, caller := s.target, valueTransfer := true, value := 0,
                scheme := .staticCall, isStatic := true, isEof := false }
        | _ => .halt .StackUnderflow [] { s with stack := [] } := by
  have hU := U64_val
  have hG := GAS_BOUND_val
  unfold staticcallI
  by_cases hen : enabled s.spec GasCalc.SpecId.BYZANTIUM = true
  · rw [hostCallAction_ok _ _ _ _ _ _ (check_ok _ s hen)]
    rw [hf, call_en_byzantium] at hen
    simp only [hen, Bool.not_true, Bool.false_eq_true, if_false]
    rcases hrev : s.stack.reverse with _ | ⟨g, _ | ⟨to, ops⟩⟩
    · have : s.stack.length < 1 := by rw [← List.length_reverse, hrev]; decide
      rw [hostCallAction_halt _ _ _ _ _ _ _ (pop1_underflow s this)]
      simp only []
      rw [call_stack_nil hrev]
    · have hs : s.stack = [] ++ [g] := by simpa using stack_of_reverse (pre := [g]) (rest := []) hrev
      rw [hostCallAction_ok _ _ _ _ _ _ (pop1_ok s _ g hs),
        hostCallAction_halt _ _ _ _ _ _ _ (call_popAddress_underflow _ (by simp))]
    · have hs : s.stack = (ops.reverse ++ [to]) ++ [g] := by
        simpa using stack_of_reverse (pre := [g, to]) hrev
      have hw1 : ∀ w ∈ ops.reverse, w < W := fun w hm => hw w (by rw [hs]; simp [List.mem_reverse.mp hm])
      rw [hostCallAction_ok _ _ _ _ _ _ (pop1_ok s _ g hs),
        hostCallAction_ok _ _ _ _ _ _ (call_popAddress_ok _ ops.reverse to rfl)]
      simp only []
      unfold callBody
      have h1 : MemOK ({ s with stack := ops.reverse } : IState) := h.stack _
      rcases ops with _ | ⟨inOff, _ | ⟨inLen, _ | ⟨outOff, _ | ⟨outLen, rest⟩⟩⟩⟩
      · exact ranges_underflow _ _ _ (by simp)
      · exact ranges_underflow _ _ _ (by simp)
      · exact ranges_underflow _ _ _ (by simp)
      · exact ranges_underflow _ _ _ (by simp)
      · simp only []
        apply ranges_bind _ _ _ inOff inLen outOff outLen rest _ h1 hw1 (by simp)
        intro gm m input win hm
        show Outcome.host _ _ = Outcome.host _ _
        congr 1
        funext r
        simp only []
        rw [asUsizeSat_eq]
        apply callPost_eq f r _ _ false _ _ _ _ (by exact hf) hm rfl
        intro g' fwd hb
        rfl
  · rw [hostCallAction_halt _ _ _ _ _ _ _ (check_fail _ s hen)]
    rw [hf, call_en_byzantium] at hen
    simp only [hen, Bool.not_false, if_true]

theorem step_staticcall (f : Fork) (s : IState) (hcode : s.code[s.pc]? = some 0xfa) (hwf : WFM s)
    (hf : s.spec = f.id) : step s = staticcallRule f s := by
  unfold step
  rw [hcode]
  have hdec : decode 0xfa = .staticcall := rfl
  simp only [hdec, execInstr, execPure]
  show staticcallI (adv s) = _
  rw [staticcallI_eq f (adv s) hf hwf.memOK.adv hwf.words]
  rfl

end Revm.Proofs.EvmStep2
