import Revm.Model.Bytecode
/-! Proofs for C27 (core Lean only). `dec` (the EOF decoder) and `keccak` are arbitrary. -/
set_option linter.unusedSimpArgs false
set_option linter.unusedVariables false
namespace Revm.Proofs.Bytecode
open Revm.Model.Bytecode

variable {ε : Type}

/-! ### EIP-7702 -/

theorem new_raw_len (a : List Nat) (ha : a.length = 20) : (Eip7702Bytecode.new a).raw.length = 23 := by
  simp [Eip7702Bytecode.new, EIP7702_MAGIC_BYTES, ha]

theorem new_raw_bytes (a : List Nat) : (Eip7702Bytecode.new a).raw = 0xef :: 0x01 :: 0x00 :: a := by
  simp [Eip7702Bytecode.new, EIP7702_MAGIC_BYTES, EIP7702_VERSION]

theorem newRaw_new (a : List Nat) (ha : a.length = 20) :
    Eip7702Bytecode.newRaw (Eip7702Bytecode.new a).raw = .ok (Eip7702Bytecode.new a) := by
  have hl := new_raw_len a ha
  rw [new_raw_bytes] at hl ⊢
  unfold Eip7702Bytecode.newRaw
  simp only [hl, ne_eq, not_true_eq_false, if_false, and_self, EIP7702_VERSION]
  simp [Eip7702Bytecode.new, EIP7702_MAGIC_BYTES, EIP7702_VERSION]

/-- what a successful decode returns -/
theorem newRaw_ok (raw : List Nat) (e : Eip7702Bytecode) (h : Eip7702Bytecode.newRaw raw = .ok e) :
    raw.length = 23 ∧ e.raw = raw ∧ e.version = 0 ∧ e.delegatedAddress.length = 20 ∧
    raw = 0xef :: 0x01 :: 0x00 :: e.delegatedAddress := by
  unfold Eip7702Bytecode.newRaw at h
  by_cases hl : raw.length = 23
  · simp only [hl, ne_eq, not_true_eq_false, if_false] at h
    match raw, hl with
    | m0 :: m1 :: v :: addr, hl =>
      simp only at h
      by_cases hm : m0 = 0xef ∧ m1 = 0x01
      · by_cases hv : v = EIP7702_VERSION
        · simp only [hm, and_self, not_true_eq_false, if_false, hv, ne_eq] at h
          cases h
          simp only [EIP7702_VERSION] at hv
          obtain ⟨h0, h1⟩ := hm
          subst h0 h1 hv
          simp only [List.length_cons] at hl
          refine ⟨by simp only [List.length_cons]; omega, rfl, rfl, ?_, rfl⟩
          show addr.length = 20
          omega
        · simp [hm, hv] at h
      · simp [hm] at h
  · simp [hl] at h

/-- decode then re-encode gives the same 23 bytes -/
theorem new_of_newRaw (raw : List Nat) (e : Eip7702Bytecode) (h : Eip7702Bytecode.newRaw raw = .ok e) :
    Eip7702Bytecode.new e.address = e := by
  obtain ⟨_, h2, h3, _, h5⟩ := newRaw_ok raw e h
  cases e with
  | mk a v r =>
    simp only at h2 h3 h5
    subst h2 h3
    simp only [Eip7702Bytecode.new, Eip7702Bytecode.address, EIP7702_MAGIC_BYTES, EIP7702_VERSION]
    rw [h5]; rfl

/-- exact error conditions, in the order of the code -/
theorem newRaw_err_length (raw : List Nat) :
    Eip7702Bytecode.newRaw raw = .error .InvalidLength ↔ raw.length ≠ 23 := by
  unfold Eip7702Bytecode.newRaw
  by_cases hl : raw.length = 23
  · simp only [hl, ne_eq, not_true_eq_false, if_false, iff_false]
    match raw, hl with
    | m0 :: m1 :: v :: addr, hl =>
      simp only
      by_cases hm : m0 = 0xef ∧ m1 = 0x01
      · by_cases hv : v = EIP7702_VERSION <;> simp [hm, hv]
      · simp [hm]
  · simp [hl]

theorem newRaw_err_magic (raw : List Nat) :
    Eip7702Bytecode.newRaw raw = .error .InvalidMagic ↔
      raw.length = 23 ∧ raw.take 2 ≠ [0xef, 0x01] := by
  unfold Eip7702Bytecode.newRaw
  by_cases hl : raw.length = 23
  · simp only [hl, ne_eq, not_true_eq_false, if_false, true_and]
    match raw, hl with
    | m0 :: m1 :: v :: addr, hl =>
      simp only
      by_cases hm : m0 = 0xef ∧ m1 = 0x01
      · by_cases hv : v = EIP7702_VERSION <;> simp [hm, hv]
      · simp [hm]
  · simp [hl]

theorem newRaw_err_version (raw : List Nat) :
    Eip7702Bytecode.newRaw raw = .error .UnsupportedVersion ↔
      raw.length = 23 ∧ raw.take 2 = [0xef, 0x01] ∧ raw[2]? ≠ some 0 := by
  unfold Eip7702Bytecode.newRaw
  by_cases hl : raw.length = 23
  · simp only [hl, ne_eq, not_true_eq_false, if_false, true_and]
    match raw, hl with
    | m0 :: m1 :: v :: addr, hl =>
      simp only
      by_cases hm : m0 = 0xef ∧ m1 = 0x01
      · by_cases hv : v = EIP7702_VERSION
        · simp [hm, hv, EIP7702_VERSION]
        · simp only [EIP7702_VERSION] at hv; simp [hm, hv, EIP7702_VERSION]
      · simp [hm]
  · simp [hl]

/-! ### constructors keep the bytes -/

theorem newRawChecked_original (dec : List Nat → Except EofErr ε) (bs : List Nat) (bc : Bytecode ε)
    (h : Bytecode.newRawChecked dec bs = .ok bc) : bc.originalBytes = .ok bs := by
  unfold Bytecode.newRawChecked at h
  match bs with
  | [] => simp at h; subst h; rfl
  | [x] => simp at h; subst h; rfl
  | p0 :: p1 :: rest =>
    simp only at h
    by_cases h0 : p0 = 0xef ∧ p1 = 0x00
    · simp only [h0, and_self, if_true, Eof.decode] at h
      cases hd : dec (p0 :: p1 :: rest) with
      | error e => obtain ⟨a, b⟩ := h0; subst a b; simp [hd] at h
      | ok p =>
        obtain ⟨a, b⟩ := h0; subst a b
        simp only [hd] at h
        cases h; rfl
    · by_cases h1 : p0 = 0xef ∧ p1 = 0x01
      · obtain ⟨a, b⟩ := h1; subst a b
        simp only [h0, if_false, and_self, if_true] at h
        cases hn : Eip7702Bytecode.newRaw (0xef :: 0x01 :: rest) with
        | error e => simp [hn] at h
        | ok e =>
          simp only [hn] at h
          cases h
          exact congrArg Res.ok (newRaw_ok _ e hn).2.1
      · simp only [h0, h1, if_false] at h
        cases h; rfl

/-- which variant is chosen -/
theorem newRawChecked_kind (dec : List Nat → Except EofErr ε) (bs : List Nat) :
    Bytecode.newRawChecked dec bs =
      if bs.take 2 = [0xef, 0x00] then
        (match dec bs with
         | .ok p => .ok (.eof ⟨p, bs⟩)
         | .error e => .error (.eof e))
      else if bs.take 2 = [0xef, 0x01] then
        (match Eip7702Bytecode.newRaw bs with
         | .ok e => .ok (.eip7702 e)
         | .error e => .error (.eip7702 e))
      else .ok (.legacyRaw bs) := by
  unfold Bytecode.newRawChecked
  match bs with
  | [] => simp
  | [x] => simp
  | p0 :: p1 :: rest =>
    simp only [List.take_succ_cons, List.take_zero, List.cons.injEq, and_true]
    by_cases h0 : p0 = 0xef ∧ p1 = 0x00
    · obtain ⟨a, b⟩ := h0; subst a b
      simp only [and_self, if_true, Eof.decode]
      cases dec (0xef :: 0x00 :: rest) <;> rfl
    · by_cases h1 : p0 = 0xef ∧ p1 = 0x01
      · obtain ⟨a, b⟩ := h1; subst a b
        simp
        cases Eip7702Bytecode.newRaw (0xef :: 0x01 :: rest) <;> rfl
      · simp only [h0, h1, if_false]

theorem newRaw_eq (dec : List Nat → Except EofErr ε) (bs : List Nat) :
    Bytecode.newRaw dec bs = (match Bytecode.newRawChecked dec bs with | .ok b => .ok b | .error _ => .panic) := rfl

/-! ### accessors in terms of the original bytes -/

theorem len_of_original (bc : Bytecode ε) (bs : List Nat) (h : bc.originalBytes = .ok bs) :
    bc.len = .ok bs.length ∧ bc.isEmpty = .ok (bs.length == 0) := by
  simp [Bytecode.len, Bytecode.isEmpty, h]

theorem hash_of_original (keccak : List Nat → Nat) (bc : Bytecode ε) (bs : List Nat)
    (h : bc.originalBytes = .ok bs) :
    bc.hashSlow keccak = .ok (if bs = [] then KECCAK_EMPTY else keccak bs) := by
  unfold Bytecode.hashSlow
  simp only [(len_of_original bc bs h).2, h]
  cases bs with
  | nil => simp
  | cons x xs => simp

/-! ### analysis -/

theorem take_append_replicate (bs : List Nat) (k : Nat) : (bs ++ List.replicate k 0).take bs.length = bs := by
  simp

theorem toAnalysed_original (bc : Bytecode ε) : (toAnalysed bc).originalBytes = bc.originalBytes := by
  cases bc with
  | legacyRaw b =>
    simp only [toAnalysed, Bytecode.originalBytes, LegacyAnalyzed.originalBytes]
    simp
  | legacyAnalyzed a => rfl
  | eof e => rfl
  | eip7702 e => rfl

theorem toAnalysed_idem (bc : Bytecode ε) : toAnalysed (toAnalysed bc) = toAnalysed bc := by
  cases bc <;> rfl

theorem toAnalysed_ready (bc : Bytecode ε) : (toAnalysed bc).isExecutionReady = true := by
  cases bc <;> rfl

theorem toAnalysed_bytes_legacy (b : List Nat) :
    (toAnalysed (.legacyRaw b : Bytecode ε)).bytes = .ok (b ++ List.replicate 33 0) := rfl

theorem analyze_length : ∀ (code : List Nat) (skip : Nat), (analyze code skip).length = code.length := by
  intro code
  induction code with
  | nil => intro skip; simp [analyze]
  | cons op rest ih =>
    intro skip
    cases skip with
    | succ s => simp [analyze, ih]
    | zero =>
      unfold analyze
      by_cases h1 : op = 0x5b
      · simp [h1, ih]
      · by_cases h2 : 0x60 ≤ op ∧ op ≤ 0x7f <;> simp [h1, h2, ih]

end Revm.Proofs.Bytecode
