import Revm.Proofs.StaticUndo
namespace Revm.Proofs.Static
open Revm Revm.Model.Journal Revm.Spec.JournalAbs Revm.Model.Static

/-- invariant of a run inside a static frame that started in state `s0` with `base` checkpoints handed out
and `L` journal levels: the world state is still that of `s0`; the journal never got shorter than `L` and
every level above the first `L` holds only benign entries; every checkpoint handed out since then points
into that region and was taken at the current log length -/
structure Inv (db : Db) (base L : Nat) (s0 : JState) (r : Run) : Prop where
  world : WorldEq db r.js s0
  len : L ≤ r.js.journal.length
  region : RegionOk L r.js.journal
  cps : ∀ i cp, base ≤ i → r.cps[i]? = some cp → L ≤ cp.journalI ∧ r.js.logs.length ≤ cp.logI

theorem inv_benign {db : Db} {base L : Nat} {s0 : JState} {r : Run} {s' : JState} (hi : Inv db base L s0 r)
    (hB : Benign db r.js s') : Inv db base L s0 { r with js := s' } :=
  ⟨WorldEq.trans hB.world hi.world, by rw [journalExt_length hB.journal]; exact hi.len, regionOk_ext hB.journal hi.region,
   fun i cp hb hc => by
    have := hi.cps i cp hb hc
    show L ≤ cp.journalI ∧ s'.logs.length ≤ cp.logI
    rw [hB.logs]; exact this⟩

theorem revert_spec {s : JState} {cp : Checkpoint} {js' : JState} (h : revert s cp = some js') :
    cp.journalI ≤ s.journal.length ∧ ∃ s'', undoLevels (decide (s.spec ≥ SPURIOUS_DRAGON)) s
        (s.journal.take (s.journal.length - cp.journalI)) = some s'' ∧
      js' = { s'' with depth := decU64 s.depth, logs := s.logs.take cp.logI,
                       journal := s.journal.drop (s.journal.length - cp.journalI) } := by
  unfold revert at h
  by_cases hlen : s.journal.length < cp.journalI
  · simp [hlen] at h
  · simp only [hlen, if_false] at h
    cases hu : undoLevels (decide (s.spec ≥ SPURIOUS_DRAGON)) s (s.journal.take (s.journal.length - cp.journalI)) with
    | none => simp [hu] at h
    | some s'' =>
      simp only [hu, Option.some.injEq] at h
      exact ⟨by omega, s'', rfl, h.symm⟩

theorem inv_step {db : Db} {base L : Nat} {s0 : JState} {r : Run} {op : Op} {r' : Run} (hb0 : BalOk db s0)
    (hi : Inv db base L s0 r) (ha : allowed base op = true) (h : step db r op = some r') : Inv db base L s0 r' := by
  have hb : BalOk db r.js := balOk_of_world hb0 hi.world
  cases op with
  | load a =>
    simp only [step] at h
    cases hl : loadAccount db r.js a with
    | none => simp [hl] at h
    | some p =>
      obtain ⟨s1, c1⟩ := p
      simp [hl] at h; subst h
      exact inv_benign hi (loadAccount_benign hl)
  | loadCode a =>
    simp only [step] at h
    cases hl : loadCode db r.js a with
    | none => simp [hl] at h
    | some p =>
      obtain ⟨s1, c1⟩ := p
      simp [hl] at h; subst h
      exact inv_benign hi (loadCode_benign hl)
  | loadDelegated a =>
    simp only [step] at h
    cases hl : loadAccountDelegated db r.js a with
    | none => simp [hl] at h
    | some p =>
      obtain ⟨s1, c1⟩ := p
      simp [hl] at h; subst h
      exact inv_benign hi (loadAccountDelegated_benign hl)
  | sload a k =>
    simp only [step] at h
    cases hl : sload db r.js a k with
    | none => simp [hl] at h
    | some p =>
      obtain ⟨s1, c1⟩ := p
      simp [hl] at h; subst h
      exact inv_benign hi (sload_benign hl)
  | tload a k =>
    simp only [step, Option.some.injEq] at h; subst h; exact hi
  | touch a =>
    simp only [step] at h
    cases hl : touch r.js a with
    | none => simp [hl] at h
    | some s1 =>
      simp [hl] at h; subst h
      exact inv_benign hi (touch_benign hl)
  | transfer src dst v =>
    simp only [allowed, Bool.and_eq_true, Bool.or_eq_true, decide_eq_true_eq] at ha
    simp only [step] at h
    cases hl : transfer db r.js src dst v with
    | none => simp [hl] at h
    | some p =>
      obtain ⟨s1, c1⟩ := p
      simp [hl] at h; subst h
      exact inv_benign hi (transfer_benign hb ha.1 ha.2 hl)
  | checkpoint =>
    simp only [step, checkpoint, Option.some.injEq] at h; subst h
    refine ⟨hi.world, ?_, Or.inr ⟨by simp, hi.region⟩, ?_⟩
    · show L ≤ ([] :: r.js.journal).length
      have := hi.len; simp; omega
    · intro i cp hbi hc
      show L ≤ cp.journalI ∧ r.js.logs.length ≤ cp.logI
      by_cases hlt : i < r.cps.length
      · rw [List.getElem?_append_left hlt] at hc
        exact hi.cps i cp hbi hc
      · rw [List.getElem?_append_right (by omega)] at hc
        cases hd : i - r.cps.length with
        | zero =>
          rw [hd] at hc; simp at hc; subst hc
          exact ⟨hi.len, Nat.le_refl _⟩
        | succ m => rw [hd] at hc; simp at hc
  | commit =>
    simp only [step, commit, Option.some.injEq] at h; subst h
    exact ⟨hi.world, hi.len, hi.region, hi.cps⟩
  | revert i =>
    simp only [allowed, decide_eq_true_eq] at ha
    simp only [step] at h
    cases hcp : r.cps[i]? with
    | none => simp [hcp] at h
    | some cp =>
      simp only [hcp] at h
      cases hr : revert r.js cp with
      | none => simp [hr] at h
      | some js' =>
        simp [hr] at h; subst h
        obtain ⟨hL, hlog⟩ := hi.cps i cp ha hcp
        obtain ⟨hlen, s'', hu, rfl⟩ := revert_spec hr
        have B : Benign db r.js s'' := undoLevels_benign r.js.journal _ r.js s'' hi.region (by omega) hb hu
        have hlogs : r.js.logs.take cp.logI = r.js.logs := List.take_of_length_le hlog
        refine ⟨?_, ?_, regionOk_drop _ _ hi.region, ?_⟩
        · have hw := WorldEq.trans B.world hi.world
          exact ⟨hw.1, hw.2.1, hw.2.2.1, by show r.js.logs.take cp.logI = s0.logs; rw [hlogs]; exact hi.world.2.2.2⟩
        · show L ≤ (r.js.journal.drop (r.js.journal.length - cp.journalI)).length
          rw [List.length_drop]; omega
        · intro j cpj hbj hcj
          show L ≤ cpj.journalI ∧ (r.js.logs.take cp.logI).length ≤ cpj.logI
          rw [hlogs]; exact hi.cps j cpj hbj hcj
  | initLoad _ _ => simp [allowed] at ha
  | incNonce _ => simp [allowed] at ha
  | setCode _ _ => simp [allowed] at ha
  | sstore _ _ _ => simp [allowed] at ha
  | tstore _ _ _ => simp [allowed] at ha
  | log _ => simp [allowed] at ha
  | selfdestruct _ _ => simp [allowed] at ha
  | create _ _ _ _ _ => simp [allowed] at ha

theorem inv_run {db : Db} {base L : Nat} {s0 : JState} (hb0 : BalOk db s0) : ∀ (ops : List Op) (r r' : Run),
    Inv db base L s0 r → allowedAll base ops = true → run db r ops = some r' → Inv db base L s0 r'
  | [], r, r', hi, _, h => by simp only [run, Option.some.injEq] at h; subst h; exact hi
  | op :: ops, r, r', hi, ha, h => by
    simp only [allowedAll, List.all_cons, Bool.and_eq_true] at ha
    simp only [run] at h
    cases hs : step db r op with
    | none => simp [hs] at h
    | some r1 =>
      simp only [hs] at h
      exact inv_run hb0 ops r1 r' (inv_step hb0 hi ha.1 hs) ha.2 h

theorem inv_init (db : Db) (r : Run) : Inv db r.cps.length r.js.journal.length r.js r :=
  ⟨WorldEq.refl db r.js, Nat.le_refl _, regionOk_of_short _ (Nat.le_refl _),
   fun i cp hb hc => by
     have : r.cps[i]? = none := List.getElem?_eq_none hb
     rw [this] at hc; cases hc⟩

theorem allowed_mono {b : Nat} {op : Op} (h : allowed (b + 1) op = true) : allowed b op = true := by
  cases op <;> simp only [allowed] at h ⊢ <;> first | exact h | (simp only [decide_eq_true_eq] at h ⊢; omega)

end Revm.Proofs.Static
