import Revm.Proofs.EvmLinkInterp12
/-! LINK, the interpreter side of panic-freedom, part 13: **`InB` holds** — the calldata / initcode of every action a
legacy instruction hands out is within `isize::MAX`. -/
set_option linter.unusedSimpArgs false
set_option linter.unusedVariables false
namespace Revm.Proofs.EvmLink
open Revm Revm.Model Revm.Model.Interp

local notation "ISZ" => Memory.ISIZE_MAX

/-- every action an outcome leads to, whatever the host answers, carries a Rust `Bytes` -/
def OA (o : Outcome) : Prop :=
  (∀ a s', o = .pure (.action a s') → ActOk2 a) ∧
  (∀ op k resp a s', o = .host op k → k resp = .action a s' → ActOk2 a)

theorem oa_pure_toDone (e : Exec Unit) : OA (.pure e.toDone) := by
  refine ⟨fun a s' heq => ?_, fun op k resp a s' heq => (nomatch heq)⟩
  cases e <;> cases heq

theorem oa_fault (f : Fault) : OA (.fault f) :=
  ⟨fun a s' heq => (nomatch heq), fun op k resp a s' heq => (nomatch heq)⟩

theorem oa_halt (r : IResult) (o : List Nat) (s : IState) : OA (.halt r o s) :=
  ⟨fun a s' heq => (nomatch heq), fun op k resp a s' heq => (nomatch heq)⟩

theorem oa_hostCall {β} (pre : M (HostOp × β)) (post : β → HostResp → M Unit) (s : IState) :
    OA (hostCall pre post s) := by
  unfold hostCall
  cases hp : pre s with
  | ok x s1 =>
    obtain ⟨op, b⟩ := x
    refine ⟨fun a s' heq => (nomatch heq), fun op' k resp a s' heq hk => ?_⟩
    cases heq
    dsimp only at hk
    cases he : post b resp s1 with
    | ok u s2 => rw [he] at hk; cases hk
    | halt r1 o1 s2 => rw [he] at hk; cases hk
    | fault f => rw [he] at hk; cases hk
  | halt r1 o1 s1 => exact oa_halt _ _ _
  | fault f => exact oa_fault _

theorem oa_hostCallAction {β} (Qb : β → Prop) (pre : M (HostOp × β)) (post : β → HostResp → M Action) (s : IState)
    (hb : BufOk s) (h1 : TB pre (fun x => Qb x.2)) (h2 : ∀ b r, Qb b → TB (post b r) (fun a => ActOk2 a)) :
    OA (hostCallAction pre post s) := by
  unfold hostCallAction
  cases hp : pre s with
  | ok x s1 =>
    obtain ⟨op, b⟩ := x
    obtain ⟨k1, k2⟩ := h1 s _ s1 hb hp
    refine ⟨fun a s' heq => (nomatch heq), fun op' k resp a s' heq hk => ?_⟩
    cases heq
    dsimp only at hk
    cases he : post b resp s1 with
    | ok u s2 => rw [he] at hk; cases hk; exact (h2 b resp k2 s1 _ _ k1 he).2
    | halt r1 o1 s2 => rw [he] at hk; cases hk
    | fault f => rw [he] at hk; cases hk
  | halt r1 o1 s1 => exact oa_halt _ _ _
  | fault f => exact oa_fault _

/-- an instruction that starts with `require_eof!` stops legacy code there -/
theorem requireEof_bind {α} (f : Unit → M α) (s : IState) (h : s.isEof = false) :
    (requireEof >>= f) s = .halt .EOFOpcodeDisabledInLegacy [] s := by
  show M.bind requireEof f s = _
  unfold M.bind requireEof
  rw [h]; rfl

theorem oa_hostCallAction_legacy {β} (pre : M (HostOp × β)) (post : β → HostResp → M Action) (s : IState)
    (r : IResult) (hp : pre s = .halt r [] s) : OA (hostCallAction pre post s) := by
  unfold hostCallAction; rw [hp]; exact oa_halt _ _ _

theorem oa_hostCallOptAction_legacy {β} (pre : M (HostOp × β)) (post : β → HostResp → M (Option Action)) (s : IState)
    (r : IResult) (hp : pre s = .halt r [] s) : OA (hostCallOptAction pre post s) := by
  unfold hostCallOptAction; rw [hp]; exact oa_halt _ _ _

/-! ## the instructions that hand out an action -/

theorem oa_callI (s : IState) (hb : BufOk s) : OA (callI s) := by
  unfold callI
  refine oa_hostCallAction (fun b => b.2.2.2.1.length ≤ ISZ) _ _ s hb ?_ ?_
  · refine tb_bind (tb_of_bp bp_pop1) (fun lgl _ => ?_)
    refine tb_bind (tb_of_bp bp_popAddress) (fun to _ => ?_)
    refine tb_bind (tb_of_bp bp_pop1) (fun value _ => ?_)
    refine tb_bind (tb_of_bp bp_getS) (fun s0 _ => ?_)
    split
    · exact tb_haltWith _ _
    · refine tb_bind tb_getMem (fun x hx => ?_)
      obtain ⟨input, rs, re⟩ := x
      exact tb_pure hx
  · intro b r hq
    obtain ⟨lgl, to, value, input, rs, re⟩ := b
    dsimp only
    refine tb_bind (tb_of_bp (bp_requireSome _)) (fun _ _ => ?_)
    refine tb_bind (tb_of_bp (bp_calcCallGas _ _ _ _)) (fun g _ => ?_)
    refine tb_bind (tb_of_bp (bp_gasCharge _)) (fun _ _ => ?_)
    refine tb_bind (tb_of_bp bp_getS) (fun s2 _ => ?_)
    exact tb_pure ⟨hq, fun i hx => nomatch hx⟩

theorem oa_callcodeI (s : IState) (hb : BufOk s) : OA (callcodeI s) := by
  unfold callcodeI
  refine oa_hostCallAction (fun b => b.2.2.2.1.length ≤ ISZ) _ _ s hb ?_ ?_
  · refine tb_bind (tb_of_bp bp_pop1) (fun lgl _ => ?_)
    refine tb_bind (tb_of_bp bp_popAddress) (fun to _ => ?_)
    refine tb_bind (tb_of_bp bp_pop1) (fun value _ => ?_)
    refine tb_bind tb_getMem (fun x hx => ?_)
    obtain ⟨input, rs, re⟩ := x
    exact tb_pure hx
  · intro b r hq
    obtain ⟨lgl, to, value, input, rs, re⟩ := b
    dsimp only
    refine tb_bind (tb_of_bp (bp_requireSome _)) (fun _ _ => ?_)
    refine tb_bind (tb_of_bp (bp_calcCallGas _ _ _ _)) (fun g _ => ?_)
    refine tb_bind (tb_of_bp (bp_gasCharge _)) (fun _ _ => ?_)
    refine tb_bind (tb_of_bp bp_getS) (fun s2 _ => ?_)
    exact tb_pure ⟨hq, fun i hx => nomatch hx⟩

theorem oa_delegatecallI (s : IState) (hb : BufOk s) : OA (delegatecallI s) := by
  unfold delegatecallI
  refine oa_hostCallAction (fun b => b.2.2.1.length ≤ ISZ) _ _ s hb ?_ ?_
  · refine tb_bind (tb_of_bp (bp_check _)) (fun _ _ => ?_)
    refine tb_bind (tb_of_bp bp_pop1) (fun lgl _ => ?_)
    refine tb_bind (tb_of_bp bp_popAddress) (fun to _ => ?_)
    refine tb_bind tb_getMem (fun x hx => ?_)
    obtain ⟨input, rs, re⟩ := x
    exact tb_pure hx
  · intro b r hq
    obtain ⟨lgl, to, input, rs, re⟩ := b
    dsimp only
    refine tb_bind (tb_of_bp (bp_requireSome _)) (fun _ _ => ?_)
    refine tb_bind (tb_of_bp (bp_calcCallGas _ _ _ _)) (fun g _ => ?_)
    refine tb_bind (tb_of_bp (bp_gasCharge _)) (fun _ _ => ?_)
    refine tb_bind (tb_of_bp bp_getS) (fun s2 _ => ?_)
    exact tb_pure ⟨hq, fun i hx => nomatch hx⟩

theorem oa_staticcallI (s : IState) (hb : BufOk s) : OA (staticcallI s) := by
  unfold staticcallI
  refine oa_hostCallAction (fun b => b.2.2.1.length ≤ ISZ) _ _ s hb ?_ ?_
  · refine tb_bind (tb_of_bp (bp_check _)) (fun _ _ => ?_)
    refine tb_bind (tb_of_bp bp_pop1) (fun lgl _ => ?_)
    refine tb_bind (tb_of_bp bp_popAddress) (fun to _ => ?_)
    refine tb_bind tb_getMem (fun x hx => ?_)
    obtain ⟨input, rs, re⟩ := x
    exact tb_pure hx
  · intro b r hq
    obtain ⟨lgl, to, input, rs, re⟩ := b
    dsimp only
    refine tb_bind (tb_of_bp (bp_requireSome _)) (fun _ _ => ?_)
    refine tb_bind (tb_of_bp (bp_calcCallGas _ _ _ _)) (fun g _ => ?_)
    refine tb_bind (tb_of_bp (bp_gasCharge _)) (fun _ _ => ?_)
    refine tb_bind (tb_of_bp bp_getS) (fun s2 _ => ?_)
    exact tb_pure ⟨hq, fun i hx => nomatch hx⟩

theorem oa_create (c2 : Bool) (s : IState) (hb : BufOk s) : OA (.pure (createI c2 s).toDoneAction) := by
  refine ⟨fun a s' heq => ?_, fun op k resp a s' heq => (nomatch heq)⟩
  cases he : createI c2 s with
  | ok u s2 => rw [he] at heq; cases heq; exact (tb_createI c2 s _ _ hb he).2
  | halt r1 o1 s2 => rw [he] at heq; cases heq
  | fault f => rw [he] at heq; cases heq

theorem oa_eofcreateI (s : IState) (h : s.isEof = false) : OA (eofcreateI s) := by
  unfold eofcreateI
  exact oa_hostCallAction_legacy _ _ s _ (by unfold eofcreatePre; exact requireEof_bind _ s h)

theorem oa_extcallI (s : IState) (h : s.isEof = false) : OA (extcallI s) := by
  unfold extcallI
  exact oa_hostCallOptAction_legacy _ _ s _ (requireEof_bind _ s h)

theorem oa_extdelegatecallI (s : IState) (h : s.isEof = false) : OA (extdelegatecallI s) := by
  unfold extdelegatecallI
  exact oa_hostCallOptAction_legacy _ _ s _ (requireEof_bind _ s h)

theorem oa_extstaticcallI (s : IState) (h : s.isEof = false) : OA (extstaticcallI s) := by
  unfold extstaticcallI
  exact oa_hostCallOptAction_legacy _ _ s _ (requireEof_bind _ s h)

theorem oa_keccak256I (s : IState) : OA (keccak256I s) := by
  unfold keccak256I
  cases hp : keccakPre s with
  | ok x s1 =>
    cases x with
    | none => exact oa_pure_toDone _
    | some data =>
      refine ⟨fun a s' heq => (nomatch heq), fun op' k resp a s' heq hk => ?_⟩
      cases heq
      dsimp only at hk
      cases he : setTop resp.word s1 with
      | ok u s2 => rw [he] at hk; cases hk
      | halt r1 o1 s2 => rw [he] at hk; cases hk
      | fault f => rw [he] at hk; cases hk
  | halt r1 o1 s1 => exact oa_halt _ _ _
  | fault f => exact oa_fault _

theorem oa_balanceI (s : IState) : OA (balanceI s) := by unfold balanceI; exact oa_hostCall _ _ s
theorem oa_selfbalanceI (s : IState) : OA (selfbalanceI s) := by unfold selfbalanceI; exact oa_hostCall _ _ s
theorem oa_extcodesizeI (s : IState) : OA (extcodesizeI s) := by unfold extcodesizeI; exact oa_hostCall _ _ s
theorem oa_extcodehashI (s : IState) : OA (extcodehashI s) := by unfold extcodehashI; exact oa_hostCall _ _ s
theorem oa_extcodecopyI (s : IState) : OA (extcodecopyI s) := by unfold extcodecopyI; exact oa_hostCall _ _ s
theorem oa_blockhashI (s : IState) : OA (blockhashI s) := by unfold blockhashI; exact oa_hostCall _ _ s
theorem oa_sloadI (s : IState) : OA (sloadI s) := by unfold sloadI; exact oa_hostCall _ _ s
theorem oa_sstoreI (s : IState) : OA (sstoreI s) := by unfold sstoreI; exact oa_hostCall _ _ s
theorem oa_tloadI (s : IState) : OA (tloadI s) := by unfold tloadI; exact oa_hostCall _ _ s
theorem oa_tstoreI (s : IState) : OA (tstoreI s) := by unfold tstoreI; exact oa_hostCall _ _ s
theorem oa_selfdestructI (s : IState) : OA (selfdestructI s) := by unfold selfdestructI; exact oa_hostCall _ _ s
theorem oa_logI (n : Nat) (s : IState) : OA (logI n s) := by unfold logI; exact oa_hostCall _ _ s

set_option maxHeartbeats 1000000 in
theorem oa_execInstr (i : Instr) (s : IState) (hb : BufOk s) (h : s.isEof = false) : OA (execInstr i s) := by
  unfold execInstr
  cases hp : execPure i with
  | some m => exact oa_pure_toDone _
  | none =>
    dsimp only
    cases i
    all_goals first
      | exact oa_fault _
      | exact oa_keccak256I s
      | exact oa_callI s hb | exact oa_callcodeI s hb | exact oa_delegatecallI s hb | exact oa_staticcallI s hb
      | exact oa_create _ s hb
      | exact oa_eofcreateI s h | exact oa_extcallI s h | exact oa_extdelegatecallI s h | exact oa_extstaticcallI s h
      | exact oa_balanceI s | exact oa_selfbalanceI s | exact oa_extcodesizeI s | exact oa_extcodehashI s | exact oa_extcodecopyI s | exact oa_blockhashI s
      | exact oa_sloadI s | exact oa_sstoreI s | exact oa_tloadI s | exact oa_tstoreI s | exact oa_selfdestructI s | exact oa_logI _ s

/-- **`InB`: the calldata / initcode of an action is a Rust `Bytes`** -/
theorem inB : InB := by
  intro s d a s' hi hstep hd
  subst hd
  have hpc := hi.pc
  rw [Revm.Proofs.Interp.step_eq hpc] at hstep
  have hoa := oa_execInstr (decode s.code[s.pc]) { s with pc := s.pc + 1 } hi.memWF.2.2 hi.legacy
  rcases hstep with h | ⟨op, k, resp, h, hk⟩
  · exact hoa.1 _ _ h
  · exact hoa.2 _ _ _ _ _ h hk.symm

end Revm.Proofs.EvmLink
