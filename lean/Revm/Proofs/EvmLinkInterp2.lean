import Revm.Proofs.EvmLinkInterp
/-! LINK, the interpreter side of panic-freedom, part 2: **C25's per-frame invariant through `run_the_loop`.**

The loop invariant of `EvmLinkTotal3` (`LI`: well-formed world, nested checkpoints) is extended by `SI`: every frame on
the stack satisfies C25's `Inv`; the memory of a frame is a context opened on top of the memory its parent had when it
handed out the action (`AboveM`), and the return window of a waiting CALL lies in the parent's memory (`KindOk`); the
checkpoint of the frame at height `k` is at most `k · 2^43` (a frame whose memory cost is not saturated has a context
of at most 2^43 bytes, and there are at most 1025 frames, so the shared buffer stays far below 2^62); the measures
(gas + memory cost paid) of all frames add up to at most `u64::MAX - 1` (an action hands the child gas the parent paid
for); every code in the code store is at most `isize::MAX` bytes long.

With it: no `Interp.step` in the loop faults, `insert_*_outcome` never faults, `free_context` never fails. What is
ASSUMED here, as closed statements about the model collected in `MF` (`ModelFacts`), is discharged in the later parts. -/
set_option linter.unusedSimpArgs false
set_option linter.unusedVariables false
namespace Revm.Proofs.EvmLink
open Revm Revm.Model Revm.Model.Evm
open Revm.Proofs.Frame (Good DbBal)
open Revm.Proofs.Journal (Grows)
open Revm.Proofs.Memory (WF)

local notation "IInv" => Revm.Proofs.Interp.Inv
local notation "imeas" => Revm.Proofs.Interp.measure
local notation "iclen" => Revm.Proofs.Interp.clen
local notation "ISZ" => Memory.ISIZE_MAX

/-! ## residual failures that remain -/

/-- what is left of `Resid`: the fuel (legacy code never hands out the EOFCREATE action: EOFCREATE stops at its
`require_eof!`) -/
def Resid3 (e : Err) : Prop := e = .outOfFuel

theorem Resid3.resid {e : Err} (h : Resid3 e) : Resid e := Or.inr (Or.inr (Or.inr (Or.inr h)))

def Tot3 {α} (x : R α) (P : α → Prop) : Prop :=
  match x with
  | .ok a => P a
  | .error e => Soft e ∨ Resid3 e

theorem tot3_of_tot {α} {x : R α} {P : α → Prop} (h : Tot x P) : Tot3 x P := by
  cases x with
  | ok a => exact h
  | error e => exact Or.inl h
theorem tot3_pure {α} {a : α} {P : α → Prop} (h : P a) : Tot3 (pure a : R α) P := h
theorem tot3_bind {α β} {x : R α} {f : α → R β} {P : α → Prop} {Q : β → Prop} (h1 : Tot3 x P)
    (h2 : ∀ a, P a → Tot3 (f a) Q) : Tot3 (x >>= f) Q := by
  cases x with
  | error e => exact h1
  | ok a => exact h2 a h1
theorem tot3_mono {α} {x : R α} {P Q : α → Prop} (h : Tot3 x P) (hq : ∀ a, P a → Q a) : Tot3 x Q := by
  cases x with
  | error e => exact h
  | ok a => exact hq a h
theorem tot3_resid {α} {e : Err} {P : α → Prop} (h : Resid3 e) : Tot3 (.error e : R α) P := Or.inr h
theorem tot3_bind' {α β} {x : R α} {f : α → R β} {P : α → Prop} {Q : β → Prop} (h1 : Tot3 x P)
    (h2 : ∀ a, x = .ok a → P a → Tot3 (f a) Q) : Tot3 (x >>= f) Q := by
  cases x with
  | error e => exact h1
  | ok a => exact h2 a rfl h1
theorem Tot3.tot2 {α} {x : R α} {P : α → Prop} (h : Tot3 x P) : Tot2 x P := by
  cases x with
  | ok a => exact h
  | error e =>
    rcases h with h | h
    · exact Or.inl h
    · exact Or.inr h.resid

/-! ## the invariant -/

/-- every code in the store is a Rust `Bytes` -/
def CodesOk (codes : List (Nat × List Nat)) : Prop := ∀ p ∈ codes, p.2.length ≤ ISZ

theorem CodesOk.codeOf {w : World} (h : CodesOk w.codes) {hh : Nat} {bytes : List Nat}
    (hb : w.codeOf hh = some bytes) : bytes.length ≤ ISZ := by
  unfold World.codeOf at hb
  split at hb
  · cases hb; exact Nat.zero_le _
  · have hm : (hh, bytes) ∈ w.codes := by
      generalize w.codes = l at hb
      induction l with
      | nil => cases hb
      | cons p l ih =>
        obtain ⟨k, v⟩ := p
        simp only [List.lookup] at hb
        split at hb
        · rename_i heq
          cases hb
          have : hh = k := by simpa using heq
          subst this
          exact List.mem_cons_self ..
        · exact List.mem_cons_of_mem _ (ih hb)
    exact h _ hm

/-- the hypothesis of `answer_respOk` / `callTail_init_inv` -/
theorem CodesOk.hyp {w : World} (h : CodesOk w.codes) :
    ∀ (wx : World) (hh : Nat) (bytes : List Nat), wx.codes = w.codes → wx.codeOf hh = some bytes →
      bytes.length ≤ ISZ := fun wx hh bytes e hb => CodesOk.codeOf (w := wx) (by rw [e]; exact h) hb

/-- every recorded precompile answer carries a Rust `Bytes` -/
def PcOk (l : List PcAnswer) : Prop := ∀ p ∈ l, p.out.length ≤ ISZ

/-- the code store and the precompile oracle hold Rust `Bytes` only -/
def StoreOk (w : World) : Prop := CodesOk w.codes ∧ PcOk w.pcOracle

/-- same code store, same precompile oracle -/
def StoreEq (w w1 : World) : Prop := w1.codes = w.codes ∧ w1.pcOracle = w.pcOracle

theorem StoreEq.refl (w : World) : StoreEq w w := ⟨rfl, rfl⟩
theorem StoreEq.trans {a b c : World} (h1 : StoreEq a b) (h2 : StoreEq b c) : StoreEq a c :=
  ⟨h2.1.trans h1.1, h2.2.trans h1.2⟩
theorem StoreOk.eq {w w1 : World} (h : StoreOk w) (e : StoreEq w w1) : StoreOk w1 := by
  unfold StoreOk; rw [e.1, e.2]; exact h

/-- the bytes an action hands to the frame machine: calldata / initcode -/
def dataLen : Interp.Action → Nat
  | .call i => i.input.length
  | .create i => i.initCode.length
  | .eofCreate _ => 0

/-- the kind of the frame opened for an action -/
def FKind (a : Interp.Action) (k : FrameKind) : Prop :=
  match a with
  | .call i => k = .call i.retStart i.retEnd
  | _ => ∃ addr, k = .create addr

/-- the return window of the CALL a frame of kind `k` answers lies inside the memory of the waiting state `p` -/
def KindOk (k : FrameKind) (p : Interp.IState) : Prop :=
  match k with
  | .call rs re => re - rs = 0 ∨ (rs ≤ re ∧ re ≤ iclen p.mem)
  | .create _ => True

/-- closed statements about the model that this part assumes (discharged in later parts, see there) -/
structure MF : Prop where
  /-- RETURN / REVERT output is a slice of the memory -/
  outB : ∀ (s : Interp.IState) (d : Interp.Done) r out s', IInv s →
    (Interp.step s = .pure d ∨ ∃ op k resp, Interp.step s = .host op k ∧ d = k resp) → d = .halt r out s' →
    out.length ≤ s'.mem.buffer.length
  /-- calldata / initcode is a slice of the memory, hence a Rust `Bytes` -/
  inB : ∀ (s : Interp.IState) (d : Interp.Done) a s', IInv s →
    (Interp.step s = .pure d ∨ ∃ op k resp, Interp.step s = .host op k ∧ d = k resp) → d = .action a s' →
    dataLen a ≤ ISZ ∧ ∀ i, a ≠ .eofCreate i
  answerCodes : ∀ he (w w1 : World) op resp, answer he w op = .ok (resp, w1) → StoreEq w w1
  frameCodes : ∀ cfg (w w' : World) a mem fr, makeFrame journalOps cfg w a mem = .ok (fr, w') →
    StoreOk w → dataLen a ≤ ISZ → StoreEq w w'
  returnOut : ∀ cfg (top : JFrame) (w w' : World) res res', frameReturn journalOps cfg top w res = .ok (res', w') →
    StoreOk w → res'.gasRemaining ≤ res.gasRemaining ∧ res'.output.length ≤ res.output.length ∧
      (res.output.length ≤ ISZ → StoreOk w')
  early : ∀ cfg (w w' : World) a mem o, makeFrame journalOps cfg w a mem = .ok (.result o, w') →
    StoreOk w → dataLen a ≤ ISZ → o.gasRemaining ≤ a.gasLimit ∧ o.output.length ≤ ISZ
  frameInit : ∀ cfg (w w' : World) a mem (f : JFrame), makeFrame journalOps cfg w a mem = .ok (.frame f, w') →
    StoreOk w → dataLen a ≤ ISZ → a.gasLimit < U64 → Revm.Proofs.Interp.EnvOk cfg.spec cfg.env →
    WF mem → mem.buffer.length ≤ 2^62 →
    IInv f.interp ∧ imeas f.interp = a.gasLimit ∧ f.interp.mem = Memory.newContext mem ∧ FKind a f.kind

def msum : List JFrame → Nat
  | [] => 0
  | f :: rest => imeas f.interp + msum rest

/-- the state `c` of a frame of kind `k` sits on top of `rest` -/
def Link (c : Interp.IState) (k : FrameKind) : List JFrame → Prop
  | [] => True
  | p :: _ => AboveM c.mem p.interp.mem ∧ KindOk k p.interp

def SOk : List JFrame → Prop
  | [] => True
  | c :: rest => IInv c.interp ∧ c.interp.mem.lastCheckpoint ≤ rest.length * FB ∧ Link c.interp c.kind rest ∧ SOk rest

structure SI (stack : List JFrame) (w : World) : Prop where
  sok : SOk stack
  gas : msum stack ≤ U64 - 2
  codes : StoreOk w

/-- the top frame has halted in state `s` with output `out` -/
structure HT (s : Interp.IState) (k : FrameKind) (rest : List JFrame) (out : List Nat) : Prop where
  wf : WF s.mem
  link : Link s k rest
  srest : SOk rest
  gas : imeas s + msum rest ≤ U64 - 2
  out : out.length ≤ ISZ

def NInv3 : Next Journal.Checkpoint → Prop
  | .run stack w => stack ≠ [] ∧ LI stack w ∧ SI stack w
  | .ended top rest r out s w => LI (top :: rest) w ∧ RGood r ∧ HT s top.kind rest out ∧ StoreOk w
  | .done r w => WOk w ∧ RGood r.result

theorem link_ckEq {s x : Interp.IState} {k : FrameKind} {rest : List JFrame} (h : Link s k rest) (hc : CkEq s x) :
    Link x k rest := by
  cases rest with
  | nil => trivial
  | cons p rest' => exact ⟨⟨hc.2.trans h.1.1, hc.1.trans h.1.2⟩, h.2⟩

/-! ## the memory of the parent after `insert_*_outcome` -/

theorem insertBy_mem (kind : FrameKind) (o : Interp.ChildResult) (s : Interp.IState) (hw : WF s.mem)
    (hk : KindOk kind s) :
    match insertBy kind o s with
    | .ok _ x => CkEq s x
    | .halt _ out x => CkEq s x ∧ WF x.mem ∧ out = []
    | .fault _ => True := by
  have lands : ∀ (e : Interp.Exec Unit) (s' : Interp.IState), Revm.Proofs.MemoryOutcome.Lands e s' →
      Revm.Proofs.Interp.Shape s.mem s'.mem →
      (match e with
        | .ok _ x => CkEq s x
        | .halt _ out x => CkEq s x ∧ WF x.mem ∧ out = []
        | .fault _ => True) := by
    intro e s' hl hs
    rcases hl with rfl | rfl
    · exact ⟨hs.1, hs.2.1⟩
    · exact ⟨⟨hs.1, hs.2.1⟩, Revm.Proofs.Interp.WF_shape hw hs, rfl⟩
  cases kind with
  | call rs re =>
    show (match Interp.insertCallOutcome rs re o s with
      | .ok _ x => CkEq s x
      | .halt _ out x => CkEq s x ∧ WF x.mem ∧ out = []
      | .fault _ => True)
    rcases Revm.Proofs.MemoryOutcome.insertCallOutcome_mem rs re o s with ⟨_, h⟩ | ⟨_, _, _, s', hl, hm⟩ | ⟨_, h⟩
    · rw [h]; trivial
    · exact lands _ s' hl (by rw [hm]; exact Revm.Proofs.Interp.Shape.refl _)
    · have hin : (o.output.take (min (re - rs) o.output.length)) = []
          ∨ rs + (o.output.take (min (re - rs) o.output.length)).length ≤ iclen s.mem := by
        rcases hk with h0 | ⟨h1, h2⟩
        · left; rw [h0]; simp
        · right; simp only [List.length_take]; omega
      obtain ⟨m', hset, hshape⟩ := Revm.Proofs.Interp.set_ok hw hin
      rw [hset] at h
      obtain ⟨s', hl, hm⟩ := h
      exact lands _ s' hl (by rw [hm]; exact hshape)
  | create a =>
    show (match Interp.insertCreateOutcome o s with
      | .ok _ x => CkEq s x
      | .halt _ out x => CkEq s x ∧ WF x.mem ∧ out = []
      | .fault _ => True)
    rcases Revm.Proofs.MemoryOutcome.insertCreateOutcome_mem o s with ⟨_, h⟩ | ⟨s', hl, hm⟩
    · rw [h]; trivial
    · exact lands _ s' hl (by rw [hm]; exact Revm.Proofs.Interp.Shape.refl _)

/-- C25's re-entry lemma, by the kind of the frame -/
theorem insertBy_sat (kind : FrameKind) (o : Interp.ChildResult) (s : Interp.IState) (gl : Nat)
    (hi : Revm.Proofs.Interp.Base s) (hB : imeas s + gl ≤ U64 - 2) (hk : KindOk kind s) (hg : o.gasRemaining ≤ gl)
    (hnf : o.result ≠ .FatalExternalError) (hol : o.output.length ≤ ISZ) :
    Interp.Exec.Sat (insertBy kind o s) (fun x => imeas x ≤ imeas s + gl)
      (fun _ x => Revm.Proofs.Interp.Mid (imeas s + gl) s x) := by
  cases kind with
  | call rs re => exact Revm.Proofs.Interp.insertCall_sat hi (Nat.le_refl _) hB rs re o hk hg hnf hol
  | create a => exact Revm.Proofs.Interp.insertCreate_sat hi (Nat.le_refl _) hB o hg hnf hol

/-! ## delivering an outcome -/

theorem tot3_deliver {kind : FrameKind} {o : Interp.ChildResult} {parent : JFrame} {rest : List JFrame}
    {mem : Memory.SharedMemory} {w : World} (hli : LI (parent :: rest) w)
    (hp : IInv parent.interp) (hsh : Revm.Proofs.Interp.Shape parent.interp.mem mem)
    (hk : KindOk kind parent.interp)
    (hlc : parent.interp.mem.lastCheckpoint ≤ rest.length * FB) (hlink : Link parent.interp parent.kind rest)
    (hrest : SOk rest) (gl : Nat) (hg : o.gasRemaining ≤ gl) (hB : imeas parent.interp + gl + msum rest ≤ U64 - 2)
    (hnf : RGood o.result) (hol : o.output.length ≤ ISZ) (hcodes : StoreOk w) :
    Tot3 (deliver kind o parent rest mem w) NInv3 := by
  obtain ⟨hi', hm'⟩ := inv_setMem hp hsh
  have hk' : KindOk kind { parent.interp with mem := mem } := by
    cases kind with
    | call rs re =>
      show re - rs = 0 ∨ (rs ≤ re ∧ re ≤ iclen mem)
      rw [Revm.Proofs.Interp.clen_shape hsh]; exact hk
    | create a => trivial
  have hsat := insertBy_sat kind o { parent.interp with mem := mem } gl hi'.base (by rw [hm']; omega) hk' hg
    hnf.2.2.1 hol
  have hmem := insertBy_mem kind o { parent.interp with mem := mem } hi'.memWF hk'
  have hck0 : CkEq parent.interp { parent.interp with mem := mem } := ⟨hsh.1, hsh.2.1⟩
  unfold deliver
  split
  · rename_i u x heq
    rw [heq] at hsat hmem
    have hmid := Revm.Proofs.Interp.sat_ok_inv hsat
    have hck : CkEq parent.interp x := hck0.trans hmem
    have hix : IInv x := hi'.transfer hmid.2.2 hmid.1
    refine tot3_pure ⟨List.cons_ne_nil _ _, hli.updTop _, ⟨hix, ?_, link_ckEq hlink hck, hrest⟩, ?_, hcodes⟩
    · show x.mem.lastCheckpoint ≤ _
      rw [hck.1]; exact hlc
    · show imeas x + msum rest ≤ U64 - 2
      have := hmid.2.1
      rw [hm'] at this
      omega
  · rename_i r out x heq
    rw [heq] at hsat hmem
    have hmx := Revm.Proofs.Interp.sat_halt_inv hsat
    rw [hm'] at hmx
    have hck : CkEq parent.interp x := hck0.trans hmem.1
    refine tot3_pure ⟨hli, hg_insertBy kind o _ _ _ _ heq, ⟨hmem.2.1, link_ckEq hlink hck, hrest, by omega, ?_⟩, hcodes⟩
    rw [hmem.2.2]; exact Nat.zero_le _
  · rename_i f heq
    rw [heq] at hsat
    exact (Revm.Proofs.Interp.sat_fault_inv hsat).elim

/-! ## a frame ends -/

theorem freeCtx_eq {m m' : Memory.SharedMemory} (h : Memory.freeContext m = .ok m') : freeCtx m = .ok m' := by
  unfold freeCtx; rw [h]; rfl

theorem tot3_frameEnd (mf : MF) {cfg : Cfg} {top : JFrame} {rest : List JFrame} {r : Interp.IResult} {out : List Nat}
    {s : Interp.IState} {w : World} (h : LI (top :: rest) w) (hrg : RGood r) (ht : HT s top.kind rest out)
    (hcodes : StoreOk w) : Tot3 (frameEnd journalOps cfg top rest r out s w) NInv3 := by
  obtain ⟨c1, c2, c3⟩ := h.chain
  have hret : Tot3 (frameReturn journalOps cfg top w (resultOf r out s)) (fun p => LI rest p.2) := by
    unfold frameReturn
    split
    · refine tot3_of_tot (tot_mono (tot_callReturn h.ok top.checkpoint _ c1 c2) (fun p hp => ?_))
      exact ⟨hp.1, c3.mono hp.2.2.1, fun f hf a ha => hp.2.1.acct _ (h.addrs f (List.mem_cons_of_mem _ hf) a ha)⟩
    · rename_i a hk
      refine tot3_of_tot (tot_mono (tot_createReturn h.ok cfg top.checkpoint a _ c1 c2
        (h.addrs top (List.mem_cons_self ..) a hk)) (fun p hp => ?_))
      exact ⟨hp.1, c3.mono hp.2.2.1, fun f hf a ha => hp.2.1.acct _ (h.addrs f (List.mem_cons_of_mem _ hf) a ha)⟩
  have hmeas : s.gas.remaining ≤ imeas s := Nat.le_add_right _ _
  cases rest with
  | nil =>
    obtain ⟨m', hm'⟩ := Revm.Proofs.Memory.freeContext_ok ht.wf
    unfold frameEnd
    refine tot3_bind (P := fun m => m = m') (by rw [freeCtx_eq hm']; exact tot3_pure (a := m') rfl) (fun mem hmem => ?_)
    subst hmem
    refine tot3_bind' hret (fun p heq hp => ?_)
    obtain ⟨res, w1⟩ := p
    exact tot3_pure ⟨hp.ok, frameReturn_rgood (res := resultOf r out s) hrg heq⟩
  | cons parent rest' =>
    obtain ⟨pi, plc, plink, prest⟩ := ht.srest
    obtain ⟨m', hm', hshape⟩ := freeContext_above ht.wf pi.memWF ht.link.1
    unfold frameEnd
    refine tot3_bind (P := fun m => m = m') (by rw [freeCtx_eq hm']; exact tot3_pure (a := m') rfl) (fun mem hmem => ?_)
    subst hmem
    refine tot3_bind' hret (fun p heq hp => ?_)
    obtain ⟨res, w1⟩ := p
    have hres : RGood res.result := frameReturn_rgood (res := resultOf r out s) hrg heq
    obtain ⟨g1, g2, g3⟩ := mf.returnOut _ _ _ _ _ _ heq hcodes
    have hc1 := g3 ht.out
    have hgas := ht.gas
    simp only [msum] at hgas
    refine tot3_deliver hp pi hshape ht.link.2 plc plink prest (imeas s) ?_ (by omega) hres ?_ hc1
    · exact Nat.le_trans g1 hmeas
    · exact Nat.le_trans g2 ht.out

/-! ## an action -/

theorem tot3_makeFrame {cfg : Cfg} {w : World} (h : WOk w) (a : Interp.Action) (mem : Memory.SharedMemory)
    (hne : ∀ i, a ≠ .eofCreate i) :
    Tot3 (makeFrame journalOps cfg w a mem) (fun p => FOut w p.2 p.1 ∧ FrAddr p.2 p.1) := by
  unfold makeFrame
  cases a with
  | call i =>
    refine tot3_of_tot (tot_mono (tot_makeCallFrame h cfg i mem) (fun p hp => ⟨hp.1, fun f hf a ha => ?_⟩))
    obtain ⟨⟨rs, re, hk⟩, _⟩ := hp.2 f hf
    rw [hk] at ha; cases ha
  | create i =>
    refine tot3_of_tot (tot_mono (tot_makeCreateFrame h cfg i mem) (fun p hp => ⟨hp.1, fun f hf a ha => ?_⟩))
    obtain ⟨a', hk, _, hl⟩ := hp.2 f hf
    rw [hk] at ha; cases ha; exact hl
  | eofCreate i => exact absurd rfl (hne i)

theorem makeFrame_rgood {cfg : Cfg} {w w' : World} {a : Interp.Action} {mem : Memory.SharedMemory}
    {o : Interp.ChildResult} (h : makeFrame journalOps cfg w a mem = .ok (.result o, w')) : RGood o.result := by
  unfold makeFrame at h
  cases a with
  | call i => exact makeCallFrame_rgood h
  | create i => exact makeCreateFrame_rgood h
  | eofCreate i => cases h

theorem buffer_le {s : Interp.IState} (hs : IInv s) (hm : imeas s < U64 - 1) (n : Nat)
    (hlc : s.mem.lastCheckpoint ≤ n * FB) : s.mem.buffer.length ≤ (n + 1) * FB := by
  have hcost : Memory.currentExpansionCost s.mem < U64 - 1 := by
    have : imeas s = s.gas.remaining + Memory.currentExpansionCost s.mem := rfl
    omega
  have h1 := clen_le_of_cost hs.memWF hcost
  have h2 : iclen s.mem = s.mem.buffer.length - s.mem.lastCheckpoint := rfl
  rw [Nat.add_mul]
  omega

theorem tot3_frameAction (mf : MF) {cfg : Cfg} (henv : Revm.Proofs.Interp.EnvOk cfg.spec cfg.env) {top : JFrame}
    {rest : List JFrame} {a : Interp.Action} {s : Interp.IState} {w : World} (h : LI (top :: rest) w)
    (hs : IInv s) (hlc : s.mem.lastCheckpoint ≤ rest.length * FB) (hlink : Link s top.kind rest) (hrest : SOk rest)
    (hgas : imeas s + a.gasLimit + msum rest ≤ U64 - 2) (hr : Revm.Proofs.Interp.RetOk a (iclen s.mem))
    (hdl : dataLen a ≤ ISZ) (hne : ∀ i, a ≠ .eofCreate i) (hlen : rest.length + 1 ≤ CALL_STACK_LIMIT + 1)
    (hcodes : StoreOk w) :
    Tot3 (frameAction journalOps cfg top rest a s w) NInv3 := by
  unfold frameAction
  have h' := h.updTop s
  have hpos := wok_len_pos h.ok
  have hU := U64_val
  have hbuf := buffer_le hs (by omega) rest.length hlc
  have hbuf62 : s.mem.buffer.length ≤ 2^62 := by
    unfold CALL_STACK_LIMIT at hlen
    unfold FB at hbuf
    generalize rest.length = n at hbuf hlen
    omega
  refine tot3_bind' (tot3_makeFrame h.ok a s.mem hne) (fun p heq hp => ?_)
  obtain ⟨fr, w1⟩ := p
  obtain ⟨fo, fa⟩ := hp
  dsimp only at fo fa ⊢
  have hc1 : StoreOk w1 := hcodes.eq (mf.frameCodes _ _ _ _ _ _ heq hcodes hdl)
  have hli : LI ({ top with interp := s } :: rest) w1 :=
    ⟨fo.ok, h'.chain.mono fo.len, h'.addrs.mono fo.grows⟩
  cases fr with
  | frame f =>
    obtain ⟨k1, k2⟩ := fo.cp f rfl
    obtain ⟨fi, fm, fmem, fk⟩ := mf.frameInit _ _ _ _ _ _ heq hcodes hdl (by omega) henv hs.memWF hbuf62
    refine tot3_pure ⟨List.cons_ne_nil _ _, ⟨fo.ok, ⟨by omega, k2, h'.chain.mono k1⟩, fun g hg a ha => ?_⟩, ?_, ?_, hc1⟩
    · cases hg with
      | head => exact fa f rfl a ha
      | tail _ hg => exact hli.addrs g hg a ha
    · refine ⟨fi, ?_, ⟨?_, ?_⟩, hs, hlc, hlink, hrest⟩
      · rw [fmem]
        show s.mem.buffer.length ≤ (rest.length + 1) * FB
        exact hbuf
      · rw [fmem]; exact aboveM_newContext _
      · cases a with
        | call i => rw [show f.kind = .call i.retStart i.retEnd from fk]; exact hr
        | create i => obtain ⟨ad, hk⟩ := fk; rw [hk]; trivial
        | eofCreate i => obtain ⟨ad, hk⟩ := fk; rw [hk]; trivial
    · show imeas f.interp + (imeas s + msum rest) ≤ U64 - 2
      rw [fm]; omega
  | result o =>
    obtain ⟨e1, e2⟩ := mf.early _ _ _ _ _ _ heq hcodes hdl
    have hk : KindOk (kindOfAction a) s := by
      cases a with
      | call i => exact hr
      | create i => trivial
      | eofCreate i => trivial
    exact tot3_deliver (parent := { top with interp := s }) hli hs (Revm.Proofs.Interp.Shape.refl _) hk hlc hlink
      hrest a.gasLimit e1 hgas (makeFrame_rgood heq) e2 hc1

/-! ## one instruction -/

theorem tot3_afterStep (mf : MF) {cfg : Cfg} (henv : Revm.Proofs.Interp.EnvOk cfg.spec cfg.env) {top : JFrame}
    {rest : List JFrame} {d : Interp.Done} {w : World} (h : LI (top :: rest) w) (hsi : SI (top :: rest) w)
    (hd : SDone top.interp d) (h2 : StepOk2 top.interp d)
    (hout : ∀ r out s', d = .halt r out s' → out.length ≤ s'.mem.buffer.length)
    (hin : ∀ a s', d = .action a s' → dataLen a ≤ ISZ ∧ ∀ i, a ≠ .eofCreate i)
    (hlen : rest.length + 1 ≤ CALL_STACK_LIMIT + 1) :
    Tot3 (afterStep journalOps cfg top rest d w) NInv3 := by
  obtain ⟨ti, tlc, tlink, trest⟩ := hsi.sok
  have hgas := hsi.gas
  simp only [msum] at hgas
  unfold afterStep
  cases h2 with
  | next hi hm hc =>
    refine tot3_pure ⟨List.cons_ne_nil _ _, h.updTop _, ⟨hi, ?_, link_ckEq tlink hc, trest⟩, ?_, hsi.codes⟩
    · show _ ≤ rest.length * FB
      rw [hc.1]; exact tlc
    · rename_i s'
      show imeas s' + msum rest ≤ U64 - 2
      omega
  | action hi hm hr hc =>
    exact tot3_frameAction mf henv h hi (by rw [hc.1]; exact tlc) (link_ckEq tlink hc) trest (by omega) hr
      (hin _ _ rfl).1 (hin _ _ rfl).2 hlen hsi.codes
  | halt hm hw hc =>
    cases hd with
    | halt _ hrg =>
      exact tot3_frameEnd mf h hrg ⟨hw, link_ckEq tlink hc, trest, by omega,
        Nat.le_trans (hout _ _ _ rfl) hw.2.2⟩ hsi.codes

/-- **one iteration of `run_the_loop`: no interpreter fault, no fault of an outcome insertion, `free_context` succeeds** -/
theorem tot3_iterate (mf : MF) {cfg : Cfg} (henv : Revm.Proofs.Interp.EnvOk cfg.spec cfg.env) {stack : List JFrame}
    {w : World} (hne : stack ≠ []) (h : LI stack w) (hsi : SI stack w) (hi : Proofs.EvmInstLoaded.Inv stack w)
    (hlen : stack.length ≤ CALL_STACK_LIMIT + 1) : Tot3 (iterate journalOps cfg stack w) NInv3 := by
  unfold iterate
  cases stack with
  | nil => exact absurd rfl hne
  | cons top rest =>
    dsimp only
    have hti : IInv top.interp := hsi.sok.1
    have hst := step_strict top.interp
    have hg2 := step_good2 top.interp hti
    have hlen' : rest.length + 1 ≤ CALL_STACK_LIMIT + 1 := hlen
    split
    · rename_i d heq0
      rw [heq0] at hst hg2
      cases hst with
      | pure hd =>
        cases hg2 with
        | pure h2 =>
          exact tot3_afterStep mf henv h hsi hd h2
            (fun r out s' e => mf.outB _ _ _ _ _ hti (Or.inl heq0) e)
            (fun a s' e => mf.inB _ _ _ _ hti (Or.inl heq0) e) hlen'
    · rename_i op k heq
      rw [heq] at hst hg2
      have hk : ∀ r : Interp.HostResp, r.ok = true → SDone top.interp (k r) := by
        cases hst with
        | host hk => exact hk
      have hk2 : ∀ r : Interp.HostResp, Revm.Proofs.Interp.RespOk r → StepOk2 top.interp (k r) := by
        cases hg2 with
        | host hk => exact hk
      have haddr := step_addr top.interp heq
      have hin : (w.js.state top.interp.target).isSome := isSome_of_ne_none (hi top (List.mem_cons_self ..))
      have hok : HOk w.js op := by
        cases op <;> first | trivial | (show (w.js.state _).isSome = true; rw [show _ = top.interp.target from haddr]; exact hin)
      refine tot3_bind' (tot3_of_tot (tot_answer h.ok cfg.he _ hok)) (fun p hans hp => ?_)
      obtain ⟨resp, w1⟩ := p
      have hresp : Revm.Proofs.Interp.RespOk resp :=
        answer_respOk hans hsi.codes.1.hyp (fun _ _ _ hl => w_loadCode_codes hl)
      have hsi1 : SI (top :: rest) w1 := ⟨hsi.sok, hsi.gas, hsi.codes.eq (mf.answerCodes _ _ _ _ _ hans)⟩
      exact tot3_afterStep mf henv (h.step hp) hsi1 (hk resp (answer_ok hans)) (hk2 resp hresp)
        (fun r out s' e => mf.outB _ _ _ _ _ hti (Or.inr ⟨op, k, resp, heq, rfl⟩) e)
        (fun a s' e => mf.inB _ _ _ _ hti (Or.inr ⟨op, k, resp, heq, rfl⟩) e) hlen'

end Revm.Proofs.EvmLink
