import Revm.Proofs.EvmLinkInterp11
/-! LINK, the interpreter side of panic-freedom, part 12: **`InB`** — the calldata of a CALL-family action and the
initcode of a CREATE action are slices of the frame's memory, hence Rust `Bytes`: along an instruction the shared
buffer stays within `isize::MAX` (`resize` panics beyond; nothing else makes it longer), and the bytes handed to the
action are read from it. In legacy code EOFCREATE / EXT*CALL stop at `require_eof!` and hand out no action. -/
set_option linter.unusedSimpArgs false
set_option linter.unusedVariables false
namespace Revm.Proofs.EvmLink
open Revm Revm.Model Revm.Model.Interp

local notation "ISZ" => Memory.ISIZE_MAX

/-- the shared buffer is a Rust `Vec` -/
def BufOk (s : IState) : Prop := s.mem.buffer.length ≤ ISZ

/-- `m` keeps the buffer within `isize::MAX` -/
def BP {α} (m : M α) : Prop := ∀ s a s', BufOk s → m s = .ok a s' → BufOk s'

theorem bp_bind {α β} {m : M α} {f : α → M β} (h1 : BP m) (h2 : ∀ a, BP (f a)) : BP (m >>= f) := by
  intro s b s' hb h
  change M.bind m f s = _ at h
  unfold M.bind at h
  cases hm : m s with
  | ok a s1 => rw [hm] at h; exact h2 a s1 b s' (h1 s a s1 hb hm) h
  | halt r1 o1 s1 => rw [hm] at h; cases h
  | fault f => rw [hm] at h; cases h
theorem bp_pure {α} (a : α) : BP (pure a : M α) := fun s b s' hb h => by cases h; exact hb
theorem bp_haltWith {α} (r : IResult) : BP (haltWith r : M α) := fun s b s' hb h => nomatch h
theorem bp_faultWith {α} (f : Fault) : BP (faultWith f : M α) := fun s b s' hb h => nomatch h
theorem bp_getS : BP getS := fun s b s' hb h => by cases h; exact hb

theorem resize_len {m m' : Memory.SharedMemory} {n : Nat} (h : Memory.resize m n = .ok m')
    (hb : m.buffer.length ≤ ISZ) : m'.buffer.length ≤ ISZ := by
  unfold Memory.resize at h
  simp only [] at h
  generalize (m.lastCheckpoint + n) % U64 = k at h
  generalize hI : ISZ = I at *
  split at h
  · cases h
    show (m.buffer.take _).length ≤ I
    rw [List.length_take]
    exact Nat.le_trans (Nat.min_le_right _ _) hb
  · split at h
    · cases h
    · rename_i h1 h2
      cases h
      show (m.buffer ++ List.replicate _ 0).length ≤ I
      rw [List.length_append, List.length_replicate]
      omega

theorem resizeMemory_shape {m : Memory.SharedMemory} {rem n : Nat} {r : Bool × Memory.SharedMemory × Nat}
    (h : Memory.resizeMemory m rem n = .ok r) : r.2.1 = m ∨ ∃ k, Memory.resize m k = .ok r.2.1 := by
  unfold Memory.resizeMemory at h
  dsimp only at h
  split at h
  · cases hr : Memory.resize m (U64ops.wmul (Memory.numWords n) 32) with
    | ok m' => rw [hr] at h; cases h; exact Or.inr ⟨_, hr⟩
    | panic => rw [hr] at h; cases h
    | ub => rw [hr] at h; cases h
  · cases h; exact Or.inl rfl

theorem resizeMacro_shape {m : Memory.SharedMemory} {rem o l : Nat} {r : Bool × Memory.SharedMemory × Nat}
    (h : Memory.resizeMemoryMacro m rem o l = .ok r) : r.2.1 = m ∨ ∃ k, Memory.resize m k = .ok r.2.1 := by
  unfold Memory.resizeMemoryMacro at h
  dsimp only at h
  split at h
  · exact resizeMemory_shape h
  · cases h; exact Or.inl rfl

theorem memRes_ok {α β} {x : Memory.Res α} {k : α → Exec β} {b : β} {s' : IState}
    (h : memRes x k = .ok b s') : ∃ v, x = .ok v ∧ k v = .ok b s' := by
  unfold memRes at h
  split at h
  · exact ⟨_, rfl, h⟩
  · cases h
  · cases h

theorem bp_resizeMem (off len : Nat) : BP (resizeMem off len) := by
  intro s a s' hb h
  unfold resizeMem at h
  obtain ⟨r, heq, h⟩ := memRes_ok h
  by_cases hr : r.1 = true
  · rw [if_pos hr] at h
    cases h
    show r.2.1.buffer.length ≤ ISZ
    rcases resizeMacro_shape heq with e | ⟨k, hk⟩
    · rw [e]; exact hb
    · exact resize_len hk hb
  · rw [if_neg hr] at h
    cases h

open Lean Elab Tactic Meta in
/-- unfold the head constant of `m` in a goal `BP m` -/
elab "bp_unfold" : tactic => do
  let g ← getMainGoal
  let t ← instantiateMVars (← g.getType)
  let m := t.appArg!
  match m.getAppFn with
  | .const n _ => evalTactic (← `(tactic| unfold $(mkIdent n):ident))
  | _ => throwError "bp_unfold: no head constant"

syntax "bp_leaf" : tactic
macro_rules | `(tactic| bp_leaf) => `(tactic| focus
  (intro s a s' hb h
   try unfold memRes at h
   try simp only [] at h
   repeat' (split at h)
   all_goals first | (cases h; done) | (cases h; exact hb)))

syntax "bp_auto" : tactic
macro_rules | `(tactic| bp_auto) => `(tactic| repeat (first
  | assumption
  | exact bp_pure _ | exact bp_haltWith _ | exact bp_faultWith _ | exact bp_getS | exact bp_resizeMem _ _
  | (refine bp_bind ?_ (fun _ => ?_))
  | bp_leaf
  | split
  | (dsimp only; done)
  | dsimp only
  | bp_unfold))

set_option maxHeartbeats 400000 in
theorem bp_pop1 : BP pop1 := by bp_auto
set_option maxHeartbeats 400000 in
theorem bp_pop3 : BP pop3 := by bp_auto
set_option maxHeartbeats 400000 in
theorem bp_pop4 : BP pop4 := by bp_auto
set_option maxHeartbeats 400000 in
theorem bp_popAddress : BP popAddress := by bp_auto
set_option maxHeartbeats 400000 in
theorem bp_check (k : Nat) : BP (check k) := by bp_auto
set_option maxHeartbeats 400000 in
theorem bp_requireNonStatic : BP requireNonStatic := by bp_auto
set_option maxHeartbeats 400000 in
theorem bp_requireSome (r : HostResp) : BP (requireSome r) := by bp_auto
set_option maxHeartbeats 400000 in
theorem bp_gasCharge (c : Nat) : BP (gasCharge c) := by bp_auto
set_option maxHeartbeats 400000 in
theorem bp_gasOrFail (c : Option Nat) : BP (gasOrFail c) := by bp_auto
set_option maxHeartbeats 400000 in
theorem bp_asUsizeOrFail (v : Nat) (r : IResult) : BP (asUsizeOrFail v r) := by bp_auto
set_option maxHeartbeats 400000 in
theorem bp_checkWhen (b : Bool) (k : Nat) : BP (checkWhen b k) := by bp_auto
set_option maxHeartbeats 400000 in
theorem bp_calcCallGas (r : HostResp) (a b : Bool) (l : Nat) : BP (calcCallGas r a b l) := by bp_auto
set_option maxHeartbeats 400000 in
theorem bp_resizeMemRange (o l : Nat) : BP (resizeMemRange o l) := by bp_auto
set_option maxHeartbeats 400000 in
theorem bp_initcodeCharge (l : Nat) : BP (initcodeCharge l) := by bp_auto
set_option maxHeartbeats 400000 in
theorem bp_createScheme (b : Bool) (l : Nat) : BP (createScheme b l) := by bp_auto

/-! ## values read from the buffer -/

/-- `m` keeps the buffer within `isize::MAX` and its value satisfies `Q` -/
def TB {α} (m : M α) (Q : α → Prop) : Prop := ∀ s a s', BufOk s → m s = .ok a s' → BufOk s' ∧ Q a

theorem tb_bind {α β} {m : M α} {f : α → M β} {Q : α → Prop} {R : β → Prop} (h1 : TB m Q)
    (h2 : ∀ a, Q a → TB (f a) R) : TB (m >>= f) R := by
  intro s b s' hb h
  change M.bind m f s = _ at h
  unfold M.bind at h
  cases hm : m s with
  | ok a s1 =>
    rw [hm] at h
    obtain ⟨k1, k2⟩ := h1 s a s1 hb hm
    exact h2 a k2 s1 b s' k1 h
  | halt r1 o1 s1 => rw [hm] at h; cases h
  | fault f => rw [hm] at h; cases h
theorem tb_of_bp {α} {m : M α} (h : BP m) : TB m (fun _ => True) := fun s a s' hb e => ⟨h s a s' hb e, trivial⟩
theorem tb_pure {α} {a : α} {Q : α → Prop} (h : Q a) : TB (pure a : M α) Q := fun s b s' hb e => by
  cases e; exact ⟨hb, h⟩
theorem tb_haltWith {α} (r : IResult) (Q : α → Prop) : TB (haltWith r : M α) Q := fun s b s' hb e => nomatch e

theorem tb_memSlice (off len : Nat) : TB (memSlice off len) (fun out => out.length ≤ ISZ) := by
  intro s out s' hb h
  obtain ⟨rfl, hl⟩ := memSlice_len h
  exact ⟨hb, Nat.le_trans hl hb⟩

theorem tb_memSliceRange (a b : Nat) : TB (memSliceRange a b) (fun out => out.length ≤ ISZ) := by
  intro s out s' hb h
  unfold memSliceRange at h
  obtain ⟨v, heq, h⟩ := memRes_ok h
  cases h
  refine ⟨hb, ?_⟩
  unfold Memory.sliceRange at heq
  split at heq
  · split at heq
    · cases heq
      unfold Memory.readAt
      rw [List.length_take, List.length_drop]
      have : s.mem.buffer.length ≤ ISZ := hb
      omega
    · cases heq
  · cases heq

theorem tb_getMem : TB getMemoryInputAndOutRanges (fun p => p.1.length ≤ ISZ) := by
  unfold getMemoryInputAndOutRanges
  refine tb_bind (tb_of_bp bp_pop4) (fun x _ => ?_)
  obtain ⟨inOff, inLen, outOff, outLen⟩ := x
  dsimp only
  refine tb_bind (tb_of_bp (bp_resizeMemRange _ _)) (fun y _ => ?_)
  obtain ⟨a, b⟩ := y
  dsimp only
  refine tb_bind (Q := fun input => input.length ≤ ISZ) ?_ (fun input hin => ?_)
  · split
    · exact tb_memSliceRange a b
    · exact tb_pure (Nat.zero_le _)
  · refine tb_bind (tb_of_bp (bp_resizeMemRange _ _)) (fun z _ => ?_)
    obtain ⟨c, d⟩ := z
    exact tb_pure hin

theorem tb_createCode (o l : Nat) : TB (createCode o l) (fun c => c.length ≤ ISZ) := by
  unfold createCode
  split
  · refine tb_bind (tb_of_bp (bp_initcodeCharge _)) (fun _ _ => ?_)
    refine tb_bind (tb_of_bp (bp_asUsizeOrFail _ _)) (fun off _ => ?_)
    refine tb_bind (tb_of_bp (bp_resizeMem _ _)) (fun _ _ => ?_)
    exact tb_memSlice _ _
  · exact tb_pure (Nat.zero_le _)

/-- an action legacy code hands out: calldata / initcode a Rust `Bytes`, never EOFCREATE -/
def ActOk2 (a : Action) : Prop := dataLen a ≤ ISZ ∧ ∀ i, a ≠ .eofCreate i

/-- the common tail of the four call instructions -/
theorem tb_callPost (r : HostResp) (ie ht : Bool) (lgl : Nat) (adj : Nat → Nat) (mk : Nat → IState → CallInputs)
    (hmk : ∀ g s, (mk g s).input.length ≤ ISZ) :
    TB (do
        requireSome r
        let gasLimit ← calcCallGas r ie ht lgl
        gasCharge gasLimit
        let s ← getS
        pure (Action.call (mk (adj gasLimit) s)) : M Action) (fun a => ActOk2 a) := by
  refine tb_bind (tb_of_bp (bp_requireSome _)) (fun _ _ => ?_)
  refine tb_bind (tb_of_bp (bp_calcCallGas _ _ _ _)) (fun g _ => ?_)
  refine tb_bind (tb_of_bp (bp_gasCharge _)) (fun _ _ => ?_)
  refine tb_bind (tb_of_bp bp_getS) (fun s _ => ?_)
  exact tb_pure ⟨hmk _ _, fun i hx => nomatch hx⟩

theorem tb_createI (c2 : Bool) : TB (createI c2) (fun a => ActOk2 a) := by
  unfold createI
  refine tb_bind (tb_of_bp bp_requireNonStatic) (fun _ _ => ?_)
  refine tb_bind (tb_of_bp (bp_checkWhen _ _)) (fun _ _ => ?_)
  refine tb_bind (tb_of_bp bp_pop3) (fun x _ => ?_)
  obtain ⟨value, codeOffset, len⟩ := x
  dsimp only
  refine tb_bind (tb_of_bp (bp_asUsizeOrFail _ _)) (fun len' _ => ?_)
  refine tb_bind (tb_createCode _ _) (fun code hc => ?_)
  refine tb_bind (tb_of_bp (bp_createScheme _ _)) (fun salt _ => ?_)
  refine tb_bind (tb_of_bp bp_getS) (fun s _ => ?_)
  refine tb_bind (tb_of_bp (bp_gasCharge _)) (fun _ _ => ?_)
  refine tb_bind (tb_of_bp bp_getS) (fun s2 _ => ?_)
  exact tb_pure ⟨hc, fun i hx => nomatch hx⟩

end Revm.Proofs.EvmLink
