import Revm.Proofs.EvmRefineStrict
/-! The whole-transaction refinement: the model under the journal discipline and the specification under the snapshot
discipline give the same outcome and the same observable post-state — for every program, transaction, fork and fuel,
for every completed admissible run (`transactStrict`). -/
set_option linter.unusedSimpArgs false
set_option linter.unusedVariables false
namespace Revm.Proofs.EvmRefine
open Revm Revm.Model Revm.Model.Journal Revm.Spec.JournalAbs Revm.Proofs.Journal Revm.Proofs.Frame
open Revm.Model.Evm
open Revm.Spec.Evm (Snap snapshotOps journalOpsStrict observe AcctObs ObsEq TxResult.Eqv)
open Revm.Proofs.EvmSim (ForRel FrameRel FrameSim TxSim OutRel transactWith_sim)

/-- **the simulation instance**: the strict journal machine and the snapshot machine -/
def refineSim (e : Evm.Env) (spec : Nat) : TxSim journalOpsStrict snapshotOps e spec where
  toFrameSim := frameSim (e.toCfg spec)
  R0 := R0
  pre := by
    intro w1 w2 o1 hR h
    obtain ⟨o2, h2, hres⟩ := pre_rel e spec hR h
    refine ⟨o2, h2, ?_⟩
    cases o1 with
    | none => cases o2 with
      | none => trivial
      | some _ => exact hres.elim
    | some p1 => cases o2 with
      | none => exact hres.elim
      | some p2 => exact hres
  load := fun w1 w2 hR => load_rel e spec hR
  deduct := fun w1 w2 w1' hR h => deduct_rel e spec hR h
  auth := fun w1 w2 w1' n hR h => auth_rel e spec hR h
  fin := fun w1 w2 fg rf ic res r w1' hR h => fin_rel e spec fg rf ic res hR h

/-- related worlds are observably equal -/
theorem observe_rel {w1 w2 : World} (h : CfgRel [] w1 [] w2) (a : Addr) :
    match observe w1 a, observe w2 a with
    | some x, some y => x.Eqv y
    | none, none => True
    | _, _ => False := by
  unfold observe
  have he := h.w.rel.ent a
  cases hx : w1.js.state a with
  | none =>
    rw [h.w.rel.get_none hx]
    trivial
  | some x =>
    obtain ⟨y, hy, ar⟩ := h.w.rel.get hx
    rw [hy]
    obtain ⟨e1, e2, e3, e4, e5, e6, e7, e8, e9⟩ := ar
    simp only
    rw [← e6]
    by_cases ht : x.touched = true
    · simp only [ht, if_true]
      refine ⟨e4, e5, e1, e2, e3, ?_⟩
      intro k
      have := congrFun e9 k
      simp only [slotsOf] at this
      show (match x.storage k with
        | some sl => if sl.present ≠ sl.orig then some sl.present else none
        | none => none) = (match y.storage k with
        | some sl => if sl.present ≠ sl.orig then some sl.present else none
        | none => none)
      cases hxk : x.storage k with
      | none =>
        cases hyk : y.storage k with
        | none => rfl
        | some sl =>
          rw [hxk, hyk] at this
          simp only [AbsSlot.mk.injEq] at this
          have hh : sl.present = sl.orig := by rw [← this.1, ← this.2.1]
          simp [hh]
      | some sl =>
        cases hyk : y.storage k with
        | none =>
          rw [hxk, hyk] at this
          simp only [AbsSlot.mk.injEq] at this
          have hh : sl.present = sl.orig := by rw [this.1, this.2.1]
          simp [hh]
        | some sl' =>
          rw [hxk, hyk] at this
          simp only [AbsSlot.mk.injEq] at this
          simp only
          rw [this.1, this.2.1]
    · simp only [ht, Bool.false_eq_true, if_false]

/-- what the refinement theorem asks of the world a transaction starts from: a journal with its transaction level, code
caches that hold the code of the hash, the address list is the domain of the state map, a database with a faithful
`has_storage` and 256-bit balances, journal well-formedness (C06 / C07 `Good`) -/
structure Start (w : World) : Prop where
  jne : w.js.journal ≠ []
  code : CodeOk w.js
  pres : ∀ a, w.addrs.contains a = (w.js.state a).isSome
  hs : w.dbHasStorage = true
  bal : ∀ p ∈ w.pre, p.balance < W
  good : Good w.js

theorem entryRel_refl (db : Db) (a : Addr) (o : Option Acct) : EntryRel db a o o := by
  cases o with
  | none => trivial
  | some x => exact ⟨rfl, rfl, rfl, rfl, rfl, rfl, rfl, rfl, rfl⟩

theorem R0_refl {w : World} (h : Start w) : R0 w w :=
  ⟨CfgRel.nil_intro ⟨⟨fun a => entryRel_refl _ a _, fun _ _ => rfl, rfl, rfl, rfl, rfl, h.jne, h.jne, h.code, h.code⟩,
      rfl, rfl, rfl, rfl, h.hs, h.hs, h.pres, h.bal⟩ h.good,
   fun a x y hx hy => by rw [hx] at hy; cases hy; rfl⟩

/-- the world of a fresh `Evm` over a database with faithful `has_storage` and 256-bit balances -/
theorem start_fresh (spec : Nat) (pre : List PreAcct) (oracle : List PcAnswer) (hbal : ∀ p ∈ pre, p.balance < W) :
    Start (Spec.Evm.freshWorld spec pre true oracle) :=
  ⟨by simp [Spec.Evm.freshWorld, JState.new], fun a acc h => by simp [Spec.Evm.freshWorld, JState.new] at h,
   fun a => by simp [Spec.Evm.freshWorld, JState.new], rfl, hbal, good_new _ _⟩

/-- **journal discipline refines snapshot discipline** (`run_sim` lifted to whole transactions): a completed run of the
strict journal machine is matched by the specification, with the same outcome and related final worlds -/
theorem strict_refines_spec (fuel : Nat) (w : World) (e : Evm.Env) (spec : Nat) (hw : Start w) (o : Outcome)
    (w1' : World) (h : Spec.Evm.transactStrict fuel w e spec = .ok (o, w1')) :
    ∃ w2', Spec.Evm.transact fuel w e spec = .ok (o, w2') ∧ OutRel (fun a b => CfgRel [] a [] b) o w1' w2' :=
  transactWith_sim (refineSim e (GasCalc.canon spec)) fuel w w (R0_refl hw) o w1' h

/-- the closed statement of C01 for every completed admissible run: the model (`Evm.transact`, journal of undo entries)
and the specification (`Spec.Evm.transact`, snapshots) agree on outcome class, gas, refund, output, created address,
logs and the post-state of the touched accounts -/
theorem transact_refines_spec_of_strict (fuel : Nat) (w : World) (e : Evm.Env) (spec : Nat) (hw : Start w)
    (x : Outcome × World) (h : Spec.Evm.transactStrict fuel w e spec = .ok x) :
    ObsEq (Evm.transact fuel w e spec) (Spec.Evm.transact fuel w e spec) := by
  obtain ⟨o, w1'⟩ := x
  obtain ⟨w2', h2, hr⟩ := strict_refines_spec fuel w e spec hw o w1' h
  rw [strict_is_model fuel w e spec _ h, h2]
  cases o with
  | rejected => trivial
  | executed r => exact ⟨⟨rfl, rfl, rfl, rfl, rfl, rfl⟩, fun a => observe_rel hr a⟩

end Revm.Proofs.EvmRefine
