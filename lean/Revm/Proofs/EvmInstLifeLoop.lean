import Revm.Proofs.EvmInstLife
/-! C31 instance, part 2: the abstract `run_the_loop` of `Model.EvmLifecycle` instantiated with `evmHandler` IS
`Evm.runLoop` / `Evm.runEnded` (same fuel), for the journal discipline. -/
namespace Revm.Proofs.EvmInstLife
open Revm Revm.Model Revm.Model.Evm Revm.Proofs.EvmInst
open Revm.Model.Journal (JState)

theorem canon_eq (s : Nat) : EvmLifecycle.canon s = GasCalc.canon s := rfl

theorem work_error_none_eta (w : LWork) (h : w.error = none) : ({ w with error := none } : LWork) = w := by
  cases w; simp only at h; subst h; rfl

/-- what the loop computes, as a relation between the concrete answer and the abstract one; `w` is the work the
abstract loop started from (only its error slot and L1 field survive in the answer) -/
inductive LoopRel (w : LWork) : R (Interp.ChildResult × World) → Option (Except LErr FRes × LWork) → Prop
  | ok (r : Interp.ChildResult) (x : World) : LoopRel w (.ok (r, x)) (some (.ok (r, noGas), setWorld w x))
  | fuel : LoopRel w (.error .outOfFuel) none
  | err (e : Evm.Err) (w1 : LWork) : w1.error = none → LoopRel w (.error e) (some (.error (.err e), w1))

theorem LoopRel.rebase {w : LWork} {x : World} {c : R (Interp.ChildResult × World)}
    {l : Option (Except LErr FRes × LWork)} (h : LoopRel (setWorld w x) c l) : LoopRel w c l := by
  cases h with
  | ok r y => exact .ok r y
  | fuel => exact .fuel
  | err e w1 h1 => exact .err e w1 h1

section
variable (spec : Nat) (e : Env) (pre : Nat)

theorem h_executeFrame (ls : LS) :
    (evmHandler spec).executeFrame pre ls e = liftStage (execFrame (e.toCfg (GasCalc.canon spec)) ls) := rfl

theorem h_frameAction (ls : LS) (a : Act) :
    (evmHandler spec).frameAction pre ls a e = liftStage (fun x =>
      (actFrame (e.toCfg (GasCalc.canon spec)) ls a x).map (fun p =>
        (match p.1 with
         | .inl ls' => Sum.inl ls'
         | .inr r => Sum.inr (r, noGas), p.2))) := rfl

/-- one iteration of the abstract loop over `evmHandler`, computed -/
theorem lloop_step (n : Nat) (ls : LS) (w : LWork) (hw : w.error = none) :
    EvmLifecycle.runLoop (evmHandler spec) pre e (n + 1) ls w =
      match execFrame (e.toCfg (GasCalc.canon spec)) ls (workWorld w) with
      | .error err => some (.error (.err err), w)
      | .ok (a, x) =>
        match actFrame (e.toCfg (GasCalc.canon spec)) ls a x with
        | .error err => some (.error (.err err), setWorld w x)
        | .ok (.inl ls', x') => EvmLifecycle.runLoop (evmHandler spec) pre e n ls' (setWorld w x')
        | .ok (.inr r, x') => some (.ok (r, noGas), setWorld w x') := by
  rw [EvmLifecycle.runLoop, h_executeFrame]
  simp only [h_frameAction]
  unfold liftStage
  cases hx : execFrame (e.toCfg (GasCalc.canon spec)) ls (workWorld w) with
  | error err => rfl
  | ok p =>
    obtain ⟨a, x⟩ := p
    simp only [EvmLifecycle.takeError, setWorld_error, hw, setWorld_world]
    rw [work_error_none_eta _ (by rw [setWorld_error]; exact hw)]
    simp only [setWorld_world, setWorld_setWorld]
    cases hy : actFrame (e.toCfg (GasCalc.canon spec)) ls a x with
    | error err => rfl
    | ok q =>
      obtain ⟨nx, x'⟩ := q
      cases nx with
      | inl ls' => rfl
      | inr r => rfl

/-- continuing the concrete loop with a `Next` -/
def contC (cfg : Cfg) (n : Nat) : Next Journal.Checkpoint → R (Interp.ChildResult × World)
  | .run st w => runLoop journalOps cfg n st w
  | .ended t r res o s w => runEnded journalOps cfg n t r res o s w
  | .done r w => pure (r, w)

theorem runLoop_succ (cfg : Cfg) (n : Nat) (stack : List (Frame Journal.Checkpoint)) (w : World) :
    runLoop journalOps cfg (n + 1) stack w = (do
      let nx ← iterate journalOps cfg stack w
      contC cfg n nx) := by
  rw [runLoop]
  cases iterate journalOps cfg stack w with
  | error err => rfl
  | ok nx => cases nx <;> rfl

theorem runEnded_succ (cfg : Cfg) (n : Nat) (top : Frame Journal.Checkpoint) (rest : List (Frame Journal.Checkpoint))
    (r : Interp.IResult) (out : List Nat) (s : Interp.IState) (w : World) :
    runEnded journalOps cfg (n + 1) top rest r out s w = (do
      let nx ← frameEnd journalOps cfg top rest r out s w
      contC cfg n nx) := by
  rw [runEnded]
  cases frameEnd journalOps cfg top rest r out s w with
  | error err => rfl
  | ok nx => cases nx <;> rfl

/-- the abstract loop over `evmHandler` computes `Evm.runLoop` (from a stack) and `Evm.runEnded` (from a stopped top
frame), with the same fuel -/
theorem loop_sim : ∀ (n : Nat) (w : LWork), w.error = none →
    (∀ stack, LoopRel w (runLoop journalOps (e.toCfg (GasCalc.canon spec)) n stack (workWorld w))
      (EvmLifecycle.runLoop (evmHandler spec) pre e n (.run stack) w)) ∧
    (∀ top rest r out s, LoopRel w (runEnded journalOps (e.toCfg (GasCalc.canon spec)) n top rest r out s (workWorld w))
      (EvmLifecycle.runLoop (evmHandler spec) pre e n (.ended top rest r out s) w)) := by
  intro n
  induction n with
  | zero =>
    intro w _
    refine ⟨fun stack => ?_, fun top rest r out s => ?_⟩
    · rw [runLoop]; exact .fuel
    · rw [runEnded]; exact .fuel
  | succ n ih =>
    intro w hw
    -- what happens after a `Next`, on both sides
    have hcont : ∀ (nx : Next Journal.Checkpoint),
        LoopRel w (contC (e.toCfg (GasCalc.canon spec)) n nx)
          (match ofNext nx with
           | (.inl ls', x') => EvmLifecycle.runLoop (evmHandler spec) pre e n ls' (setWorld w x')
           | (.inr r, x') => some (.ok (r, noGas), setWorld w x')) := by
      intro nx
      cases nx with
      | run st x =>
        exact ((ih (setWorld w x) (by rw [setWorld_error]; exact hw)).1 st).rebase
      | ended t rs res o s x =>
        exact ((ih (setWorld w x) (by rw [setWorld_error]; exact hw)).2 t rs res o s).rebase
      | done r x => exact .ok r x
    refine ⟨fun stack => ?_, fun top rest r out s => ?_⟩
    · rw [lloop_step spec e pre n _ w hw, runLoop_succ]
      cases stack with
      | nil => exact .err _ w hw
      | cons top rest =>
        rw [iterate_eq]
        simp only [execFrame, bind, Except.bind]
        cases hst : stepTop (e.toCfg (GasCalc.canon spec)) top (workWorld w) with
        | error err => exact .err _ w hw
        | ok p =>
          obtain ⟨d, x⟩ := p
          simp only [pure, Except.pure, actFrame, bind, Except.bind]
          cases hy : afterStep journalOps (e.toCfg (GasCalc.canon spec)) top rest d x with
          | error err => exact .err _ _ (by rw [setWorld_error]; exact hw)
          | ok nx =>
            simp only []
            have := hcont nx
            revert this
            cases hnx : ofNext nx with
            | mk a x' => cases a <;> exact id
    · rw [lloop_step spec e pre n _ w hw, runEnded_succ]
      simp only [execFrame, pure, Except.pure, actFrame, bind, Except.bind]
      cases hy : frameEnd journalOps (e.toCfg (GasCalc.canon spec)) top rest r out s (workWorld w) with
      | error err => exact .err _ _ (by rw [setWorld_error]; exact hw)
      | ok nx =>
        simp only []
        have := hcont nx
        revert this
        cases hnx : ofNext nx with
        | mk a x' => cases a <;> exact id

end

end Revm.Proofs.EvmInstLife
