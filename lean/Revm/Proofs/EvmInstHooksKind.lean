import Revm.Proofs.EvmInstHooks
import Revm.Proofs.EvmLinkDepth2
/-! C29 instance: the frame a request is answered with has the kind of the request — `make_call_frame` only ever
returns call frames, `make_create_frame` create frames, and the first frame of a transaction is a call frame iff the
transaction has a `to` address. So the `*_end` callback the real handler chooses by the KIND OF THE FRAME that returned
is the one the machine `InspectorHooks.turn` chooses by the kind it remembered from the request. -/
namespace Revm.Proofs.EvmInstHooks
open Revm Revm.Model Revm.Model.Evm
open Revm.Model.InspectorHooks (Kind)
open Revm.Proofs.EvmLink (bind_ok callTail callPrecompile callValueStep makeCallFrameS makeCallFrame_staged createTail
  makeCreateFrameS makeCreateFrame_staged)

set_option linter.unusedSimpArgs false
set_option linter.unusedVariables false

theorem callTail_kind {κ : Type} {C : CpOps κ} {cfg : Cfg} {w w' : World} {cp : κ} {i : Interp.CallInputs} {mem}
    {f : Frame κ} (h : callTail C cfg w cp i mem = .ok (.frame f, w')) : kindOfFrame f.kind = .call := by
  unfold callTail at h
  obtain ⟨⟨w1, c⟩, _, h⟩ := bind_ok h
  obtain ⟨acc, _, h⟩ := bind_ok h
  obtain ⟨hh, _, h⟩ := bind_ok h
  obtain ⟨bytecode, _, h⟩ := bind_ok h
  split at h
  · simp only [pure, Except.pure, Except.ok.injEq, Prod.mk.injEq] at h
    exact nomatch h.1
  · obtain ⟨⟨w2, code2⟩, _, h⟩ := bind_ok h
    simp only [pure, Except.pure, Except.ok.injEq, Prod.mk.injEq, FrameOrResult.frame.injEq] at h
    rw [← h.1]; rfl

theorem callPrecompile_kind {κ : Type} {C : CpOps κ} {cfg : Cfg} {w w' : World} {cp : κ} {i : Interp.CallInputs}
    {mem} {f : Frame κ} (h : callPrecompile C cfg w cp i mem = .ok (.frame f, w')) : kindOfFrame f.kind = .call := by
  unfold callPrecompile at h
  obtain ⟨pc, _, h⟩ := bind_ok h
  cases pc with
  | none => exact callTail_kind h
  | some res =>
    simp only at h
    cases res with
    | ok gasUsed out =>
      simp only at h
      split at h
      · simp only [pure, Except.pure, Except.ok.injEq, Prod.mk.injEq] at h
        exact nomatch h.1
      · obtain ⟨w1, _, h⟩ := bind_ok h
        simp only [pure, Except.pure, Except.ok.injEq, Prod.mk.injEq] at h
        exact nomatch h.1
    | err e =>
      simp only at h
      obtain ⟨w1, _, h⟩ := bind_ok h
      simp only [pure, Except.pure, Except.ok.injEq, Prod.mk.injEq] at h
      exact nomatch h.1
    | panic =>
      simp only at h
      obtain ⟨x, hx, _⟩ := bind_ok h
      cases hx

/-- `make_call_frame` answers with a CALL frame or a result -/
theorem makeCallFrame_kind {κ : Type} {C : CpOps κ} {cfg : Cfg} {w w' : World} {i : Interp.CallInputs} {mem}
    {f : Frame κ} (h : makeCallFrame C cfg w i mem = .ok (.frame f, w')) : kindOfFrame f.kind = .call := by
  rw [makeCallFrame_staged] at h
  unfold makeCallFrameS at h
  split at h
  · simp only [pure, Except.pure, Except.ok.injEq, Prod.mk.injEq] at h
    exact nomatch h.1
  · obtain ⟨⟨w1, x⟩, _, h⟩ := bind_ok h
    simp only at h
    obtain ⟨⟨w2, failed⟩, _, h⟩ := bind_ok h
    cases failed with
    | some r0 =>
      simp only at h
      obtain ⟨w3, _, h⟩ := bind_ok h
      simp only [pure, Except.pure, Except.ok.injEq, Prod.mk.injEq] at h
      exact nomatch h.1
    | none =>
      simp only at h
      exact callPrecompile_kind h

theorem createTail_kind {κ : Type} {C : CpOps κ} {cfg : Cfg} {w w' : World} {i : Interp.CreateInputs} {mem}
    {created : Nat} {f : Frame κ} (h : createTail C cfg w i mem created = .ok (.frame f, w')) :
    kindOfFrame f.kind = .create := by
  unfold createTail at h
  simp only [pure, Except.pure] at h
  split at h
  · simp only [Except.ok.injEq, Prod.mk.injEq] at h
    exact nomatch h.1
  · obtain ⟨⟨w3, c3⟩, _, h⟩ := bind_ok h
    obtain ⟨⟨w4, r4⟩, _, h⟩ := bind_ok h
    simp only at h
    split at h
    · simp only [Except.ok.injEq, Prod.mk.injEq] at h
      exact nomatch h.1
    · simp only [Except.ok.injEq, Prod.mk.injEq] at h
      exact nomatch h.1
    · simp only [Except.ok.injEq, Prod.mk.injEq, FrameOrResult.frame.injEq] at h
      rw [← h.1]; rfl

/-- `make_create_frame` answers with a CREATE frame or a result -/
theorem makeCreateFrame_kind {κ : Type} {C : CpOps κ} {cfg : Cfg} {w w' : World} {i : Interp.CreateInputs} {mem}
    {f : Frame κ} (h : makeCreateFrame C cfg w i mem = .ok (.frame f, w')) : kindOfFrame f.kind = .create := by
  rw [makeCreateFrame_staged] at h
  unfold makeCreateFrameS at h
  simp only [pure, Except.pure] at h
  split at h
  · simp only [Except.ok.injEq, Prod.mk.injEq] at h
    exact nomatch h.1
  · obtain ⟨⟨w1, c⟩, _, h⟩ := bind_ok h
    obtain ⟨cacc, _, h⟩ := bind_ok h
    simp only at h
    split at h
    · simp only [Except.ok.injEq, Prod.mk.injEq] at h
      exact nomatch h.1
    · obtain ⟨⟨js, nn⟩, _, h⟩ := bind_ok h
      simp only at h
      cases nn with
      | none =>
        simp only [Except.ok.injEq, Prod.mk.injEq] at h
        exact nomatch h.1
      | some newNonce =>
        simp only at h
        exact createTail_kind h

/-- the frame an action is answered with has the kind of the action -/
theorem makeFrame_kind {κ : Type} {C : CpOps κ} {cfg : Cfg} {w w' : World} {a : Interp.Action} {mem}
    {f : Frame κ} (h : makeFrame C cfg w a mem = .ok (.frame f, w')) : kindOfFrame f.kind = kindOfAct a := by
  unfold makeFrame at h
  cases a with
  | call i => exact makeCallFrame_kind h
  | create i => exact makeCreateFrame_kind h
  | eofCreate i => simp [throw, throwThe, MonadExceptOf.throw] at h

/-- the first frame of a transaction is a call frame iff the transaction has a `to` address -/
theorem prepare_kind {κ : Type} {C : CpOps κ} {e : Env} {spec initialGas : Nat} {w w' : World} {f : Frame κ}
    {isCreate : Bool} {refund : Nat}
    (h : prepare C e spec initialGas w = .ok (.frame f, w', isCreate, refund)) :
    kindOfFrame f.kind = if e.tx.to.isSome then .call else .create := by
  unfold prepare at h
  obtain ⟨w1, _, h⟩ := bind_ok h
  obtain ⟨⟨w2, r⟩, _, h⟩ := bind_ok h
  simp only at h
  cases hto : e.tx.to with
  | some to =>
    rw [hto] at h
    simp only at h
    obtain ⟨⟨fr, w3⟩, hm, h⟩ := bind_ok h
    simp only [pure, Except.pure, Except.ok.injEq, Prod.mk.injEq] at h
    obtain ⟨rfl, _⟩ := h
    simpa using makeCallFrame_kind hm
  | none =>
    rw [hto] at h
    simp only at h
    obtain ⟨⟨fr, w3⟩, hm, h⟩ := bind_ok h
    simp only [pure, Except.pure, Except.ok.injEq, Prod.mk.injEq] at h
    obtain ⟨rfl, _⟩ := h
    simpa using makeCreateFrame_kind hm

end Revm.Proofs.EvmInstHooks
