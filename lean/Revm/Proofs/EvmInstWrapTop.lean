import Revm.Proofs.EvmInstWrapSimExec
import Revm.Proofs.EvmInstWrapNoCont2
import Revm.Proofs.Evm
import Revm.Props.C28
import Revm.Model.SelfdestructNotify
/-! Instantiating C28 with the whole-EVM model, part 5: the INSPECTED TRANSACTION and the headline theorems.

`transactVia run` is `Evm.transact` with the execution part of `transact_preverified_inner` (first-frame handler,
`run_the_loop`, `last_frame_return`) delegated to `run`; validation, `load_accounts`, `deduct_caller`, the EIP-7702 list
and the post-execution stages (`refund`, `reimburse_caller`, `reward_beneficiary`, `output`) are the stage functions of
`EvmInstStages` — `inspector_handle_register` does not wrap them.

* `transactAbs`: `run` = `Machine.exec` of the frame machine `evmMachine journalOps` of the concrete model;
* `transactInspected obs wst`: `run` = `Machine.exec` of `wrap (evmOps ..) obs (evmMachine journalOps ..)`, the machine
  `inspector_handle_register` builds, started with the wrapper state `wst` (inspector state + the three input stacks).

Results:
* `transactInspected_eq_abs`: for every inspector observing up to `rel` such that … (for the three inspectors: always),
  for EVERY fuel, the inspected transaction equals the plain abstract one (C28 instantiated; `Respects` is
  `evmMachine_respects`);
* `transactAbs_of_transact`: every completed `Evm.transact` run is a `transactAbs` run (simulation);
* `evm_inspected_eq_plain`: every completed `Evm.transact` run is the run inspected by `NoOpInspector`, `GasInspector`,
  `TracerEip3155`, from any wrapper state. -/
namespace Revm.Proofs.EvmInstWrap
open Revm Revm.Model Revm.Model.Evm
open Revm.Model.InspectorWrap (Machine FrameResult Observer WState ORel Observing Respects wrap)
open Revm.Proofs.InspectorWrap (dropW)

abbrev K := Journal.Checkpoint

/-! ## what the register reads from the context -/

/-- the `EnvOps` of the concrete context: the journal's logs, the length of the innermost journal level, the
SELFDESTRUCT wrapper's triple (`SelfdestructNotify.newEntryNote`, else `(contract, contract, 0)`), the journal depth,
`env.tx.gas_limit` -/
def evmOps (lim : Nat) : InspectorWrap.EnvOps (evmTy K) where
  logs c := c.w.js.logs
  journalLastLen c := SelfdestructNotify.lastLen c.w.js
  sdInfo prev st c := (SelfdestructNotify.newEntryNote prev c.w.js).getD (st.rest.target, st.rest.target, 0)
  depth c := c.w.js.depth
  txGasLimit _ := lim

/-! ## the post-execution stages on a `FrameResult` -/

/-- `refund` (+ EIP-7623 floor), `reimburse_caller`, `reward_beneficiary`, `output` on the `FrameResult` the execution part
returned (its gas record was set by `last_frame_return`) -/
def finishFr (e : Env) (spec floorGas refund : Nat) (fr : FrameResult) (w : World) : R (TxResult × World) := do
  let gas := EvmInst.refundGas spec floorGas refund fr.interpreterResult.gas
  let w ← EvmInst.reimburse e gas w
  let w ← EvmInst.reward e spec gas w
  let r ← EvmInst.output e.tx.to.isNone (childOfFrameResult fr) gas w.js.logs w.logs
  pure (r, w)

theorem output_congr (isCreate : Bool) (r1 r2 : Interp.ChildResult) (gas : Gas.Gas) (ids : List Nat)
    (store : List LogRec) (h1 : r1.result = r2.result) (h2 : r1.output = r2.output)
    (h3 : isCreate = true → r1.address = r2.address) :
    EvmInst.output isCreate r1 gas ids store = EvmInst.output isCreate r2 gas ids store := by
  unfold EvmInst.output
  rw [h1]
  cases ofOpt "unexpected internal return flag" (classOf r2.result) with
  | error e => rfl
  | ok cls =>
    simp only [bind, Except.bind, pure, Except.pure, Except.ok.injEq]
    cases isCreate with
    | false => cases cls <;> simp only [txResultOf, h1, h2] <;> rfl
    | true => cases cls <;> simp only [txResultOf, h1, h2, h3 rfl]

theorem finishFr_execResult (e : Env) (spec floorGas refund : Nat) (res : Interp.ChildResult) (w : World) :
    finishFr e spec floorGas refund (execResult e res) w = finish e spec floorGas refund e.tx.to.isNone res w := by
  rw [EvmInst.finish_eq]
  unfold finishFr
  have hgas : (execResult e res).interpreterResult.gas = EvmInst.lastFrameGas e res := by
    unfold execResult frameResultOf
    cases e.tx.to.isNone <;> rfl
  rw [hgas]
  have hout : ∀ gas ids store, EvmInst.output e.tx.to.isNone (childOfFrameResult (execResult e res)) gas ids store =
      EvmInst.output e.tx.to.isNone res gas ids store := by
    intro gas ids store
    apply output_congr
    · unfold execResult frameResultOf
      cases e.tx.to.isNone <;> exact ofIR_toIR _
    · unfold execResult frameResultOf
      cases e.tx.to.isNone <;> rfl
    · intro hc
      unfold execResult frameResultOf
      rw [hc]; rfl
  simp only [hout]

/-! ## the transaction around an execution part -/

/-- how the execution part is run: first input and context to the `FrameResult` and the context (`none`: out of fuel) -/
abbrev Runner := Cfg → Nat → InspectorWrap.FirstInput (evmTy K) → ECtx → Option (ARes (FrameResult × ECtx))

/-- `transact_preverified_inner` after validation, the execution part done by `run` -/
def executeVia (run : Runner) (e : Env) (spec initialGas floorGas : Nat) (w : World) :
    Option (R (TxResult × World)) :=
  match deductCaller e spec (loadAccounts e spec w) with
  | .error err => some (.error err)
  | .ok w =>
    match applyAuthList e spec w with
    | .error err => some (.error err)
    | .ok (w, refund) =>
      match run (e.toCfg spec) e.tx.gasLimit (firstInputOf e (EvmInst.firstGasLimit e initialGas))
          { w := w, err := none } with
      | none => none
      | some (.err err) => some (.error err)
      | some .panic => some (.error (.panic "frame machine"))
      | some (.ok (fr, c)) => some (finishFr e spec floorGas refund fr c.w)

/-- `Evm::transact`, the execution part done by `run` -/
def transactVia (run : Runner) (w : World) (e : Env) (spec : Nat) : Option (R (Outcome × World)) :=
  match preverify w e (GasCalc.canon spec) with
  | .error err => some (.error err)
  | .ok none => some (.ok (.rejected, w))
  | .ok (some (w', initialGas, floorGas)) =>
    match executeVia run e (GasCalc.canon spec) initialGas floorGas w' with
    | none => none
    | some (.error err) => some (.error err)
    | some (.ok (r, w'')) => some (.ok (.executed r, w''))

/-- the execution part on the plain frame machine of the concrete model -/
def plainRun (fuel : Nat) : Runner :=
  fun cfg lim inp c => (evmMachine journalOps cfg lim).exec fuel inp c

/-- the execution part on the machine `inspector_handle_register` builds from it, started in wrapper state `wst`; the
wrapper state is dropped from the result (`dropW`) -/
def inspectedRun {S : Type} (obs : Nat → Observer (evmTy K) S) (wst : WState (evmTy K) S) (fuel : Nat) : Runner :=
  fun cfg lim inp c => dropW ((wrap (evmOps lim) (obs lim) (evmMachine journalOps cfg lim)).exec fuel inp (c, wst))

/-- `transact_preverified_inner` with the inspector register installed -/
def execInspected {S : Type} (obs : Nat → Observer (evmTy K) S) (wst : WState (evmTy K) S) (fuel : Nat) (e : Env)
    (spec initialGas floorGas : Nat) (w : World) : Option (R (TxResult × World)) :=
  executeVia (inspectedRun obs wst fuel) e spec initialGas floorGas w

/-- `Evm::transact` on the plain abstract frame machine -/
def transactAbs (fuel : Nat) (w : World) (e : Env) (spec : Nat) : Option (R (Outcome × World)) :=
  transactVia (plainRun fuel) w e spec

/-- `Evm::transact` with the inspector register installed: inspector `obs` (it may depend on `env.tx.gas_limit` through
`EnvOps`, as the tracer does), wrapper state `wst` -/
def transactInspected {S : Type} (obs : Nat → Observer (evmTy K) S) (wst : WState (evmTy K) S) (fuel : Nat)
    (w : World) (e : Env) (spec : Nat) : Option (R (Outcome × World)) :=
  transactVia (inspectedRun obs wst fuel) w e spec

/-! ## C28 on the concrete model: the inspected transaction is the plain abstract one, for every fuel -/

/-- for an inspector observing up to `rel` that the machine respects: same run, every fuel, every wrapper state -/
theorem inspectedRun_eq_plainRun {S : Type} {rel : ORel} (obs : Nat → Observer (evmTy K) S)
    (hobs : ∀ lim, Observing (obs lim) rel)
    (hr : ∀ cfg lim, Respects (evmMachine journalOps cfg lim) rel) (wst : WState (evmTy K) S) (fuel : Nat) :
    inspectedRun obs wst fuel = plainRun fuel := by
  funext cfg lim inp c
  exact Revm.Props.C28.inspected_eq_plain_mod (hobs lim) (evmOps lim) (evmMachine journalOps cfg lim) (hr cfg lim) fuel
    inp c wst

theorem transactInspected_eq_abs {S : Type} {rel : ORel} (obs : Nat → Observer (evmTy K) S)
    (hobs : ∀ lim, Observing (obs lim) rel) (hr : ∀ cfg lim, Respects (evmMachine journalOps cfg lim) rel)
    (wst : WState (evmTy K) S) (fuel : Nat) (w : World) (e : Env) (spec : Nat) :
    transactInspected obs wst fuel w e spec = transactAbs fuel w e spec := by
  unfold transactInspected transactAbs
  rw [inspectedRun_eq_plainRun obs hobs hr wst fuel]

/-- the three inspectors of the code base, on the frame machine of the whole-EVM model: for EVERY fuel, world,
environment, spec and leftover wrapper state the inspected transaction is the plain one -/
theorem three_inspectors_invisible_evm (fuel : Nat) (w : World) (e : Env) (spec : Nat) :
    (∀ wst, transactInspected (fun _ => InspectorWrap.noop (evmTy K)) wst fuel w e spec = transactAbs fuel w e spec) ∧
    (∀ wst, transactInspected (fun _ => InspectorWrap.gasInspector (evmTy K)) wst fuel w e spec =
      transactAbs fuel w e spec) ∧
    (∀ wst, transactInspected (fun lim => InspectorWrap.tracer3155 (evmTy K) (evmOps lim)) wst fuel w e spec =
      transactAbs fuel w e spec) :=
  ⟨fun wst => transactInspected_eq_abs _ (fun _ => Revm.Props.C28.noop_observing _)
      (fun _ _ => Revm.Proofs.InspectorWrap.respects_eq _) wst fuel w e spec,
   fun wst => transactInspected_eq_abs _ (fun _ => Revm.Props.C28.gas_inspector_observing _)
      (fun cfg lim => evmMachine_respects journalOps cfg lim) wst fuel w e spec,
   fun wst => transactInspected_eq_abs _ (fun lim => Revm.Props.C28.tracer_observing _ (evmOps lim))
      (fun cfg lim => evmMachine_respects journalOps cfg lim) wst fuel w e spec⟩

/-! ## every completed `Evm.transact` run is a run of the abstract machine -/

theorem executeVia_of_execute (fuel : Nat) (e : Env) (spec initialGas floorGas : Nat) (w : World)
    (r : TxResult) (w' : World) (h : execute journalOps fuel e spec initialGas floorGas w = .ok (r, w')) :
    ∃ N, ∀ N', N ≤ N' → executeVia (plainRun N') e spec initialGas floorGas w = some (.ok (r, w')) := by
  rw [EvmInst.execute_eq] at h
  simp only [bind, Except.bind] at h
  unfold executeVia
  cases hd : deductCaller e spec (loadAccounts e spec w) with
  | error err => rw [hd] at h; simp at h
  | ok w1 =>
    rw [hd] at h
    simp only at h ⊢
    cases ha : applyAuthList e spec w1 with
    | error err => rw [ha] at h; simp at h
    | ok p =>
      obtain ⟨w2, refund⟩ := p
      rw [ha] at h
      simp only at h ⊢
      cases hf : EvmInst.firstFrame journalOps (e.toCfg spec) e (EvmInst.firstGasLimit e initialGas) w2 with
      | error err => rw [hf] at h; simp at h
      | ok q =>
        obtain ⟨first, w3⟩ := q
        rw [hf] at h
        simp only at h
        cases hrun : runFirst journalOps (e.toCfg spec) fuel first w3 with
        | error err => rw [hrun] at h; simp at h
        | ok x =>
          obtain ⟨res, w4⟩ := x
          rw [hrun] at h
          simp only at h
          obtain ⟨N, hN⟩ := exec_sim journalOps (e.toCfg spec) instrNC e (EvmInst.firstGasLimit e initialGas) w2 w3 first hf
            fuel res w4 hrun
          refine ⟨N, fun N' hle => ?_⟩
          simp only [plainRun]
          rw [hN N' hle]
          simp only
          rw [finishFr_execResult, h]

/-- **simulation, whole transaction**: a completed run of `Evm.transact` is a run of the transaction over the abstract
frame machine, on every large enough fuel, with the same outcome and the same world -/
theorem transactAbs_of_transact (fuel : Nat) (w : World) (e : Env) (spec : Nat) (o : Outcome)
    (w' : World) (h : transact fuel w e spec = .ok (o, w')) :
    ∃ N, ∀ N', N ≤ N' → transactAbs N' w e spec = some (.ok (o, w')) := by
  unfold transact transactWith at h
  simp only [bind, Except.bind] at h
  unfold transactAbs transactVia
  cases hp : preverify w e (GasCalc.canon spec) with
  | error err => rw [hp] at h; simp at h
  | ok v =>
    rw [hp] at h
    cases v with
    | none =>
      simp only [pure, Except.pure, Except.ok.injEq, Prod.mk.injEq] at h
      obtain ⟨rfl, rfl⟩ := h
      exact ⟨0, fun _ _ => rfl⟩
    | some t =>
      obtain ⟨w1, ig, fg⟩ := t
      simp only at h ⊢
      cases hx : execute journalOps fuel e (GasCalc.canon spec) ig fg w1 with
      | error err => rw [hx] at h; simp at h
      | ok y =>
        obtain ⟨r, w2⟩ := y
        rw [hx] at h
        simp only [pure, Except.pure, Except.ok.injEq, Prod.mk.injEq] at h
        obtain ⟨rfl, rfl⟩ := h
        obtain ⟨N, hN⟩ := executeVia_of_execute fuel e (GasCalc.canon spec) ig fg w1 r w2 hx
        exact ⟨N, fun N' hle => by rw [hN N' hle]⟩

/-! ## the headline -/

/-- **C28 for `Evm.transact`**: whenever the whole-EVM model completes a transaction with `(o, w')`, the same
transaction run with the inspector register installed — inspector `NoOpInspector`, `GasInspector` or `TracerEip3155`,
from ANY wrapper state (inspector state, leftover input stacks) — completes with the same `(o, w')` on every large
enough fuel. -/
theorem evm_inspected_eq_plain (fuel : Nat) (w : World) (e : Env) (spec : Nat) (o : Outcome)
    (w' : World) (h : transact fuel w e spec = .ok (o, w')) :
    ∃ N, ∀ N', N ≤ N' →
      (∀ wst, transactInspected (fun _ => InspectorWrap.noop (evmTy K)) wst N' w e spec = some (.ok (o, w'))) ∧
      (∀ wst, transactInspected (fun _ => InspectorWrap.gasInspector (evmTy K)) wst N' w e spec =
        some (.ok (o, w'))) ∧
      (∀ wst, transactInspected (fun lim => InspectorWrap.tracer3155 (evmTy K) (evmOps lim)) wst N' w e spec =
        some (.ok (o, w'))) := by
  obtain ⟨N, hN⟩ := transactAbs_of_transact fuel w e spec o w' h
  refine ⟨N, fun N' hle => ?_⟩
  obtain ⟨h1, h2, h3⟩ := three_inspectors_invisible_evm N' w e spec
  exact ⟨fun wst => (h1 wst).trans (hN N' hle), fun wst => (h2 wst).trans (hN N' hle),
    fun wst => (h3 wst).trans (hN N' hle)⟩

/-! ## the execution part alone (any subroutine discipline) -/

/-- **the concrete model is an instance of the abstract frame machine**: first frame + `run_the_loop` +
`last_frame_return` of the whole-EVM model over ANY subroutine discipline `C` is `Machine.exec` of `evmMachine C cfg`, on
every large enough fuel -/
theorem evm_exec_sim {κ : Type} (C : CpOps κ) (cfg : Cfg) (e : Env) (gl : Nat) (w0 w1 : World)
    (first : FrameOrResult κ) (hfirst : EvmInst.firstFrame C cfg e gl w0 = .ok (first, w1)) (fuel : Nat)
    (res : Interp.ChildResult) (w' : World) (hrun : runFirst C cfg fuel first w1 = .ok (res, w')) :
    ∃ N, ∀ N', N ≤ N' →
      (evmMachine C cfg e.tx.gasLimit).exec N' (firstInputOf e gl) { w := w0, err := none } =
        some (.ok (execResult e res, { w := w', err := none })) :=
  exec_sim C cfg instrNC e gl w0 w1 first hfirst fuel res w' hrun

/-! ## the hypotheses are satisfiable -/

section Examples

/-- an account `0xaa` with funds and a contract `0xcc` whose code is `PUSH1 1; PUSH1 2; ADD; STOP` (stored under the
code-store key 77) -/
def exWorld : World :=
  { js := Journal.JState.new 17 (fun _ => false),
    codes := [(77, [0x60, 0x01, 0x60, 0x02, 0x01, 0x00])],
    pre := [{ addr := 0xaa, balance := 10^18, nonce := 0, code := [], codeHash := KECCAK_EMPTY, storage := [] },
            { addr := 0xcc, balance := 0, nonce := 1, code := [0x60, 0x01, 0x60, 0x02, 0x01, 0x00], codeHash := 77,
              storage := [] }] }

def exEnv : Env :=
  { block := { gasLimit := 30000000, basefee := 7, prevrandao := some 0, blobGasPrice := some 1 },
    tx := { caller := 0xaa, gasLimit := 50000, gasPrice := 10, to := some 0xcc, value := 5, nonce := some 0 } }

-- a completed transaction that really runs a frame (four instructions of the contract at `0xcc`)
example : ∃ r, transact 10 exWorld exEnv 17 = .ok r := Proofs.Evm.exists_of_isOk (by decide +kernel)
-- … and one that is answered by an early result (plain transfer to an account without code)
example : ∃ r, transact 10 exWorld { exEnv with tx := { exEnv.tx with to := some 0xbb } } 17 = .ok r :=
  Proofs.Evm.exists_of_isOk (by decide +kernel)
/-- "executed, ended by STOP, 21009 gas used" (21000 + three `VERYLOW` instructions) -/
def exCheck : Option (R (Outcome × World)) → Bool
  | some (.ok (.executed r, _)) => r.reason == .Stop && r.gasUsed == 21009
  | _ => false
-- the concrete model, the plain abstract machine and the machine inspected by the EIP-3155 tracer (empty input stacks)
-- all complete the first transaction, on the same fuel, with that result
example : exCheck (some (transact 10 exWorld exEnv 17)) = true := by decide +kernel
example : exCheck (transactAbs 10 exWorld exEnv 17) = true := by decide +kernel
example : exCheck (transactInspected (fun lim => InspectorWrap.tracer3155 (evmTy K) (evmOps lim))
    { obs := InspectorWrap.Tracer.new, callStack := [], createStack := [], eofStack := [] } 10 exWorld exEnv 17) = true := by
  decide +kernel
-- an error-class outcome whose gas fields differ from those of another: the blindness lemmas are not void
example : isErr Interp.IResult.OutOfGas = true ∧ isErr Interp.IResult.StackOverflow = true ∧
    isErr Interp.IResult.Revert = false ∧ isErr Interp.IResult.Return = false := by decide

end Examples

end Revm.Proofs.EvmInstWrap
