import Revm.Proofs.EvmLinkEther
import Revm.Proofs.EvmLinkDepth
/-! LINK, ether conservation (C08), part 3: `create_account_checkpoint`, `set_code`, `inc_nonce`, the code store, and
every `Host` answer preserve the ledger invariant. -/
set_option linter.unusedSimpArgs false
set_option linter.unusedVariables false
namespace Revm.Proofs.EvmLink
open Revm Revm.Model Revm.Model.Evm
open Revm.Spec.JournalAbs (Op Run step)
open Revm.Spec.Ether Revm.Proofs.Ether

section ops
variable {L : List Nat} {B : Nat → Nat} (hn : L.Nodup) (hB : sumOver L B < W)
include hn hB

/-- `create_account_checkpoint` with an endowment the caller can pay (C08 `Funded`), both accounts loaded -/
theorem pres_createCheckpoint {w w1 : World} {caller a : Nat} {hs : Bool} {v spec : Nat}
    {r : Except Journal.CreateErr Journal.Checkpoint}
    (h : journalOps.createCheckpoint w caller a hs v spec = .ok (w1, r))
    (hfund : v ≤ bal w.db w.js caller) (hpc : w.js.state caller ≠ none) (hpa : w.js.state a ≠ none) :
    Pres L B w w1 := by
  simp only [journalOps] at h
  obtain ⟨⟨js, r'⟩, h1, h2⟩ := bind_ok h
  simp only [pure, Except.pure, Except.ok.injEq, Prod.mk.injEq] at h2
  obtain ⟨rfl, rfl⟩ := h2
  have t1 := Proofs.EvmHost.ofOpt_ok h1
  obtain ⟨k, _⟩ := kle_createAccountCheckpoint t1
  have hnamed : ∀ x ∈ opAddrs (.create caller a hs v spec), js.state x ≠ none := by
    intro x hx
    simp only [opAddrs, List.mem_cons, List.mem_singleton, List.not_mem_nil, or_false] at hx
    rcases hx with rfl | rfl
    · exact k _ hpc
    · exact k _ hpa
  cases r' with
  | ok cp =>
    exact Pres.of_step hn hB (op := .create caller a hs v spec) (cps := []) (cps' := [] ++ [cp])
      (by simp only [step, t1]) rfl k hnamed (fun _ => hfund)
      (NGrow.of_js (keys_createAccountCheckpoint t1))
  | error e =>
    exact Pres.of_step hn hB (op := .create caller a hs v spec) (cps := []) (cps' := [])
      (by simp only [step, t1]) rfl k hnamed (fun _ => hfund)
      (NGrow.of_js (keys_createAccountCheckpoint t1))

theorem pres_setCode {w w1 : World} {a hash : Nat} (h : journalOps.setCode w a hash = .ok w1) : Pres L B w w1 := by
  simp only [journalOps] at h
  obtain ⟨js, h1, h2⟩ := bind_ok h
  simp only [pure, Except.pure, Except.ok.injEq] at h2
  subst h2
  have t1 := Proofs.EvmHost.ofOpt_ok h1
  exact Pres.of_step hn hB (op := .setCode a hash) (cps := []) (cps' := [])
    (by simp only [step, t1, Option.map_some]) rfl (kle_setCode t1) (fun x hx => nomatch hx) (fun _ => trivial)
    (NGrow.of_js (keys_setCode t1))

theorem pres_incNonce {w : World} {a : Nat} {js : Journal.JState} {r : Option Nat}
    (h : ofOpt "inc_nonce" (Journal.incNonce w.js a) = .ok (js, r)) : Pres L B w { w with js := js } := by
  have t1 := Proofs.EvmHost.ofOpt_ok h
  exact Pres.of_step hn hB (op := .incNonce a) (cps := []) (cps' := [])
    (by simp only [step, t1, Option.map_some]) rfl (kle_incNonce t1) (fun x hx => nomatch hx) (fun _ => trivial)
    (NGrow.of_js (keys_incNonce t1))

omit hn hB in
theorem addCode_db_basic (w : World) (h : Nat) (c : List Nat) : (w.addCode h c).db.basic = w.db.basic := by
  unfold World.addCode
  split
  · rfl
  · split <;> rfl

omit hn hB in
theorem pres_addCode (w : World) (h : Nat) (c : List Nat) : Pres L B w (w.addCode h c) :=
  Pres.of_same (addCode_db_basic w h c) (addCode_js w h c) (ng_addCode w h c)

/-- **every `Host` answer preserves the ledger invariant** -/
theorem pres_answer {he : HostEnv} {w w1 : World} {op : Interp.HostOp} {resp : Interp.HostResp}
    (h : answer he w op = .ok (resp, w1)) : Pres L B w w1 := by
  cases op with
  | keccak d =>
    simp only [answer, pure, Except.pure, Except.ok.injEq, Prod.mk.injEq] at h
    rw [← h.2]; exact Pres.refl _ _ _
  | blockHash n =>
    simp only [answer, pure, Except.pure, Except.ok.injEq, Prod.mk.injEq] at h
    rw [← h.2]; exact Pres.refl _ _ _
  | tload a k =>
    simp only [answer, pure, Except.pure, Except.ok.injEq, Prod.mk.injEq] at h
    rw [← h.2]; exact Pres.refl _ _ _
  | create2Address d sl c =>
    simp only [answer, pure, Except.pure, Except.ok.injEq, Prod.mk.injEq] at h
    rw [← h.2]; exact Pres.refl _ _ _
  | balance a =>
    simp only [answer] at h
    obtain ⟨⟨w2, c⟩, h1, h⟩ := bind_ok h
    obtain ⟨acc, _, h⟩ := bind_ok h
    simp only [pure, Except.pure, Except.ok.injEq, Prod.mk.injEq] at h
    rw [← h.2]; exact (pres_loadAccount hn hB h1).1
  | code a =>
    simp only [answer] at h
    obtain ⟨⟨w2, c⟩, h1, h⟩ := bind_ok h
    obtain ⟨acc, _, h⟩ := bind_ok h
    obtain ⟨hh, _, h⟩ := bind_ok h
    obtain ⟨bytes, _, h⟩ := bind_ok h
    simp only [pure, Except.pure, Except.ok.injEq, Prod.mk.injEq] at h
    rw [← h.2]; exact (pres_loadCode hn hB h1).1
  | codeHash a =>
    simp only [answer] at h
    obtain ⟨⟨w2, c⟩, h1, h⟩ := bind_ok h
    obtain ⟨acc, _, h⟩ := bind_ok h
    split at h <;> simp only [pure, Except.pure, Except.ok.injEq, Prod.mk.injEq] at h <;>
      (rw [← h.2]; exact (pres_loadCode hn hB h1).1)
  | loadAccountDelegated a =>
    simp only [answer] at h
    obtain ⟨⟨w2, x⟩, h1, h⟩ := bind_ok h
    simp only [pure, Except.pure, Except.ok.injEq, Prod.mk.injEq] at h
    rw [← h.2]; exact pres_loadAccountDelegated hn hB h1
  | sload a k =>
    simp only [answer] at h
    obtain ⟨⟨js, v, c⟩, h1, h⟩ := bind_ok h
    simp only [pure, Except.pure, Except.ok.injEq, Prod.mk.injEq] at h
    rw [← h.2]
    have t1 := Proofs.EvmHost.ofOpt_ok h1
    exact Pres.of_step hn hB (op := .sload a k) (cps := []) (cps' := [])
      (by simp only [step, t1, Option.map_some, Proofs.EvmHost.noteSlot_js]) (by rw [noteSlot_db]; rfl)
      (by rw [Proofs.EvmHost.noteSlot_js]; exact kle_sload t1) (fun x hx => nomatch hx) (fun _ => trivial)
      ((NGrow.of_js (keys_sload t1)).noteSlot a k)
  | sstore a k v =>
    simp only [answer] at h
    obtain ⟨⟨js, o, p, n, c⟩, h1, h⟩ := bind_ok h
    simp only [pure, Except.pure, Except.ok.injEq, Prod.mk.injEq] at h
    rw [← h.2]
    have t1 := Proofs.EvmHost.ofOpt_ok h1
    exact Pres.of_step hn hB (op := .sstore a k v) (cps := []) (cps' := [])
      (by simp only [step, t1, Option.map_some, Proofs.EvmHost.noteSlot_js]) (by rw [noteSlot_db]; rfl)
      (by rw [Proofs.EvmHost.noteSlot_js]; exact kle_sstore t1) (fun x hx => nomatch hx) (fun _ => trivial)
      ((NGrow.of_js (keys_sstore t1)).noteSlot a k)
  | tstore a k v =>
    simp only [answer] at h
    obtain ⟨js, h1, h⟩ := bind_ok h
    simp only [pure, Except.pure, Except.ok.injEq, Prod.mk.injEq] at h
    rw [← h.2]
    have t1 := Proofs.EvmHost.ofOpt_ok h1
    exact Pres.of_step hn hB (op := .tstore a k v) (cps := []) (cps' := [])
      (by simp only [step, t1, Option.map_some]) rfl (kle_tstore t1) (fun x hx => nomatch hx) (fun _ => trivial)
      (NGrow.of_js (keys_tstore t1))
  | log a t d =>
    simp only [answer, pure, Except.pure, Except.ok.injEq, Prod.mk.injEq] at h
    rw [← h.2]
    exact Pres.of_step hn hB (op := .log w.logs.length) (cps := []) (cps' := []) (by simp only [step]) rfl
      (KLe.of_state_eq rfl) (fun x hx => nomatch hx) (fun _ => trivial)
      (NGrow.of_keys (l := []) (Keys.of_state_eq rfl) (fun _ hx => hx) (fun x hx => nomatch hx))
  | selfdestruct a t =>
    simp only [answer] at h
    obtain ⟨⟨js, hv, te, pd, c⟩, h1, h⟩ := bind_ok h
    simp only [pure, Except.pure, Except.ok.injEq, Prod.mk.injEq] at h
    rw [← h.2]
    have t1 := Proofs.EvmHost.ofOpt_ok h1
    obtain ⟨k, pa, pt⟩ := kle_selfdestruct t1
    refine Pres.of_step hn hB (op := .selfdestruct a t) (cps := []) (cps' := [])
      (by simp only [step, t1, Option.map_some, Proofs.EvmHost.noteAddr_js]) (by rw [Proofs.EvmHost.noteAddr_db]; rfl)
      (by rw [Proofs.EvmHost.noteAddr_js]; exact k) ?_ (fun _ => trivial)
      (NGrow.of_js_note (keys_selfdestruct t1))
    intro x hx
    rw [Proofs.EvmHost.noteAddr_js]
    simp only [opAddrs, List.mem_cons, List.mem_singleton, List.not_mem_nil, or_false] at hx
    rcases hx with rfl | rfl
    · exact pa
    · exact pt

end ops
end Revm.Proofs.EvmLink
