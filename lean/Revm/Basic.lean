def hello := "world"
