import Revm.Util.Word
/-! Code-shaped model of `crates/interpreter/src/interpreter/stack.rs` (`Stack`, `STACK_LIMIT`).

The state is the `Vec<U256>` itself: a `List Nat` whose index 0 is the *bottom* of the stack and
whose last element is the top (exactly the layout of `Stack::data`). Every function returns the new
buffer *and* the result, so "an error leaves the stack unchanged" is a theorem and not a typing
accident. The index arithmetic of the Rust (`len - no_from_top - 1`, `ptr.sub(n)`, `top.sub(n + m)`)
is kept; a safe-Rust index that would be out of bounds is the explicit result `panic`, a raw-pointer
access outside `0..len` (or a violated `assume!`, which is `unreachable_unchecked` in release builds)
is the explicit result `ub`. `Proofs/Stack.lean` shows that neither can happen when the documented
preconditions (`n > 0` for `dup`, `m > 0` for `exchange`/`swap`) hold.

The `pop_unsafe` family (`pop_unsafe`, `pop2_unsafe` … `pop5_unsafe`, `top_unsafe`, `pop_top_unsafe`,
`pop2_top_unsafe`) is modelled as used by the `pop!` / `pop_top!` macros of `instructions/macros.rs`
(`popMacro`, `popTopMacro`): the length check, then the unchecked pops, which are `ub` on an empty
buffer.

`push_slice` is modelled at the level the Rust works on: the destination is an array of `u64` limbs
(four little-endian limbs per word), filled from `chunks_exact(32)` / `rchunks_exact(8)`, the short
leading limb is zero-extended through `tmp`, and the limbs of the last word that were not written
are zero-filled. -/
namespace Revm.Model.Stack
open Revm

/-- `STACK_LIMIT` -/
def STACK_LIMIT : Nat := 1024

/-- the two `InstructionResult`s the stack produces -/
inductive Err | StackOverflow | StackUnderflow
  deriving DecidableEq, Repr

/-- result of one stack call -/
inductive Res (α : Type) where
  | ok (v : α)
  | err (e : Err)
  /-- a safe-Rust bounds check would fire -/
  | panic
  /-- `assume!` violated / raw pointer outside the initialised part of the buffer -/
  | ub
  deriving DecidableEq, Repr

/-- `Stack::new()` -/
def new : List Nat := []

/-- `Stack::len` -/
def len (d : List Nat) : Nat := d.length

/-- `Stack::pop`: `self.data.pop().ok_or(StackUnderflow)` -/
def pop (d : List Nat) : List Nat × Res Nat :=
  match d.getLast? with
  | none => (d, .err .StackUnderflow)
  | some v => (d.dropLast, .ok v)

/-- `Stack::push` -/
def push (d : List Nat) (value : Nat) : List Nat × Res Unit :=
  if d.length = STACK_LIMIT then (d, .err .StackOverflow)
  else (d ++ [value], .ok ())

/-- `Stack::peek`: `if len > no_from_top { Ok(data[len - no_from_top - 1]) } else { Err(Underflow) }` -/
def peek (d : List Nat) (noFromTop : Nat) : List Nat × Res Nat :=
  if d.length > noFromTop then
    match d[d.length - noFromTop - 1]? with
    | some v => (d, .ok v)
    | none => (d, .panic)
  else (d, .err .StackUnderflow)

/-- `Stack::dup(n)`: copies `*(ptr.add(len).sub(n))` to `*ptr.add(len)` and `set_len(len + 1)` -/
def dup (d : List Nat) (n : Nat) : List Nat × Res Unit :=
  if n = 0 then (d, .ub)                                  -- assume!(n > 0)
  else
    let len := d.length
    if len < n then (d, .err .StackUnderflow)
    else if len + 1 > STACK_LIMIT then (d, .err .StackOverflow)
    else
      match d[len - n]? with
      | some v => (d ++ [v], .ok ())
      | none => (d, .ub)

/-- `Stack::exchange(n, m)`: swaps `*(top.sub(n))` and `*(top.sub(n + m))`, `top = ptr.add(len - 1)` -/
def exchange (d : List Nat) (n m : Nat) : List Nat × Res Unit :=
  if m = 0 then (d, .ub)                                  -- assume!(m > 0)
  else if n + m ≥ U64 then (d, .ub)                       -- `n + m` wraps in `usize` (release build)
  else
    let len := d.length
    let nm := n + m
    if nm ≥ len then (d, .err .StackUnderflow)
    else
      let i := len - 1 - n
      let j := len - 1 - nm
      match d[i]?, d[j]? with
      | some a, some b => ((d.set i b).set j a, .ok ())
      | _, _ => (d, .ub)

/-- `Stack::swap(n)` = `exchange(0, n)` -/
def swap (d : List Nat) (n : Nat) : List Nat × Res Unit := exchange d 0 n

/-- `Stack::set` -/
def set (d : List Nat) (noFromTop : Nat) (val : Nat) : List Nat × Res Unit :=
  if d.length > noFromTop then
    let len := d.length
    if len - noFromTop - 1 < len then (d.set (len - noFromTop - 1) val, .ok ())
    else (d, .panic)
  else (d, .err .StackUnderflow)

/-! ### the `pop_unsafe` family, as used through the `pop!` / `pop_top!` macros -/

/-- `Stack::pop_unsafe`: `self.data.pop().unwrap_unchecked()` -/
def popUnsafe (d : List Nat) : List Nat × Res Nat :=
  match d.getLast? with
  | none => (d, .ub)
  | some v => (d.dropLast, .ok v)

/-- `k` consecutive `pop_unsafe()` calls: `pop2_unsafe` … `pop5_unsafe` are exactly this for
`k = 2 … 5`; the values are returned in the order they were popped (`pop1` first) -/
def popNUnsafe : Nat → List Nat → List Nat × Res (List Nat)
  | 0, d => (d, .ok [])
  | k + 1, d =>
    match popUnsafe d with
    | (d', .ok v) =>
      (match popNUnsafe k d' with
       | (d'', .ok vs) => (d'', .ok (v :: vs))
       | (d'', _) => (d'', .ub))
    | (d', _) => (d', .ub)

/-- the `pop!` macro with `k` names (`instructions/macros.rs`): length check, then `pop<k>_unsafe` -/
def popMacro (d : List Nat) (k : Nat) : List Nat × Res (List Nat) :=
  if d.length < k then (d, .err .StackUnderflow) else popNUnsafe k d

/-- the `pop_top!` macro with `k` names, `k ≥ 1`: length check, then `top_unsafe` (k = 1),
`pop_top_unsafe` (k = 2) or `pop2_top_unsafe` (k = 3): pops `k - 1` words and hands out `&mut` to the
new top (`data.get_unchecked_mut(len - 1)`), through which the instruction stores its result
`newTop`. Returns the popped words and the old value of the top. -/
def popTopMacro (d : List Nat) (k : Nat) (newTop : Nat) : List Nat × Res (List Nat × Nat) :=
  if d.length < k then (d, .err .StackUnderflow)
  else
    match popNUnsafe (k - 1) d with
    | (d', .ok vs) =>
      if d'.length = 0 then (d', .ub)                      -- `len - 1` wraps
      else
        (match d'[d'.length - 1]? with
         | some t => (d'.set (d'.length - 1) newTop, .ok (vs, t))
         | none => (d', .ub))
    | (d', _) => (d', .ub)

/-! ### byte strings -/

/-- big-endian value of a byte string (`u64::from_be_bytes`, `U256::from_be_bytes`) -/
def beVal (bs : List Nat) : Nat := bs.foldl (fun a b => a * 256 + b) 0

/-- value of a little-endian `u64` limb array (ruint's representation of `U256`) -/
def leVal : List Nat → Nat
  | [] => 0
  | l :: ls => l + U64 * leVal ls

/-- `Stack::push_b256`: `self.push(value.into())`; `B256 -> U256` is `from_be_bytes` -/
def pushB256 (d : List Nat) (bytes32 : List Nat) : List Nat × Res Unit := push d (beVal bytes32)

/-- `slice.chunks_exact(32)` with the slice length carried along (`len = bs.length`) -/
def chunksExactGo (len : Nat) (bs : List Nat) : List (List Nat) × List Nat :=
  if _h : len < 32 then ([], bs)
  else
    let r := chunksExactGo (len - 32) (bs.drop 32)
    (bs.take 32 :: r.1, r.2)
termination_by len
decreasing_by omega

/-- `slice.chunks_exact(32)`: the full chunks in order, and `remainder()` -/
def chunksExact32 (bs : List Nat) : List (List Nat) × List Nat := chunksExactGo bs.length bs

/-- `slice.rchunks_exact(8)`: chunks of 8 taken from the *end* (in iteration order: last chunk
first), and `remainder()` = the leading `len % 8` bytes -/
def rchunksExact8 (bs : List Nat) : List (List Nat) × List Nat :=
  if _h : bs.length < 8 then ([], bs)
  else
    let r := rchunksExact8 (bs.take (bs.length - 8))
    (bs.drop (bs.length - 8) :: r.1, r.2)
termination_by bs.length
decreasing_by simp only [List.length_take]; omega

/-- the `u64` limbs the inner loop `for l in word.rchunks_exact(8)` writes for one chunk -/
def limbsOfChunk (w : List Nat) : List Nat := (rchunksExact8 w).1.map beVal

/-- reading the limb buffer back as `U256`s (4 limbs each); `none` if the limb count is not a
multiple of four, i.e. if part of the last word was never written -/
def wordsOfLimbs : List Nat → Option (List Nat)
  | [] => some []
  | a :: b :: c :: e :: rest => (wordsOfLimbs rest).map (leVal [a, b, c, e] :: ·)
  | _ => none

/-- the tail of `push_slice`, after `if partial_last_word.is_empty() { return Ok(()) }`:
`limbs` = the limbs written so far (`i = limbs.length`), result = all limbs written -/
def writePartialLastWord (limbs : List Nat) (partialLastWord : List Nat) : List Nat :=
  -- write limbs of partial last word
  let ls := rchunksExact8 partialLastWord
  let partialLastLimb := ls.2
  let limbs := limbs ++ ls.1.map beVal
  -- write partial last limb by padding with zeros (`tmp[8 - len..].copy_from_slice(limb)`)
  let limbs :=
    if !partialLastLimb.isEmpty then
      limbs ++ [beVal (List.replicate (8 - partialLastLimb.length) 0 ++ partialLastLimb)]
    else limbs
  -- zero out upper limbs of last word: `m = i % 4; if m != 0 { write_bytes(0, 4 - m) }`
  let m := limbs.length % 4
  if m ≠ 0 then limbs ++ List.replicate (4 - m) 0 else limbs

/-- `Stack::push_slice` -/
def pushSlice (d : List Nat) (slice : List Nat) : List Nat × Res Unit :=
  if slice.isEmpty then (d, .ok ())
  else
    let nWords := (slice.length + 31) / 32
    let newLen := d.length + nWords
    if newLen > STACK_LIMIT then (d, .err .StackOverflow)
    else
      -- write full words
      let words := chunksExact32 slice
      let partialLastWord := words.2
      let limbs := words.1.flatMap limbsOfChunk
      let limbs :=
        if partialLastWord.isEmpty then limbs else writePartialLastWord limbs partialLastWord
      -- `set_len(new_len)`: the buffer now has `newLen` elements; the new ones are the limb array
      -- read as words. Fewer limbs than `4 * nWords` would expose uninitialised memory.
      match wordsOfLimbs limbs with
      | some ws => if ws.length = nWords then (d ++ ws, .ok ()) else (d, .ub)
      | none => (d, .ub)

/-! ### operation sequences -/

/-- one call of the public API -/
inductive Op where
  | push (v : Nat)
  | pushB256 (bytes32 : List Nat)
  | pop
  | peek (n : Nat)
  | dup (n : Nat)
  | swap (n : Nat)
  | exchange (n m : Nat)
  | set (n : Nat) (v : Nat)
  | pushSlice (bs : List Nat)
  /-- `pop!` with `k` names -/
  | popN (k : Nat)
  /-- `pop_top!` with `k` names, the instruction then writes `v` through the returned reference -/
  | popTop (k : Nat) (v : Nat)
  deriving DecidableEq, Repr

/-- what a call returns, with the payload of `pop`/`peek` -/
inductive Out where
  | unit
  | word (v : Nat)
  /-- the words popped by `pop!`, first popped first -/
  | words (vs : List Nat)
  /-- the words popped by `pop_top!` and the old value of the new top -/
  | wordsTop (vs : List Nat) (t : Nat)
  | err (e : Err)
  | panic
  | ub
  deriving DecidableEq, Repr

/-- the call reported an error (or, outside the preconditions, would panic / be undefined) -/
def Out.failed : Out → Bool
  | .err _ | .panic | .ub => true
  | _ => false

def Out.ofUnit : Res Unit → Out
  | .ok _ => .unit | .err e => .err e | .panic => .panic | .ub => .ub
def Out.ofWord : Res Nat → Out
  | .ok v => .word v | .err e => .err e | .panic => .panic | .ub => .ub

def Out.ofWords : Res (List Nat) → Out
  | .ok vs => .words vs | .err e => .err e | .panic => .panic | .ub => .ub
def Out.ofWordsTop : Res (List Nat × Nat) → Out
  | .ok (vs, t) => .wordsTop vs t | .err e => .err e | .panic => .panic | .ub => .ub

def step (d : List Nat) : Op → List Nat × Out
  | .push v => let r := push d v; (r.1, .ofUnit r.2)
  | .pushB256 bs => let r := pushB256 d bs; (r.1, .ofUnit r.2)
  | .pop => let r := pop d; (r.1, .ofWord r.2)
  | .peek n => let r := peek d n; (r.1, .ofWord r.2)
  | .dup n => let r := dup d n; (r.1, .ofUnit r.2)
  | .swap n => let r := swap d n; (r.1, .ofUnit r.2)
  | .exchange n m => let r := exchange d n m; (r.1, .ofUnit r.2)
  | .set n v => let r := set d n v; (r.1, .ofUnit r.2)
  | .pushSlice bs => let r := pushSlice d bs; (r.1, .ofUnit r.2)
  | .popN k => let r := popMacro d k; (r.1, .ofWords r.2)
  | .popTop k v => let r := popTopMacro d k v; (r.1, .ofWordsTop r.2)

/-- run a sequence of calls, collecting the results (oldest first) -/
def run (d : List Nat) : List Op → List Nat × List Out
  | [] => (d, [])
  | op :: ops =>
    let r := step d op
    let rest := run r.1 ops
    (rest.1, r.2 :: rest.2)

/-- the documented preconditions of the API (`assume!` in the Rust: violating them is a panic in a
debug build and undefined behaviour in a release build), plus `n + m` not wrapping in `usize` -/
def Op.pre : Op → Prop
  | .dup n => 0 < n
  | .swap n => 0 < n ∧ n < U64
  | .exchange n m => 0 < m ∧ n + m < U64
  | .popTop k _ => 0 < k
  | _ => True

/-- payload well-formedness: words are 256-bit, bytes are bytes, a `B256` has 32 bytes -/
def Op.wf : Op → Prop
  | .push v => v < W
  | .set _ v => v < W
  | .popTop _ v => v < W
  | .pushB256 bs => bs.length = 32 ∧ ∀ b ∈ bs, b < 256
  | .pushSlice bs => ∀ b ∈ bs, b < 256
  | _ => True

/-! ### `instructions/stack.rs`: the arguments the opcode handlers pass to the stack -/

/-- the stack call made by a stack opcode (after its gas charge), given its immediate bytes.
`pop` 0x50, `push0` 0x5f, `push<N>` 0x60+N-1, `dup<N>` 0x80+N-1, `swap<N>` 0x90+N-1,
`dupn` 0xe6, `swapn` 0xe7, `exchange` 0xe8 (EOF only). -/
def instrOp (opcode : Nat) (imm : List Nat) : Option Op :=
  if opcode = 0x50 then some .pop
  else if opcode = 0x5f then some (.push 0)
  else if 0x60 ≤ opcode ∧ opcode ≤ 0x7f then some (.pushSlice (imm.take (opcode - 0x5f)))
  else if 0x80 ≤ opcode ∧ opcode ≤ 0x8f then some (.dup (opcode - 0x7f))
  else if 0x90 ≤ opcode ∧ opcode ≤ 0x9f then some (.swap (opcode - 0x8f))
  else match opcode, imm with
    | 0xe6, i :: _ => some (.dup (i + 1))
    | 0xe7, i :: _ => some (.swap (i + 1))
    | 0xe8, i :: _ => some (.exchange (i / 16 + 1) (i % 16 + 1))
    | _, _ => none

/-- number of immediate bytes the handler reads -/
def instrImmLen (opcode : Nat) : Nat :=
  if 0x60 ≤ opcode ∧ opcode ≤ 0x7f then opcode - 0x5f
  else if 0xe6 ≤ opcode ∧ opcode ≤ 0xe8 then 1 else 0

/-- static gas charged before the stack call: `BASE` = 2 for `pop`/`push0`, `VERYLOW` = 3 otherwise -/
def instrGas (opcode : Nat) : Nat := if opcode = 0x50 ∨ opcode = 0x5f then 2 else 3

end Revm.Model.Stack
