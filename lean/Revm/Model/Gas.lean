import Revm.Util.Word
/-! Model of `revm::interpreter::Gas` (crates/interpreter/src/gas.rs), function by function.

`limit`, `remaining` are `u64` (here `Nat`, range carried by `WF`), `refunded` is `i64` (here `Int`,
range carried by `WF`). The harness is built in the release profile (no overflow checks), so the Rust
operators `+=`, `-` on `u64`/`i64` WRAP; every such operator is modelled by the explicit wrapping
operation (`U64ops.wadd`, `U64ops.wsub`, `i64WrapAdd`), `saturating_sub` by truncated subtraction,
`overflowing_sub` by the pair (wrapped difference, borrow flag), and the `as u64` / `as i64` casts by
two's-complement reinterpretation. (In a debug build the same sites panic instead of wrapping.) -/
namespace Revm.Model.Gas
open Revm

def I64MIN : Int := -9223372036854775808
def I64MAX : Int := 9223372036854775807

/-- `x as u64` for an `i64` value `x`: two's-complement reinterpretation -/
def i64AsU64 (x : Int) : Nat := (x % (U64 : Int)).toNat
/-- `n as i64` for a `u64` value `n` -/
def u64AsI64 (n : Nat) : Int := if n < 9223372036854775808 then (n : Int) else (n : Int) - (U64 : Int)
/-- `a + b` on `i64` in the release profile (wrapping) -/
def i64WrapAdd (a b : Int) : Int := u64AsI64 (i64AsU64 (a + b))
/-- `u64::overflowing_sub`: wrapped difference and the borrow flag -/
def overflowingSub (a b : Nat) : Nat × Bool := (U64ops.wsub a b, decide (a < b))

/-- `struct Gas { limit: u64, remaining: u64, refunded: i64 }` -/
structure Gas where
  limit : Nat
  remaining : Nat
  refunded : Int
  deriving DecidableEq, Repr

/-- `Gas::new` -/
def new (limit : Nat) : Gas := { limit := limit, remaining := limit, refunded := 0 }
/-- `Gas::new_spent` -/
def newSpent (limit : Nat) : Gas := { limit := limit, remaining := 0, refunded := 0 }
/-- `#[derive(Default)]` -/
def default : Gas := { limit := 0, remaining := 0, refunded := 0 }

/-- `Gas::memory` (deprecated, constant) -/
def memory (_g : Gas) : Nat := 0
/-- `Gas::spent`: `self.limit - self.remaining` (wraps when `remaining > limit`) -/
def spent (g : Gas) : Nat := U64ops.wsub g.limit g.remaining
/-- `Gas::spent_sub_refunded`: `self.spent().saturating_sub(self.refunded as u64)` -/
def spentSubRefunded (g : Gas) : Nat := U64ops.saturatingSub (spent g) (i64AsU64 g.refunded)
/-- `Gas::remaining_63_of_64_parts`: `self.remaining - self.remaining / 64` -/
def remaining63of64 (g : Gas) : Nat := U64ops.wsub g.remaining (g.remaining / 64)

/-- `Gas::erase_cost`: `self.remaining += returned` -/
def eraseCost (g : Gas) (returned : Nat) : Gas :=
  { g with remaining := U64ops.wadd g.remaining returned }
/-- `Gas::spend_all` -/
def spendAll (g : Gas) : Gas := { g with remaining := 0 }
/-- `Gas::record_refund`: `self.refunded += refund` -/
def recordRefund (g : Gas) (refund : Int) : Gas :=
  { g with refunded := i64WrapAdd g.refunded refund }
/-- `Gas::set_final_refund`:
`self.refunded = (self.refunded() as u64).min(self.spent() / max_refund_quotient) as i64` -/
def setFinalRefund (g : Gas) (isLondon : Bool) : Gas :=
  let maxRefundQuotient := if isLondon then 5 else 2
  { g with refunded := u64AsI64 (min (i64AsU64 g.refunded) (spent g / maxRefundQuotient)) }
/-- `Gas::set_refund` -/
def setRefund (g : Gas) (refund : Int) : Gas := { g with refunded := refund }
/-- `Gas::set_spent`: `self.remaining = self.limit.saturating_sub(spent)` -/
def setSpent (g : Gas) (s : Nat) : Gas := { g with remaining := U64ops.saturatingSub g.limit s }
/-- `Gas::record_cost` -/
def recordCost (g : Gas) (cost : Nat) : Gas × Bool :=
  let (remaining, overflow) := overflowingSub g.remaining cost
  let success := !overflow
  (if success then { g with remaining := remaining } else g, success)

/-- the mutating operations of the API, as data (for sequences) -/
inductive Op where
  | recordCost (cost : Nat)
  | eraseCost (returned : Nat)
  | recordRefund (refund : Int)
  | setFinalRefund (isLondon : Bool)
  | setRefund (refund : Int)
  | setSpent (s : Nat)
  | spendAll
  deriving DecidableEq, Repr

/-- one operation; the flag is `record_cost`'s return value (`true` for the `()` operations) -/
def step (g : Gas) : Op → Gas × Bool
  | .recordCost c => recordCost g c
  | .eraseCost r => (eraseCost g r, true)
  | .recordRefund r => (recordRefund g r, true)
  | .setFinalRefund b => (setFinalRefund g b, true)
  | .setRefund r => (setRefund g r, true)
  | .setSpent s => (setSpent g s, true)
  | .spendAll => (spendAll g, true)

/-- a sequence of operations: final meter and the flag returned by every operation -/
def run (g : Gas) : List Op → Gas × List Bool
  | [] => (g, [])
  | op :: ops => ((run (step g op).1 ops).1, (step g op).2 :: (run (step g op).1 ops).2)

/-- the values are a `u64`, a `u64`, an `i64` -/
def WF (g : Gas) : Prop := g.limit < U64 ∧ g.remaining < U64 ∧ I64MIN ≤ g.refunded ∧ g.refunded ≤ I64MAX
/-- the arguments of an operation are `u64` / `i64` values -/
def Op.typed : Op → Prop
  | .recordCost c => c < U64
  | .eraseCost r => r < U64
  | .recordRefund r => I64MIN ≤ r ∧ r ≤ I64MAX
  | .setFinalRefund _ => True
  | .setRefund r => I64MIN ≤ r ∧ r ≤ I64MAX
  | .setSpent s => s < U64
  | .spendAll => True
/-- the meter invariant of the property: remaining gas never exceeds the limit -/
def MeterInv (g : Gas) : Prop := g.remaining ≤ g.limit

instance (g : Gas) : Decidable (WF g) := by unfold WF; infer_instance
instance (g : Gas) : Decidable (MeterInv g) := by unfold MeterInv; infer_instance
instance (op : Op) : Decidable op.typed := by cases op <;> unfold Op.typed <;> infer_instance

/-- the frame-accounting condition of C13 stated on the model: gas given back (`erase_cost`) was
spent before, `returned ≤ spent`. Every other operation is unconditional. -/
def FrameOk (g : Gas) : Op → Prop
  | .eraseCost r => r ≤ spent g
  | _ => True

instance (g : Gas) (op : Op) : Decidable (FrameOk g op) := by
  cases op <;> unfold FrameOk <;> infer_instance

/-- typed arguments and frame accounting for every operation of a run, each in the state it is
applied to -/
def FrameOkRun (g : Gas) : List Op → Prop
  | [] => True
  | op :: ops => op.typed ∧ FrameOk g op ∧ FrameOkRun (step g op).1 ops

instance decFrameOkRun : (g : Gas) → (ops : List Op) → Decidable (FrameOkRun g ops)
  | _, [] => isTrue trivial
  | g, op :: ops =>
    have := decFrameOkRun (step g op).1 ops
    inferInstanceAs (Decidable (op.typed ∧ FrameOk g op ∧ FrameOkRun (step g op).1 ops))

end Revm.Model.Gas
