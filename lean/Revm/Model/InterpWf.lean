import Revm.Model.Interp
/-! The decidable well-formedness predicate of an EOF container as the interpreter needs it (C25): what
`validate_eof` establishes about immediates, jump targets, section indices, sub-containers and function types, stated
over the linear instruction scan of each code section. Executable, so that the driver can evaluate it on the
containers of the lockstep stream. The proofs about it are in `Proofs/InterpEof*.lean`. -/
namespace Revm.Model.Interp

/-! ## instruction layout of a code section -/

/-- big-endian `u16` / `i16` immediate at position `p` -/
def u16At (sec : List Nat) (p : Nat) : Nat := sec.getD p 0 * 256 + sec.getD (p + 1) 0
def i16At (sec : List Nat) (p : Nat) : Int :=
  if u16At sec p ≥ 32768 then (u16At sec p : Int) - 65536 else (u16At sec p : Int)

/-- opcode byte plus immediate bytes of the instruction `I` at `i` -/
def instrLenOf (I : Instr) (sec : List Nat) (i : Nat) : Nat :=
  match I with
  | .push n => n.val + 2
  | .rjump | .rjumpi | .callf | .jumpf | .dataloadn => 3
  | .rjumpv => 4 + 2 * sec.getD (i + 1) 0
  | .dupn | .swapn | .exchange | .eofcreate | .returnContract => 2
  | _ => 1

def instrLen (sec : List Nat) (i : Nat) : Nat := instrLenOf (decode (sec.getD i 0)) sec i

/-- instructions after which execution never continues at the next instruction -/
def terminating : Instr → Bool
  | .stop | .invalid | .unknown | .ret | .revert | .rjump | .retf | .jumpf | .returnContract => true
  | _ => false

def scan (sec : List Nat) : Nat → Nat → List Nat
  | 0, _ => []
  | f + 1, i => if i < sec.length then i :: scan sec f (i + instrLen sec i) else []

/-- the instruction boundaries of a section: the positions a linear scan from 0 visits -/
def boundaries (sec : List Nat) : List Nat := scan sec (sec.length + 1) 0

/-- `outputs != 0x80` -/
def returning (t : Nat × Nat × Nat) : Bool := t.2.1 != 0x80
def typeOf (types : List (Nat × Nat × Nat)) (k : Nat) : Nat × Nat × Nat := types.getD k (0, 0x80, 0)

def targetOk (B : List Nat) (t : Int) : Bool := decide (0 ≤ t) && B.contains t.toNat

/-- what well-formedness asks of the instruction `I` at boundary `i` of section `self` beyond its layout: jump
targets are boundaries, section / sub-container indices exist, RETF only in returning functions, JUMPF to a
returning function only from a returning one, no CODESIZE / CODECOPY -/
def instrSpecific (B : List Nat) (types : List (Nat × Nat × Nat)) (containers : List (List Nat)) (self : Nat)
    (sec : List Nat) (i : Nat) (I : Instr) : Bool :=
  match I with
  | .rjump | .rjumpi => targetOk B ((i : Int) + 3 + i16At sec (i + 1))
  | .rjumpv =>
    (List.range (sec.getD (i + 1) 0 + 1)).all fun k =>
      targetOk B (((i + instrLenOf I sec i : Nat) : Int) + i16At sec (i + 2 + 2 * k))
  | .callf => decide (u16At sec (i + 1) < types.length)
  | .jumpf =>
    decide (u16At sec (i + 1) < types.length) &&
    (!(returning (typeOf types (u16At sec (i + 1)))) || returning (typeOf types self))
  | .retf => returning (typeOf types self)
  | .eofcreate =>
    (match containers[sec.getD (i + 1) 0]? with
     | some c => subcontainerOk c
     | none => false)
  | .returnContract =>
    (match containers[sec.getD (i + 1) 0]? with
     | some c =>
       (match headerOf c with
        | some h => decide (h.dataSizeRawI + 2 ≤ c.length)
        | none => false)
     | none => false)
  | .codesize | .codecopy => false
  | _ => true

/-- the instruction at boundary `i` of section `self`: its immediates lie inside the section, execution can only
continue at boundaries of the section, and `instrSpecific` -/
def instrOk (B : List Nat) (types : List (Nat × Nat × Nat)) (containers : List (List Nat)) (self : Nat)
    (sec : List Nat) (i : Nat) : Bool :=
  decide (i + instrLen sec i ≤ sec.length) &&
  (terminating (decode (sec.getD i 0)) || B.contains (i + instrLen sec i)) &&
  instrSpecific B types containers self sec i (decode (sec.getD i 0))

/-- one section is well-formed -/
def secOkB (types : List (Nat × Nat × Nat)) (containers : List (List Nat)) (self : Nat) (sec : List Nat) : Bool :=
  sec.all (fun b => decide (b < 256)) && (boundaries sec).contains 0 &&
  (boundaries sec).all fun i => decide (i < sec.length) && instrOk (boundaries sec) types containers self sec i

/-- the decidable well-formedness check of a container -/
def wfCtxB (c : EofCtx) : Bool :=
  !c.sections.isEmpty && (c.types.length == c.sections.length) && !(returning (typeOf c.types 0)) &&
  decide (c.data.length ≤ Memory.ISIZE_MAX) &&
  (List.range c.sections.length).all fun k => secOkB c.types c.containers k (c.sections.getD k [])

end Revm.Model.Interp
