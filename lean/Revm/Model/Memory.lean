import Revm.Util.Word
/-! Model of `SharedMemory` (crates/interpreter/src/interpreter/shared_memory.rs), of `num_words`,
`memory_gas` (gas/calc.rs) and of `resize_memory` (interpreter.rs), function by function.

* `buffer : List Nat` is the `Vec<u8>`, `checkpoints : List Nat` the `Vec<usize>` with the **head of
  the list = last pushed element** (top of the Vec), `lastCheckpoint` the cached field.
* `usize`/`u64` arithmetic is the arithmetic of the **release profile** (wrapping `+`, `-`), which is
  the profile the correspondence harness is built with; every place where the debug profile would
  panic on overflow instead is marked `-- debug: overflow panic`.
* Three outcomes are distinguished (`Res`): `ok`, `panic` (a real Rust panic in every profile:
  `copy_within` bounds checks, `Vec` capacity overflow) and `ub` (the code reaches
  `debug_unreachable!` / violates the contract of `get_unchecked` / `set_len`: `unreachable!` panic
  when compiled with `debug_assertions`, undefined behaviour otherwise). Neither is ever replaced
  by a default value. -/
namespace Revm.Model.Memory
open Revm

/-- `isize::MAX`: `Vec` panics with "capacity overflow" beyond it -/
def ISIZE_MAX : Nat := 2^63 - 1

inductive Res (α : Type) where
  | ok (a : α)
  | panic
  | ub
  deriving Repr, DecidableEq

structure SharedMemory where
  buffer : List Nat
  /-- head = most recently pushed checkpoint -/
  checkpoints : List Nat
  lastCheckpoint : Nat
  deriving Repr, DecidableEq

/-- `buf[pos .. pos+val.len] = val` (absolute positions in the shared buffer) -/
def writeAt (buf : List Nat) (pos : Nat) (val : List Nat) : List Nat :=
  buf.take pos ++ val ++ buf.drop (pos + val.length)
/-- `buf[pos .. pos+n]` -/
def readAt (buf : List Nat) (pos n : Nat) : List Nat := (buf.drop pos).take n

/-- `SharedMemory::new` (the capacity is not observable) -/
def new : SharedMemory := ⟨[], [], 0⟩

/-- `new_context` -/
def newContext (m : SharedMemory) : SharedMemory :=
  { m with checkpoints := m.buffer.length :: m.checkpoints, lastCheckpoint := m.buffer.length }

/-- `free_context`: pops a checkpoint (no-op when there is none), `last_checkpoint` becomes
`checkpoints.last().unwrap_or_default()`, `buffer.set_len(old_checkpoint)`; `set_len` beyond the
current length is outside its safety contract (`ub`) -/
def freeContext (m : SharedMemory) : Res SharedMemory :=
  match m.checkpoints with
  | [] => .ok m
  | old :: rest =>
    if old ≤ m.buffer.length then
      .ok { buffer := m.buffer.take old, checkpoints := rest,
            lastCheckpoint := match rest with | [] => 0 | c :: _ => c }
    else .ub

/-- `len`: `buffer.len() - last_checkpoint` (usize, release: wrapping; debug: overflow panic) -/
def len (m : SharedMemory) : Nat := U64ops.wsub m.buffer.length m.lastCheckpoint

def isEmpty (m : SharedMemory) : Bool := len m == 0

/-- `num_words(len) = len.saturating_add(31) / 32` -/
def numWords (n : Nat) : Nat := U64ops.saturatingAdd n 31 / 32

/-- `memory_gas(num_words)`: `MEMORY as u128 * w + w * w / 512` computed in `u128` (no wrap for a u64
word count), saturated to `u64::MAX`; MEMORY = 3 -/
def memoryGas (w : Nat) : Nat :=
  let cost := 3 * w + w * w / 512
  if cost > U64 - 1 then U64 - 1 else cost

/-- `current_expansion_cost = memory_gas_for_len(self.len())` -/
def currentExpansionCost (m : SharedMemory) : Nat := memoryGas (numWords (len m))

/-- `resize`: `self.buffer.resize(self.last_checkpoint + new_size, 0)`; the sum is a usize `+`
(release: wraps; debug: overflow panic); `Vec::resize` truncates, or extends with zeros and panics
with "capacity overflow" when the new length exceeds `isize::MAX` -/
def resize (m : SharedMemory) (newSize : Nat) : Res SharedMemory :=
  let n := (m.lastCheckpoint + newSize) % U64
  if n ≤ m.buffer.length then .ok { m with buffer := m.buffer.take n }
  else if n > ISIZE_MAX then .panic
  else .ok { m with buffer := m.buffer ++ List.replicate (n - m.buffer.length) 0 }

/-- `context_memory`: `buffer.get_unchecked(last_checkpoint..buffer.len())` -/
def contextMemory (m : SharedMemory) : Res (List Nat) :=
  if m.lastCheckpoint ≤ m.buffer.length then .ok (m.buffer.drop m.lastCheckpoint) else .ub

/-- `slice_range(start..end)`: `context_memory().get(range)`, `None` ⇒ `debug_unreachable!` -/
def sliceRange (m : SharedMemory) (start stop : Nat) : Res (List Nat) :=
  if m.lastCheckpoint ≤ m.buffer.length then
    if start ≤ stop ∧ stop ≤ m.buffer.length - m.lastCheckpoint then
      .ok (readAt m.buffer (m.lastCheckpoint + start) (stop - start))
    else .ub
  else .ub

/-- `slice(offset, size) = slice_range(offset..offset + size)` (usize `+`; debug: overflow panic) -/
def slice (m : SharedMemory) (offset size : Nat) : Res (List Nat) :=
  sliceRange m offset ((offset + size) % U64)

/-- `get_byte`: `slice(offset, 1)[0]` -/
def getByte (m : SharedMemory) (offset : Nat) : Res Nat :=
  match slice m offset 1 with
  | .ok [b] => .ok b
  | .ok _ => .panic   -- index 0 of a slice that is not of length 1: cannot happen (slice returns `size` bytes)
  | .panic => .panic
  | .ub => .ub

/-- `get_word`: `slice(offset, 32).try_into().unwrap()` -/
def getWord (m : SharedMemory) (offset : Nat) : Res (List Nat) := slice m offset 32

def beToNat (bs : List Nat) : Nat := bs.foldl (fun acc b => acc * 256 + b) 0
def natToBe : Nat → Nat → List Nat
  | 0, _ => []
  | k+1, v => natToBe k (v / 256) ++ [v % 256]

/-- `get_u256`: the word read big-endian -/
def getU256 (m : SharedMemory) (offset : Nat) : Res Nat :=
  match getWord m offset with
  | .ok bs => .ok (beToNat bs)
  | .panic => .panic
  | .ub => .ub

/-- `slice_mut(offset, size)` followed by a write of `val` (`val.length = size`) into it -/
def writeSlice (m : SharedMemory) (offset : Nat) (val : List Nat) : Res SharedMemory :=
  let stop := (offset + val.length) % U64
  if m.lastCheckpoint ≤ m.buffer.length then
    if offset ≤ stop ∧ stop ≤ m.buffer.length - m.lastCheckpoint then
      .ok { m with buffer := writeAt m.buffer (m.lastCheckpoint + offset) val }
    else .ub
  else .ub

/-- `set(offset, value)`: nothing at all for an empty value, else `slice_mut(..).copy_from_slice` -/
def set (m : SharedMemory) (offset : Nat) (value : List Nat) : Res SharedMemory :=
  if value.isEmpty then .ok m else writeSlice m offset value

def setByte (m : SharedMemory) (offset byte : Nat) : Res SharedMemory := set m offset [byte]
def setWord (m : SharedMemory) (offset : Nat) (value : List Nat) : Res SharedMemory := set m offset value
def setU256 (m : SharedMemory) (offset value : Nat) : Res SharedMemory := set m offset (natToBe 32 value)

/-- `set_data(memory_offset, data_offset, len, data)` as coded: two branches, two `slice_mut`s -/
def setData (m : SharedMemory) (memoryOffset dataOffset len : Nat) (data : List Nat) : Res SharedMemory :=
  if dataOffset ≥ data.length then
    writeSlice m memoryOffset (List.replicate len 0)
  else
    let dataEnd := min ((dataOffset + len) % U64) data.length   -- debug: overflow panic
    if dataEnd < dataOffset then .ub   -- `data_end - data_offset` underflows (debug: panic), then get_unchecked
    else
      let dataLen := dataEnd - dataOffset
      match writeSlice m memoryOffset (readAt data dataOffset dataLen) with
      | .ok m1 => writeSlice m1 ((memoryOffset + dataLen) % U64) (List.replicate (len - dataLen) 0)
      | .panic => .panic
      | .ub => .ub

/-- `copy(dst, src, len)`: `context_memory_mut().copy_within(src..src + len, dst)`; the bounds checks
of `copy_within` are real panics, performed before anything is moved -/
def copy (m : SharedMemory) (dst src len : Nat) : Res SharedMemory :=
  if m.lastCheckpoint ≤ m.buffer.length then
    let mlen := m.buffer.length - m.lastCheckpoint
    let stop := (src + len) % U64   -- debug: overflow panic
    if src > stop then .panic
    else if stop > mlen then .panic
    else
      let count := stop - src
      if dst > mlen - count then .panic
      else .ok { m with buffer := writeAt m.buffer (m.lastCheckpoint + dst)
                                    (readAt m.buffer (m.lastCheckpoint + src) count) }
  else .ub

/-- `resize_memory(memory, gas, new_size)` (interpreter.rs); returns (success, memory, gas remaining).
`new_cost - current_cost` is a u64 `-` (release: wraps; debug: overflow panic);
`Gas::record_cost(cost)` is `remaining.overflowing_sub(cost)`: it succeeds iff `cost ≤ remaining` -/
def resizeMemory (m : SharedMemory) (remaining newSize : Nat) : Res (Bool × SharedMemory × Nat) :=
  let newWords := numWords newSize
  let newCost := memoryGas newWords
  let currentCost := currentExpansionCost m
  let cost := U64ops.wsub newCost currentCost
  if cost ≤ remaining then
    match resize m (U64ops.wmul newWords 32) with
    | .ok m' => .ok (true, m', remaining - cost)
    | .panic => .panic
    | .ub => .ub
  else .ok (false, m, remaining)

/-- the guard of the `resize_memory!` macro (instructions/macros.rs): `new_size = offset.saturating_add(len)`
and `resize_memory` is called only if `new_size > shared_memory.len()` -/
def resizeMemoryMacro (m : SharedMemory) (remaining offset len_ : Nat) : Res (Bool × SharedMemory × Nat) :=
  let newSize := U64ops.saturatingAdd offset len_
  if newSize > len m then resizeMemory m remaining newSize else .ok (true, m, remaining)

/-- the memory effect of `Interpreter::insert_call_outcome` for `return_ok!()`/`return_revert!()`:
`shared_memory.set(out_offset, &return_data_buffer[..min(out_len, return_data_buffer.len())])` -/
def insertCallOutcomeMem (m : SharedMemory) (outOffset outLen : Nat) (ret : List Nat) : Res SharedMemory :=
  set m outOffset (ret.take (min outLen ret.length))

/-- One call of the public API, as data (for statements about all call sequences). -/
inductive Op where
  | newContext
  | freeContext
  | resize (newSize : Nat)
  | set (offset : Nat) (value : List Nat)
  | setByte (offset byte : Nat)
  | setWord (offset : Nat) (value : List Nat)
  | setU256 (offset value : Nat)
  | setData (memoryOffset dataOffset len : Nat) (data : List Nat)
  | copy (dst src len : Nat)
  | slice (offset size : Nat)      -- reads: no state change, but may be `ub`
  | sliceRange (start stop : Nat)
  | getByte (offset : Nat)
  | getWord (offset : Nat)
  | getU256 (offset : Nat)
  | contextMemory
  deriving Repr, DecidableEq

def readOnly {α} (m : SharedMemory) : Res α → Res SharedMemory
  | .ok _ => .ok m
  | .panic => .panic
  | .ub => .ub

def apply (op : Op) (m : SharedMemory) : Res SharedMemory :=
  match op with
  | .newContext => .ok (newContext m)
  | .freeContext => freeContext m
  | .resize n => resize m n
  | .set o v => set m o v
  | .setByte o b => setByte m o b
  | .setWord o v => setWord m o v
  | .setU256 o v => setU256 m o v
  | .setData a b c d => setData m a b c d
  | .copy d s l => copy m d s l
  | .slice o s => readOnly m (slice m o s)
  | .sliceRange a b => readOnly m (sliceRange m a b)
  | .getByte o => readOnly m (getByte m o)
  | .getWord o => readOnly m (getWord m o)
  | .getU256 o => readOnly m (getU256 m o)
  | .contextMemory => readOnly m (contextMemory m)

/-- a sequence of API calls; stops at the first `panic`/`ub` -/
def run : List Op → SharedMemory → Res SharedMemory
  | [], m => .ok m
  | op :: ops, m =>
    match apply op m with
    | .ok m' => run ops m'
    | .panic => .panic
    | .ub => .ub

end Revm.Model.Memory
