import Revm.Model.Journal
/-! Code-shaped model of the SELFDESTRUCT instruction (`crates/interpreter/src/instructions/host.rs`,
`gas::selfdestruct_cost`) over `Model.Journal.selfdestruct`, and of the inspector's SELFDESTRUCT wrapper
(`crates/revm/src/inspector/handler_register.rs`) as repaired by commit 93c09012, with the wrapper's
former logic (`journal.last().unwrap().last()`) kept as `wrappedOld` for the regression theorems.

Journal levels are stored innermost-first and entries newest-first (see `Model/Journal.lean`), so
`journal.last()` is the head level, `entries.get(prev_len..)` is `take (len - prev_len)` and
`.iter().rev().find_map(f)` is `findSome? f` on that prefix. -/
namespace Revm.Model.SelfdestructNotify
open Revm Revm.Model.Journal

/-- the `InstructionResult`s that matter here -/
inductive IRes
  | continue_
  | selfDestruct
  | stateChangeDuringStaticCall
  | stackUnderflow
  | outOfGas
  | fatalExternalError
  | other (n : Nat)
deriving DecidableEq, Repr

structure Interp where
  isStatic : Bool
  /-- top first -/
  stack : List Nat
  /-- `gas.remaining` -/
  gas : Nat
  /-- `contract.target_address` -/
  contract : Addr
  result : IRes := .continue_
deriving DecidableEq, Repr

def TANGERINE : Nat := 4
def BERLIN : Nat := 11
def COLD_ACCOUNT_ACCESS_COST : Nat := 2600
def ADDR : Nat := 2 ^ 160

/-- `gas::selfdestruct_cost` -/
def selfdestructCost (spec : Nat) (hadValue targetExists isCold : Bool) : Nat :=
  let shouldChargeTopup := if spec ≥ SPURIOUS_DRAGON then hadValue && !targetExists else !targetExists
  let topup := if spec ≥ TANGERINE ∧ shouldChargeTopup then 25000 else 0
  let base := if spec ≥ TANGERINE then 5000 else 0
  let gas := base + topup
  if spec ≥ BERLIN ∧ isCold then gas + COLD_ACCOUNT_ACCESS_COST else gas

/-- `instructions::host::selfdestruct`: static guard, `pop_address!`, `host.selfdestruct` (a failing
`Database` can only fail the load of a target that is not in the journal yet: `FatalExternalError`, nothing
changed), then the gas charge AFTER the state change, then `SelfDestruct`. The refund counter is not
modelled. `none` = an `unwrap()` of the journal code panics (contract not loaded / no journal level). -/
def selfdestructInsn (db : Db) (dbFails : Bool) (it : Interp) (s : JState) : Option (Interp × JState) :=
  if it.isStatic then some ({ it with result := .stateChangeDuringStaticCall }, s) else
  match it.stack with
  | [] => some ({ it with result := .stackUnderflow }, s)
  | top :: rest =>
    let target := top % ADDR
    if dbFails ∧ (s.state target).isNone then
      some ({ it with stack := rest, result := .fatalExternalError }, s)
    else
    match Journal.selfdestruct db s it.contract target with
    | none => none
    | some (s', hadValue, targetExists, _, isCold) =>
      let cost := selfdestructCost s.spec hadValue targetExists isCold
      if it.gas < cost then some ({ it with stack := rest, result := .outOfGas }, s')
      else some ({ it with stack := rest, gas := it.gas - cost, result := .selfDestruct }, s')

/-- what a journal entry says about a self-destruct -/
def entryNote : Entry → Option (Addr × Addr × Nat)
  | .accountDestroyed a t _ had => some (a, t, had)
  | .balanceTransfer f t b => some (f, t, b)
  | _ => none

/-- `journal.last().map_or(0, Vec::len)` -/
def lastLen (s : JState) : Nat :=
  match s.journal with
  | [] => 0
  | l :: _ => l.length

/-- `journal.last().and_then(|e| e.get(prev_len..)).and_then(|new| new.iter().rev().find_map(..))` -/
def newEntryNote (prevLen : Nat) (s : JState) : Option (Addr × Addr × Nat) :=
  match s.journal with
  | [] => none
  | l :: _ => if prevLen ≤ l.length then (l.take (l.length - prevLen)).findSome? entryNote else none

/-- what the inspector does to `interp.instruction_result` in `step` / `step_end` (`none`: leaves it) -/
structure InspAct where
  step : Option IRes := none
  stepEnd : Option IRes := none
deriving DecidableEq, Repr

/-- `inspector_instruction` around SELFDESTRUCT -/
def stepWrapped (db : Db) (dbFails : Bool) (ia : InspAct) (it : Interp) (s : JState) : Option (Interp × JState) :=
  let it := match ia.step with
    | some r => { it with result := r }
    | none => it
  if it.result ≠ .continue_ then some (it, s) else
  match selfdestructInsn db dbFails it s with
  | none => none
  | some (it', s') =>
    match ia.stepEnd with
    | some r => some ({ it' with result := r }, s')
    | none => some (it', s')

/-- the repaired wrapper: the callback's arguments, if it is made -/
def wrapped (db : Db) (dbFails : Bool) (ia : InspAct) (it : Interp) (s : JState) :
    Option (Interp × JState × Option (Addr × Addr × Nat)) :=
  let prevLen := lastLen s
  match stepWrapped db dbFails ia it s with
  | none => none
  | some (it', s') =>
    if it'.result ≠ .selfDestruct then some (it', s', none) else
    some (it', s', some ((newEntryNote prevLen s').getD (it.contract, it.contract, 0)))

/-- the wrapper before the repair: whatever `AccountDestroyed` / `BalanceTransfer` is the newest entry of
the innermost level is reported, whether or not this instruction made it; `none` = `.unwrap()` panic -/
def wrappedOld (db : Db) (dbFails : Bool) (ia : InspAct) (it : Interp) (s : JState) :
    Option (Interp × JState × Option (Addr × Addr × Nat)) :=
  match stepWrapped db dbFails ia it s with
  | none => none
  | some (it', s') =>
    match s'.journal with
    | [] => none
    | l :: _ => some (it', s', l.head?.bind entryNote)

/-- balance of an account in the journal (0 when not loaded) -/
def balanceOf (s : JState) (a : Addr) : Nat :=
  match s.state a with
  | some acc => acc.info.balance
  | none => 0

end Revm.Model.SelfdestructNotify
