/-! Code-shaped executable model of revm's bundle state (crates/revm/src/db/states):
`account_status.rs`, `cache_account.rs` (only what produces transitions), `cache.rs::apply_account_state`,
`transition_account.rs`, `transition_state.rs`, `bundle_account.rs`, `reverts.rs`, `bundle_state.rs`,
`state.rs::{commit, increment_balances, drain_balances, merge_transitions, take_bundle}`.

Conventions: a Rust panic / `unreachable!` / `expect` is `none` of the *outer* `Option`; a Rust
`Option` result is an inner `Option`. `HashMap`s are association lists with unique keys (`BMap`);
nothing depends on their order (dumps are sorted by the driver). Code hashes are small code ids,
`0 = KECCAK_EMPTY` (the harness never produces `B256::ZERO`). `state_size` / `reverts_size` are not
modelled (not observable through changesets or reverts). Core Lean only. -/
namespace Revm.Model.Bundle

/-- association list standing in for a `HashMap<Nat, α>`; `set` keeps keys unique -/
abbrev BMap (α : Type) := List (Nat × α)
namespace BMap
variable {α : Type}
def get : BMap α → Nat → Option α
  | [], _ => none
  | (k', v) :: r, k => if k' = k then some v else get r k
def del (m : BMap α) (k : Nat) : BMap α := m.filter (fun e => e.1 != k)
def set (m : BMap α) (k : Nat) (v : α) : BMap α := (k, v) :: del m k
def keys (m : BMap α) : List Nat := m.map (·.1)
def has (m : BMap α) (k : Nat) : Bool := (get m k).isSome
end BMap

inductive Status
  | loadedNotExisting | loaded | loadedEmptyEIP161 | inMemoryChange | changed
  | destroyed | destroyedChanged | destroyedAgain
deriving DecidableEq, Repr, Inhabited

namespace Status
def wasDestroyed : Status → Bool
  | destroyed | destroyedChanged | destroyedAgain => true
  | _ => false
def isStorageKnown : Status → Bool
  | loadedNotExisting | inMemoryChange | destroyed | destroyedChanged | destroyedAgain => true
  | _ => false
def onCreated : Status → Status
  | destroyedAgain | destroyed | destroyedChanged => destroyedChanged
  | _ => inMemoryChange
/-- `none` = `unreachable!` -/
def onTouchedEmptyPostEip161 : Status → Option Status
  | loadedNotExisting => some loadedNotExisting
  | inMemoryChange | destroyed | loadedEmptyEIP161 => some destroyed
  | destroyedAgain | destroyedChanged => some destroyedAgain
  | loaded | changed => none
/-- outer `none` = `unreachable!`, inner `none` = status unchanged -/
def onTouchedCreatedPreEip161 (s : Status) (hadNoInfo : Bool) : Option (Option Status) :=
  match s with
  | loadedEmptyEIP161 => some none
  | destroyedChanged => if hadNoInfo then some none else some (some destroyedChanged)
  | destroyed | destroyedAgain => some (some destroyedChanged)
  | inMemoryChange | loadedNotExisting => some (some inMemoryChange)
  | loaded | changed => none
def onChanged (s : Status) (hadNoNonceAndCode : Bool) : Status :=
  match s with
  | loadedNotExisting => inMemoryChange
  | loadedEmptyEIP161 => inMemoryChange
  | loaded => if hadNoNonceAndCode then inMemoryChange else changed
  | changed => changed
  | inMemoryChange => inMemoryChange
  | destroyedChanged => destroyedChanged
  | destroyed | destroyedAgain => destroyedChanged
def onSelfdestructed : Status → Status
  | loadedNotExisting => loadedNotExisting
  | destroyedChanged | destroyedAgain | destroyed => destroyedAgain
  | _ => destroyed
/-- `AccountStatus::transition` (used by `extend_state`) -/
def transition (s other : Status) : Status :=
  match s.wasDestroyed, other.wasDestroyed with
  | true, false => destroyedChanged
  | false, false => if s = inMemoryChange then inMemoryChange else other
  | _, _ => other
end Status

/-- `AccountInfo`; `code = true` iff the `code: Option<Bytecode>` field is `Some` -/
structure Info where
  balance : Nat
  nonce : Nat
  codeHash : Nat
  code : Bool
deriving DecidableEq, Repr

namespace Info
/-- `AccountInfo::default()` (its `code` is `Some(Bytecode::default())`) -/
def dflt : Info := ⟨0, 0, 0, true⟩
/-- the hand-written `PartialEq`: ignores `code` -/
def same (a b : Info) : Bool := a.balance == b.balance && a.nonce == b.nonce && a.codeHash == b.codeHash
def isEmpty (i : Info) : Bool := i.codeHash == 0 && i.balance == 0 && i.nonce == 0
def hasNoCodeAndNonce (i : Info) : Bool := i.codeHash == 0 && i.nonce == 0
def withoutCode (i : Info) : Info := { i with code := false }
end Info

/-- `Option<AccountInfo> == Option<AccountInfo>` -/
def optSame : Option Info → Option Info → Bool
  | none, none => true
  | some a, some b => a.same b
  | _, _ => false

/-- `StorageSlot { previous_or_original_value, present_value }` -/
structure Slot where
  orig : Nat
  present : Nat
deriving DecidableEq, Repr

def Slot.isChanged (s : Slot) : Bool := s.orig != s.present

/-- `TransitionAccount` -/
structure Transition where
  info : Option Info
  status : Status
  prevInfo : Option Info
  prevStatus : Status
  storage : BMap Slot
  wasDestroyed : Bool
deriving Repr

namespace Transition
/-- `TransitionAccount::update` -/
def update (s o : Transition) : Transition :=
  if o.status = .destroyed ∨ o.status = .destroyedAgain then
    { s with info := o.info, status := o.status, storage := o.storage, wasDestroyed := true }
  else
    { s with info := o.info, status := o.status,
             storage := o.storage.foldl (fun acc e =>
               match acc.get e.1 with
               | none => acc.set e.1 e.2
               | some v => if v.orig = e.2.present then acc.del e.1
                           else acc.set e.1 { v with present := e.2.present }) s.storage }
/-- `has_new_contract`: the code hash to insert into `contracts` -/
def hasNewContract (t : Transition) : Option Nat :=
  if t.info.map (·.codeHash) != t.prevInfo.map (·.codeHash) then
    t.info.bind (fun i => if i.code then some i.codeHash else none)
  else none
end Transition

/-- `TransitionState::add_transitions` -/
def addTransitions (ts : BMap Transition) (new : List (Nat × Transition)) : BMap Transition :=
  new.foldl (fun acc e => match acc.get e.1 with
    | some old => acc.set e.1 (old.update e.2)
    | none => acc.set e.1 e.2) ts

/-! ## CacheAccount (only the info and the status matter for transitions) -/
structure CacheAcct where
  info : Option Info
  status : Status
deriving Repr

/-- the `Account` of an `EvmState` as committed -/
structure EvmAcct where
  info : Info
  created : Bool
  selfdestructed : Bool
  touched : Bool
  storage : BMap Slot      -- all slots of the account (original, present)
deriving Repr

namespace CacheAcct
def selfdestruct (c : CacheAcct) : CacheAcct × Option Transition :=
  let st := c.status.onSelfdestructed
  (⟨none, st⟩,
   if c.status = .loadedNotExisting then none
   else some ⟨none, st, c.info, c.status, [], true⟩)
def newlyCreated (c : CacheAcct) (ni : Info) (storage : BMap Slot) : CacheAcct × Transition :=
  let st := c.status.onCreated
  (⟨some ni, st⟩, ⟨some ni, st, c.info, c.status, storage, false⟩)
def touchEmptyEip161 (c : CacheAcct) : Option (CacheAcct × Option Transition) :=
  match c.status.onTouchedEmptyPostEip161 with
  | none => none
  | some st =>
    some (⟨none, st⟩,
      if c.status = .loadedNotExisting ∨ c.status = .destroyed ∨ c.status = .destroyedAgain then none
      else some ⟨none, st, c.info, c.status, [], true⟩)
def touchCreatePreEip161 (c : CacheAcct) (storage : BMap Slot) : Option (CacheAcct × Option Transition) :=
  let hadNoInfo := match c.info with | some i => i.isEmpty | none => false
  match c.status.onTouchedCreatedPreEip161 hadNoInfo with
  | none => none
  | some none => some (c, none)
  | some (some st) =>
    some (⟨some Info.dflt, st⟩, some ⟨some Info.dflt, st, c.info, c.status, storage, false⟩)
def infoChange (c : CacheAcct) (f : Info → Info) : CacheAcct × Transition :=
  let ni := f (c.info.getD Info.dflt)
  let hnc := match c.info with | some i => i.hasNoCodeAndNonce | none => false
  let st := c.status.onChanged hnc
  (⟨some ni, st⟩, ⟨some ni, st, c.info, c.status, [], false⟩)
def change (c : CacheAcct) (ni : Info) (storage : BMap Slot) : CacheAcct × Transition :=
  let hnc := match c.info with | some i => i.hasNoCodeAndNonce | none => false
  let st := c.status.onChanged hnc
  (⟨some ni, st⟩, ⟨some ni, st, c.info, c.status, storage, false⟩)
end CacheAcct

/-- `CacheState::apply_account_state`; outer `none` = panic -/
def applyAccountState (sc : Bool) (c : CacheAcct) (a : EvmAcct) : Option (CacheAcct × Option Transition) :=
  if !a.touched then some (c, none) else
  if a.selfdestructed then some (c.selfdestruct) else
  let changed := a.storage.filter (fun e => e.2.isChanged)
  if a.created then
    let r := c.newlyCreated a.info changed
    some (r.1, some r.2)
  else if a.info.isEmpty then
    if sc then c.touchEmptyEip161 else c.touchCreatePreEip161 changed
  else
    let r := c.change a.info changed
    some (r.1, some r.2)

/-! ## BundleAccount and reverts -/
structure BAcct where
  info : Option Info
  origInfo : Option Info
  storage : BMap Slot
  status : Status
deriving Repr

inductive InfoRevert
  | doNothing | deleteIt | revertTo (i : Info)
deriving Repr

inductive RevSlot
  | some (v : Nat) | destroyed
deriving DecidableEq, Repr

def RevSlot.toPrev : RevSlot → Nat
  | .some v => v
  | .destroyed => 0

structure ARevert where
  account : InfoRevert
  storage : BMap RevSlot
  prevStatus : Status
  wipe : Bool
deriving Repr

def ARevert.isEmpty (r : ARevert) : Bool :=
  (match r.account with | .doNothing => true | _ => false) && r.storage.isEmpty && !r.wipe

/-- closure `extend_storage`: keep the original value of an existing entry -/
def extendStorage (this upd : BMap Slot) : BMap Slot :=
  upd.foldl (fun acc e => match acc.get e.1 with
    | none => acc.set e.1 e.2
    | some s => acc.set e.1 { s with present := e.2.present }) this

/-- closure `previous_storage_from_update` -/
def prevStorageFromUpdate (upd : BMap Slot) : BMap RevSlot :=
  (upd.filter (fun e => e.2.isChanged)).map (fun e => (e.1, RevSlot.some e.2.orig))

def presentAsRevert (st : BMap Slot) : BMap RevSlot := st.map (fun e => (e.1, RevSlot.some e.2.present))

/-- `AccountRevert::new_selfdestructed_again` -/
def markDestroyed (upd : BMap Slot) (base : BMap RevSlot) : BMap RevSlot :=
  upd.foldl (fun (acc : BMap RevSlot) e => match acc.get e.1 with
    | none => acc.set e.1 RevSlot.destroyed
    | some _ => acc) base

def newSelfdestructedAgain (status : Status) (account : InfoRevert) (prev upd : BMap Slot) : ARevert :=
  ⟨account, markDestroyed upd (presentAsRevert prev), status, false⟩

/-- `AccountRevert::new_selfdestructed_from_bundle` (drains the bundle account's storage) -/
def newSelfdestructedFromBundle (ir : InfoRevert) (b : BAcct) (upd : BMap Slot) : Option (ARevert × BAcct) :=
  match b.status with
  | .inMemoryChange | .changed | .loadedEmptyEIP161 | .loaded =>
    some ({ newSelfdestructedAgain b.status ir b.storage upd with wipe := true }, { b with storage := [] })
  | _ => none

/-- `AccountRevert::new_selfdestructed` -/
def newSelfdestructed (status : Status) (ir : InfoRevert) (storage : BMap Slot) : ARevert :=
  ⟨ir, presentAsRevert storage, status, true⟩

def filterEmpty (r : Option ARevert) : Option ARevert :=
  match r with
  | some a => if a.isEmpty then none else some a
  | none => none

/-- `BundleAccount::update_and_create_revert`; outer `none` = `unreachable!` -/
def updateAndCreateRevert (self : BAcct) (t : Transition) : Option (BAcct × Option ARevert) :=
  let ui := t.info
  let us := t.storage
  let infoRevert : InfoRevert :=
    if !(optSame self.info ui) then .revertTo (self.info.getD Info.dflt) else .doNothing
  match t.status with
  | .changed =>
    let ps := prevStorageFromUpdate us
    (match self.status with
     | .changed | .loaded => some (extendStorage self.storage us)
     | .loadedEmptyEIP161 => some self.storage
     | _ => none).map fun st =>
      ({ self with storage := st, status := .changed, info := ui },
       filterEmpty (some ⟨infoRevert, ps, self.status, false⟩))
  | .inMemoryChange =>
    let ps := prevStorageFromUpdate us
    (match self.status with
     | .loaded | .inMemoryChange => some (extendStorage self.storage us, infoRevert)
     | .loadedEmptyEIP161 => some (us, infoRevert)
     | .loadedNotExisting => some (us, InfoRevert.deleteIt)
     | _ => none).map fun (st, ir) =>
      ({ self with storage := st, status := .inMemoryChange, info := ui },
       filterEmpty (some ⟨ir, ps, self.status, false⟩))
  | .loaded | .loadedNotExisting | .loadedEmptyEIP161 => some (self, none)
  | .destroyed =>
    -- `self.storage.drain()` happens before the match
    let drained := { self with storage := [] }
    (match self.status with
     | .inMemoryChange | .changed | .loaded | .loadedEmptyEIP161 =>
       some (some (newSelfdestructed self.status infoRevert self.storage))
     | .loadedNotExisting => some none
     | _ => none).map fun ret =>
      match ret with
      | some r => ({ drained with status := .destroyed, info := none }, filterEmpty (some r))
      | none => (drained, none)
  | .destroyedChanged =>
    match newSelfdestructedFromBundle infoRevert self us with
    | some (rev, _) =>
      some ({ self with status := .destroyedChanged, info := ui, storage := us }, filterEmpty (some rev))
    | none =>
      (match self.status with
       | .destroyed | .loadedNotExisting =>
         some (self.storage, (⟨.deleteIt, prevStorageFromUpdate us, self.status, false⟩ : ARevert))
       | .destroyedChanged =>
         if t.wasDestroyed then
           some ([], ⟨infoRevert, markDestroyed us (presentAsRevert self.storage), .destroyedChanged, false⟩)
         else
           some (self.storage, ⟨infoRevert, prevStorageFromUpdate us, .destroyedChanged, false⟩)
       | .destroyedAgain =>
         some (self.storage, newSelfdestructedAgain .destroyedAgain .deleteIt [] us)
       | _ => none).map fun (st0, rev) =>
        ({ self with status := .destroyedChanged, info := ui, storage := extendStorage st0 us },
         filterEmpty (some rev))
  | .destroyedAgain =>
    match newSelfdestructedFromBundle infoRevert self [] with
    | some (rev, _) =>
      some ({ self with status := .destroyedAgain, info := none, storage := [] }, filterEmpty (some rev))
    | none =>
      (match self.status with
       | .destroyed | .destroyedAgain | .loadedNotExisting => some none
       | .destroyedChanged =>
         some (some (newSelfdestructedAgain .destroyedChanged
                 (.revertTo (self.info.getD Info.dflt)) self.storage []))
       | _ => none).map fun ret =>
        ({ self with status := .destroyedAgain, info := none, storage := [] }, filterEmpty ret)

/-- `BundleAccount::revert`; the flag says "remove the account from the bundle" -/
def BAcct.revert (self : BAcct) (r : ARevert) : BAcct × Bool :=
  let self := { self with status := r.prevStatus }
  let applyStorage (b : BAcct) : BAcct :=
    { b with storage := r.storage.foldl (fun acc e => match e.2 with
        | .some v => (match acc.get e.1 with
            | none => acc.set e.1 ⟨v, v⟩
            | some s => acc.set e.1 { s with present := v })
        | .destroyed => acc.del e.1) b.storage }
  match r.account with
  | .doNothing => (applyStorage self, false)
  | .deleteIt =>
    if self.origInfo.isNone then ({ self with info := none, storage := [] }, true)
    else ({ self with info := none, storage := self.storage.map (fun e => (e.1, { e.2 with present := 0 })) }, false)
  | .revertTo i => (applyStorage { self with info := some i }, false)

/-! ## BundleState -/
structure BState where
  state : BMap BAcct := []
  contracts : List Nat := []
  reverts : List (BMap ARevert) := []
deriving Repr

def Transition.presentBundleAccount (t : Transition) : BAcct := ⟨t.info, t.prevInfo, t.storage, t.status⟩
def Transition.originalBundleAccount (t : Transition) : BAcct := ⟨t.prevInfo, t.prevInfo, [], t.prevStatus⟩

def insertContract (cs : List Nat) (h : Nat) : List Nat := if cs.contains h then cs else h :: cs

/-- one iteration of the loop of `apply_transitions_and_create_reverts`:
returns the bundle and the revert of this account; `none` = panic -/
def applyOne (b : BState) (addr : Nat) (t : Transition) : Option (BState × Option ARevert) :=
  let contracts := match t.hasNewContract with | some h => insertContract b.contracts h | none => b.contracts
  match b.state.get addr with
  | some acc =>
    (updateAndCreateRevert acc t).map fun (acc', rev) =>
      ({ b with contracts := contracts, state := b.state.set addr acc' }, rev)
  | none =>
    (updateAndCreateRevert t.originalBundleAccount t).map fun (_, rev) =>
      match rev with
      | some r => ({ b with contracts := contracts, state := b.state.set addr t.presentBundleAccount }, some r)
      | none => ({ b with contracts := contracts }, none)

/-- `BundleState::apply_transitions_and_create_reverts` -/
def applyTransitions (b : BState) (ts : BMap Transition) (includeReverts : Bool) : Option BState :=
  let rec go (b : BState) (revs : BMap ARevert) : List (Nat × Transition) → Option (BState × BMap ARevert)
    | [] => some (b, revs)
    | (a, t) :: rest =>
      match applyOne b a t with
      | none => none
      | some (b', rev) =>
        go b' (match rev with
               | some r => if includeReverts then revs ++ [(a, r)] else revs
               | none => revs) rest
  (go b [] ts).map fun (b', revs) => { b' with reverts := b'.reverts ++ [revs] }

/-- `StateChangeset` (accounts, storage(address, wipe, slots), contracts) -/
structure Changeset where
  accounts : List (Nat × Option Info)
  storage : List (Nat × Bool × List (Nat × Nat))
  contracts : List Nat
deriving Repr

def BAcct.isInfoChanged (b : BAcct) : Bool := !(optSame b.info b.origInfo)

/-- storage part of `to_plain_state` for one account -/
def BAcct.plainStorage (known : Bool) (acc : BAcct) : List (Nat × Nat) :=
  let wd := acc.status.wasDestroyed
  (acc.storage.filter (fun e =>
      !known || (wd && e.2.present != 0) || (!wd && e.2.isChanged))).map (fun e => (e.1, e.2.present))

/-- `BundleState::to_plain_state`; `known = true` is `OriginalValuesKnown::Yes` -/
def toPlainState (b : BState) (known : Bool) : Changeset :=
  { accounts := b.state.filterMap (fun e =>
      if !known || e.2.isInfoChanged then some (e.1, e.2.info.map Info.withoutCode) else none),
    storage := b.state.filterMap (fun e =>
      let sl := e.2.plainStorage known
      if !sl.isEmpty || e.2.status.wasDestroyed then some (e.1, e.2.status.wasDestroyed, sl) else none),
    contracts := b.contracts.filter (· != 0) }

/-- `PlainStateReverts` of one block -/
structure PlainRevertBlock where
  accounts : List (Nat × Option Info)
  storage : List (Nat × Bool × List (Nat × RevSlot))
deriving Repr

def revertBlockToPlain (blk : BMap ARevert) : PlainRevertBlock :=
  { accounts := blk.filterMap (fun e => match e.2.account with
      | .revertTo i => some (e.1, some i)
      | .deleteIt => some (e.1, none)
      | .doNothing => none),
    storage := blk.filterMap (fun e =>
      if e.2.wipe || !e.2.storage.isEmpty then some (e.1, e.2.wipe, e.2.storage) else none) }

/-- `Reverts::to_plain_state_reverts` -/
def toPlainStateReverts (b : BState) : List PlainRevertBlock := b.reverts.map revertBlockToPlain

/-- `BundleState::extend_state` -/
def extendState (this : BMap BAcct) (other : BMap BAcct) : BMap BAcct :=
  other.foldl (fun acc e =>
    let o := e.2
    match acc.get e.1 with
    | some t =>
      let st := if o.status.wasDestroyed then o.storage else extendStorage t.storage o.storage
      acc.set e.1 { t with storage := st, info := o.info, status := t.status.transition o.status }
    | none => acc.set e.1 o) this

/-- the revert-rewriting loop of `BundleState::extend`: returns other's reverts and `self.state` -/
def extendReverts (state : BMap BAcct) (revs : List (BMap ARevert)) : BMap BAcct × List (BMap ARevert) :=
  let stepAcc (state : BMap BAcct) (e : Nat × ARevert) : BMap BAcct × (Nat × ARevert) :=
    if e.2.wipe then
      match state.get e.1 with
      | some ta =>
        let st := ta.storage.foldl (fun acc s => match acc.get s.1 with
          | none => acc.set s.1 (RevSlot.some s.2.present)
          | some _ => acc) e.2.storage
        (state.set e.1 { ta with storage := [] },
         (e.1, { e.2 with storage := st, wipe := if ta.status.wasDestroyed then false else e.2.wipe }))
      | none => (state, e)
    else (state, e)
  let stepBlk (state : BMap BAcct) (blk : BMap ARevert) : BMap BAcct × BMap ARevert :=
    blk.foldl (fun (acc : BMap BAcct × BMap ARevert) e =>
      let r := stepAcc acc.1 e
      (r.1, acc.2 ++ [r.2])) (state, [])
  revs.foldl (fun (acc : BMap BAcct × List (BMap ARevert)) blk =>
    let r := stepBlk acc.1 blk
    (r.1, acc.2 ++ [r.2])) (state, [])

/-- `BundleState::extend` -/
def extend (this other : BState) : BState :=
  let (st, revs) := extendReverts this.state other.reverts
  { state := extendState st other.state,
    contracts := other.contracts.foldl insertContract this.contracts,
    reverts := this.reverts ++ revs }

/-- `BundleState::take_n_reverts` (with its `take_all_reverts` branch): (detached, rest) -/
def takeNReverts (b : BState) (n : Nat) : List (BMap ARevert) × BState :=
  if n > b.reverts.length then (b.reverts, { b with reverts := [] })
  else (b.reverts.take n, { b with reverts := b.reverts.drop n })

def takeAllReverts (b : BState) : List (BMap ARevert) × BState := (b.reverts, { b with reverts := [] })

/-- `BundleState::revert_latest` -/
def revertLatest (b : BState) : BState × Bool :=
  match b.reverts.getLast? with
  | none => (b, false)
  | some blk =>
    let st := blk.foldl (fun (st : BMap BAcct) e =>
      match st.get e.1 with
      | some acc =>
        let r := acc.revert e.2
        if r.2 then st.del e.1 else st.set e.1 r.1
      | none =>
        let r := (BAcct.mk none none [] .loadedNotExisting).revert e.2
        if r.2 then st else st.set e.1 r.1) b.state
    ({ b with state := st, reverts := b.reverts.dropLast }, true)

/-- `BundleState::revert(n)` -/
def revertN (b : BState) : Nat → BState
  | 0 => b
  | n + 1 =>
    let r := revertLatest b
    if r.2 then revertN r.1 n else r.1

/-- `BundleState::prepend_state`: result is `other` with its state extended by `self` -/
def prependState (self other : BState) : BState :=
  { state := extendState other.state self.state,
    contracts := self.contracts.foldl insertContract other.contracts,
    reverts := other.reverts }

/-! ## `State` (with_bundle_update, no preloaded bundle) -/
structure SState where
  db : BMap Info := []
  sc : Bool := true
  cache : BMap CacheAcct := []
  ts : BMap Transition := []
  bundle : BState := {}
deriving Repr

/-- `load_cache_account` -/
def SState.load (s : SState) (a : Nat) : SState × CacheAcct :=
  match s.cache.get a with
  | some c => (s, c)
  | none =>
    let c : CacheAcct := match s.db.get a with
      | none => ⟨none, .loadedNotExisting⟩
      | some i => if i.isEmpty then ⟨some Info.dflt, .loadedEmptyEIP161⟩ else ⟨some i, .loaded⟩
    ({ s with cache := s.cache.set a c }, c)

/-- `DatabaseCommit::commit` after every account has been loaded (as the EVM does); `none` = panic -/
def SState.commit (s : SState) (accts : List (Nat × EvmAcct)) : Option SState :=
  let rec go (s : SState) (trs : List (Nat × Transition)) : List (Nat × EvmAcct) → Option (SState × List (Nat × Transition))
    | [] => some (s, trs)
    | (a, ea) :: rest =>
      let (s1, c) := s.load a
      match applyAccountState s1.sc c ea with
      | none => none
      | some (c', tr) =>
        go { s1 with cache := s1.cache.set a c' }
           (match tr with | some t => trs ++ [(a, t)] | none => trs) rest
  (go s [] accts).map fun (s', trs) => { s' with ts := addTransitions s'.ts trs }

def satAddW (a b : Nat) : Nat := if a + b < 2^256 then a + b else 2^256 - 1

/-- `State::increment_balances` (zero amounts skipped) -/
def SState.incrementBalances (s : SState) (l : List (Nat × Nat)) : SState :=
  let (s', trs) := l.foldl (fun (acc : SState × List (Nat × Transition)) e =>
    if e.2 = 0 then acc else
    let (s1, c) := acc.1.load e.1
    let r := c.infoChange (fun i => { i with balance := satAddW i.balance e.2 })
    ({ s1 with cache := s1.cache.set e.1 r.1 }, acc.2 ++ [(e.1, r.2)])) (s, [])
  { s' with ts := addTransitions s'.ts trs }

/-- `State::drain_balances`; `none` = panic (`balance.try_into::<u128>().unwrap()`) -/
def SState.drainBalances (s : SState) (l : List Nat) : Option (SState × List Nat) :=
  let rec go (s : SState) (trs : List (Nat × Transition)) (bals : List Nat) : List Nat → Option (SState × List (Nat × Transition) × List Nat)
    | [] => some (s, trs, bals)
    | a :: rest =>
      let (s1, c) := s.load a
      let bal := (c.info.getD Info.dflt).balance
      if bal ≥ 2^128 then none else
      let r := c.infoChange (fun i => { i with balance := 0 })
      go { s1 with cache := s1.cache.set a r.1 } (trs ++ [(a, r.2)]) (bals ++ [bal]) rest
  (go s [] [] l).map fun (s', trs, bals) => ({ s' with ts := addTransitions s'.ts trs }, bals)

/-- `State::merge_transitions` -/
def SState.merge (s : SState) (includeReverts : Bool) : Option SState :=
  (applyTransitions s.bundle s.ts includeReverts).map fun b => { s with bundle := b, ts := [] }

end Revm.Model.Bundle
