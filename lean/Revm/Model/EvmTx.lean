import Revm.Model.EvmLoop
/-! Whole-transaction model, part 4: the transaction handler.

Rust sources mirrored: `crates/revm/src/evm.rs` (`transact`, `preverify_transaction_inner`,
`transact_preverified_inner`), `handler/mainnet/{validation,pre_execution,execution,post_execution}.rs`,
`primitives/src/env.rs` (`validate_block_env`, `validate_tx`, `validate_tx_against_state`, `effective_gas_price`,
`calc_data_fee`, `calc_max_data_fee`), in the order of effects of DESIGN.md Appendix B. -/
namespace Revm.Model.Evm
open Revm Revm.Model
open Revm.Model.GasCalc (enabled)

structure AccessItem where
  addr : Nat
  keys : List Nat
  deriving Repr

/-- one `RecoveredAuthorization`; `authority` is the recovered signer (`None` = invalid signature) -/
structure Auth where
  chainId : Nat
  address : Nat
  nonce : Nat
  authority : Option Nat
  deriving Repr

/-- `BlockEnv` -/
structure Block where
  number : Nat := 0
  coinbase : Nat := 0
  timestamp : Nat := 0
  gasLimit : Nat := 0
  basefee : Nat := 0
  difficulty : Nat := 0
  prevrandao : Option Nat := none
  /-- `blob_excess_gas_and_price.map(|x| x.blob_gasprice)` -/
  blobGasPrice : Option Nat := none
  deriving Repr

/-- `TxEnv` -/
structure Tx where
  caller : Nat := 0
  gasLimit : Nat := 0
  gasPrice : Nat := 0
  /-- `TxKind::Call(to)` / `TxKind::Create` -/
  to : Option Nat := none
  value : Nat := 0
  data : List Nat := []
  nonce : Option Nat := none
  chainId : Option Nat := none
  accessList : List AccessItem := []
  priorityFee : Option Nat := none
  blobHashes : List Nat := []
  maxFeePerBlobGas : Option Nat := none
  authList : Option (List Auth) := none
  deriving Repr

/-- the part of `CfgEnv` that is not left at its default -/
structure TxCfg where
  chainId : Nat := 1
  limitContractCodeSize : Option Nat := none
  deriving Repr

structure Env where
  cfg : TxCfg := {}
  block : Block := {}
  tx : Tx := {}
  deriving Repr

def GAS_PER_BLOB : Nat := 131072
def VERSIONED_HASH_VERSION_KZG : Nat := 1

/-- `Env::effective_gas_price` -/
def Env.effectiveGasPrice (e : Env) : Nat :=
  match e.tx.priorityFee with
  | some p => min e.tx.gasPrice (U256.wadd e.block.basefee p)
  | none => e.tx.gasPrice

/-- `TxEnv::get_total_blob_gas` -/
def Env.totalBlobGas (e : Env) : Nat := U64ops.wmul GAS_PER_BLOB e.tx.blobHashes.length

/-- `Env::calc_data_fee` -/
def Env.calcDataFee (e : Env) : Option Nat :=
  e.block.blobGasPrice.map fun p => U256.saturatingMul p e.totalBlobGas

/-- `Env::calc_max_data_fee` -/
def Env.calcMaxDataFee (e : Env) : Option Nat :=
  e.tx.maxFeePerBlobGas.map fun m => U256.saturatingMul m e.totalBlobGas

/-- `CfgEnv::blob_max_count` with the default table `[(CANCUN, 3, 6), (PRAGUE, 6, 9)]` -/
def blobMaxCount (spec : Nat) : Nat :=
  if spec ≥ GasCalc.SpecId.PRAGUE then 9 else if spec ≥ GasCalc.SpecId.CANCUN then 6 else 6

/-- the environment the instructions read (`host.env()`) -/
def Env.interpEnv (e : Env) : Interp.Env :=
  { chainId := e.cfg.chainId, coinbase := e.block.coinbase, timestamp := e.block.timestamp, number := e.block.number,
    difficulty := e.block.difficulty, prevrandao := e.block.prevrandao, gasLimit := e.block.gasLimit,
    basefee := e.block.basefee, gasPrice := e.tx.gasPrice, priorityFee := e.tx.priorityFee, origin := e.tx.caller,
    blobHashes := e.tx.blobHashes, blobGasPrice := e.block.blobGasPrice,
    limitContractCodeSize := e.cfg.limitContractCodeSize }

def MAX_CODE_SIZE : Nat := 0x6000
def MAX_INITCODE_SIZE : Nat := 2 * MAX_CODE_SIZE

def Env.toCfg (e : Env) (spec : Nat) : Cfg :=
  { spec := spec, env := e.interpEnv, he := { blockNumber := e.block.number },
    maxCodeSize := e.cfg.limitContractCodeSize.getD MAX_CODE_SIZE }

/-! ## validation (only accept / reject is modelled; the error kinds belong to C02) -/

/-- `validate_block_env` and `validate_tx`: `true` = accepted. `panic` = `expect("already checked")`. -/
def validateEnv (e : Env) (spec : Nat) : R Bool := do
  -- block
  if enabled spec GasCalc.SpecId.MERGE ∧ e.block.prevrandao.isNone then return false
  if enabled spec GasCalc.SpecId.CANCUN ∧ e.block.blobGasPrice.isNone then return false
  -- tx
  if let some c := e.tx.chainId then
    if c ≠ e.cfg.chainId then return false
  if e.tx.gasLimit > e.block.gasLimit then return false
  if !enabled spec GasCalc.SpecId.BERLIN ∧ !e.tx.accessList.isEmpty then return false
  if enabled spec GasCalc.SpecId.LONDON then
    if let some p := e.tx.priorityFee then
      if p > e.tx.gasPrice then return false
    if e.effectiveGasPrice < e.block.basefee then return false
  if enabled spec GasCalc.SpecId.SHANGHAI ∧ e.tx.to.isNone then
    let maxInit := match e.cfg.limitContractCodeSize with
      | some l => U64ops.saturatingMul l 2
      | none => MAX_INITCODE_SIZE
    if e.tx.data.length > maxInit then return false
  if !enabled spec GasCalc.SpecId.CANCUN ∧ (e.tx.maxFeePerBlobGas.isSome ∨ !e.tx.blobHashes.isEmpty) then return false
  match e.tx.maxFeePerBlobGas with
  | some mx =>
    let some price := e.block.blobGasPrice | throw (.panic "already checked")
    if price > mx then return false
    if e.tx.blobHashes.isEmpty then return false
    if e.tx.to.isNone then return false
    if e.tx.blobHashes.any (fun h => h / 2^248 != VERSIONED_HASH_VERSION_KZG) then return false
    if enabled spec GasCalc.SpecId.CANCUN ∧ e.tx.blobHashes.length > blobMaxCount spec then return false
  | none =>
    if !e.tx.blobHashes.isEmpty then return false
  if !enabled spec GasCalc.SpecId.PRAGUE ∧ e.tx.authList.isSome then return false
  if let some l := e.tx.authList then
    if l.isEmpty then return false
    if e.tx.maxFeePerBlobGas.isSome ∨ !e.tx.blobHashes.isEmpty then return false
    if e.tx.to.isNone then return false
  return true

/-- `validate_tx_against_state` on the loaded caller: `true` = accepted -/
def validateAgainstState (e : Env) (spec : Nat) (callerCode : List Nat) (info : Journal.Info) : Bool := Id.run do
  -- EIP-3607
  if !callerCode.isEmpty ∧ (delegateOf callerCode).isNone then return false
  if let some n := e.tx.nonce then
    if n ≠ info.nonce then return false
    if n = U64 - 1 then return false
  let some gasCost := U256.checkedMul e.tx.gasLimit e.tx.gasPrice | return false
  let some check := U256.checkedAdd gasCost e.tx.value | return false
  let check? : Option Nat :=
    if enabled spec GasCalc.SpecId.CANCUN then U256.checkedAdd check (e.calcMaxDataFee.getD 0) else some check
  let some check := check? | return false
  if check > info.balance then return false
  return true

/-! ## pre-execution -/

/-- `load_accounts` + `set_precompiles`: the spec of the journal, the pre-warmed addresses, the access list -/
def loadAccounts (e : Env) (spec : Nat) (w : World) : World :=
  let pre0 := w.js.preloaded
  -- EIP-3651: warm COINBASE (no other address is pre-warmed: the early EIP-2935 draft address no longer is)
  let coinbaseWarm := enabled spec GasCalc.SpecId.SHANGHAI
  let js0 := w.js
  let pre' : Nat → Bool := fun a => pre0 a || (coinbaseWarm && a == e.block.coinbase)
  let js := { js0 with spec := spec, preloaded := pre' }
  let w := { w with js := js }
  -- load access list
  let w := e.tx.accessList.foldl (fun w it =>
    let w := { w with js := Journal.initialAccountLoad w.db w.js it.addr it.keys }.noteAddr it.addr
    it.keys.foldl (fun w k => w.noteSlot it.addr k) w) w
  -- set_precompiles
  let pre1 := w.js.preloaded
  let js1 := w.js
  { w with js := { js1 with preloaded := fun a => pre1 a || isPrecompile spec a } }

/-- `deduct_caller` (nothing of it is journaled) -/
def deductCaller (e : Env) (spec : Nat) (w : World) : R World := do
  let (w, _) ← w.loadAccount e.tx.caller
  let acc ← w.acct e.tx.caller
  let gasCost := U256.saturatingMul e.tx.gasLimit e.effectiveGasPrice
  let gasCost ← (if enabled spec GasCalc.SpecId.CANCUN then do
      let fee ← ofOpt "already checked" e.calcDataFee
      pure (U256.saturatingAdd gasCost fee)
    else pure gasCost : R Nat)
  let info := { acc.info with balance := U256.saturatingSub acc.info.balance gasCost }
  let info := if e.tx.to.isSome then { info with nonce := U64ops.saturatingAdd info.nonce 1 } else info
  pure { w with js := Journal.setAcct w.js e.tx.caller { acc with info := info, touched := true } }

def PER_EMPTY_ACCOUNT_COST : Nat := 25000
def PER_AUTH_BASE_COST : Nat := 12500

/-- the designator `0xef0100 ++ address` -/
def designator (a : Nat) : List Nat := [0xef, 0x01, 0x00] ++ Keccak.beBytes 20 a

/-- one authorization of `apply_eip7702_auth_list`: the world and whether the authority counts for the refund -/
def applyAuth (e : Env) (w : World) (a : Auth) : R (World × Bool) := do
  -- 1. chain id
  if a.chainId ≠ 0 ∧ a.chainId ≠ e.cfg.chainId then return (w, false)
  -- 2. nonce
  if a.nonce = U64 - 1 then return (w, false)
  -- 3. authority
  let some authority := a.authority | return (w, false)
  -- 4. warm the authority
  let (w, _) ← w.loadCode authority
  let acc ← w.acct authority
  -- 5. the code is empty or a delegation
  let h ← ofOpt "code not cached" acc.info.code
  let code ← ofOpt "code_by_hash" (w.codeOf h)
  if !code.isEmpty ∧ (delegateOf code).isNone then return (w, false)
  -- 6. nonce
  if a.nonce ≠ acc.info.nonce then return (w, false)
  -- 7. refund if the authority exists in the trie
  let refunded := !acc.info.isEmpty
  -- 8. set the code
  let (hash, w) :=
    if a.address = 0 then (KECCAK_EMPTY, w)
    else
      let bytes := designator a.address
      let hh := Keccak.keccak256w bytes
      (hh, w.addCode hh bytes)
  -- 9. nonce + 1, touch
  let info := { acc.info with codeHash := hash, code := some hash, nonce := U64ops.saturatingAdd acc.info.nonce 1 }
  pure ({ w with js := Journal.setAcct w.js authority { acc with info := info, touched := true } }, refunded)

/-- `apply_eip7702_auth_list`: the refund in gas -/
def applyAuthList (e : Env) (spec : Nat) (w : World) : R (World × Nat) := do
  if !enabled spec GasCalc.SpecId.PRAGUE then return (w, 0)
  let some l := e.tx.authList | return (w, 0)
  let mut w := w
  let mut n := 0
  for a in l do
    let (w', r) ← applyAuth e w a
    w := w'
    if r then n := n + 1
  pure (w, U64ops.wmul n (PER_EMPTY_ACCOUNT_COST - PER_AUTH_BASE_COST))

/-! ## result -/

inductive ResultClass | success | revert | halt
  deriving DecidableEq, Repr

def ResultClass.name : ResultClass → String
  | .success => "success" | .revert => "revert" | .halt => "halt"

/-- `SuccessOrHalt::from`; `none` = the internal flags on which `output` panics -/
def classOf : Interp.IResult → Option ResultClass
  | .Stop | .Return | .SelfDestruct | .ReturnContract => some .success
  | .Revert | .CreateInitCodeStartingEF00 | .InvalidEOFInitCode => some .revert
  | .Continue | .CallOrCreate | .FatalExternalError | .InvalidExtDelegateCallTarget => none
  | _ => some .halt

/-- `ExecutionResult` reduced to what the property names -/
structure TxResult where
  cls : ResultClass
  /-- the `InstructionResult` behind the class (not compared; for localisation) -/
  reason : Interp.IResult
  gasUsed : Nat
  /-- `Success` only -/
  gasRefunded : Nat
  /-- `Success`: the output; `Revert`: the revert data; `Halt`: nothing -/
  output : List Nat
  /-- `Output::Create(_, address)` of a successful create transaction -/
  created : Option Nat
  /-- `Success` only -/
  logs : List LogRec

inductive Outcome
  /-- `Err(EVMError::Transaction(_) | EVMError::Header(_))`: nothing executed -/
  | rejected
  | executed (r : TxResult)

/-- `transact_preverified_inner` up to the first frame: `load_accounts`, `set_precompiles`, `deduct_caller`, the EIP-7702
list, `exec.call` / `exec.create`. Result: the first frame or its early result, the world, whether the transaction is a
create, and the EIP-7702 refund -/
def prepare {κ : Type} (C : CpOps κ) (e : Env) (spec initialGas : Nat) (w : World) :
    R (FrameOrResult κ × World × Bool × Nat) := do
  let cfg := e.toCfg spec
  let w := loadAccounts e spec w
  let w ← deductCaller e spec w
  let gasLimit := U64ops.wsub e.tx.gasLimit initialGas
  let (w, eip7702Refund) ← applyAuthList e spec w
  -- first frame
  let mem0 := Memory.new
  match e.tx.to with
  | some to => do
    let inputs : Interp.CallInputs :=
      { input := e.tx.data, retStart := 0, retEnd := 0, gasLimit := gasLimit, bytecodeAddress := to,
        targetAddress := to, caller := e.tx.caller, valueTransfer := true, value := e.tx.value, scheme := .call,
        isStatic := false, isEof := false }
    let (f, w) ← makeCallFrame C cfg w inputs mem0
    pure (f, w, false, eip7702Refund)
  | none => do
    let inputs : Interp.CreateInputs :=
      { caller := e.tx.caller, salt := none, value := e.tx.value, initCode := e.tx.data, gasLimit := gasLimit }
    let (f, w) ← makeCreateFrame C cfg w inputs mem0
    pure (f, w, true, eip7702Refund)

/-- `run_the_loop` on the first frame, or its early result -/
def runFirst {κ : Type} (C : CpOps κ) (cfg : Cfg) (fuel : Nat) (first : FrameOrResult κ) (w : World) :
    R (Interp.ChildResult × World) :=
  match first with
  | .frame f => runLoop C cfg fuel [f] w
  | .result r => pure (r, w)

/-- the gas meter of the transaction after `last_frame_return`, `refund` and the EIP-7623 floor -/
def finalGas (e : Env) (spec floorGas eip7702Refund : Nat) (res : Interp.ChildResult) : Gas.Gas :=
  -- last_frame_return
  let gas := Gas.newSpent e.tx.gasLimit
  let gas :=
    if res.result.isOk then Gas.recordRefund (Gas.eraseCost gas res.gasRemaining) res.gasRefunded
    else if res.result.isRevert then Gas.eraseCost gas res.gasRemaining
    else gas
  -- refund
  let gas := Gas.recordRefund gas (Gas.u64AsI64 eip7702Refund)
  let gas := Gas.setFinalRefund gas (enabled spec GasCalc.SpecId.LONDON)
  -- EIP-7623 floor
  if Gas.spentSubRefunded gas < floorGas then Gas.setRefund (Gas.setSpent gas floorGas) 0 else gas

/-- `output`: the `ExecutionResult` of a class, from the first frame's result, the final meter and the logs -/
def txResultOf (cls : ResultClass) (res : Interp.ChildResult) (isCreate : Bool) (gas : Gas.Gas) (logs : List LogRec) :
    TxResult :=
  let gasRefunded := Gas.i64AsU64 gas.refunded
  let finalGasUsed := U64ops.wsub (Gas.spent gas) gasRefunded
  match cls with
  | .success => { cls := cls, reason := res.result, gasUsed := finalGasUsed, gasRefunded := gasRefunded,
                  output := res.output, created := if isCreate then res.address else none, logs := logs }
  | .revert => { cls := cls, reason := res.result, gasUsed := finalGasUsed, gasRefunded := 0, output := res.output,
                 created := none, logs := [] }
  | .halt => { cls := cls, reason := res.result, gasUsed := finalGasUsed, gasRefunded := 0, output := [],
               created := none, logs := [] }

/-- `reimburse_caller`, `reward_beneficiary`, `output` -/
def finish (e : Env) (spec floorGas eip7702Refund : Nat) (isCreate : Bool) (res : Interp.ChildResult) (w : World) :
    R (TxResult × World) := do
  let gas := finalGas e spec floorGas eip7702Refund res
  -- reimburse_caller
  let price := e.effectiveGasPrice
  let (w, _) ← w.loadAccount e.tx.caller
  let cacc ← w.acct e.tx.caller
  let back := U256.wmul price (U64ops.wadd gas.remaining (Gas.i64AsU64 gas.refunded))
  let cacc' := { cacc with info := { cacc.info with balance := U256.saturatingAdd cacc.info.balance back } }
  let w := { w with js := Journal.setAcct w.js e.tx.caller cacc' }
  -- reward_beneficiary
  let coinbasePrice := if enabled spec GasCalc.SpecId.LONDON then U256.saturatingSub price e.block.basefee else price
  let (w, _) ← w.loadAccount e.block.coinbase
  let bacc ← w.acct e.block.coinbase
  let reward := U256.wmul coinbasePrice (U64ops.wsub (Gas.spent gas) (Gas.i64AsU64 gas.refunded))
  let bacc' := { bacc with touched := true,
                           info := { bacc.info with balance := U256.saturatingAdd bacc.info.balance reward } }
  let w := { w with js := Journal.setAcct w.js e.block.coinbase bacc' }
  -- output
  let cls ← ofOpt "unexpected internal return flag" (classOf res.result)
  let logs := w.js.logs.filterMap (fun i => w.logs[i]?)
  pure (txResultOf cls res isCreate gas logs, w)

/-- `transact_preverified_inner` after validation -/
def execute {κ : Type} (C : CpOps κ) (fuel : Nat) (e : Env) (spec initialGas floorGas : Nat) (w : World) :
    R (TxResult × World) := do
  let (first, w, isCreate, eip7702Refund) ← prepare C e spec initialGas w
  let (res, w) ← runFirst C (e.toCfg spec) fuel first w
  finish e spec floorGas eip7702Refund isCreate res w

/-- `preverify_transaction_inner`: `validation.env`, `validation.initial_tx_gas`, `validation.tx_against_state`.
`none` = rejected; else the world with the caller loaded, the initial and the floor gas -/
def preverify (w : World) (e : Env) (spec : Nat) : R (Option (World × Nat × Nat)) := do
  -- validation.env
  if !(← validateEnv e spec) then return none
  -- validation.initial_tx_gas
  let (initialGas, floorGas) ← ofOpt "initcode_cost"
    (GasCalc.calculateInitialTxGas spec e.tx.data e.tx.to.isNone (e.tx.accessList.map (·.keys.length))
      (match e.tx.authList with | some l => l.length | none => 0))
  if initialGas > e.tx.gasLimit then return none
  if enabled spec GasCalc.SpecId.PRAGUE ∧ floorGas > e.tx.gasLimit then return none
  -- validation.tx_against_state
  let (w, _) ← w.loadCode e.tx.caller
  let acc ← w.acct e.tx.caller
  let h ← ofOpt "code not cached" acc.info.code
  let code ← ofOpt "code_by_hash" (w.codeOf h)
  if !validateAgainstState e spec code acc.info then return none
  return some (w, initialGas, floorGas)

/-- `Evm::transact` over a subroutine discipline `C` -/
def transactWith {κ : Type} (C : CpOps κ) (fuel : Nat) (w : World) (e : Env) (spec : Nat) : R (Outcome × World) := do
  let spec := GasCalc.canon spec
  match ← preverify w e spec with
  | none => pure (.rejected, w)
  | some (w', initialGas, floorGas) => do
    let (r, w'') ← execute C fuel e spec initialGas floorGas w'
    pure (.executed r, w'')

/-- `Evm::transact` on a fresh `Evm` (journal `JournaledState::new(spec, ∅)`); `spec` is the SpecId given to the
builder, canonicalised like `spec_to_generic!` does -/
def transact (fuel : Nat) (w : World) (e : Env) (spec : Nat) : R (Outcome × World) :=
  transactWith journalOps fuel w e spec

end Revm.Model.Evm
