import Revm.Util.Word
/-! Code-shaped model of the blob-fee helpers of `crates/primitives/src/utilities.rs`
(`calc_excess_blob_gas`, `calc_blob_gasprice`, `fake_exponential`) and of
`BlobExcessGasAndPrice::{new, from_parent_and_target}` (`env.rs`).

Rust integer semantics: the arithmetic is plain `+ * /` on `u64` / `u128`. In the **release** profile
(the profile the harness is built with; `overflow-checks` off) `+` and `*` wrap modulo 2^64 / 2^128; in
the **debug** profile (`overflow-checks` on) they panic. Both are modelled: `wrap = true` is the release
behaviour, `wrap = false` the debug behaviour. Division by zero panics in both.

The Rust `while` loop has no bound; the model takes `fuel` (number of loop iterations allowed) and
answers `none` when it runs out, never a default value. `fuel_mono` (Proofs) shows the answer does not
depend on the fuel once it is `some`. -/
namespace Revm.Model.Blob
open Revm

/-- result of a Rust call that may panic -/
inductive Res (α : Type) where
  | ok (v : α)
  | panic
  deriving DecidableEq, Repr

def MIN_BLOB_GASPRICE : Nat := 1
def BLOB_BASE_FEE_UPDATE_FRACTION_CANCUN : Nat := 3338477
def BLOB_BASE_FEE_UPDATE_FRACTION_ELECTRA : Nat := 5007716

/-- `a + b` on `u64`: wraps (release) or panics (debug) -/
def add64 (wrap : Bool) (a b : Nat) : Res Nat :=
  if a + b < U64 then .ok (a + b) else if wrap then .ok ((a + b) % U64) else .panic

/-- `calc_excess_blob_gas`: `(excess + used).saturating_sub(target)` -/
def calcExcessBlobGas (wrap : Bool) (parentExcess parentUsed parentTarget : Nat) : Res Nat :=
  match add64 wrap parentExcess parentUsed with
  | .ok s => .ok (U64ops.saturatingSub s parentTarget)
  | .panic => .panic

/-- `a + b` on `u128` -/
def add128 (wrap : Bool) (a b : Nat) : Res Nat :=
  if a + b < U128 then .ok (a + b) else if wrap then .ok ((a + b) % U128) else .panic
/-- `a * b` on `u128` -/
def mul128 (wrap : Bool) (a b : Nat) : Res Nat :=
  if a * b < U128 then .ok (a * b) else if wrap then .ok ((a * b) % U128) else .panic

/-- the `while numerator_accum > 0 { … }` loop of `fake_exponential` followed by
`output / denominator`; all variables are `u128`. Order of the operations as in the Rust body:
`output += accum; accum = (accum * numerator) / (denominator * i); i += 1`. -/
def fakeExpLoop (wrap : Bool) : (fuel i output accum numerator denominator : Nat) → Option (Res Nat)
  | 0, _, _, _, _, _ => none
  | fuel+1, i, output, accum, numerator, denominator =>
    if accum > 0 then
      match add128 wrap output accum with
      | .panic => some .panic
      | .ok output' =>
        match mul128 wrap accum numerator with
        | .panic => some .panic
        | .ok prod =>
          match mul128 wrap denominator i with
          | .panic => some .panic
          | .ok den =>
            if den = 0 then some .panic else
            match add128 wrap i 1 with
            | .panic => some .panic
            | .ok i' => fakeExpLoop wrap fuel i' output' (prod / den) numerator denominator
    else some (.ok (output / denominator))

/-- `fake_exponential(factor: u64, numerator: u64, denominator: u64) -> u128`;
`assert_ne!(denominator, 0)` panics first. `factor * denominator` is a product of two values
below 2^64 taken in `u128`, which cannot overflow; it is still routed through `mul128`. -/
def fakeExponential (wrap : Bool) (fuel factor numerator denominator : Nat) : Option (Res Nat) :=
  if denominator = 0 then some .panic else
  match mul128 wrap factor denominator with
  | .panic => some .panic
  | .ok acc0 => fakeExpLoop wrap fuel 1 0 acc0 numerator denominator

/-- `calc_blob_gasprice(excess_blob_gas, is_prague)` -/
def calcBlobGasprice (wrap : Bool) (fuel excess : Nat) (isPrague : Bool) : Option (Res Nat) :=
  fakeExponential wrap fuel MIN_BLOB_GASPRICE excess
    (if isPrague then BLOB_BASE_FEE_UPDATE_FRACTION_ELECTRA else BLOB_BASE_FEE_UPDATE_FRACTION_CANCUN)

/-- `BlobExcessGasAndPrice { excess_blob_gas, blob_gasprice }` -/
structure BlobExcessGasAndPrice where
  excessBlobGas : Nat
  blobGasprice : Nat
  deriving DecidableEq, Repr

/-- `BlobExcessGasAndPrice::new` -/
def BlobExcessGasAndPrice.new (wrap : Bool) (fuel excess : Nat) (isPrague : Bool) :
    Option (Res BlobExcessGasAndPrice) :=
  match calcBlobGasprice wrap fuel excess isPrague with
  | none => none
  | some .panic => some .panic
  | some (.ok p) => some (.ok ⟨excess, p⟩)

/-- `BlobExcessGasAndPrice::from_parent_and_target` -/
def BlobExcessGasAndPrice.fromParentAndTarget (wrap : Bool) (fuel pe pu pt : Nat) (isPrague : Bool) :
    Option (Res BlobExcessGasAndPrice) :=
  match calcExcessBlobGas wrap pe pu pt with
  | .panic => some .panic
  | .ok e => BlobExcessGasAndPrice.new wrap fuel e isPrague

end Revm.Model.Blob
