import Revm.Util.Word
/-! Code-shaped model of the blob-fee helpers of `crates/primitives/src/utilities.rs`
(`calc_excess_blob_gas`, `calc_blob_gasprice`, `fake_exponential`) and of
`BlobExcessGasAndPrice::{new, from_parent_and_target}` (`env.rs`), **as repaired** by the commit
"fix: blob fee helpers wrapped silently on large excess blob gas":

* `fake_exponential` keeps its intermediates in ruint `U256`; `output + accum` and `accum * numerator`
  are `checked_add` / `checked_mul` and the function returns `u128::MAX` when one of them does not
  fit in 256 bits; `factor * denominator`, `denominator * i` and `i += 1` are ruint's wrapping
  operators; the final quotient goes through `u128::try_from(..).unwrap_or(u128::MAX)`.
* `calc_excess_blob_gas` adds in `u128`, `saturating_sub`s the target and converts with
  `u64::try_from(..).unwrap_or(u64::MAX)`.

There is one profile now (ruint operators behave the same in debug and release; the `u128` addition
of two `u64` values cannot overflow). The only panics left are `assert_ne!(denominator, 0)` and
ruint's division by zero (modelled, proved unreachable for a non-zero denominator).

The Rust `while` loop has no bound; the model takes `fuel` (iterations allowed) and answers `none`
when it runs out, never a default value. The answer is proved independent of the fuel. -/
namespace Revm.Model.Blob
open Revm

/-- result of a Rust call that may panic -/
inductive Res (α : Type) where
  | ok (v : α)
  | panic
  deriving DecidableEq, Repr

def MIN_BLOB_GASPRICE : Nat := 1
def BLOB_BASE_FEE_UPDATE_FRACTION_CANCUN : Nat := 3338477
def BLOB_BASE_FEE_UPDATE_FRACTION_ELECTRA : Nat := 5007716

def U128_MAX : Nat := U128 - 1
def U64_MAX : Nat := U64 - 1

/-- `calc_excess_blob_gas`:
`let sum = excess as u128 + used as u128; u64::try_from(sum.saturating_sub(target as u128)).unwrap_or(u64::MAX)` -/
def calcExcessBlobGas (parentExcess parentUsed parentTarget : Nat) : Nat :=
  let sum := (parentExcess + parentUsed) % U128
  let diff := sum - parentTarget
  if diff < U64 then diff else U64_MAX

/-- `u128::try_from(q).unwrap_or(u128::MAX)` -/
def toU128Sat (q : Nat) : Nat := if q < U128 then q else U128_MAX

/-- the `while !numerator_accum.is_zero() { … }` loop of `fake_exponential` followed by
`u128::try_from(output / denominator).unwrap_or(u128::MAX)`; all variables are `U256`. Order of the
operations as in the Rust body: `checked_add`, `checked_mul`, `denominator * i` (wrapping),
division (ruint panics on a zero divisor), `i += 1` (wrapping). -/
def fakeExpLoop : (fuel i output accum numerator denominator : Nat) → Option (Res Nat)
  | 0, _, _, _, _, _ => none
  | fuel+1, i, output, accum, numerator, denominator =>
    if accum > 0 then
      match U256.checkedAdd output accum with
      | none => some (.ok U128_MAX)
      | some sum =>
        match U256.checkedMul accum numerator with
        | none => some (.ok U128_MAX)
        | some product =>
          let den := U256.wmul denominator i
          if den = 0 then some .panic else
          fakeExpLoop fuel (U256.wadd i 1) sum (product / den) numerator denominator
    else
      if denominator = 0 then some .panic else some (.ok (toU128Sat (output / denominator)))

/-- `fake_exponential(factor: u64, numerator: u64, denominator: u64) -> u128`;
`assert_ne!(denominator, 0)` panics first; `factor * denominator` is ruint's wrapping product -/
def fakeExponential (fuel factor numerator denominator : Nat) : Option (Res Nat) :=
  if denominator = 0 then some .panic else
  fakeExpLoop fuel 1 0 (U256.wmul factor denominator) numerator denominator

/-- `calc_blob_gasprice(excess_blob_gas, is_prague)` -/
def calcBlobGasprice (fuel excess : Nat) (isPrague : Bool) : Option (Res Nat) :=
  fakeExponential fuel MIN_BLOB_GASPRICE excess
    (if isPrague then BLOB_BASE_FEE_UPDATE_FRACTION_ELECTRA else BLOB_BASE_FEE_UPDATE_FRACTION_CANCUN)

/-- `BlobExcessGasAndPrice { excess_blob_gas, blob_gasprice }` -/
structure BlobExcessGasAndPrice where
  excessBlobGas : Nat
  blobGasprice : Nat
  deriving DecidableEq, Repr

/-- `BlobExcessGasAndPrice::new` -/
def BlobExcessGasAndPrice.new (fuel excess : Nat) (isPrague : Bool) :
    Option (Res BlobExcessGasAndPrice) :=
  match calcBlobGasprice fuel excess isPrague with
  | none => none
  | some .panic => some .panic
  | some (.ok p) => some (.ok ⟨excess, p⟩)

/-- `BlobExcessGasAndPrice::from_parent_and_target` -/
def BlobExcessGasAndPrice.fromParentAndTarget (fuel pe pu pt : Nat) (isPrague : Bool) :
    Option (Res BlobExcessGasAndPrice) :=
  BlobExcessGasAndPrice.new fuel (calcExcessBlobGas pe pu pt) isPrague

end Revm.Model.Blob
