import Revm.Model.Journal
/-! Code-shaped model of the balance effects of the transaction handler around the execution
(`crates/revm/src/handler/mainnet/{pre_execution,post_execution}.rs`, `primitives/src/env.rs`) and of
the journal part of `make_create_frame` (`context/evm_context.rs`).

* `deductCaller`      = `deduct_caller` / `deduct_caller_inner`: `gas_limit * effective_gas_price`
  (saturating) plus, from Cancun, the blob fee (saturating add), taken from the caller with
  `saturating_sub`; the value is NOT deducted here (it moves with the first frame's `transfer`).
* `reimburseCaller`   = `reimburse_caller`: `effective_gas_price * (remaining + refunded)`, wrapping
  256-bit multiplication, `u64` addition (wrapping in the release profile), `saturating_add`.
* `rewardBeneficiary` = `reward_beneficiary`: the coinbase price is the effective price minus the
  base fee from London on (`saturating_sub`), times `spent - refunded` (`u64` subtraction).
None of the three is journaled. `none` is a Rust panic (`expect`, `unwrap`). -/
namespace Revm.Model.TxFeeLegs
open Revm Revm.Model.Journal

def LONDON : Nat := 12

/-- the fields of `Env` the fee legs read -/
structure FeeEnv where
  caller : Addr
  coinbase : Addr
  /-- `tx.gas_limit : u64` -/
  gasLimit : Nat
  /-- `tx.gas_price` (the fee cap of an EIP-1559 transaction) -/
  gasPrice : Nat
  /-- `tx.gas_priority_fee` -/
  priorityFee : Option Nat
  basefee : Nat
  /-- `block.get_blob_gasprice() : Option<u128>` (`Some` whenever the block has blob data set) -/
  blobGasPrice : Option Nat
  /-- `tx.get_total_blob_gas() = GAS_PER_BLOB * blob_hashes.len()` -/
  totalBlobGas : Nat
  /-- `tx.transact_to` is `TxKind::Call` -/
  isCall : Bool

/-- `Env::effective_gas_price` (`basefee + priority_fee` is a wrapping 256-bit addition) -/
def effectiveGasPrice (e : FeeEnv) : Nat :=
  match e.priorityFee with
  | some p => min e.gasPrice (U256.wadd e.basefee p)
  | none => e.gasPrice

/-- `Env::calc_data_fee` -/
def calcDataFee (e : FeeEnv) : Option Nat :=
  e.blobGasPrice.map fun p => U256.saturatingMul p e.totalBlobGas

/-- the amount `deduct_caller_inner` subtracts; `none` = `expect("already checked")` on a Cancun
block without blob gas price -/
def gasCost (spec : Nat) (e : FeeEnv) : Option Nat :=
  let c := U256.saturatingMul e.gasLimit (effectiveGasPrice e)
  if spec ≥ CANCUN then (calcDataFee e).map fun d => U256.saturatingAdd c d else some c

/-- `deduct_caller_inner` -/
def deductCallerInner (spec : Nat) (acc : Acct) (e : FeeEnv) : Option Acct :=
  (gasCost spec e).map fun c =>
    let acc := { acc with info := { acc.info with balance := U256.saturatingSub acc.info.balance c } }
    let acc := if e.isCall then
        { acc with info := { acc.info with nonce := U64ops.saturatingAdd acc.info.nonce 1 } } else acc
    { acc with touched := true }

/-- `deduct_caller` -/
def deductCaller (db : Db) (s : JState) (spec : Nat) (e : FeeEnv) : Option JState := do
  let (s, _) ← loadAccount db s e.caller
  let acc ← s.state e.caller
  let acc ← deductCallerInner spec acc e
  some (setAcct s e.caller acc)

/-- the amount given back to the caller -/
def reimbursement (e : FeeEnv) (remaining refunded : Nat) : Nat :=
  U256.wmul (effectiveGasPrice e) (U64ops.wadd remaining refunded)

/-- `reimburse_caller` -/
def reimburseCaller (db : Db) (s : JState) (e : FeeEnv) (remaining refunded : Nat) : Option JState := do
  let (s, _) ← loadAccount db s e.caller
  let acc ← s.state e.caller
  some (setAcct s e.caller { acc with info := { acc.info with
    balance := U256.saturatingAdd acc.info.balance (reimbursement e remaining refunded) } })

/-- the price per gas the beneficiary receives -/
def coinbaseGasPrice (spec : Nat) (e : FeeEnv) : Nat :=
  if spec ≥ LONDON then U256.saturatingSub (effectiveGasPrice e) e.basefee else effectiveGasPrice e

/-- the amount credited to the beneficiary -/
def reward (spec : Nat) (e : FeeEnv) (spent refunded : Nat) : Nat :=
  U256.wmul (coinbaseGasPrice spec e) (U64ops.wsub spent refunded)

/-- `reward_beneficiary` -/
def rewardBeneficiary (db : Db) (s : JState) (spec : Nat) (e : FeeEnv) (spent refunded : Nat) : Option JState := do
  let (s, _) ← loadAccount db s e.coinbase
  let acc ← s.state e.coinbase
  some (setAcct s e.coinbase { acc with touched := true, info := { acc.info with
    balance := U256.saturatingAdd acc.info.balance (reward spec e spent refunded) } })

/-- the tail of `transact_preverified_inner`: `reimburse_caller`, then `reward_beneficiary` unless the
handler was built with `with_reward_beneficiary = false` -/
def postExecution (db : Db) (s : JState) (spec : Nat) (e : FeeEnv) (rewards : Bool)
    (remaining spent refunded : Nat) : Option JState := do
  let s ← reimburseCaller db s e remaining refunded
  if rewards then rewardBeneficiary db s spec e spent refunded else some s

/-! ## the journal part of `make_create_frame` -/

inductive CreateFrame
  | outOfFunds | nonceOverflow | collision | overflowPayment | frame (cp : Checkpoint)
deriving DecidableEq, Repr

/-- `make_create_frame` from the balance check on (the depth, EOF-prefix and precompile-address checks
return before anything is touched): load the caller's balance, `OutOfFunds` unless it covers the
endowment, bump the nonce, load the new account, `create_account_checkpoint`. -/
def makeCreateFrame (db : Db) (s : JState) (caller created : Addr) (hasStorage : Bool) (value spec : Nat) :
    Option (JState × CreateFrame) := do
  let (s, _) ← loadAccount db s caller
  let c ← s.state caller
  if c.info.balance < value then some (s, .outOfFunds) else
  let (s, n) ← incNonce s caller
  if n.isNone then some (s, .nonceOverflow) else
  let (s, _) ← loadAccount db s created
  let (s, r) ← createAccountCheckpoint s caller created hasStorage value spec
  match r with
  | .ok cp => some (s, .frame cp)
  | .error .collision => some (s, .collision)
  | .error .overflowPayment => some (s, .overflowPayment)

end Revm.Model.TxFeeLegs
