import Revm.Model.EvmHost
import Revm.Model.Precompile
/-! Whole-transaction model, part 2: the frame machine.

Rust sources mirrored (`crates/revm/src/context/evm_context.rs`, `inner_evm_context.rs`, `frame.rs`):
`make_call_frame`, `call_precompile`, `make_create_frame`, `call_return`, `create_return`, in the order of effects of
DESIGN.md Appendix B. EOF creation / EXT*CALL are outside the legacy scope of this model (Frontier … Prague). -/
namespace Revm.Model.Evm
open Revm Revm.Model
open Revm.Model.GasCalc (enabled)

/-- what is fixed during one transaction -/
structure Cfg where
  /-- the SpecId the handler runs (after `spec_to_generic!`) -/
  spec : Nat
  env : Interp.Env
  he : HostEnv
  /-- `cfg.max_code_size()` -/
  maxCodeSize : Nat := 0x6000

def CALL_STACK_LIMIT : Nat := 1024

/-- `PrecompileSpecId::from_spec_id` -/
def pcFork (spec : Nat) : Precompile.Fork :=
  if spec ≤ GasCalc.SpecId.SPURIOUS_DRAGON then .homestead
  else if spec ≤ GasCalc.SpecId.PETERSBURG then .byzantium
  else if spec ≤ GasCalc.SpecId.MUIR_GLACIER then .istanbul
  else if spec ≤ GasCalc.SpecId.SHANGHAI then .berlin
  else if spec = GasCalc.SpecId.CANCUN then .cancun
  else .prague

/-- `Precompiles::new(spec).contains(address)` -/
def isPrecompile (spec : Nat) (a : Nat) : Bool :=
  let f := (pcFork spec).idx
  (1 ≤ a && a ≤ 4) || (5 ≤ a && a ≤ 8 && f ≥ 1) || (a == 9 && f ≥ 2) || (a == 10 && f ≥ 4)
    || (11 ≤ a && a ≤ 17 && f ≥ 5)

/-- the precompile addresses of a spec (`addresses_set`) -/
def precompileAddrs (spec : Nat) : List Nat := (List.range 18).filter (isPrecompile spec)

/-- precompiles whose cryptographic core is not executable in Lean: their whole answer is taken from the recorded run -/
def isOraclePrecompile (a : Nat) : Bool := a == 1 || a == 8 || (10 ≤ a && a ≤ 17)

/-- the cores are never reached: the addresses that need them are answered by the oracle -/
def dummyCores : Precompile.Cores where
  recover := fun _ _ _ => none
  bnPair := { g2Valid := fun _ _ => false, pairingIsOne := fun _ => false }
  kzgVerify := fun _ _ _ _ => false
  bls := { g1OnCurve := fun _ _ => false, g1InSubgroup := fun _ _ => false, g2OnCurve := fun _ _ _ _ => false,
           g2InSubgroup := fun _ _ _ _ => false, g1Add := fun _ _ => [], g2Add := fun _ _ => [],
           g1Msm := fun _ => [], g2Msm := fun _ => [], pairingIsOne := fun _ => false, mapFp := fun _ => [],
           mapFp2 := fun _ _ => [] }

/-- `self.precompiles.call(address, input, gas_limit, ..)`; `none` = no precompile at the address -/
def runPrecompile (w : World) (spec : Nat) (a : Nat) (input : List Nat) (gasLimit : Nat) : R (Option Precompile.Res) :=
  if !isPrecompile spec a then pure none
  else if isOraclePrecompile a then
    match w.pcOracle.find? (fun p => p.addr == a && p.gasLimit == gasLimit && p.input == input) with
    | some p =>
      if p.cls = 0 then pure (some (.ok p.gasUsed p.out))
      else if p.cls = 1 then pure (some (.err .OutOfGas))
      else if p.cls = 2 then pure (some (.err .Other))
      else .error (.fatal "precompile")
    | none => .error (.oracleMiss s!"precompile {a} gas {gasLimit}")
  else pure (Precompile.call dummyCores (pcFork spec) a input gasLimit)

/-- `FrameData` + the kind-specific fields of `CallFrame` / `CreateFrame` -/
inductive FrameKind
  | call (retStart retEnd : Nat)
  | create (address : Nat)
  deriving Repr

/-- how the frame machine opens, closes and undoes a subroutine: the code does it with the journal
(`journalOps`: `checkpoint` / `checkpoint_commit` / `checkpoint_revert` and the undo entries); the specification
`Spec/Evm.lean` does it with whole-state snapshots. `κ` is what a frame keeps to be able to revert. -/
structure CpOps (κ : Type) where
  checkpoint : World → World × κ
  commit : World → World
  revert : World → κ → R World
  /-- `create_account_checkpoint(caller, address, address_has_storage, value, spec)` -/
  createCheckpoint : World → Nat → Nat → Bool → Nat → Nat → R (World × Except Journal.CreateErr κ)
  /-- `set_code_with_hash(address, code, hash)` of `create_return` (journaled: an outer revert undoes it) -/
  setCode : World → Nat → Nat → R World

/-- `JournaledState::{checkpoint, checkpoint_commit, checkpoint_revert, create_account_checkpoint}` -/
def journalOps : CpOps Journal.Checkpoint where
  checkpoint := World.checkpoint
  commit := World.commit
  revert := World.revert
  createCheckpoint := fun w caller a hasStorage value spec => do
    let (js, r) ← ofOpt "create_account_checkpoint"
      (Journal.createAccountCheckpoint w.js caller a hasStorage value spec)
    pure ({ w with js := js }, r)
  setCode := fun w a hash => do
    let js ← ofOpt "set_code" (Journal.setCode w.js a hash)
    pure { w with js := js }

structure Frame (κ : Type) where
  kind : FrameKind
  checkpoint : κ
  interp : Interp.IState

inductive FrameOrResult (κ : Type)
  | frame (f : Frame κ)
  | result (r : Interp.ChildResult)

/-- the `return_result` closure: nothing executed, all gas still there -/
def earlyResult (r : Interp.IResult) (gasLimit : Nat) : Interp.ChildResult :=
  { result := r, output := [], gasRemaining := gasLimit, gasRefunded := 0 }

/-- `EvmContext::make_call_frame`; `mem` is the shared memory the new frame would run on -/
def makeCallFrame {κ : Type} (C : CpOps κ) (cfg : Cfg) (w : World) (i : Interp.CallInputs)
    (mem : Memory.SharedMemory) : R (FrameOrResult κ × World) := do
  -- Check depth
  if w.js.depth > CALL_STACK_LIMIT then return (.result (earlyResult .CallTooDeep i.gasLimit), w)
  -- Make account warm and loaded
  let (w, _) ← w.loadAccountDelegated i.bytecodeAddress
  -- Create subroutine checkpoint
  let (w, cp) := C.checkpoint w
  -- Touch address / transfer
  let step : R (World × Option Interp.IResult) :=
    if i.valueTransfer then
      if i.value = 0 then do
        let (w, _) ← w.loadAccount i.targetAddress
        let w ← w.touch i.targetAddress
        pure (w, none)
      else do
        let (w, e) ← w.transfer i.caller i.targetAddress i.value
        match e with
        | none => pure (w, none)
        | some .outOfFunds => pure (w, some .OutOfFunds)
        | some .overflowPayment => pure (w, some .OverflowPayment)
    else pure (w, none)
  let (w, failed) ← step
  if let some r := failed then
    let w ← C.revert w cp
    return (.result (earlyResult r i.gasLimit), w)
  -- precompiles (never for EXTDELEGATECALL, which the legacy interpreter cannot issue)
  if let some res ← runPrecompile w cfg.spec i.bytecodeAddress i.input i.gasLimit then
    match res with
    | .ok gasUsed out =>
      if gasUsed ≤ i.gasLimit then
        return (.result { result := .Return, output := out, gasRemaining := i.gasLimit - gasUsed, gasRefunded := 0 },
                C.commit w)
      else
        let w ← C.revert w cp
        return (.result (earlyResult .PrecompileOOG i.gasLimit), w)
    | .err e =>
      let w ← C.revert w cp
      return (.result (earlyResult (if e = .OutOfGas then .PrecompileOOG else .PrecompileError) i.gasLimit), w)
    | .panic => throw (.panic "precompile")
  -- load account and bytecode
  let (w, _) ← w.loadCode i.bytecodeAddress
  let acc ← w.acct i.bytecodeAddress
  let h ← ofOpt "code not cached" acc.info.code
  let bytecode ← ofOpt "code_by_hash" (w.codeOf h)
  if bytecode.isEmpty then
    return (.result (earlyResult .Stop i.gasLimit), C.commit w)
  -- EIP-7702: one hop to the delegate's code
  let (w, bytecode) ← (match delegateOf bytecode with
    | some d => do
      let (w, _) ← w.loadCode d
      let dacc ← w.acct d
      let dh ← ofOpt "code not cached" dacc.info.code
      let dcode ← ofOpt "code_by_hash" (w.codeOf dh)
      pure (w, dcode)
    | none => pure (w, bytecode) : R (World × List Nat))
  let interp := Interp.IState.init bytecode i.input i.gasLimit i.isStatic cfg.spec i.targetAddress i.caller i.value
    cfg.env (Memory.newContext mem)
  pure (.frame { kind := .call i.retStart i.retEnd, checkpoint := cp, interp := interp }, w)

/-- `EvmContext::make_create_frame` -/
def makeCreateFrame {κ : Type} (C : CpOps κ) (cfg : Cfg) (w : World) (i : Interp.CreateInputs)
    (mem : Memory.SharedMemory) : R (FrameOrResult κ × World) := do
  let early (r : Interp.IResult) (w : World) : R (FrameOrResult κ × World) :=
    pure (.result (earlyResult r i.gasLimit), w)
  -- Check depth
  if w.js.depth > CALL_STACK_LIMIT then return ← early .CallTooDeep w
  -- Fetch balance of caller
  let (w, _) ← w.loadAccount i.caller
  let cacc ← w.acct i.caller
  if cacc.info.balance < i.value then return ← early .OutOfFunds w
  -- Increase nonce of caller and check if it overflows
  let (js, newNonce?) ← ofOpt "inc_nonce" (Journal.incNonce w.js i.caller)
  let w := { w with js := js }
  let some newNonce := newNonce? | return ← early .Return w
  let oldNonce := newNonce - 1
  -- Create address
  let created := match i.salt with
    | none => Keccak.createAddress i.caller oldNonce
    | some salt => Keccak.create2Address i.caller salt (Keccak.keccak256w i.initCode)
  -- created address is not allowed to be a precompile
  if isPrecompile cfg.spec created then return ← early .CreateCollision w
  -- warm load account
  let (w, _) ← w.loadAccount created
  let hasStorage := w.hasStorage created
  -- create account, transfer funds and make the journal checkpoint
  let (w, r) ← C.createCheckpoint w i.caller created hasStorage i.value cfg.spec
  match r with
  | .error .collision => early .CreateCollision w
  | .error .overflowPayment => early .OverflowPayment w
  | .ok cp =>
    let interp := Interp.IState.init i.initCode [] i.gasLimit false cfg.spec created i.caller i.value cfg.env
      (Memory.newContext mem)
    pure (.frame { kind := .create created, checkpoint := cp, interp := interp }, w)

/-- the `InterpreterResult` of a frame that ended -/
def resultOf (r : Interp.IResult) (out : List Nat) (s : Interp.IState) : Interp.ChildResult :=
  { result := r, output := out, gasRemaining := s.gas.remaining, gasRefunded := s.gas.refunded }

/-- `call_return` -/
def callReturn {κ : Type} (C : CpOps κ) (w : World) (cp : κ) (r : Interp.ChildResult) :
    R (Interp.ChildResult × World) :=
  if r.result.isOk then pure (r, C.commit w)
  else do
    let w ← C.revert w cp
    pure (r, w)

def CODEDEPOSIT : Nat := 200

/-- `create_return::<SPEC>` followed by `CreateOutcome::new(result, Some(address))` -/
def createReturn {κ : Type} (C : CpOps κ) (cfg : Cfg) (w : World) (cp : κ) (address : Nat)
    (r : Interp.ChildResult) : R (Interp.ChildResult × World) := do
  let r := { r with address := some address }
  -- if return is not ok revert and return
  if !r.result.isOk then
    let w ← C.revert w cp
    return (r, w)
  -- EIP-3541: Reject new contract code starting with the 0xEF byte
  if enabled cfg.spec GasCalc.SpecId.LONDON ∧ r.output.head? = some 0xEF then
    let w ← C.revert w cp
    return ({ r with result := .CreateContractStartingWithEF }, w)
  -- EIP-170: Contract code size limit
  if enabled cfg.spec GasCalc.SpecId.SPURIOUS_DRAGON ∧ r.output.length > cfg.maxCodeSize then
    let w ← C.revert w cp
    return ({ r with result := .CreateContractSizeLimit }, w)
  let gasForCode := U64ops.wmul r.output.length CODEDEPOSIT
  let (r, failed) :=
    if gasForCode ≤ r.gasRemaining then ({ r with gasRemaining := r.gasRemaining - gasForCode }, false)
    else (r, true)
  if failed ∧ enabled cfg.spec GasCalc.SpecId.HOMESTEAD then
    let w ← C.revert w cp
    return ({ r with result := .OutOfGas }, w)
  let r := if failed then { r with output := [] } else r
  -- if we have enough gas we can commit changes
  let w := C.commit w
  -- set code
  let hash := if r.output.isEmpty then KECCAK_EMPTY else Keccak.keccak256w r.output
  let w ← C.setCode w address hash
  let w := w.addCode hash r.output
  pure ({ r with result := .Return }, w)

end Revm.Model.Evm
