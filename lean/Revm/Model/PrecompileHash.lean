/-! Executable definitions of the hash functions behind three precompiles: SHA-256 (FIPS 180-4),
RIPEMD-160 (Dobbertin, Bosselaers, Preneel 1996) and the BLAKE2b compression function F (RFC 7693,
EIP-152). Bytes are `List Nat`; the word arithmetic uses Lean's `UInt32` / `UInt64` (wrapping, as in
the Rust crates `sha2`, `ripemd` and `revm_precompile::blake2::algo`). These definitions are
validated against the compiled crates by the correspondence stream, not proved against the RFCs. -/
namespace Revm.Model.PrecompileHash

abbrev Bytes := List Nat

/-- fixed-width big-endian bytes of `v` (low `w` bytes) -/
def toBEAux : Nat → Nat → Bytes → Bytes
  | 0, _, acc => acc
  | w+1, v, acc => toBEAux w (v / 256) ((v % 256) :: acc)
def toBE (w v : Nat) : Bytes := toBEAux w v []
/-- fixed-width little-endian bytes -/
def toLE : Nat → Nat → Bytes
  | 0, _ => []
  | w+1, v => (v % 256) :: toLE w (v / 256)
def beNat (bs : Bytes) : Nat := bs.foldl (fun acc b => acc * 256 + b) 0
def leNat : Bytes → Nat
  | [] => 0
  | b :: r => b + 256 * leNat r

/-! ## SHA-256 -/
namespace Sha256

def K : Array UInt32 := #[
  0x428a2f98, 0x71374491, 0xb5c0fbcf, 0xe9b5dba5, 0x3956c25b, 0x59f111f1, 0x923f82a4, 0xab1c5ed5,
  0xd807aa98, 0x12835b01, 0x243185be, 0x550c7dc3, 0x72be5d74, 0x80deb1fe, 0x9bdc06a7, 0xc19bf174,
  0xe49b69c1, 0xefbe4786, 0x0fc19dc6, 0x240ca1cc, 0x2de92c6f, 0x4a7484aa, 0x5cb0a9dc, 0x76f988da,
  0x983e5152, 0xa831c66d, 0xb00327c8, 0xbf597fc7, 0xc6e00bf3, 0xd5a79147, 0x06ca6351, 0x14292967,
  0x27b70a85, 0x2e1b2138, 0x4d2c6dfc, 0x53380d13, 0x650a7354, 0x766a0abb, 0x81c2c92e, 0x92722c85,
  0xa2bfe8a1, 0xa81a664b, 0xc24b8b70, 0xc76c51a3, 0xd192e819, 0xd6990624, 0xf40e3585, 0x106aa070,
  0x19a4c116, 0x1e376c08, 0x2748774c, 0x34b0bcb5, 0x391c0cb3, 0x4ed8aa4a, 0x5b9cca4f, 0x682e6ff3,
  0x748f82ee, 0x78a5636f, 0x84c87814, 0x8cc70208, 0x90befffa, 0xa4506ceb, 0xbef9a3f7, 0xc67178f2]

structure St where
  (a b c d e f g h : UInt32)

def init : St := ⟨0x6a09e667, 0xbb67ae85, 0x3c6ef372, 0xa54ff53a, 0x510e527f, 0x9b05688c, 0x1f83d9ab, 0x5be0cd19⟩

def rotr (x : UInt32) (n : UInt32) : UInt32 := (x >>> n) ||| (x <<< (32 - n))

def wordsBE : Bytes → List UInt32
  | a :: b :: c :: d :: r => UInt32.ofNat (((a * 256 + b) * 256 + c) * 256 + d) :: wordsBE r
  | _ => []

def schedule (block : List UInt32) : Array UInt32 := Id.run do
  let mut w : Array UInt32 := block.toArray
  for i in [16:64] do
    let w15 := w[i - 15]!
    let w2 := w[i - 2]!
    let s0 := rotr w15 7 ^^^ rotr w15 18 ^^^ (w15 >>> 3)
    let s1 := rotr w2 17 ^^^ rotr w2 19 ^^^ (w2 >>> 10)
    w := w.push (w[i - 16]! + s0 + w[i - 7]! + s1)
  return w

def compress (h : St) (block : List UInt32) : St := Id.run do
  let w := schedule block
  let mut s := h
  for i in [0:64] do
    let S1 := rotr s.e 6 ^^^ rotr s.e 11 ^^^ rotr s.e 25
    let ch := (s.e &&& s.f) ^^^ ((~~~ s.e) &&& s.g)
    let t1 := s.h + S1 + ch + K[i]! + w[i]!
    let S0 := rotr s.a 2 ^^^ rotr s.a 13 ^^^ rotr s.a 22
    let maj := (s.a &&& s.b) ^^^ (s.a &&& s.c) ^^^ (s.b &&& s.c)
    let t2 := S0 + maj
    s := ⟨t1 + t2, s.a, s.b, s.c, s.d + t1, s.e, s.f, s.g⟩
  return ⟨h.a + s.a, h.b + s.b, h.c + s.c, h.d + s.d, h.e + s.e, h.f + s.f, h.g + s.g, h.h + s.h⟩

def blocks : Nat → List UInt32 → St → St
  | 0, _, h => h
  | f+1, ws, h => if ws.length < 16 then h else blocks f (ws.drop 16) (compress h (ws.take 16))

def pad (msg : Bytes) : Bytes :=
  msg ++ [0x80] ++ List.replicate ((119 - msg.length % 64) % 64) 0 ++ toBE 8 (msg.length * 8)

def be4 (x : UInt32) : Bytes :=
  [x.toNat / 16777216 % 256, x.toNat / 65536 % 256, x.toNat / 256 % 256, x.toNat % 256]

def stBytes (s : St) : Bytes :=
  be4 s.a ++ be4 s.b ++ be4 s.c ++ be4 s.d ++ be4 s.e ++ be4 s.f ++ be4 s.g ++ be4 s.h

end Sha256

def sha256 (msg : Bytes) : Bytes :=
  let ws := Sha256.wordsBE (Sha256.pad msg)
  Sha256.stBytes (Sha256.blocks (ws.length / 16) ws Sha256.init)

/-! ## RIPEMD-160 -/
namespace Ripemd

def rl : Array Nat := #[
  0, 1, 2, 3, 4, 5, 6, 7, 8, 9, 10, 11, 12, 13, 14, 15,
  7, 4, 13, 1, 10, 6, 15, 3, 12, 0, 9, 5, 2, 14, 11, 8,
  3, 10, 14, 4, 9, 15, 8, 1, 2, 7, 0, 6, 13, 11, 5, 12,
  1, 9, 11, 10, 0, 8, 12, 4, 13, 3, 7, 15, 14, 5, 6, 2,
  4, 0, 5, 9, 7, 12, 2, 10, 14, 1, 3, 8, 11, 6, 15, 13]
def rr : Array Nat := #[
  5, 14, 7, 0, 9, 2, 11, 4, 13, 6, 15, 8, 1, 10, 3, 12,
  6, 11, 3, 7, 0, 13, 5, 10, 14, 15, 8, 12, 4, 9, 1, 2,
  15, 5, 1, 3, 7, 14, 6, 9, 11, 8, 12, 2, 10, 0, 4, 13,
  8, 6, 4, 1, 3, 11, 15, 0, 5, 12, 2, 13, 9, 7, 10, 14,
  12, 15, 10, 4, 1, 5, 8, 7, 6, 2, 13, 14, 0, 3, 9, 11]
def sl : Array UInt32 := #[
  11, 14, 15, 12, 5, 8, 7, 9, 11, 13, 14, 15, 6, 7, 9, 8,
  7, 6, 8, 13, 11, 9, 7, 15, 7, 12, 15, 9, 11, 7, 13, 12,
  11, 13, 6, 7, 14, 9, 13, 15, 14, 8, 13, 6, 5, 12, 7, 5,
  11, 12, 14, 15, 14, 15, 9, 8, 9, 14, 5, 6, 8, 6, 5, 12,
  9, 15, 5, 11, 6, 8, 13, 12, 5, 12, 13, 14, 11, 8, 5, 6]
def sr : Array UInt32 := #[
  8, 9, 9, 11, 13, 15, 15, 5, 7, 7, 8, 11, 14, 14, 12, 6,
  9, 13, 15, 7, 12, 8, 9, 11, 7, 7, 12, 7, 6, 15, 13, 11,
  9, 7, 15, 11, 8, 6, 6, 14, 12, 13, 5, 14, 13, 13, 7, 5,
  15, 5, 8, 11, 14, 14, 6, 14, 6, 9, 12, 9, 12, 5, 15, 8,
  8, 5, 12, 9, 12, 5, 14, 6, 8, 13, 6, 5, 15, 13, 11, 11]
def kl : Array UInt32 := #[0x00000000, 0x5a827999, 0x6ed9eba1, 0x8f1bbcdc, 0xa953fd4e]
def kr : Array UInt32 := #[0x50a28be6, 0x5c4dd124, 0x6d703ef3, 0x7a6d76e9, 0x00000000]

def rotl (x : UInt32) (n : UInt32) : UInt32 := (x <<< n) ||| (x >>> (32 - n))

def f (j : Nat) (x y z : UInt32) : UInt32 :=
  if j < 16 then x ^^^ y ^^^ z
  else if j < 32 then (x &&& y) ||| ((~~~ x) &&& z)
  else if j < 48 then (x ||| (~~~ y)) ^^^ z
  else if j < 64 then (x &&& z) ||| (y &&& (~~~ z))
  else x ^^^ (y ||| (~~~ z))

structure St where
  (a b c d e : UInt32)

def init : St := ⟨0x67452301, 0xefcdab89, 0x98badcfe, 0x10325476, 0xc3d2e1f0⟩

def wordsLE : Bytes → List UInt32
  | a :: b :: c :: d :: r => UInt32.ofNat (((d * 256 + c) * 256 + b) * 256 + a) :: wordsLE r
  | _ => []

def compress (h : St) (block : List UInt32) : St := Id.run do
  let x := block.toArray
  let mut l := h
  let mut r := h
  for j in [0:80] do
    let t := rotl (l.a + f j l.b l.c l.d + x[rl[j]!]! + kl[j / 16]!) sl[j]! + l.e
    l := ⟨l.e, t, l.b, rotl l.c 10, l.d⟩
    let t' := rotl (r.a + f (79 - j) r.b r.c r.d + x[rr[j]!]! + kr[j / 16]!) sr[j]! + r.e
    r := ⟨r.e, t', r.b, rotl r.c 10, r.d⟩
  return ⟨h.b + l.c + r.d, h.c + l.d + r.e, h.d + l.e + r.a, h.e + l.a + r.b, h.a + l.b + r.c⟩

def blocks : Nat → List UInt32 → St → St
  | 0, _, h => h
  | f+1, ws, h => if ws.length < 16 then h else blocks f (ws.drop 16) (compress h (ws.take 16))

def pad (msg : Bytes) : Bytes :=
  msg ++ [0x80] ++ List.replicate ((119 - msg.length % 64) % 64) 0 ++ toLE 8 (msg.length * 8)

def le4 (x : UInt32) : Bytes :=
  [x.toNat % 256, x.toNat / 256 % 256, x.toNat / 65536 % 256, x.toNat / 16777216 % 256]

def stBytes (s : St) : Bytes := le4 s.a ++ le4 s.b ++ le4 s.c ++ le4 s.d ++ le4 s.e

end Ripemd

/-- the 20-byte RIPEMD-160 digest -/
def ripemd160 (msg : Bytes) : Bytes :=
  let ws := Ripemd.wordsLE (Ripemd.pad msg)
  Ripemd.stBytes (Ripemd.blocks (ws.length / 16) ws Ripemd.init)

/-! ## BLAKE2b compression function F -/
namespace Blake2

def SIGMA : Array (Array Nat) := #[
  #[0, 1, 2, 3, 4, 5, 6, 7, 8, 9, 10, 11, 12, 13, 14, 15],
  #[14, 10, 4, 8, 9, 15, 13, 6, 1, 12, 0, 2, 11, 7, 5, 3],
  #[11, 8, 12, 0, 5, 2, 15, 13, 10, 14, 3, 6, 7, 1, 9, 4],
  #[7, 9, 3, 1, 13, 12, 11, 14, 2, 6, 5, 10, 4, 0, 15, 8],
  #[9, 0, 5, 7, 2, 4, 10, 15, 14, 1, 11, 12, 6, 8, 3, 13],
  #[2, 12, 6, 10, 0, 11, 8, 3, 4, 13, 7, 5, 15, 14, 1, 9],
  #[12, 5, 1, 15, 14, 13, 4, 10, 0, 7, 6, 3, 9, 2, 8, 11],
  #[13, 11, 7, 14, 12, 1, 3, 9, 5, 0, 15, 4, 8, 6, 2, 10],
  #[6, 15, 14, 9, 11, 3, 0, 8, 12, 2, 13, 7, 1, 4, 10, 5],
  #[10, 2, 8, 4, 7, 6, 1, 5, 15, 11, 9, 14, 3, 12, 13, 0]]

def IV : Array UInt64 := #[
  0x6a09e667f3bcc908, 0xbb67ae8584caa73b, 0x3c6ef372fe94f82b, 0xa54ff53a5f1d36f1,
  0x510e527fade682d1, 0x9b05688c2b3e6c1f, 0x1f83d9abfb41bd6b, 0x5be0cd19137e2179]

def rotr (x : UInt64) (n : UInt64) : UInt64 := (x >>> n) ||| (x <<< (64 - n))

def g (v : Array UInt64) (a b c d : Nat) (x y : UInt64) : Array UInt64 :=
  let v := v.set! a (v[a]! + v[b]! + x)
  let v := v.set! d (rotr (v[d]! ^^^ v[a]!) 32)
  let v := v.set! c (v[c]! + v[d]!)
  let v := v.set! b (rotr (v[b]! ^^^ v[c]!) 24)
  let v := v.set! a (v[a]! + v[b]! + y)
  let v := v.set! d (rotr (v[d]! ^^^ v[a]!) 16)
  let v := v.set! c (v[c]! + v[d]!)
  v.set! b (rotr (v[b]! ^^^ v[c]!) 63)

def round (m : Array UInt64) (v : Array UInt64) (i : Nat) : Array UInt64 :=
  let s := SIGMA[i % 10]!
  let v := g v 0 4 8 12 m[s[0]!]! m[s[1]!]!
  let v := g v 1 5 9 13 m[s[2]!]! m[s[3]!]!
  let v := g v 2 6 10 14 m[s[4]!]! m[s[5]!]!
  let v := g v 3 7 11 15 m[s[6]!]! m[s[7]!]!
  let v := g v 0 5 10 15 m[s[8]!]! m[s[9]!]!
  let v := g v 1 6 11 12 m[s[10]!]! m[s[11]!]!
  let v := g v 2 7 8 13 m[s[12]!]! m[s[13]!]!
  g v 3 4 9 14 m[s[14]!]! m[s[15]!]!

def rounds (m : Array UInt64) : Nat → Nat → Array UInt64 → Array UInt64
  | 0, _, v => v
  | n+1, i, v => rounds m n (i + 1) (round m v i)

/-- `algo::compress`: returns the new state vector `h` (8 words) -/
def compress (nrounds : Nat) (h m : Array UInt64) (t0 t1 : UInt64) (f : Bool) : Array UInt64 :=
  let v := h ++ IV
  let v := v.set! 12 (v[12]! ^^^ t0)
  let v := v.set! 13 (v[13]! ^^^ t1)
  let v := if f then v.set! 14 (~~~ v[14]!) else v
  let v := rounds m nrounds 0 v
  (Array.range 8).map (fun i => h[i]! ^^^ v[i]! ^^^ v[i + 8]!)

/-- split into 8-byte little-endian words -/
def wordsLE64 : Nat → Bytes → List UInt64
  | 0, _ => []
  | n+1, bs => UInt64.ofNat (leNat (bs.take 8)) :: wordsLE64 n (bs.drop 8)

end Blake2

/-- the 64-byte output of the BLAKE2F precompile for a well-formed 213-byte input (flag already decoded) -/
def blake2f (input : Bytes) (f : Bool) : Bytes :=
  let nrounds := beNat (input.take 4)
  let h := (Blake2.wordsLE64 8 ((input.drop 4).take 64)).toArray
  let m := (Blake2.wordsLE64 16 ((input.drop 68).take 128)).toArray
  let t0 := UInt64.ofNat (leNat ((input.drop 196).take 8))
  let t1 := UInt64.ofNat (leNat ((input.drop 204).take 8))
  let out := Blake2.compress nrounds h m t0 t1 f
  out.toList.flatMap (fun w => toLE 8 w.toNat)

end Revm.Model.PrecompileHash
