import Revm.Model.EvmFrame
/-! Whole-transaction model, part 3: `Evm::run_the_loop` — a stack of frames over one shared memory.

One unit of fuel is one `Interpreter::step` of the running (top) frame; `execute_frame` = the steps until the
interpreter hands out an action. The shared memory travels inside the running interpreter state (`IState.mem`), exactly
as `Interpreter::run` takes it and `take_memory` gives it back: `new_context` when a frame is pushed, `free_context`
when it returns; while a frame waits for its child, the `mem` field of its saved state is stale and is replaced by the
memory the child gives back before the outcome is inserted. -/
namespace Revm.Model.Evm
open Revm Revm.Model

/-- `insert_call_outcome` / `insert_create_outcome` into the waiting parent, chosen by the kind of the frame (or early
result) that produced the outcome -/
def insertBy (kind : FrameKind) (o : Interp.ChildResult) : Interp.M Unit :=
  match kind with
  | .call rs re => Interp.insertCallOutcome rs re o
  | .create _ => Interp.insertCreateOutcome o

/-- the kind under which the result of an action is delivered -/
def kindOfAction : Interp.Action → FrameKind
  | .call i => .call i.retStart i.retEnd
  | .create _ => .create 0
  -- never consulted: `frameAction` refuses `Action.eofCreate` before anything is delivered (legacy-only model)
  | .eofCreate _ => .create 0

/-- what the loop does next -/
inductive Next (κ : Type)
  /-- keep running this stack (top first) -/
  | run (stack : List (Frame κ)) (w : World)
  /-- the top frame stopped without executing an instruction (an outcome insertion left `instruction_result` set, so
  the next `Interpreter::run` returns at once) -/
  | ended (top : Frame κ) (rest : List (Frame κ)) (r : Interp.IResult) (out : List Nat) (s : Interp.IState) (w : World)
  /-- the first frame returned: `FrameResult` of the transaction -/
  | done (r : Interp.ChildResult) (w : World)

/-- deliver an outcome to the waiting frame `parent` (running on memory `mem`) -/
def deliver {κ : Type} (kind : FrameKind) (o : Interp.ChildResult) (parent : Frame κ) (rest : List (Frame κ))
    (mem : Memory.SharedMemory) (w : World) : R (Next κ) :=
  match insertBy kind o { parent.interp with mem := mem } with
  | .ok _ s => pure (.run ({ parent with interp := s } :: rest) w)
  -- `push!` failing inside the insertion leaves `instruction_result` set: the next `run` returns at once
  | .halt r out s => pure (.ended parent rest r out s w)
  | .fault f => throw (.panic s!"insert outcome: {f.name}")

/-- `shared_memory.free_context()` -/
def freeCtx (m : Memory.SharedMemory) : R Memory.SharedMemory :=
  match Memory.freeContext m with
  | .ok m' => pure m'
  | _ => throw (.panic "free_context")

/-- `call_return` / `create_return`, by the kind of the frame that returned -/
def frameReturn {κ : Type} (C : CpOps κ) (cfg : Cfg) (top : Frame κ) (w : World) (res : Interp.ChildResult) :
    R (Interp.ChildResult × World) :=
  match top.kind with
  | .call _ _ => callReturn C w top.checkpoint res
  | .create a => createReturn C cfg w top.checkpoint a res

/-- the frame on top of the stack ended with `(r, out)` in state `s` -/
def frameEnd {κ : Type} (C : CpOps κ) (cfg : Cfg) (top : Frame κ) (rest : List (Frame κ)) (r : Interp.IResult)
    (out : List Nat) (s : Interp.IState) (w : World) : R (Next κ) := do
  -- free memory context
  let mem ← freeCtx s.mem
  let (res, w) ← frameReturn C cfg top w (resultOf r out s)
  match rest with
  | [] => pure (.done res w)
  | parent :: rest' => deliver top.kind res parent rest' mem w

/-- `make_call_frame` / `make_create_frame`, by the action -/
def makeFrame {κ : Type} (C : CpOps κ) (cfg : Cfg) (w : World) (a : Interp.Action) (mem : Memory.SharedMemory) :
    R (FrameOrResult κ × World) :=
  match a with
  | .call i => makeCallFrame C cfg w i mem
  | .create i => makeCreateFrame C cfg w i mem
  -- EOF frames are not modelled here (legacy code never emits this action: EOFCREATE stops a legacy frame)
  | .eofCreate _ => throw (.panic "unsupported: Action.eofCreate (EOF frames are not modelled)")

/-- the running frame hands out an action -/
def frameAction {κ : Type} (C : CpOps κ) (cfg : Cfg) (top : Frame κ) (rest : List (Frame κ)) (a : Interp.Action)
    (s : Interp.IState) (w : World) : R (Next κ) := do
  let top := { top with interp := s }
  let (fr, w) ← makeFrame C cfg w a s.mem
  match fr with
  | .frame f => pure (.run (f :: top :: rest) w)
  | .result o => deliver (kindOfAction a) o top rest s.mem w

/-- one resolved instruction of the top frame -/
def afterStep {κ : Type} (C : CpOps κ) (cfg : Cfg) (top : Frame κ) (rest : List (Frame κ)) (d : Interp.Done)
    (w : World) : R (Next κ) :=
  match d with
  | .next s => pure (.run ({ top with interp := s } :: rest) w)
  | .action a s => frameAction C cfg top rest a s w
  | .halt r out s => frameEnd C cfg top rest r out s w
  | .fault f => throw (.panic s!"interpreter: {f.name}")

/-- one iteration: one instruction of the top frame and everything the frame machine does after it -/
def iterate {κ : Type} (C : CpOps κ) (cfg : Cfg) (stack : List (Frame κ)) (w : World) : R (Next κ) :=
  match stack with
  | [] => throw (.panic "empty call stack")
  | top :: rest =>
    match Interp.step top.interp with
    | .pure d => afterStep C cfg top rest d w
    | .host op k => do
      let (resp, w) ← answer cfg.he w op
      afterStep C cfg top rest (k resp) w

mutual
/-- a frame that ended without an instruction (costs one unit of fuel like an instruction) -/
def runEnded {κ : Type} (C : CpOps κ) (cfg : Cfg) : Nat → Frame κ → List (Frame κ) → Interp.IResult → List Nat →
    Interp.IState → World → R (Interp.ChildResult × World)
  | 0, _, _, _, _, _, _ => throw .outOfFuel
  | fuel + 1, top, rest, r, out, s, w => do
    match ← frameEnd C cfg top rest r out s w with
    | .run stack' w' => runLoop C cfg fuel stack' w'
    | .ended top' rest' r' out' s' w' => runEnded C cfg fuel top' rest' r' out' s' w'
    | .done r w' => pure (r, w')

/-- `run_the_loop`, fuel-indexed -/
def runLoop {κ : Type} (C : CpOps κ) (cfg : Cfg) : Nat → List (Frame κ) → World → R (Interp.ChildResult × World)
  | 0, _, _ => throw .outOfFuel
  | fuel + 1, stack, w => do
    match ← iterate C cfg stack w with
    | .run stack' w' => runLoop C cfg fuel stack' w'
    | .ended top rest r out s w' => runEnded C cfg fuel top rest r out s w'
    | .done r w' => pure (r, w')
end

end Revm.Model.Evm
