import Revm.Model.EvmFrame
/-! Whole-transaction model, part 3: `Evm::run_the_loop` — a stack of frames over one shared memory.

One unit of fuel is one `Interpreter::step` of the running (top) frame; `execute_frame` = the steps until the
interpreter hands out an action. The shared memory travels inside the running interpreter state (`IState.mem`), exactly
as `Interpreter::run` takes it and `take_memory` gives it back: `new_context` when a frame is pushed, `free_context`
when it returns; while a frame waits for its child, the `mem` field of its saved state is stale and is replaced by the
memory the child gives back before the outcome is inserted. -/
namespace Revm.Model.Evm
open Revm Revm.Model

/-- `insert_call_outcome` / `insert_create_outcome` into the waiting parent, chosen by the kind of the frame (or early
result) that produced the outcome -/
def insertBy (kind : FrameKind) (o : Interp.ChildResult) : Interp.M Unit :=
  match kind with
  | .call rs re => Interp.insertCallOutcome rs re o
  | .create _ => Interp.insertCreateOutcome o

/-- the kind under which the result of an action is delivered -/
def kindOfAction : Interp.Action → FrameKind
  | .call i => .call i.retStart i.retEnd
  | .create _ => .create 0

/-- what the loop does next -/
inductive Next
  /-- keep running this stack (top first) -/
  | run (stack : List Frame) (w : World)
  /-- the top frame stopped without executing an instruction (an outcome insertion left `instruction_result` set, so
  the next `Interpreter::run` returns at once) -/
  | ended (top : Frame) (rest : List Frame) (r : Interp.IResult) (out : List Nat) (s : Interp.IState) (w : World)
  /-- the first frame returned: `FrameResult` of the transaction -/
  | done (r : Interp.ChildResult) (w : World)

/-- deliver an outcome to the waiting frame `parent` (running on memory `mem`) -/
def deliver (kind : FrameKind) (o : Interp.ChildResult) (parent : Frame) (rest : List Frame)
    (mem : Memory.SharedMemory) (w : World) : R Next :=
  match insertBy kind o { parent.interp with mem := mem } with
  | .ok _ s => pure (.run ({ parent with interp := s } :: rest) w)
  -- `push!` failing inside the insertion leaves `instruction_result` set: the next `run` returns at once
  | .halt r out s => pure (.ended parent rest r out s w)
  | .fault f => throw (.panic s!"insert outcome: {f.name}")

/-- the frame on top of the stack ended with `(r, out)` in state `s` -/
def frameEnd (cfg : Cfg) (top : Frame) (rest : List Frame) (r : Interp.IResult) (out : List Nat)
    (s : Interp.IState) (w : World) : R Next := do
  -- free memory context
  let mem ← (match Memory.freeContext s.mem with
    | .ok m => pure m
    | _ => throw (.panic "free_context") : R Memory.SharedMemory)
  let res := resultOf r out s
  let (res, w) ← (match top.kind with
    | .call _ _ => callReturn w top.checkpoint res
    | .create a => createReturn cfg w top.checkpoint a res)
  match rest with
  | [] => pure (.done res w)
  | parent :: rest' => deliver top.kind res parent rest' mem w

/-- the running frame hands out an action -/
def frameAction (cfg : Cfg) (top : Frame) (rest : List Frame) (a : Interp.Action) (s : Interp.IState)
    (w : World) : R Next := do
  let top := { top with interp := s }
  let (fr, w) ← (match a with
    | .call i => makeCallFrame cfg w i s.mem
    | .create i => makeCreateFrame cfg w i s.mem)
  match fr with
  | .frame f => pure (.run (f :: top :: rest) w)
  | .result o => deliver (kindOfAction a) o top rest s.mem w

/-- one resolved instruction of the top frame -/
def afterStep (cfg : Cfg) (top : Frame) (rest : List Frame) (d : Interp.Done) (w : World) : R Next :=
  match d with
  | .next s => pure (.run ({ top with interp := s } :: rest) w)
  | .action a s => frameAction cfg top rest a s w
  | .halt r out s => frameEnd cfg top rest r out s w
  | .fault f => throw (.panic s!"interpreter: {f.name}")

/-- one iteration: one instruction of the top frame and everything the frame machine does after it -/
def iterate (cfg : Cfg) (stack : List Frame) (w : World) : R Next :=
  match stack with
  | [] => throw (.panic "empty call stack")
  | top :: rest =>
    match Interp.step top.interp with
    | .pure d => afterStep cfg top rest d w
    | .host op k => do
      let (resp, w) ← answer cfg.he w op
      afterStep cfg top rest (k resp) w

mutual
/-- a frame that ended without an instruction (costs one unit of fuel like an instruction) -/
def runEnded (cfg : Cfg) : Nat → Frame → List Frame → Interp.IResult → List Nat → Interp.IState → World →
    R (Interp.ChildResult × World)
  | 0, _, _, _, _, _, _ => throw .outOfFuel
  | fuel + 1, top, rest, r, out, s, w => do
    match ← frameEnd cfg top rest r out s w with
    | .run stack' w' => runLoop cfg fuel stack' w'
    | .ended top' rest' r' out' s' w' => runEnded cfg fuel top' rest' r' out' s' w'
    | .done r w' => pure (r, w')

/-- `run_the_loop`, fuel-indexed -/
def runLoop (cfg : Cfg) : Nat → List Frame → World → R (Interp.ChildResult × World)
  | 0, _, _ => throw .outOfFuel
  | fuel + 1, stack, w => do
    match ← iterate cfg stack w with
    | .run stack' w' => runLoop cfg fuel stack' w'
    | .ended top rest r out s w' => runEnded cfg fuel top rest r out s w'
    | .done r w' => pure (r, w')
end

end Revm.Model.Evm
