import Revm.Util.Word
/-! Code-shaped model of `crates/revm/src/journaled_state.rs` (+ the account flags of
`primitives/src/state.rs`): every operation, every `JournalEntry` and its undo.

Maps are functions (`Nat → Option _`): `none` is the HashMap's vacant entry. `.unwrap()` on a
vacant entry is a Rust panic; every operation returns `Option` and `none` is that panic.
Levels of the journal are stored innermost-first, entries newest-first (so `push` is `cons`). -/
namespace Revm.Model.Journal
open Revm

abbrev Addr := Nat

structure Slot where
  orig : Nat
  present : Nat
  cold : Bool
deriving DecidableEq, Repr

/-- `AccountInfo`; `code` is the cached bytecode identified by its hash (`none` = not cached) -/
structure Info where
  balance : Nat
  nonce : Nat
  codeHash : Nat
  code : Option Nat
deriving DecidableEq, Repr

def KECCAK_EMPTY : Nat := 0xc5d2460186f7233c927e7db2dcc703c0e500b653ca82273b7bfad8045d85a470
def PRECOMPILE3 : Addr := 3
def SPURIOUS_DRAGON : Nat := 5
def CANCUN : Nat := 17

/-- `AccountInfo::default()` -/
def Info.default : Info := { balance := 0, nonce := 0, codeHash := KECCAK_EMPTY, code := some KECCAK_EMPTY }

def Info.isEmpty (i : Info) : Bool :=
  (i.codeHash = KECCAK_EMPTY ∨ i.codeHash = 0) ∧ i.balance = 0 ∧ i.nonce = 0

structure Acct where
  info : Info
  storage : Nat → Option Slot
  created : Bool := false
  selfdestructed : Bool := false
  touched : Bool := false
  notExisting : Bool := false   -- LoadedAsNotExisting
  cold : Bool := false

/-- `Account::new_not_existing()` -/
def Acct.newNotExisting : Acct := { info := Info.default, storage := fun _ => none, notExisting := true }
/-- `From<AccountInfo> for Account` -/
def Acct.ofInfo (i : Info) : Acct := { info := i, storage := fun _ => none }

def Acct.stateClearAwareIsEmpty (a : Acct) (spec : Nat) : Bool :=
  if spec ≥ SPURIOUS_DRAGON then a.info.isEmpty else a.notExisting && !a.touched

inductive Entry
  | accountWarmed (a : Addr)
  | accountDestroyed (a target : Addr) (wasDestroyed : Bool) (hadBalance : Nat)
  | accountTouched (a : Addr)
  | balanceTransfer (src dst : Addr) (bal : Nat)
  | nonceChange (a : Addr)
  | accountCreated (a : Addr)
  | storageChanged (a : Addr) (k : Nat) (had : Nat)
  | storageWarmed (a : Addr) (k : Nat)
  | transientChange (a : Addr) (k : Nat) (had : Nat)
  | codeChange (a : Addr)
deriving DecidableEq, Repr

/-- the backing `Database` (fixed during a transaction); `delegate h` = the EIP-7702 target when the
code with hash `h` is a delegation designator -/
structure Db where
  basic : Addr → Option Info
  storage : Addr → Nat → Nat
  delegate : Nat → Option Addr

structure JState where
  state : Addr → Option Acct
  transient : Addr → Nat → Option Nat
  logs : List Nat
  depth : Nat
  journal : List (List Entry)
  spec : Nat
  preloaded : Addr → Bool

structure Checkpoint where
  logI : Nat
  journalI : Nat
deriving DecidableEq, Repr

/-- `JournaledState::new` -/
def JState.new (spec : Nat) (preloaded : Addr → Bool) : JState :=
  { state := fun _ => none, transient := fun _ _ => none, logs := [], depth := 0, journal := [[]],
    spec := spec, preloaded := preloaded }

/-- wrapping 256-bit subtraction of words `< 2^256` (ruint `-=`). Written without `x + 2^256 - y`
and without `(x + c) % 2^n`: Lean's defeq check unfolds `Nat.mod`/`Nat.sub` on such terms with a
variable `x` by recursion on the literal and runs out of stack. -/
def bsub (a b : Nat) : Nat := if b ≤ a then a - b else W - (b - a)

/-- wrapping `usize` increment -/
def incU64 (x : Nat) : Nat := if x = U64 - 1 then 0 else x + 1

/-- wrapping `u64`/`usize` decrement (`-= 1` in the release profile) -/
def decU64 (x : Nat) : Nat := if x = 0 then U64 - 1 else x - 1

def setAcct (s : JState) (a : Addr) (acc : Acct) : JState :=
  { s with state := fun x => if x = a then some acc else s.state x }

/-- push an entry on the last (innermost) journal level; `journal.last_mut().unwrap()` -/
def pushEntry (s : JState) (e : Entry) : Option JState :=
  match s.journal with
  | [] => none
  | l :: rest => some { s with journal := (e :: l) :: rest }

def setSlot (acc : Acct) (k : Nat) (sl : Slot) : Acct :=
  { acc with storage := fun x => if x = k then some sl else acc.storage x }

/-- `touch_account` -/
def touchAccount (s : JState) (a : Addr) (acc : Acct) : Option (JState × Acct) :=
  if !acc.touched then do
    let s ← pushEntry s (.accountTouched a)
    let acc := { acc with touched := true }
    some (setAcct s a acc, acc)
  else some (s, acc)

/-- `touch`: only if the account is present -/
def touch (s : JState) (a : Addr) : Option JState :=
  match s.state a with
  | some acc => (touchAccount s a acc).map (·.1)
  | none => some s

/-- `load_account`: returns the state and `is_cold` -/
def loadAccount (db : Db) (s : JState) (a : Addr) : Option (JState × Bool) :=
  match s.state a with
  | some acc =>
    let isCold := acc.cold
    let s := setAcct s a { acc with cold := false }
    if isCold then (pushEntry s (.accountWarmed a)).map (·, true) else some (s, false)
  | none =>
    let acc := match db.basic a with
      | some i => Acct.ofInfo i
      | none => Acct.newNotExisting
    let isCold := !s.preloaded a
    let s := setAcct s a acc
    if isCold then (pushEntry s (.accountWarmed a)).map (·, true) else some (s, false)

/-- `load_code` -/
def loadCode (db : Db) (s : JState) (a : Addr) : Option (JState × Bool) := do
  let (s, isCold) ← loadAccount db s a
  let acc ← s.state a
  if acc.info.code.isNone then
    some (setAcct s a { acc with info := { acc.info with code := some acc.info.codeHash } }, isCold)
  else some (s, isCold)

/-- `load_account_delegated`: (is_empty, is_cold, is_delegate_account_cold) -/
def loadAccountDelegated (db : Db) (s : JState) (a : Addr) : Option (JState × Bool × Bool × Option Bool) := do
  let (s, isCold) ← loadCode db s a
  let acc ← s.state a
  let isEmpty := acc.stateClearAwareIsEmpty s.spec
  match acc.info.code.bind db.delegate with
  | some d =>
    let (s, dCold) ← loadAccount db s d
    some (s, isEmpty, isCold, some dCold)
  | none => some (s, isEmpty, isCold, none)

/-- `initial_account_load` (not journaled) -/
def initialAccountLoad (db : Db) (s : JState) (a : Addr) (keys : List Nat) : JState :=
  let acc := match s.state a with
    | some acc => acc
    | none => match db.basic a with
      | some i => Acct.ofInfo i
      | none => Acct.newNotExisting
  let acc := keys.foldl (fun acc k =>
    match acc.storage k with
    | some _ => acc
    | none => let v := db.storage a k; setSlot acc k { orig := v, present := v, cold := false }) acc
  setAcct s a acc

inductive TransferErr | outOfFunds | overflowPayment deriving DecidableEq, Repr

/-- `transfer`: loads both, touches and debits `src`, then touches and credits `dst`; when the credit
would overflow the debit is undone (repaired by a `fix:` commit, see known_findings.json) -/
def transfer (db : Db) (s : JState) (src dst : Addr) (v : Nat) : Option (JState × Option TransferErr) := do
  let (s, _) ← loadAccount db s src
  let (s, _) ← loadAccount db s dst
  let fromAcc ← s.state src
  let (s, fromAcc) ← touchAccount s src fromAcc
  if fromAcc.info.balance < v then some (s, some .outOfFunds) else
  let s := setAcct s src { fromAcc with info := { fromAcc.info with balance := fromAcc.info.balance - v } }
  let toAcc ← s.state dst
  let (s, toAcc) ← touchAccount s dst toAcc
  if toAcc.info.balance + v ≥ W then do
    -- the debit of `src` is not journaled yet: it is given back before the error is reported
    let f ← s.state src
    some (setAcct s src { f with info := { f.info with balance := U256.wadd f.info.balance v } }, some .overflowPayment)
  else
  let s := setAcct s dst { toAcc with info := { toAcc.info with balance := toAcc.info.balance + v } }
  let s ← pushEntry s (.balanceTransfer src dst v)
  some (s, none)

/-- `inc_nonce` -/
def incNonce (s : JState) (a : Addr) : Option (JState × Option Nat) := do
  let acc ← s.state a
  if acc.info.nonce = U64 - 1 then some (s, none) else
  let (s, acc) ← touchAccount s a acc
  let s ← pushEntry s (.nonceChange a)
  let n := acc.info.nonce + 1
  some (setAcct s a { acc with info := { acc.info with nonce := n } }, some n)

/-- `set_code_with_hash` -/
def setCode (s : JState) (a : Addr) (hash : Nat) : Option JState := do
  let acc ← s.state a
  let (s, acc) ← touchAccount s a acc
  let s ← pushEntry s (.codeChange a)
  some (setAcct s a { acc with info := { acc.info with codeHash := hash, code := some hash } })

/-- `sload`: (value, is_cold) -/
def sload (db : Db) (s : JState) (a : Addr) (k : Nat) : Option (JState × Nat × Bool) := do
  let acc ← s.state a
  match acc.storage k with
  | some sl =>
    let isCold := sl.cold
    let s := setAcct s a (setSlot acc k { sl with cold := false })
    if isCold then (pushEntry s (.storageWarmed a k)).map (·, sl.present, true) else some (s, sl.present, false)
  | none =>
    let v := if acc.created then 0 else db.storage a k
    let s := setAcct s a (setSlot acc k { orig := v, present := v, cold := false })
    (pushEntry s (.storageWarmed a k)).map (·, v, true)

/-- `sstore`: (original, present, new, is_cold) -/
def sstore (db : Db) (s : JState) (a : Addr) (k new : Nat) : Option (JState × Nat × Nat × Nat × Bool) := do
  let (s, present, isCold) ← sload db s a k
  let acc ← s.state a
  let sl ← acc.storage k
  if present = new then some (s, sl.orig, present, new, isCold) else
  let s ← pushEntry s (.storageChanged a k present)
  some (setAcct s a (setSlot acc k { sl with present := new }), sl.orig, present, new, isCold)

def tload (s : JState) (a : Addr) (k : Nat) : Nat := (s.transient a k).getD 0

def setTransient (s : JState) (a : Addr) (k : Nat) (v : Option Nat) : JState :=
  { s with transient := fun x y => if x = a ∧ y = k then v else s.transient x y }

/-- `tstore` -/
def tstore (s : JState) (a : Addr) (k new : Nat) : Option JState :=
  if new = 0 then
    match s.transient a k with
    | some had => pushEntry (setTransient s a k none) (.transientChange a k had)
    | none => some s
  else
    let prev := (s.transient a k).getD 0
    let s := setTransient s a k (some new)
    if prev ≠ new then pushEntry s (.transientChange a k prev) else some s

def log (s : JState) (l : Nat) : JState := { s with logs := s.logs ++ [l] }

/-- `checkpoint` -/
def checkpoint (s : JState) : JState × Checkpoint :=
  ({ s with depth := incU64 s.depth, journal := [] :: s.journal },
   { logI := s.logs.length, journalI := s.journal.length })

/-- `checkpoint_commit` (release profile: `depth -= 1` wraps) -/
def commit (s : JState) : JState := { s with depth := decU64 s.depth }

/-- undo of one journal entry (`journal_revert` body); `none` = `.unwrap()` panic -/
def undoEntry (sd : Bool) (s : JState) : Entry → Option JState
  | .accountWarmed a => do
    let acc ← s.state a
    some (setAcct s a { acc with cold := true })
  | .accountTouched a =>
    if sd ∧ a = PRECOMPILE3 then some s else do
    let acc ← s.state a
    some (setAcct s a { acc with touched := false })
  | .accountDestroyed a target wasDestroyed had => do
    let acc ← s.state a
    let s := setAcct s a { acc with selfdestructed := wasDestroyed,
                                     info := { acc.info with balance := U256.wadd acc.info.balance had } }
    if a ≠ target then do
      let t ← s.state target
      some (setAcct s target { t with info := { t.info with balance := bsub t.info.balance had } })
    else some s
  | .balanceTransfer src dst bal => do
    let f ← s.state src
    let s := setAcct s src { f with info := { f.info with balance := U256.wadd f.info.balance bal } }
    let t ← s.state dst
    some (setAcct s dst { t with info := { t.info with balance := bsub t.info.balance bal } })
  | .nonceChange a => do
    let acc ← s.state a
    some (setAcct s a { acc with info := { acc.info with nonce := decU64 acc.info.nonce } })
  | .accountCreated a => do
    let acc ← s.state a
    some (setAcct s a { acc with created := false, info := { acc.info with nonce := 0 } })
  | .storageWarmed a k => do
    let acc ← s.state a
    let sl ← acc.storage k
    some (setAcct s a (setSlot acc k { sl with cold := true }))
  | .storageChanged a k had => do
    let acc ← s.state a
    let sl ← acc.storage k
    some (setAcct s a (setSlot acc k { sl with present := had }))
  | .transientChange a k had =>
    some (setTransient s a k (if had = 0 then none else some had))
  | .codeChange a => do
    let acc ← s.state a
    some (setAcct s a { acc with info := { acc.info with codeHash := KECCAK_EMPTY, code := none } })

/-- undo the entries of one level, newest first (the level list is stored newest-first) -/
def undoLevel (sd : Bool) (s : JState) : List Entry → Option JState
  | [] => some s
  | e :: rest => do
    let s ← undoEntry sd s e
    undoLevel sd s rest

def undoLevels (sd : Bool) (s : JState) : List (List Entry) → Option JState
  | [] => some s
  | l :: rest => do
    let s ← undoLevel sd s l
    undoLevels sd s rest

/-- `checkpoint_revert`: undo all levels with index ≥ `journal_i` (innermost first), truncate logs
and journal; `leng - journal_i` underflow is a panic -/
def revert (s : JState) (cp : Checkpoint) : Option JState :=
  let leng := s.journal.length
  if leng < cp.journalI then none else
  let sd := decide (s.spec ≥ SPURIOUS_DRAGON)
  let n := leng - cp.journalI
  match undoLevels sd s (s.journal.take n) with
  | none => none
  | some s' =>
    some { s' with depth := decU64 s.depth, logs := s.logs.take cp.logI,
                   journal := s.journal.drop n }

/-- `selfdestruct`: (had_value, target_exists, previously_destroyed, is_cold) -/
def selfdestruct (db : Db) (s : JState) (a target : Addr) : Option (JState × Bool × Bool × Bool × Bool) := do
  let (s, isCold) ← loadAccount db s target
  let tacc ← s.state target
  let isEmpty := tacc.stateClearAwareIsEmpty s.spec
  let s ← (if a ≠ target then do
      let acc ← s.state a
      let t ← s.state target
      let (s, t) ← touchAccount s target t
      some (setAcct s target { t with info := { t.info with balance := U256.wadd t.info.balance acc.info.balance } })
    else some s)
  let acc ← s.state a
  let balance := acc.info.balance
  let prev := acc.selfdestructed
  let cancun := decide (s.spec ≥ CANCUN)
  let s ← (if acc.created ∨ !cancun then do
      let s := setAcct s a { acc with selfdestructed := true, info := { acc.info with balance := 0 } }
      pushEntry s (.accountDestroyed a target prev balance)
    else if a ≠ target then do
      let s := setAcct s a { acc with info := { acc.info with balance := 0 } }
      pushEntry s (.balanceTransfer a target balance)
    else some s)
  some (s, balance ≠ 0, !isEmpty, prev, isCold)

inductive CreateErr | collision | overflowPayment deriving DecidableEq, Repr

/-- `create_account_checkpoint` -/
def createAccountCheckpoint (s : JState) (caller a : Addr) (hasStorage : Bool) (balance : Nat) (specId : Nat) :
    Option (JState × Except CreateErr Checkpoint) := do
  let (s, cp) := checkpoint s
  let acc ← s.state a
  if acc.info.codeHash ≠ KECCAK_EMPTY ∨ acc.info.nonce ≠ 0 ∨ hasStorage then do
    let s ← revert s cp
    some (s, .error .collision)
  else
  let acc := { acc with created := true }
  let s ← pushEntry (setAcct s a acc) (.accountCreated a)
  let acc := { acc with info := { acc.info with code := none } }
  let s := setAcct s a acc
  let (s, acc) ← touchAccount s a acc
  if acc.info.balance + balance ≥ W then do
    let s ← revert s cp
    some (s, .error .overflowPayment)
  else
  let acc := { acc with info := { acc.info with balance := acc.info.balance + balance } }
  let acc := if specId ≥ SPURIOUS_DRAGON then { acc with info := { acc.info with nonce := 1 } } else acc
  let s := setAcct s a acc
  let c ← s.state caller
  let s := setAcct s caller { c with info := { c.info with balance := bsub c.info.balance balance } }
  let s ← pushEntry s (.balanceTransfer caller a balance)
  some (s, .ok cp)

end Revm.Model.Journal
