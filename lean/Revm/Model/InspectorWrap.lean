import Revm.Util.Word
import Revm.Model.Gas
/-! Model of the inspector handler register (`crates/revm/src/inspector/handler_register.rs`) as a
TRANSFORMER of an abstract frame machine, of the frame machine's driver (`Interpreter::step`/`run`,
`execute_frame`, `Evm::run_the_loop`, the first-frame part of `transact_preverified_inner`), of the
three observing inspectors (`inspector/noop.rs`, `inspector/gas.rs`, `inspector/eip3155.rs`) and of the
four consumers of a frame outcome (`Interpreter::insert_{call,create,eofcreate}_outcome`,
`handler/mainnet/execution.rs::last_frame_return`, plus the Optimism `last_frame_return`).

Shape.  The *plain* machine is a record `Machine T C` of ARBITRARY functions over a context type `C`
(instruction table, frame handlers).  `wrap ops obs m` is the machine over `T.E × WState` that
`inspector_handle_register` builds from it: every handler of `m` is called as `prev` and the observer is
called at exactly the points the Rust calls it.  The wrapper state `WState` holds the inspector
(`ctx.external`) and the three `Rc<RefCell<Vec<_>>>` input stacks.

Abstractions made (each is a reading of the Rust, not an assumption about the inspectors):
* the mainnet handlers are generic in `EXT` (`fn(&mut Context<EXT, DB>, …)`), so they can neither read nor
  write `context.external`; `m : Machine T T.E` therefore acts on the `evm` half only, and the wrapped
  machine runs them on the first component of `T.E × WState`;
* `call` / `create` / `eofcreate` return a frame or a result OF THEIR OWN KIND (`make_call_frame` only uses
  `FrameOrResult::new_call_frame` / `new_call_result`, and likewise for the two others); this is encoded
  in the result type `FrameOr`;
* a handler returning `Err` aborts the transaction (`?` all the way up to `transact`), so only the
  error value is kept; a Rust panic (`unwrap` of an empty input stack, `unreachable!`) is `Res.panic`;
* `instruction_pointer` is the offset `ip` into the padded bytecode; `fetch` reads the byte under it;
* the unbounded loops (`while instruction_result == Continue`, `loop { … }`) carry a fuel argument;
  running out of fuel is `none` (the theorems are for every fuel).
-/
namespace Revm.Model.InspectorWrap
open Revm

abbrev Gas := Revm.Model.Gas.Gas

/-! ## `InstructionResult` and its three classes (`return_ok!`, `return_revert!`, `return_error!`) -/

/-- `enum InstructionResult` (crates/interpreter/src/instruction_result.rs), every variant -/
inductive IR where
  | Continue | Stop | Return | SelfDestruct | ReturnContract
  | Revert | CallTooDeep | OutOfFunds | CreateInitCodeStartingEF00 | InvalidEOFInitCode
  | InvalidExtDelegateCallTarget
  | CallOrCreate
  | OutOfGas | MemoryOOG | MemoryLimitOOG | PrecompileOOG | InvalidOperandOOG | OpcodeNotFound
  | CallNotAllowedInsideStatic | StateChangeDuringStaticCall | InvalidFEOpcode | InvalidJump
  | NotActivated | StackUnderflow | StackOverflow | OutOfOffset | CreateCollision | OverflowPayment
  | PrecompileError | NonceOverflow | CreateContractSizeLimit | CreateContractStartingWithEF
  | CreateInitCodeSizeLimit | FatalExternalError | ReturnContractInNotInitEOF
  | EOFOpcodeDisabledInLegacy | EOFFunctionStackOverflow | EofAuxDataOverflow | EofAuxDataTooSmall
  | InvalidEXTCALLTarget
  deriving DecidableEq, Repr, Inhabited

/-- all variants, in the order of the table dumped from the compiled code (`Gen.iresult`) -/
def IR.all : List IR :=
  [.Continue, .Stop, .Return, .SelfDestruct, .ReturnContract, .Revert, .CallTooDeep, .OutOfFunds,
   .CreateInitCodeStartingEF00, .InvalidEOFInitCode, .InvalidExtDelegateCallTarget, .CallOrCreate,
   .OutOfGas, .MemoryOOG, .MemoryLimitOOG, .PrecompileOOG, .InvalidOperandOOG, .OpcodeNotFound,
   .CallNotAllowedInsideStatic, .StateChangeDuringStaticCall, .InvalidFEOpcode, .InvalidJump,
   .NotActivated, .StackUnderflow, .StackOverflow, .OutOfOffset, .CreateCollision, .OverflowPayment,
   .PrecompileError, .NonceOverflow, .CreateContractSizeLimit, .CreateContractStartingWithEF,
   .CreateInitCodeSizeLimit, .FatalExternalError, .ReturnContractInNotInitEOF,
   .EOFOpcodeDisabledInLegacy, .EOFFunctionStackOverflow, .EofAuxDataOverflow, .EofAuxDataTooSmall,
   .InvalidEXTCALLTarget]

/-- the `Debug` name -/
def IR.name : IR → String
  | .Continue => "Continue" | .Stop => "Stop" | .Return => "Return" | .SelfDestruct => "SelfDestruct"
  | .ReturnContract => "ReturnContract" | .Revert => "Revert" | .CallTooDeep => "CallTooDeep"
  | .OutOfFunds => "OutOfFunds" | .CreateInitCodeStartingEF00 => "CreateInitCodeStartingEF00"
  | .InvalidEOFInitCode => "InvalidEOFInitCode"
  | .InvalidExtDelegateCallTarget => "InvalidExtDelegateCallTarget" | .CallOrCreate => "CallOrCreate"
  | .OutOfGas => "OutOfGas" | .MemoryOOG => "MemoryOOG" | .MemoryLimitOOG => "MemoryLimitOOG"
  | .PrecompileOOG => "PrecompileOOG" | .InvalidOperandOOG => "InvalidOperandOOG"
  | .OpcodeNotFound => "OpcodeNotFound" | .CallNotAllowedInsideStatic => "CallNotAllowedInsideStatic"
  | .StateChangeDuringStaticCall => "StateChangeDuringStaticCall" | .InvalidFEOpcode => "InvalidFEOpcode"
  | .InvalidJump => "InvalidJump" | .NotActivated => "NotActivated" | .StackUnderflow => "StackUnderflow"
  | .StackOverflow => "StackOverflow" | .OutOfOffset => "OutOfOffset" | .CreateCollision => "CreateCollision"
  | .OverflowPayment => "OverflowPayment" | .PrecompileError => "PrecompileError"
  | .NonceOverflow => "NonceOverflow" | .CreateContractSizeLimit => "CreateContractSizeLimit"
  | .CreateContractStartingWithEF => "CreateContractStartingWithEF"
  | .CreateInitCodeSizeLimit => "CreateInitCodeSizeLimit" | .FatalExternalError => "FatalExternalError"
  | .ReturnContractInNotInitEOF => "ReturnContractInNotInitEOF"
  | .EOFOpcodeDisabledInLegacy => "EOFOpcodeDisabledInLegacy"
  | .EOFFunctionStackOverflow => "EOFFunctionStackOverflow" | .EofAuxDataOverflow => "EofAuxDataOverflow"
  | .EofAuxDataTooSmall => "EofAuxDataTooSmall" | .InvalidEXTCALLTarget => "InvalidEXTCALLTarget"

def IR.ofName? (s : String) : Option IR := IR.all.find? (fun r => r.name == s)

/-- `return_ok!()` -/
def IR.isOk : IR → Bool
  | .Continue | .Stop | .Return | .SelfDestruct | .ReturnContract => true
  | _ => false
/-- `return_revert!()` -/
def IR.isRevert : IR → Bool
  | .Revert | .CallTooDeep | .OutOfFunds | .InvalidEOFInitCode | .CreateInitCodeStartingEF00
  | .InvalidExtDelegateCallTarget => true
  | _ => false
/-- `return_error!()` — the list of the macro, variant by variant -/
def IR.isError : IR → Bool
  | .OutOfGas | .MemoryOOG | .MemoryLimitOOG | .PrecompileOOG | .InvalidOperandOOG | .OpcodeNotFound
  | .CallNotAllowedInsideStatic | .StateChangeDuringStaticCall | .InvalidFEOpcode | .InvalidJump
  | .NotActivated | .StackUnderflow | .StackOverflow | .OutOfOffset | .CreateCollision
  | .OverflowPayment | .PrecompileError | .NonceOverflow | .CreateContractSizeLimit
  | .CreateContractStartingWithEF | .CreateInitCodeSizeLimit | .FatalExternalError
  | .ReturnContractInNotInitEOF | .EOFOpcodeDisabledInLegacy | .EOFFunctionStackOverflow
  | .EofAuxDataTooSmall | .EofAuxDataOverflow | .InvalidEXTCALLTarget => true
  | _ => false

/-- the model's classification table in the format of `Gen.iresult` -/
def irTable : List (String × Bool × Bool × Bool) :=
  IR.all.map (fun r => (r.name, r.isOk, r.isRevert, r.isError))

/-! ## Outcomes -/

/-- `struct InterpreterResult { result, output, gas }` -/
structure InterpreterResult where
  result : IR
  output : List Nat
  gas : Gas
  deriving DecidableEq, Repr

/-- `struct CallOutcome { result, memory_offset: Range<usize> }` -/
structure CallOutcome where
  result : InterpreterResult
  memoryOffset : Nat × Nat
  deriving DecidableEq, Repr

/-- `struct CreateOutcome { result, address: Option<Address> }` -/
structure CreateOutcome where
  result : InterpreterResult
  address : Option Nat
  deriving DecidableEq, Repr

/-- `enum FrameResult` -/
inductive FrameResult where
  | call (o : CallOutcome)
  | create (o : CreateOutcome)
  | eofcreate (o : CreateOutcome)
  deriving DecidableEq, Repr

/-- `FrameResult::interpreter_result` -/
def FrameResult.interpreterResult : FrameResult → InterpreterResult
  | .call o => o.result
  | .create o => o.result
  | .eofcreate o => o.result

/-- `*frame_result.gas_mut() = g` -/
def FrameResult.setGas : FrameResult → Gas → FrameResult
  | .call o, g => .call { o with result := { o.result with gas := g } }
  | .create o, g => .create { o with result := { o.result with gas := g } }
  | .eofcreate o, g => .eofcreate { o with result := { o.result with gas := g } }

/-- `Result<_, EVMError>` plus the Rust panic -/
inductive Res (ε α : Type) where
  | ok (a : α)
  | err (e : ε)
  | panic
  deriving Repr

def Res.bind {ε α β : Type} : Res ε α → (α → Res ε β) → Res ε β
  | .ok a, f => f a
  | .err e, _ => .err e
  | .panic, _ => .panic

def Res.map {ε α β : Type} (f : α → β) : Res ε α → Res ε β
  | .ok a => .ok (f a)
  | .err e => .err e
  | .panic => .panic

/-! ## The types of a frame machine -/

/-- the type parameters of a frame machine -/
structure Ty where
  /-- `EvmContext<DB>`: journaled state, env, database, error slot, precompiles -/
  E : Type
  /-- every `Interpreter` field that is not named in `IState` (stack, contract, return data, …) -/
  Rest : Type
  /-- `SharedMemory` -/
  Mem : Type
  /-- `CallInputs` -/
  CallIn : Type
  /-- `CreateInputs` -/
  CreateIn : Type
  /-- `EOFCreateInputs` -/
  EofIn : Type
  /-- the non-interpreter part of a frame (`return_memory_range`, `created_address`, checkpoint) -/
  FrameData : Type
  /-- `EVMError<DB::Error>` -/
  Err : Type
  /-- `Log` -/
  Log : Type
  /-- the `(contract, target, value)` triple handed to `Inspector::selfdestruct` -/
  SD : Type

/-- `enum InterpreterAction` -/
inductive Action (T : Ty) where
  | call (i : T.CallIn)
  | create (i : T.CreateIn)
  | eofcreate (i : T.EofIn)
  | ret (r : InterpreterResult)
  | none

/-- `struct Interpreter`: the fields the wrapper and the driver name, and the rest -/
structure IState (T : Ty) where
  /-- `instruction_pointer` as an offset into the bytecode -/
  ip : Nat
  instructionResult : IR
  gas : Gas
  /-- `shared_memory` (owned by the interpreter while it runs) -/
  mem : T.Mem
  nextAction : Action T
  rest : T.Rest

inductive Kind where
  | call | create | eofcreate
  deriving DecidableEq, Repr

/-- `enum Frame { Call(Box<CallFrame>), Create(..), EOFCreate(..) }` -/
structure Frame (T : Ty) where
  kind : Kind
  interp : IState T
  data : T.FrameData

/-- `FrameOrResult` as returned by the handler of ONE kind: a new frame or an outcome of that kind -/
inductive FrameOr (T : Ty) (O : Type) where
  | frame (interp : IState T) (data : T.FrameData)
  | result (o : O)

/-- the plain machine: arbitrary functions -/
structure Machine (T : Ty) (C : Type) where
  /-- `*self.instruction_pointer` -/
  fetch : IState T → Nat
  /-- `instruction_table[opcode]` -/
  table : Nat → IState T → C → IState T × C
  /-- `context.evm.take_error()?` in `run_the_loop` -/
  takeError : C → Res T.Err C
  call : C → T.CallIn → Res T.Err (FrameOr T CallOutcome × C)
  create : C → T.CreateIn → Res T.Err (FrameOr T CreateOutcome × C)
  eofcreate : C → T.EofIn → Res T.Err (FrameOr T CreateOutcome × C)
  callReturn : C → Frame T → InterpreterResult → Res T.Err (CallOutcome × C)
  createReturn : C → Frame T → InterpreterResult → Res T.Err (CreateOutcome × C)
  eofcreateReturn : C → Frame T → InterpreterResult → Res T.Err (CreateOutcome × C)
  /-- `insert_*_outcome(ctx, frame: &mut Frame, ..)`: the handlers reach the frame only through
  `frame.frame_data_mut().interpreter`, so the new interpreter is returned (kind and frame data stay) -/
  insertCallOutcome : C → Frame T → T.Mem → CallOutcome → Res T.Err (IState T × T.Mem × C)
  insertCreateOutcome : C → Frame T → CreateOutcome → Res T.Err (IState T × C)
  insertEofcreateOutcome : C → Frame T → CreateOutcome → Res T.Err (IState T × C)
  lastFrameReturn : C → FrameResult → Res T.Err (FrameResult × C)
  /-- `SharedMemory::new_context` / `free_context` / `EMPTY_SHARED_MEMORY` / `SharedMemory::new()` -/
  newContext : T.Mem → T.Mem
  freeContext : T.Mem → T.Mem
  emptyMem : T.Mem
  newMem : T.Mem

/-! ## The driver: `Interpreter::step`, `run`, `execute_frame`, `run_the_loop`, first frame -/
section Driver
variable {T : Ty} {C : Type}

/-- `Interpreter::step`: read the opcode, advance the pointer, run the table entry -/
def Machine.step (m : Machine T C) (st : IState T) (c : C) : IState T × C :=
  let opcode := m.fetch st
  let st := { st with ip := st.ip + 1 }
  m.table opcode st c

/-- `while self.instruction_result == InstructionResult::Continue { self.step(..) }` -/
def Machine.runInterp (m : Machine T C) : Nat → IState T → C → Option (IState T × C)
  | 0, _, _ => none
  | n + 1, st, c =>
    if st.instructionResult = .Continue then m.runInterp n (m.step st c).1 (m.step st c).2
    else some (st, c)

/-- `Interpreter::run` -/
def Machine.run (m : Machine T C) (fuel : Nat) (st : IState T) (mem : T.Mem) (c : C) :
    Option (Action T × IState T × C) :=
  let st := { st with nextAction := .none, mem := mem }
  match m.runInterp fuel st c with
  | none => none
  | some (st, c) =>
    match st.nextAction with
    | .none => some (.ret { result := st.instructionResult, output := [], gas := st.gas }, st, c)
    | a => some (a, { st with nextAction := .none }, c)

/-- `execute_frame`: move the shared memory into the interpreter, run, take it back -/
def Machine.executeFrame (m : Machine T C) (fuel : Nat) (f : Frame T) (shared : T.Mem) (c : C) :
    Option (Action T × Frame T × T.Mem × C) :=
  match m.run fuel f.interp shared c with
  | none => none
  | some (a, st, c) => some (a, { f with interp := { st with mem := m.emptyMem } }, st.mem, c)

/-- one pass of the body of `loop { … }` in `run_the_loop` after `execute_frame`: what to do with the action.
Returns the new call stack (top first), the shared memory and the context, or the final result. -/
inductive LoopNext (T : Ty) (C : Type) where
  | continue (stack : List (Frame T)) (shared : T.Mem) (c : C)
  | done (r : FrameResult) (c : C)

/-- `match frame_or_result { Frame(frame) => …, Result(result) => … }` for a result -/
def Machine.insertResult (m : Machine T C) (r : FrameResult) (stack : List (Frame T)) (shared : T.Mem)
    (c : C) : Res T.Err (LoopNext T C) :=
  match stack with
  | [] => .ok (.done r c)
  | top :: rest =>
    match r with
    | .call o => (m.insertCallOutcome c top shared o).bind fun (st, shared, c) =>
        .ok (.continue ({ top with interp := st } :: rest) shared c)
    | .create o => (m.insertCreateOutcome c top o).bind fun (st, c) =>
        .ok (.continue ({ top with interp := st } :: rest) shared c)
    | .eofcreate o => (m.insertEofcreateOutcome c top o).bind fun (st, c) =>
        .ok (.continue ({ top with interp := st } :: rest) shared c)

/-- the part of the loop body after `execute_frame` and `take_error()?` -/
def Machine.handleAction (m : Machine T C) (a : Action T) (f : Frame T) (rest : List (Frame T))
    (shared : T.Mem) (c : C) : Res T.Err (LoopNext T C) :=
  match a with
  | .call i => (m.call c i).bind fun (x, c) =>
      match x with
      | .frame interp data =>
        .ok (.continue ({ kind := .call, interp := interp, data := data } :: f :: rest) (m.newContext shared) c)
      | .result o => m.insertResult (.call o) (f :: rest) shared c
  | .create i => (m.create c i).bind fun (x, c) =>
      match x with
      | .frame interp data =>
        .ok (.continue ({ kind := .create, interp := interp, data := data } :: f :: rest) (m.newContext shared) c)
      | .result o => m.insertResult (.create o) (f :: rest) shared c
  | .eofcreate i => (m.eofcreate c i).bind fun (x, c) =>
      match x with
      | .frame interp data =>
        .ok (.continue ({ kind := .eofcreate, interp := interp, data := data } :: f :: rest) (m.newContext shared) c)
      | .result o => m.insertResult (.eofcreate o) (f :: rest) shared c
  | .ret r =>
    let shared := m.freeContext shared
    match f.kind with
    | .call => (m.callReturn c f r).bind fun (o, c) => m.insertResult (.call o) rest shared c
    | .create => (m.createReturn c f r).bind fun (o, c) => m.insertResult (.create o) rest shared c
    | .eofcreate => (m.eofcreateReturn c f r).bind fun (o, c) => m.insertResult (.eofcreate o) rest shared c
  | .none => .panic

/-- `Evm::run_the_loop`; the call stack is a list, top first -/
def Machine.loop (m : Machine T C) : Nat → List (Frame T) → T.Mem → C → Option (Res T.Err (FrameResult × C))
  | 0, _, _, _ => none
  | _ + 1, [], _, _ => some .panic
  | n + 1, f :: rest, shared, c =>
    match m.executeFrame n f shared c with
    | none => none
    | some (a, f, shared, c) =>
      match m.takeError c with
      | .err e => some (.err e)
      | .panic => some .panic
      | .ok c =>
        match m.handleAction a f rest shared c with
        | .err e => some (.err e)
        | .panic => some .panic
        | .ok (.done r c) => some (.ok (r, c))
        | .ok (.continue stack shared c) => m.loop n stack shared c

/-- what `transact_preverified_inner` hands to the first handler -/
inductive FirstInput (T : Ty) where
  | call (i : T.CallIn)
  | create (i : T.CreateIn)
  | eofcreate (i : T.EofIn)

/-- `first_frame_or_result` -/
def Machine.firstFrame (m : Machine T C) (inp : FirstInput T) (c : C) :
    Res T.Err ((Frame T ⊕ FrameResult) × C) :=
  match inp with
  | .call i => (m.call c i).bind fun (x, c) =>
      match x with
      | .frame interp data => .ok (.inl { kind := .call, interp := interp, data := data }, c)
      | .result o => .ok (.inr (.call o), c)
  | .create i => (m.create c i).bind fun (x, c) =>
      match x with
      | .frame interp data => .ok (.inl { kind := .create, interp := interp, data := data }, c)
      | .result o => .ok (.inr (.create o), c)
  | .eofcreate i => (m.eofcreate c i).bind fun (x, c) =>
      match x with
      | .frame interp data => .ok (.inl { kind := .eofcreate, interp := interp, data := data }, c)
      | .result o => .ok (.inr (.eofcreate o), c)

/-- the execution part of `transact_preverified_inner`: first frame, `run_the_loop`, `last_frame_return`.
The value is the `FrameResult` handed on to `refund` / `reimburse_caller` / `output` and the context. -/
def Machine.exec (m : Machine T C) (fuel : Nat) (inp : FirstInput T) (c : C) :
    Option (Res T.Err (FrameResult × C)) :=
  match m.firstFrame inp c with
  | .err e => some (.err e)
  | .panic => some .panic
  | .ok (.inr r, c) => some (m.lastFrameReturn c r)
  | .ok (.inl f, c) =>
    match m.loop fuel [f] (m.newContext m.newMem) c with
    | none => none
    | some (.ok (r, c)) => some (m.lastFrameReturn c r)
    | some (.err e) => some (.err e)
    | some .panic => some .panic

end Driver

/-! ## Observers: the `Inspector` trait as a record of functions -/

/-- `trait Inspector<DB>`. `S` is the inspector's own state (`&mut self`). A callback that receives
`&mut Interpreter` / `&mut EvmContext` / `&mut Inputs` returns the possibly modified value. -/
structure Observer (T : Ty) (S : Type) where
  initializeInterp : S → IState T → T.E → S × IState T × T.E
  step : S → IState T → T.E → S × IState T × T.E
  stepEnd : S → IState T → T.E → S × IState T × T.E
  log : S → IState T → T.E → T.Log → S × IState T × T.E
  call : S → T.E → T.CallIn → S × T.E × T.CallIn × Option CallOutcome
  callEnd : S → T.E → T.CallIn → CallOutcome → S × T.E × CallOutcome
  create : S → T.E → T.CreateIn → S × T.E × T.CreateIn × Option CreateOutcome
  createEnd : S → T.E → T.CreateIn → CreateOutcome → S × T.E × CreateOutcome
  eofcreate : S → T.E → T.EofIn → S × T.E × T.EofIn × Option CreateOutcome
  eofcreateEnd : S → T.E → T.EofIn → CreateOutcome → S × T.E × CreateOutcome
  selfdestruct : S → T.SD → S

/-- the trait's default method bodies -/
def Observer.default (T : Ty) (S : Type) : Observer T S where
  initializeInterp s st e := (s, st, e)
  step s st e := (s, st, e)
  stepEnd s st e := (s, st, e)
  log s st e _ := (s, st, e)
  call s e i := (s, e, i, none)
  callEnd s e _ o := (s, e, o)
  create s e i := (s, e, i, none)
  createEnd s e _ o := (s, e, o)
  eofcreate s e i := (s, e, i, none)
  eofcreateEnd s e _ o := (s, e, o)
  selfdestruct s _ := s

/-- what the wrapper reads from the context by itself -/
structure EnvOps (T : Ty) where
  /-- `journaled_state.logs` -/
  logs : T.E → List T.Log
  /-- `journaled_state.journal.last().map_or(0, Vec::len)` -/
  journalLastLen : T.E → Nat
  /-- the SELFDESTRUCT wrapper's `(address, target, value)`: the newest `AccountDestroyed` /
  `BalanceTransfer` entry after position `prev_entries_len` of the last journal vector, else
  `(contract, contract, 0)` -/
  sdInfo : Nat → IState T → T.E → T.SD
  /-- `journaled_state.depth()` -/
  depth : T.E → Nat
  /-- `env.tx.gas_limit` -/
  txGasLimit : T.E → Nat

/-- wrapper state: the inspector and the three input stacks (`Rc<RefCell<Vec<_>>>`, top first) -/
structure WState (T : Ty) (S : Type) where
  obs : S
  callStack : List T.CallIn
  createStack : List T.CreateIn
  eofStack : List T.EofIn

/-! ## `inspector_handle_register` -/
section Wrap
variable {T : Ty} {S : Type}

/-- a handler of the previous table run on the wrapped context (`prev(interpreter, host)`) -/
def liftInstr (i : IState T → T.E → IState T × T.E) :
    IState T → T.E × WState T S → IState T × (T.E × WState T S) :=
  fun st c => ((i st c.1).1, ((i st c.1).2, c.2))

/-- `fn inspector_instruction(prev, interpreter, host)` -/
def inspectorInstruction (obs : Observer T S)
    (prev : IState T → T.E × WState T S → IState T × (T.E × WState T S)) :
    IState T → T.E × WState T S → IState T × (T.E × WState T S) :=
  fun st c =>
    -- interpreter.instruction_pointer = interpreter.instruction_pointer.sub(1)
    let st := { st with ip := st.ip - 1 }
    -- host.external.get_inspector().step(interpreter, &mut host.evm)
    let r := obs.step c.2.obs st c.1
    let st := r.2.1
    let c : T.E × WState T S := (r.2.2, { c.2 with obs := r.1 })
    if st.instructionResult ≠ .Continue then (st, c)
    else
      -- interpreter.instruction_pointer = interpreter.instruction_pointer.add(1)
      let st := { st with ip := st.ip + 1 }
      let p := prev st c
      let r := obs.stepEnd p.2.2.obs p.1 p.2.1
      (r.2.1, (r.2.2, { p.2.2 with obs := r.1 }))

/-- the closure registered for `LOG0..=LOG4` -/
def logWrapper (ops : EnvOps T) (obs : Observer T S)
    (prev : IState T → T.E × WState T S → IState T × (T.E × WState T S)) :
    IState T → T.E × WState T S → IState T × (T.E × WState T S) :=
  fun st c =>
    let prevLogLen := (ops.logs c.1).length
    let p := prev st c
    if (ops.logs p.2.1).length = prevLogLen + 1 then
      match (ops.logs p.2.1).getLast? with
      | some lastLog =>
        let r := obs.log p.2.2.obs p.1 p.2.1 lastLog
        (r.2.1, (r.2.2, { p.2.2 with obs := r.1 }))
      | none => p   -- `.last().unwrap()`: not reachable, the list has `prevLogLen + 1` elements
    else p

/-- the closure registered for `SELFDESTRUCT` -/
def selfdestructWrapper (ops : EnvOps T) (obs : Observer T S)
    (prev : IState T → T.E × WState T S → IState T × (T.E × WState T S)) :
    IState T → T.E × WState T S → IState T × (T.E × WState T S) :=
  fun st c =>
    let prevEntriesLen := ops.journalLastLen c.1
    let p := prev st c
    if p.1.instructionResult ≠ .SelfDestruct then p
    else (p.1, (p.2.1, { p.2.2 with obs := obs.selfdestruct p.2.2.obs (ops.sdInfo prevEntriesLen p.1 p.2.1) }))

def opLOG0 : Nat := 0xA0
def opLOG4 : Nat := 0xA4
def opSELFDESTRUCT : Nat := 0xFF

/-- the instruction table after `update_all(inspector_instruction)` and the `update_boxed` calls -/
def wrapTable (ops : EnvOps T) (obs : Observer T S) (table : Nat → IState T → T.E → IState T × T.E) :
    Nat → IState T → T.E × WState T S → IState T × (T.E × WState T S) :=
  fun opcode =>
    let base := inspectorInstruction obs (liftInstr (table opcode))
    if opLOG0 ≤ opcode ∧ opcode ≤ opLOG4 then logWrapper ops obs base
    else if opcode = opSELFDESTRUCT then selfdestructWrapper ops obs base
    else base

/-- lift a `Res` of the previous handler to the wrapped context -/
def liftRes {ε α : Type} (w : WState T S) : Res ε (α × T.E) → Res ε (α × (T.E × WState T S))
  | .ok (a, e) => .ok (a, (e, w))
  | .err e => .err e
  | .panic => .panic

/-- after `prev_handle(ctx, inputs)`: `if let Ok(FrameOrResult::Frame(frame)) = &mut frame_or_result
{ inspector.initialize_interp(frame.interpreter_mut(), &mut ctx.evm) }` -/
def initFrame {O : Type} (obs : Observer T S) (w : WState T S) :
    Res T.Err (FrameOr T O × T.E) → Res T.Err (FrameOr T O × (T.E × WState T S))
  | .ok (.frame interp data, e) =>
    let r := obs.initializeInterp w.obs interp e
    .ok (.frame r.2.1 data, (r.2.2, { w with obs := r.1 }))
  | .ok (.result o, e) => .ok (.result o, (e, w))
  | .err e => .err e
  | .panic => .panic

/-- `inspector_handle_register(handler)` -/
def wrap (ops : EnvOps T) (obs : Observer T S) (m : Machine T T.E) : Machine T (T.E × WState T S) where
  fetch := m.fetch
  table := wrapTable ops obs m.table
  takeError c := liftRes c.2 ((m.takeError c.1).map fun e => ((), e)) |>.map fun x => x.2
  -- handler.execution.call
  call c inputs :=
    let r := obs.call c.2.obs c.1 inputs
    let inputs := r.2.2.1
    let w : WState T S := { c.2 with obs := r.1, callStack := inputs :: c.2.callStack }
    match r.2.2.2 with
    | some outcome => .ok (.result outcome, (r.2.1, w))
    | none => initFrame obs w (m.call r.2.1 inputs)
  -- handler.execution.create (pushes in both branches)
  create c inputs :=
    let r := obs.create c.2.obs c.1 inputs
    let inputs := r.2.2.1
    let w : WState T S := { c.2 with obs := r.1, createStack := inputs :: c.2.createStack }
    match r.2.2.2 with
    | some outcome => .ok (.result outcome, (r.2.1, w))
    | none => initFrame obs w (m.create r.2.1 inputs)
  -- handler.execution.eofcreate
  eofcreate c inputs :=
    let r := obs.eofcreate c.2.obs c.1 inputs
    let inputs := r.2.2.1
    let w : WState T S := { c.2 with obs := r.1, eofStack := inputs :: c.2.eofStack }
    match r.2.2.2 with
    | some outcome => .ok (.result outcome, (r.2.1, w))
    | none => initFrame obs w (m.eofcreate r.2.1 inputs)
  -- not registered: the previous handlers
  callReturn c f r := liftRes c.2 (m.callReturn c.1 f r)
  createReturn c f r := liftRes c.2 (m.createReturn c.1 f r)
  eofcreateReturn c f r := liftRes c.2 (m.eofcreateReturn c.1 f r)
  -- handler.execution.insert_call_outcome
  insertCallOutcome c frame shared outcome :=
    match c.2.callStack with
    | [] => .panic   -- `.pop().unwrap()`
    | callInputs :: restStack =>
      let r := obs.callEnd c.2.obs c.1 callInputs outcome
      let w : WState T S := { c.2 with obs := r.1, callStack := restStack }
      match m.insertCallOutcome r.2.1 frame shared r.2.2 with
      | .ok (st, sh, e) => .ok (st, sh, (e, w))
      | .err e => .err e
      | .panic => .panic
  -- handler.execution.insert_create_outcome
  insertCreateOutcome c frame outcome :=
    match c.2.createStack with
    | [] => .panic
    | createInputs :: restStack =>
      let r := obs.createEnd c.2.obs c.1 createInputs outcome
      let w : WState T S := { c.2 with obs := r.1, createStack := restStack }
      liftRes w (m.insertCreateOutcome r.2.1 frame r.2.2)
  -- handler.execution.insert_eofcreate_outcome
  insertEofcreateOutcome c frame outcome :=
    match c.2.eofStack with
    | [] => .panic
    | createInputs :: restStack =>
      let r := obs.eofcreateEnd c.2.obs c.1 createInputs outcome
      let w : WState T S := { c.2 with obs := r.1, eofStack := restStack }
      liftRes w (m.insertEofcreateOutcome r.2.1 frame r.2.2)
  -- handler.execution.last_frame_return
  lastFrameReturn c frameResult :=
    match frameResult with
    | .call outcome =>
      match c.2.callStack with
      | [] => .panic
      | callInputs :: restStack =>
        let r := obs.callEnd c.2.obs c.1 callInputs outcome
        liftRes { c.2 with obs := r.1, callStack := restStack } (m.lastFrameReturn r.2.1 (.call r.2.2))
    | .create outcome =>
      match c.2.createStack with
      | [] => .panic
      | createInputs :: restStack =>
        let r := obs.createEnd c.2.obs c.1 createInputs outcome
        liftRes { c.2 with obs := r.1, createStack := restStack } (m.lastFrameReturn r.2.1 (.create r.2.2))
    | .eofcreate outcome =>
      match c.2.eofStack with
      | [] => .panic
      | eofInputs :: restStack =>
        let r := obs.eofcreateEnd c.2.obs c.1 eofInputs outcome
        liftRes { c.2 with obs := r.1, eofStack := restStack } (m.lastFrameReturn r.2.1 (.eofcreate r.2.2))
  newContext := m.newContext
  freeContext := m.freeContext
  emptyMem := m.emptyMem
  newMem := m.newMem

end Wrap

/-! ## When is the wrapper invisible: `Observing` -/

/-- a relation between the outcome an `*_end` callback receives and the one it returns -/
structure ORel where
  call : CallOutcome → CallOutcome → Prop
  create : CreateOutcome → CreateOutcome → Prop

/-- the outcome is returned unchanged -/
def ORel.eq : ORel := { call := fun o o' => o' = o, create := fun o o' => o' = o }

/-- same class, output and (for non-error results) gas; for an ERROR-class result the gas record of the
returned outcome is arbitrary -/
def errGasEq (r r' : InterpreterResult) : Prop :=
  r'.result = r.result ∧ r'.output = r.output ∧ (r.result.isError = false → r'.gas = r.gas)

def ORel.errGas : ORel :=
  { call := fun o o' => o'.memoryOffset = o.memoryOffset ∧ errGasEq o.result o'.result,
    create := fun o o' => o'.address = o.address ∧ errGasEq o.result o'.result }

/-- the precise conditions under which the wrapper cannot be seen: no callback touches the interpreter, the
context or the inputs, `call`/`create`/`eofcreate` return `None`, and the `*_end` callbacks return an
outcome related by `rel` to the one they received (`ORel.eq`: unchanged). -/
structure Observing {T : Ty} {S : Type} (obs : Observer T S) (rel : ORel) : Prop where
  initializeInterp : ∀ s st e, (obs.initializeInterp s st e).2 = (st, e)
  step : ∀ s st e, (obs.step s st e).2 = (st, e)
  stepEnd : ∀ s st e, (obs.stepEnd s st e).2 = (st, e)
  log : ∀ s st e l, (obs.log s st e l).2 = (st, e)
  call : ∀ s e i, (obs.call s e i).2 = (e, i, none)
  create : ∀ s e i, (obs.create s e i).2 = (e, i, none)
  eofcreate : ∀ s e i, (obs.eofcreate s e i).2 = (e, i, none)
  callEnd : ∀ s e i o, (obs.callEnd s e i o).2.1 = e ∧ rel.call o (obs.callEnd s e i o).2.2
  createEnd : ∀ s e i o, (obs.createEnd s e i o).2.1 = e ∧ rel.create o (obs.createEnd s e i o).2.2
  eofcreateEnd : ∀ s e i o, (obs.eofcreateEnd s e i o).2.1 = e ∧ rel.create o (obs.eofcreateEnd s e i o).2.2

/-- the consumers of an outcome cannot tell `rel`-related outcomes apart -/
structure Respects {T : Ty} (m : Machine T T.E) (rel : ORel) : Prop where
  insertCall : ∀ c f sh o o', rel.call o o' → m.insertCallOutcome c f sh o' = m.insertCallOutcome c f sh o
  insertCreate : ∀ c f o o', rel.create o o' → m.insertCreateOutcome c f o' = m.insertCreateOutcome c f o
  insertEofcreate : ∀ c f o o', rel.create o o' → m.insertEofcreateOutcome c f o' = m.insertEofcreateOutcome c f o
  lastCall : ∀ c o o', rel.call o o' → m.lastFrameReturn c (.call o') = m.lastFrameReturn c (.call o)
  lastCreate : ∀ c o o', rel.create o o' → m.lastFrameReturn c (.create o') = m.lastFrameReturn c (.create o)
  lastEofcreate : ∀ c o o', rel.create o o' → m.lastFrameReturn c (.eofcreate o') = m.lastFrameReturn c (.eofcreate o)

/-! ## The three inspectors -/

/-- `struct NoOpInspector; impl Inspector for NoOpInspector {}` -/
def noop (T : Ty) : Observer T Unit := Observer.default T Unit

/-- `struct GasInspector { gas_remaining: u64, last_gas_cost: u64 }` -/
structure GasInsp where
  gasRemaining : Nat
  lastGasCost : Nat
  deriving DecidableEq, Repr

def GasInsp.default : GasInsp := { gasRemaining := 0, lastGasCost := 0 }

/-- `GasInspector::call_end` / `create_end` on the `InterpreterResult`:
`if outcome.result.result.is_error() { outcome.result.gas.spend_all(); self.gas_remaining = 0; }` -/
def gasEndResult (s : GasInsp) (r : InterpreterResult) : GasInsp × InterpreterResult :=
  if r.result.isError then
    ({ s with gasRemaining := 0 }, { r with gas := Revm.Model.Gas.spendAll r.gas })
  else (s, r)

/-- `impl Inspector for GasInspector` (`log`, `call`, `create`, `eofcreate`, `eofcreate_end`,
`selfdestruct` are the trait defaults) -/
def gasInspector (T : Ty) : Observer T GasInsp :=
  { Observer.default T GasInsp with
    initializeInterp := fun s st e => ({ s with gasRemaining := st.gas.limit }, st, e)
    step := fun s st e => ({ s with gasRemaining := st.gas.remaining }, st, e)
    stepEnd := fun s st e =>
      let remaining := st.gas.remaining
      ({ lastGasCost := U64ops.saturatingSub s.gasRemaining remaining, gasRemaining := remaining }, st, e)
    callEnd := fun s e _ o =>
      ((gasEndResult s o.result).1, e, { o with result := (gasEndResult s o.result).2 })
    createEnd := fun s e _ o =>
      ((gasEndResult s o.result).1, e, { o with result := (gasEndResult s o.result).2 }) }

/-- `struct TracerEip3155`: the fields that are written by the callbacks. `lines` counts the JSON lines
handed to the writer (their text never flows back: `let _ = self.write_value(..)`). -/
structure Tracer where
  gasInspector : GasInsp
  pc : Nat
  gas : Nat
  refunded : Int
  skip : Bool
  lines : Nat
  deriving DecidableEq, Repr

def Tracer.new : Tracer :=
  { gasInspector := GasInsp.default, pc := 0, gas := 0, refunded := 0, skip := false, lines := 0 }

/-- `TracerEip3155::clear` (the writer and the line count stay) -/
def Tracer.clear (t : Tracer) : Tracer := { Tracer.new with lines := t.lines }

/-- the tail of `TracerEip3155::call_end` / `create_end`:
`if context.journaled_state.depth() == 0 { self.print_summary(..); self.clear(); }` -/
def Tracer.atEnd {T : Ty} (ops : EnvOps T) (t : Tracer) (e : T.E) : Tracer :=
  if ops.depth e = 0 then ({ t with lines := t.lines + 1 } : Tracer).clear else t

/-- `impl Inspector for TracerEip3155` -/
def tracer3155 (T : Ty) (ops : EnvOps T) : Observer T Tracer :=
  { Observer.default T Tracer with
    initializeInterp := fun s st e =>
      ({ s with gasInspector := ((gasInspector T).initializeInterp s.gasInspector st e).1 }, st, e)
    step := fun s st e =>
      ({ s with gasInspector := ((gasInspector T).step s.gasInspector st e).1,
                pc := st.ip, gas := st.gas.remaining, refunded := st.gas.refunded }, st, e)
    stepEnd := fun s st e =>
      let gi := ((gasInspector T).stepEnd s.gasInspector st e).1
      if s.skip then ({ s with gasInspector := gi, skip := false }, st, e)
      else ({ s with gasInspector := gi, lines := s.lines + 1 }, st, e)
    callEnd := fun s e i o =>
      let r := (gasInspector T).callEnd s.gasInspector e i o
      (Tracer.atEnd ops { s with gasInspector := r.1 } e, e, r.2.2)
    createEnd := fun s e i o =>
      let r := (gasInspector T).createEnd s.gasInspector e i o
      (Tracer.atEnd ops { s with gasInspector := r.1 } e, e, r.2.2) }

/-! ## The consumers of an outcome, transcribed -/

/-- the interpreter operations used by `insert_*_outcome` that act on fields kept abstract -/
structure InterpOps (T : Ty) where
  /-- `push!(self, x)`: `stack.push(x)`, on overflow `instruction_result = StackOverflow` -/
  push : IState T → Nat → IState T
  /-- `self.return_data_buffer = …` -/
  setReturnData : IState T → List Nat → IState T
  isEof : IState T → Bool
  /-- `shared_memory.set(offset, &data[..len])` -/
  memSet : T.Mem → Nat → List Nat → T.Mem

/-- `core::cmp::min(out_len, return_data_buffer.len())` with `out_len = memory_offset.len()` -/
def targetLen (o : CallOutcome) : Nat := min (o.memoryOffset.2 - o.memoryOffset.1) o.result.output.length

/-- `Interpreter::insert_call_outcome` (the `FatalExternalError` arm panics) -/
def insertCallOutcome {T : Ty} (io : InterpOps T) (st : IState T) (shared : T.Mem) (o : CallOutcome) :
    Option (IState T × T.Mem) :=
  let st := { st with instructionResult := .Continue }
  let outOffset := o.memoryOffset.1
  let outGas := o.result.gas
  let st := io.setReturnData st o.result.output
  let data := o.result.output.take (targetLen o)
  if o.result.result.isOk then
    let st := { st with gas := Revm.Model.Gas.recordRefund (Revm.Model.Gas.eraseCost st.gas outGas.remaining) outGas.refunded }
    let shared := io.memSet shared outOffset data
    some (io.push st (if io.isEof st then 0 else 1), shared)
  else if o.result.result.isRevert then
    let st := { st with gas := Revm.Model.Gas.eraseCost st.gas outGas.remaining }
    let shared := io.memSet shared outOffset data
    some (io.push st (if io.isEof st then 1 else 0), shared)
  else if o.result.result = .FatalExternalError then none
  else some (io.push st (if io.isEof st then 2 else 0), shared)

/-- `Interpreter::insert_create_outcome`; `pushAddr` is `push_b256!(address.unwrap_or_default().into_word())` -/
def insertCreateOutcome {T : Ty} (io : InterpOps T) (st : IState T) (o : CreateOutcome) : Option (IState T) :=
  let st := { st with instructionResult := .Continue }
  let st := io.setReturnData st (if o.result.result.isRevert then o.result.output else [])
  if o.result.result.isOk then
    let st := io.push st (o.address.getD 0)
    -- the two gas lines come after the push (which returns early on overflow)
    if st.instructionResult = .Continue then
      some { st with gas := Revm.Model.Gas.recordRefund (Revm.Model.Gas.eraseCost st.gas o.result.gas.remaining) o.result.gas.refunded }
    else some st
  else if o.result.result.isRevert then
    let st := io.push st 0
    if st.instructionResult = .Continue then
      some { st with gas := Revm.Model.Gas.eraseCost st.gas o.result.gas.remaining }
    else some st
  else if o.result.result = .FatalExternalError then none
  else some (io.push st 0)

/-- `Interpreter::insert_eofcreate_outcome` (`ReturnContract` without an address panics: `.expect("EOF Address")`) -/
def insertEofcreateOutcome {T : Ty} (io : InterpOps T) (st : IState T) (o : CreateOutcome) : Option (IState T) :=
  let st := { st with instructionResult := .Continue }
  let st := io.setReturnData st (if o.result.result = .Revert then o.result.output else [])
  if o.result.result = .ReturnContract then
    match o.address with
    | none => none
    | some a =>
      let st := io.push st a
      if st.instructionResult = .Continue then
        some { st with gas := Revm.Model.Gas.recordRefund (Revm.Model.Gas.eraseCost st.gas o.result.gas.remaining) o.result.gas.refunded }
      else some st
  else if o.result.result.isRevert then
    let st := io.push st 0
    if st.instructionResult = .Continue then
      some { st with gas := Revm.Model.Gas.eraseCost st.gas o.result.gas.remaining }
    else some st
  else if o.result.result = .FatalExternalError then none
  else some (io.push st 0)

/-- `handler::mainnet::last_frame_return` (`txGasLimit = context.evm.env.tx.gas_limit`) -/
def lastFrameReturn (txGasLimit : Nat) (fr : FrameResult) : FrameResult :=
  let instructionResult := fr.interpreterResult.result
  let remaining := fr.interpreterResult.gas.remaining
  let refunded := fr.interpreterResult.gas.refunded
  let gas := Revm.Model.Gas.newSpent txGasLimit
  if instructionResult.isOk then
    fr.setGas (Revm.Model.Gas.recordRefund (Revm.Model.Gas.eraseCost gas remaining) refunded)
  else if instructionResult.isRevert then
    fr.setGas (Revm.Model.Gas.eraseCost gas remaining)
  else fr.setGas gas

/-- `optimism::handler_register::last_frame_return` -/
def lastFrameReturnOp (txGasLimit : Nat) (isDeposit : Bool) (txSystem : Option Bool) (isRegolith : Bool)
    (fr : FrameResult) : FrameResult :=
  let instructionResult := fr.interpreterResult.result
  let remaining := fr.interpreterResult.gas.remaining
  let refunded := fr.interpreterResult.gas.refunded
  let gas := Revm.Model.Gas.newSpent txGasLimit
  if instructionResult.isOk then
    if !isDeposit || isRegolith then
      fr.setGas (Revm.Model.Gas.recordRefund (Revm.Model.Gas.eraseCost gas remaining) refunded)
    else if isDeposit && txSystem.getD false then
      fr.setGas (Revm.Model.Gas.eraseCost gas txGasLimit)
    else fr.setGas gas
  else if instructionResult.isRevert then
    if !isDeposit || isRegolith then fr.setGas (Revm.Model.Gas.eraseCost gas remaining)
    else fr.setGas gas
  else fr.setGas gas

/-- `handler::mainnet::post_execution::refund` followed by the EIP-7623 floor of
`transact_preverified_inner`: `gas.record_refund(eip7702_refund); gas.set_final_refund(is_london);
if gas.spent_sub_refunded() < floor { gas.set_spent(floor); gas.set_refund(0) }` -/
def refundAndFloor (isLondon : Bool) (eip7702Refund : Int) (floorGas : Nat) (g : Gas) : Gas :=
  let g := Revm.Model.Gas.recordRefund g eip7702Refund
  let g := Revm.Model.Gas.setFinalRefund g isLondon
  if Revm.Model.Gas.spentSubRefunded g < floorGas then
    Revm.Model.Gas.setRefund (Revm.Model.Gas.setSpent g floorGas) 0
  else g

/-- `ExecutionResult::{Success,Revert,Halt}.gas_used` = `gas.spent() - gas.refunded() as u64` (output handler)
and `gas_refunded` -/
def finalGasUsed (g : Gas) : Nat := U64ops.wsub (Revm.Model.Gas.spent g) (Revm.Model.Gas.i64AsU64 g.refunded)

/-- `handler::mainnet::insert_call_outcome`: `context.evm.take_error()?` then the interpreter method -/
def mainnetInsertCall {T : Ty} (io : InterpOps T) (takeError : T.E → Res T.Err T.E) (c : T.E) (f : Frame T)
    (sh : T.Mem) (o : CallOutcome) : Res T.Err (IState T × T.Mem × T.E) :=
  (takeError c).bind fun c =>
    match insertCallOutcome io f.interp sh o with
    | some (st, sh) => .ok (st, sh, c)
    | none => .panic

/-- `handler::mainnet::insert_create_outcome` -/
def mainnetInsertCreate {T : Ty} (io : InterpOps T) (takeError : T.E → Res T.Err T.E) (c : T.E) (f : Frame T)
    (o : CreateOutcome) : Res T.Err (IState T × T.E) :=
  (takeError c).bind fun c =>
    match insertCreateOutcome io f.interp o with
    | some st => .ok (st, c)
    | none => .panic

/-- `handler::mainnet::insert_eofcreate_outcome` -/
def mainnetInsertEofcreate {T : Ty} (io : InterpOps T) (takeError : T.E → Res T.Err T.E) (c : T.E) (f : Frame T)
    (o : CreateOutcome) : Res T.Err (IState T × T.E) :=
  (takeError c).bind fun c =>
    match insertEofcreateOutcome io f.interp o with
    | some st => .ok (st, c)
    | none => .panic

/-- the four outcome consumers of `m` are the mainnet handlers (`handler/mainnet/execution.rs`) -/
structure MainnetConsumers {T : Ty} (ops : EnvOps T) (io : InterpOps T) (m : Machine T T.E) : Prop where
  insertCall : ∀ c f sh o, m.insertCallOutcome c f sh o = mainnetInsertCall io m.takeError c f sh o
  insertCreate : ∀ c f o, m.insertCreateOutcome c f o = mainnetInsertCreate io m.takeError c f o
  insertEofcreate : ∀ c f o, m.insertEofcreateOutcome c f o = mainnetInsertEofcreate io m.takeError c f o
  last : ∀ c r, m.lastFrameReturn c r = .ok (lastFrameReturn (ops.txGasLimit c) r, c)

/-- the same with the Optimism `last_frame_return` (`dep`, `sys`, `reg` read from the context / spec) -/
structure OptimismConsumers {T : Ty} (ops : EnvOps T) (io : InterpOps T) (dep : T.E → Bool)
    (sys : T.E → Option Bool) (reg : Bool) (m : Machine T T.E) : Prop where
  insertCall : ∀ c f sh o, m.insertCallOutcome c f sh o = mainnetInsertCall io m.takeError c f sh o
  insertCreate : ∀ c f o, m.insertCreateOutcome c f o = mainnetInsertCreate io m.takeError c f o
  insertEofcreate : ∀ c f o, m.insertEofcreateOutcome c f o = mainnetInsertEofcreate io m.takeError c f o
  last : ∀ c r, m.lastFrameReturn c r =
    .ok (lastFrameReturnOp (ops.txGasLimit c) (dep c) (sys c) reg r, c)

end Revm.Model.InspectorWrap
