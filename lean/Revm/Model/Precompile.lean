import Revm.Util.Word
import Revm.Model.PrecompileHash
/-! Code-shaped model of `crates/precompile/src` (revm-precompile): the gas / length / padding /
validity layer of every precompile, with

* full executable definitions for identity, SHA-256, RIPEMD-160, BLAKE2F, modexp (square-and-multiply
  over `Nat`) and BN254 `add` / `mul` (affine arithmetic over `Nat`);
* the cryptographic cores of ecrecover (`secp256k1::ecrecover`), the BN254 pairing (G2 validity and the
  pairing verdict), KZG proof verification and all BLS12-381 curve checks / group operations as
  explicit *parameters*.

`u64` arithmetic that the Rust performs with `*`/`+` is modelled as wrapping (release profile; the
debug profile would panic instead — none of these wraps is reachable for inputs shorter than 2^40
bytes, see `Proofs/Precompile.lean`). A Rust panic is `Res.panic`. -/
namespace Revm.Model.Precompile
open Revm Revm.Model.PrecompileHash

/-- `PrecompileError` -/
inductive Err
  | OutOfGas | Blake2WrongLength | Blake2WrongFinalIndicatorFlag
  | ModexpExpOverflow | ModexpBaseOverflow | ModexpModOverflow
  | Bn128FieldPointNotAMember | Bn128AffineGFailedToCreate | Bn128PairLength
  | BlobInvalidInputLength | BlobMismatchedVersion | BlobVerifyKzgProofFailed
  | Other
  deriving DecidableEq, Repr

/-- `PrecompileResult` (+ panic) -/
inductive Res
  | ok (gasUsed : Nat) (out : Bytes)
  | err (e : Err)
  | panic
  deriving DecidableEq, Repr

/-! ## utilities.rs -/

/-- `right_pad::<N>` / `right_pad_vec`: the first `n` bytes, zero-extended on the right -/
def rightPad (n : Nat) (d : Bytes) : Bytes := d.take n ++ List.replicate (n - d.length) 0
/-- `left_pad::<N>` / `left_pad_vec`: the first `n` bytes if long enough, else zero-extended on the left -/
def leftPad (n : Nat) (d : Bytes) : Bytes :=
  if n ≤ d.length then d.take n else List.replicate (n - d.length) 0 ++ d
/-- `right_pad_with_offset`: `data.get(offset..).unwrap_or_default()` then `right_pad` -/
def rightPadOff (n : Nat) (d : Bytes) (off : Nat) : Bytes := rightPad n (d.drop off)
/-- `bool_to_bytes32` -/
def boolBytes32 (b : Bool) : Bytes := List.replicate 31 0 ++ [if b then 1 else 0]

/-! ## lib.rs -/

/-- `u64::div_ceil` -/
def divCeil (a b : Nat) : Nat := if a % b > 0 then a / b + 1 else a / b
/-- `calc_linear_cost_u32(len, base, word) = (len as u64).div_ceil(32) * word + base` -/
def calcLinearCost (len base word : Nat) : Nat :=
  U64ops.wadd (U64ops.wmul (divCeil len 32) word) base

/-! ## identity.rs, hash.rs -/

def identityRun (input : Bytes) (gasLimit : Nat) : Res :=
  let gasUsed := calcLinearCost input.length 15 3
  if gasUsed > gasLimit then .err .OutOfGas else .ok gasUsed input

def sha256Run (input : Bytes) (gasLimit : Nat) : Res :=
  let cost := calcLinearCost input.length 60 12
  if cost > gasLimit then .err .OutOfGas else .ok cost (sha256 input)

def ripemd160Run (input : Bytes) (gasLimit : Nat) : Res :=
  let gasUsed := calcLinearCost input.length 600 120
  if gasUsed > gasLimit then .err .OutOfGas
  else .ok gasUsed (List.replicate 12 0 ++ ripemd160 input)

/-! ## secp256k1.rs — the recovery itself (`secp256k1::ecrecover`, returning the keccak of the public
key with the first 12 bytes zeroed, or an error) is the parameter `recover sig recid msg` -/

def ecRecoverRun (recover : Bytes → Nat → Bytes → Option Bytes) (input : Bytes) (gasLimit : Nat) : Res :=
  if 3000 > gasLimit then .err .OutOfGas else
  let inp := rightPad 128 input
  match inp.drop 63 with
  | [] => .panic      -- unreachable: `inp` has 128 bytes
  | v :: _ =>
    if !(((inp.drop 32).take 31).all (· == 0) && (v == 27 || v == 28)) then .ok 3000 [] else
    let msg := inp.take 32
    let recid := v - 27
    let sig := (inp.drop 64).take 64
    match recover sig recid msg with
    | some out => .ok 3000 out
    | none => .ok 3000 []

/-! ## modexp.rs -/

/-- `U256::bit_len` -/
def bitLen (x : Nat) : Nat := if x = 0 then 0 else x.log2 + 1

def calculateIterationCount (expLen expHighp : Nat) : Nat :=
  let it :=
    if expLen ≤ 32 ∧ expHighp = 0 then 0
    else if expLen ≤ 32 then bitLen expHighp - 1
    else U64ops.saturatingAdd (U64ops.saturatingMul 8 (expLen - 32)) (max 1 (bitLen expHighp) - 1)
  max it 1

/-- `byzantium_gas_calc::mul_complexity` (`u64` for x ≤ 1024, `U256` above) -/
def byzMulComplexity (x : Nat) : Nat :=
  if x ≤ 64 then x * x
  else if x ≤ 1024 then x * x / 4 + 96 * x - 3072
  else U256.wsub (U256.wadd (U256.wmul x x / 16) (U256.wmul 480 x)) 199680

/-- `Uint::saturating_to::<u64>` -/
def satToU64 (x : Nat) : Nat := if x < U64 then x else U64 - 1

def byzantiumGasCalc (baseLen expLen modLen expHighp : Nat) : Nat :=
  let mul := byzMulComplexity (max modLen baseLen)
  let iter := calculateIterationCount expLen expHighp
  satToU64 (U256.wmul mul iter / 20)

def berlinGasCalc (baseLen expLen modLen expHighp : Nat) : Nat :=
  let maxLength := max baseLen modLen
  let words := if maxLength % 8 > 0 then maxLength / 8 + 1 else maxLength / 8
  let complexity := U256.wmul words words
  let iter := calculateIterationCount expLen expHighp
  max 200 (satToU64 (U256.wmul complexity iter / 3))

/-- square-and-multiply, structurally recursive on `fuel` -/
def modPowFuel : Nat → Nat → Nat → Nat → Nat
  | 0, _, _, m => 1 % m
  | f+1, b, e, m =>
    if e = 0 then 1 % m else
    let r := modPowFuel f b (e / 2) m
    let r2 := r * r % m
    if e % 2 = 1 then r2 * b % m else r2
/-- `b^e mod m` (proved in `Proofs/Precompile.lean`) -/
def modPow (b e m : Nat) : Nat := modPowFuel (e.log2 + 1) b e m

/-- number of bytes of the minimal big-endian encoding -/
def byteLen (v : Nat) : Nat := if v = 0 then 0 else v.log2 / 8 + 1
/-- `aurora_engine_modexp::modexp` on big-endian byte strings: empty for a zero modulus, else the
minimal big-endian bytes of `base^exp mod modulus` -/
def modexpLib (base exponent modulus : Bytes) : Bytes :=
  let m := beNat modulus
  if m = 0 then [] else
  let v := modPow (beNat base) (beNat exponent) m
  toBE (byteLen v) v

def isizeMax : Nat := 2^63 - 1

/-- the header fields and the point reached by `run_inner` before it touches the data
(shared with the driver's allocation guard) -/
structure ModexpHead where
  baseLen : Nat
  expLen : Nat
  modLen : Nat
  gasCost : Nat
  inputLen : Nat

def modexpRun (berlin : Bool) (input : Bytes) (gasLimit : Nat) : Res :=
  let minGas := if berlin then 200 else 0
  if minGas > gasLimit then .err .OutOfGas else
  let baseLen := beNat (rightPadOff 32 input 0)
  let expLen := beNat (rightPadOff 32 input 32)
  let modLen := beNat (rightPadOff 32 input 64)
  if baseLen ≥ U64 then .err .ModexpBaseOverflow else
  if modLen ≥ U64 then .err .ModexpModOverflow else
  if baseLen = 0 ∧ modLen = 0 then .ok minGas [] else
  if expLen ≥ U64 then .err .ModexpModOverflow else
  let data := input.drop 96
  let expHighp := beNat (leftPad 32 ((rightPadOff 32 data baseLen).take (min expLen 32)))
  let gasCost :=
    if berlin then berlinGasCalc baseLen expLen modLen expHighp
    else byzantiumGasCalc baseLen expLen modLen expHighp
  if gasCost > gasLimit then .err .OutOfGas else
  let inputLen := U64ops.saturatingAdd (U64ops.saturatingAdd baseLen expLen) modLen
  -- `right_pad_vec` allocates `vec![0; input_len]` when the data is shorter: capacity overflow panic
  if data.length < inputLen ∧ inputLen > isizeMax then .panic else
  let padded := rightPad inputLen data
  let base := padded.take baseLen
  let exponent := (padded.drop baseLen).take expLen
  let modulus := (padded.drop baseLen).drop expLen
  .ok gasCost (leftPad modLen (modexpLib base exponent modulus))

/-- the number of bytes `run_inner` allocates when the call gets as far as the allocation
(used only by the driver's guard against absurd allocations) -/
def modexpAllocLen (berlin : Bool) (input : Bytes) (gasLimit : Nat) : Option Nat :=
  let minGas := if berlin then 200 else 0
  if minGas > gasLimit then none else
  let baseLen := beNat (rightPadOff 32 input 0)
  let expLen := beNat (rightPadOff 32 input 32)
  let modLen := beNat (rightPadOff 32 input 64)
  if baseLen ≥ U64 ∨ modLen ≥ U64 ∨ (baseLen = 0 ∧ modLen = 0) ∨ expLen ≥ U64 then none else
  let data := input.drop 96
  let expHighp := beNat (leftPad 32 ((rightPadOff 32 data baseLen).take (min expLen 32)))
  let gasCost :=
    if berlin then berlinGasCalc baseLen expLen modLen expHighp
    else byzantiumGasCalc baseLen expLen modLen expHighp
  if gasCost > gasLimit then none else
  some (U64ops.saturatingAdd (U64ops.saturatingAdd baseLen expLen) modLen)

/-! ## bn128.rs -/

def bnP : Nat := 21888242871839275222246405745257275088696311157297823662689037894645226208583

/-- a G1 point: `none` = infinity -/
abbrev G1 := Option (Nat × Nat)

def fInv (a : Nat) : Nat := modPow a (bnP - 2) bnP
def fSub (a b : Nat) : Nat := (a + bnP - b % bnP) % bnP

def g1Add : G1 → G1 → G1
  | none, q => q
  | p, none => p
  | some (x1, y1), some (x2, y2) =>
    if x1 = x2 then
      if (y1 + y2) % bnP = 0 then none else
      let l := 3 * x1 * x1 % bnP * fInv (2 * y1 % bnP) % bnP
      let x3 := fSub (l * l % bnP) (2 * x1 % bnP)
      some (x3, fSub (l * fSub x1 x3 % bnP) y1)
    else
      let l := fSub y2 y1 * fInv (fSub x2 x1) % bnP
      let x3 := fSub (fSub (l * l % bnP) x1) x2
      some (x3, fSub (l * fSub x1 x3 % bnP) y1)

def g1MulFuel : Nat → Nat → G1 → G1
  | 0, _, _ => none
  | f+1, k, p =>
    if k = 0 then none else
    let h := g1MulFuel f (k / 2) p
    let d := g1Add h h
    if k % 2 = 1 then g1Add d p else d
def g1Mul (k : Nat) (p : G1) : G1 := g1MulFuel 256 k p

/-- `read_point`: two field elements (each must be < p), (0,0) is infinity, else on the curve y² = x³ + 3 -/
def readPoint (b : Bytes) : Except Err G1 :=
  let x := beNat (b.take 32)
  let y := beNat ((b.drop 32).take 32)
  if x ≥ bnP then .error .Bn128FieldPointNotAMember else
  if y ≥ bnP then .error .Bn128FieldPointNotAMember else
  if x = 0 ∧ y = 0 then .ok none else
  if y * y % bnP = (x * x % bnP * x + 3) % bnP then .ok (some (x, y)) else .error .Bn128AffineGFailedToCreate

def encodeG1 : G1 → Bytes
  | none => List.replicate 64 0
  | some (x, y) => toBE 32 x ++ toBE 32 y

def bnAddRun (gasCost : Nat) (input : Bytes) (gasLimit : Nat) : Res :=
  if gasCost > gasLimit then .err .OutOfGas else
  let inp := rightPad 128 input
  match readPoint (inp.take 64) with
  | .error e => .err e
  | .ok p1 =>
    match readPoint (inp.drop 64) with
    | .error e => .err e
    | .ok p2 => .ok gasCost (encodeG1 (g1Add p1 p2))

def bnMulRun (gasCost : Nat) (input : Bytes) (gasLimit : Nat) : Res :=
  if gasCost > gasLimit then .err .OutOfGas else
  let inp := rightPad 96 input
  match readPoint (inp.take 64) with
  | .error e => .err e
  | .ok p => .ok gasCost (encodeG1 (g1Mul (beNat ((inp.drop 64).take 32)) p))

/-- the parameters of the pairing check: validity of a G2 element (on the twist and in the subgroup;
`AffineG2::new`) given the element's position and its 128 bytes, and the verdict of `pairing_batch` -/
structure BnPairCore where
  g2Valid : Nat → Bytes → Bool
  pairingIsOne : List Bytes → Bool

/-- one 192-byte element: six field-membership reads, then G1, then G2 -/
def bnPairElem (core : BnPairCore) (idx : Nat) (e : Bytes) : Except Err Unit :=
  let fq (n : Nat) := beNat ((e.drop (32 * n)).take 32)
  if fq 0 ≥ bnP ∨ fq 1 ≥ bnP ∨ fq 2 ≥ bnP ∨ fq 3 ≥ bnP ∨ fq 4 ≥ bnP ∨ fq 5 ≥ bnP then
    .error .Bn128FieldPointNotAMember else
  match readPoint (e.take 64) with
  | .error err => .error err
  | .ok _ =>
    if fq 2 = 0 ∧ fq 3 = 0 ∧ fq 4 = 0 ∧ fq 5 = 0 then .ok ()
    else if core.g2Valid idx (e.drop 64) then .ok () else .error .Bn128AffineGFailedToCreate

def bnPairElems (core : BnPairCore) : Nat → Nat → Bytes → Except Err Unit
  | 0, _, _ => .ok ()
  | n+1, idx, inp =>
    match bnPairElem core idx (inp.take 192) with
    | .error e => .error e
    | .ok () => bnPairElems core n (idx + 1) (inp.drop 192)

def chunksOf (sz : Nat) : Nat → Bytes → List Bytes
  | 0, _ => []
  | n+1, b => b.take sz :: chunksOf sz n (b.drop sz)

def bnPairRun (core : BnPairCore) (perPoint base : Nat) (input : Bytes) (gasLimit : Nat) : Res :=
  let gasUsed := U64ops.wadd (U64ops.wmul (input.length / 192) perPoint) base
  if gasUsed > gasLimit then .err .OutOfGas else
  if input.length % 192 ≠ 0 then .err .Bn128PairLength else
  if input.isEmpty then .ok gasUsed (boolBytes32 true) else
  match bnPairElems core (input.length / 192) 0 input with
  | .error e => .err e
  | .ok () => .ok gasUsed (boolBytes32 (core.pairingIsOne (chunksOf 192 (input.length / 192) input)))

/-! ## blake2.rs -/

def blake2Run (input : Bytes) (gasLimit : Nat) : Res :=
  if input.length ≠ 213 then .err .Blake2WrongLength else
  let rounds := beNat (input.take 4)
  let gasUsed := rounds * 1
  if gasUsed > gasLimit then .err .OutOfGas else
  match input.drop 212 with
  | [1] => .ok gasUsed (blake2f input true)
  | [0] => .ok gasUsed (blake2f input false)
  | _ => .err .Blake2WrongFinalIndicatorFlag

/-! ## kzg_point_evaluation.rs — `verify_kzg_proof(commitment, z, y, proof)` is the parameter -/

def kzgReturnValue : Bytes :=
  toBE 32 4096 ++ toBE 32 0x73eda753299d7d483339d80809a1d80553bda402fffe5bfeffffffff00000001

/-- `kzg_to_versioned_hash`: `0x01 ++ sha256(commitment)[1..]` -/
def kzgToVersionedHash (commitment : Bytes) : Bytes := 1 :: (sha256 commitment).drop 1

def kzgRun (verify : Bytes → Bytes → Bytes → Bytes → Bool) (input : Bytes) (gasLimit : Nat) : Res :=
  if gasLimit < 50000 then .err .OutOfGas else
  if input.length ≠ 192 then .err .BlobInvalidInputLength else
  let versionedHash := input.take 32
  let commitment := (input.drop 96).take 48
  if kzgToVersionedHash commitment ≠ versionedHash then .err .BlobMismatchedVersion else
  let z := (input.drop 32).take 32
  let y := (input.drop 64).take 32
  let proof := (input.drop 144).take 48
  if !verify commitment z y proof then .err .BlobVerifyKzgProofFailed else
  .ok 50000 kzgReturnValue

/-! ## bls12_381/* — curve membership, subgroup checks and the group operations are parameters;
padding, canonical-field-element checks, lengths and gas are modelled -/

def blsP : Nat := 0x1a0111ea397fe69a4b1ba7b6434bacd764774b84f38512bf6730d2a0f6b0f6241eabfffeb153ffffb9feffffffffaaab

/-- a decoded field element is its 48 big-endian bytes -/
structure BlsCore where
  g1OnCurve : Bytes → Bytes → Bool
  g1InSubgroup : Bytes → Bytes → Bool
  g2OnCurve : Bytes → Bytes → Bytes → Bytes → Bool
  g2InSubgroup : Bytes → Bytes → Bytes → Bytes → Bool
  /-- results as affine coordinates (48-byte field elements) -/
  g1Add : Bytes → Bytes → List Bytes
  g2Add : Bytes → Bytes → List Bytes
  g1Msm : List (Bytes × Bytes) → List Bytes
  g2Msm : List (Bytes × Bytes) → List Bytes
  pairingIsOne : List (Bytes × Bytes) → Bool
  mapFp : Bytes → List Bytes
  mapFp2 : Bytes → Bytes → List Bytes

/-- `remove_padding` + `fp_from_bendian`: 64 bytes, top 16 zero, value below the field modulus -/
def blsFp (b : Bytes) : Option Bytes :=
  if b.length ≠ 64 then none else
  if !((b.take 16).all (· == 0)) then none else
  let fp := b.drop 16
  if beNat fp < blsP then some fp else none

/-- `fp_to_bytes` for each coordinate: 16 zero bytes then the 48-byte element -/
def blsEncode (fps : List Bytes) : Bytes := fps.flatMap (fun fp => List.replicate 16 0 ++ fp)

/-- `extract_g1_input` -/
def blsG1 (core : BlsCore) (b : Bytes) (subgroup : Bool) : Option (Bytes × Bytes) :=
  if b.length ≠ 128 then none else
  match blsFp (b.take 64), blsFp (b.drop 64) with
  | some x, some y =>
    if subgroup then (if core.g1InSubgroup x y then some (x, y) else none)
    else (if core.g1OnCurve x y then some (x, y) else none)
  | _, _ => none

/-- `extract_g2_input` -/
def blsG2 (core : BlsCore) (b : Bytes) (subgroup : Bool) : Option (Bytes × Bytes × Bytes × Bytes) :=
  if b.length ≠ 256 then none else
  match blsFp (b.take 64), blsFp ((b.drop 64).take 64), blsFp ((b.drop 128).take 64), blsFp (b.drop 192) with
  | some x0, some x1, some y0, some y1 =>
    if subgroup then (if core.g2InSubgroup x0 x1 y0 y1 then some (x0, x1, y0, y1) else none)
    else (if core.g2OnCurve x0 x1 y0 y1 then some (x0, x1, y0, y1) else none)
  | _, _, _, _ => none

def blsG1AddRun (core : BlsCore) (input : Bytes) (gasLimit : Nat) : Res :=
  if 375 > gasLimit then .err .OutOfGas else
  if input.length ≠ 256 then .err .Other else
  match blsG1 core (input.take 128) false with
  | none => .err .Other
  | some _ =>
    match blsG1 core (input.drop 128) false with
    | none => .err .Other
    | some _ => .ok 375 (blsEncode (core.g1Add (input.take 128) (input.drop 128)))

def blsG2AddRun (core : BlsCore) (input : Bytes) (gasLimit : Nat) : Res :=
  if 600 > gasLimit then .err .OutOfGas else
  if input.length ≠ 512 then .err .Other else
  match blsG2 core (input.take 256) false with
  | none => .err .Other
  | some _ =>
    match blsG2 core (input.drop 256) false with
    | none => .err .Other
    | some _ => .ok 600 (blsEncode (core.g2Add (input.take 256) (input.drop 256)))

def g1DiscountTable : List Nat := [
  1000, 949, 848, 797, 764, 750, 738, 728, 719, 712, 705, 698, 692, 687, 682, 677, 673, 669, 665,
  661, 658, 654, 651, 648, 645, 642, 640, 637, 635, 632, 630, 627, 625, 623, 621, 619, 617, 615,
  613, 611, 609, 608, 606, 604, 603, 601, 599, 598, 596, 595, 593, 592, 591, 589, 588, 586, 585,
  584, 582, 581, 580, 579, 577, 576, 575, 574, 573, 572, 570, 569, 568, 567, 566, 565, 564, 563,
  562, 561, 560, 559, 558, 557, 556, 555, 554, 553, 552, 551, 550, 549, 548, 547, 547, 546, 545,
  544, 543, 542, 541, 540, 540, 539, 538, 537, 536, 536, 535, 534, 533, 532, 532, 531, 530, 529,
  528, 528, 527, 526, 525, 525, 524, 523, 522, 522, 521, 520, 520, 519]

def g2DiscountTable : List Nat := [
  1000, 1000, 923, 884, 855, 832, 812, 796, 782, 770, 759, 749, 740, 732, 724, 717, 711, 704,
  699, 693, 688, 683, 679, 674, 670, 666, 663, 659, 655, 652, 649, 646, 643, 640, 637, 634, 632,
  629, 627, 624, 622, 620, 618, 615, 613, 611, 609, 607, 606, 604, 602, 600, 598, 597, 595, 593,
  592, 590, 589, 587, 586, 584, 583, 582, 580, 579, 578, 576, 575, 574, 573, 571, 570, 569, 568,
  567, 566, 565, 563, 562, 561, 560, 559, 558, 557, 556, 555, 554, 553, 552, 552, 551, 550, 549,
  548, 547, 546, 545, 545, 544, 543, 542, 541, 541, 540, 539, 538, 537, 537, 536, 535, 535, 534,
  533, 532, 532, 531, 530, 530, 529, 528, 528, 527, 526, 526, 525, 524, 524]

/-- `msm_required_gas` (`u64` products wrap in release) -/
def msmRequiredGas (k : Nat) (table : List Nat) (multiplicationCost : Nat) : Nat :=
  if k = 0 then 0 else
  match table[min (k - 1) (table.length - 1)]? with
  | none => 0      -- unreachable for the two 128-entry tables
  | some discount => U64ops.wmul (U64ops.wmul k discount) multiplicationCost / 1000

/-- the (point, scalar) pairs of an MSM input that survive the all-zero filter; `none` if a point is bad -/
def blsMsmPairs (ptLen : Nat) (ok : Bytes → Bool) : Nat → Bytes → Option (List (Bytes × Bytes))
  | 0, _ => some []
  | n+1, inp =>
    let pt := inp.take ptLen
    let sc := (inp.drop ptLen).take 32
    let rest := inp.drop (ptLen + 32)
    if pt.all (· == 0) then blsMsmPairs ptLen ok n rest else
    if ok pt then (blsMsmPairs ptLen ok n rest).map ((pt, sc) :: ·) else none

def blsG1MsmRun (core : BlsCore) (input : Bytes) (gasLimit : Nat) : Res :=
  if input.length = 0 ∨ input.length % 160 ≠ 0 then .err .Other else
  let k := input.length / 160
  let requiredGas := msmRequiredGas k g1DiscountTable 12000
  if requiredGas > gasLimit then .err .OutOfGas else
  match blsMsmPairs 128 (fun pt => (blsG1 core pt true).isSome) k input with
  | none => .err .Other
  | some [] => .ok requiredGas (List.replicate 128 0)
  | some ps => .ok requiredGas (blsEncode (core.g1Msm ps))

def blsG2MsmRun (core : BlsCore) (input : Bytes) (gasLimit : Nat) : Res :=
  if input.length = 0 ∨ input.length % 288 ≠ 0 then .err .Other else
  let k := input.length / 288
  let requiredGas := msmRequiredGas k g2DiscountTable 22500
  if requiredGas > gasLimit then .err .OutOfGas else
  match blsMsmPairs 256 (fun pt => (blsG2 core pt true).isSome) k input with
  | none => .err .Other
  | some [] => .ok requiredGas (List.replicate 256 0)
  | some ps => .ok requiredGas (blsEncode (core.g2Msm ps))

def blsPairingPairs (core : BlsCore) : Nat → Bytes → Option (List (Bytes × Bytes))
  | 0, _ => some []
  | n+1, inp =>
    let p1 := inp.take 128
    let p2 := (inp.drop 128).take 256
    match blsG1 core p1 true with
    | none => none
    | some _ =>
      match blsG2 core p2 true with
      | none => none
      | some _ => (blsPairingPairs core n (inp.drop 384)).map ((p1, p2) :: ·)

def blsPairingRun (core : BlsCore) (input : Bytes) (gasLimit : Nat) : Res :=
  if input.length = 0 ∨ input.length % 384 ≠ 0 then .err .Other else
  let k := input.length / 384
  let requiredGas := U64ops.wadd (U64ops.wmul 32600 k) 37700
  if requiredGas > gasLimit then .err .OutOfGas else
  match blsPairingPairs core k input with
  | none => .err .Other
  | some ps => .ok requiredGas (boolBytes32 (core.pairingIsOne ps))

def blsMapFpRun (core : BlsCore) (input : Bytes) (gasLimit : Nat) : Res :=
  if 5500 > gasLimit then .err .OutOfGas else
  if input.length ≠ 64 then .err .Other else
  match blsFp input with
  | none => .err .Other
  | some fp => .ok 5500 (blsEncode (core.mapFp fp))

def blsMapFp2Run (core : BlsCore) (input : Bytes) (gasLimit : Nat) : Res :=
  if 23800 > gasLimit then .err .OutOfGas else
  if input.length ≠ 128 then .err .Other else
  match blsFp (input.take 64), blsFp (input.drop 64) with
  | some a, some b => .ok 23800 (blsEncode (core.mapFp2 a b))
  | _, _ => .err .Other

/-! ## lib.rs — which function and which pricing each `PrecompileSpecId` installs -/

inductive Fork | homestead | byzantium | istanbul | berlin | cancun | prague
  deriving DecidableEq, Repr

def Fork.idx : Fork → Nat
  | .homestead => 0 | .byzantium => 1 | .istanbul => 2 | .berlin => 3 | .cancun => 4 | .prague => 5

/-- all parameters of the model -/
structure Cores where
  recover : Bytes → Nat → Bytes → Option Bytes
  bnPair : BnPairCore
  kzgVerify : Bytes → Bytes → Bytes → Bytes → Bool
  bls : BlsCore

/-- `Precompiles::new(fork).get(address).call(input, gas_limit)`; `none` = no precompile there -/
def call (c : Cores) (fork : Fork) (addr : Nat) (input : Bytes) (gasLimit : Nat) : Option Res :=
  let f := fork.idx
  match addr with
  | 1 => some (ecRecoverRun c.recover input gasLimit)
  | 2 => some (sha256Run input gasLimit)
  | 3 => some (ripemd160Run input gasLimit)
  | 4 => some (identityRun input gasLimit)
  | 5 => if f < 1 then none else some (modexpRun (decide (f ≥ 3)) input gasLimit)
  | 6 => if f < 1 then none else some (bnAddRun (if f ≥ 2 then 150 else 500) input gasLimit)
  | 7 => if f < 1 then none else some (bnMulRun (if f ≥ 2 then 6000 else 40000) input gasLimit)
  | 8 => if f < 1 then none else
      some (if f ≥ 2 then bnPairRun c.bnPair 34000 45000 input gasLimit
            else bnPairRun c.bnPair 80000 100000 input gasLimit)
  | 9 => if f < 2 then none else some (blake2Run input gasLimit)
  | 10 => if f < 4 then none else some (kzgRun c.kzgVerify input gasLimit)
  | 11 => if f < 5 then none else some (blsG1AddRun c.bls input gasLimit)
  | 12 => if f < 5 then none else some (blsG1MsmRun c.bls input gasLimit)
  | 13 => if f < 5 then none else some (blsG2AddRun c.bls input gasLimit)
  | 14 => if f < 5 then none else some (blsG2MsmRun c.bls input gasLimit)
  | 15 => if f < 5 then none else some (blsPairingRun c.bls input gasLimit)
  | 16 => if f < 5 then none else some (blsMapFpRun c.bls input gasLimit)
  | 17 => if f < 5 then none else some (blsMapFp2Run c.bls input gasLimit)
  | _ => none

end Revm.Model.Precompile
