import Revm.Util.Word
import Revm.Util.Keccak
import Revm.Model.Interp
import Revm.Model.Journal
/-! Whole-transaction model, part 1: the world state around the journal and the `Host` of the interpreter.

Rust sources mirrored:
* `crates/revm/src/context.rs`: `impl Host for Context` (every method, incl. the `block_hash` window)
* `crates/revm/src/context/inner_evm_context.rs`: `balance`, `code`, `code_hash`, `sload`, `sstore`, `tload`, `tstore`,
  `selfdestruct`, `load_account`, `load_account_delegated`, `block_hash`
* the `Database` behind the journal: accounts are `Some(info)` exactly for the listed pre-state accounts, absent
  storage reads as zero, `block_hash(n) = keccak256(n.to_string())` (`EmptyDB`, also behind `State<EmptyDB>`).

`Model.Journal` keeps accounts with their code identified by HASH; the bytes live in the code store `World.codes`
(content addressed, it only grows during a transaction). `Model.Journal` maps are functions, so the world also keeps the
lists of addresses / slots that were ever written, for enumeration of the post-state. Logs are numbered: the journal
keeps the ids (and truncates them on revert), `World.logs` keeps every record ever emitted. -/
namespace Revm.Model.Evm
open Revm Revm.Model

/-- why a run of the model stops without a result: a Rust panic (`unwrap` on a vacant entry …), a database / precompile
fatal error (`EVMError::Database` / `EVMError::Precompile`), a missing oracle answer, or the fuel of the model -/
inductive Err
  | panic (msg : String)
  | fatal (msg : String)
  | oracleMiss (msg : String)
  | outOfFuel
  deriving Repr

abbrev R := Except Err

def ofOpt {α} (msg : String) : Option α → R α
  | some a => .ok a
  | none => .error (.panic msg)

structure LogRec where
  addr : Nat
  topics : List Nat
  data : List Nat
  deriving Repr, DecidableEq

/-- one account of the database -/
structure PreAcct where
  addr : Nat
  balance : Nat
  nonce : Nat
  code : List Nat
  /-- `keccak256(code)` (computed when the account is loaded into the model) -/
  codeHash : Nat
  storage : List (Nat × Nat)
  deriving Repr

/-- a recorded answer of a precompile whose cryptographic core is not executable in Lean:
`(address, gas limit, input) ↦ (class, gas used, output)`; class 0 = `Ok`, 1 = out of gas, 2 = other error, 3 = fatal -/
structure PcAnswer where
  addr : Nat
  gasLimit : Nat
  input : List Nat
  cls : Nat
  gasUsed : Nat
  out : List Nat
  deriving Repr

structure World where
  js : Journal.JState
  /-- superset of the addresses present in `js.state` -/
  addrs : List Nat := []
  /-- superset of the (address, key) pairs present in the accounts' storage maps -/
  slots : List (Nat × Nat) := []
  /-- the code store: hash ↦ bytes, newest first -/
  codes : List (Nat × List Nat) := []
  /-- every log record ever emitted; `js.logs` holds indices into this list -/
  logs : List LogRec := []
  pre : List PreAcct := []
  /-- whether the database implements `has_storage` (the default method answers `false`) -/
  dbHasStorage : Bool := true
  pcOracle : List PcAnswer := []

def KECCAK_EMPTY : Nat := 0xc5d2460186f7233c927e7db2dcc703c0e500b653ca82273b7bfad8045d85a470

/-- the bytes of the code with hash `h`; `none` = the hash is unknown to the store (the Rust code would ask
`db.code_by_hash`, which the databases used here cannot answer either) -/
def World.codeOf (w : World) (h : Nat) : Option (List Nat) :=
  if h = KECCAK_EMPTY then some [] else w.codes.lookup h

/-- `Eip7702Bytecode::new_raw`: exactly `0xef01 ++ 0x00 ++ address` (23 bytes) -/
def delegateOf (code : List Nat) : Option Nat :=
  if code.length = 23 ∧ code.take 3 = [0xef, 0x01, 0x00] then some (Keccak.beNat (code.drop 3)) else none

def World.preAcct (w : World) (a : Nat) : Option PreAcct := w.pre.find? (fun p => p.addr == a)

/-- the `Database` as the journal model sees it -/
def World.db (w : World) : Journal.Db :=
  { basic := fun a => (w.preAcct a).map fun p =>
      { balance := p.balance, nonce := p.nonce, codeHash := p.codeHash, code := some p.codeHash },
    storage := fun a k => match w.preAcct a with
      | some p => (p.storage.lookup k).getD 0
      | none => 0,
    delegate := fun h => (w.codeOf h).bind delegateOf }

/-- `db.has_storage(address)` -/
def World.hasStorage (w : World) (a : Nat) : Bool :=
  w.dbHasStorage && match w.preAcct a with
    | some p => p.storage.any (fun kv => kv.2 != 0)
    | none => false

def World.noteAddr (w : World) (a : Nat) : World :=
  if w.addrs.contains a then w else { w with addrs := a :: w.addrs }
def World.noteSlot (w : World) (a k : Nat) : World :=
  if w.slots.contains (a, k) then w else { w with slots := (a, k) :: w.slots }
def World.addCode (w : World) (h : Nat) (code : List Nat) : World :=
  if h = KECCAK_EMPTY then w else
  match w.codes.lookup h with
  | some _ => w
  | none => { w with codes := (h, code) :: w.codes }

def World.acct (w : World) (a : Nat) : R Journal.Acct := ofOpt "account not loaded" (w.js.state a)

/-! ## journal operations lifted to the world -/

def World.loadAccount (w : World) (a : Nat) : R (World × Bool) := do
  let (js, cold) ← ofOpt "load_account" (Journal.loadAccount w.db w.js a)
  pure ({ w with js := js }.noteAddr a, cold)

def World.loadCode (w : World) (a : Nat) : R (World × Bool) := do
  let (js, cold) ← ofOpt "load_code" (Journal.loadCode w.db w.js a)
  pure ({ w with js := js }.noteAddr a, cold)

/-- (is_empty, is_cold, is_delegate_account_cold) -/
def World.loadAccountDelegated (w : World) (a : Nat) : R (World × Bool × Bool × Option Bool) := do
  let (js, isEmpty, cold, dcold) ← ofOpt "load_account_delegated" (Journal.loadAccountDelegated w.db w.js a)
  let w := { w with js := js }.noteAddr a
  -- the delegate, when there is one, was loaded too
  let w := match (js.state a).bind (fun acc => acc.info.code.bind w.db.delegate) with
    | some d => w.noteAddr d
    | none => w
  pure (w, isEmpty, cold, dcold)

def World.touch (w : World) (a : Nat) : R World := do
  let js ← ofOpt "touch" (Journal.touch w.js a)
  pure { w with js := js }

def World.checkpoint (w : World) : World × Journal.Checkpoint :=
  let (js, cp) := Journal.checkpoint w.js
  ({ w with js := js }, cp)

def World.commit (w : World) : World := { w with js := Journal.commit w.js }

def World.revert (w : World) (cp : Journal.Checkpoint) : R World := do
  let js ← ofOpt "checkpoint_revert" (Journal.revert w.js cp)
  pure { w with js := js }

def World.transfer (w : World) (src dst v : Nat) : R (World × Option Journal.TransferErr) := do
  let (js, e) ← ofOpt "transfer" (Journal.transfer w.db w.js src dst v)
  pure (({ w with js := js }.noteAddr src).noteAddr dst, e)

/-! ## the `Host` -/

/-- the fields of the environment the host itself reads -/
structure HostEnv where
  /-- `env.block.number` (a `U256`) -/
  blockNumber : Nat

def BLOCK_HASH_HISTORY : Nat := 256

/-- ASCII decimal digits -/
def decimalBytes (n : Nat) : List Nat := (toString n).toList.map (fun c => c.toNat)

/-- `Database::block_hash` of `EmptyDB`: `keccak256(number.to_string().as_bytes())` -/
def dbBlockHash (n : Nat) : Nat := Keccak.keccak256w (decimalBytes n)

/-- `Host::block_hash` of `Context` -/
def hostBlockHash (he : HostEnv) (requested : Nat) : Nat :=
  let blockNumber := U256.asU64Sat he.blockNumber
  if blockNumber < requested then 0 else
  let diff := blockNumber - requested
  if diff = 0 then 0
  else if diff ≤ BLOCK_HASH_HISTORY then dbBlockHash requested
  else 0

/-- one question of the interpreter answered from the journal (the `Host` methods of `Context`). The answers never are
`ok := false`: the databases modelled here are infallible. -/
def answer (he : HostEnv) (w : World) : Interp.HostOp → R (Interp.HostResp × World)
  | .keccak data => pure ({ word := Keccak.keccak256w data }, w)
  | .balance a => do
    let (w, cold) ← w.loadAccount a
    let acc ← w.acct a
    pure ({ word := acc.info.balance, isCold := cold }, w)
  | .code a => do
    let (w, cold) ← w.loadCode a
    let acc ← w.acct a
    let h ← ofOpt "code not cached" acc.info.code
    let bytes ← ofOpt "code_by_hash" (w.codeOf h)
    pure ({ bytes := bytes, isCold := cold }, w)
  | .codeHash a => do
    let (w, cold) ← w.loadCode a
    let acc ← w.acct a
    if acc.info.isEmpty then pure ({ word := 0, isCold := cold }, w)
    else pure ({ word := acc.info.codeHash, isCold := cold }, w)
  | .blockHash n => pure ({ word := hostBlockHash he n }, w)
  | .sload a k => do
    let (js, v, cold) ← ofOpt "sload" (Journal.sload w.db w.js a k)
    pure ({ word := v, isCold := cold }, { w with js := js }.noteSlot a k)
  | .sstore a k v => do
    let (js, o, p, n, cold) ← ofOpt "sstore" (Journal.sstore w.db w.js a k v)
    pure ({ original := o, present := p, new := n, isCold := cold }, { w with js := js }.noteSlot a k)
  | .tload a k => pure ({ word := Journal.tload w.js a k }, w)
  | .tstore a k v => do
    let js ← ofOpt "tstore" (Journal.tstore w.js a k v)
    pure ({}, { w with js := js })
  | .log a topics data =>
    let id := w.logs.length
    pure ({}, { w with js := Journal.log w.js id, logs := w.logs ++ [{ addr := a, topics := topics, data := data }] })
  | .selfdestruct a t => do
    let (js, hadValue, targetExists, prev, cold) ← ofOpt "selfdestruct" (Journal.selfdestruct w.db w.js a t)
    pure ({ hadValue := hadValue, targetExists := targetExists, previouslyDestroyed := prev, isCold := cold },
          { w with js := js }.noteAddr t)
  | .loadAccountDelegated a => do
    let (w, isEmpty, cold, dcold) ← w.loadAccountDelegated a
    pure ({ isEmpty := isEmpty, isCold := cold, delegCold := dcold }, w)
  | .create2Address d s c => pure ({ word := Keccak.create2Address d s (Keccak.keccak256w c) }, w)

end Revm.Model.Evm
