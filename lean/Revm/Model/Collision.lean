import Revm.Model.Db
/-! Model of the collision decision of contract creation (C21):
`EvmContext::make_create_frame` / `make_eofcreate_frame` (`context/evm_context.rs`) from the point
where the created address is known — `load_account(created)`, `db.has_storage(created)` on the
EVM's database, `JournaledState::create_account_checkpoint` (`journaled_state.rs`) — and what the
creator gets back (`return_error` builds `Gas::new(gas_limit)`; for an error-class result
`insert_create_outcome` / `last_frame_return` do not give the remaining gas back).
The four creation kinds (create transaction, CREATE, CREATE2, EOFCREATE / EOF create transaction)
share this code; they differ only in how the address was computed. -/
namespace Revm.Model.Collision
open Revm Revm.Model.Db

/-- the loaded target account, as far as creation looks at it -/
structure Target where
  codeHash : Nat
  nonce : Nat
  balance : Nat
  created : Bool := false
  touched : Bool := false
deriving DecidableEq, Repr

/-- the test of `create_account_checkpoint` -/
def collides (t : Target) (addressHasStorage : Bool) : Bool :=
  t.codeHash != KECCAK_EMPTY || t.nonce != 0 || addressHasStorage

inductive Result
  /-- `Err(CreateCollision)`: checkpoint reverted, `return_error` -/
  | collision
  /-- `Err(OverflowPayment)`: checkpoint reverted, `return_error` -/
  | overflowPayment
  /-- a frame for the init code was made -/
  | frame
deriving DecidableEq, Repr

structure Outcome where
  result : Result
  /-- the target account after the call -/
  target : Target
  /-- gas the creator will never see again, out of the `gas_limit` passed to the creation
  (`none`: depends on the init code) -/
  gasLost : Option Nat
deriving DecidableEq, Repr

/-- `create_account_checkpoint` on the loaded target `t`, given the database's `has_storage` answer -/
def createAccountCheckpoint (t : Target) (addressHasStorage : Bool) (value gasLimit : Nat) (spuriousDragon : Bool) : Outcome :=
  if collides t addressHasStorage then
    { result := .collision, target := t, gasLost := some gasLimit }
  else if t.balance + value ≥ W then
    -- mark_created / touch are undone by `checkpoint_revert`
    { result := .overflowPayment, target := t, gasLost := some gasLimit }
  else
    { result := .frame,
      target := { t with created := true, touched := true, balance := t.balance + value,
                         nonce := if spuriousDragon then 1 else t.nonce },
      gasLost := none }

/-- the whole step: ask the EVM's database (any stack of wrappers) whether the address has storage,
then `create_account_checkpoint` -/
def makeCreateFrame (db : Db) (addr : Addr) (t : Target) (value gasLimit : Nat) (spuriousDragon : Bool) : Outcome :=
  match (db.query (.hasStorage addr)).2 with
  | .flag hs => createAccountCheckpoint t hs value gasLimit spuriousDragon
  | _ => createAccountCheckpoint t false value gasLimit spuriousDragon   -- not reachable: `has_storage` answers a flag

/-! ## How the target became warm

`make_create_frame` reaches the target through `JournaledState::load_account`, which answers
`StateLoad { data, is_cold }`, DROPS `is_cold`, and then asks `db.has_storage(created_address)`
unconditionally. What the journal already knows about the address when creation reaches it — not
there at all, pre-loaded by the transaction's access list (`initial_account_load`, with or without
storage keys), loaded by BALANCE / EXTCODESIZE, loaded and touched by a CALL, left warm by an
earlier failed CREATE2 with the same salt, or left in the map but cold by a reverted sub-call — is
the `Warmth` dimension; `JAccount` is the journal's entry. -/

/-- the journal's entry (`Account`) for the target as far as creation can look at it -/
structure JAccount where
  target : Target
  /-- `AccountStatus::Cold` (only set by reverting an `AccountWarmed` entry) -/
  cold : Bool
  /-- the slots the journal has loaded so far with their present values (access-list keys, SLOADs) -/
  slots : List (Slot × Nat)
  /-- `AccountStatus::LoadedAsNotExisting`: `db.basic` answered `None` when the journal first loaded
  the address. Never cleared within the transaction (not by `mark_created`, `touch`, a balance
  transfer or `set_code`), so it is still set after the address has been deployed to. -/
  notExisting : Bool := false
deriving Repr

/-- `Account::from(info)` vs `Account::new_not_existing()`: the flag a fresh load sets -/
def loadedFlag (r : Reply) : Bool :=
  match r with
  | .info (some _) => false
  | _ => true

/-- `Account::from(info)` / `Account::new_not_existing()` as far as creation looks at it -/
def targetOfInfo : Option Info → Target
  | some i => { codeHash := i.codeHash, nonce := i.nonce, balance := i.balance }
  | none => { codeHash := KECCAK_EMPTY, nonce := 0, balance := 0 }

/-- the reply of `db.basic` as an `Option Info` (`basic` always answers an info) -/
def infoOfReply : Reply → Option Info
  | .info oi => oi
  | _ => none

/-- the reply of `db.storage` as a word -/
def wordOfReply : Reply → Nat
  | .word v => v
  | _ => 0

/-- the storage-key loop of `initial_account_load`: every key not yet loaded is read with `db.storage` -/
def preloadKeys (db : Db) (a : Addr) : List Slot → List (Slot × Nat) → Db × List (Slot × Nat)
  | [], acc => (db, acc)
  | k :: ks, acc =>
    match lookupSlot acc k with
    | some _ => preloadKeys db a ks acc
    | none =>
      let r := db.query (.storage a k)
      preloadKeys r.1 a ks ((k, wordOfReply r.2) :: acc)

inductive Warmth
  /-- first touch in this transaction is the creation itself -/
  | coldFirstTouch
  /-- listed in the transaction's access list with these storage keys (`initial_account_load`) -/
  | accessList (keys : List Slot)
  /-- BALANCE / EXTCODESIZE / EXTCODEHASH of the target before the create (`load_account`) -/
  | opcodeLoad
  /-- a CALL to the target that does no SLOAD there: loaded and touched -/
  | called
  /-- an earlier CREATE2 with the same salt failed in this transaction: its `load_account` stays -/
  | retried
  /-- loaded inside a sub-call that reverted: still in the journal's map, marked cold again -/
  | revertedCold
deriving Repr

/-- the database and the journal's entry for the target at the moment creation starts -/
def journalEntry (db : Db) (a : Addr) : Warmth → Db × Option JAccount
  | .coldFirstTouch => (db, none)
  | .accessList keys =>
    let r := db.query (.basic a)
    let p := preloadKeys r.1 a keys []
    (p.1, some { target := targetOfInfo (infoOfReply r.2), cold := false, slots := p.2, notExisting := loadedFlag r.2 })
  | .opcodeLoad =>
    let r := db.query (.basic a)
    (r.1, some { target := targetOfInfo (infoOfReply r.2), cold := false, slots := [], notExisting := loadedFlag r.2 })
  | .called =>
    let r := db.query (.basic a)
    (r.1, some { target := { targetOfInfo (infoOfReply r.2) with touched := true }, cold := false, slots := [],
                 notExisting := loadedFlag r.2 })
  | .retried =>
    -- the failed attempt ran `load_account` and `has_storage`, and its checkpoint was reverted
    let r := db.query (.basic a)
    let r2 := r.1.query (.hasStorage a)
    (r2.1, some { target := targetOfInfo (infoOfReply r.2), cold := false, slots := [], notExisting := loadedFlag r.2 })
  | .revertedCold =>
    let r := db.query (.basic a)
    (r.1, some { target := targetOfInfo (infoOfReply r.2), cold := true, slots := [], notExisting := loadedFlag r.2 })

/-- `JournaledState::load_account`: the (possibly freshly loaded) entry, marked warm, and `is_cold`.
`preloaded` = the address is in `warm_preloaded_addresses`. -/
def loadAccount (db : Db) (a : Addr) (j : Option JAccount) (preloaded : Bool) : Db × JAccount × Bool :=
  match j with
  | some acc => (db, { acc with cold := false }, acc.cold)
  | none =>
    let r := db.query (.basic a)
    (r.1, { target := targetOfInfo (infoOfReply r.2), cold := false, slots := [], notExisting := loadedFlag r.2 }, !preloaded)

/-- `make_create_frame` / `make_eofcreate_frame` from the point where the address is known, on the
journal entry `j`: `load_account` (its `is_cold` is not looked at), `db.has_storage`,
`create_account_checkpoint` -/
def makeCreateFrameJ (db : Db) (a : Addr) (j : Option JAccount) (preloaded : Bool)
    (value gasLimit : Nat) (spuriousDragon : Bool) : Outcome :=
  let l := loadAccount db a j preloaded
  makeCreateFrame l.1 a l.2.1.target value gasLimit spuriousDragon

/-- `create_account_checkpoint` on the journal's account: the test reads `info.code_hash`,
`info.nonce` and the `address_has_storage` argument — NOT the account's status flags; the account
afterwards carries the same `LoadedAsNotExisting` flag as before -/
def createAccountCheckpointJ (acc : JAccount) (addressHasStorage : Bool) (value gasLimit : Nat) (spuriousDragon : Bool) :
    Outcome × JAccount :=
  let o := createAccountCheckpoint acc.target addressHasStorage value gasLimit spuriousDragon
  (o, { acc with target := o.target })

/-- the same with the journal entry produced by one of the ways of becoming warm -/
def makeCreateFrameW (db : Db) (a : Addr) (w : Warmth) (value gasLimit : Nat) (spuriousDragon : Bool) : Outcome :=
  let e := journalEntry db a w
  makeCreateFrameJ e.1 a e.2 false value gasLimit spuriousDragon

/-- the target the creation sees for this way of becoming warm (for "target unchanged") -/
def loadedTarget (db : Db) (a : Addr) (w : Warmth) : Target :=
  let e := journalEntry db a w
  (loadAccount e.1 a e.2 false).2.1.target

/-! ## What happened to the target earlier in the same transaction

The journal's account for the target is not only "as loaded": an earlier creation in the same
transaction may have succeeded on it (CREATE2 with the same salt and init code) and the new
contract may have self-destructed since (the account stays in the journal, with its nonce and code,
until the end of the transaction — before and after Cancun, as it was created in this transaction);
or it was loaded as not existing and then funded by a value CALL. In all these cases the
`LoadedAsNotExisting` flag of the first load is still set. -/

inductive History
  /-- nothing before the creation -/
  | untouched
  /-- an earlier creation onto the address succeeded and deployed code with this hash; still alive -/
  | createdAlive (codeHash : Nat)
  /-- … and the deployed contract then executed SELFDESTRUCT (its balance moved out) -/
  | createdDestroyed (codeHash : Nat)
  /-- loaded by BALANCE, then a CALL transferred `amount` to it (no code runs there) -/
  | funded (amount : Nat)
deriving Repr

/-- the journal's account after a successful creation whose init code returned code with hash
`codeHash` (`set_code`); `LoadedAsNotExisting` is kept -/
def afterCreation (j : JAccount) (o : Outcome) (codeHash : Nat) : JAccount :=
  { j with target := { o.target with codeHash := codeHash } }

/-- SELFDESTRUCT of the contract: balance moved to the beneficiary, the rest stays until the end of the transaction -/
def afterSelfdestruct (j : JAccount) : JAccount := { j with target := { j.target with balance := 0 } }

/-- a value transfer to the account (`transfer` touches it) -/
def afterFunding (j : JAccount) (amount : Nat) : JAccount :=
  { j with target := { j.target with balance := j.target.balance + amount, touched := true } }

structure HOutcome where
  /-- result of the earlier creation (`createdAlive` / `createdDestroyed`) -/
  first : Option Result
  /-- the journal's account when the creation in question reaches it -/
  entry : JAccount
  outcome : Outcome
deriving Repr

/-- the creation in question after the history `h` (both creations pass `value` and `gasLimit`) -/
def makeCreateFrameH (db : Db) (a : Addr) (h : History) (value gasLimit : Nat) (spuriousDragon : Bool) : HOutcome :=
  match h with
  | .untouched =>
    let l := loadAccount db a none false
    { first := none, entry := l.2.1, outcome := makeCreateFrameJ db a none false value gasLimit spuriousDragon }
  | .funded amount =>
    let e := journalEntry db a .opcodeLoad
    let l := loadAccount e.1 a e.2 false
    let j := afterFunding l.2.1 amount
    { first := none, entry := j, outcome := makeCreateFrameJ l.1 a (some j) false value gasLimit spuriousDragon }
  | .createdAlive ch =>
    let l := loadAccount db a none false
    let o1 := makeCreateFrame l.1 a l.2.1.target value gasLimit spuriousDragon
    let j := if o1.result = .frame then afterCreation l.2.1 o1 ch else l.2.1
    { first := some o1.result, entry := j, outcome := makeCreateFrameJ l.1 a (some j) false value gasLimit spuriousDragon }
  | .createdDestroyed ch =>
    let l := loadAccount db a none false
    let o1 := makeCreateFrame l.1 a l.2.1.target value gasLimit spuriousDragon
    let j := if o1.result = .frame then afterSelfdestruct (afterCreation l.2.1 o1 ch) else l.2.1
    { first := some o1.result, entry := j, outcome := makeCreateFrameJ l.1 a (some j) false value gasLimit spuriousDragon }

end Revm.Model.Collision
