import Revm.Model.Db
/-! Model of the collision decision of contract creation (C21):
`EvmContext::make_create_frame` / `make_eofcreate_frame` (`context/evm_context.rs`) from the point
where the created address is known — `load_account(created)`, `db.has_storage(created)` on the
EVM's database, `JournaledState::create_account_checkpoint` (`journaled_state.rs`) — and what the
creator gets back (`return_error` builds `Gas::new(gas_limit)`; for an error-class result
`insert_create_outcome` / `last_frame_return` do not give the remaining gas back).
The four creation kinds (create transaction, CREATE, CREATE2, EOFCREATE / EOF create transaction)
share this code; they differ only in how the address was computed. -/
namespace Revm.Model.Collision
open Revm Revm.Model.Db

/-- the loaded target account, as far as creation looks at it -/
structure Target where
  codeHash : Nat
  nonce : Nat
  balance : Nat
  created : Bool := false
  touched : Bool := false
deriving DecidableEq, Repr

/-- the test of `create_account_checkpoint` -/
def collides (t : Target) (addressHasStorage : Bool) : Bool :=
  t.codeHash != KECCAK_EMPTY || t.nonce != 0 || addressHasStorage

inductive Result
  /-- `Err(CreateCollision)`: checkpoint reverted, `return_error` -/
  | collision
  /-- `Err(OverflowPayment)`: checkpoint reverted, `return_error` -/
  | overflowPayment
  /-- a frame for the init code was made -/
  | frame
deriving DecidableEq, Repr

structure Outcome where
  result : Result
  /-- the target account after the call -/
  target : Target
  /-- gas the creator will never see again, out of the `gas_limit` passed to the creation
  (`none`: depends on the init code) -/
  gasLost : Option Nat
deriving DecidableEq, Repr

/-- `create_account_checkpoint` on the loaded target `t`, given the database's `has_storage` answer -/
def createAccountCheckpoint (t : Target) (addressHasStorage : Bool) (value gasLimit : Nat) (spuriousDragon : Bool) : Outcome :=
  if collides t addressHasStorage then
    { result := .collision, target := t, gasLost := some gasLimit }
  else if t.balance + value ≥ W then
    -- mark_created / touch are undone by `checkpoint_revert`
    { result := .overflowPayment, target := t, gasLost := some gasLimit }
  else
    { result := .frame,
      target := { t with created := true, touched := true, balance := t.balance + value,
                         nonce := if spuriousDragon then 1 else t.nonce },
      gasLost := none }

/-- the whole step: ask the EVM's database (any stack of wrappers) whether the address has storage,
then `create_account_checkpoint` -/
def makeCreateFrame (db : Db) (addr : Addr) (t : Target) (value gasLimit : Nat) (spuriousDragon : Bool) : Outcome :=
  match (db.query (.hasStorage addr)).2 with
  | .flag hs => createAccountCheckpoint t hs value gasLimit spuriousDragon
  | _ => createAccountCheckpoint t false value gasLimit spuriousDragon   -- not reachable: `has_storage` answers a flag

end Revm.Model.Collision
