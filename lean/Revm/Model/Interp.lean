import Revm.Util.Word
import Revm.Model.Arith
import Revm.Model.Stack
import Revm.Model.Memory
import Revm.Model.Gas
import Revm.Model.GasCalc
import Revm.Model.Jump
import Revm.Model.Eof
/-! Code-shaped model of the INTERPRETER (`crates/interpreter`), one frame.

Rust sources mirrored:
* `interpreter.rs`: `Interpreter::{new, step, run, insert_call_outcome, insert_create_outcome}`, `resize_memory`
* `instructions/macros.rs`: `check!`, `gas!`, `gas_or_fail!`, `pop!`, `pop_address!`, `pop_top!`, `push!`,
  `push_b256!`, `resize_memory!`, `as_usize_or_fail!`, `as_usize_saturated!`, `require_non_staticcall!`, `require_eof!`
* `instructions/{arithmetic,bitwise,stack,memory,control,system,host_env,host,contract}.rs`: every handler that the
  legacy instruction table (`opcode.rs::instruction`) reaches, in the handler's own order of checks
* `opcode.rs`: the opcode byte → handler table (`decode`)

Shape. `step : IState → Outcome`:
  an instruction runs purely (`next`), asks the host ONE question and continues from the answer (`host op k`),
  hands a call / create to the frame machine (`action`), ends the frame (`halt`), or reaches a Rust
  panic / `unreachable` / out-of-buffer access (`fault`; never a default value).
The handlers are written in a small state-and-exit monad `M` whose primitives are the macros above; the primitives
call the existing component models: `Model.Stack` (Vec-shaped stack), `Model.Memory` (`SharedMemory`, `resize_memory`),
`Model.Gas` (`record_cost`, `record_refund`, `erase_cost`), `Model.GasCalc` (dynamic gas), `Model.Jump`
(`as_usize_or_fail!`, `JumpTable::is_valid`), `Model.Arith` (word operations).

`pc` is `instruction_pointer - bytecode.as_ptr()`; `code` is `Interpreter::bytecode` (for legacy code the analysed,
33-zero-padded bytes). Reading `code[pc]` is a checked access: outside the buffer it is `fault .oobCode`.
Addresses are `Nat < 2^160`, words `Nat < 2^256`, bytes `List Nat`.

keccak256 is not modelled here: `KECCAK256` asks the oracle (`HostOp.keccak data`) like a host question.

EOF: in legacy mode the EOF-only opcodes stop the frame (`EOFOpcodeDisabledInLegacy` / `ReturnContractInNotInitEOF`).
In EOF mode (`IState.initEof`) every EOF instruction is modelled: RJUMP, RJUMPI, RJUMPV, CALLF, RETF, JUMPF, DUPN, SWAPN,
EXCHANGE, DATALOAD, DATALOADN, DATASIZE, DATACOPY, RETURNDATALOAD, EOFCREATE (`Action.eofCreate`, the CREATE2-style
address is an oracle answer), RETURNCONTRACT, EXTCALL, EXTDELEGATECALL, EXTSTATICCALL. The `not_eof` opcodes keep their
legacy handlers (they cannot occur in validated code); CODESIZE / CODECOPY violate an `assume!` there (`fault .panic`). -/
namespace Revm.Model.Interp
open Revm
open Revm.Model.GasCalc (enabled)

/-! ## results -/

/-- `InstructionResult` -/
inductive IResult
  | Continue | Stop | Return | SelfDestruct | ReturnContract
  | Revert | CallTooDeep | OutOfFunds | CreateInitCodeStartingEF00 | InvalidEOFInitCode | InvalidExtDelegateCallTarget
  | CallOrCreate
  | OutOfGas | MemoryOOG | MemoryLimitOOG | PrecompileOOG | InvalidOperandOOG | OpcodeNotFound
  | CallNotAllowedInsideStatic | StateChangeDuringStaticCall | InvalidFEOpcode | InvalidJump | NotActivated
  | StackUnderflow | StackOverflow | OutOfOffset | CreateCollision | OverflowPayment | PrecompileError
  | NonceOverflow | CreateContractSizeLimit | CreateContractStartingWithEF | CreateInitCodeSizeLimit
  | FatalExternalError | ReturnContractInNotInitEOF | EOFOpcodeDisabledInLegacy | EOFFunctionStackOverflow
  | EofAuxDataOverflow | EofAuxDataTooSmall | InvalidEXTCALLTarget
  deriving DecidableEq, Repr

def IResult.name : IResult → String
  | .Continue => "Continue" | .Stop => "Stop" | .Return => "Return" | .SelfDestruct => "SelfDestruct"
  | .ReturnContract => "ReturnContract" | .Revert => "Revert" | .CallTooDeep => "CallTooDeep"
  | .OutOfFunds => "OutOfFunds" | .CreateInitCodeStartingEF00 => "CreateInitCodeStartingEF00"
  | .InvalidEOFInitCode => "InvalidEOFInitCode" | .InvalidExtDelegateCallTarget => "InvalidExtDelegateCallTarget"
  | .CallOrCreate => "CallOrCreate" | .OutOfGas => "OutOfGas" | .MemoryOOG => "MemoryOOG"
  | .MemoryLimitOOG => "MemoryLimitOOG" | .PrecompileOOG => "PrecompileOOG" | .InvalidOperandOOG => "InvalidOperandOOG"
  | .OpcodeNotFound => "OpcodeNotFound" | .CallNotAllowedInsideStatic => "CallNotAllowedInsideStatic"
  | .StateChangeDuringStaticCall => "StateChangeDuringStaticCall" | .InvalidFEOpcode => "InvalidFEOpcode"
  | .InvalidJump => "InvalidJump" | .NotActivated => "NotActivated" | .StackUnderflow => "StackUnderflow"
  | .StackOverflow => "StackOverflow" | .OutOfOffset => "OutOfOffset" | .CreateCollision => "CreateCollision"
  | .OverflowPayment => "OverflowPayment" | .PrecompileError => "PrecompileError" | .NonceOverflow => "NonceOverflow"
  | .CreateContractSizeLimit => "CreateContractSizeLimit" | .CreateContractStartingWithEF => "CreateContractStartingWithEF"
  | .CreateInitCodeSizeLimit => "CreateInitCodeSizeLimit" | .FatalExternalError => "FatalExternalError"
  | .ReturnContractInNotInitEOF => "ReturnContractInNotInitEOF" | .EOFOpcodeDisabledInLegacy => "EOFOpcodeDisabledInLegacy"
  | .EOFFunctionStackOverflow => "EOFFunctionStackOverflow" | .EofAuxDataOverflow => "EofAuxDataOverflow"
  | .EofAuxDataTooSmall => "EofAuxDataTooSmall" | .InvalidEXTCALLTarget => "InvalidEXTCALLTarget"

def IResult.all : List IResult :=
  [.Continue, .Stop, .Return, .SelfDestruct, .ReturnContract, .Revert, .CallTooDeep, .OutOfFunds,
   .CreateInitCodeStartingEF00, .InvalidEOFInitCode, .InvalidExtDelegateCallTarget, .CallOrCreate, .OutOfGas,
   .MemoryOOG, .MemoryLimitOOG, .PrecompileOOG, .InvalidOperandOOG, .OpcodeNotFound, .CallNotAllowedInsideStatic,
   .StateChangeDuringStaticCall, .InvalidFEOpcode, .InvalidJump, .NotActivated, .StackUnderflow, .StackOverflow,
   .OutOfOffset, .CreateCollision, .OverflowPayment, .PrecompileError, .NonceOverflow, .CreateContractSizeLimit,
   .CreateContractStartingWithEF, .CreateInitCodeSizeLimit, .FatalExternalError, .ReturnContractInNotInitEOF,
   .EOFOpcodeDisabledInLegacy, .EOFFunctionStackOverflow, .EofAuxDataOverflow, .EofAuxDataTooSmall,
   .InvalidEXTCALLTarget]

def IResult.ofName (n : String) : Option IResult := IResult.all.find? (fun r => r.name == n)

/-- the `return_ok!()` pattern -/
def IResult.isOk : IResult → Bool
  | .Continue | .Stop | .Return | .SelfDestruct | .ReturnContract => true
  | _ => false
/-- the `return_revert!()` pattern -/
def IResult.isRevert : IResult → Bool
  | .Revert | .CallTooDeep | .OutOfFunds | .CreateInitCodeStartingEF00 | .InvalidEOFInitCode
  | .InvalidExtDelegateCallTarget => true
  | _ => false

/-- what a Rust panic / `unreachable` / unchecked access outside a buffer is in the model -/
inductive Fault
  /-- `panic!`, `unwrap()` on `None`, `expect`, `Vec` capacity overflow, `copy_within` bounds check -/
  | panic
  /-- the instruction pointer (or an immediate read through it) leaves `Interpreter::bytecode` -/
  | oobCode
  /-- an unchecked stack access (`pop_unsafe`, `top_unsafe`, raw-pointer `dup`/`swap`) outside `0..len` -/
  | oobStack
  /-- a `SharedMemory` slice outside the running context (`debug_unreachable!` / `get_unchecked`) -/
  | oobMemory
  /-- reserved: an instruction the model does not cover (none today) -/
  | notModelled
  deriving DecidableEq, Repr

def Fault.name : Fault → String
  | .panic => "panic" | .oobCode => "oob-code" | .oobStack => "oob-stack" | .oobMemory => "oob-memory"
  | .notModelled => "not-modelled"

/-! ## state -/

/-- the fields of `host.env()` the instructions read -/
structure Env where
  chainId : Nat := 1
  coinbase : Nat := 0
  timestamp : Nat := 0
  number : Nat := 0
  difficulty : Nat := 0
  prevrandao : Option Nat := some 0
  gasLimit : Nat := 0
  basefee : Nat := 0
  /-- `tx.gas_price` -/
  gasPrice : Nat := 0
  /-- `tx.gas_priority_fee` -/
  priorityFee : Option Nat := none
  /-- `tx.caller` -/
  origin : Nat := 0
  blobHashes : List Nat := []
  /-- `block.get_blob_gasprice()` -/
  blobGasPrice : Option Nat := none
  /-- `cfg.limit_contract_code_size` -/
  limitContractCodeSize : Option Nat := none
  deriving Repr

/-- `Env::effective_gas_price` (`basefee + priority_fee` is ruint's wrapping `+`) -/
def Env.effectiveGasPrice (e : Env) : Nat :=
  match e.priorityFee with
  | some p => min e.gasPrice (U256.wadd e.basefee p)
  | none => e.gasPrice

/-- the EOF container of the contract as the instructions read it (`contract.bytecode.eof()`: code sections,
types section, data section, `header.data_size`) and `Interpreter::function_stack` -/
structure EofCtx where
  sections : List (List Nat)
  /-- `(inputs, outputs, max_stack_size)` per code section -/
  types : List (Nat × Nat × Nat)
  data : List Nat
  dataSize : Nat
  /-- `body.container_section` (raw sub-containers) -/
  containers : List (List Nat) := []
  /-- `function_stack.current_code_idx` -/
  curIdx : Nat := 0
  /-- `function_stack.return_stack` as `(idx, pc)`, head = top -/
  retStack : List (Nat × Nat) := []
  deriving Repr

/-- `struct Interpreter` (+ the `Contract` fields the instructions read) -/
structure IState where
  /-- `Interpreter::bytecode` -/
  code : List Nat
  /-- `contract.bytecode.len()` / `original_byte_slice().len()` -/
  origLen : Nat
  /-- `contract.bytecode.legacy_jump_table()` -/
  jumpTable : List Bool
  /-- `instruction_pointer - bytecode.as_ptr()` -/
  pc : Nat
  /-- `Stack::data` (index 0 = bottom) -/
  stack : List Nat
  mem : Memory.SharedMemory
  gas : Gas.Gas
  returnData : List Nat
  /-- `contract.input` -/
  input : List Nat
  isStatic : Bool
  isEof : Bool
  isEofInit : Bool
  /-- `SPEC::SPEC_ID as u8` of the instruction table -/
  spec : Nat
  target : Nat
  caller : Nat
  callValue : Nat
  env : Env
  /-- `Some` iff the contract's bytecode is `Bytecode::Eof` -/
  eof : Option EofCtx := none

/-- `Interpreter::new(Contract::new(input, Bytecode::new_legacy(code), ..), gas_limit, is_static)` followed by
`run(shared_memory, ..)` with the given memory -/
def IState.init (code input : List Nat) (gasLimit : Nat) (isStatic : Bool) (spec : Nat)
    (target caller callValue : Nat) (env : Env) (mem : Memory.SharedMemory := Memory.new) : IState :=
  let padded := Jump.pad code
  { code := padded, origLen := code.length, jumpTable := Jump.analyze padded, pc := 0, stack := [],
    mem := mem, gas := Gas.new gasLimit, returnData := [], input := input, isStatic := isStatic,
    isEof := false, isEofInit := false, spec := spec, target := target, caller := caller,
    callValue := callValue, env := env }

/-- `Interpreter::new` on a contract whose bytecode is an EOF container: `is_eof`, the running code is section 0
(not padded), no jump table -/
def IState.initEof (ctx : EofCtx) (input : List Nat) (gasLimit : Nat) (isStatic : Bool) (spec : Nat)
    (target caller callValue : Nat) (env : Env) (mem : Memory.SharedMemory := Memory.new)
    (isInit : Bool := false) : IState :=
  let code := ctx.sections.headD []
  { code := code, origLen := code.length, jumpTable := [], pc := 0, stack := [],
    mem := mem, gas := Gas.new gasLimit, returnData := [], input := input, isStatic := isStatic,
    isEof := true, isEofInit := isInit, spec := spec, target := target, caller := caller,
    callValue := callValue, env := env, eof := some { ctx with curIdx := 0, retStack := [] } }

/-! ## host questions, actions -/

/-- one call of a `Host` method (or of `keccak256`) with its arguments -/
inductive HostOp
  | keccak (data : List Nat)
  | balance (addr : Nat)
  | code (addr : Nat)
  | codeHash (addr : Nat)
  | blockHash (number : Nat)
  | sload (addr key : Nat)
  | sstore (addr key value : Nat)
  | tload (addr key : Nat)
  | tstore (addr key value : Nat)
  | log (addr : Nat) (topics : List Nat) (data : List Nat)
  | selfdestruct (addr target : Nat)
  | loadAccountDelegated (addr : Nat)
  /-- `deployer.create2(salt, keccak256(container))` (EOFCREATE; two keccaks, answered in `HostResp.word`) -/
  | create2Address (deployer salt : Nat) (container : List Nat)
  deriving DecidableEq, Repr

/-- the answer, as one flat record; every question reads the fields of its own return type
(`Option<StateLoad<U256>>`, `Option<StateLoad<Bytes>>`, `Option<StateLoad<SStoreResult>>`,
`Option<StateLoad<SelfDestructResult>>`, `Option<AccountLoad>`, `U256`) -/
structure HostResp where
  /-- `false` = the method returned `None` -/
  ok : Bool := true
  /-- balance / code hash / block hash / storage value / transient value / keccak -/
  word : Nat := 0
  /-- code -/
  bytes : List Nat := []
  isCold : Bool := false
  original : Nat := 0
  present : Nat := 0
  new : Nat := 0
  hadValue : Bool := false
  targetExists : Bool := false
  previouslyDestroyed : Bool := false
  isEmpty : Bool := false
  /-- `is_delegate_account_cold` -/
  delegCold : Option Bool := none
  deriving Repr

inductive CallScheme | call | callCode | delegateCall | staticCall | extCall | extStaticCall | extDelegateCall
  deriving DecidableEq, Repr

def CallScheme.name : CallScheme → String
  | .call => "Call" | .callCode => "CallCode" | .delegateCall => "DelegateCall" | .staticCall => "StaticCall"
  | .extCall => "ExtCall" | .extStaticCall => "ExtStaticCall" | .extDelegateCall => "ExtDelegateCall"

/-- `CallInputs` -/
structure CallInputs where
  input : List Nat
  /-- `return_memory_offset.start .. return_memory_offset.end` -/
  retStart : Nat
  retEnd : Nat
  gasLimit : Nat
  bytecodeAddress : Nat
  targetAddress : Nat
  caller : Nat
  /-- `CallValue::Transfer(v)` (`true`) or `CallValue::Apparent(v)` (`false`) -/
  valueTransfer : Bool
  value : Nat
  scheme : CallScheme
  isStatic : Bool
  isEof : Bool
  deriving Repr

/-- `CreateInputs` (`salt = none` is `CreateScheme::Create`) -/
structure CreateInputs where
  caller : Nat
  salt : Option Nat
  value : Nat
  initCode : List Nat
  gasLimit : Nat
  deriving Repr

/-- `EOFCreateInputs::new_opcode` (`EOFCreateKind::Opcode`; the decoded init container is kept as its raw bytes) -/
structure EofCreateInputs where
  caller : Nat
  createdAddress : Nat
  value : Nat
  container : List Nat
  gasLimit : Nat
  input : List Nat
  deriving Repr

/-- `InterpreterAction::{Call, Create, EOFCreate}` -/
inductive Action
  | call (i : CallInputs)
  | create (i : CreateInputs)
  | eofCreate (i : EofCreateInputs)
  deriving Repr

def Action.gasLimit : Action → Nat
  | .call i => i.gasLimit
  | .create i => i.gasLimit
  | .eofCreate i => i.gasLimit

/-- the `InterpreterResult` of the child frame, plus `CreateOutcome::address` -/
structure ChildResult where
  result : IResult
  output : List Nat
  gasRemaining : Nat
  gasRefunded : Int
  address : Option Nat := none
  deriving Repr

/-! ## outcomes -/

inductive Done
  | next (s : IState)
  | action (a : Action) (s : IState)
  /-- `instruction_result = r`; `out` is the output of `InterpreterAction::Return` (RETURN / REVERT only) -/
  | halt (r : IResult) (out : List Nat) (s : IState)
  | fault (f : Fault)

inductive Outcome
  | pure (d : Done)
  | host (op : HostOp) (k : HostResp → Done)

@[match_pattern] abbrev Outcome.next (s : IState) : Outcome := .pure (.next s)
@[match_pattern] abbrev Outcome.action (a : Action) (s : IState) : Outcome := .pure (.action a s)
@[match_pattern] abbrev Outcome.halt (r : IResult) (out : List Nat) (s : IState) : Outcome := .pure (.halt r out s)
@[match_pattern] abbrev Outcome.fault (f : Fault) : Outcome := .pure (.fault f)

/-! ## the handler monad -/

inductive Exec (α : Type) where
  | ok (a : α) (s : IState)
  | halt (r : IResult) (out : List Nat) (s : IState)
  | fault (f : Fault)

abbrev M (α : Type) := IState → Exec α

@[inline] def M.pure {α} (a : α) : M α := fun s => .ok a s
@[inline] def M.bind {α β} (m : M α) (f : α → M β) : M β := fun s =>
  match m s with
  | .ok a s' => f a s'
  | .halt r o s' => .halt r o s'
  | .fault f => .fault f

instance : Monad M where
  pure := M.pure
  bind := M.bind

def Exec.toDone : Exec Unit → Done
  | .ok _ s => .next s
  | .halt r o s => .halt r o s
  | .fault f => .fault f

def Exec.toDoneAction : Exec Action → Done
  | .ok a s => .action a s
  | .halt r o s => .halt r o s
  | .fault f => .fault f

/-- `interp.instruction_result = r; return` -/
def haltWith {α} (r : IResult) : M α := fun s => .halt r [] s
/-- the frame ends with output (`next_action = Return { output, .. }`) -/
def haltOut {α} (r : IResult) (out : List Nat) : M α := fun s => .halt r out s
def faultWith {α} (f : Fault) : M α := fun _ => .fault f
def getS : M IState := fun s => .ok s s
def modifyS (f : IState → IState) : M Unit := fun s => .ok () (f s)

/-- `check!(interp, FORK)` -/
def check (fork : Nat) : M Unit := fun s =>
  if enabled s.spec fork then .ok () s else .halt .NotActivated [] s

/-- `require_non_staticcall!` -/
def requireNonStatic : M Unit := fun s =>
  if s.isStatic then .halt .StateChangeDuringStaticCall [] s else .ok () s

/-- `require_eof!` -/
def requireEof : M Unit := fun s =>
  if !s.isEof then .halt .EOFOpcodeDisabledInLegacy [] s else .ok () s

/-- `gas!(interp, cost)` = `Gas::record_cost` -/
def gasCharge (cost : Nat) : M Unit := fun s =>
  let r := Gas.recordCost s.gas cost
  if r.2 then .ok () { s with gas := r.1 } else .halt .OutOfGas [] s

/-- `gas_or_fail!` -/
def gasOrFail (cost : Option Nat) : M Unit :=
  match cost with
  | some c => gasCharge c
  | none => haltWith .OutOfGas

/-- `refund!` = `Gas::record_refund` -/
def refund (r : Int) : M Unit := modifyS fun s => { s with gas := Gas.recordRefund s.gas r }

def stackErr : Stack.Err → IResult
  | .StackOverflow => .StackOverflow
  | .StackUnderflow => .StackUnderflow

/-- `pop!` with `k` names: the popped words, first popped first -/
def popN (k : Nat) : M (List Nat) := fun s =>
  match Stack.popMacro s.stack k with
  | (d, .ok vs) => .ok vs { s with stack := d }
  | (_, .err e) => .halt (stackErr e) [] s
  | (_, _) => .fault .oobStack

def pop1 : M Nat := do
  let vs ← popN 1
  match vs with
  | [a] => pure a
  | _ => faultWith .oobStack
def pop2 : M (Nat × Nat) := do
  let vs ← popN 2
  match vs with
  | [a, b] => pure (a, b)
  | _ => faultWith .oobStack
def pop3 : M (Nat × Nat × Nat) := do
  let vs ← popN 3
  match vs with
  | [a, b, c] => pure (a, b, c)
  | _ => faultWith .oobStack
def pop4 : M (Nat × Nat × Nat × Nat) := do
  let vs ← popN 4
  match vs with
  | [a, b, c, d] => pure (a, b, c, d)
  | _ => faultWith .oobStack

/-- `Address::from_word(B256::from(word))`: the low 20 bytes -/
def addrOfWord (v : Nat) : Nat := v % 2^160

/-- `pop_address!` -/
def popAddress : M Nat := do
  let v ← pop1
  pure (addrOfWord v)

/-- `pop_top!` with `k` names: length check, `k - 1` unchecked pops, then a reference to the new top
(`get_unchecked_mut(len - 1)`); returns the popped words and the current value of the top -/
def popTop (k : Nat) : M (List Nat × Nat) := fun s =>
  if s.stack.length < k then .halt .StackUnderflow [] s
  else
    match Stack.popNUnsafe (k - 1) s.stack with
    | (d, .ok vs) =>
      (match Stack.peek d 0 with
       | (_, .ok t) => .ok (vs, t) { s with stack := d }
       | (_, _) => .fault .oobStack)
    | (_, _) => .fault .oobStack

/-- `*top = v` through the reference handed out by `pop_top!` -/
def setTop (v : Nat) : M Unit := fun s =>
  match Stack.set s.stack 0 v with
  | (d, .ok _) => .ok () { s with stack := d }
  | (_, _) => .fault .oobStack

def popTop1 : M Nat := do
  let (_, t) ← popTop 1
  pure t
def popTop2 : M (Nat × Nat) := do
  let (vs, t) ← popTop 2
  match vs with
  | [a] => pure (a, t)
  | _ => faultWith .oobStack
def popTop3 : M (Nat × Nat × Nat) := do
  let (vs, t) ← popTop 3
  match vs with
  | [a, b] => pure (a, b, t)
  | _ => faultWith .oobStack

/-- `push!` / `push_b256!` (a `B256` is pushed as its big-endian value) -/
def push (v : Nat) : M Unit := fun s =>
  match Stack.push s.stack v with
  | (d, .ok _) => .ok () { s with stack := d }
  | (_, .err e) => .halt (stackErr e) [] s
  | (_, _) => .fault .oobStack

/-- a `Stack` method returning `Result<(), InstructionResult>`, used as `if let Err(r) = .. { result = r }` -/
def stackCall (f : List Nat → List Nat × Stack.Res Unit) : M Unit := fun s =>
  match f s.stack with
  | (d, .ok _) => .ok () { s with stack := d }
  | (_, .err e) => .halt (stackErr e) [] s
  | (_, _) => .fault .oobStack

/-- `as_usize_or_fail!(interp, v, reason)` -/
def asUsizeOrFail (v : Nat) (reason : IResult := .InvalidOperandOOG) : M Nat :=
  match Jump.asUsizeOrFail v with
  | some x => pure x
  | none => haltWith reason

/-- `as_usize_saturated!` / `as_u64_saturated!` -/
def asUsizeSat (v : Nat) : Nat := U256.asU64Sat v

/-- a `SharedMemory` result inside a handler: `panic` is a Rust panic, `ub` an access outside the context -/
def memRes {α β} (r : Memory.Res α) (k : α → Exec β) : Exec β :=
  match r with
  | .ok a => k a
  | .panic => .fault .panic
  | .ub => .fault .oobMemory

/-- `resize_memory!(interp, offset, len)` -/
def resizeMem (offset len : Nat) : M Unit := fun s =>
  memRes (Memory.resizeMemoryMacro s.mem s.gas.remaining offset len) fun r =>
    if r.1 then .ok () { s with mem := r.2.1, gas := { s.gas with remaining := r.2.2 } }
    else .halt .MemoryOOG [] s

def liftMemWrite (f : Memory.SharedMemory → Memory.Res Memory.SharedMemory) : M Unit := fun s =>
  memRes (f s.mem) fun m => .ok () { s with mem := m }

/-- `shared_memory.slice(offset, len)` -/
def memSlice (offset len : Nat) : M (List Nat) := fun s =>
  memRes (Memory.slice s.mem offset len) fun a => .ok a s

/-- `shared_memory.slice_range(start..end)` -/
def memSliceRange (start stop : Nat) : M (List Nat) := fun s =>
  memRes (Memory.sliceRange s.mem start stop) fun a => .ok a s

def memGetU256 (offset : Nat) : M Nat := fun s =>
  memRes (Memory.getU256 s.mem offset) fun a => .ok a s

def memSetU256 (offset v : Nat) : M Unit := liftMemWrite fun m => Memory.setU256 m offset v
def memSetByte (offset b : Nat) : M Unit := liftMemWrite fun m => Memory.setByte m offset b
def memSetData (memOffset dataOffset len : Nat) (data : List Nat) : M Unit :=
  liftMemWrite fun m => Memory.setData m memOffset dataOffset len data
def memCopy (dst src len : Nat) : M Unit := liftMemWrite fun m => Memory.copy m dst src len

/-- `core::slice::from_raw_parts(instruction_pointer, n)`: checked against the code buffer -/
def codeSlice (n : Nat) : M (List Nat) := fun s =>
  if s.pc + n ≤ s.code.length then .ok ((s.code.drop s.pc).take n) s else .fault .oobCode

/-- `instruction_pointer = ip.add(n)` -/
def advancePc (n : Nat) : M Unit := modifyS fun s => { s with pc := s.pc + n }

/-! ## instructions -/

def KECCAK_EMPTY : Nat := 0xc5d2460186f7233c927e7db2dcc703c0e500b653ca82273b7bfad8045d85a470
def MAX_INITCODE_SIZE : Nat := 49152

/-- the constant gas tiers of `gas/constants.rs` used by the `gas!(interp, gas::X)` handlers below -/
inductive Tier | base | verylow | low | mid
  deriving DecidableEq, Repr

def Tier.cost : Tier → Nat
  | .base => GasCalc.BASE
  | .verylow => GasCalc.VERYLOW
  | .low => GasCalc.LOW
  | .mid => GasCalc.MID

/-- the handlers, grouped by shape. Handlers that are one generic Rust function (`push::<N>`, `dup::<N>`,
`swap::<N>`, `log::<N>`, `create::<IS_CREATE2>`) are one constructor; the arithmetic / comparison / bitwise
handlers (`gas!; pop_top!; *top = f(..)`) are `unop` / `binop` / `terop` with their constant gas, activation fork and
word function; the `gas!; push!(value)` handlers are `pushVal`. -/
inductive Instr
  | stop | invalid | unknown
  | eofcreate | extcall | extdelegatecall | extstaticcall
  | rjump | rjumpi | rjumpv | callf | retf | jumpf | dupn | swapn | exchange
  | dataload | dataloadn | datasize | datacopy | returndataload
  /-- RETURNCONTRACT (`require_init_eof!` first) -/
  | returnContract
  | unop (gas : Tier) (f : Nat → Nat)
  | binop (gas : Tier) (fork : Nat) (f : Nat → Nat → Nat)
  | terop (gas : Tier) (f : Nat → Nat → Nat → Nat)
  | exp
  | keccak256
  /-- `check!(fork); gas!(gas); push!(v)` -/
  | pushVal (gas : Tier) (fork : Nat) (v : IState → Nat)
  /-- DIFFICULTY / PREVRANDAO (`host.env().block.prevrandao.unwrap()` from the Merge on) -/
  | difficulty
  | calldataload | calldatacopy | codesize | codecopy | returndatacopy
  | blobhash
  | pop | push0 | push (n : Fin 32) | dup (n : Fin 16) | swap (n : Fin 16)
  | mload | mstore | mstore8 | mcopy
  | jump | jumpi | jumpdest
  | ret | revert
  | balance | selfbalance | extcodesize | extcodehash | extcodecopy | blockhash
  | sload | sstore | tload | tstore | log (n : Fin 5) | selfdestruct
  | create (isCreate2 : Bool) | call | callcode | delegatecall | staticcall

/-- `gas!; pop_top!(op1); *op1 = f(op1)` -/
def unopI (gas : Nat) (f : Nat → Nat) : M Unit := do
  gasCharge gas
  let a ← popTop1
  setTop (f a)

/-- `check!; gas!; pop_top!(op1, op2); *op2 = f(op1, op2)` -/
def binopI (gas fork : Nat) (f : Nat → Nat → Nat) : M Unit := do
  check fork
  gasCharge gas
  let (a, b) ← popTop2
  setTop (f a b)

/-- `gas!; pop_top!(op1, op2, op3); *op3 = f(op1, op2, op3)` -/
def teropI (gas : Nat) (f : Nat → Nat → Nat → Nat) : M Unit := do
  gasCharge gas
  let (a, b, c) ← popTop3
  setTop (f a b c)

/-- `arithmetic::exp` -/
def expI : M Unit := do
  let (a, b) ← popTop2
  let s ← getS
  gasOrFail (GasCalc.expCost s.spec b)
  setTop (Arith.exp a b)

/-- `check!; gas!; push!(v)` -/
def pushValI (gas fork : Nat) (v : IState → Nat) : M Unit := do
  check fork
  gasCharge gas
  let s ← getS
  push (v s)

/-- `host_env::difficulty`: `gas!(BASE)`, then `prevrandao.unwrap()` (a panic on `None`) from the Merge on,
`difficulty` before -/
def difficultyI : M Unit := do
  gasCharge GasCalc.BASE
  let s ← getS
  if enabled s.spec GasCalc.SpecId.MERGE then
    match s.env.prevrandao with
    | some w => push w
    | none => faultWith .panic
  else push s.env.difficulty

/-- big-endian value of the (≤ 32) bytes, right-padded with zeros to 32 -/
def wordOfBytesPadded (bs : List Nat) : Nat := Memory.beToNat (bs ++ List.replicate (32 - bs.length) 0)

/-- `system::calldataload` -/
def calldataloadI : M Unit := do
  gasCharge GasCalc.VERYLOW
  let off ← popTop1
  let s ← getS
  let offset := asUsizeSat off
  let word :=
    if offset < s.input.length then
      let count := min 32 (s.input.length - offset)
      wordOfBytesPadded ((s.input.drop offset).take count)
    else 0
  setTop word

/-- `assume!(!interpreter.contract.bytecode.is_eof())` (CODESIZE, CODECOPY): a violated `assume!` is
`debug_unreachable!` — a panic in debug builds, undefined behaviour in release builds -/
def assumeNotEof : M Unit := fun s => if s.isEof then .fault .panic else .ok () s

/-- `system::codesize` -/
def codesizeI : M Unit := do
  gasCharge GasCalc.BASE
  assumeNotEof
  let s ← getS
  push s.origLen

/-- the common body of CALLDATACOPY / CODECOPY: `pop!(memory_offset, data_offset, len)` … `set_data`
(`guard` = the `assume!` of CODECOPY, `pure ()` for CALLDATACOPY) -/
def copyToMem (data : IState → List Nat) (guard : M Unit := pure ()) : M Unit := do
  let (memOff, dataOff, len) ← pop3
  let len ← asUsizeOrFail len
  gasOrFail (GasCalc.verylowcopyCost len)
  if len = 0 then pure () else do
    let memOff ← asUsizeOrFail memOff
    let dataOff := asUsizeSat dataOff
    resizeMem memOff len
    guard
    let s ← getS
    memSetData memOff dataOff len (data s)

/-- `system::returndatacopy` -/
def returndatacopyI : M Unit := do
  check GasCalc.SpecId.BYZANTIUM
  let (memOff, off, len) ← pop3
  let len ← asUsizeOrFail len
  gasOrFail (GasCalc.verylowcopyCost len)
  let dataOff := asUsizeSat off
  let dataEnd := U64ops.saturatingAdd dataOff len
  let s ← getS
  if dataEnd > s.returnData.length ∧ !s.isEof then haltWith .OutOfOffset else
  if len = 0 then pure () else do
    let memOff ← asUsizeOrFail memOff
    resizeMem memOff len
    memSetData memOff dataOff len s.returnData

/-- `host_env::blob_hash` -/
def blobhashI : M Unit := do
  check GasCalc.SpecId.CANCUN
  gasCharge GasCalc.VERYLOW
  let idx ← popTop1
  let s ← getS
  let i := asUsizeSat idx
  setTop (match s.env.blobHashes[i]? with | some h => h | none => 0)

/-- forget the popped word (`if let Err(result) = interpreter.stack.pop()`) -/
def resVoid {α} : Stack.Res α → Stack.Res Unit
  | .ok _ => .ok ()
  | .err e => .err e
  | .panic => .panic
  | .ub => .ub

/-- `stack::pop` -/
def popI : M Unit := do
  gasCharge GasCalc.BASE
  stackCall fun d => ((Stack.pop d).1, resVoid (Stack.pop d).2)

/-- `stack::push0` -/
def push0I : M Unit := do
  check GasCalc.SpecId.SHANGHAI
  gasCharge GasCalc.BASE
  stackCall fun d => Stack.push d 0

/-- `stack::push::<N>` -/
def pushI (n : Nat) : M Unit := do
  gasCharge GasCalc.VERYLOW
  let bs ← codeSlice n
  stackCall fun d => Stack.pushSlice d bs
  advancePc n

/-- `stack::dup::<N>` -/
def dupI (n : Nat) : M Unit := do
  gasCharge GasCalc.VERYLOW
  stackCall fun d => Stack.dup d n

/-- `stack::swap::<N>` -/
def swapI (n : Nat) : M Unit := do
  gasCharge GasCalc.VERYLOW
  stackCall fun d => Stack.swap d n

/-- `memory::mload` -/
def mloadI : M Unit := do
  gasCharge GasCalc.VERYLOW
  let top ← popTop1
  let offset ← asUsizeOrFail top
  resizeMem offset 32
  let v ← memGetU256 offset
  setTop v

/-- `memory::mstore` -/
def mstoreI : M Unit := do
  gasCharge GasCalc.VERYLOW
  let (offset, value) ← pop2
  let offset ← asUsizeOrFail offset
  resizeMem offset 32
  memSetU256 offset value

/-- `memory::mstore8` (`value.byte(0)` = the least significant byte) -/
def mstore8I : M Unit := do
  gasCharge GasCalc.VERYLOW
  let (offset, value) ← pop2
  let offset ← asUsizeOrFail offset
  resizeMem offset 1
  memSetByte offset (value % 256)

/-- `memory::mcopy` -/
def mcopyI : M Unit := do
  check GasCalc.SpecId.CANCUN
  let (dst, src, len) ← pop3
  let len ← asUsizeOrFail len
  gasOrFail (GasCalc.verylowcopyCost len)
  if len = 0 then pure () else do
    let dst ← asUsizeOrFail dst
    let src ← asUsizeOrFail src
    resizeMem (max dst src) len
    memCopy dst src len

/-- `control::jump_inner` -/
def jumpInner (target : Nat) : M Unit := do
  let t ← asUsizeOrFail target .InvalidJump
  let s ← getS
  if !Jump.isValid s.jumpTable t then haltWith .InvalidJump
  else modifyS fun s => { s with pc := t }

def jumpI : M Unit := do
  gasCharge GasCalc.MID
  let target ← pop1
  jumpInner target

def jumpiI : M Unit := do
  gasCharge GasCalc.HIGH
  let (target, cond) ← pop2
  if cond ≠ 0 then jumpInner target else pure ()

/-- `control::return_inner` -/
def returnInner (r : IResult) : M Unit := do
  let (offset, len) ← pop2
  let len ← asUsizeOrFail len
  if len ≠ 0 then do
    let offset ← asUsizeOrFail offset
    resizeMem offset len
    let out ← memSlice offset len
    haltOut r out
  else haltOut r []

def revertI : M Unit := do
  check GasCalc.SpecId.BYZANTIUM
  returnInner .Revert

/-! ### EOF instructions (`control.rs`, `stack.rs`, `data.rs`, `system.rs::returndataload`)

Relative jumps move the pointer by an immediate; nothing in the interpreter checks the result (validation does).
A pointer moved before the buffer is `fault .oobCode` at once, a pointer moved behind it at the next fetch. -/

/-- `*instruction_pointer.add(off)` -/
def codeByte (off : Nat) : M Nat := fun s =>
  match s.code[s.pc + off]? with
  | some b => .ok b s
  | none => .fault .oobCode

/-- `read_u16(instruction_pointer.add(off))` -/
def readU16 (off : Nat) : M Nat := do
  let a ← codeByte off
  let b ← codeByte (off + 1)
  pure (a * 256 + b)

/-- `read_i16` -/
def readI16 (off : Nat) : M Int := do
  let v ← readU16 off
  pure (if v ≥ 32768 then (v : Int) - 65536 else (v : Int))

/-- `instruction_pointer = instruction_pointer.offset(d)` -/
def jumpRel (d : Int) : M Unit := fun s =>
  let t := (s.pc : Int) + d
  if t < 0 then .fault .oobCode else .ok () { s with pc := t.toNat }

/-- `interpreter.eof().expect("eof")` -/
def getEof : M EofCtx := fun s =>
  match s.eof with
  | some c => .ok c s
  | none => .fault .panic

/-- `Interpreter::load_eof_code(idx, pc)` -/
def loadEofCode (idx pc : Nat) : M Unit := fun s =>
  match s.eof with
  | none => .fault .panic
  | some c =>
    match c.sections[idx]? with
    | none => .fault .panic
    | some code => .ok () { s with code := code, origLen := code.length, pc := pc }

def setEof (f : EofCtx → EofCtx) : M Unit := modifyS fun s => { s with eof := s.eof.map f }

/-- `as_isize_saturated!` -/
def asIsizeSat (v : Nat) : Nat := min (U256.asU64Sat v) (2^63 - 1)

def rjumpI : M Unit := do
  requireEof
  gasCharge GasCalc.BASE
  let d ← readI16 0
  jumpRel (d + 2)

def rjumpiI : M Unit := do
  requireEof
  gasCharge GasCalc.CONDITION_JUMP_GAS
  let c ← pop1
  if c ≠ 0 then do
    let d ← readI16 0
    jumpRel (2 + d)
  else jumpRel 2

def rjumpvI : M Unit := do
  requireEof
  gasCharge GasCalc.CONDITION_JUMP_GAS
  let c ← pop1
  let case := asIsizeSat c
  let maxIndex ← codeByte 0
  let offset : Int := ((maxIndex + 1) * 2 + 1 : Nat)
  if case ≤ maxIndex then do
    let d ← readI16 (1 + case * 2)
    jumpRel (offset + d)
  else jumpRel offset

/-- `stack.len() + (types.max_stack_size - types.inputs as u16) as usize > 1024` (`u16` subtraction, release: wraps) -/
def calleeOverflows (stackLen : Nat) (t : Nat × Nat × Nat) : Bool :=
  decide (stackLen + (t.2.2 + 65536 - t.1) % 65536 > 1024)

def callfI : M Unit := do
  requireEof
  gasCharge GasCalc.LOW
  let idx ← readU16 0
  let c ← getEof
  if c.retStack.length ≥ 1024 then haltWith .EOFFunctionStackOverflow else
  match c.types[idx]? with
  | none => faultWith .panic
  | some t => do
    let s ← getS
    if calleeOverflows s.stack.length t then haltWith .StackOverflow else do
    setEof fun c => { c with retStack := (c.curIdx, s.pc + 2) :: c.retStack, curIdx := idx }
    loadEofCode idx 0

def retfI : M Unit := do
  requireEof
  gasCharge GasCalc.RETF_GAS
  let c ← getEof
  match c.retStack with
  | [] => faultWith .panic
  | (idx, pc) :: rest => do
    setEof fun c => { c with retStack := rest, curIdx := idx }
    loadEofCode idx pc

def jumpfI : M Unit := do
  requireEof
  gasCharge GasCalc.LOW
  let idx ← readU16 0
  let c ← getEof
  match c.types[idx]? with
  | none => faultWith .panic
  | some t => do
    let s ← getS
    if calleeOverflows s.stack.length t then haltWith .StackOverflow else do
    setEof fun c => { c with curIdx := idx }
    loadEofCode idx 0

/-- `if let Err(r) = stack.f(..) { result = r }; instruction_pointer += n` (the pointer moves in both cases) -/
def stackCallAdv (f : List Nat → List Nat × Stack.Res Unit) (n : Nat) : M Unit := fun s =>
  match f s.stack with
  | (d, .ok _) => .ok () { s with stack := d, pc := s.pc + n }
  | (_, .err e) => .halt (stackErr e) [] { s with pc := s.pc + n }
  | (_, _) => .fault .oobStack

def dupnI : M Unit := do
  requireEof
  gasCharge GasCalc.VERYLOW
  let imm ← codeByte 0
  stackCallAdv (fun d => Stack.dup d (imm + 1)) 1

def swapnI : M Unit := do
  requireEof
  gasCharge GasCalc.VERYLOW
  let imm ← codeByte 0
  stackCallAdv (fun d => Stack.swap d (imm + 1)) 1

def exchangeI : M Unit := do
  requireEof
  gasCharge GasCalc.VERYLOW
  let imm ← codeByte 0
  stackCallAdv (fun d => Stack.exchange d (imm / 16 + 1) (imm % 16 + 1)) 1

/-- `Eof::data_slice(offset, len)` -/
def dataSlice (data : List Nat) (offset len : Nat) : List Nat :=
  if offset ≤ data.length then (data.drop offset).take (min len (data.length - offset)) else []

def dataloadI : M Unit := do
  requireEof
  gasCharge GasCalc.DATA_LOAD_GAS
  let off ← popTop1
  let c ← getEof
  setTop (wordOfBytesPadded (dataSlice c.data (asUsizeSat off) 32))

def dataloadnI : M Unit := do
  requireEof
  gasCharge GasCalc.VERYLOW
  let off ← readU16 0
  let c ← getEof
  push (wordOfBytesPadded (dataSlice c.data off 32))
  advancePc 2

def datasizeI : M Unit := do
  requireEof
  gasCharge GasCalc.BASE
  let c ← getEof
  push c.dataSize

def datacopyI : M Unit := do
  requireEof
  gasCharge GasCalc.VERYLOW
  let (memOff, off, size) ← pop3
  let size ← asUsizeOrFail size
  if size = 0 then pure () else do
    let memOff ← asUsizeOrFail memOff
    resizeMem memOff size
    gasOrFail (GasCalc.costPerWord size GasCalc.VERYLOW)
    let c ← getEof
    memSetData memOff (asUsizeSat off) size c.data

def returndataloadI : M Unit := do
  requireEof
  gasCharge GasCalc.VERYLOW
  let off ← popTop1
  let s ← getS
  let o := asUsizeSat off
  setTop (if o ≤ s.returnData.length then
      wordOfBytesPadded ((s.returnData.drop o).take (min (s.returnData.length - o) 32))
    else 0)

/-- `require_init_eof!` -/
def requireInitEof : M Unit := fun s =>
  if !s.isEofInit then .halt .ReturnContractInNotInitEOF [] s else .ok () s

/-- `EofHeader::decode(&container).expect("valid EOF header")` -/
def headerOf (container : List Nat) : Option Eof.Header :=
  match Eof.Header.decode container with
  | .ok (h, _) => some h
  | _ => none

/-- `output[data_size_raw_i()..][..2].clone_from_slice(&new_data_size.to_be_bytes())` (slice indexing panics outside) -/
def patchU16 (out : List Nat) (i v : Nat) : Option (List Nat) :=
  if i + 2 ≤ out.length then some (out.take i ++ [v / 256 % 256, v % 256] ++ out.drop (i + 2)) else none

/-- `contract::return_contract` (`usize` arithmetic of the release profile: wrapping) -/
def returnContractI : M Unit := do
  requireInitEof
  let idx ← codeByte 0
  let (auxOff, auxSize) ← pop2
  let auxSize ← asUsizeOrFail auxSize
  let c ← getEof
  match c.containers[idx]? with
  | none => faultWith .panic
  | some container =>
    match headerOf container with
    | none => faultWith .panic
    | some h => do
      let aux ← (if auxSize ≠ 0 then do
          let auxOff ← asUsizeOrFail auxOff
          resizeMem auxOff auxSize
          memSlice auxOff auxSize
        else pure [])
      let staticAux := U64ops.wsub h.eofSize container.length
      let newDataSize := U64ops.wadd (U64ops.wsub h.dataSize staticAux) aux.length
      if newDataSize > 0xFFFF then haltWith .EofAuxDataOverflow else
      if newDataSize < h.dataSize then haltWith .EofAuxDataTooSmall else
      match patchU16 (container ++ aux) h.dataSizeRawI newDataSize with
      | none => faultWith .panic
      | some out => haltOut .ReturnContract out

/-- the pure instructions -/
def execPure : Instr → Option (M Unit)
  | .stop => some (haltWith .Stop)
  | .invalid => some (haltWith .InvalidFEOpcode)
  | .unknown => some (haltWith .OpcodeNotFound)
  | .returnContract => some returnContractI
  | .rjump => some rjumpI
  | .rjumpi => some rjumpiI
  | .rjumpv => some rjumpvI
  | .callf => some callfI
  | .retf => some retfI
  | .jumpf => some jumpfI
  | .dupn => some dupnI
  | .swapn => some swapnI
  | .exchange => some exchangeI
  | .dataload => some dataloadI
  | .dataloadn => some dataloadnI
  | .datasize => some datasizeI
  | .datacopy => some datacopyI
  | .returndataload => some returndataloadI
  | .unop g f => some (unopI g.cost f)
  | .binop g k f => some (binopI g.cost k f)
  | .terop g f => some (teropI g.cost f)
  | .exp => some expI
  | .pushVal g k v => some (pushValI g.cost k v)
  | .difficulty => some difficultyI
  | .calldataload => some calldataloadI
  | .calldatacopy => some (copyToMem fun s => s.input)
  | .codecopy => some (copyToMem (fun s => s.code.take s.origLen) assumeNotEof)
  | .codesize => some codesizeI
  | .returndatacopy => some returndatacopyI
  | .blobhash => some blobhashI
  | .pop => some popI
  | .push0 => some push0I
  | .push n => some (pushI (n.val + 1))
  | .dup n => some (dupI (n.val + 1))
  | .swap n => some (swapI (n.val + 1))
  | .mload => some mloadI
  | .mstore => some mstoreI
  | .mstore8 => some mstore8I
  | .mcopy => some mcopyI
  | .jump => some jumpI
  | .jumpi => some jumpiI
  | .jumpdest => some (gasCharge GasCalc.JUMPDEST)
  | .ret => some (returnInner .Return)
  | .revert => some revertI
  | _ => none

/-! ### instructions that ask the host -/

/-- run `pre`; ask `op`; continue with `post` from the state `pre` left -/
def hostCall {β} (pre : M (HostOp × β)) (post : β → HostResp → M Unit) (s : IState) : Outcome :=
  match pre s with
  | .ok (op, b) s' => .host op (fun r => (post b r s').toDone)
  | .halt r o s' => .halt r o s'
  | .fault f => .fault f

def hostCallAction {β} (pre : M (HostOp × β)) (post : β → HostResp → M Action) (s : IState) : Outcome :=
  match pre s with
  | .ok (op, b) s' => .host op (fun r => (post b r s').toDoneAction)
  | .halt r o s' => .halt r o s'
  | .fault f => .fault f

/-- `let Some(x) = host.f(..) else { result = FatalExternalError; return }` -/
def requireSome (r : HostResp) : M Unit := fun s =>
  if r.ok then .ok () s else .halt .FatalExternalError [] s

/-- `system::keccak256`: up to the hash itself (`none` = the empty input, `KECCAK_EMPTY`) -/
def keccakPre : M (Option (List Nat)) := do
  let (offset, len) ← popTop2
  let len ← asUsizeOrFail len
  gasOrFail (GasCalc.keccak256Cost len)
  if len = 0 then pure none else do
    let src ← asUsizeOrFail offset
    resizeMem src len
    let data ← memSlice src len
    pure (some data)

def keccak256I (s : IState) : Outcome :=
  match keccakPre s with
  | .ok none s' => .pure (setTop KECCAK_EMPTY s').toDone
  | .ok (some data) s' => .host (.keccak data) (fun r => (setTop r.word s').toDone)
  | .halt r o s' => .halt r o s'
  | .fault f => .fault f

/-- `host::balance` -/
def balanceI : IState → Outcome :=
  hostCall (do let a ← popAddress; pure (.balance a, ()))
    (fun _ r => do
      requireSome r
      let s ← getS
      gasCharge (if enabled s.spec GasCalc.SpecId.BERLIN then GasCalc.warmColdCost r.isCold
                 else if enabled s.spec GasCalc.SpecId.ISTANBUL then 700
                 else if enabled s.spec GasCalc.SpecId.TANGERINE then 400 else 20)
      push r.word)

/-- `host::selfbalance` -/
def selfbalanceI : IState → Outcome :=
  hostCall (do
      check GasCalc.SpecId.ISTANBUL
      gasCharge GasCalc.LOW
      let s ← getS
      pure (.balance s.target, ()))
    (fun _ r => do requireSome r; push r.word)

/-- `host::extcodesize` -/
def extcodesizeI : IState → Outcome :=
  hostCall (do let a ← popAddress; pure (.code a, ()))
    (fun _ r => do
      requireSome r
      let s ← getS
      gasCharge (if enabled s.spec GasCalc.SpecId.BERLIN then GasCalc.warmColdCost r.isCold
                 else if enabled s.spec GasCalc.SpecId.TANGERINE then 700 else 20)
      push r.bytes.length)

/-- `host::extcodehash` -/
def extcodehashI : IState → Outcome :=
  hostCall (do check GasCalc.SpecId.CONSTANTINOPLE; let a ← popAddress; pure (.codeHash a, ()))
    (fun _ r => do
      requireSome r
      let s ← getS
      gasCharge (if enabled s.spec GasCalc.SpecId.BERLIN then GasCalc.warmColdCost r.isCold
                 else if enabled s.spec GasCalc.SpecId.ISTANBUL then 700 else 400)
      push r.word)

/-- `host::extcodecopy` -/
def extcodecopyI : IState → Outcome :=
  hostCall (do
      let a ← popAddress
      let args ← pop3
      pure (.code a, args))
    (fun (memOff, codeOff, lenW) r => do
      requireSome r
      let len ← asUsizeOrFail lenW
      let s ← getS
      gasOrFail (GasCalc.extcodecopyCost s.spec len r.isCold)
      if len = 0 then pure () else do
        let memOff ← asUsizeOrFail memOff
        let codeOff := min (asUsizeSat codeOff) r.bytes.length
        resizeMem memOff len
        memSetData memOff codeOff len r.bytes)

/-- `host::blockhash` -/
def blockhashI : IState → Outcome :=
  hostCall (do
      gasCharge GasCalc.BLOCKHASH
      let n ← popTop1
      pure (.blockHash (asUsizeSat n), ()))
    (fun _ r => do requireSome r; setTop r.word)

/-- `host::sload` -/
def sloadI : IState → Outcome :=
  hostCall (do
      let idx ← popTop1
      let s ← getS
      pure (.sload s.target idx, ()))
    (fun _ r => do
      requireSome r
      let s ← getS
      gasCharge (GasCalc.sloadCost s.spec r.isCold)
      setTop r.word)

/-- `host::sstore` -/
def sstoreI : IState → Outcome :=
  hostCall (do
      requireNonStatic
      let (idx, v) ← pop2
      let s ← getS
      pure (.sstore s.target idx v, ()))
    (fun _ r => do
      requireSome r
      let s ← getS
      gasOrFail (GasCalc.sstoreCost s.spec r.original r.present r.new s.gas.remaining r.isCold)
      refund (GasCalc.sstoreRefund s.spec r.original r.present r.new))

/-- `host::tstore` -/
def tstoreI : IState → Outcome :=
  hostCall (do
      check GasCalc.SpecId.CANCUN
      requireNonStatic
      gasCharge GasCalc.WARM_STORAGE_READ_COST
      let (idx, v) ← pop2
      let s ← getS
      pure (.tstore s.target idx v, ()))
    (fun _ _ => pure ())

/-- `host::tload` -/
def tloadI : IState → Outcome :=
  hostCall (do
      check GasCalc.SpecId.CANCUN
      gasCharge GasCalc.WARM_STORAGE_READ_COST
      let idx ← popTop1
      let s ← getS
      pure (.tload s.target idx, ()))
    (fun _ r => setTop r.word)

/-- `host::log::<N>` -/
def logI (n : Nat) : IState → Outcome :=
  hostCall (do
      requireNonStatic
      let (offset, len) ← pop2
      let len ← asUsizeOrFail len
      gasOrFail (GasCalc.logCost n len)
      let data ← (if len = 0 then pure [] else do
        let offset ← asUsizeOrFail offset
        resizeMem offset len
        memSlice offset len)
      let topics ← popN n
      let s ← getS
      pure (.log s.target topics data, ()))
    (fun _ _ => pure ())

/-- `host::selfdestruct` -/
def selfdestructI : IState → Outcome :=
  hostCall (do
      requireNonStatic
      let t ← popAddress
      let s ← getS
      pure (.selfdestruct s.target t, ()))
    (fun _ r => do
      requireSome r
      let s ← getS
      if !enabled s.spec GasCalc.SpecId.LONDON && !r.previouslyDestroyed then refund GasCalc.SELFDESTRUCT
      else pure ()
      gasCharge (GasCalc.selfdestructCost s.spec r.hadValue r.targetExists r.isCold)
      haltWith .SelfDestruct)

/-! ### calls and creates -/

/-- `call_helpers::resize_memory(interp, offset, len) -> Option<Range<usize>>` -/
def resizeMemRange (offset len : Nat) : M (Nat × Nat) := do
  let len ← asUsizeOrFail len
  if len ≠ 0 then do
    let offset ← asUsizeOrFail offset
    resizeMem offset len
    pure (offset, (offset + len) % U64)
  else pure (U64 - 1, U64 - 1)

/-- `get_memory_input_and_out_ranges` -/
def getMemoryInputAndOutRanges : M (List Nat × Nat × Nat) := do
  let (inOff, inLen, outOff, outLen) ← pop4
  let (a, b) ← resizeMemRange inOff inLen
  let input ← (if a < b then memSliceRange a b else pure [])
  let (c, d) ← resizeMemRange outOff outLen
  pure (input, c, d)

/-- `calc_call_gas` -/
def calcCallGas (r : HostResp) (isEmpty hasTransfer : Bool) (localGasLimit : Nat) : M Nat := do
  let s ← getS
  gasCharge (GasCalc.callCost s.spec hasTransfer r.isCold r.delegCold isEmpty)
  let s ← getS
  pure (if enabled s.spec GasCalc.SpecId.TANGERINE then min (Gas.remaining63of64 s.gas) localGasLimit
        else localGasLimit)

/-- `contract::call` -/
def callI : IState → Outcome :=
  hostCallAction (do
      let lgl ← pop1
      let to ← popAddress
      let localGasLimit := asUsizeSat lgl
      let value ← pop1
      let hasTransfer := value ≠ 0
      let s ← getS
      if s.isStatic ∧ hasTransfer then haltWith .CallNotAllowedInsideStatic else do
      let (input, rs, re) ← getMemoryInputAndOutRanges
      pure (.loadAccountDelegated to, (localGasLimit, to, value, input, rs, re)))
    (fun (localGasLimit, to, value, input, rs, re) r => do
      requireSome r
      let hasTransfer := value ≠ 0
      let gasLimit ← calcCallGas r r.isEmpty hasTransfer localGasLimit
      gasCharge gasLimit
      let gasLimit := if hasTransfer then U64ops.saturatingAdd gasLimit GasCalc.CALL_STIPEND else gasLimit
      let s ← getS
      pure (.call { input := input, retStart := rs, retEnd := re, gasLimit := gasLimit, bytecodeAddress := to,
                    targetAddress := to, caller := s.target, valueTransfer := true, value := value,
                    scheme := .call, isStatic := s.isStatic, isEof := false }))

/-- `contract::call_code` -/
def callcodeI : IState → Outcome :=
  hostCallAction (do
      let lgl ← pop1
      let to ← popAddress
      let localGasLimit := asUsizeSat lgl
      let value ← pop1
      let (input, rs, re) ← getMemoryInputAndOutRanges
      pure (.loadAccountDelegated to, (localGasLimit, to, value, input, rs, re)))
    (fun (localGasLimit, to, value, input, rs, re) r => do
      requireSome r
      let hasTransfer := value ≠ 0
      let gasLimit ← calcCallGas r false hasTransfer localGasLimit
      gasCharge gasLimit
      let gasLimit := if hasTransfer then U64ops.saturatingAdd gasLimit GasCalc.CALL_STIPEND else gasLimit
      let s ← getS
      pure (.call { input := input, retStart := rs, retEnd := re, gasLimit := gasLimit, bytecodeAddress := to,
                    targetAddress := s.target, caller := s.target, valueTransfer := true, value := value,
                    scheme := .callCode, isStatic := s.isStatic, isEof := false }))

/-- `contract::delegate_call` -/
def delegatecallI : IState → Outcome :=
  hostCallAction (do
      check GasCalc.SpecId.HOMESTEAD
      let lgl ← pop1
      let to ← popAddress
      let localGasLimit := asUsizeSat lgl
      let (input, rs, re) ← getMemoryInputAndOutRanges
      pure (.loadAccountDelegated to, (localGasLimit, to, input, rs, re)))
    (fun (localGasLimit, to, input, rs, re) r => do
      requireSome r
      let gasLimit ← calcCallGas r false false localGasLimit
      gasCharge gasLimit
      let s ← getS
      pure (.call { input := input, retStart := rs, retEnd := re, gasLimit := gasLimit, bytecodeAddress := to,
                    targetAddress := s.target, caller := s.caller, valueTransfer := false, value := s.callValue,
                    scheme := .delegateCall, isStatic := s.isStatic, isEof := false }))

/-- `contract::static_call` -/
def staticcallI : IState → Outcome :=
  hostCallAction (do
      check GasCalc.SpecId.BYZANTIUM
      let lgl ← pop1
      let to ← popAddress
      let localGasLimit := asUsizeSat lgl
      let (input, rs, re) ← getMemoryInputAndOutRanges
      pure (.loadAccountDelegated to, (localGasLimit, to, input, rs, re)))
    (fun (localGasLimit, to, input, rs, re) r => do
      requireSome r
      let gasLimit ← calcCallGas r false false localGasLimit
      gasCharge gasLimit
      let s ← getS
      pure (.call { input := input, retStart := rs, retEnd := re, gasLimit := gasLimit, bytecodeAddress := to,
                    targetAddress := to, caller := s.target, valueTransfer := true, value := 0,
                    scheme := .staticCall, isStatic := true, isEof := false }))

/-- `check!(interp, FORK)` under a compile-time condition (`if IS_CREATE2 { check!(..) }`) -/
def checkWhen (b : Bool) (fork : Nat) : M Unit := if b then check fork else pure ()

/-- `cfg.limit_contract_code_size.map(|l| l.saturating_mul(2)).unwrap_or(MAX_INITCODE_SIZE)` -/
def maxInitcodeSize (e : Env) : Nat :=
  match e.limitContractCodeSize with
  | some l => U64ops.saturatingMul l 2
  | none => MAX_INITCODE_SIZE

/-- the EIP-3860 part of `create` (only for `len != 0`): the size limit from `host.env().cfg`, then
`gas!(initcode_cost(len))` (`initcode_cost` panics on overflow) -/
def initcodeCharge (len : Nat) : M Unit := do
  let s ← getS
  if enabled s.spec GasCalc.SpecId.SHANGHAI then
    if len > maxInitcodeSize s.env then haltWith .CreateInitCodeSizeLimit else
    match GasCalc.initcodeCost len with
    | some c => gasCharge c
    | none => faultWith .panic
  else pure ()

/-- the init code of `create`: nothing for `len == 0`, else limit + charge, `as_usize_or_fail!(code_offset)`,
`resize_memory!`, copy -/
def createCode (codeOffset len : Nat) : M (List Nat) :=
  if len ≠ 0 then do
    initcodeCharge len
    let codeOffset ← asUsizeOrFail codeOffset
    resizeMem codeOffset len
    memSlice codeOffset len
  else pure []

/-- `CreateScheme` and its charge: CREATE2 pops the salt and pays `create2_cost(len)`, CREATE pays `gas::CREATE` -/
def createScheme (isCreate2 : Bool) (len : Nat) : M (Option Nat) :=
  if isCreate2 then do
    let salt ← pop1
    gasOrFail (GasCalc.create2Cost len)
    pure (some salt)
  else do
    gasCharge GasCalc.CREATE
    pure none

/-- `contract::create::<IS_CREATE2>` (reads `host.env().cfg` only) -/
def createI (isCreate2 : Bool) : M Action := do
  requireNonStatic
  checkWhen isCreate2 GasCalc.SpecId.PETERSBURG
  let (value, codeOffset, len) ← pop3
  let len ← asUsizeOrFail len
  let code ← createCode codeOffset len
  let salt ← createScheme isCreate2 len
  let s ← getS
  let gasLimit := s.gas.remaining
  let gasLimit := if enabled s.spec GasCalc.SpecId.TANGERINE then U64ops.wsub gasLimit (gasLimit / 64) else gasLimit
  gasCharge gasLimit
  let s ← getS
  pure (.create { caller := s.target, salt := salt, value := value, initCode := code, gasLimit := gasLimit })

/-! ### EOF calls and creates (`contract.rs`) -/

/-- `Eof::decode(sub_container).expect(..)` and `is_data_filled` (both panic otherwise) -/
def subcontainerOk (sub : List Nat) : Bool :=
  match Eof.Eof.decode sub with
  | .ok e => e.body.isDataFilled
  | _ => false

/-- `contract::eofcreate` up to the address computation -/
def eofcreatePre : M (HostOp × (Nat × List Nat × List Nat)) := do
  requireEof
  requireNonStatic
  gasCharge GasCalc.EOF_CREATE_GAS
  let idx ← codeByte 0
  let (value, salt, dataOff, dataSize) ← pop4
  let c ← getEof
  match c.containers[idx]? with
  | none => faultWith .panic
  | some sub => do
    let (a, b) ← resizeMemRange dataOff dataSize
    let input ← (if a < b then memSliceRange a b else pure [])
    if !subcontainerOk sub then faultWith .panic else do
    gasOrFail (GasCalc.costPerWord sub.length GasCalc.KECCAK256WORD)
    let s ← getS
    pure (.create2Address s.target salt sub, (value, sub, input))

def eofcreateI : IState → Outcome :=
  hostCallAction eofcreatePre
    (fun (value, sub, input) r => do
      let s ← getS
      let gasLimit := Gas.remaining63of64 s.gas
      gasCharge gasLimit
      advancePc 1
      pure (.eofCreate { caller := s.target, createdAddress := r.word, value := value, container := sub,
                         gasLimit := gasLimit, input := input }))

/-- `pop_extcall_target_address`: the upper 12 bytes must be zero -/
def popExtcallTarget : M Nat := do
  let t ← pop1
  if t ≥ 2^160 then haltWith .InvalidEXTCALLTarget else pure t

/-- `extcall_input` -/
def extcallInput : M (List Nat) := do
  let (off, size) ← pop2
  let (a, b) ← resizeMemRange off size
  if a < b then memSliceRange a b else pure []

/-- `extcall_gas_calc` after the account load: `none` = the light failure (`push(1)`, return data cleared, the
instruction continues) -/
def extcallGasCalc (r : HostResp) (transfersValue : Bool) : M (Option Nat) := do
  requireSome r
  gasCharge (GasCalc.callCost GasCalc.SpecId.BERLIN transfersValue r.isCold r.delegCold r.isEmpty)
  let s ← getS
  let gasReduce := max (s.gas.remaining / 64) 5000
  let gasLimit := U64ops.saturatingSub s.gas.remaining gasReduce
  if gasLimit < GasCalc.MIN_CALLEE_GAS then do
    -- `let _ = stack.push(1)`: a failing push is ignored
    modifyS fun s => { s with stack := (Stack.push s.stack 1).1, returnData := [] }
    pure none
  else do
    gasCharge gasLimit
    pure (some gasLimit)

def Exec.toDoneOptAction : Exec (Option Action) → Done
  | .ok (some a) s => .action a s
  | .ok none s => .next s
  | .halt r o s => .halt r o s
  | .fault f => .fault f

def hostCallOptAction {β} (pre : M (HostOp × β)) (post : β → HostResp → M (Option Action)) (s : IState) : Outcome :=
  match pre s with
  | .ok (op, b) s' => .host op (fun r => (post b r s').toDoneOptAction)
  | .halt r o s' => .halt r o s'
  | .fault f => .fault f

def extcallI : IState → Outcome :=
  hostCallOptAction (do
      requireEof
      let target ← popExtcallTarget
      let input ← extcallInput
      let value ← pop1
      let s ← getS
      if s.isStatic ∧ value ≠ 0 then haltWith .CallNotAllowedInsideStatic else
      pure (.loadAccountDelegated target, (target, input, value)))
    (fun (target, input, value) r => do
      let g ← extcallGasCalc r (decide (value ≠ 0))
      match g with
      | none => pure none
      | some gasLimit => do
        let s ← getS
        let i : CallInputs :=
          { input := input, retStart := 0, retEnd := 0, gasLimit := gasLimit, bytecodeAddress := target,
            targetAddress := target, caller := s.target, valueTransfer := true, value := value,
            scheme := .extCall, isStatic := s.isStatic, isEof := true }
        pure (some (.call i)))

def extdelegatecallI : IState → Outcome :=
  hostCallOptAction (do
      requireEof
      let target ← popExtcallTarget
      let input ← extcallInput
      pure (.loadAccountDelegated target, (target, input)))
    (fun (target, input) r => do
      let g ← extcallGasCalc r false
      match g with
      | none => pure none
      | some gasLimit => do
        let s ← getS
        let i : CallInputs :=
          { input := input, retStart := 0, retEnd := 0, gasLimit := gasLimit, bytecodeAddress := target,
            targetAddress := s.target, caller := s.caller, valueTransfer := false, value := s.callValue,
            scheme := .extDelegateCall, isStatic := s.isStatic, isEof := true }
        pure (some (.call i)))

def extstaticcallI : IState → Outcome :=
  hostCallOptAction (do
      requireEof
      let target ← popExtcallTarget
      let input ← extcallInput
      pure (.loadAccountDelegated target, (target, input)))
    (fun (target, input) r => do
      let g ← extcallGasCalc r false
      match g with
      | none => pure none
      | some gasLimit => do
        let s ← getS
        let i : CallInputs :=
          { input := input, retStart := 0, retEnd := 0, gasLimit := gasLimit, bytecodeAddress := target,
            targetAddress := target, caller := s.target, valueTransfer := true, value := 0,
            scheme := .extStaticCall, isStatic := true, isEof := true }
        pure (some (.call i)))

/-- one instruction on the state whose `pc` already points behind the opcode byte -/
def execInstr (i : Instr) (s : IState) : Outcome :=
  match execPure i with
  | some m => .pure (m s).toDone
  | none =>
    match i with
    | .keccak256 => keccak256I s
    | .balance => balanceI s
    | .selfbalance => selfbalanceI s
    | .extcodesize => extcodesizeI s
    | .extcodehash => extcodehashI s
    | .extcodecopy => extcodecopyI s
    | .blockhash => blockhashI s
    | .sload => sloadI s
    | .sstore => sstoreI s
    | .tload => tloadI s
    | .tstore => tstoreI s
    | .log n => logI n.val s
    | .selfdestruct => selfdestructI s
    | .create c2 => .pure (createI c2 s).toDoneAction
    | .call => callI s
    | .callcode => callcodeI s
    | .delegatecall => delegatecallI s
    | .staticcall => staticcallI s
    | .eofcreate => eofcreateI s
    | .extcall => extcallI s
    | .extdelegatecall => extdelegatecallI s
    | .extstaticcall => extstaticcallI s
    | _ => .fault .panic

/-! ## the opcode table (`opcode.rs::instruction`) -/

open GasCalc GasCalc.SpecId in
/-- the handler of an opcode byte -/
def decode (op : Nat) : Instr :=
  if op = 0x00 then .stop
  else if op = 0x01 then .binop .verylow FRONTIER Arith.add
  else if op = 0x02 then .binop .low FRONTIER Arith.mul
  else if op = 0x03 then .binop .verylow FRONTIER Arith.sub
  else if op = 0x04 then .binop .low FRONTIER Arith.div
  else if op = 0x05 then .binop .low FRONTIER Arith.sdiv
  else if op = 0x06 then .binop .low FRONTIER Arith.rem
  else if op = 0x07 then .binop .low FRONTIER Arith.smod
  else if op = 0x08 then .terop .mid Arith.addmod
  else if op = 0x09 then .terop .mid Arith.mulmod
  else if op = 0x0a then .exp
  else if op = 0x0b then .binop .low FRONTIER Arith.signextend
  else if op = 0x10 then .binop .verylow FRONTIER Arith.lt
  else if op = 0x11 then .binop .verylow FRONTIER Arith.gt
  else if op = 0x12 then .binop .verylow FRONTIER Arith.slt
  else if op = 0x13 then .binop .verylow FRONTIER Arith.sgt
  else if op = 0x14 then .binop .verylow FRONTIER Arith.eq
  else if op = 0x15 then .unop .verylow Arith.iszero
  else if op = 0x16 then .binop .verylow FRONTIER Arith.bitand
  else if op = 0x17 then .binop .verylow FRONTIER Arith.bitor
  else if op = 0x18 then .binop .verylow FRONTIER Arith.bitxor
  else if op = 0x19 then .unop .verylow Arith.bitnot
  else if op = 0x1a then .binop .verylow FRONTIER Arith.byte
  else if op = 0x1b then .binop .verylow CONSTANTINOPLE Arith.shl
  else if op = 0x1c then .binop .verylow CONSTANTINOPLE Arith.shr
  else if op = 0x1d then .binop .verylow CONSTANTINOPLE Arith.sar
  else if op = 0x20 then .keccak256
  else if op = 0x30 then .pushVal .base FRONTIER (fun s => s.target)
  else if op = 0x31 then .balance
  else if op = 0x32 then .pushVal .base FRONTIER (fun s => s.env.origin)
  else if op = 0x33 then .pushVal .base FRONTIER (fun s => s.caller)
  else if op = 0x34 then .pushVal .base FRONTIER (fun s => s.callValue)
  else if op = 0x35 then .calldataload
  else if op = 0x36 then .pushVal .base FRONTIER (fun s => s.input.length)
  else if op = 0x37 then .calldatacopy
  else if op = 0x38 then .codesize
  else if op = 0x39 then .codecopy
  else if op = 0x3a then .pushVal .base FRONTIER (fun s => s.env.effectiveGasPrice)
  else if op = 0x3b then .extcodesize
  else if op = 0x3c then .extcodecopy
  else if op = 0x3d then .pushVal .base BYZANTIUM (fun s => s.returnData.length)
  else if op = 0x3e then .returndatacopy
  else if op = 0x3f then .extcodehash
  else if op = 0x40 then .blockhash
  else if op = 0x41 then .pushVal .base FRONTIER (fun s => s.env.coinbase)
  else if op = 0x42 then .pushVal .base FRONTIER (fun s => s.env.timestamp)
  else if op = 0x43 then .pushVal .base FRONTIER (fun s => s.env.number)
  else if op = 0x44 then .difficulty
  else if op = 0x45 then .pushVal .base FRONTIER (fun s => s.env.gasLimit)
  else if op = 0x46 then .pushVal .base ISTANBUL (fun s => s.env.chainId)
  else if op = 0x47 then .selfbalance
  else if op = 0x48 then .pushVal .base LONDON (fun s => s.env.basefee)
  else if op = 0x49 then .blobhash
  else if op = 0x4a then .pushVal .base CANCUN (fun s => s.env.blobGasPrice.getD 0)
  else if op = 0x50 then .pop
  else if op = 0x51 then .mload
  else if op = 0x52 then .mstore
  else if op = 0x53 then .mstore8
  else if op = 0x54 then .sload
  else if op = 0x55 then .sstore
  else if op = 0x56 then .jump
  else if op = 0x57 then .jumpi
  else if op = 0x58 then .pushVal .base FRONTIER (fun s => s.pc - 1)
  else if op = 0x59 then .pushVal .base FRONTIER (fun s => Memory.len s.mem)
  else if op = 0x5a then .pushVal .base FRONTIER (fun s => s.gas.remaining)
  else if op = 0x5b then .jumpdest
  else if op = 0x5c then .tload
  else if op = 0x5d then .tstore
  else if op = 0x5e then .mcopy
  else if op = 0x5f then .push0
  else if h : 0x60 ≤ op ∧ op ≤ 0x7f then .push ⟨op - 0x60, by omega⟩
  else if h : 0x80 ≤ op ∧ op ≤ 0x8f then .dup ⟨op - 0x80, by omega⟩
  else if h : 0x90 ≤ op ∧ op ≤ 0x9f then .swap ⟨op - 0x90, by omega⟩
  else if h : 0xa0 ≤ op ∧ op ≤ 0xa4 then .log ⟨op - 0xa0, by omega⟩
  else if op = 0xd0 then .dataload
  else if op = 0xd1 then .dataloadn
  else if op = 0xd2 then .datasize
  else if op = 0xd3 then .datacopy
  else if op = 0xe0 then .rjump
  else if op = 0xe1 then .rjumpi
  else if op = 0xe2 then .rjumpv
  else if op = 0xe3 then .callf
  else if op = 0xe4 then .retf
  else if op = 0xe5 then .jumpf
  else if op = 0xe6 then .dupn
  else if op = 0xe7 then .swapn
  else if op = 0xe8 then .exchange
  else if op = 0xec then .eofcreate
  else if op = 0xee then .returnContract
  else if op = 0xf0 then .create false
  else if op = 0xf1 then .call
  else if op = 0xf2 then .callcode
  else if op = 0xf3 then .ret
  else if op = 0xf4 then .delegatecall
  else if op = 0xf5 then .create true
  else if op = 0xf7 then .returndataload
  else if op = 0xf8 then .extcall
  else if op = 0xf9 then .extdelegatecall
  else if op = 0xfa then .staticcall
  else if op = 0xfb then .extstaticcall
  else if op = 0xfd then .revert
  else if op = 0xfe then .invalid
  else if op = 0xff then .selfdestruct
  else .unknown

/-- `Interpreter::step`: read the opcode at the instruction pointer (checked), advance by one, run the handler -/
def step (s : IState) : Outcome :=
  match s.code[s.pc]? with
  | none => .fault .oobCode
  | some op => execInstr (decode op) { s with pc := s.pc + 1 }

/-! ## re-entry of a child result -/

/-- `Interpreter::insert_call_outcome` (`instruction_result = Continue` first; legacy: `is_eof = false` pushes 1 / 0 / 0) -/
def insertCallOutcome (retStart retEnd : Nat) (o : ChildResult) : M Unit := do
  modifyS fun s => { s with returnData := o.output }
  let outLen := retEnd - retStart           -- `Range::len`: 0 when `end <= start`
  let targetLen := min outLen o.output.length
  let s ← getS
  if o.result.isOk then do
    modifyS fun s => { s with gas := Gas.recordRefund (Gas.eraseCost s.gas o.gasRemaining) o.gasRefunded }
    liftMemWrite fun m => Memory.set m retStart (o.output.take targetLen)
    push (if s.isEof then 0 else 1)
  else if o.result.isRevert then do
    modifyS fun s => { s with gas := Gas.eraseCost s.gas o.gasRemaining }
    liftMemWrite fun m => Memory.set m retStart (o.output.take targetLen)
    push (if s.isEof then 1 else 0)
  else if o.result = .FatalExternalError then faultWith .panic
  else push (if s.isEof then 2 else 0)

/-- `Interpreter::insert_create_outcome` -/
def insertCreateOutcome (o : ChildResult) : M Unit := do
  modifyS fun s => { s with returnData := if o.result.isRevert then o.output else [] }
  if o.result.isOk then do
    push (o.address.getD 0)
    modifyS fun s => { s with gas := Gas.recordRefund (Gas.eraseCost s.gas o.gasRemaining) o.gasRefunded }
  else if o.result.isRevert then do
    push 0
    modifyS fun s => { s with gas := Gas.eraseCost s.gas o.gasRemaining }
  else if o.result = .FatalExternalError then faultWith .panic
  else push 0

/-- `Interpreter::insert_eofcreate_outcome` -/
def insertEofCreateOutcome (o : ChildResult) : M Unit := do
  modifyS fun s => { s with returnData := if o.result = .Revert then o.output else [] }
  if o.result = .ReturnContract then
    (match o.address with
     | none => faultWith .panic
     | some a => do
       push a
       modifyS fun s => { s with gas := Gas.recordRefund (Gas.eraseCost s.gas o.gasRemaining) o.gasRefunded })
  else if o.result.isRevert then do
    push 0
    modifyS fun s => { s with gas := Gas.eraseCost s.gas o.gasRemaining }
  else if o.result = .FatalExternalError then faultWith .panic
  else push 0

/-- how the frame machine hands a child result back (`insert_call_outcome` with the `return_memory_offset` of the
inputs, `insert_create_outcome`, `insert_eofcreate_outcome`) -/
def insertOutcome (a : Action) (o : ChildResult) : M Unit :=
  match a with
  | .call i => insertCallOutcome i.retStart i.retEnd o
  | .create _ => insertCreateOutcome o
  | .eofCreate _ => insertEofCreateOutcome o

/-! ## the loop -/

/-- everything outside the frame: the host, keccak, and the child frames -/
structure Oracle (η : Type) where
  host : η → HostOp → HostResp × η
  child : η → Action → ChildResult × η

inductive RunResult
  /-- `InterpreterAction::Return { result: InterpreterResult { result, output, gas } }` -/
  | done (r : IResult) (out : List Nat) (s : IState)
  | fault (f : Fault)
  | outOfFuel

/-- what follows one resolved instruction -/
def continueWith {η} (o : Oracle η) (run : IState → η → RunResult × η) (d : Done) (h : η) : RunResult × η :=
  match d with
  | .next s => run s h
  | .action a s =>
    let (res, h') := o.child h a
    (match insertOutcome a res s with
     | .ok _ s' => run s' h'
     | .halt r out s' => (.done r out s', h')
     | .fault f => (.fault f, h'))
  | .halt r out s => (.done r out s, h)
  | .fault f => (.fault f, h)

/-- `Interpreter::run` re-entered by the frame machine after every action, for one frame: at most `fuel`
instructions -/
def run {η} (o : Oracle η) : Nat → IState → η → RunResult × η
  | 0, _, h => (.outOfFuel, h)
  | fuel + 1, s, h =>
    match step s with
    | .pure d => continueWith o (run o fuel) d h
    | .host op k =>
      let (r, h') := o.host h op
      continueWith o (run o fuel) (k r) h'

end Revm.Model.Interp
