import Revm.Util.Word
/-! C24 — the two cryptographic back ends behind `ecrecover` (C `secp256k1` / pure-Rust `k256`) and
behind KZG point evaluation (`c-kzg` / `kzg-rs`).

Modelled code:
* `crates/precompile/src/secp256k1.rs`: `ec_recover_run` (gas gate, `right_pad::<128>`, the `v` gate)
  and BOTH `cfg` branches of `mod secp256k1::ecrecover`, each followed into its library as far as
  scalars and range checks go:
  - C branch: `RecoverableSignature::from_compact` (`secp256k1_ecdsa_recoverable_signature_parse_compact`:
    overflow of r / s) and `recover_ecdsa` (`secp256k1_ecdsa_sig_recover`: zero r / s, lift of r with the
    parity bit, `u1 = -(r^-1 z)`, `u2 = r^-1 s`, `Q = u2 R + u1 G`, infinity check);
  - k256 branch: `Signature::from_slice` (range and zero check), `normalize_s` + `recid ^= 1`,
    `VerifyingKey::recover_from_prehash` (decompress, the same `u1`, `u2`, `lincomb`, `from_affine`
    rejecting the identity, then `verify_prehash`: the low-s check of k256 and the ECDSA verification
    equation `x(z s^-1 G + r s^-1 Q) mod n = r`).
  The group itself (points, addition, decompression, serialisation + keccak) is a PARAMETER
  (`Curve`); scalar multiplication is iterated addition.
* `crates/precompile/src/kzg_point_evaluation.rs`: `run` (gas, length, versioned hash = SHA-256 of the
  commitment with the version byte; SHA-256 is defined here in full), the library call as a parameter.
Core Lean only (this file is linked into the driver). -/
namespace Revm.Model.Backend

/-! ## bytes -/

/-- big-endian reading of a byte string -/
def beNat (bs : List Nat) : Nat := bs.foldl (fun a b => a * 256 + b) 0

/-- big-endian `len`-byte encoding (low `8*len` bits) -/
def natBE : Nat → Nat → List Nat
  | 0, _ => []
  | len+1, n => natBE len (n / 256) ++ [n % 256]

/-- `utilities::right_pad::<LEN>`: the first LEN bytes, zero-extended on the right -/
def rightPad (len : Nat) (bs : List Nat) : List Nat :=
  (bs ++ List.replicate (len - bs.length) 0).take len

/-- `PrecompileError` variants that the two precompiles can produce -/
inductive PErr | OutOfGas | BlobInvalidInputLength | BlobMismatchedVersion | BlobVerifyKzgProofFailed
  deriving DecidableEq, Repr

/-- `PrecompileResult`; `panic` = a Rust panic (an `expect`/`unwrap` firing) -/
inductive Reply
  | ok (gasUsed : Nat) (out : List Nat)
  | err (e : PErr)
  | panic
  deriving DecidableEq, Repr

/-! ## secp256k1 constants -/

/-- group order n -/
def N : Nat := 0xfffffffffffffffffffffffffffffffebaaedce6af48a03bbfd25e8cd0364141
/-- field prime p -/
def P : Nat := 0xfffffffffffffffffffffffffffffffffffffffffffffffffffffffefffffc2f

/-- square-and-multiply `b^e mod m` (fuel = bit length of e) -/
def powModAux (m : Nat) : Nat → Nat → Nat → Nat → Nat
  | 0, _, _, acc => acc
  | fuel+1, b, e, acc =>
    if e = 0 then acc else
    powModAux m fuel (b * b % m) (e / 2) (if e % 2 = 1 then acc * b % m else acc)
def powMod (b e m : Nat) : Nat := powModAux m (e.log2 + 1) (b % m) e (1 % m)

/-- `r` (already `< n < p`) is the x coordinate of a point of y^2 = x^3 + 7 over F_p (Euler's criterion):
what `secp256k1_ge_set_xo_var` / `AffinePoint::decompress` decide -/
def liftable (r : Nat) : Bool :=
  let a := (r * r % P * r + 7) % P
  a == 0 || powMod a ((P - 1) / 2) P == 1

/-! ## the group as a parameter -/

/-- Everything the two libraries compute on curve points. `lift r odd` = decompression of the x
coordinate `r` with the requested parity of y; `xmodn Q` = the affine x coordinate reduced mod n
(0 for the identity: k256's `to_affine().x()` of the identity); `ser Q` = the 32 output bytes
`keccak256(uncompressed(Q)[1..])` with the first 12 bytes zeroed; `inv` = scalar inverse mod n. -/
structure Curve where
  Pt : Type
  deq : DecidableEq Pt
  n : Nat
  zero : Pt
  add : Pt → Pt → Pt
  neg : Pt → Pt
  G : Pt
  lift : Nat → Bool → Option Pt
  xmodn : Pt → Nat
  inv : Nat → Nat
  ser : Pt → List Nat

instance (C : Curve) : DecidableEq C.Pt := C.deq

/-- scalar multiplication `[k]P` (what `ecmult` / `lincomb` compute) -/
def smul (C : Curve) : Nat → C.Pt → C.Pt
  | 0, _ => C.zero
  | k+1, Q => C.add (smul C k Q) Q

/-- scalar negation mod n (`secp256k1_scalar_negate`, `-Scalar`): 0 stays 0 -/
def negModN (C : Curve) (a : Nat) : Nat := (C.n - a % C.n) % C.n

/-- `recid & 1` / `RecoveryId::is_y_odd` -/
def isOdd (recid : Nat) : Bool := recid % 2 == 1

/-- C back end: `RecoverableSignature::from_compact` then `SECP256K1.recover_ecdsa`.
`z` is the 32-byte message as a number (reduced mod n by `secp256k1_scalar_set_b32(&m, msg, NULL)`). -/
def secpCore (C : Curve) (z r s recid : Nat) : Option C.Pt :=
  -- parse_compact: `ret &= !overflow` for r and for s
  if r ≥ C.n ∨ s ≥ C.n then none else
  -- secp256k1_ecdsa_sig_recover
  if r = 0 ∨ s = 0 then none else
  match C.lift r (isOdd recid) with       -- recid < 2: no `recid & 2` branch (x is not r + n)
  | none => none
  | some R =>
    let rn := C.inv r
    let u1 := negModN C (rn * (z % C.n) % C.n)
    let u2 := rn * s % C.n
    let Q := C.add (smul C u2 R) (smul C u1 C.G)    -- ecmult(&qj, &xj, &u2, &u1)
    if Q = C.zero then none else some Q

/-- pure-Rust back end: `Signature::from_slice`, `normalize_s` + `recid ^= 1`,
`VerifyingKey::recover_from_prehash` including its final `verify_prehash`. -/
def k256Core (C : Curve) (z r s recid : Nat) : Option C.Pt :=
  -- Signature::from_scalars: ScalarPrimitive::from_slice (range), then the zero check
  if r ≥ C.n ∨ s ≥ C.n then none else
  if r = 0 ∨ s = 0 then none else
  -- normalize_s: `s.is_high()` is `s > n >> 1`; the normalised value is `-s`
  let high := decide (s > C.n / 2)
  let s' := if high then negModN C s else s
  let recid' := if high then recid ^^^ 1 else recid
  -- RecoveryId::from_byte(recid').expect(..): recid' < 4, never fires for recid < 2
  let zr := z % C.n                               -- Reduce::reduce_bytes(bits2field(prehash))
  match C.lift r (isOdd recid') with              -- not is_x_reduced; AffinePoint::decompress
  | none => none
  | some R =>
    let rinv := C.inv r
    let u1 := negModN C (rinv * zr % C.n)
    let u2 := rinv * s' % C.n
    let pk := C.add (smul C u1 C.G) (smul C u2 R)  -- lincomb(G, u1, R, u2)
    if pk = C.zero then none else                  -- VerifyingKey::from_affine rejects the identity
    -- vk.verify_prehash(prehash, signature): k256's VerifyPrimitive rejects high s, then hazmat
    if s' > C.n / 2 then none else
    let sinv := C.inv s'
    let v1 := zr * sinv % C.n
    let v2 := r * sinv % C.n
    let X := C.add (smul C v1 C.G) (smul C v2 pk)
    if C.xmodn X = r then some pk else none

/-- `.map(|o| o.to_vec().into()).unwrap_or_default()` -/
def outBytes (C : Curve) : Option C.Pt → List Nat
  | none => []
  | some Q => C.ser Q

/-! ## `ec_recover_run` -/

/-- the `v` gate: bytes 32..63 all zero and byte 63 in {27, 28} -/
def vGate (inp : List Nat) : Bool :=
  ((inp.drop 32).take 31).all (· == 0) && (inp.drop 63).head? matches some 27 | some 28

/-- `ec_recover_run(input, gas_limit)` over a back end `core z r s recid` returning the output bytes -/
def ecRecoverRun (core : Nat → Nat → Nat → Nat → List Nat) (input : List Nat) (gas : Nat) : Reply :=
  if 3000 > gas then .err .OutOfGas else
  let inp := rightPad 128 input
  if !vGate inp then .ok 3000 [] else
  match (inp.drop 63).head? with
  | none => .panic          -- unreachable: the padded input has 128 bytes
  | some v =>
    let msg := beNat (inp.take 32)
    let recid := v - 27
    let r := beNat ((inp.drop 64).take 32)
    let s := beNat ((inp.drop 96).take 32)
    .ok 3000 (core msg r s recid)

/-- what the correspondence driver runs: every gate decided by the model, the group arithmetic taken
from `claim` (the output some back end produced for this input) -/
def oracleCore (claim : List Nat) (_z r s _recid : Nat) : List Nat :=
  if r ≥ N ∨ s ≥ N then [] else
  if r = 0 ∨ s = 0 then [] else
  if !liftable r then [] else claim

/-! ## SHA-256 (FIPS 180-4), used for the versioned hash -/
namespace Sha256

def K : Array Nat := #[
  0x428a2f98, 0x71374491, 0xb5c0fbcf, 0xe9b5dba5, 0x3956c25b, 0x59f111f1, 0x923f82a4, 0xab1c5ed5,
  0xd807aa98, 0x12835b01, 0x243185be, 0x550c7dc3, 0x72be5d74, 0x80deb1fe, 0x9bdc06a7, 0xc19bf174,
  0xe49b69c1, 0xefbe4786, 0x0fc19dc6, 0x240ca1cc, 0x2de92c6f, 0x4a7484aa, 0x5cb0a9dc, 0x76f988da,
  0x983e5152, 0xa831c66d, 0xb00327c8, 0xbf597fc7, 0xc6e00bf3, 0xd5a79147, 0x06ca6351, 0x14292967,
  0x27b70a85, 0x2e1b2138, 0x4d2c6dfc, 0x53380d13, 0x650a7354, 0x766a0abb, 0x81c2c92e, 0x92722c85,
  0xa2bfe8a1, 0xa81a664b, 0xc24b8b70, 0xc76c51a3, 0xd192e819, 0xd6990624, 0xf40e3585, 0x106aa070,
  0x19a4c116, 0x1e376c08, 0x2748774c, 0x34b0bcb5, 0x391c0cb3, 0x4ed8aa4a, 0x5b9cca4f, 0x682e6ff3,
  0x748f82ee, 0x78a5636f, 0x84c87814, 0x8cc70208, 0x90befffa, 0xa4506ceb, 0xbef9a3f7, 0xc67178f2]

def H0 : List Nat :=
  [0x6a09e667, 0xbb67ae85, 0x3c6ef372, 0xa54ff53a, 0x510e527f, 0x9b05688c, 0x1f83d9ab, 0x5be0cd19]

def M32 : Nat := 2^32
def rotr (x k : Nat) : Nat := ((x >>> k) ||| (x <<< (32 - k))) % M32
def bsig0 (x : Nat) : Nat := rotr x 2 ^^^ rotr x 13 ^^^ rotr x 22
def bsig1 (x : Nat) : Nat := rotr x 6 ^^^ rotr x 11 ^^^ rotr x 25
def ssig0 (x : Nat) : Nat := rotr x 7 ^^^ rotr x 18 ^^^ (x >>> 3)
def ssig1 (x : Nat) : Nat := rotr x 17 ^^^ rotr x 19 ^^^ (x >>> 10)
def ch (x y z : Nat) : Nat := (x &&& y) ^^^ ((M32 - 1 - x) &&& z)
def maj (x y z : Nat) : Nat := (x &&& y) ^^^ (x &&& z) ^^^ (y &&& z)

/-- padding: 0x80, zeros up to 56 mod 64, the bit length as 8 big-endian bytes -/
def pad (msg : List Nat) : List Nat :=
  msg ++ [0x80] ++ List.replicate ((55 + 64 - msg.length % 64) % 64) 0 ++ natBE 8 (msg.length * 8)

/-- the sixteen big-endian words of a 64-byte block -/
def blockWords : Nat → List Nat → List Nat
  | 0, _ => []
  | k+1, bs => beNat (bs.take 4) :: blockWords k (bs.drop 4)

/-- message schedule: extend 16 words to 64 -/
def schedule (w16 : List Nat) : Array Nat :=
  (List.range 48).foldl (fun (w : Array Nat) i =>
    let t := i + 16
    w.push ((ssig1 (w.getD (t - 2) 0) + w.getD (t - 7) 0 + ssig0 (w.getD (t - 15) 0) + w.getD (t - 16) 0) % M32))
    w16.toArray

structure St where
  a : Nat
  b : Nat
  c : Nat
  d : Nat
  e : Nat
  f : Nat
  g : Nat
  h : Nat

def round (w : Array Nat) (s : St) (i : Nat) : St :=
  let t1 := (s.h + bsig1 s.e + ch s.e s.f s.g + K.getD i 0 + w.getD i 0) % M32
  let t2 := (bsig0 s.a + maj s.a s.b s.c) % M32
  { a := (t1 + t2) % M32, b := s.a, c := s.b, d := s.c, e := (s.d + t1) % M32, f := s.e, g := s.f, h := s.g }

def compress (hs : St) (block : List Nat) : St :=
  let w := schedule (blockWords 16 block)
  let s := (List.range 64).foldl (round w) hs
  { a := (hs.a + s.a) % M32, b := (hs.b + s.b) % M32, c := (hs.c + s.c) % M32, d := (hs.d + s.d) % M32,
    e := (hs.e + s.e) % M32, f := (hs.f + s.f) % M32, g := (hs.g + s.g) % M32, h := (hs.h + s.h) % M32 }

def blocks : Nat → List Nat → St → St
  | 0, _, hs => hs
  | k+1, bs, hs => blocks k (bs.drop 64) (compress hs (bs.take 64))

def init : St :=
  { a := 0x6a09e667, b := 0xbb67ae85, c := 0x3c6ef372, d := 0xa54ff53a,
    e := 0x510e527f, f := 0x9b05688c, g := 0x1f83d9ab, h := 0x5be0cd19 }

def hash (msg : List Nat) : List Nat :=
  let p := pad msg
  let s := blocks (p.length / 64) p init
  natBE 4 s.a ++ natBE 4 s.b ++ natBE 4 s.c ++ natBE 4 s.d ++ natBE 4 s.e ++ natBE 4 s.f ++ natBE 4 s.g ++ natBE 4 s.h

end Sha256

/-! ## KZG point evaluation wrapper -/

/-- BLS12-381 scalar field modulus -/
def BLS_R : Nat := 0x73eda753299d7d483339d80809a1d80553bda402fffe5bfeffffffff00000001

/-- `kzg_to_versioned_hash`: `0x01 ++ sha256(commitment)[1..]` -/
def versionedHash (commitment : List Nat) : List Nat :=
  1 :: (Sha256.hash commitment).drop 1

/-- `RETURN_VALUE`: FIELD_ELEMENTS_PER_BLOB (4096) and BLS_MODULUS as 32-byte big-endian words -/
def returnValue : List Nat := natBE 32 4096 ++ natBE 32 BLS_R

/-- `kzg_point_evaluation::run(input, gas_limit, env)` over a library
`verify commitment z y proof` (= `KzgProof::verify_kzg_proof(..).unwrap_or(false)`) -/
def kzgRun (verify : List Nat → Nat → Nat → List Nat → Bool) (input : List Nat) (gas : Nat) : Reply :=
  if gas < 50000 then .err .OutOfGas else
  if input.length ≠ 192 then .err .BlobInvalidInputLength else
  let versioned := input.take 32
  let commitment := (input.drop 96).take 48
  if versionedHash commitment ≠ versioned then .err .BlobMismatchedVersion else
  let z := beNat ((input.drop 32).take 32)
  let y := beNat ((input.drop 64).take 32)
  let proof := (input.drop 144).take 48
  if !verify commitment z y proof then .err .BlobVerifyKzgProofFailed else
  .ok 50000 returnValue

/-- the part of both libraries that is not group arithmetic: `bytes_to_bls_field` (c-kzg) /
`safe_scalar_affine_from_bytes` (kzg-rs) reject a field element that is not canonical (`>= BLS_R`),
the error becomes `false` through `unwrap_or(false)`; `pairing` is the rest (point decoding, subgroup
checks, the pairing equation) -/
def libVerify (pairing : List Nat → Nat → Nat → List Nat → Bool) (c : List Nat) (z y : Nat) (p : List Nat) : Bool :=
  decide (z < BLS_R) && decide (y < BLS_R) && pairing c z y p

end Revm.Model.Backend
