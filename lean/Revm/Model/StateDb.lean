import Revm.Util.Word
/-! Model of revm's block-state database: `AccountStatus` (account_status.rs), `CacheAccount`
(cache_account.rs), `CacheState::apply_evm_state / apply_account_state` (cache.rs), `State`
(state.rs: `load_cache_account`, `basic`, `storage`, `code_by_hash`, `commit`, `increment_balances`,
`drain_balances`), `StateBuilder::build` (state_builder.rs) and `From<BundleAccount> for CacheAccount`.

`HashMap<K, V>` is a partial function `K → Option V` (vacant = `none`); a `StorageWithOriginalValues`
coming out of a commit is the list of its changed slots `(key, original, present)`.
Every `unreachable!` / `expect` / `unwrap` site of the Rust is an explicit `Except.error`. -/
namespace Revm.Model.StateDb
open Revm

abbrev Addr := Nat
abbrev Slot := Nat
abbrev Word := Nat
abbrev Code := List Nat

/-- keccak256 of the empty string -/
def KECCAK_EMPTY : Nat := 0xc5d2460186f7233c927e7db2dcc703c0e500b653ca82273b7bfad8045d85a470

/-- `AccountInfo` -/
structure Info where
  balance : Nat
  nonce : Nat
  codeHash : Nat
  code : Option Code
deriving DecidableEq, Repr

/-- `AccountInfo::default()` (its `code` is `Some(Bytecode::default())`, i.e. no bytes) -/
def Info.default : Info := ⟨0, 0, KECCAK_EMPTY, some []⟩
def Info.isEmptyCodeHash (i : Info) : Bool := i.codeHash == KECCAK_EMPTY
/-- `AccountInfo::is_empty` -/
def Info.isEmpty (i : Info) : Bool :=
  (i.isEmptyCodeHash || i.codeHash == 0) && i.balance == 0 && i.nonce == 0
/-- `AccountInfo::has_no_code_and_nonce` -/
def Info.hasNoCodeAndNonce (i : Info) : Bool := i.isEmptyCodeHash && i.nonce == 0

inductive Status
  | LoadedNotExisting | Loaded | LoadedEmptyEIP161 | InMemoryChange | Changed
  | Destroyed | DestroyedChanged | DestroyedAgain
deriving DecidableEq, Repr

namespace Status
def wasDestroyed : Status → Bool
  | Destroyed | DestroyedChanged | DestroyedAgain => true
  | _ => false
def isStorageKnown : Status → Bool
  | LoadedNotExisting | InMemoryChange | Destroyed | DestroyedChanged | DestroyedAgain => true
  | _ => false
def onCreated : Status → Status
  | DestroyedAgain | Destroyed | DestroyedChanged => DestroyedChanged
  | LoadedNotExisting | LoadedEmptyEIP161 | Loaded | Changed | InMemoryChange => InMemoryChange
/-- `on_touched_empty_post_eip161`; the `unreachable!` arm is `error` -/
def onTouchedEmptyPostEip161 : Status → Except String Status
  | LoadedNotExisting => .ok LoadedNotExisting
  | InMemoryChange | Destroyed | LoadedEmptyEIP161 => .ok Destroyed
  | DestroyedAgain | DestroyedChanged => .ok DestroyedAgain
  | Loaded | Changed => .error "unreachable: touch empty"
/-- `on_touched_created_pre_eip161`; inner `none` = status did not change (`?` returns early) -/
def onTouchedCreatedPreEip161 : Status → Bool → Except String (Option Status)
  | LoadedEmptyEIP161, _ => .ok none
  | DestroyedChanged, hadNoInfo => .ok (if hadNoInfo then none else some DestroyedChanged)
  | Destroyed, _ | DestroyedAgain, _ => .ok (some DestroyedChanged)
  | InMemoryChange, _ | LoadedNotExisting, _ => .ok (some InMemoryChange)
  | Loaded, _ | Changed, _ => .error "unreachable: touch create"
def onChanged : Status → Bool → Status
  | LoadedNotExisting, _ => InMemoryChange
  | LoadedEmptyEIP161, _ => InMemoryChange
  | Loaded, hadNoNonceAndCode => if hadNoNonceAndCode then InMemoryChange else Changed
  | Changed, _ => Changed
  | InMemoryChange, _ => InMemoryChange
  | DestroyedChanged, _ => DestroyedChanged
  | Destroyed, _ | DestroyedAgain, _ => DestroyedChanged
def onSelfdestructed : Status → Status
  | LoadedNotExisting => LoadedNotExisting
  | DestroyedChanged | DestroyedAgain | Destroyed => DestroyedAgain
  | _ => Destroyed
end Status

/-- changed slots of a committed account: `(key, original, present)` -/
abbrev Changes := List (Slot × Word × Word)
/-- present value of `k` in a changes map -/
def Changes.get (l : Changes) (k : Slot) : Option Word :=
  match l with
  | [] => none
  | (k', _, p) :: r => if k' = k then some p else Changes.get r k

abbrev Storage := Slot → Option Word
def Storage.empty : Storage := fun _ => none
/-- `changes.iter().map(|(k, v)| (*k, v.present_value)).collect()` -/
def Storage.ofChanges (l : Changes) : Storage := fun k => l.get k
/-- `storage.extend(changes present values)` -/
def Storage.extend (m : Storage) (l : Changes) : Storage := fun k =>
  match l.get k with
  | some v => some v
  | none => m k
def Storage.insert (m : Storage) (k : Slot) (v : Word) : Storage := fun x => if x = k then some v else m x

/-- `PlainAccount` -/
abbrev PlainAccount := Info × Storage

structure CacheAccount where
  account : Option PlainAccount
  status : Status

structure Transition where
  info : Option Info
  status : Status
  previousInfo : Option Info
  previousStatus : Status
  storage : Changes
  storageWasDestroyed : Bool

namespace CacheAccount
def newLoaded (i : Info) : CacheAccount := ⟨some (i, Storage.empty), .Loaded⟩
def newLoadedEmptyEip161 : CacheAccount := ⟨some (Info.default, Storage.empty), .LoadedEmptyEIP161⟩
def newLoadedNotExisting : CacheAccount := ⟨none, .LoadedNotExisting⟩
def accountInfo (c : CacheAccount) : Option Info := c.account.map (·.1)

/-- `touch_create_pre_eip161` -/
def touchCreatePreEip161 (c : CacheAccount) (storage : Changes) :
    Except String (CacheAccount × Option Transition) :=
  let hadNoInfo := match c.account with
    | some a => a.1.isEmpty
    | none => false
  match c.status.onTouchedCreatedPreEip161 hadNoInfo with
  | .error e => .error e
  | .ok none => .ok (c, none)
  | .ok (some st) =>
    .ok (⟨some (Info.default, Storage.ofChanges storage), st⟩,
      some { info := some Info.default, status := st, previousInfo := c.accountInfo,
             previousStatus := c.status, storage := storage, storageWasDestroyed := false })

/-- `touch_empty_eip161` -/
def touchEmptyEip161 (c : CacheAccount) : Except String (CacheAccount × Option Transition) :=
  match c.status.onTouchedEmptyPostEip161 with
  | .error e => .error e
  | .ok st =>
    .ok (⟨none, st⟩,
      match c.status with
      | .LoadedNotExisting | .Destroyed | .DestroyedAgain => none
      | _ => some { info := none, status := st, previousInfo := c.accountInfo,
                    previousStatus := c.status, storage := [], storageWasDestroyed := true })

/-- `selfdestruct` -/
def selfdestruct (c : CacheAccount) : CacheAccount × Option Transition :=
  let st := c.status.onSelfdestructed
  (⟨none, st⟩,
    if c.status = .LoadedNotExisting then none
    else some { info := none, status := st, previousInfo := c.accountInfo,
                previousStatus := c.status, storage := [], storageWasDestroyed := true })

/-- `newly_created` -/
def newlyCreated (c : CacheAccount) (newInfo : Info) (newStorage : Changes) :
    CacheAccount × Transition :=
  let st := c.status.onCreated
  (⟨some (newInfo, Storage.ofChanges newStorage), st⟩,
    { info := some newInfo, status := st, previousStatus := c.status,
      previousInfo := c.accountInfo, storage := newStorage, storageWasDestroyed := false })

/-- `account_info_change` (shared by `increment_balance` and `drain_balance`) -/
def accountInfoChange (c : CacheAccount) (f : Info → Info) : CacheAccount × Transition :=
  let previousInfo := c.accountInfo
  let account : PlainAccount := match c.account with
    | some a => a
    | none => (Info.default, Storage.empty)
  let account' : PlainAccount := (f account.1, account.2)
  let hadNoNonceAndCode := match previousInfo with
    | some i => i.hasNoCodeAndNonce
    | none => false
  let st := c.status.onChanged hadNoNonceAndCode
  (⟨some account', st⟩,
    { info := some account'.1, status := st, previousInfo := previousInfo,
      previousStatus := c.status, storage := [], storageWasDestroyed := false })

/-- `increment_balance` (`None` for a zero amount) -/
def incrementBalance (c : CacheAccount) (amount : Nat) : CacheAccount × Option Transition :=
  if amount = 0 then (c, none) else
  let r := c.accountInfoChange (fun i => { i with balance := U256.saturatingAdd i.balance amount })
  (r.1, some r.2)

/-- `drain_balance`; `output.try_into().unwrap()` panics for a balance ≥ 2^128 -/
def drainBalance (c : CacheAccount) : Except String (Nat × CacheAccount × Transition) :=
  let bal := match c.account with
    | some a => a.1.balance
    | none => 0
  if bal < U128 then
    let r := c.accountInfoChange (fun i => { i with balance := 0 })
    .ok (bal, r.1, r.2)
  else .error "unwrap: balance does not fit u128"

/-- `change` -/
def change (c : CacheAccount) (new : Info) (storage : Changes) : CacheAccount × Transition :=
  let previousInfo := c.accountInfo
  let thisStorage : Storage := match c.account with
    | some a => a.2
    | none => Storage.empty
  let hadNoNonceAndCode := match previousInfo with
    | some i => i.hasNoCodeAndNonce
    | none => false
  let st := c.status.onChanged hadNoNonceAndCode
  (⟨some (new, thisStorage.extend storage), st⟩,
    { info := some new, status := st, previousInfo := previousInfo, previousStatus := c.status,
      storage := storage, storageWasDestroyed := false })
end CacheAccount

/-- one entry of an `EvmState` (`Account`): info, all slots `(key, original, present)`, flags -/
structure CommitAcct where
  addr : Addr
  info : Info
  storage : Changes
  touched : Bool
  created : Bool
  selfdestructed : Bool

/-- `.filter(|(_, slot)| slot.is_changed())` -/
def CommitAcct.changed (a : CommitAcct) : Changes := a.storage.filter (fun e => e.2.1 != e.2.2)

/-- `CacheState::apply_account_state` on the cached account (`none` = vacant, only looked up for a
touched account: `.expect("All accounts should be present inside cache")`) -/
def applyAccountState (hasStateClear : Bool) (c : Option CacheAccount) (a : CommitAcct) :
    Except String (Option CacheAccount × Option Transition) :=
  if !a.touched then .ok (c, none) else
  match c with
  | none => .error "expect: All accounts should be present inside cache"
  | some this =>
    if a.selfdestructed then
      let r := this.selfdestruct
      .ok (some r.1, r.2)
    else if a.created then
      let r := this.newlyCreated a.info a.changed
      .ok (some r.1, some r.2)
    else if a.info.isEmpty then
      if hasStateClear then
        match this.touchEmptyEip161 with
        | .error e => .error e
        | .ok r => .ok (some r.1, r.2)
      else
        match this.touchCreatePreEip161 a.changed with
        | .error e => .error e
        | .ok r => .ok (some r.1, r.2)
    else
      let r := this.change a.info a.changed
      .ok (some r.1, some r.2)

/-- the underlying database (total: the generated databases never fail) -/
structure Db where
  basic : Addr → Option Info
  storage : Addr → Slot → Word
  code : Nat → Code

/-- `BundleAccount`; storage slot = `(original, present)` -/
structure BundleAccount where
  info : Option Info
  originalInfo : Option Info
  storage : Slot → Option (Word × Word)
  status : Status

/-- `From<BundleAccount> for CacheAccount` -/
def BundleAccount.toCache (b : BundleAccount) : CacheAccount :=
  let storage : Storage := fun k => (b.storage k).map (·.2)
  ⟨b.info.map (fun i => (i, storage)), b.status⟩

structure State where
  accounts : Addr → Option CacheAccount
  contracts : Nat → Option Code
  hasStateClear : Bool
  db : Db
  /-- `transition_state`: `none` without bundle update; the model keeps the emitted transitions as
  a log (the per-address merge of `TransitionState::add_transitions` belongs to the bundle model) -/
  transitions : Option (List (Addr × Transition))
  bundle : Addr → Option BundleAccount
  bundleContracts : Nat → Option Code
  usePreloadedBundle : Bool

/-- `StateBuilder::new_with_database(db)[.without_state_clear()][.with_bundle_update()]
[.with_bundle_prestate(b)].build()` -/
def State.build (db : Db) (stateClear bundleUpdate : Bool)
    (prestate : Option ((Addr → Option BundleAccount) × (Nat → Option Code))) : State :=
  { accounts := fun _ => none, contracts := fun _ => none, hasStateClear := stateClear, db := db,
    transitions := if bundleUpdate then some [] else none,
    bundle := match prestate with | some p => p.1 | none => fun _ => none,
    bundleContracts := match prestate with | some p => p.2 | none => fun _ => none,
    usePreloadedBundle := prestate.isSome }

namespace State
def setAccount (s : State) (a : Addr) (c : CacheAccount) : State :=
  { s with accounts := fun x => if x = a then some c else s.accounts x }

/-- `load_cache_account` -/
def loadCacheAccount (s : State) (a : Addr) : State × CacheAccount :=
  match s.accounts a with
  | some c => (s, c)
  | none =>
    let fromBundle : Option CacheAccount :=
      if s.usePreloadedBundle then (s.bundle a).map BundleAccount.toCache else none
    match fromBundle with
    | some c => (s.setAccount a c, c)
    | none =>
      let c := match s.db.basic a with
        | none => CacheAccount.newLoadedNotExisting
        | some acc => if acc.isEmpty then CacheAccount.newLoadedEmptyEip161 else CacheAccount.newLoaded acc
      (s.setAccount a c, c)

/-- `Database::basic` -/
def basic (s : State) (a : Addr) : State × Option Info :=
  let r := s.loadCacheAccount a
  (r.1, r.2.accountInfo)

/-- `Database::code_by_hash` -/
def codeByHash (s : State) (h : Nat) : State × Code :=
  match s.contracts h with
  | some c => (s, c)
  | none =>
    let fromBundle := if s.usePreloadedBundle then s.bundleContracts h else none
    let code := match fromBundle with
      | some c => c
      | none => s.db.code h
    ({ s with contracts := fun x => if x = h then some code else s.contracts x }, code)

/-- `Database::storage`; the `unreachable!` for an account that was never loaded is `error` -/
def storage (s : State) (a : Addr) (k : Slot) : Except String (State × Word) :=
  match s.accounts a with
  | none => .error "unreachable: account is guaranteed to be loaded"
  | some c =>
    match c.account with
    | none => .ok (s, 0)
    | some (i, m) =>
      match m k with
      | some v => .ok (s, v)
      | none =>
        let v := if c.status.isStorageKnown then 0 else s.db.storage a k
        .ok (s.setAccount a ⟨some (i, m.insert k v), c.status⟩, v)

def addTransition (s : State) (a : Addr) (t : Option Transition) : State :=
  match t, s.transitions with
  | some t, some l => { s with transitions := some (l ++ [(a, t)]) }
  | _, _ => s

/-- `DatabaseCommit::commit` = `cache.apply_evm_state` + `apply_transition`, account by account -/
def commit (s : State) : List CommitAcct → Except String State
  | [] => .ok s
  | a :: rest =>
    match applyAccountState s.hasStateClear (s.accounts a.addr) a with
    | .error e => .error e
    | .ok (c', t) =>
      let s1 : State := match c' with
        | some c => s.setAccount a.addr c
        | none => s
      commit (s1.addTransition a.addr t) rest

/-- `increment_balances` -/
def incrementBalances (s : State) : List (Addr × Nat) → State
  | [] => s
  | (a, amount) :: rest =>
    if amount = 0 then incrementBalances s rest else
    let r := s.loadCacheAccount a
    let r2 := r.2.incrementBalance amount
    incrementBalances ((r.1.setAccount a r2.1).addTransition a r2.2) rest

/-- `drain_balances` -/
def drainBalances (s : State) : List Addr → Except String (State × List Nat)
  | [] => .ok (s, [])
  | a :: rest =>
    let r := s.loadCacheAccount a
    match r.2.drainBalance with
    | .error e => .error e
    | .ok (bal, c, t) =>
      match drainBalances ((r.1.setAccount a c).addTransition a (some t)) rest with
      | .error e => .error e
      | .ok (s', bals) => .ok (s', bal :: bals)
end State

/-! ## histories -/

/-- what a reader observes of an `AccountInfo`: balance, nonce, code hash and the code bytes the EVM
would run (`info.code`, else empty for the empty-code hash, else `code_by_hash`) -/
structure View where
  balance : Nat
  nonce : Nat
  codeHash : Nat
  code : Code
deriving DecidableEq, Repr

def resolveCode (dbCode : Nat → Code) (i : Info) : Code :=
  match i.code with
  | some c => c
  | none => if i.codeHash = KECCAK_EMPTY then [] else dbCode i.codeHash

def Info.view (dbCode : Nat → Code) (i : Info) : View :=
  ⟨i.balance, i.nonce, i.codeHash, resolveCode dbCode i⟩

inductive Op
  | basic (a : Addr)
  | storage (a : Addr) (k : Slot)
  | code (h : Nat)
  | commit (accts : List CommitAcct)
  | inc (l : List (Addr × Nat))
  | drain (l : List Addr)

inductive Reply
  | info (v : Option View)
  | word (w : Word)
  | code (c : Code)
  | done
  | drained (l : List Nat)
deriving DecidableEq, Repr

/-- `basic` as a reader sees it: the info with its code resolved (through `code_by_hash` of the same
`State` when the info carries no code) -/
def State.basicView (s : State) (a : Addr) : State × Option View :=
  let r := s.basic a
  match r.2 with
  | none => (r.1, none)
  | some i =>
    match i.code with
    | some c => (r.1, some ⟨i.balance, i.nonce, i.codeHash, c⟩)
    | none =>
      if i.codeHash = KECCAK_EMPTY then (r.1, some ⟨i.balance, i.nonce, i.codeHash, []⟩)
      else
        let r2 := r.1.codeByHash i.codeHash
        (r2.1, some ⟨i.balance, i.nonce, i.codeHash, r2.2⟩)

def State.step (s : State) : Op → Except String (State × Reply)
  | .basic a => let r := s.basicView a; .ok (r.1, .info r.2)
  | .storage a k => match s.storage a k with
    | .error e => .error e
    | .ok r => .ok (r.1, .word r.2)
  | .code h => let r := s.codeByHash h; .ok (r.1, .code r.2)
  | .commit accts => match s.commit accts with
    | .error e => .error e
    | .ok s' => .ok (s', .done)
  | .inc l => .ok (s.incrementBalances l, .done)
  | .drain l => match s.drainBalances l with
    | .error e => .error e
    | .ok r => .ok (r.1, .drained r.2)

def State.run (s : State) : List Op → Except String (State × List Reply)
  | [] => .ok (s, [])
  | op :: rest =>
    match s.step op with
    | .error e => .error e
    | .ok (s1, r) =>
      match State.run s1 rest with
      | .error e => .error e
      | .ok (s2, rs) => .ok (s2, r :: rs)

end Revm.Model.StateDb
