/-! Code-shaped model of `crates/revm/src/inspector/handler_register.rs` on top of the frame machine
of `Evm::transact_preverified_inner` / `Evm::run_the_loop` (`crates/revm/src/evm.rs`).

What the interpreter, the frame-creation handlers, the `*_return` handlers and the inspector itself do is
NOT computed here: it is supplied by an arbitrary *script* (a list of `Turn`s of any length and content),
so every statement quantified over all scripts holds for every program, database and inspector.

* `Stacks` = `call_input_stack`, `create_input_stack`, `eofcreate_input_stack` (the three
  `Rc<RefCell<Vec<_>>>` captured by the handlers; they survive from one transaction to the next, which is
  why `runTx` takes the initial stacks as an argument). Top of the `Vec` = head of the list.
* `word` = the inspector callbacks in the order they are made.
* `.pop().unwrap()` on an empty stack and `call_stack.pop().expect(..)` are `Status.panicked`.

Ordered effects that are transcribed:
`call` wrapper: `inspector.call(&mut inputs)`; push `inputs`; outcome ⇒ `Result`; else previous handler,
`Ok(Frame)` ⇒ `initialize_interp`; `Err` is passed on (the pushed inputs stay). `create`/`eofcreate` alike.
`insert_*_outcome` wrappers: pop, `*_end`, previous handler (`take_error()?`).
`last_frame_return` wrapper: pop the stack of the result's kind, `*_end`.
`inspector_instruction`: `step`; result no longer `Continue` ⇒ return (instruction not run, no `step_end`);
instruction; `step_end`. LOG0..4 and SELFDESTRUCT are wrapped a second time *around* that (registered with
`update_boxed` after `update_all`), so their `log` / `selfdestruct` callback comes after `step_end`, and
their post-check also runs when `step` stopped the interpreter. -/
namespace Revm.Model.InspectorHooks

inductive Kind | call | create | eofcreate
deriving DecidableEq, Repr

/-- one inspector callback. `opn`/`cls` are `call`/`create`/`eofcreate` and `*_end`; `i` identifies the
inputs object, `o` the outcome handed to `*_end` -/
inductive Ev
  | opn (k : Kind) (i : Nat)
  | cls (k : Kind) (i : Nat) (o : Nat)
  | initInterp
  | step
  | stepEnd
  | log (l : Nat)
  | selfdestruct (a t v : Nat)
deriving DecidableEq, Repr

structure Stacks where
  call : List Nat := []
  create : List Nat := []
  eof : List Nat := []
deriving DecidableEq, Repr

def Stacks.push (s : Stacks) (k : Kind) (i : Nat) : Stacks :=
  match k with
  | .call => { s with call := i :: s.call }
  | .create => { s with create := i :: s.create }
  | .eofcreate => { s with eof := i :: s.eof }

/-- `stack.borrow_mut().pop()`; `none` is the `.unwrap()` panic -/
def Stacks.pop (s : Stacks) (k : Kind) : Option (Nat × Stacks) :=
  match k with
  | .call => match s.call with
    | [] => none
    | i :: r => some (i, { s with call := r })
  | .create => match s.create with
    | [] => none
    | i :: r => some (i, { s with create := r })
  | .eofcreate => match s.eof with
    | [] => none
    | i :: r => some (i, { s with eof := r })

/-- one dispatched opcode as the wrappers see it -/
inductive Insn
  /-- any opcode other than LOG0..LOG4 and SELFDESTRUCT -/
  | plain
  /-- LOG0..LOG4: `prevLen = logs.len()` before, `after` = `journaled_state.logs` afterwards -/
  | logOp (prevLen : Nat) (after : List Nat)
  /-- SELFDESTRUCT: `note` = what the wrapper's post-check decides to report
  (`Model.SelfdestructNotify.notify`), `none` = no callback -/
  | sdOp (note : Option (Nat × Nat × Nat))
deriving DecidableEq, Repr

/-- the part of the LOG / SELFDESTRUCT wrapper that runs after the (step-wrapped) instruction -/
def postEvents : Insn → List Ev
  | .plain => []
  | .logOp prevLen after =>
    if after.length = prevLen + 1 then
      match after.getLast? with
      | some l => [.log l]
      | none => []
    else []
  | .sdOp none => []
  | .sdOp (some (a, t, v)) => [.selfdestruct a t v]

/-- an instruction that is executed: `step`, the instruction, `step_end`, then the outer wrapper's check -/
def insnEvents (x : Insn) : List Ev := [.step, .stepEnd] ++ postEvents x

/-- an opcode at which the inspector's `step` left a result other than `Continue`: the instruction is
skipped, no `step_end`; the outer LOG / SELFDESTRUCT wrapper still runs its check -/
def haltEvents : Option Insn → List Ev
  | none => []
  | some x => [.step] ++ postEvents x

/-- answer of the previous (mainnet) `call` / `create` / `eofcreate` handler -/
inductive HandlerRes
  | frame
  | result (o : Nat)
  | err
deriving DecidableEq, Repr

/-- a frame is requested (by the transaction itself or by an `InterpreterAction`) -/
structure Spawn where
  k : Kind
  /-- the inputs as they are when the inspector's `call`/`create`/`eofcreate` returns (it may edit them) -/
  i : Nat
  /-- the inspector's own outcome (short-circuit) -/
  insp : Option Nat
  /-- previous handler's answer; consulted only when `insp = none` -/
  h : HandlerRes
deriving DecidableEq, Repr

/-- how one `execute_frame` ends. `insertErr`: the previous `insert_*_outcome` handler returns `Err`
(`take_error()?`) after the `*_end` callback was made -/
inductive Next
  | spawn (s : Spawn) (insertErr : Bool)
  /-- `InterpreterAction::Return`; `o = none`: the `*_return` handler returns `Err` -/
  | ret (o : Option Nat) (insertErr : Bool)
  /-- `execute_frame` or the `take_error()?` after it returns `Err` (e.g. a failing `Database`) -/
  | fatal
deriving DecidableEq, Repr

/-- one iteration of `run_the_loop`: the instructions the top frame dispatches, then what happens next -/
structure Turn where
  ins : List Insn
  halt : Option Insn := none
  next : Next
deriving DecidableEq, Repr

inductive Status | running | finished | aborted | panicked
deriving DecidableEq, Repr

structure St where
  /-- kinds of `call_stack`, innermost first -/
  frames : List Kind
  stk : Stacks
  word : List Ev
deriving DecidableEq, Repr

/-- a result of kind `k` reaches its consumer: with no frame left `run_the_loop` returns and the
`last_frame_return` wrapper runs, otherwise the `insert_*_outcome` wrapper of that kind -/
def deliver (st : St) (k : Kind) (o : Nat) (insertErr : Bool) : Status × St :=
  match st.stk.pop k with
  | none => (.panicked, st)
  | some (i, stk) =>
    let st := { st with stk := stk, word := st.word ++ [Ev.cls k i o] }
    match st.frames with
    | [] => (.finished, st)
    | _ :: _ => if insertErr then (.aborted, st) else (.running, st)

/-- the `call` / `create` / `eofcreate` wrapper -/
def spawn (st : St) (s : Spawn) (insertErr : Bool) : Status × St :=
  let st := { st with stk := st.stk.push s.k s.i, word := st.word ++ [Ev.opn s.k s.i] }
  match s.insp with
  | some o => deliver st s.k o insertErr
  | none =>
    match s.h with
    | .err => (.aborted, st)
    | .result o => deliver st s.k o insertErr
    | .frame => (.running, { st with frames := s.k :: st.frames, word := st.word ++ [Ev.initInterp] })

/-- callbacks made while the top frame runs -/
def turnEvents (t : Turn) : List Ev := t.ins.flatMap insnEvents ++ haltEvents t.halt

def turn (st : St) (t : Turn) : Status × St :=
  let st := { st with word := st.word ++ turnEvents t }
  match t.next with
  | .fatal => (.aborted, st)
  | .spawn s ie => spawn st s ie
  | .ret o ie =>
    match st.frames with
    | [] => (.panicked, st)
    | k :: fs =>
      match o with
      | none => (.aborted, { st with frames := fs })
      | some o => deliver { st with frames := fs } k o ie

/-- `run_the_loop`; a script that ends while a frame is still open leaves the status `running` -/
def runTurns (st : St) : List Turn → Status × St
  | [] => (.running, st)
  | t :: ts =>
    match turn st t with
    | (.running, st') => runTurns st' ts
    | r => r

/-- one transaction on an `Evm` whose handler's stacks currently hold `stk0` -/
def runTx (stk0 : Stacks) (first : Spawn) (turns : List Turn) : Status × St :=
  match spawn { frames := [], stk := stk0, word := [] } first false with
  | (.running, st) => runTurns st turns
  | r => r

/-- number of loop iterations that were actually run (the script may be longer than the transaction) -/
def usedTurns (st : St) : List Turn → Nat
  | [] => 0
  | t :: ts =>
    match turn st t with
    | (.running, st') => usedTurns st' ts + 1
    | _ => 1

def usedTx (stk0 : Stacks) (first : Spawn) (turns : List Turn) : Nat :=
  match spawn { frames := [], stk := stk0, word := [] } first false with
  | (.running, st) => usedTurns st turns
  | _ => 0

/-- several transactions on the same `Evm`: the stacks are handed from one to the next whatever the
status; returns the words with their status -/
def runTxs (stk0 : Stacks) : List (Spawn × List Turn) → List (Status × List Ev)
  | [] => []
  | (f, ts) :: rest =>
    let r := runTx stk0 f ts
    (r.1, r.2.word) :: runTxs r.2.stk rest

end Revm.Model.InspectorHooks
