import Revm.Util.Word
/-! Code-shaped model of `instructions/arithmetic.rs`, `i256.rs`, `bitwise.rs` and `exp_cost`.
Each function follows the Rust control flow (sign extraction, `u256_remove_sign`,
`as_usize_saturated!`, SIGNEXTEND's mask), over ruint primitives from `Util.Word`. -/
namespace Revm.Model.Arith
open Revm Revm.U256

/-- `i256_sign`: -1 / 0 / 1 -/
inductive Sign | minus | zero | plus deriving DecidableEq, Repr

def i256Sign (v : Nat) : Sign := if bit v 255 then .minus else if v = 0 then .zero else .plus

/-- `i256_sign_compl`: returns sign and the magnitude -/
def i256SignCompl (v : Nat) : Sign × Nat :=
  let s := i256Sign v
  if s = .minus then (s, wneg v) else (s, v)

/-- `u256_remove_sign`: clear bit 255 -/
def removeSign (v : Nat) : Nat := v % 2^255

def MIN_NEG : Nat := 2^255

def i256Div (first second : Nat) : Nat :=
  let (ss, second) := i256SignCompl second
  if ss = .zero then 0 else
  let (fs, first) := i256SignCompl first
  if first = MIN_NEG ∧ second = 1 then wneg MIN_NEG else
  let d := removeSign (first / second)
  if (fs = .minus ∧ ss ≠ .minus) ∨ (ss = .minus ∧ fs ≠ .minus) then wneg d else d

def i256Mod (first second : Nat) : Nat :=
  let (fs, first) := i256SignCompl first
  if fs = .zero then 0 else
  let (ss, second) := i256SignCompl second
  if ss = .zero then 0 else
  let r := removeSign (first % second)
  if fs = .minus then wneg r else r

/-- `Sign` ordering as `cmp::Ordering` of the `i8` discriminants -/
def Sign.toInt : Sign → Int | .minus => -1 | .zero => 0 | .plus => 1

/-- `i256_cmp`: -1 less, 0 equal, 1 greater -/
def i256Cmp (a b : Nat) : Int :=
  let sa := i256Sign a; let sb := i256Sign b
  if sa.toInt < sb.toInt then -1 else if sa.toInt > sb.toInt then 1
  else if a < b then -1 else if a > b then 1 else 0

def b2w (b : Bool) : Nat := if b then 1 else 0

def add (a b : Nat) : Nat := wadd a b
def mul (a b : Nat) : Nat := wmul a b
def sub (a b : Nat) : Nat := wsub a b
def div (a b : Nat) : Nat := if b ≠ 0 then a / b else b
def sdiv (a b : Nat) : Nat := i256Div a b
def rem (a b : Nat) : Nat := if b ≠ 0 then a % b else b
def smod (a b : Nat) : Nat := i256Mod a b
/-- ruint `add_mod` / `mul_mod`: 0 when the modulus is 0 -/
def addmod (a b n : Nat) : Nat := if n = 0 then 0 else (a + b) % n
def mulmod (a b n : Nat) : Nat := if n = 0 then 0 else (a * b) % n
/-- ruint `wrapping_pow`: exponentiation by squaring with wrapping multiplication
(the loop runs once per bit of the exponent, at most 256 times) -/
def powLoop : Nat → Nat → Nat → Nat → Nat
  | 0, _, _, r => r
  | fuel+1, base, e, r =>
    if e = 0 then r else
    powLoop fuel (wmul base base) (e / 2) (if e % 2 = 1 then wmul r base else r)
def exp (a b : Nat) : Nat := powLoop 256 a b (1 % W)

def signextend (ext x : Nat) : Nat :=
  if ext < 31 then
    let bitIndex := 8 * ext + 7
    let b := bit x bitIndex
    let mask := wsub ((1 <<< bitIndex) % W) 1
    if b then x ||| U256.not mask else x &&& mask
  else x

def lt (a b : Nat) : Nat := b2w (a < b)
def gt (a b : Nat) : Nat := b2w (a > b)
def slt (a b : Nat) : Nat := b2w (i256Cmp a b = -1)
def sgt (a b : Nat) : Nat := b2w (i256Cmp a b = 1)
def eq (a b : Nat) : Nat := b2w (a = b)
def iszero (a : Nat) : Nat := b2w (a = 0)
def bitand (a b : Nat) : Nat := a &&& b
def bitor (a b : Nat) : Nat := a ||| b
def bitxor (a b : Nat) : Nat := a ^^^ b
def bitnot (a : Nat) : Nat := U256.not a

/-- BYTE: `op2.byte(31 - o1)` is the little-endian byte index -/
def byte (i x : Nat) : Nat :=
  let o1 := asU64Sat i
  if o1 < 32 then (x >>> (8 * (31 - o1))) % 256 else 0

def shl (s x : Nat) : Nat :=
  let sh := asU64Sat s
  if sh < 256 then (x <<< sh) % W else 0

def shr (s x : Nat) : Nat :=
  let sh := asU64Sat s
  if sh < 256 then x >>> sh else 0

/-- ruint `arithmetic_shr` for shift < 256: sign-filling right shift -/
def arithShr (x sh : Nat) : Nat :=
  if bit x 255 then (x >>> sh) ||| (W - 2^(256 - sh)) % W else x >>> sh

def sar (s x : Nat) : Nat :=
  let sh := asU64Sat s
  if sh < 256 then arithShr x sh else if bit x 255 then W - 1 else 0

/-- `value.as_limbs()[i]`: the `i`-th little-endian 64-bit limb -/
def limb (v i : Nat) : Nat := (v / 2^(64 * i)) % 2^64

/-- `u64::leading_zeros` (primitive): 64 for 0, else 63 - floor(log2 x) -/
def lz64 (x : Nat) : Nat := if x = 0 then 64 else 63 - x.log2

/-- the loop of `log2floor`: `n` = number of limbs still to scan (the Rust `i` is `n - 1`),
`l` = the running bit count; the first non-zero limb from the top decides -/
def log2floorFrom (v : Nat) : Nat → Nat → Nat
  | 0, l => l
  | n+1, l =>
    if limb v n = 0 then log2floorFrom v n (l - 64)
    else
      let l := l - lz64 (limb v n)
      if l = 0 then l else l - 1

/-- `log2floor`: limb scan from the most significant limb, 0 for 0 -/
def log2floor (v : Nat) : Nat := log2floorFrom v 4 256

/-- `exp_cost(spec, power)`; `sd` = SPURIOUS_DRAGON enabled -/
def expCost (sd : Bool) (power : Nat) : Option Nat :=
  if power = 0 then some 10 else
  let gasByte := if sd then 50 else 10
  match checkedMul gasByte (log2floor power / 8 + 1) with
  | none => none
  | some m => match checkedAdd 10 m with
    | none => none
    | some g => if g < U64 then some g else none

end Revm.Model.Arith
