import Revm.Model.Journal
/-! Code-shaped model of the **context life cycle** of `Evm` (`crates/revm/src/evm.rs`):
`transact`, `transact_preverified`, `preverify_transaction`, `transact_commit`, the private
`preverify_transaction_inner` / `transact_preverified_inner` / `run_the_loop` / `clear`, the handles
`post_execution::{output, end, clear}`, `pre_execution::{load_accounts, load_precompiles}`,
`EvmContext::set_precompiles`, `InnerEvmContext::take_error` and
`JournaledState::{new, clear, finalize, set_spec_id}`.

What every handler stage *does to the journal / database / error slot while it runs* is a parameter
(a field of `Handler`): an arbitrary function, so every program, every database and every handler
register that only replaces stage bodies is covered. What is explicit is the control flow of the
entry points: the order of the stages, every `?` exit, and where `take_error`, `set_spec_id`,
`set_precompiles`, `finalize`, `end` and `clear` are called.

A stage gets the part of the context it can change in the code (`Work`: database, journaled state,
error slot, L1 block info) and reads the environment; stages that run after `set_precompiles` also
read the loaded precompile set. Stages cannot change `env`, the handler or the precompile field
(true of the mainnet and optimism handlers: nothing in them writes `env`, `Host::env_mut` is not
used by any instruction). A Rust `?` keeps the mutations made so far and returns the error: a stage
returns `Except Err α × Work`, never only an error.

The interpreter loop has no termination argument of its own (that is C25): `run_the_loop` is
modelled with fuel, `none` = the loop did not finish within the fuel. Theorems quantify over all fuel.

`L1` is the type of `l1_block_info` (feature `optimism`); without the feature the field does not
exist: instantiate `L1 := Empty`. -/
namespace Revm.Model.EvmLifecycle
open Revm.Model.Journal

/-- `EvmState` as returned in `ResultAndState` -/
abbrev EvmState := Addr → Option Acct

def SHANGHAI : Nat := 16
def PRAGUE : Nat := 18
/-- `BLOCKHASH_STORAGE_ADDRESS` (crates/primitives/src/constants.rs) -/
def BLOCKHASH_STORAGE_ADDRESS : Addr := 0x25a219378dad9b3503c8268c9ca836a52427a4fb

/-- the `SPEC::SPEC_ID` that `spec_to_generic!` runs for a configured `SpecId` (mainnet numbering,
`SpecId as u8`): FRONTIER_THAWING → Frontier, DAO_FORK → Homestead, CONSTANTINOPLE → Petersburg,
MUIR_GLACIER → Istanbul, ARROW_GLACIER / GRAY_GLACIER → London. -/
def canon (s : Nat) : Nat :=
  if s = 1 then 0 else if s = 3 then 2 else if s = 7 then 8 else if s = 10 then 9
  else if s = 13 ∨ s = 14 then 12 else s

/-! ### JournaledState: new / set_spec_id / clear / finalize -/

/-- `HashSet::default()` -/
def noPreloaded : Addr → Bool := fun _ => false

/-- `JournaledState::set_spec_id` -/
def setSpecId (j : JState) (s : Nat) : JState := { j with spec := s }

/-- `warm_preloaded_addresses.insert(a)` -/
def preloadInsert (j : JState) (a : Addr) : JState :=
  { j with preloaded := fun x => x == a || j.preloaded x }

/-- `warm_preloaded_addresses.extend(as)` -/
def preloadExtend (j : JState) (as : List Addr) : JState :=
  { j with preloaded := fun x => as.contains x || j.preloaded x }

/-- `JournaledState::clear`: `*self = Self::new(self.spec, HashSet::default())` -/
def jclear (j : JState) : JState := JState.new j.spec noPreloaded

/-- `JournaledState::finalize`: takes `state` and `logs`, resets `transient_storage`, `journal`,
`depth`; keeps `spec` **and `warm_preloaded_addresses`**. Returns (journal, state, logs). -/
def jfinalize (j : JState) : JState × EvmState × List Nat :=
  ({ j with state := fun _ => none, transient := fun _ _ => none, logs := [], depth := 0, journal := [[]] },
   j.state, j.logs)

/-! ### Context -/

/-- `Context.evm` (`EvmContext` = `InnerEvmContext` + `precompiles`). `error = none` is `Ok(())`. -/
structure Ctx (Db Env Err Pre L1 : Type) where
  db : Db
  env : Env
  js : JState
  error : Option Err
  precompiles : Pre
  l1 : Option L1

/-- what a handler stage may change -/
structure Work (Db Err L1 : Type) where
  db : Db
  js : JState
  error : Option Err
  l1 : Option L1

variable {Db Env Err Pre L1 G LS Act FR ER : Type}

def Ctx.work (c : Ctx Db Env Err Pre L1) : Work Db Err L1 :=
  { db := c.db, js := c.js, error := c.error, l1 := c.l1 }

def Ctx.withWork (c : Ctx Db Env Err Pre L1) (w : Work Db Err L1) : Ctx Db Env Err Pre L1 :=
  { c with db := w.db, js := w.js, error := w.error, l1 := w.l1 }

/-- `Context::new_with_db(db)` + env, then `Evm::new` (`journaled_state.set_spec_id(handler.cfg.spec_id)`);
`pre0` is `ContextPrecompiles::default()` -/
def Ctx.build (db : Db) (env : Env) (spec : Nat) (pre0 : Pre) : Ctx Db Env Err Pre L1 :=
  { db := db, env := env, js := setSpecId (JState.new 255 noPreloaded) spec, error := none,
    precompiles := pre0, l1 := none }

/-- `InnerEvmContext::take_error`: `mem::replace(&mut self.error, Ok(()))` -/
def takeError (w : Work Db Err L1) : Option Err × Work Db Err L1 := (w.error, { w with error := none })

/-- a fallible handler stage `fn(&mut Context) -> Result<α, EVMError>` -/
abbrev Stage (Db Env Err L1 : Type) (α : Type) := Env → Work Db Err L1 → Except Err α × Work Db Err L1

/-- The handler: `cfg.spec_id` and the bodies of the stages (arbitrary). -/
structure Handler (Db Env Err Pre L1 G LS Act FR ER : Type) where
  /-- `handler.cfg.spec_id` (as configured, not canonicalised) -/
  spec : Nat
  /-- `validation.env`: `fn(&Env)` -/
  validateEnv : Env → Except Err Unit
  /-- `validation.initial_tx_gas`: `fn(&Env) -> Result<InitialAndFloorGas>` -/
  initialTxGas : Env → Except Err G
  /-- `validation.tx_against_state` -/
  txAgainstState : Stage Db Env Err L1 Unit
  /-- `env.block.coinbase` -/
  coinbase : Env → Addr
  /-- the body of `load_access_list` (`initial_account_load` per item; `?` on a database error) -/
  loadAccessList : Stage Db Env Err L1 Unit
  /-- `pre_execution.load_precompiles()` -/
  loadPrecompiles : Pre
  /-- `ContextPrecompiles::addresses_set` -/
  precompileAddrs : Pre → List Addr
  deductCaller : Pre → Stage Db Env Err L1 Unit
  /-- `apply_eip7702_auth_list`: returns the refund -/
  applyAuthList : Pre → Stage Db Env Err L1 Nat
  /-- `execution.call / create / eofcreate` for the first frame (chosen from `env.tx`) with
  `gas_limit - initial_gas`: a frame to run (`inl`, as the loop's state) or an immediate result -/
  firstFrame : Pre → G → Stage Db Env Err L1 (LS ⊕ FR)
  /-- `execution.execute_frame` on the top frame: runs the interpreter (every host call), may set the
  error slot -/
  executeFrame : Pre → LS → Stage Db Env Err L1 Act
  /-- the rest of one loop iteration: `call / create / eofcreate` or `*_return`, then
  `insert_*_outcome` into the parent (each with `?`): the new loop state or the last frame's result -/
  frameAction : Pre → LS → Act → Stage Db Env Err L1 (LS ⊕ FR)
  lastFrameReturn : Pre → FR → Stage Db Env Err L1 FR
  /-- `post_execution.refund` (does not touch the context) followed by the EIP-7623 floor adjustment
  made by `transact_preverified_inner` on the result's `Gas` -/
  refund : Env → G → Nat → FR → FR
  reimburseCaller : Pre → FR → Stage Db Env Err L1 Unit
  /-- `post_execution.reward_beneficiary` (identity when disabled) -/
  rewardBeneficiary : Pre → FR → Stage Db Env Err L1 Unit
  /-- the part of `post_execution.output` after `finalize`: builds `ResultAndState` from the frame
  result, the taken state and logs (optimism: an error for a halted deposit) -/
  mkResult : Env → FR → EvmState → List Nat → Except Err (ER × EvmState)
  /-- `post_execution.end` (mainnet: identity; optimism: failed deposits, reads the database) -/
  endHook : Except Err (ER × EvmState) → Stage Db Env Err L1 (ER × EvmState)

abbrev Out (ER : Type) := ER × EvmState

section
variable (h : Handler Db Env Err Pre L1 G LS Act FR ER)

/-- `post_execution.clear` (mainnet: `take_error`, `journaled_state.clear()`; optimism additionally
`l1_block_info = None`) -/
def clear (c : Ctx Db Env Err Pre L1) : Ctx Db Env Err Pre L1 :=
  { c with error := none, js := jclear c.js, l1 := none }

/-- `preverify_transaction_inner` on the changeable part -/
def preverifyInnerW (env : Env) (w : Work Db Err L1) : Except Err G × Work Db Err L1 :=
  match h.validateEnv env with
  | .error e => (.error e, w)
  | .ok _ =>
    match h.initialTxGas env with
    | .error e => (.error e, w)
    | .ok g =>
      match h.txAgainstState env w with
      | (.error e, w) => (.error e, w)
      | (.ok _, w) => (.ok g, w)

def preverifyInner (c : Ctx Db Env Err Pre L1) : Except Err G × Ctx Db Env Err Pre L1 :=
  let r := preverifyInnerW h c.env c.work
  (r.1, c.withWork r.2)

/-- `pre_execution::load_accounts`: `set_spec_id(SPEC::SPEC_ID)`, warm coinbase from Shanghai, warm
the history contract from Prague, `load_access_list()?` -/
def loadAccountsW (env : Env) (w : Work Db Err L1) : Except Err Unit × Work Db Err L1 :=
  let js := setSpecId w.js (canon h.spec)
  let js := if canon h.spec ≥ SHANGHAI then preloadInsert js (h.coinbase env) else js
  let js := if canon h.spec ≥ PRAGUE then preloadInsert js BLOCKHASH_STORAGE_ADDRESS else js
  h.loadAccessList env { w with js := js }

/-- `EvmContext::set_precompiles` -/
def setPrecompiles (c : Ctx Db Env Err Pre L1) : Ctx Db Env Err Pre L1 :=
  { c with js := preloadExtend c.js (h.precompileAddrs h.loadPrecompiles), precompiles := h.loadPrecompiles }

/-- `run_the_loop` -/
def runLoop (pre : Pre) (env : Env) : Nat → LS → Work Db Err L1 → Option (Except Err FR × Work Db Err L1)
  | 0, _, _ => none
  | n + 1, ls, w =>
    match h.executeFrame pre ls env w with
    | (.error e, w) => some (.error e, w)
    | (.ok act, w) =>
      -- `self.context.evm.take_error()?`
      match takeError w with
      | (some e, w) => some (.error e, w)
      | (none, w) =>
        match h.frameAction pre ls act env w with
        | (.error e, w) => some (.error e, w)
        | (.ok (.inl ls'), w) => runLoop pre env n ls' w
        | (.ok (.inr r), w) => some (.ok r, w)

/-- `post_execution::output`: `take_error()?`, `finalize`, build the result -/
def outputW (env : Env) (fr : FR) (w : Work Db Err L1) : Except Err (Out ER) × Work Db Err L1 :=
  match takeError w with
  | (some e, w) => (.error e, w)
  | (none, w) =>
    let f := jfinalize w.js
    (h.mkResult env fr f.2.1 f.2.2, { w with js := f.1 })

/-- `transact_preverified_inner` after `set_precompiles` -/
def innerRestW (fuel : Nat) (g : G) (pre : Pre) (env : Env) (w : Work Db Err L1) :
    Option (Except Err (Out ER) × Work Db Err L1) :=
  match h.deductCaller pre env w with
  | (.error e, w) => some (.error e, w)
  | (.ok _, w) =>
  match h.applyAuthList pre env w with
  | (.error e, w) => some (.error e, w)
  | (.ok refund7702, w) =>
  match h.firstFrame pre g env w with
  | (.error e, w) => some (.error e, w)
  | (.ok first, w) =>
  match (match first with
         | .inl ls => runLoop h pre env fuel ls w
         | .inr r => some (.ok r, w)) with
  | none => none
  | some (.error e, w) => some (.error e, w)
  | some (.ok fr, w) =>
  match h.lastFrameReturn pre fr env w with
  | (.error e, w) => some (.error e, w)
  | (.ok fr, w) =>
  let fr := h.refund env g refund7702 fr
  match h.reimburseCaller pre fr env w with
  | (.error e, w) => some (.error e, w)
  | (.ok _, w) =>
  match h.rewardBeneficiary pre fr env w with
  | (.error e, w) => some (.error e, w)
  | (.ok _, w) => some (outputW h env fr w)

/-- `transact_preverified_inner` -/
def inner (fuel : Nat) (g : G) (c : Ctx Db Env Err Pre L1) :
    Option (Except Err (Out ER) × Ctx Db Env Err Pre L1) :=
  match loadAccountsW h c.env c.work with
  | (.error e, w) => some (.error e, c.withWork w)
  | (.ok _, w) =>
    let c := setPrecompiles h (c.withWork w)
    match innerRestW h fuel g c.precompiles c.env c.work with
    | none => none
    | some (r, w) => some (r, c.withWork w)

/-- the common tail of `transact` and `transact_preverified`:
`inner`, then `post_execution().end(ctx, output)`, then `clear` -/
def finish (fuel : Nat) (g : G) (c : Ctx Db Env Err Pre L1) :
    Option (Except Err (Out ER) × Ctx Db Env Err Pre L1) :=
  match inner h fuel g c with
  | none => none
  | some (out, c) =>
    let r := h.endHook out c.env c.work
    some (r.1, clear (c.withWork r.2))

/-- `Evm::transact` (since 25ebe790: the output of validation OR of the inner run goes through `end`) -/
def transact (fuel : Nat) (c : Ctx Db Env Err Pre L1) : Option (Except Err (Out ER) × Ctx Db Env Err Pre L1) :=
  match preverifyInner h c with
  | (.error e, c) =>
    -- a validation error is passed through `post_execution().end(ctx, Err(e))`, then `clear`
    let r := h.endHook (.error e) c.env c.work
    some (r.1, clear (c.withWork r.2))
  | (.ok g, c) => finish h fuel g c

/-- `Evm::transact_preverified` -/
def transactPreverified (fuel : Nat) (c : Ctx Db Env Err Pre L1) :
    Option (Except Err (Out ER) × Ctx Db Env Err Pre L1) :=
  match h.initialTxGas c.env with
  | .error e => some (.error e, clear c)
  | .ok g => finish h fuel g c

/-- `Evm::preverify_transaction` -/
def preverifyTransaction (c : Ctx Db Env Err Pre L1) : Except Err Unit × Ctx Db Env Err Pre L1 :=
  let r := preverifyInner h c
  (r.1.map (fun _ => ()), clear r.2)

/-- `Evm::transact_commit`; `commit` is `DatabaseCommit::commit` -/
def transactCommit (commit : Db → EvmState → Db) (fuel : Nat) (c : Ctx Db Env Err Pre L1) :
    Option (Except Err ER × Ctx Db Env Err Pre L1) :=
  match transact h fuel c with
  | none => none
  | some (.error e, c) => some (.error e, c)
  | some (.ok (res, st), c) => some (.ok res, { c with db := commit c.db st })

end

/-! ### Histories -/

inductive EntryPoint | transact | transactCommit | transactPreverified | preverify
deriving DecidableEq, Repr

/-- what one entry-point call returns -/
inductive CallResult (Err ER : Type)
  | tx (r : Except Err (Out ER))
  | commit (r : Except Err ER)
  | pre (r : Except Err Unit)

def call (h : Handler Db Env Err Pre L1 G LS Act FR ER) (commit : Db → EvmState → Db) (e : EntryPoint) (fuel : Nat)
    (c : Ctx Db Env Err Pre L1) : Option (CallResult Err ER × Ctx Db Env Err Pre L1) :=
  match e with
  | .transact => (transact h fuel c).map (fun p => (.tx p.1, p.2))
  | .transactPreverified => (transactPreverified h fuel c).map (fun p => (.tx p.1, p.2))
  | .transactCommit => (transactCommit h commit fuel c).map (fun p => (.commit p.1, p.2))
  | .preverify => let p := preverifyTransaction h c; some (.pre p.1, p.2)

/-- One step of a history on an `Evm`: the user installs an environment (`tx_mut()`, `block_mut()`,
`cfg_mut()`, `modify()...`), possibly reconfigures the handler (any handler: another spec through
`modify_spec_id` = handler only, or through the builder, `rebuilt` = `Evm::new` runs again and copies
`cfg.spec_id` into the journal), and calls an entry point. -/
structure Op (Db Env Err Pre L1 G LS Act FR ER : Type) where
  h : Handler Db Env Err Pre L1 G LS Act FR ER
  rebuilt : Bool
  env : Env
  entry : EntryPoint
  fuel : Nat

/-- the context an entry point starts from on a reused instance -/
def prepare (op : Op Db Env Err Pre L1 G LS Act FR ER) (c : Ctx Db Env Err Pre L1) : Ctx Db Env Err Pre L1 :=
  let c := { c with env := op.env }
  if op.rebuilt then { c with js := setSpecId c.js op.h.spec } else c

/-- a history on ONE instance: results of the calls and the final context -/
def runOne (commit : Db → EvmState → Db) :
    List (Op Db Env Err Pre L1 G LS Act FR ER) → Ctx Db Env Err Pre L1 →
    Option (List (CallResult Err ER) × Ctx Db Env Err Pre L1)
  | [], c => some ([], c)
  | op :: ops, c =>
    match call op.h commit op.entry op.fuel (prepare op c) with
    | none => none
    | some (r, c) =>
      match runOne commit ops c with
      | none => none
      | some (rs, c) => some (r :: rs, c)

/-- the same history where every call runs on a freshly built `Evm` over the database left by the
previous one -/
def runFresh (commit : Db → EvmState → Db) (pre0 : Pre) :
    List (Op Db Env Err Pre L1 G LS Act FR ER) → Db → Option (List (CallResult Err ER) × Db)
  | [], db => some ([], db)
  | op :: ops, db =>
    match call op.h commit op.entry op.fuel (Ctx.build db op.env op.h.spec pre0) with
    | none => none
    | some (r, c) =>
      match runFresh commit pre0 ops c.db with
      | none => none
      | some (rs, db) => some (r :: rs, db)

/-! ### The mainnet body of `validation.tx_against_state` over the journal model -/

/-- `mainnet::validate_tx_against_state`: `journaled_state.load_code(caller, db)?` followed by
`Env::validate_tx_against_state(&mut account)` (pure in the environment and the loaded account; it may
raise the balance when the balance check is disabled). `dbErr` says whether the database read for
the caller fails (then nothing has been inserted), `view` is the database as the journal model sees
it. `none` of the journal model is a Rust panic (`panicErr`). -/
def mainnetTxAgainstState (caller : Env → Addr) (view : Db → Revm.Model.Journal.Db)
    (dbErr : Db → Addr → Option Err) (check : Env → Acct → Except Err Unit × Acct) (panicErr : Err) :
    Stage Db Env Err L1 Unit :=
  fun env w =>
    match dbErr w.db (caller env) with
    | some e => (.error e, w)
    | none =>
      match loadCode (view w.db) w.js (caller env) with
      | none => (.error panicErr, w)
      | some (js, _) =>
        match js.state (caller env) with
        | none => (.error panicErr, w)
        | some acc =>
          let r := check env acc
          (r.1, { w with js := setAcct js (caller env) r.2 })

/-! ### A scripted handler

A concrete handler whose stages dirty the journal the way the real ones do (load accounts, touch, open
checkpoints, write transient storage, emit logs, set the error slot) and fail where a script says.
It is what the correspondence driver runs against the real `Evm` (the real stage where a call ended
is observed by the harness and handed over as the script), and the witness of the `example`s and
`_counterexample`s of `Props/C31.lean`. -/
namespace Script

structure SEnv where
  coinbase : Addr
  caller : Addr
  target : Addr
  /-- the stage at which the call ends: env | gas | state | acl | deduct | auth | frame0 | exec |
  action | reward | ok -/
  stage : String
  kind : String
deriving DecidableEq, Repr

abbrev SWork := Work Nat String Empty

/-- `Precompiles::new(PrecompileSpecId::from_spec_id(spec))`, mainnet build -/
def precompilesOf (spec : Nat) : List Addr :=
  if spec ≤ 5 then [1, 2, 3, 4]
  else if spec ≤ 8 then [1, 2, 3, 4, 5, 6, 7, 8]
  else if spec ≤ 16 then [1, 2, 3, 4, 5, 6, 7, 8, 9]
  else if spec = 17 then [1, 2, 3, 4, 5, 6, 7, 8, 9, 10]
  else [1, 2, 3, 4, 5, 6, 7, 8, 9, 10, 11, 12, 13, 14, 15, 16, 17]

def loadAcct (w : SWork) (a : Addr) : SWork :=
  match w.js.state a with
  | some _ => w
  | none => { w with js := setAcct w.js a (Acct.ofInfo Info.default) }

def touchAcct (w : SWork) (a : Addr) : SWork :=
  let w := loadAcct w a
  match touch w.js a with
  | some j => { w with js := j }
  | none => w

def failIf (env : SEnv) (stage : String) (w : SWork) : Except String Unit × SWork :=
  if env.stage = stage then (.error env.kind, w) else (.ok (), w)

def handler (spec : Nat) : Handler Nat SEnv String (List Addr) Empty Nat Nat Nat Nat String where
  spec := spec
  validateEnv := fun env => if env.stage = "env" then .error env.kind else .ok ()
  initialTxGas := fun env => if env.stage = "gas" then .error env.kind else .ok 21000
  txAgainstState := fun env w =>
    -- a database error happens before the caller is inserted into the state
    if env.stage = "state" ∧ env.kind = "db" then (.error env.kind, w)
    else failIf env "state" (loadAcct w env.caller)
  coinbase := fun env => env.coinbase
  loadAccessList := fun env w => failIf env "acl" (loadAcct w 0xa1)
  loadPrecompiles := precompilesOf spec
  precompileAddrs := fun p => p
  deductCaller := fun _ env w =>
    if env.stage = "deduct" then (.error env.kind, w) else (.ok (), touchAcct w env.caller)
  applyAuthList := fun _ env w => if env.stage = "auth" then (.error env.kind, w) else (.ok 0, w)
  firstFrame := fun _ _ env w =>
    if env.stage = "frame0" then (.error env.kind, w)
    else
      let (j, _) := checkpoint w.js
      (.ok (.inl 2), touchAcct { w with js := j } env.target)
  executeFrame := fun _ _ env w =>
    let j := log (setTransient w.js env.target 1 (some 7)) 1
    let w := { w with js := j }
    -- a failing database read inside a host call: the error goes to the slot, the frame returns
    if env.stage = "exec" then (.ok 1, { w with error := some env.kind }) else (.ok 0, w)
  frameAction := fun _ ls _ env w =>
    if env.stage = "action" then (.error env.kind, w)
    else if ls > 1 then (.ok (.inl (ls - 1)), { w with js := (checkpoint w.js).1 })
    else (.ok (.inr 0), { w with js := commit w.js })
  lastFrameReturn := fun _ fr _ w => (.ok fr, w)
  refund := fun _ _ _ fr => fr
  reimburseCaller := fun _ _ env w => (.ok (), loadAcct w env.caller)
  rewardBeneficiary := fun _ _ env w =>
    if env.stage = "reward" then (.error env.kind, w) else (.ok (), touchAcct w env.coinbase)
  mkResult := fun env _ st _ => .ok (env.kind, st)
  endHook := fun out _ w => (out, w)

def commitDb (db : Nat) (_ : EvmState) : Nat := db + 1

end Script

end Revm.Model.EvmLifecycle
