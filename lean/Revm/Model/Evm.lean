import Revm.Model.EvmHost
import Revm.Model.EvmFrame
import Revm.Model.EvmLoop
import Revm.Model.EvmTx
/-! `Revm.Model.Evm.transact : fuel → World → Env → spec → R (Outcome × World)` — the executable, code-shaped model of
`Evm::transact` for legacy (non-EOF) code, Frontier … Prague, assembled from the component models:

* `EvmHost`  the world around `Model.Journal` (code store, logs, key lists) and the `Host` answers of `Context`
* `EvmFrame` `make_call_frame`, `make_create_frame`, precompiles, `call_return`, `create_return`
* `EvmLoop`  `run_the_loop` over `Model.Interp.step`, fuel-indexed
* `EvmTx`    validation, `load_accounts`, `deduct_caller`, EIP-7702 list, first frame, refund, floor, payments, output -/
