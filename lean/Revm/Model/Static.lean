import Revm.Util.Word
import Revm.Model.Journal
import Revm.Spec.JournalAbs
/-! C10 — model of the static-call guard.

Part 1 (opcode level) mirrors, check by check and in the Rust order, the static-mode prefix of the
handlers in `crates/interpreter/src/instructions/{host.rs, contract.rs}`:

* `sstore`, `log<N>`, `selfdestruct`, `create<IS_CREATE2>`: `require_non_staticcall!` is the FIRST statement
  (before `check!(PETERSBURG)` of CREATE2, before any `pop!`, before any gas);
* `tstore`: `check!(CANCUN)` then `require_non_staticcall!`, then gas and pops;
* `eofcreate`: `require_eof!` then `require_non_staticcall!`;
* `call`: three pops (gas, to, value; each can underflow) and THEN `is_static && value != 0`
  → `CallNotAllowedInsideStatic`; `call_code` has no guard (its transfer is caller = target);
* `extcall`: `require_eof!`, target pop + 12-zero-bytes check, input range pops + memory expansion,
  value pop, THEN the guard;
* every call handler copies `is_static: interpreter.is_static` into `CallInputs`, except
  `static_call` / `extstaticcall` which write `true`; `make_call_frame` builds the child interpreter with
  `Interpreter::new(contract, gas, inputs.is_static)`.

Part 2 (frame level) is stated on the journal model (`Model.Journal`, `Spec.JournalAbs`): the operations a
frame can still perform on the journaled state once the guard has removed the mutating ones, and the
`world` view of a journaled state (no warm/cold, no touch marks). -/
namespace Revm.Model.Static
open Revm

/-! ## Part 1: opcode level -/

def HOMESTEAD : Nat := 2
def TANGERINE : Nat := 4
def BYZANTIUM : Nat := 6
def CONSTANTINOPLE : Nat := 7
def PETERSBURG : Nat := 8
def CANCUN : Nat := 17
def OSAKA : Nat := 19

/-- `spec_to_generic!`: the SpecIds without a marker type run as their neighbour -/
def canon (spec : Nat) : Nat :=
  if spec = 1 then 0 else if spec = 3 then 2 else if spec = 7 then 8 else if spec = 10 then 9
  else if spec = 13 ∨ spec = 14 then 12 else spec

/-- `SPEC::enabled(fork)` as seen through the public entry points -/
def enabled (spec fork : Nat) : Bool := canon spec ≥ fork

inductive Scheme
  | call | callCode | delegateCall | staticCall | extCall | extDelegateCall | extStaticCall
deriving DecidableEq, Repr

/-- `CallInputs.is_static` written by the seven call handlers -/
def childIsStatic (s : Scheme) (parent : Bool) : Bool :=
  match s with
  | .staticCall | .extStaticCall => true
  | _ => parent

def Scheme.name : Scheme → String
  | .call => "Call" | .callCode => "CallCode" | .delegateCall => "DelegateCall" | .staticCall => "StaticCall"
  | .extCall => "ExtCall" | .extDelegateCall => "ExtDelegateCall" | .extStaticCall => "ExtStaticCall"

/-- the call opcode of a scheme -/
def schemeOfOp (op : Nat) : Option Scheme :=
  if op = 0xf1 then some .call else if op = 0xf2 then some .callCode else if op = 0xf4 then some .delegateCall
  else if op = 0xfa then some .staticCall else if op = 0xf8 then some .extCall
  else if op = 0xf9 then some .extDelegateCall else if op = 0xfb then some .extStaticCall else none

/-- opcodes whose handler calls a mutating `Host` method: SSTORE, TSTORE, LOG0..LOG4, SELFDESTRUCT -/
def isMutatingHostOp (op : Nat) : Bool := op = 0x55 ∨ op = 0x5d ∨ (0xa0 ≤ op ∧ op ≤ 0xa4) ∨ op = 0xff
/-- CREATE, CREATE2, EOFCREATE -/
def isCreateOp (op : Nat) : Bool := op = 0xf0 ∨ op = 0xf5 ∨ op = 0xec
/-- the calls whose value moves between two accounts: CALL, EXTCALL (CALLCODE transfers caller → caller) -/
def isValueCallOp (op : Nat) : Bool := op = 0xf1 ∨ op = 0xf8
/-- opcodes guarded by `require_non_staticcall!` -/
def guarded (op : Nat) : Bool := isMutatingHostOp op || isCreateOp op

inductive Res
  | stateChange | callNotAllowed | notActivated | opcodeNotFound | eofDisabledInLegacy
  | stackUnderflow | invalidExtcallTarget | callOrCreate | fail
deriving DecidableEq, Repr

def Res.name : Res → String
  | .stateChange => "StateChangeDuringStaticCall" | .callNotAllowed => "CallNotAllowedInsideStatic"
  | .notActivated => "NotActivated" | .opcodeNotFound => "OpcodeNotFound"
  | .eofDisabledInLegacy => "EOFOpcodeDisabledInLegacy" | .stackUnderflow => "StackUnderflow"
  | .invalidExtcallTarget => "InvalidEXTCALLTarget" | .callOrCreate => "CallOrCreate" | .fail => "fail"

/-- result of a guarded opcode (`guarded op`) executed in static mode: what precedes the guard, then the guard -/
def guardResult (spec : Nat) (eof : Bool) (op : Nat) : Res :=
  if op = 0x5d then (if enabled spec CANCUN then .stateChange else .notActivated)
  else if op = 0xec then (if eof then .stateChange else .eofDisabledInLegacy)
  else .stateChange

structure Act where
  scheme : Scheme
  childStatic : Bool
  valueZero : Bool
deriving DecidableEq, Repr

structure StepOut where
  res : Res
  act : Option Act := none
deriving DecidableEq, Repr

/-- `memory_gas(num_words(n))` for the small sizes of the modelled domain -/
def memCost (n : Nat) : Nat := let w := (n + 31) / 32; 3 * w + w * w / 512

/-- a call that passed every check with ample gas: the action handed to the frame machine -/
def emit (s : Scheme) (valueZero : Bool) : StepOut :=
  { res := .callOrCreate, act := some { scheme := s, childStatic := childIsStatic s true, valueZero := valueZero } }

/-- One instruction of the guarded / call family in an interpreter with `is_static = true`.
`stack` is top-first, `gas` the remaining gas. `none`: outside the modelled domain (what follows a *passed*
guard is modelled only for ample gas and small operands; `Driver.Static` refuses those requests on both sides). -/
def stepStatic (spec : Nat) (eof : Bool) (op gas : Nat) (stack : List Nat) : Option StepOut :=
  if guarded op then some { res := guardResult spec eof op }
  else if op = 0xf1 then
    match stack with
    | _gas :: _to :: value :: rest =>
      if value ≠ 0 then some { res := .callNotAllowed }
      else if rest.length ≥ 4 then some (emit .call true) else some { res := .stackUnderflow }
    | _ => some { res := .stackUnderflow }
  else if op = 0xf2 then
    match stack with
    | _gas :: _to :: value :: rest =>
      if rest.length ≥ 4 then some (emit .callCode (value = 0)) else some { res := .stackUnderflow }
    | _ => some { res := .stackUnderflow }
  else if op = 0xf4 then
    if !enabled spec HOMESTEAD then some { res := .notActivated }
    else if stack.length ≥ 6 then some (emit .delegateCall true) else some { res := .stackUnderflow }
  else if op = 0xfa then
    if !enabled spec BYZANTIUM then some { res := .notActivated }
    else if stack.length ≥ 6 then some (emit .staticCall true) else some { res := .stackUnderflow }
  else if op = 0xf8 ∨ op = 0xf9 ∨ op = 0xfb then
    if !eof then some { res := .eofDisabledInLegacy } else
    match stack with
    | [] => some { res := .stackUnderflow }
    | target :: rest =>
      if target ≥ 2 ^ 160 then some { res := .invalidExtcallTarget } else
      match rest with
      | off :: len :: rest2 =>
        -- `resize_memory(offset, len)` on the empty memory of a fresh frame
        if len ≠ 0 ∧ gas < memCost (off + len) then some { res := .fail } else
        if op = 0xf8 then
          match rest2 with
          | [] => some { res := .stackUnderflow }
          | value :: _ => if value ≠ 0 then some { res := .callNotAllowed } else some (emit .extCall true)
        else if op = 0xf9 then some (emit .extDelegateCall true)
        else some (emit .extStaticCall true)
      | _ => some { res := .stackUnderflow }
  else none

/-- no branch of `stepStatic` performs a host mutation; the only actions it emits are calls -/
def StepOut.mutatingAction (o : StepOut) : Bool :=
  match o.act with
  | some a => (!a.valueZero && (a.scheme = .call || a.scheme = .extCall)) || !a.childStatic
  | none => false

/-! ## Part 2: frame level (on the journal model) -/

open Revm.Model.Journal Revm.Spec.JournalAbs

/-- what the property calls "world state" of one account: everything `absAcct` observes except the
warm/cold status (account and slots) and the touch mark (DESIGN section 8) -/
structure WAcct where
  balance : Nat
  nonce : Nat
  codeHash : Nat
  created : Bool
  selfdestructed : Bool
  notExisting : Bool
deriving DecidableEq, Repr

def worldAcct (db : Db) (s : JState) (a : Addr) : WAcct :=
  let x := absAcct db s a
  { balance := x.balance, nonce := x.nonce, codeHash := x.codeHash, created := x.created,
    selfdestructed := x.selfdestructed, notExisting := x.notExisting }

/-- original and present value of a slot -/
def worldSlot (db : Db) (s : JState) (a : Addr) (k : Nat) : Nat × Nat :=
  let x := (absAcct db s a).slot k
  (x.orig, x.present)

/-- equality of the world state of two journaled states over the same database: accounts (balance, nonce,
code hash, created / selfdestructed / not-existing flags), storage (original and present value of every
slot), transient storage, logs -/
def WorldEq (db : Db) (s t : JState) : Prop :=
  (∀ a, worldAcct db s a = worldAcct db t a) ∧ (∀ a k, worldSlot db s a k = worldSlot db t a k) ∧
  (∀ a k, tload s a k = tload t a k) ∧ s.logs = t.logs

/-- The journal operations a frame running in static mode (or a frame nested in it) can cause. By the guard
(Part 1) SSTORE, TSTORE, LOG, SELFDESTRUCT, CREATE*, and value-CALLs never reach the host; by
`childIsStatic` every nested frame is static again. What remains:
* instruction level: `load_account` (BALANCE, EXTCODE*), `load_code`, `load_account_delegated` (call gas),
  `sload`, `tload`;
* `make_call_frame` of a nested call: `load_account_delegated`, `checkpoint`, then for `Transfer(0)` a load and a
  `touch` of the target, for CALLCODE with value a `transfer` with caller = target, nothing for `Apparent`;
  `load_code`; precompiles do not use the journal;
* `call_return`: `checkpoint_commit` or `checkpoint_revert` of a checkpoint taken inside the static frame
  (`base` = number of checkpoints handed out before the static frame started). -/
def allowed (base : Nat) : Op → Bool
  | .load _ | .loadCode _ | .loadDelegated _ | .sload _ _ | .tload _ _ | .touch _ => true
  | .transfer src dst v => decide (v < W) && (decide (src = dst) || decide (v = 0))
  | .checkpoint | .commit => true
  | .revert i => decide (base ≤ i)
  | _ => false

def allowedAll (base : Nat) (ops : List Op) : Bool := ops.all (allowed base)

/-- The journal operations `make_call_frame` performs for a call action emitted by the frame running as `self`
towards `to`, before the child interpreter starts (`CallInputs` as built by the handlers: CALL / EXTCALL
transfer `self → to`, CALLCODE `self → self`, STATICCALL / EXTSTATICCALL carry `Transfer(0)`, the delegate calls
an apparent value): `load_account_delegated`, `checkpoint`, the touch or transfer, `load_code`. -/
def callFrameOps (s : Scheme) (self to : Addr) (value : Nat) : List Op :=
  let xfer (target : Addr) : List Op :=
    if value = 0 then [.load target, .touch target] else [.transfer self target value]
  [.loadDelegated to, .checkpoint] ++
  (match s with
   | .call | .extCall => xfer to
   | .callCode => xfer self
   | .staticCall | .extStaticCall => [.load to, .touch to]
   | .delegateCall | .extDelegateCall => []) ++
  [.loadCode to]

/-- The `Host` calls of the state-reading opcodes that carry no guard, as journal operations of the frame
running as `self` with stack argument `arg` (`EvmContext as Host`: `balance` → `load_account`; `code`,
`code_hash` → `load_code`; `sload`; `tload`; `block_hash` does not use the journal). -/
def readOps (op : Nat) (self : Addr) (arg : Nat) : List Op :=
  if op = 0x31 then [.load arg]
  else if op = 0x47 then [.load self]
  else if op = 0x3b ∨ op = 0x3c ∨ op = 0x3f then [.loadCode arg]
  else if op = 0x54 then [.sload self arg]
  else if op = 0x5c then [.tload self arg]
  else []

/-- every balance the journaled state or the database shows is a 256-bit word -/
def BalOk (db : Db) (s : JState) : Prop := ∀ a, (worldAcct db s a).balance < W

end Revm.Model.Static
