import Revm.Util.Word
import Revm.Model.Gas
/-! Model of the Optimism fee code (feature `optimism`), function by function:

* `crates/revm/src/optimism/fast_lz.rs` — `flz_compress_len` (the loop is transcribed with fuel),
* `crates/revm/src/optimism/l1block.rs` — `L1BlockInfo::{try_fetch, data_gas, tx_estimated_size_fjord,
  calculate_tx_l1_cost (+ bedrock / ecotone / fjord), operator_fee_charge, operator_fee_refund}`
  (the refund is the REPAIRED one of commit 2dbb8f15; the former formula is kept as
  `operatorFeeRefundOld` for the regression theorem),
* `crates/revm/src/optimism/handler_register.rs` — `validate_env`, `validate_tx_against_state`,
  `deduct_caller`, `last_frame_return`, `refund`, `reimburse_caller`, `reward_beneficiary`, `output`, `end`,
  composed as in `Evm::transact` (`evm.rs`), with `mainnet::{deduct_caller_inner, reimburse_caller,
  reward_beneficiary, output}` and the EIP-7623 floor step of `transact_preverified_inner`.

Words are `Nat` (< `W`), `u64` values `Nat` (< `U64`); every `saturating_*`, wrapping operator (`+=`, `*`,
`.mul`) and `checked_*` of the Rust is the corresponding explicit operation. `expect` on a missing operator
fee parameter is the outcome `panic`. Execution of the first frame is a parameter (`Frame`: result class,
gas left, raw refund counter); `execSimple` is the balance effect of the frames the harness runs (value
transfer of a successful call / create, nonce bump of a create). -/
namespace Revm.Model.OpFees
open Revm Revm.U256 Revm.Model.Gas

/-! ### SpecId (optimism build: `#[repr(u8)]`, `enabled(our, other) = our as u8 >= other as u8`) -/
def LONDON : Nat := 12
def MERGE : Nat := 15
def BEDROCK : Nat := 16
def REGOLITH : Nat := 17
def SHANGHAI : Nat := 18
def CANYON : Nat := 19
def CANCUN : Nat := 20
def ECOTONE : Nat := 21
def FJORD : Nat := 22
def GRANITE : Nat := 23
def HOLOCENE : Nat := 24
def PRAGUE : Nat := 25
def OSAKA : Nat := 26
def ISTHMUS : Nat := 27
def LATEST : Nat := 255
def enabled (our other : Nat) : Bool := decide (other ≤ our)

/-- ruint `wrapping_div` / `/` by a non-zero constant -/
def wdiv (a b : Nat) : Nat := a / b

/-! ### `fast_lz.rs` -/

def byteAt (input : Array Nat) (i : Nat) : Nat := input.getD i 0

/-- `u24`: three bytes little endian -/
def u24 (input : Array Nat) (idx : Nat) : Nat :=
  byteAt input idx + byteAt input (idx + 1) * 256 + byteAt input (idx + 2) * 65536

/-- `hash`: `((v as u64 * 2654435769) >> 19) as u16 & 0x1fff` -/
def flzHash (v : Nat) : Nat := ((v * 2654435769) % U64 / 524288) % 65536 % 8192

/-- `literals` -/
def literals (r size : Nat) : Nat :=
  let size := size + 0x21 * (r / 0x20)
  let r := r % 0x20
  if r ≠ 0 then size + r + 1 else size

/-- the `while l < r` loop of `cmp` -/
def cmpLoop (input : Array Nat) (p q : Nat) : Nat → Nat → Nat → Nat
  | 0, l, _ => l
  | fuel + 1, l, r =>
    if l < r then
      cmpLoop input p q fuel (l + 1) (if byteAt input (p + l) ≠ byteAt input (q + l) then 0 else r)
    else l

/-- `cmp(input, p, q, r)` -/
def flzCmp (input : Array Nat) (p q r : Nat) : Nat := cmpLoop input p q (r - q + 1) 0 (r - q)

/-- `flz_match` -/
def flzMatch (l size : Nat) : Nat :=
  let l := l - 1
  let size := size + 3 * (l / 262)
  if l % 262 ≥ 6 then size + 3 else size + 2

/-- `set_next_hash` -/
def setNextHash (htab : Array Nat) (input : Array Nat) (idx : Nat) : Array Nat × Nat :=
  (htab.setIfInBounds (flzHash (u24 input idx)) idx, idx + 1)

/-- the inner `loop` of `flz_compress_len`: returns `(idx, r, htab)` at its `break` -/
def flzInner (input : Array Nat) (idxLimit : Nat) : Nat → Nat → Array Nat → Nat × Nat × Array Nat
  | 0, idx, htab => (idx, 0, htab)
  | fuel + 1, idx, htab =>
    let seq := u24 input idx
    let h := flzHash seq
    let r := htab.getD h 0
    let htab := htab.setIfInBounds h idx
    let distance := (idx + 4294967296 - r) % 4294967296
    if idx ≥ idxLimit then (idx, r, htab)
    else
      let idx := idx + 1
      if distance < 8192 ∧ seq = u24 input r then (idx, r, htab)
      else flzInner input idxLimit fuel idx htab

/-- the outer `while idx < idx_limit` of `flz_compress_len`; result = the final `literals(..)` -/
def flzOuter (input : Array Nat) (idxLimit : Nat) : Nat → Nat → Nat → Nat → Array Nat → Nat
  | 0, _, anchor, size, _ => literals (input.size - anchor) size
  | fuel + 1, idx, anchor, size, htab =>
    if idx < idxLimit then
      match flzInner input idxLimit (input.size + 1) idx htab with
      | (idx, r, htab) =>
        if idx ≥ idxLimit then literals (input.size - anchor) size
        else
          let idx := idx - 1
          let size := if idx > anchor then literals (idx - anchor) size else size
          let len := flzCmp input (r + 3) (idx + 3) (idxLimit + 9)
          let size := flzMatch len size
          match setNextHash htab input (idx + len) with
          | (htab, idx) =>
            match setNextHash htab input idx with
            | (htab, idx) => flzOuter input idxLimit fuel idx idx size htab
    else literals (input.size - anchor) size

/-- `flz_compress_len` (for inputs shorter than 2^32 bytes; every outer iteration advances `idx`) -/
def flzCompressLen (input : List Nat) : Nat :=
  let a := input.toArray
  let idxLimit := if a.size < 13 then 0 else a.size - 13
  flzOuter a idxLimit (a.size + 1) 2 0 0 (Array.replicate 8192 0)

/-! ### `l1block.rs` -/

structure L1Info where
  l1BaseFee : Nat
  l1FeeOverhead : Option Nat
  l1BaseFeeScalar : Nat
  l1BlobBaseFee : Option Nat
  l1BlobBaseFeeScalar : Option Nat
  operatorFeeScalar : Option Nat
  operatorFeeConstant : Option Nat
  emptyEcotoneScalars : Bool
  txL1Cost : Option Nat
  deriving DecidableEq, Repr

/-- `L1BlockInfo::default()` -/
def L1Info.default : L1Info :=
  { l1BaseFee := 0, l1FeeOverhead := none, l1BaseFeeScalar := 0, l1BlobBaseFee := none,
    l1BlobBaseFeeScalar := none, operatorFeeScalar := none, operatorFeeConstant := none,
    emptyEcotoneScalars := false, txL1Cost := none }

/-- storage of the L1Block contract, the slots that `try_fetch` reads -/
structure Slots where
  s1 : Nat   -- L1_BASE_FEE_SLOT
  s5 : Nat   -- L1_OVERHEAD_SLOT
  s6 : Nat   -- L1_SCALAR_SLOT
  s7 : Nat   -- ECOTONE_L1_BLOB_BASE_FEE_SLOT
  s3 : Nat   -- ECOTONE_L1_FEE_SCALARS_SLOT
  s8 : Nat   -- OPERATOR_FEE_SCALARS_SLOT
  deriving DecidableEq, Repr

/-- big-endian bytes `[from, to)` of the 32-byte representation of `w`, as a number -/
def beSlice (w : Nat) (frm to : Nat) : Nat := (w / 2 ^ (8 * (32 - to))) % 2 ^ (8 * (to - frm))

/-- `L1BlockInfo::try_fetch` -/
def tryFetch (s : Slots) (spec : Nat) : L1Info :=
  if !enabled spec ECOTONE then
    { L1Info.default with l1BaseFee := s.s1, l1FeeOverhead := some s.s5, l1BaseFeeScalar := s.s6 }
  else
    let baseScalar := beSlice s.s3 16 20
    let blobScalar := beSlice s.s3 20 24
    let empty := s.s7 = 0 ∧ beSlice s.s3 16 24 = 0
    let overhead := if empty then some s.s5 else none
    if enabled spec ISTHMUS then
      { l1BaseFee := s.s1, l1BaseFeeScalar := baseScalar, l1BlobBaseFee := some s.s7,
        l1BlobBaseFeeScalar := some blobScalar, emptyEcotoneScalars := empty, l1FeeOverhead := overhead,
        operatorFeeScalar := some (beSlice s.s8 20 24), operatorFeeConstant := some (beSlice s.s8 24 32),
        txL1Cost := none }
    else
      { l1BaseFee := s.s1, l1BaseFeeScalar := baseScalar, l1BlobBaseFee := some s.s7,
        l1BlobBaseFeeScalar := some blobScalar, emptyEcotoneScalars := empty, l1FeeOverhead := overhead,
        operatorFeeScalar := none, operatorFeeConstant := none, txL1Cost := none }

/-- the core of `operator_fee_charge` once both parameters are present -/
def opCharge (scalar const gas : Nat) : Nat :=
  saturatingAdd (wdiv (saturatingMul gas scalar) 1000000) const

/-- `operator_fee_charge`; `none` = the `expect` panics -/
def operatorFeeCharge (info : L1Info) (gasLimit spec : Nat) : Option Nat :=
  if !enabled spec ISTHMUS then some 0
  else match info.operatorFeeScalar, info.operatorFeeConstant with
    | some s, some c => some (opCharge s c gasLimit)
    | _, _ => none

/-- `gas.spent() - gas.refunded() as u64` (u64 subtraction, release profile) -/
def usedGas (g : Gas) : Nat := U64ops.wsub (spent g) (i64AsU64 g.refunded)

/-- `operator_fee_refund` as repaired by commit 2dbb8f15 -/
def operatorFeeRefund (info : L1Info) (g : Gas) (spec : Nat) : Option Nat :=
  if !enabled spec ISTHMUS then some 0
  else match operatorFeeCharge info g.limit spec, operatorFeeCharge info (usedGas g) spec with
    | some charged, some owed => some (saturatingSub charged owed)
    | _, _ => none

/-- the former `operator_fee_refund`: `scalar.saturating_mul(remaining + refunded)` without the division -/
def operatorFeeRefundOld (info : L1Info) (g : Gas) (spec : Nat) : Option Nat :=
  if !enabled spec ISTHMUS then some 0
  else match info.operatorFeeScalar with
    | some s => some (saturatingMul s (U64ops.wadd g.remaining (i64AsU64 g.refunded)))
    | none => none

/-- `tx_estimated_size_fjord` (u64 saturating arithmetic) -/
def txEstimatedSizeFjord (input : List Nat) : Nat :=
  max (U64ops.saturatingSub (U64ops.saturatingMul (flzCompressLen input) 836500) 42585600) 100000000

/-- `data_gas` -/
def dataGas (input : List Nat) (spec : Nat) : Nat :=
  if enabled spec FJORD then
    wdiv (saturatingMul (txEstimatedSizeFjord input) 16) 1000000
  else
    let g := input.foldl (fun acc b => acc + (if b = 0 then 4 else 16)) 0
    if !enabled spec REGOLITH then wadd g (wmul 16 68) else g

/-- `calculate_l1_fee_scaled_ecotone` -/
def l1FeeScaledEcotone (info : L1Info) : Nat :=
  saturatingAdd (saturatingMul (saturatingMul info.l1BaseFee 16) info.l1BaseFeeScalar)
    (saturatingMul (info.l1BlobBaseFee.getD 0) (info.l1BlobBaseFeeScalar.getD 0))

/-- `calculate_tx_l1_cost_bedrock` -/
def l1CostBedrock (info : L1Info) (input : List Nat) (spec : Nat) : Nat :=
  wdiv (saturatingMul (saturatingMul (saturatingAdd (dataGas input spec) (info.l1FeeOverhead.getD 0))
    info.l1BaseFee) info.l1BaseFeeScalar) 1000000

/-- `calculate_tx_l1_cost_ecotone` -/
def l1CostEcotone (info : L1Info) (input : List Nat) (spec : Nat) : Nat :=
  if info.emptyEcotoneScalars then l1CostBedrock info input spec
  else wdiv (saturatingMul (l1FeeScaledEcotone info) (dataGas input spec)) 16000000

/-- `calculate_tx_l1_cost_fjord` -/
def l1CostFjord (info : L1Info) (input : List Nat) : Nat :=
  wdiv (saturatingMul (txEstimatedSizeFjord input) (l1FeeScaledEcotone info)) 1000000000000

/-- the cost of a non-empty, non-deposit envelope (the three fork branches of `calculate_tx_l1_cost`) -/
def l1CostFresh (info : L1Info) (input : List Nat) (spec : Nat) : Nat :=
  if enabled spec FJORD then l1CostFjord info input
  else if enabled spec ECOTONE then l1CostEcotone info input spec
  else l1CostBedrock info input spec

/-- `input.is_empty() || input.first() == Some(&0x7F)`: an empty or deposit envelope costs nothing -/
def zeroCostEnvelope : List Nat → Bool
  | [] => true
  | b :: _ => b == 0x7F

/-- `calculate_tx_l1_cost`: value and the updated cache -/
def calculateTxL1Cost (info : L1Info) (input : List Nat) (spec : Nat) : Nat × L1Info :=
  match info.txL1Cost with
  | some c => (c, info)
  | none =>
    if zeroCostEnvelope input then (0, info)
    else
      let c := l1CostFresh info input spec
      (c, { info with txL1Cost := some c })

/-! ### the handler -/

def L1_FEE_RECIPIENT : Nat := 0x420000000000000000000000000000000000001A
def OPERATOR_FEE_RECIPIENT : Nat := 0x420000000000000000000000000000000000001B
def BASE_FEE_RECIPIENT : Nat := 0x4200000000000000000000000000000000000019

inductive Cls | ok | revert | halt
  deriving DecidableEq, Repr

/-- result of the first frame: class of the `InstructionResult`, gas left, raw refund counter -/
structure Frame where
  cls : Cls
  remaining : Nat
  refunded : Int
  deriving DecidableEq, Repr

structure Tx where
  spec : Nat
  isDeposit : Bool            -- `tx.optimism.source_hash.is_some()`
  isSystem : Option Bool      -- `tx.optimism.is_system_transaction`
  mint : Option Nat           -- `tx.optimism.mint` (u128)
  isCreate : Bool
  gasLimit : Nat
  gasPrice : Nat
  priorityFee : Option Nat
  value : Nat
  basefee : Nat
  data : List Nat
  enveloped : Option (List Nat)
  txNonce : Option Nat
  caller : Nat
  coinbase : Nat
  target : Nat                -- callee, or the address a create transaction creates
  maxDataFee : Nat            -- `calc_max_data_fee().unwrap_or_default()` (0 without blobs)
  dataFee : Nat               -- `calc_data_fee()` under Cancun (0 without blobs)
  deriving Repr

inductive Err
  | prio | basefee | systx | intrinsic | floor | nonce | nonceOverflow | custom | overflow | funds
  deriving DecidableEq, Repr

inductive Kind | success | revert | halt | failedDeposit
  deriving DecidableEq, Repr

/-- balances (address ↦ balance) and the sender's nonce -/
structure St where
  bal : Nat → Nat
  nonce : Nat

def upd (f : Nat → Nat) (a v : Nat) : Nat → Nat := fun x => if x = a then v else f x

/-- `Env::effective_gas_price` (`basefee + priority_fee` is a wrapping add) -/
def effectiveGasPrice (tx : Tx) : Nat :=
  match tx.priorityFee with
  | some p => min tx.gasPrice (wadd tx.basefee p)
  | none => tx.gasPrice

/-- `priority_fee > gas_price` (London) -/
def prioTooHigh (tx : Tx) : Bool :=
  match tx.priorityFee with
  | some p => decide (p > tx.gasPrice)
  | none => false

/-- `optimism::validate_env` (block environment complete, no chain id, block gas limit not binding, no
blobs, no authorization list, init code within the size limit) -/
def validateEnv (tx : Tx) : Option Err :=
  if tx.isDeposit then none
  else if tx.isSystem.getD false && enabled tx.spec REGOLITH then some .systx
  else if prioTooHigh tx then some .prio
  else if effectiveGasPrice tx < tx.basefee then some .basefee
  else none

/-- `get_tokens_in_calldata` (Istanbul multiplier 4) -/
def tokens (data : List Nat) : Nat :=
  let zeros := (data.filter (· = 0)).length
  zeros + (data.length - zeros) * 4

/-- `calculate_initial_tx_gas` without access list / authorization list: `(initial_gas, floor_gas)` -/
def initialGas (tx : Tx) : Nat × Nat :=
  let t := tokens tx.data
  let g := t * 4 + (if tx.isCreate then 53000 else 21000)
  let g := if enabled tx.spec SHANGHAI && tx.isCreate then g + 2 * ((tx.data.length + 31) / 32) else g
  (g, if enabled tx.spec PRAGUE then t * 10 + 21000 else 0)

/-- `validate_initial_tx_gas` -/
def validateInitialGas (tx : Tx) : Option Err :=
  if (initialGas tx).1 > tx.gasLimit then some .intrinsic
  else if enabled tx.spec PRAGUE && decide ((initialGas tx).2 > tx.gasLimit) then some .floor
  else none

inductive VRes
  | err (e : Err)
  | panic
  | ok (info : Option L1Info)
  deriving DecidableEq

/-- the nonce check of `validate_tx_against_state` -/
def nonceMismatch (tx : Tx) (st : St) : Bool :=
  match tx.txNonce with
  | some n => decide (n ≠ st.nonce)
  | none => false

/-- `optimism::validate_tx_against_state` of a regular transaction once `context.evm.inner.l1_block_info`
holds `info` (sender without code); returns the `l1_block_info` it leaves in the context -/
def validateWith (tx : Tx) (info : L1Info) (st : St) : VRes :=
    if nonceMismatch tx st then .err .nonce
    -- EIP-2681 (commit 84adfb43): after the equality check, a transaction nonce of 2^64-1 is rejected
    else if tx.txNonce = some (U64 - 1) then .err .nonceOverflow
    else match tx.enveloped with
      | none => .err .custom
      | some env =>
        let (l1cost, info) := calculateTxL1Cost info env tx.spec
        match operatorFeeCharge info tx.gasLimit tx.spec with
        | none => .panic
        | some charge =>
          match (((checkedMul tx.gasLimit tx.gasPrice).bind (checkedAdd · tx.value)).bind
                  (checkedAdd · l1cost)).bind (checkedAdd · charge) with
          | none => .err .overflow
          | some bc =>
            match (if enabled tx.spec CANCUN then checkedAdd bc tx.maxDataFee else some bc) with
            | none => .err .overflow
            | some bc => if bc > st.bal tx.caller then .err .funds else .ok (some info)

/-- `optimism::validate_tx_against_state` with the context's `l1_block_info` (`ctx`): a deposit leaves it
alone; a regular transaction fetches it from the L1Block contract only `if l1_block_info.is_none()` -/
def validateTxAgainstStateCtx (tx : Tx) (s : Slots) (st : St) (ctx : Option L1Info) : VRes :=
  if tx.isDeposit then .ok ctx
  else validateWith tx (match ctx with | some i => i | none => tryFetch s tx.spec) st

/-- the same on a context whose `l1_block_info` is `None` (what `clear` leaves behind) -/
def validateTxAgainstState (tx : Tx) (s : Slots) (st : St) : VRes :=
  if tx.isDeposit then .ok none
  else validateWith tx (tryFetch s tx.spec) st

inductive DRes
  | err (e : Err)
  | panic
  | ok (st : St) (info : Option L1Info)

/-- `mainnet::deduct_caller_inner` on the caller's balance and nonce -/
def deductCallerInner (tx : Tx) (b nonce : Nat) : Nat × Nat :=
  let gasCost := saturatingMul tx.gasLimit (effectiveGasPrice tx)
  let gasCost := if enabled tx.spec CANCUN then saturatingAdd gasCost tx.dataFee else gasCost
  (saturatingSub b gasCost, if tx.isCreate then nonce else U64ops.saturatingAdd nonce 1)

/-- `if let Some(mint) = tx.optimism.mint { balance += U256::from(mint) }` (wrapping `+=`, for every
transaction that carries a mint value, deposit or not) -/
def mintStep (mint : Option Nat) (b : Nat) : Nat :=
  match mint with
  | some m => wadd b m
  | none => b

/-- `optimism::deduct_caller` -/
def deductCaller (tx : Tx) (st : St) (info : Option L1Info) : DRes :=
  let b := st.bal tx.caller
  let b := mintStep tx.mint b
  let (b, nonce) := deductCallerInner tx b st.nonce
  if tx.isDeposit then .ok { bal := upd st.bal tx.caller b, nonce := nonce } info
  else match tx.enveloped, info with
    | none, _ => .err .custom
    | some _, none => .panic
    | some env, some info =>
      let (l1cost, info) := calculateTxL1Cost info env tx.spec
      let b := saturatingSub b l1cost
      match operatorFeeCharge info tx.gasLimit tx.spec with
      | none => .panic
      | some charge =>
        .ok { bal := upd st.bal tx.caller (saturatingSub b charge), nonce := nonce } (some info)

/-- balance effect of the first frame for the programs the harness runs (`make_call_frame` /
`make_create_frame` + `journaled_state.transfer`): a create without funds for its value fails before the
nonce bump, a create at nonce 2^64-1 returns without doing anything, a successful frame has moved the value -/
def execSimple (tx : Tx) (st : St) (fr : Frame) : St :=
  let move (st : St) : St :=
    if fr.cls = .ok ∧ tx.value ≤ st.bal tx.caller then
      let b1 := upd st.bal tx.caller (st.bal tx.caller - tx.value)
      if b1 tx.target + tx.value < W then { st with bal := upd b1 tx.target (b1 tx.target + tx.value) } else st
    else st
  if tx.isCreate then
    if st.bal tx.caller < tx.value then st
    else if st.nonce + 1 ≥ U64 then st
    else move { st with nonce := st.nonce + 1 }
  else move st

/-- `optimism::last_frame_return` -/
def lastFrameReturn (tx : Tx) (fr : Frame) : Gas :=
  let g := Gas.newSpent tx.gasLimit
  let isRegolith := enabled tx.spec REGOLITH
  match fr.cls with
  | .ok =>
    if !tx.isDeposit || isRegolith then recordRefund (eraseCost g fr.remaining) fr.refunded
    else if tx.isDeposit && tx.isSystem.getD false then eraseCost g tx.gasLimit
    else g
  | .revert => if !tx.isDeposit || isRegolith then eraseCost g fr.remaining else g
  | .halt => g

/-- `optimism::refund` (gas refunds are never disabled by configuration here) -/
def refundStep (tx : Tx) (g : Gas) (eip7702Refund : Int) : Gas :=
  let g := recordRefund g eip7702Refund
  if !(tx.isDeposit && !enabled tx.spec REGOLITH) then setFinalRefund g (enabled tx.spec LONDON) else g

/-- the EIP-7623 step of `transact_preverified_inner` -/
def floorStep (g : Gas) (floorGas : Nat) : Gas :=
  if spentSubRefunded g < floorGas then setRefund (setSpent g floorGas) 0 else g

/-- the gas of the transaction after `last_frame_return`, `refund` and the floor step -/
def finalGas (tx : Tx) (fr : Frame) : Gas :=
  floorStep (refundStep tx (lastFrameReturn tx fr) 0) (initialGas tx).2

/-- `mainnet::reimburse_caller` followed by the operator fee refund of `optimism::reimburse_caller`;
`none` = panic -/
def reimburseCaller (tx : Tx) (bal : Nat → Nat) (info : Option L1Info) (g : Gas) : Option (Nat → Nat) :=
  let amount := wmul (effectiveGasPrice tx) (U64ops.wadd g.remaining (i64AsU64 g.refunded))
  let bal := upd bal tx.caller (saturatingAdd (bal tx.caller) amount)
  if tx.isDeposit then some bal
  else match info with
    | none => none
    | some info =>
      match operatorFeeRefund info g tx.spec with
      | none => none
      | some r => some (upd bal tx.caller (saturatingAdd (bal tx.caller) r))

inductive RRes
  | err (e : Err)
  | panic
  | ok (bal : Nat → Nat)

/-- `optimism::reward_beneficiary` (with `mainnet::reward_beneficiary` for the coinbase) -/
def rewardBeneficiary (tx : Tx) (bal : Nat → Nat) (info : Option L1Info) (g : Gas) : RRes :=
  if tx.isDeposit then .ok bal
  else
    let egp := effectiveGasPrice tx
    let cbPrice := if enabled tx.spec LONDON then saturatingSub egp tx.basefee else egp
    let used := usedGas g
    let bal := upd bal tx.coinbase (saturatingAdd (bal tx.coinbase) (wmul cbPrice used))
    match info, tx.enveloped with
    | none, _ => .err .custom
    | some _, none => .err .custom
    | some info, some env =>
      let (l1cost, info) := calculateTxL1Cost info env tx.spec
      match operatorFeeCharge info used tx.spec with
      | none => .panic
      | some opCost =>
        let bal := upd bal L1_FEE_RECIPIENT (wadd (bal L1_FEE_RECIPIENT) l1cost)
        let bal := upd bal BASE_FEE_RECIPIENT (wadd (bal BASE_FEE_RECIPIENT) (wmul tx.basefee used))
        .ok (upd bal OPERATOR_FEE_RECIPIENT (wadd (bal OPERATOR_FEE_RECIPIENT) opCost))

inductive Outcome
  | err (e : Err)
  | panic
  | done (kind : Kind) (gasUsed gasRefunded : Nat) (st : St)

/-- `optimism::end` for a deposit whose execution returned a transaction error: only the caller is in the
returned state, with nonce + 1 and balance + mint over the DATABASE values -/
def failedDeposit (tx : Tx) (pre : St) : Outcome :=
  let gasUsed := if enabled tx.spec REGOLITH || !(tx.isSystem.getD false) then tx.gasLimit else 0
  .done .failedDeposit gasUsed 0
    { bal := upd pre.bal tx.caller (saturatingAdd (pre.bal tx.caller) (tx.mint.getD 0)),
      nonce := U64ops.saturatingAdd pre.nonce 1 }

/-- `mainnet::output` + `optimism::output` + `optimism::end` -/
def output (tx : Tx) (pre : St) (st : St) (cls : Cls) (g : Gas) : Outcome :=
  let refunded := i64AsU64 g.refunded
  let used := U64ops.wsub (spent g) refunded
  match cls with
  | .ok => .done .success used refunded st
  | .revert => .done .revert used 0 st
  | .halt =>
    if tx.isDeposit && enabled tx.spec REGOLITH then failedDeposit tx pre
    else .done .halt used 0 st

/-- everything after validation (`transact_preverified_inner` + `end`), for a given execution `exec` of
the first frame -/
def runTx (tx : Tx) (pre : St) (info : Option L1Info) (exec : St → St) (fr : Frame) : Outcome :=
  match deductCaller tx pre info with
  | .err e => .err e
  | .panic => .panic
  | .ok st info =>
    let st := exec st
    let g := finalGas tx fr
    match reimburseCaller tx st.bal info g with
    | none => .panic
    | some bal =>
      match rewardBeneficiary tx bal info g with
      | .err e => .err e
      | .panic => .panic
      | .ok bal => output tx pre { st with bal := bal } fr.cls g

/-- `optimism::end` on an error of the transaction: a deposit becomes a `FailedDeposit` halt that keeps
mint and nonce + 1, any other transaction keeps its error -/
def endErr (tx : Tx) (pre : St) (e : Err) : Outcome :=
  if tx.isDeposit then failedDeposit tx pre else .err e

/-- `Evm::transact` with the Optimism handler. Since commit 25ebe790 an error of the pre-verification
(`validate_env`, `validate_initial_tx_gas`, `validate_tx_against_state`) goes through the `end` handle like
an error of the execution. -/
def transactWith (tx : Tx) (s : Slots) (pre : St) (exec : St → St) (fr : Frame) : Outcome :=
  match validateEnv tx with
  | some e => endErr tx pre e
  | none =>
    match validateInitialGas tx with
    | some e => endErr tx pre e
    | none =>
      match validateTxAgainstState tx s pre with
      | .err e => endErr tx pre e
      | .panic => .panic
      | .ok info => runTx tx pre info exec fr

/-- `Evm::transact` before commit 25ebe790: `preverify_transaction_inner()?` returned the error before the
`end` handle ran (kept for the regression theorem) -/
def transactWithOld (tx : Tx) (s : Slots) (pre : St) (exec : St → St) (fr : Frame) : Outcome :=
  match validateEnv tx with
  | some e => .err e
  | none =>
    match validateInitialGas tx with
    | some e => .err e
    | none =>
      match validateTxAgainstState tx s pre with
      | .err e => .err e
      | .panic => .panic
      | .ok info => runTx tx pre info exec fr

/-- the whole transaction with the frames the harness runs. The frame result that reaches
`last_frame_return` is the given one, except that frames which fail before running are halts -/
def transact (tx : Tx) (s : Slots) (pre : St) (fr : Frame) : Outcome :=
  transactWith tx s pre (fun st => execSimple tx st fr) fr

/-! ### several transactions on one `Evm` -/

/-- `optimism::clear`: `context.evm.inner.l1_block_info = None` after every transaction — together with it
the per-transaction cache `tx_l1_cost` is dropped -/
def clearCtx (_tx : Tx) (_ctx : Option L1Info) : Option L1Info := none

/-- a `clear` that keeps `l1_block_info` for the following transactions and drops it only after a deposit
(NOT the code; kept for the regression theorem: the cached `tx_l1_cost` of the first regular transaction would
then be charged to every later one) -/
def clearCtxKeep (tx : Tx) (ctx : Option L1Info) : Option L1Info := if tx.isDeposit then none else ctx

/-- `Evm::transact` on a context whose `l1_block_info` is `ctx`; returns the outcome and the
`l1_block_info` that the transaction's `clear` (a parameter) leaves -/
def transactCtx (clear : Tx → Option L1Info → Option L1Info) (tx : Tx) (s : Slots) (pre : St)
    (exec : St → St) (fr : Frame) (ctx : Option L1Info) : Outcome × Option L1Info :=
  match validateEnv tx with
  | some e => (endErr tx pre e, clear tx ctx)
  | none =>
    match validateInitialGas tx with
    | some e => (endErr tx pre e, clear tx ctx)
    | none =>
      match validateTxAgainstStateCtx tx s pre ctx with
      -- `l1_block_info` was loaded before the failing check (all failing checks come after the fetch)
      | .err e => (endErr tx pre e,
          clear tx (if tx.isDeposit then ctx else some (match ctx with | some i => i | none => tryFetch s tx.spec)))
      | .panic => (.panic, clear tx ctx)
      | .ok info => (runTx tx pre info exec fr, clear tx info)

/-- one transaction of a history: the transaction, the L1Block slots in the database when it runs, the
result of its first frame -/
structure Step where
  tx : Tx
  slots : Slots
  fr : Frame

/-- the state committed after a transaction (`db.commit(result.state)`; nothing after an error) -/
def commit (pre : St) : Outcome → St
  | .done _ _ _ st => st
  | _ => pre

/-- a history of transactions on one `Evm` (frames of the harness), each committed: the outcomes -/
def runHistory (clear : Tx → Option L1Info → Option L1Info) : St → Option L1Info → List Step → List Outcome
  | _, _, [] => []
  | st, ctx, p :: ps =>
    let r := transactCtx clear p.tx p.slots st (fun x => execSimple p.tx x p.fr) p.fr ctx
    r.1 :: runHistory clear (commit st r.1) r.2 ps

/-- the same history with every transaction run by the single-transaction function on the committed state
and ITS OWN slots and envelope -/
def runHistoryFresh : St → List Step → List Outcome
  | _, [] => []
  | st, p :: ps =>
    let o := transact p.tx p.slots st p.fr
    o :: runHistoryFresh (commit st o) ps

end Revm.Model.OpFees
