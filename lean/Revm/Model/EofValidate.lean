import Revm.Model.Eof
/-! Code-shaped model of EOF validation (`crates/interpreter/src/interpreter/analysis.rs`:
`validate_raw_eof_inner`, `validate_eof_inner`, `validate_eof_codes`, `validate_eof_code`,
`AccessTracker`). Same checks in the same order with the same error kinds, so that the verdict
(ok / error kind) can be compared with the real validator line by line.

* Rust indexing sites (`jumps[i + imm]`, `types[this_types_index]`, `code[i + 1]`,
  `eof.body.code_section[index]`, `self.codes[index]`), the explicit `panic!`s of `AccessTracker`
  and the unchecked pointer reads `read_u16` / `read_i16` (out of range = undefined behaviour) are
  the outcome `R.panic`.
* `i32` stack-height bookkeeping is done in `Int`: the values are bounded by
  `1023 + 128 * code.len()` (at most 65535 instructions, each adding at most 128), far from 2^31.
* The three loops are fuel-indexed; running out of fuel is the explicit error `VErr.ModelOutOfFuel`
  (not a Rust error; never observed: `i` strictly increases, every section is pushed at most once,
  sub-containers are disjoint slices of the parent).
* `opTable` is the hand-copied `OPCODE_INFO_JUMPTABLE`; `Revm.Props.C26.opTable_matches_code`
  compares it with the table regenerated from the compiled code on every run. -/
namespace Revm.Model.EofValidate
open Revm.Model.Eof

/-- `EofValidationError` (+ the model-only `ModelOutOfFuel`) -/
inductive VErr
  | FalsePositive | UnknownOpcode | OpcodeDisabled | InstructionNotForwardAccessed
  | MissingImmediateBytes | MissingRJUMPVImmediateBytes | JumpToImmediateBytes
  | BackwardJumpToImmediateBytes | RJUMPVZeroMaxIndex | JumpZeroOffset | EOFCREATEInvalidIndex
  | CodeSectionOutOfBounds | CALLFNonReturningFunction | StackOverflow | JUMPFEnoughOutputs
  | JUMPFStackHigherThanOutputs | DataLoadOutOfBounds | RETFBiggestStackNumMoreThenOutputs
  | StackUnderflow | TypesStackUnderflow | JumpUnderflow | JumpOverflow
  | BackwardJumpBiggestNumMismatch | BackwardJumpSmallestNumMismatch
  | LastInstructionNotTerminating | CodeSectionNotAccessed | InvalidTypesSection
  | InvalidFirstTypesSection | MaxStackMismatch | NoCodeSections | SubContainerCalledInTwoModes
  | SubContainerNotAccessed | DataNotFilled | NonReturningSectionIsReturning
  | ModelOutOfFuel
  deriving DecidableEq, Repr, Inhabited

def VErr.name : VErr → String
  | .FalsePositive => "FalsePositive" | .UnknownOpcode => "UnknownOpcode"
  | .OpcodeDisabled => "OpcodeDisabled"
  | .InstructionNotForwardAccessed => "InstructionNotForwardAccessed"
  | .MissingImmediateBytes => "MissingImmediateBytes"
  | .MissingRJUMPVImmediateBytes => "MissingRJUMPVImmediateBytes"
  | .JumpToImmediateBytes => "JumpToImmediateBytes"
  | .BackwardJumpToImmediateBytes => "BackwardJumpToImmediateBytes"
  | .RJUMPVZeroMaxIndex => "RJUMPVZeroMaxIndex" | .JumpZeroOffset => "JumpZeroOffset"
  | .EOFCREATEInvalidIndex => "EOFCREATEInvalidIndex"
  | .CodeSectionOutOfBounds => "CodeSectionOutOfBounds"
  | .CALLFNonReturningFunction => "CALLFNonReturningFunction" | .StackOverflow => "StackOverflow"
  | .JUMPFEnoughOutputs => "JUMPFEnoughOutputs"
  | .JUMPFStackHigherThanOutputs => "JUMPFStackHigherThanOutputs"
  | .DataLoadOutOfBounds => "DataLoadOutOfBounds"
  | .RETFBiggestStackNumMoreThenOutputs => "RETFBiggestStackNumMoreThenOutputs"
  | .StackUnderflow => "StackUnderflow" | .TypesStackUnderflow => "TypesStackUnderflow"
  | .JumpUnderflow => "JumpUnderflow" | .JumpOverflow => "JumpOverflow"
  | .BackwardJumpBiggestNumMismatch => "BackwardJumpBiggestNumMismatch"
  | .BackwardJumpSmallestNumMismatch => "BackwardJumpSmallestNumMismatch"
  | .LastInstructionNotTerminating => "LastInstructionNotTerminating"
  | .CodeSectionNotAccessed => "CodeSectionNotAccessed"
  | .InvalidTypesSection => "InvalidTypesSection"
  | .InvalidFirstTypesSection => "InvalidFirstTypesSection"
  | .MaxStackMismatch => "MaxStackMismatch" | .NoCodeSections => "NoCodeSections"
  | .SubContainerCalledInTwoModes => "SubContainerCalledInTwoModes"
  | .SubContainerNotAccessed => "SubContainerNotAccessed" | .DataNotFilled => "DataNotFilled"
  | .NonReturningSectionIsReturning => "NonReturningSectionIsReturning"
  | .ModelOutOfFuel => "ModelOutOfFuel"

/-- `EofError` -/
inductive EofErr
  | Decode (e : DecErr)
  | Validation (e : VErr)
  deriving DecidableEq, Repr, Inhabited

def EofErr.name : EofErr → String
  | .Decode e => "Decode." ++ e.name
  | .Validation e => e.name

abbrev V := R VErr

/-- `OpCodeInfo` (inputs, outputs, immediate_size, not_eof, terminating) -/
structure OpInfo where
  inputs : Nat
  outputs : Nat
  imm : Nat
  notEof : Bool
  terminating : Bool
  deriving DecidableEq, Repr, Inhabited

/-- `OPCODE_INFO_JUMPTABLE` -/
def opTable : Array (Option OpInfo) := #[
  some ⟨0, 0, 0, false, true⟩, some ⟨2, 1, 0, false, false⟩, some ⟨2, 1, 0, false, false⟩, some ⟨2, 1, 0, false, false⟩,  -- 0x00
  some ⟨2, 1, 0, false, false⟩, some ⟨2, 1, 0, false, false⟩, some ⟨2, 1, 0, false, false⟩, some ⟨2, 1, 0, false, false⟩,  -- 0x04
  some ⟨3, 1, 0, false, false⟩, some ⟨3, 1, 0, false, false⟩, some ⟨2, 1, 0, false, false⟩, some ⟨2, 1, 0, false, false⟩,  -- 0x08
  none, none, none, none,  -- 0x0c
  some ⟨2, 1, 0, false, false⟩, some ⟨2, 1, 0, false, false⟩, some ⟨2, 1, 0, false, false⟩, some ⟨2, 1, 0, false, false⟩,  -- 0x10
  some ⟨2, 1, 0, false, false⟩, some ⟨1, 1, 0, false, false⟩, some ⟨2, 1, 0, false, false⟩, some ⟨2, 1, 0, false, false⟩,  -- 0x14
  some ⟨2, 1, 0, false, false⟩, some ⟨1, 1, 0, false, false⟩, some ⟨2, 1, 0, false, false⟩, some ⟨2, 1, 0, false, false⟩,  -- 0x18
  some ⟨2, 1, 0, false, false⟩, some ⟨2, 1, 0, false, false⟩, none, none,  -- 0x1c
  some ⟨2, 1, 0, false, false⟩, none, none, none,  -- 0x20
  none, none, none, none,  -- 0x24
  none, none, none, none,  -- 0x28
  none, none, none, none,  -- 0x2c
  some ⟨0, 1, 0, false, false⟩, some ⟨1, 1, 0, false, false⟩, some ⟨0, 1, 0, false, false⟩, some ⟨0, 1, 0, false, false⟩,  -- 0x30
  some ⟨0, 1, 0, false, false⟩, some ⟨1, 1, 0, false, false⟩, some ⟨0, 1, 0, false, false⟩, some ⟨3, 0, 0, false, false⟩,  -- 0x34
  some ⟨0, 1, 0, true, false⟩, some ⟨3, 0, 0, true, false⟩, some ⟨0, 1, 0, false, false⟩, some ⟨1, 1, 0, true, false⟩,  -- 0x38
  some ⟨4, 0, 0, true, false⟩, some ⟨0, 1, 0, false, false⟩, some ⟨3, 0, 0, false, false⟩, some ⟨1, 1, 0, true, false⟩,  -- 0x3c
  some ⟨1, 1, 0, false, false⟩, some ⟨0, 1, 0, false, false⟩, some ⟨0, 1, 0, false, false⟩, some ⟨0, 1, 0, false, false⟩,  -- 0x40
  some ⟨0, 1, 0, false, false⟩, some ⟨0, 1, 0, false, false⟩, some ⟨0, 1, 0, false, false⟩, some ⟨0, 1, 0, false, false⟩,  -- 0x44
  some ⟨0, 1, 0, false, false⟩, some ⟨1, 1, 0, false, false⟩, some ⟨0, 1, 0, false, false⟩, none,  -- 0x48
  none, none, none, none,  -- 0x4c
  some ⟨1, 0, 0, false, false⟩, some ⟨1, 1, 0, false, false⟩, some ⟨2, 0, 0, false, false⟩, some ⟨2, 0, 0, false, false⟩,  -- 0x50
  some ⟨1, 1, 0, false, false⟩, some ⟨2, 0, 0, false, false⟩, some ⟨1, 0, 0, true, false⟩, some ⟨2, 0, 0, true, false⟩,  -- 0x54
  some ⟨0, 1, 0, true, false⟩, some ⟨0, 1, 0, false, false⟩, some ⟨0, 1, 0, true, false⟩, some ⟨0, 0, 0, false, false⟩,  -- 0x58
  some ⟨1, 1, 0, false, false⟩, some ⟨2, 0, 0, false, false⟩, some ⟨3, 0, 0, false, false⟩, some ⟨0, 1, 0, false, false⟩,  -- 0x5c
  some ⟨0, 1, 1, false, false⟩, some ⟨0, 1, 2, false, false⟩, some ⟨0, 1, 3, false, false⟩, some ⟨0, 1, 4, false, false⟩,  -- 0x60
  some ⟨0, 1, 5, false, false⟩, some ⟨0, 1, 6, false, false⟩, some ⟨0, 1, 7, false, false⟩, some ⟨0, 1, 8, false, false⟩,  -- 0x64
  some ⟨0, 1, 9, false, false⟩, some ⟨0, 1, 10, false, false⟩, some ⟨0, 1, 11, false, false⟩, some ⟨0, 1, 12, false, false⟩,  -- 0x68
  some ⟨0, 1, 13, false, false⟩, some ⟨0, 1, 14, false, false⟩, some ⟨0, 1, 15, false, false⟩, some ⟨0, 1, 16, false, false⟩,  -- 0x6c
  some ⟨0, 1, 17, false, false⟩, some ⟨0, 1, 18, false, false⟩, some ⟨0, 1, 19, false, false⟩, some ⟨0, 1, 20, false, false⟩,  -- 0x70
  some ⟨0, 1, 21, false, false⟩, some ⟨0, 1, 22, false, false⟩, some ⟨0, 1, 23, false, false⟩, some ⟨0, 1, 24, false, false⟩,  -- 0x74
  some ⟨0, 1, 25, false, false⟩, some ⟨0, 1, 26, false, false⟩, some ⟨0, 1, 27, false, false⟩, some ⟨0, 1, 28, false, false⟩,  -- 0x78
  some ⟨0, 1, 29, false, false⟩, some ⟨0, 1, 30, false, false⟩, some ⟨0, 1, 31, false, false⟩, some ⟨0, 1, 32, false, false⟩,  -- 0x7c
  some ⟨1, 2, 0, false, false⟩, some ⟨2, 3, 0, false, false⟩, some ⟨3, 4, 0, false, false⟩, some ⟨4, 5, 0, false, false⟩,  -- 0x80
  some ⟨5, 6, 0, false, false⟩, some ⟨6, 7, 0, false, false⟩, some ⟨7, 8, 0, false, false⟩, some ⟨8, 9, 0, false, false⟩,  -- 0x84
  some ⟨9, 10, 0, false, false⟩, some ⟨10, 11, 0, false, false⟩, some ⟨11, 12, 0, false, false⟩, some ⟨12, 13, 0, false, false⟩,  -- 0x88
  some ⟨13, 14, 0, false, false⟩, some ⟨14, 15, 0, false, false⟩, some ⟨15, 16, 0, false, false⟩, some ⟨16, 17, 0, false, false⟩,  -- 0x8c
  some ⟨2, 2, 0, false, false⟩, some ⟨3, 3, 0, false, false⟩, some ⟨4, 4, 0, false, false⟩, some ⟨5, 5, 0, false, false⟩,  -- 0x90
  some ⟨6, 6, 0, false, false⟩, some ⟨7, 7, 0, false, false⟩, some ⟨8, 8, 0, false, false⟩, some ⟨9, 9, 0, false, false⟩,  -- 0x94
  some ⟨10, 10, 0, false, false⟩, some ⟨11, 11, 0, false, false⟩, some ⟨12, 12, 0, false, false⟩, some ⟨13, 13, 0, false, false⟩,  -- 0x98
  some ⟨14, 14, 0, false, false⟩, some ⟨15, 15, 0, false, false⟩, some ⟨16, 16, 0, false, false⟩, some ⟨17, 17, 0, false, false⟩,  -- 0x9c
  some ⟨2, 0, 0, false, false⟩, some ⟨3, 0, 0, false, false⟩, some ⟨4, 0, 0, false, false⟩, some ⟨5, 0, 0, false, false⟩,  -- 0xa0
  some ⟨6, 0, 0, false, false⟩, none, none, none,  -- 0xa4
  none, none, none, none,  -- 0xa8
  none, none, none, none,  -- 0xac
  none, none, none, none,  -- 0xb0
  none, none, none, none,  -- 0xb4
  none, none, none, none,  -- 0xb8
  none, none, none, none,  -- 0xbc
  none, none, none, none,  -- 0xc0
  none, none, none, none,  -- 0xc4
  none, none, none, none,  -- 0xc8
  none, none, none, none,  -- 0xcc
  some ⟨1, 1, 0, false, false⟩, some ⟨0, 1, 2, false, false⟩, some ⟨0, 1, 0, false, false⟩, some ⟨3, 0, 0, false, false⟩,  -- 0xd0
  none, none, none, none,  -- 0xd4
  none, none, none, none,  -- 0xd8
  none, none, none, none,  -- 0xdc
  some ⟨0, 0, 2, false, true⟩, some ⟨1, 0, 2, false, false⟩, some ⟨1, 0, 1, false, false⟩, some ⟨0, 0, 2, false, false⟩,  -- 0xe0
  some ⟨0, 0, 0, false, true⟩, some ⟨0, 0, 2, false, true⟩, some ⟨0, 1, 1, false, false⟩, some ⟨0, 0, 1, false, false⟩,  -- 0xe4
  some ⟨0, 0, 1, false, false⟩, none, none, none,  -- 0xe8
  some ⟨4, 1, 1, false, false⟩, none, some ⟨2, 0, 1, false, true⟩, none,  -- 0xec
  some ⟨3, 1, 0, true, false⟩, some ⟨7, 1, 0, true, false⟩, some ⟨7, 1, 0, true, false⟩, some ⟨2, 0, 0, false, true⟩,  -- 0xf0
  some ⟨6, 1, 0, true, false⟩, some ⟨4, 1, 0, true, false⟩, none, some ⟨1, 1, 0, false, false⟩,  -- 0xf4
  some ⟨4, 1, 0, false, false⟩, some ⟨3, 1, 0, false, false⟩, some ⟨6, 1, 0, true, false⟩, some ⟨3, 1, 0, false, false⟩,  -- 0xf8
  none, some ⟨2, 0, 0, false, true⟩, some ⟨0, 0, 0, false, true⟩, some ⟨1, 0, 0, true, true⟩  -- 0xfc
]

def opInfo (op : Nat) : Option OpInfo := (opTable[op]?).join

def STACK_LIMIT : Int := 1024
def MAX_INITCODE_SIZE : Nat := 49152

def RJUMP := 0xe0
def RJUMPI := 0xe1
def RJUMPV := 0xe2
def CALLF := 0xe3
def RETF := 0xe4
def JUMPF := 0xe5
def DUPN := 0xe6
def SWAPN := 0xe7
def EXCHANGE := 0xe8
def EOFCREATE := 0xec
def RETURNCONTRACT := 0xee
def RETURN := 0xf3
def STOP := 0x00
def DATALOADN := 0xd1

/-- `CodeType` -/
inductive CodeType | ReturnContract | ReturnOrStop
  deriving DecidableEq, Repr, Inhabited

/-- `AccessTracker`; `stack` is `processing_stack` with the most recently pushed index first -/
structure Tracker where
  thisType : Option CodeType
  codes : Array Bool
  stack : List Nat
  subs : Array (Option CodeType)
  deriving Repr, Inhabited

namespace Tracker
/-- `AccessTracker::new` -/
def new (t : Option CodeType) (codesSize subsSize : Nat) : V Tracker :=
  if codesSize = 0 then .panic else
  .ok { thisType := t, codes := (Array.replicate codesSize false).setIfInBounds 0 true,
        stack := [0], subs := Array.replicate subsSize none }
/-- `access_code` -/
def accessCode (tr : Tracker) (index : Nat) : V Tracker :=
  match tr.codes[index]? with
  | none => .panic
  | some wasAccessed =>
    let tr := { tr with codes := tr.codes.setIfInBounds index true }
    .ok (if !wasAccessed then { tr with stack := index :: tr.stack } else tr)
/-- `set_subcontainer_type` -/
def setSubcontainerType (tr : Tracker) (index : Nat) (newType : CodeType) : V Tracker :=
  match tr.subs[index]? with
  | none => .panic
  | some none => .ok { tr with subs := tr.subs.setIfInBounds index (some newType) }
  | some (some ct) => if ct ≠ newType then .err .SubContainerCalledInTwoModes else .ok tr
/-- `*this_container_code_type.get_or_insert(t) != t` → error -/
def requireType (tr : Tracker) (t : CodeType) : V Tracker :=
  match tr.thisType with
  | none => .ok { tr with thisType := some t }
  | some ct => if ct ≠ t then .err .SubContainerCalledInTwoModes else .ok tr
end Tracker

/-- `InstructionInfo` of `validate_eof_code` -/
structure InstrInfo where
  isImm : Bool := false
  isJumpdest : Bool := false
  smallest : Int := 2147483647
  biggest : Int := -2147483648
  deriving Repr, Inhabited, DecidableEq

structure Ctx where
  code : Array Nat
  dataSize : Nat
  nContainers : Nat
  types : Array TypesSection
  thisTypes : TypesSection

/-- the local variables of the `while i < code.len()` loop -/
structure St where
  jumps : Array InstrInfo
  afterTerm : Bool
  nextSmallest : Int
  nextBiggest : Int
  isReturning : Bool
  i : Nat
  tracker : Tracker

def byteAt (code : Array Nat) (k : Nat) : V Nat :=
  match code[k]? with
  | some b => .ok b
  | none => .panic

/-- `read_u16(code.as_ptr().add(k))` -/
def readU16 (code : Array Nat) (k : Nat) : V Nat :=
  match code[k]?, code[k + 1]? with
  | some a, some b => .ok (a * 256 + b)
  | _, _ => .panic

def toI16 (v : Nat) : Int := if v ≥ 32768 then (v : Int) - 65536 else v

/-- `read_i16` -/
def readI16 (code : Array Nat) (k : Nat) : V Int := do
  let v ← readU16 code k
  pure (toI16 v)

/-- `jumps[k].mark_as_immediate()?` -/
def markImm (jumps : Array InstrInfo) (k : Nat) : V (Array InstrInfo) :=
  match jumps[k]? with
  | none => .panic
  | some info =>
    if info.isJumpdest then .err .JumpToImmediateBytes
    else .ok (jumps.setIfInBounds k { info with isImm := true })

/-- marks `start, start+1, …, start+n-1` -/
def markImmRange (jumps : Array InstrInfo) (start : Nat) : Nat → V (Array InstrInfo)
  | 0 => .ok jumps
  | n + 1 => do
    let jumps ← markImm jumps start
    markImmRange jumps (start + 1) n

/-- the RJUMPV vtable: entries `from … len-1`, absolute targets -/
def readVtable (code : Array Nat) (i extra : Nat) (k : Nat) : Nat → V (List Int)
  | 0 => .ok []
  | n + 1 => do
    let offset ← readI16 code (i + 2 + 2 * k)
    let rest ← readVtable code i extra (k + 1) n
    pure ((offset + (i : Int) + 2 + (extra : Int)) :: rest)

/-- what the `match op { … }` of `validate_eof_code` computes -/
structure OpRes where
  req : Int
  diff : Int
  extra : Nat
  targets : List Int
  jumps : Array InstrInfo
  tracker : Tracker
  isReturning : Bool

def opSpecific (c : Ctx) (i op : Nat) (inf : OpInfo) (this : InstrInfo)
    (jumps : Array InstrInfo) (tr : Tracker) (isRet : Bool) : V OpRes :=
  let base : OpRes := { req := inf.inputs, diff := (inf.outputs : Int) - (inf.inputs : Int),
                        extra := 0, targets := [], jumps := jumps, tracker := tr,
                        isReturning := isRet }
  if op = RJUMP ∨ op = RJUMPI then do
    let offset ← readI16 c.code (i + 1)
    pure { base with targets := [offset + 3 + (i : Int)] }
  else if op = RJUMPV then do
    let maxIndex ← byteAt c.code (i + 1)
    let len := maxIndex + 1
    let extra := len * 2
    if i + 1 + extra ≥ c.code.size then .err .MissingRJUMPVImmediateBytes else do
    let jumps ← markImmRange jumps (i + 2) extra
    let targets ← readVtable c.code i extra 0 len
    pure { base with extra := extra, jumps := jumps, targets := targets }
  else if op = CALLF then do
    let sectionI ← readU16 c.code (i + 1)
    match c.types[sectionI]? with
    | none => .err .CodeSectionOutOfBounds
    | some tt =>
      if tt.isNonReturning then .err .CALLFNonReturningFunction else do
      let req : Int := tt.inputs
      let tr ← tr.accessCode sectionI
      if this.biggest - req + (tt.maxStackSize : Int) > STACK_LIMIT then .err .StackOverflow else
      pure { base with req := req, diff := tt.ioDiff, tracker := tr }
  else if op = JUMPF then do
    let targetIndex ← readU16 c.code (i + 1)
    match c.types[targetIndex]? with
    | none => .err .CodeSectionOutOfBounds
    | some tt =>
      if this.biggest - (tt.inputs : Int) + (tt.maxStackSize : Int) > STACK_LIMIT
      then .err .StackOverflow else do
      let tr ← tr.accessCode targetIndex
      if tt.isNonReturning then
        pure { base with req := tt.inputs, tracker := tr }
      else
        if c.thisTypes.outputs < tt.outputs then .err .JUMPFEnoughOutputs else
        let req : Int := (c.thisTypes.outputs : Int) + (tt.inputs : Int) - (tt.outputs : Int)
        if this.biggest > req then .err .JUMPFStackHigherThanOutputs else
        if this.biggest + req > STACK_LIMIT then .err .StackOverflow else
        pure { base with req := req, tracker := tr, isReturning := true }
  else if op = EOFCREATE then do
    let index ← byteAt c.code (i + 1)
    if index ≥ c.nContainers then .err .EOFCREATEInvalidIndex else do
    let tr ← tr.setSubcontainerType index .ReturnContract
    pure { base with tracker := tr }
  else if op = RETURNCONTRACT then do
    let index ← byteAt c.code (i + 1)
    if index ≥ c.nContainers then .err .EOFCREATEInvalidIndex else do
    let tr ← tr.requireType .ReturnContract
    let tr ← tr.setSubcontainerType index .ReturnOrStop
    pure { base with tracker := tr }
  else if op = RETURN ∨ op = STOP then do
    let tr ← tr.requireType .ReturnOrStop
    pure { base with tracker := tr }
  else if op = DATALOADN then do
    let index ← readU16 c.code (i + 1)
    if c.dataSize < 32 ∨ (index : Int) > (c.dataSize : Int) - 32 then .err .DataLoadOutOfBounds
    else pure base
  else if op = RETF then
    let req : Int := c.thisTypes.outputs
    if this.biggest > req then .err .RETFBiggestStackNumMoreThenOutputs
    else pure { base with req := req, isReturning := true }
  else if op = DUPN then do
    let b ← byteAt c.code (i + 1)
    pure { base with req := (b : Int) + 1 }
  else if op = SWAPN then do
    let b ← byteAt c.code (i + 1)
    pure { base with req := (b : Int) + 2 }
  else if op = EXCHANGE then do
    let imm ← byteAt c.code (i + 1)
    let n := imm / 16 % 16 + 1
    let m := imm % 16 + 1
    pure { base with req := (n : Int) + (m : Int) + 1 }
  else pure base

/-- one iteration of `for absolute_jump in absolute_jumpdest` -/
def processJump (codeLen i : Nat) (nextSmallest nextBiggest : Int) (jumps : Array InstrInfo)
    (t : Int) : V (Array InstrInfo) :=
  if t < 0 then .err .JumpUnderflow else
  if t ≥ (codeLen : Int) then .err .JumpOverflow else
  let a := t.toNat
  match jumps[a]? with
  | none => .panic
  | some target =>
    if target.isImm then .err .BackwardJumpToImmediateBytes else
    let target := { target with isJumpdest := true }
    if a ≤ i then
      if target.biggest ≠ nextBiggest then .err .BackwardJumpBiggestNumMismatch else
      if target.smallest ≠ nextSmallest then .err .BackwardJumpSmallestNumMismatch else
      .ok (jumps.setIfInBounds a target)
    else
      .ok (jumps.setIfInBounds a { target with smallest := min target.smallest nextSmallest,
                                               biggest := max target.biggest nextBiggest })

def processJumps (codeLen i : Nat) (nextSmallest nextBiggest : Int) :
    Array InstrInfo → List Int → V (Array InstrInfo)
  | jumps, [] => .ok jumps
  | jumps, t :: ts => do
    let jumps ← processJump codeLen i nextSmallest nextBiggest jumps t
    processJumps codeLen i nextSmallest nextBiggest jumps ts

/-- the body of `while i < code.len()` -/
def step (c : Ctx) (s : St) : V St := do
  let op ← byteAt c.code s.i
  match opInfo op with
  | none => .err .UnknownOpcode
  | some inf =>
    if inf.notEof then .err .OpcodeDisabled else
    match s.jumps[s.i]? with
    | none => .panic
    | some this0 =>
      let this : InstrInfo :=
        if !s.afterTerm then { this0 with smallest := min this0.smallest s.nextSmallest,
                                          biggest := max this0.biggest s.nextBiggest }
        else this0
      let jumps := s.jumps.setIfInBounds s.i this
      if s.afterTerm && !this.isJumpdest then .err .InstructionNotForwardAccessed else
      if inf.imm ≠ 0 ∧ s.i + inf.imm ≥ c.code.size then .err .MissingImmediateBytes else do
      let jumps ← markImmRange jumps (s.i + 1) inf.imm
      let r ← opSpecific c s.i op inf this jumps s.tracker s.isReturning
      if r.req > this.smallest then .err .StackUnderflow else do
      let nextSmallest := this.smallest + r.diff
      let nextBiggest := this.biggest + r.diff
      let jumps ← processJumps c.code.size s.i nextSmallest nextBiggest r.jumps r.targets
      pure { jumps := jumps, afterTerm := inf.terminating, nextSmallest := nextSmallest,
             nextBiggest := nextBiggest, isReturning := r.isReturning,
             i := s.i + 1 + inf.imm + r.extra, tracker := r.tracker }

def loop (c : Ctx) : Nat → St → V St
  | fuel, s =>
    if s.i < c.code.size then
      match fuel with
      | 0 => .err .ModelOutOfFuel
      | fuel + 1 => do
        let s ← step c s
        loop c fuel s
    else .ok s

/-- `validate_eof_code` -/
def validateEofCode (code : Array Nat) (dataSize thisTypesIndex nContainers : Nat)
    (types : Array TypesSection) (tracker : Tracker) : V Tracker :=
  match types[thisTypesIndex]? with
  | none => .panic
  | some thisTypes => do
    let c : Ctx := { code, dataSize, nContainers, types, thisTypes }
    let s0 : St := { jumps := Array.replicate code.size {}, afterTerm := false,
                     nextSmallest := thisTypes.inputs, nextBiggest := thisTypes.inputs,
                     isReturning := false, i := 0, tracker := tracker }
    let s ← loop c code.size s0
    if s.isReturning == thisTypes.isNonReturning then .err .NonReturningSectionIsReturning else
    if !s.afterTerm then .err .LastInstructionNotTerminating else
    let maxStackRequirement : Int := s.jumps.foldl (fun m o => max o.biggest m) 0
    if maxStackRequirement ≠ (thisTypes.maxStackSize : Int) then .err .MaxStackMismatch else
    pure s.tracker

/-- the `while let Some(index) = tracker.processing_stack.pop()` loop of `validate_eof_codes` -/
def codesLoop (e : Eof) (types : Array TypesSection) : Nat → Tracker → V Tracker
  | fuel, tr =>
    match tr.stack with
    | [] => .ok tr
    | index :: rest =>
      match fuel with
      | 0 => .err .ModelOutOfFuel
      | fuel + 1 =>
        match e.body.codeSection[index]? with
        | none => .panic
        | some code => do
          let tr ← validateEofCode code.toArray e.header.dataSize index
            e.body.containerSection.length types { tr with stack := rest }
          codesLoop e types fuel tr

def unwrapAll : List (Option CodeType) → V (List CodeType)
  | [] => .ok []
  | none :: _ => .panic
  | some t :: r => do
    let r ← unwrapAll r
    pure (t :: r)

/-- `validate_eof_codes` -/
def validateEofCodes (e : Eof) (thisCodeType : Option CodeType) : V (List CodeType) :=
  if e.body.codeSection.length ≠ e.body.typesSection.length then .err .InvalidTypesSection else
  if e.body.codeSection.isEmpty then .err .NoCodeSections else
  match e.body.typesSection[0]? with
  | none => .panic
  | some firstTypes =>
    if firstTypes.inputs ≠ 0 ∨ !firstTypes.isNonReturning then .err .InvalidTypesSection else do
    let tracker ← Tracker.new thisCodeType e.body.codeSection.length e.body.containerSection.length
    let tracker ← codesLoop e e.body.typesSection.toArray (e.body.codeSection.length + 1) tracker
    if !tracker.codes.all id then .err .CodeSectionNotAccessed else
    if !tracker.subs.all Option.isSome then .err .SubContainerNotAccessed else
    if tracker.thisType == some .ReturnContract && !e.body.isDataFilled then .err .DataNotFilled
    else unwrapAll tracker.subs.toList

abbrev E := R EofErr

/-- `Eof::decode(container.clone())?` for every `(container, code_type)` of the zip, in order -/
def decodeChildren : List (List Nat) → List CodeType → E (List (Eof × Option CodeType))
  | c :: cs, t :: ts => do
    let e ← (Eof.decode c).mapErr EofErr.Decode
    let r ← decodeChildren cs ts
    pure ((e, some t) :: r)
  | _, _ => .ok []

/-- the `while let Some((eof, code_type)) = stack.pop()` loop of `validate_eof_inner`
(`stack`: most recently pushed first) -/
def innerLoop : Nat → List (Eof × Option CodeType) → E Unit
  | _, [] => .ok ()
  | 0, _ :: _ => .err (.Validation .ModelOutOfFuel)
  | fuel + 1, (e, codeType) :: rest => do
    let trackerContainers ← (validateEofCodes e codeType).mapErr EofErr.Validation
    let children ← decodeChildren e.body.containerSection trackerContainers
    innerLoop fuel (children.reverse ++ rest)

/-- `validate_eof_inner` -/
def validateEofInner (e : Eof) (firstCodeType : Option CodeType) : E Unit :=
  if !e.body.isDataFilled then .err (.Validation .DataNotFilled) else
  if e.body.containerSection.isEmpty then do
    let _ ← (validateEofCodes e firstCodeType).mapErr EofErr.Validation
    pure ()
  else innerLoop (e.raw.length + 1) [(e, firstCodeType)]

/-- `validate_raw_eof_inner` -/
def validateRawEofInner (raw : List Nat) (firstCodeType : Option CodeType) : E Eof :=
  if raw.length > MAX_INITCODE_SIZE then .err (.Decode .InvalidEOFSize) else do
  let e ← (Eof.decode raw).mapErr EofErr.Decode
  validateEofInner e firstCodeType
  pure e

/-- `validate_raw_eof` -/
def validateRawEof (raw : List Nat) : E Eof := validateRawEofInner raw (some .ReturnContract)

end Revm.Model.EofValidate
