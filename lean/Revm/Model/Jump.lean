import Revm.Util.Word
/-! Model of the legacy jump-destination analysis and of JUMP / JUMPI target handling.

Rust sources mirrored (function by function):
* `crates/interpreter/src/interpreter/analysis.rs`: `to_analysed` (padding with 33 zero bytes), `analyze`
  (pointer scan, `BitVec` of `code.len()` bits)
* `crates/primitives/src/bytecode/legacy/jump_map.rs`: `JumpTable::is_valid`
* `crates/primitives/src/bytecode.rs`: `Bytecode::legacy_jump_table`, `is_execution_ready`
* `crates/interpreter/src/interpreter/contract.rs`: `Contract::new` (always `to_analysed`), `is_valid_jump`
* `crates/interpreter/src/instructions/control.rs`: `jump`, `jumpi`, `jump_inner`
* `crates/interpreter/src/instructions/macros.rs`: `gas!`, `pop!`, `as_usize_or_fail!`

Bytes are `List Nat` (each `< 256`), the bit vector is a `List Bool`, words are `Nat < W`. -/
namespace Revm.Model.Jump
open Revm

def JUMPDEST : Nat := 0x5b
def PUSH1 : Nat := 0x60

/-- `u8::wrapping_sub` -/
def u8WrappingSub (a b : Nat) : Nat := (a + 256 - b) % 256

/-- `padded_bytecode.extend_from_slice(&bytecode); padded_bytecode.resize(len + 33, 0)` -/
def pad (code : List Nat) : List Nat := code ++ List.replicate 33 0

/-- the `while iterator < end` loop of `analyze`; `i` is `iterator.offset_from(start)`.
`jumps.set_unchecked(i, true)` is `List.set` (always in range here: `jumps.length = code.length`). -/
def analyzeLoop (code : List Nat) (i : Nat) (jumps : List Bool) : List Bool :=
  if h : i < code.length then
    let opcode := code[i]
    if opcode = JUMPDEST then
      analyzeLoop code (i + 1) (jumps.set i true)
    else
      let pushOffset := u8WrappingSub opcode PUSH1
      if pushOffset < 32 then
        analyzeLoop code (i + (pushOffset + 2)) jumps
      else
        analyzeLoop code (i + 1) jumps
  else jumps
termination_by code.length - i

/-- `analyze(code)`: `bitvec![u8, Lsb0; 0; code.len()]`, then the scan -/
def analyze (code : List Nat) : List Bool :=
  analyzeLoop code 0 (List.replicate code.length false)

/-- `LegacyAnalyzedBytecode` -/
structure Analyzed where
  bytecode : List Nat
  originalLen : Nat
  jumpTable : List Bool
deriving DecidableEq, Repr

/-- `Bytecode`; the EOF and EIP-7702 variants carry no legacy jump table and are returned as they are
by `to_analysed`, so they are one constructor here. -/
inductive Bytecode
  | legacyRaw (b : List Nat)
  | legacyAnalyzed (a : Analyzed)
  | other
deriving DecidableEq, Repr

/-- `to_analysed` -/
def toAnalysed : Bytecode → Bytecode
  | .legacyRaw b =>
    let len := b.length
    let padded := pad b
    .legacyAnalyzed ⟨padded, len, analyze padded⟩
  | n => n

/-- `JumpTable::is_valid`: `pc < self.0.len() && self.0[pc]` -/
def isValid (jt : List Bool) (pc : Nat) : Bool :=
  if h : pc < jt.length then jt[pc] else false

/-- `Bytecode::legacy_jump_table` -/
def Bytecode.legacyJumpTable : Bytecode → Option (List Bool)
  | .legacyAnalyzed a => some a.jumpTable
  | _ => none

/-- `Bytecode::is_execution_ready` -/
def Bytecode.isExecutionReady : Bytecode → Bool
  | .legacyRaw _ => false
  | _ => true

/-- `Contract::new`: the only thing it does to the bytecode is `to_analysed` -/
def contractNew (bc : Bytecode) : Bytecode := toAnalysed bc

/-- `Contract::is_valid_jump` -/
def isValidJump (bc : Bytecode) (pos : Nat) : Bool :=
  match bc.legacyJumpTable with
  | some jt => isValid jt pos
  | none => false

/-- the `InstructionResult`s that occur here -/
inductive IResult
  | Continue | Stop | OutOfGas | StackUnderflow | InvalidJump
deriving DecidableEq, Repr

def IResult.name : IResult → String
  | .Continue => "Continue" | .Stop => "Stop" | .OutOfGas => "OutOfGas"
  | .StackUnderflow => "StackUnderflow" | .InvalidJump => "InvalidJump"

/-- the part of `Interpreter` the jump instructions touch. `pc` is
`instruction_pointer - bytecode.as_ptr()` (already incremented past the opcode by `step`),
`stack` has its top first, `gas` is `gas.remaining`. -/
structure Interp where
  bytecode : Bytecode
  pc : Nat
  stack : List Nat
  gas : Nat
  result : IResult
deriving DecidableEq, Repr

/-- `Gas::record_cost` (overflowing_sub on `remaining`) -/
def recordCost (s : Interp) (cost : Nat) : Option Interp :=
  if cost ≤ s.gas then some { s with gas := s.gas - cost } else none

def U192 : Nat := 2^192
theorem U192_val : U192 = 6277101735386680763835789423207666416102355444464034512896 := by
  unfold U192; rfl

/-- `as_usize_or_fail!` on a 64-bit target: limbs `x[0..3]`, fail when
`(x[0] > usize::MAX as u64) | (x[1] != 0) | (x[2] != 0) | (x[3] != 0)` -/
def asUsizeOrFail (v : Nat) : Option Nat :=
  let x0 := v % U64
  let x1 := v / U64 % U64
  let x2 := v / U128 % U64
  let x3 := v / U192 % U64
  if x0 > U64 - 1 ∨ x1 ≠ 0 ∨ x2 ≠ 0 ∨ x3 ≠ 0 then none else some x0

/-- `jump_inner` -/
def jumpInner (s : Interp) (target : Nat) : Interp :=
  match asUsizeOrFail target with
  | none => { s with result := .InvalidJump }
  | some t =>
    if !isValidJump s.bytecode t then { s with result := .InvalidJump }
    else { s with pc := t }

/-- gas::MID, gas::HIGH -/
def MID : Nat := 8
def HIGH : Nat := 10

/-- `jump`: `gas!(MID); pop!(target); jump_inner` -/
def jump (s : Interp) : Interp :=
  match recordCost s MID with
  | none => { s with result := .OutOfGas }
  | some s =>
    match s.stack with
    | target :: rest => jumpInner { s with stack := rest } target
    | [] => { s with result := .StackUnderflow }

/-- `jumpi`: `gas!(HIGH); pop!(target, cond); if !cond.is_zero() { jump_inner }` -/
def jumpi (s : Interp) : Interp :=
  match recordCost s HIGH with
  | none => { s with result := .OutOfGas }
  | some s =>
    match s.stack with
    | target :: cond :: rest =>
      let s := { s with stack := rest }
      if cond ≠ 0 then jumpInner s target else s
    | _ => { s with result := .StackUnderflow }

end Revm.Model.Jump
