import Revm.Util.Word
/-! Model of the handler (re)configuration paths of `crates/revm/src/handler.rs`, `builder.rs`,
`evm.rs::{modify, modify_spec_id}`, `optimism/handler_register.rs::optimism_handle_register` and of the
post-execution fee stage (`handle_types/post_execution.rs`, `mainnet/post_execution.rs`,
`optimism/handler_register.rs::reward_beneficiary`), as of /repo commit 578545da (rebuilds read
`self.post_execution.reward_beneficiary.is_some()`). The behaviour before that commit (hard-coded
`true`) is kept as `…Old` for the regression theorem.

A `Handler` is reduced to what decides who is paid: `cfg` (spec id, `is_optimism`), the slot
`post_execution.reward_beneficiary : Option<…>` (`none` | mainnet handle | optimism handle), whether the
other optimism handles (validation, deduct_caller, reimburse, …) are installed, and the list of
registers. A register is modelled by its effect on the reward slot:

* `neutral`  — any register that does not assign `post_execution.reward_beneficiary` (the inspector
  register, instruction-table registers, a no-op register);
* `optimism b` — `optimism_handle_register(b)`: installs the optimism handles and, iff `b`, the
  optimism reward handle;
* `generic f` — an arbitrary user register, as an arbitrary function `f` on the slot.

Build assumption: the features `optimism-default-handler` / `negate-…` are off (the harness builds
`revm` with `optimism` only), so `HandlerCfg::new(spec).is_optimism = false`. -/
namespace Revm.Model.HandlerCfg
open Revm

/-- `SpecId` of the `optimism` build (a superset of the default build's enum), by name -/
inductive Spec
  | FRONTIER | FRONTIER_THAWING | HOMESTEAD | DAO_FORK | TANGERINE | SPURIOUS_DRAGON | BYZANTIUM
  | CONSTANTINOPLE | PETERSBURG | ISTANBUL | MUIR_GLACIER | BERLIN | LONDON | ARROW_GLACIER
  | GRAY_GLACIER | MERGE | BEDROCK | REGOLITH | SHANGHAI | CANYON | CANCUN | ECOTONE | FJORD
  | GRANITE | HOLOCENE | PRAGUE | OSAKA | ISTHMUS | LATEST
  deriving DecidableEq, Repr, Inhabited

namespace Spec
def all : List Spec :=
  [FRONTIER, FRONTIER_THAWING, HOMESTEAD, DAO_FORK, TANGERINE, SPURIOUS_DRAGON, BYZANTIUM,
   CONSTANTINOPLE, PETERSBURG, ISTANBUL, MUIR_GLACIER, BERLIN, LONDON, ARROW_GLACIER, GRAY_GLACIER,
   MERGE, BEDROCK, REGOLITH, SHANGHAI, CANYON, CANCUN, ECOTONE, FJORD, GRANITE, HOLOCENE, PRAGUE,
   OSAKA, ISTHMUS, LATEST]

def name : Spec → String
  | FRONTIER => "FRONTIER" | FRONTIER_THAWING => "FRONTIER_THAWING" | HOMESTEAD => "HOMESTEAD"
  | DAO_FORK => "DAO_FORK" | TANGERINE => "TANGERINE" | SPURIOUS_DRAGON => "SPURIOUS_DRAGON"
  | BYZANTIUM => "BYZANTIUM" | CONSTANTINOPLE => "CONSTANTINOPLE" | PETERSBURG => "PETERSBURG"
  | ISTANBUL => "ISTANBUL" | MUIR_GLACIER => "MUIR_GLACIER" | BERLIN => "BERLIN" | LONDON => "LONDON"
  | ARROW_GLACIER => "ARROW_GLACIER" | GRAY_GLACIER => "GRAY_GLACIER" | MERGE => "MERGE"
  | BEDROCK => "BEDROCK" | REGOLITH => "REGOLITH" | SHANGHAI => "SHANGHAI" | CANYON => "CANYON"
  | CANCUN => "CANCUN" | ECOTONE => "ECOTONE" | FJORD => "FJORD" | GRANITE => "GRANITE"
  | HOLOCENE => "HOLOCENE" | PRAGUE => "PRAGUE" | OSAKA => "OSAKA" | ISTHMUS => "ISTHMUS"
  | LATEST => "LATEST"

def parse? (s : String) : Option Spec := all.find? (fun x => x.name == s)

/-- `SpecId as u8` in the optimism build; the default build's enum is the sub-order of it -/
def ord : Spec → Nat
  | FRONTIER => 0 | FRONTIER_THAWING => 1 | HOMESTEAD => 2 | DAO_FORK => 3 | TANGERINE => 4
  | SPURIOUS_DRAGON => 5 | BYZANTIUM => 6 | CONSTANTINOPLE => 7 | PETERSBURG => 8 | ISTANBUL => 9
  | MUIR_GLACIER => 10 | BERLIN => 11 | LONDON => 12 | ARROW_GLACIER => 13 | GRAY_GLACIER => 14
  | MERGE => 15 | BEDROCK => 16 | REGOLITH => 17 | SHANGHAI => 18 | CANYON => 19 | CANCUN => 20
  | ECOTONE => 21 | FJORD => 22 | GRANITE => 23 | HOLOCENE => 24 | PRAGUE => 25 | OSAKA => 26
  | ISTHMUS => 27 | LATEST => 255

/-- `spec_to_generic!`: the `SPEC::SPEC_ID` of the marker type chosen for a `SpecId` -/
def canon : Spec → Spec
  | FRONTIER_THAWING => FRONTIER
  | DAO_FORK => HOMESTEAD
  | CONSTANTINOPLE => PETERSBURG
  | MUIR_GLACIER => ISTANBUL
  | ARROW_GLACIER => LONDON
  | GRAY_GLACIER => LONDON
  | s => s

/-- `SPEC::enabled(LONDON)` of the marker type the handles are instantiated with -/
def london (s : Spec) : Bool := decide (12 ≤ (canon s).ord)
end Spec

/-! ### Handler and registers -/

inductive RewardKind | mainnet | optimism
  deriving DecidableEq, Repr

/-- `post_execution.reward_beneficiary` -/
abbrev Reward := Option RewardKind

inductive Register
  /-- does not assign `post_execution.reward_beneficiary` (inspector, instruction table, no-op …) -/
  | neutral (tag : Nat)
  /-- `optimism_handle_register(with_reward_beneficiary)` -/
  | optimism (withReward : Bool)
  /-- arbitrary user register: an arbitrary function on the slot -/
  | generic (tag : Nat) (f : Reward → Reward)

/-- effect of running the register closure on the reward slot -/
def Register.eff : Register → Reward → Reward
  | .neutral _, r => r
  | .optimism b, r => if b then some .optimism else r
  | .generic _ f, r => f r

/-- does the register install the other optimism handles -/
def Register.installsOptimism : Register → Bool
  | .optimism _ => true
  | _ => false

structure Handler where
  /-- `cfg.spec_id` -/
  spec : Spec
  /-- `cfg.is_optimism` (always `false` in the default build, where the field does not exist) -/
  isOptimism : Bool
  /-- `post_execution.reward_beneficiary` -/
  reward : Reward
  /-- validation / pre-execution / reimburse / output … are the optimism functions -/
  optHandles : Bool
  registers : List Register

/-- `Handler::mainnet::<SPEC>(with_reward_beneficiary)` through `mainnet_with_spec` (`spec_to_generic!`) -/
def mainnetWithSpec (s : Spec) (withReward : Bool) : Handler :=
  { spec := s.canon, isOptimism := false,
    reward := if withReward then some .mainnet else none,
    optHandles := false, registers := [] }

/-- `append_handler_register{,_plain,_box}`: run the register, then push it -/
def appendRegister (h : Handler) (r : Register) : Handler :=
  { h with reward := r.eff h.reward,
           optHandles := h.optHandles || r.installsOptimism,
           registers := h.registers ++ [r] }

/-- `Handler::optimism_with_spec(spec, with_reward_beneficiary)` -/
def optimismWithSpec (s : Spec) (withReward : Bool) : Handler :=
  appendRegister { mainnetWithSpec s withReward with isOptimism := true } (.optimism withReward)

/-- `Handler::new(cfg)` — an explicit reset: rewards are enabled whatever they were -/
def handlerNew (s : Spec) (isOptimism : Bool) : Handler :=
  if isOptimism then optimismWithSpec s true else mainnetWithSpec s true

/-- `for register in registers { base.append_handler_register(register) }` -/
def reapply (base : Handler) (regs : List Register) : Handler := regs.foldl appendRegister base

/-- `pop_handle_register` (repaired): nothing when there is no register; otherwise rebuild the
mainnet base for `cfg.spec_id` with the CURRENT reward setting and re-apply the remaining registers.
`*self = base_handler` also replaces `cfg` (so `is_optimism` is lost). -/
def popHandleRegister (h : Handler) : Handler :=
  if h.registers.isEmpty then h
  else reapply (mainnetWithSpec h.spec h.reward.isSome) h.registers.dropLast

/-- `create_handle_generic::<SPEC>()`: `(self afterwards, returned handler)`; `self` keeps its handles
but its register list was taken -/
def createHandleGeneric (h : Handler) (s : Spec) : Handler × Handler :=
  ({ h with registers := [] }, reapply (mainnetWithSpec s h.reward.isSome) h.registers)

/-- `modify_spec_id` (repaired) -/
def modifySpecId (h : Handler) (s : Spec) : Handler :=
  if h.spec = s then h
  else
    let h' := reapply (mainnetWithSpec s h.reward.isSome) h.registers
    { h' with spec := s, isOptimism := h.isOptimism }

/-! #### the code before commit 578545da: `true` hard-coded in the three rebuilds -/
def popHandleRegisterOld (h : Handler) : Handler :=
  if h.registers.isEmpty then h else reapply (mainnetWithSpec h.spec true) h.registers.dropLast
def createHandleGenericOld (h : Handler) (s : Spec) : Handler × Handler :=
  ({ h with registers := [] }, reapply (mainnetWithSpec s true) h.registers)
def modifySpecIdOld (h : Handler) (s : Spec) : Handler :=
  if h.spec = s then h
  else
    let h' := reapply (mainnetWithSpec s true) h.registers
    { h' with spec := s, isOptimism := h.isOptimism }

/-! ### Reconfiguration operations on an `Evm` (only the handler matters here) -/

inductive Op
  /-- `Evm::modify_spec_id(s)` / `Handler::modify_spec_id(s)` -/
  | modifySpecId (s : Spec)
  /-- `evm.modify().with_spec_id(s).build()` -/
  | builderSpecId (s : Spec)
  /-- `handler.append_handler_register{,_plain,_box}(r)` -/
  | append (r : Register)
  /-- `evm.modify().append_handler_register{,_box}(r).build()` -/
  | builderAppend (r : Register)
  /-- `handler.pop_handle_register()` -/
  | pop
  /-- `handler = handler.create_handle_generic::<S>()` -/
  | createGeneric (s : Spec)
  /-- `let _ = handler.create_handle_generic::<S>()` (result dropped) -/
  | createGenericDrop (s : Spec)
  /-- `evm.modify().build()` (also with `modify_env`, `with_tx_env`, `modify_db` … in between) -/
  | rebuild
  /-- explicit reset: `builder.reset_handler()` / `reset_handler_with_db` / `…_with_ref_db` /
      `…_with_empty_db` / `…_with_external_context`, `Handler::new(handler.cfg)` -/
  | resetHandler
  /-- explicit reset: `builder.mainnet()` / `reset_handler_with_mainnet()` -/
  | builderMainnet
  /-- explicit reset: `builder.optimism()` = `Handler::optimism_with_spec(cfg.spec_id, true)` -/
  | builderOptimism

def Op.isReset : Op → Bool
  | .resetHandler | .builderMainnet | .builderOptimism => true
  | _ => false

def step (h : Handler) : Op → Handler
  | .modifySpecId s => modifySpecId h s
  | .builderSpecId s => modifySpecId h s
  | .append r => appendRegister h r
  | .builderAppend r => appendRegister h r
  | .pop => popHandleRegister h
  | .createGeneric s => (createHandleGeneric h s).2
  | .createGenericDrop s => (createHandleGeneric h s).1
  | .rebuild => h
  | .resetHandler => handlerNew h.spec h.isOptimism
  | .builderMainnet => mainnetWithSpec h.spec true
  | .builderOptimism => optimismWithSpec h.spec true

def run (h : Handler) (ops : List Op) : Handler := ops.foldl step h

/-- the same with the rebuild paths as they were before the repair -/
def stepOld (h : Handler) : Op → Handler
  | .modifySpecId s => modifySpecIdOld h s
  | .builderSpecId s => modifySpecIdOld h s
  | .pop => popHandleRegisterOld h
  | .createGeneric s => (createHandleGenericOld h s).2
  | .createGenericDrop s => (createHandleGenericOld h s).1
  | op => step h op

def runOld (h : Handler) (ops : List Op) : Handler := ops.foldl stepOld h

/-! ### The fee stage of a transaction

Journal state of one transaction restricted to what the fee stage reads and writes. `none` = the
account was never loaded, i.e. it is absent from the `EvmState` returned by `transact`. `σ` is
everything else the execution produced (storage, logs, output, result, gas) — opaque here. -/

abbrev Addr := Nat

structure Acct where
  bal : Nat
  nonce : Nat
  touched : Bool
  deriving DecidableEq, Repr

abbrev JState := Addr → Option Acct
/-- the database: every address has an `AccountInfo` (default for unknown ones) -/
abbrev Db := Addr → Acct

/-- `journaled_state.load_account(a, db)`: brings the account in (untouched) if it is not there -/
def load (db : Db) (st : JState) (a : Addr) : JState :=
  fun x => if x = a then (match st a with | some v => some v | none => some { db a with touched := false }) else st x

def modifyAcct (st : JState) (a : Addr) (f : Acct → Acct) : JState :=
  fun x => if x = a then (st a).map f else st x

/-- what `load` leaves at the loaded address -/
def loaded (db : Db) (st : JState) (a : Addr) : Acct :=
  match st a with | some v => v | none => { db a with touched := false }

/-- `load_account` + `mark_touch` + `balance = balance.saturating_add(v)` -/
def creditSat (db : Db) (st : JState) (a : Addr) (v : Nat) : JState :=
  modifyAcct (load db st a) a (fun acc => { acc with touched := true, bal := U256.saturatingAdd acc.bal v })

/-- `load_account` + `mark_touch` + `balance += v` (ruint `+=` wraps) -/
def creditWrap (db : Db) (st : JState) (a : Addr) (v : Nat) : JState :=
  modifyAcct (load db st a) a (fun acc => { acc with touched := true, bal := U256.wadd acc.bal v })

def L1_FEE_RECIPIENT : Addr := 0x420000000000000000000000000000000000001A
def BASE_FEE_RECIPIENT : Addr := 0x4200000000000000000000000000000000000019
def OPERATOR_FEE_RECIPIENT : Addr := 0x420000000000000000000000000000000000001B

structure FeeEnv where
  caller : Addr
  coinbase : Addr
  gasPrice : Nat
  prio : Option Nat
  basefee : Nat
  /-- `SPEC::enabled(LONDON)` of the handles -/
  london : Bool
  /-- optimism: `l1_block_info` and `enveloped_tx` are present (they are after optimism validation of a
  non-deposit transaction); `(l1_cost, operator_fee_charge(spent − refunded))` -/
  l1 : Option (Nat × Nat)

/-- `Env::effective_gas_price` -/
def FeeEnv.effGasPrice (e : FeeEnv) : Nat :=
  match e.prio with
  | some p => min e.gasPrice (U256.wadd e.basefee p)
  | none => e.gasPrice

/-- price per gas that goes to the coinbase -/
def FeeEnv.coinbasePrice (e : FeeEnv) : Nat :=
  if e.london then U256.saturatingSub e.effGasPrice e.basefee else e.effGasPrice

/-- `mainnet::reward_beneficiary`; `used = gas.spent() - gas.refunded()` -/
def rewardMainnet (db : Db) (e : FeeEnv) (used : Nat) (st : JState) : JState :=
  creditSat db st e.coinbase (U256.wmul e.coinbasePrice used)

/-- `optimism::reward_beneficiary` for a non-deposit transaction; `none` = `Err(EVMError::Custom)` -/
def rewardOptimism (db : Db) (e : FeeEnv) (used : Nat) (st : JState) : Option JState :=
  let st := rewardMainnet db e used st
  match e.l1 with
  | none => none
  | some (l1Cost, opFee) =>
    let st := creditWrap db st L1_FEE_RECIPIENT l1Cost
    let st := creditWrap db st BASE_FEE_RECIPIENT (U256.wmul e.basefee used)
    some (creditWrap db st OPERATOR_FEE_RECIPIENT opFee)

/-- `PostExecutionHandler::reward_beneficiary`: the stage is skipped when the slot is `None` -/
def rewardStage (rw : Reward) (db : Db) (e : FeeEnv) (used : Nat) (st : JState) : Option JState :=
  match rw with
  | none => some st
  | some .mainnet => some (rewardMainnet db e used st)
  | some .optimism => rewardOptimism db e used st

/-- the accounts a reward handle may pay -/
def feeRecipients (e : FeeEnv) : Reward → List Addr
  | none => []
  | some .mainnet => [e.coinbase]
  | some .optimism => [e.coinbase, L1_FEE_RECIPIENT, BASE_FEE_RECIPIENT, OPERATOR_FEE_RECIPIENT]

/-- `mainnet::reimburse_caller`; `back = gas.remaining() + gas.refunded()` -/
def reimburseCaller (db : Db) (e : FeeEnv) (back : Nat) (st : JState) : JState :=
  modifyAcct (load db st e.caller) e.caller
    (fun acc => { acc with bal := U256.saturatingAdd acc.bal (U256.wmul e.effGasPrice back) })

/-- tail of `transact_preverified_inner` after `refund`: `reimburse_caller`, `reward_beneficiary`,
`output` (which returns the state and the execution's own results `x` unchanged) -/
def postExecution {σ : Type} (rw : Reward) (db : Db) (e : FeeEnv) (used back : Nat) (st : JState) (x : σ) :
    Option (JState × σ) :=
  (rewardStage rw db e used (reimburseCaller db e back st)).map (fun s => (s, x))

/-! ### A whole (simple) transaction on a handler, for the correspondence stream

The harness runs four fixed shapes of call transaction on the real `Evm`; the interpreter's gas
consumption is a parameter (`used`, measured on a freshly built default EVM), everything that touches
balances is modelled: validation of the fee fields, `deduct_caller`, the value transfer of the first
frame, `reimburse_caller`, the reward stage selected by the handler. Non-deposit transactions only;
on optimism handles the L1 cost is a parameter (`l1`, computed by `L1BlockInfo`), the operator fee
parameters in the L1 block contract are zero. The caller's balance always covers the maximum cost. -/

def CALLER : Addr := 0xca
def RECIP : Addr := 0xbb
def CONTRACT : Addr := 0xcc
def COINBASE : Addr := 0xc0

inductive TxKind
  /-- value transfer to an EOA -/
  | xfer
  /-- value transfer to the block's coinbase -/
  | tocb
  /-- the caller is the block's coinbase -/
  | self
  /-- call of a contract that reads `BALANCE(COINBASE)`, stores and logs -/
  | call
  deriving DecidableEq, Repr

structure Tx where
  kind : TxKind
  gasLimit : Nat
  gasPrice : Nat
  prio : Option Nat
  basefee : Nat
  value : Nat
  /-- gas used by the transaction when it does not halt (parameter) -/
  used : Nat
  /-- optimism: L1 cost of the enveloped transaction under the current spec (parameter) -/
  l1 : Option Nat

def Tx.coinbase (tx : Tx) : Addr := match tx.kind with | .self => CALLER | _ => COINBASE
def Tx.target (tx : Tx) : Addr :=
  match tx.kind with | .xfer => RECIP | .tocb => COINBASE | .self => RECIP | .call => CONTRACT

def Tx.feeEnvOf (spec : Spec) (optHandles : Bool) (tx : Tx) : FeeEnv :=
  { caller := CALLER, coinbase := tx.coinbase, gasPrice := tx.gasPrice, prio := tx.prio,
    basefee := tx.basefee, london := spec.london,
    l1 := if optHandles then tx.l1.map (fun c => (c, 0)) else none }

def Tx.feeEnv (h : Handler) (tx : Tx) : FeeEnv := tx.feeEnvOf h.spec h.optHandles

inductive TxResult
  | ok
  | halt (reason : String)
  | err (e : String)
  deriving DecidableEq, Repr

/-- `Env::validate_tx` restricted to the fee fields the harness varies (same on optimism handles) -/
def validateFees (spec : Spec) (tx : Tx) : Option String :=
  let e := tx.feeEnvOf spec false
  if spec.london then
    if (match tx.prio with | some p => decide (p > tx.gasPrice) | none => false) then some "PriorityFeeGreaterThanMaxFee"
    else if e.effGasPrice < tx.basefee then some "GasPriceLessThanBasefee"
    else none
  else none

/-- everything up to and including `reimburse_caller` — it does not depend on the reward slot:
`error e` = rejected by validation, `ok (result, gas_used, journal state)` -/
def beforeReward (spec : Spec) (optHandles : Bool) (db : Db) (tx : Tx) : Except String (TxResult × Nat × JState) :=
  let e := tx.feeEnvOf spec optHandles
  match validateFees spec tx with
  | some err => .error err
  | none =>
    -- validation.tx_against_state: load the caller
    let st : JState := load db (fun _ => none) CALLER
    -- pre_execution.deduct_caller (+ L1 cost on optimism handles)
    let l1 := if optHandles then tx.l1.getD 0 else 0
    let st := modifyAcct st CALLER (fun a =>
      { a with bal := U256.saturatingSub (U256.saturatingSub a.bal (U256.saturatingMul tx.gasLimit e.effGasPrice)) l1,
               nonce := a.nonce + 1, touched := true })
    -- first frame: load the target, transfer the value
    let tgt := tx.target
    let st := load db st tgt
    let tbal := (loaded db st tgt).bal
    let overflow : Bool := decide (tbal + tx.value ≥ W)
    let (res, used, st) : TxResult × Nat × JState :=
      if overflow then (.halt "OverflowPayment", tx.gasLimit, st)
      else
        let st := modifyAcct st CALLER (fun a => { a with bal := a.bal - tx.value })
        let st := modifyAcct st tgt (fun a => { a with bal := a.bal + tx.value, touched := true })
        -- the contract reads BALANCE(COINBASE): loads it, no touch
        let st := if tx.kind = .call then load db st tx.coinbase else st
        (.ok, tx.used, st)
    .ok (res, used, reimburseCaller db e (tx.gasLimit - used) st)

/-- `(result, gas_used, returned state)`; on `err` no state is returned -/
def transact (h : Handler) (db : Db) (tx : Tx) : TxResult × Nat × JState :=
  match beforeReward h.spec h.optHandles db tx with
  | .error err => (.err err, 0, fun _ => none)
  | .ok (res, used, st) =>
    match rewardStage h.reward db (tx.feeEnv h) used st with
    | none => (.err "Custom", 0, fun _ => none)
    | some st => (res, used, st)

end Revm.Model.HandlerCfg
