/-! Code-shaped model of `crates/primitives/src/bytecode.rs` (`Bytecode` constructors and accessors),
`bytecode/legacy.rs` (`LegacyAnalyzedBytecode`), `eip7702/bytecode.rs` (`Eip7702Bytecode`) and
`interpreter/analysis.rs::{to_analysed, analyze}`.

Bytes are `List Nat`. Two things are **parameters**, not modelled here:
* `Eof::decode` (header/body codec, property C26): `dec : List Nat → Except EofErr ε`. The only fact
  of `Eof::decode` that the model keeps is structural in the Rust (`Ok(Self { header, body, raw })`):
  a successful decode stores the input as `raw`.
* keccak256: `keccak : List Nat → Nat` in `hashSlow`.
A Rust panic (`expect`, slice index out of range) is `Res.panic`, never a default value. -/
namespace Revm.Model.Bytecode

inductive Res (α : Type) where
  | ok (v : α)
  | panic
  deriving DecidableEq, Repr

/-! ## EIP-7702 -/

inductive Eip7702DecodeError where
  | InvalidLength | InvalidMagic | UnsupportedVersion
  deriving DecidableEq, Repr

def EIP7702_MAGIC_BYTES : List Nat := [0xef, 0x01]
def EIP7702_VERSION : Nat := 0

structure Eip7702Bytecode where
  delegatedAddress : List Nat
  version : Nat
  raw : List Nat
  deriving DecidableEq, Repr

/-- `Eip7702Bytecode::new_raw`: length 23, then `starts_with(ef01)`, then `raw[2] == 0`, then the
address is `raw[3..]` -/
def Eip7702Bytecode.newRaw (raw : List Nat) : Except Eip7702DecodeError Eip7702Bytecode :=
  if raw.length ≠ 23 then .error .InvalidLength else
  match raw with
  | m0 :: m1 :: v :: addr =>
    if ¬ (m0 = 0xef ∧ m1 = 0x01) then .error .InvalidMagic
    else if v ≠ EIP7702_VERSION then .error .UnsupportedVersion
    else .ok { delegatedAddress := addr, version := EIP7702_VERSION, raw := raw }
  | _ => .error .InvalidLength   -- fewer than 3 bytes: already rejected by the length test

/-- `Eip7702Bytecode::new(address)`: `ef01 ++ [00] ++ address` -/
def Eip7702Bytecode.new (address : List Nat) : Eip7702Bytecode :=
  { delegatedAddress := address, version := EIP7702_VERSION,
    raw := EIP7702_MAGIC_BYTES ++ [EIP7702_VERSION] ++ address }

def Eip7702Bytecode.address (e : Eip7702Bytecode) : List Nat := e.delegatedAddress

/-! ## EOF (decoder is a parameter) -/

abbrev EofErr := String

structure Eof (ε : Type) where
  payload : ε          -- header and body
  raw : List Nat

/-- `Eof::decode(raw)`: `Ok(Self { header, body, raw })` -/
def Eof.decode {ε : Type} (dec : List Nat → Except EofErr ε) (raw : List Nat) : Except EofErr (Eof ε) :=
  match dec raw with
  | .ok p => .ok { payload := p, raw := raw }
  | .error e => .error e

/-! ## legacy analysed -/

structure LegacyAnalyzed where
  bytecode : List Nat      -- padded
  originalLen : Nat
  jumpTable : List Bool
  deriving DecidableEq, Repr

/-- `LegacyAnalyzedBytecode::default()`: one STOP byte, original length 0, one cleared bit -/
def LegacyAnalyzed.default : LegacyAnalyzed := { bytecode := [0], originalLen := 0, jumpTable := [false] }

/-- `self.bytecode.slice(..self.original_len)` / `&self.bytecode[..self.original_len]`: panics when
`original_len` exceeds the length -/
def LegacyAnalyzed.originalBytes (a : LegacyAnalyzed) : Res (List Nat) :=
  if a.originalLen ≤ a.bytecode.length then .ok (a.bytecode.take a.originalLen) else .panic

/-- `analysis.rs::analyze`: a JUMPDEST (0x5b) outside push data sets its bit; PUSHn skips n bytes.
`skip` = number of immediate bytes still to pass. The table has one bit per byte of `code`. -/
def analyze : List Nat → Nat → List Bool
  | [], _ => []
  | _ :: rest, skip + 1 => false :: analyze rest skip
  | op :: rest, 0 =>
    if op = 0x5b then true :: analyze rest 0
    else if 0x60 ≤ op ∧ op ≤ 0x7f then false :: analyze rest (op - 0x5f)
    else false :: analyze rest 0

/-! ## Bytecode -/

inductive Bytecode (ε : Type) where
  | legacyRaw (bytes : List Nat)
  | legacyAnalyzed (a : LegacyAnalyzed)
  | eof (e : Eof ε)
  | eip7702 (e : Eip7702Bytecode)

inductive BytecodeDecodeError where
  | eof (e : EofErr)
  | eip7702 (e : Eip7702DecodeError)
  deriving DecidableEq, Repr

variable {ε : Type}

/-- `Bytecode::new()` / `default()` -/
def Bytecode.new : Bytecode ε := .legacyAnalyzed LegacyAnalyzed.default

def Bytecode.newLegacy (raw : List Nat) : Bytecode ε := .legacyRaw raw

def Bytecode.newEip7702 (address : List Nat) : Bytecode ε := .eip7702 (Eip7702Bytecode.new address)

/-- `Bytecode::new_raw_checked`: `bytecode.get(..2)` is compared with `ef00`, then with `ef01` -/
def Bytecode.newRawChecked (dec : List Nat → Except EofErr ε) (bytecode : List Nat) :
    Except BytecodeDecodeError (Bytecode ε) :=
  match bytecode with
  | p0 :: p1 :: _ =>
    if p0 = 0xef ∧ p1 = 0x00 then
      match Eof.decode dec bytecode with
      | .ok e => .ok (.eof e)
      | .error e => .error (.eof e)
    else if p0 = 0xef ∧ p1 = 0x01 then
      match Eip7702Bytecode.newRaw bytecode with
      | .ok e => .ok (.eip7702 e)
      | .error e => .error (.eip7702 e)
    else .ok (.legacyRaw bytecode)
  | _ => .ok (.legacyRaw bytecode)

/-- `Bytecode::new_raw`: `new_raw_checked(..).expect(..)` -/
def Bytecode.newRaw (dec : List Nat → Except EofErr ε) (bytecode : List Nat) : Res (Bytecode ε) :=
  match Bytecode.newRawChecked dec bytecode with
  | .ok b => .ok b
  | .error _ => .panic

/-- `original_bytes()` (and `original_byte_slice()`, the same bytes) -/
def Bytecode.originalBytes : Bytecode ε → Res (List Nat)
  | .legacyRaw b => .ok b
  | .legacyAnalyzed a => a.originalBytes
  | .eof e => .ok e.raw
  | .eip7702 e => .ok e.raw

/-- `len()`: `original_byte_slice().len()` -/
def Bytecode.len (b : Bytecode ε) : Res Nat :=
  match b.originalBytes with
  | .ok o => .ok o.length
  | .panic => .panic

/-- `is_empty()`: `len() == 0` -/
def Bytecode.isEmpty (b : Bytecode ε) : Res Bool :=
  match b.len with
  | .ok n => .ok (n == 0)
  | .panic => .panic

def KECCAK_EMPTY : Nat := 0xc5d2460186f7233c927e7db2dcc703c0e500b653ca82273b7bfad8045d85a470

/-- `hash_slow()`: `KECCAK_EMPTY` if empty, else `keccak256(original_byte_slice())` -/
def Bytecode.hashSlow (keccak : List Nat → Nat) (b : Bytecode ε) : Res Nat :=
  match b.isEmpty with
  | .panic => .panic
  | .ok true => .ok KECCAK_EMPTY
  | .ok false =>
    match b.originalBytes with
    | .ok o => .ok (keccak o)
    | .panic => .panic

/-- `bytes()` / `bytes_slice()`: the padded bytes for analysed code, else the original bytes -/
def Bytecode.bytes : Bytecode ε → Res (List Nat)
  | .legacyAnalyzed a => .ok a.bytecode
  | b => b.originalBytes

def Bytecode.isExecutionReady : Bytecode ε → Bool
  | .legacyRaw _ => false
  | _ => true

def Bytecode.isEof : Bytecode ε → Bool
  | .eof _ => true
  | _ => false

def Bytecode.isEip7702 : Bytecode ε → Bool
  | .eip7702 _ => true
  | _ => false

/-- `legacy_jump_table()` -/
def Bytecode.legacyJumpTable : Bytecode ε → Option (List Bool)
  | .legacyAnalyzed a => some a.jumpTable
  | _ => none

/-- `to_analysed`: raw legacy code is copied, padded with 33 zero bytes and analysed; everything
else is returned as it is -/
def toAnalysed : Bytecode ε → Bytecode ε
  | .legacyRaw bytecode =>
    let len := bytecode.length
    let padded := bytecode ++ List.replicate 33 0
    .legacyAnalyzed { bytecode := padded, originalLen := len, jumpTable := analyze padded 0 }
  | n => n

end Revm.Model.Bytecode
