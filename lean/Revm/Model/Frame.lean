import Revm.Model.Journal
/-! Code-shaped model of the CHECKPOINT DISCIPLINE of revm's frame machine, on top of the journal
model (`Revm.Model.Journal`):

* `crates/revm/src/context/evm_context.rs`   : `make_call_frame`, `call_precompile`, `make_create_frame`,
  `make_eofcreate_frame`
* `crates/revm/src/context/inner_evm_context.rs` : `call_return`, `create_return`, `eofcreate_return`
* `crates/revm/src/evm.rs` : `run_the_loop`, the first frame of `transact_preverified_inner`

Everything the paths branch on that is NOT stored in the journal is an explicit oracle input: the
precompile lookup and its result, code emptiness / EOF magic, init-code validity, the created address,
`has_storage`, the interpreter's result of a frame, code-deposit gas, output size and first byte. The
theorems in `Props/C07.lean` quantify over all of them, i.e. they hold for every program.

`none` is a Rust panic (`unwrap()` on a vacant map entry, `expect`, `leng - journal_i` underflow), as in
the journal model. A `Database` error or a fatal precompile error (`?` in the Rust) aborts the whole
transaction with `Err`: no frame result is produced; it is the outcome `FrameOrResult.fatal`. The journal
model's `Db` is infallible, so only the fatal precompile error is represented.

Paths of `make_call_frame` (evm_context.rs, line numbers of /repo HEAD):
  C1  L172 depth > CALL_STACK_LIMIT                    -> CallTooDeep, no checkpoint
      L177 load_account_delegated(bytecode_address)      (outside the checkpoint)
      L183 checkpoint()
  C2  L188 Transfer(0): load_account(target) + touch
  C3  L192 Transfer(v): transfer fails                 -> checkpoint_revert, OutOfFunds / OverflowPayment
      L205 Apparent: nothing
  C4  L210 not ext-delegate, precompile found, ok       -> checkpoint_commit, Return
  C5  L216 precompile found, not ok (OOG / error)       -> checkpoint_revert, PrecompileOOG / PrecompileError
  C6  L147 precompile fatal                             -> Err (transaction aborted)
      L226 load_code(bytecode_address)
  C7  L235 ext-delegate and code not starting EF00      -> checkpoint_revert (since 4cdd3651), InvalidExtDelegateCallTarget
  C8  L240 empty code                                   -> checkpoint_commit, Stop
      L245 EIP-7702 code: load_code(delegate)
  C9  L259 new frame carrying the checkpoint
Paths of `make_create_frame`:
  K1  L285 depth > limit -> CallTooDeep          K2 L290 OSAKA and init code starts EF00 -> CreateInitCodeStartingEF00
      L295 balance(caller) (load_account)        K3 L298 balance < value -> OutOfFunds
  K4  L304 inc_nonce overflow -> Return (address None)
  K5  L321 created address is a precompile -> CreateCollision
      L326 load_account(created)   L329 db.has_storage(created)
  K6  L335 create_account_checkpoint: collision -> (checkpoint, checkpoint_revert) CreateCollision
  K7         balance overflow -> (checkpoint, checkpoint_revert) OverflowPayment
  K8  L360 new frame carrying the checkpoint
Paths of `make_eofcreate_frame`:
  E1  L394 tx kind, container does not decode -> inc_nonce, InvalidEOFInitCode
  E2  L399 tx kind, container invalid          -> inc_nonce, InvalidEOFInitCode
  E3  L418 depth > limit -> CallTooDeep         E4 L426 OutOfFunds   E5 L431 nonce overflow -> Return
  E6  L440 precompile address -> CreateCollision   E7/E8 L454 create_account_checkpoint errors   E9 L482 frame
`call_return` (inner_evm_context.rs L307): ok -> commit, else revert.
`create_return` (L322): R1 not ok -> revert; R2 LONDON and first byte EF -> revert; R3 SPURIOUS_DRAGON and
  len > max -> revert; R4 deposit fails and HOMESTEAD -> revert; R5 deposit fails before HOMESTEAD -> empty
  output, commit, set_code; R6 commit, set_code.
`eofcreate_return` (L261): Q1 not ReturnContract -> revert; Q2 len > max -> revert; Q3 deposit fails -> revert;
  Q4 commit, `Eof::decode(..).expect(..)` (panic when it does not decode), set_code. -/
namespace Revm.Model.Frame
open Revm Revm.Model.Journal

/-- `CALL_STACK_LIMIT` (evm.rs L20) -/
def CALL_STACK_LIMIT : Nat := 1024

def HOMESTEAD : Nat := 2
def LONDON : Nat := 12
def OSAKA : Nat := 19

/-- the `InstructionResult`s that the frame machine itself produces (plus the two classes of results an
interpreter hands back) -/
inductive IRes
  | stop | ret | returnContract                 -- return_ok!
  | revert | callTooDeep | outOfFunds | createInitCodeStartingEF00 | invalidEOFInitCode
  | invalidExtDelegateCallTarget                -- return_revert!
  | outOfGas | precompileOOG | precompileError | overflowPayment | createCollision
  | createContractSizeLimit | createContractStartingWithEF
  | otherOk | otherRevert | otherHalt           -- what an interpreter returned, by class
deriving DecidableEq, Repr

/-- `return_ok!()` / `InstructionResult::is_ok` -/
def IRes.isOk : IRes → Bool
  | .stop | .ret | .returnContract | .otherOk => true
  | _ => false

inductive CallValue
  | transfer (v : Nat)
  | apparent (v : Nat)
deriving DecidableEq, Repr

structure CallInputs where
  caller : Addr
  target : Addr
  bytecodeAddr : Addr
  value : CallValue
  /-- `inputs.scheme.is_ext_delegate_call()` -/
  isExtDelegate : Bool
deriving Repr

/-- what `ContextPrecompiles::call` + `call_precompile` produce for an address that is a precompile -/
inductive PrecompileOutcome
  | ok            -- Ok(output) and `record_cost(gas_used)` succeeds
  | okOverGas     -- Ok(output) but `record_cost` fails -> PrecompileOOG
  | errOog        -- Err(Error(e)), e.is_oog()
  | errOther      -- Err(Error(e)) otherwise
  | fatal         -- Err(Fatal)
deriving DecidableEq, Repr

/-- answers, for one `make_call_frame`, to the questions that are outside the journal -/
structure CallOracle where
  /-- `None` = `bytecode_address` is not a precompile -/
  precompile : Option PrecompileOutcome
  /-- loaded code starts with EF00 -/
  codeIsEof : Bool
  /-- `bytecode.is_empty()` -/
  codeIsEmpty : Bool
deriving Repr

inductive FrameOrResult
  | result (r : IRes)
  | frame (cp : Checkpoint)
  | fatal
deriving DecidableEq, Repr

/-- `call_precompile` result classification -/
def PrecompileOutcome.toRes : PrecompileOutcome → Option IRes
  | .ok => some .ret
  | .okOverGas => some .precompileOOG
  | .errOog => some .precompileOOG
  | .errOther => some .precompileError
  | .fatal => none

/-- the value part of `make_call_frame` (L186-206), run inside the fresh checkpoint -/
def callValueStep (db : Db) (s : JState) (inp : CallInputs) : Option (JState × Option TransferErr) :=
  match inp.value with
  | .transfer v =>
    if v = 0 then do
      let (s, _) ← loadAccount db s inp.target
      let s ← touch s inp.target
      some (s, none)
    else transfer db s inp.caller inp.target v
  | .apparent _ => some (s, none)

def transferErrRes : TransferErr → IRes
  | .outOfFunds => .outOfFunds
  | .overflowPayment => .overflowPayment

/-- tail of `make_call_frame` from `load_code` on (L226-263). `closeExtDelegate = false` is the code before
commit 4cdd3651 (the InvalidExtDelegateCallTarget return left the checkpoint open). -/
def callTail (closeExtDelegate : Bool) (db : Db) (s : JState) (cp : Checkpoint) (inp : CallInputs) (o : CallOracle) :
    Option (JState × FrameOrResult) := do
  let (s, _) ← loadCode db s inp.bytecodeAddr
  let acc ← s.state inp.bytecodeAddr
  if inp.isExtDelegate ∧ !o.codeIsEof then
    if closeExtDelegate then do
      let s ← revert s cp
      some (s, .result .invalidExtDelegateCallTarget)
    else some (s, .result .invalidExtDelegateCallTarget)
  else if o.codeIsEmpty then some (commit s, .result .stop)
  else
    match acc.info.code.bind db.delegate with
    | some d => do
      let (s, _) ← loadCode db s d
      some (s, .frame cp)
    | none => some (s, .frame cp)

def makeCallFrameCore (closeExtDelegate : Bool) (db : Db) (s : JState) (inp : CallInputs) (o : CallOracle) :
    Option (JState × FrameOrResult) :=
  if s.depth > CALL_STACK_LIMIT then some (s, .result .callTooDeep) else do
  let (s, _, _, _) ← loadAccountDelegated db s inp.bytecodeAddr
  let (s, cp) := checkpoint s
  let (s, terr) ← callValueStep db s inp
  match terr with
  | some e => do
    let s ← revert s cp
    some (s, .result (transferErrRes e))
  | none =>
    match (if inp.isExtDelegate then none else o.precompile) with
    | some pc =>
      match pc.toRes with
      | none => some (s, .fatal)
      | some r =>
        if r.isOk then some (commit s, .result r)
        else do
          let s ← revert s cp
          some (s, .result r)
    | none => callTail closeExtDelegate db s cp inp o

/-- `make_call_frame` as it is in /repo HEAD -/
def makeCallFrame := makeCallFrameCore true
/-- `make_call_frame` before the repair 4cdd3651 (kept for the regression example) -/
def makeCallFrameOld := makeCallFrameCore false

/-- `call_return` -/
def callReturn (s : JState) (cp : Checkpoint) (resultOk : Bool) : Option JState :=
  if resultOk then some (commit s) else revert s cp

structure CreateInputs where
  caller : Addr
  value : Nat
deriving Repr

structure CreateOracle where
  /-- `inputs.init_code.starts_with(EF00)` -/
  initStartsEF00 : Bool
  /-- `caller.create(old_nonce)` / `caller.create2(salt, keccak(init_code))` as a function of the old nonce -/
  createdAddr : Nat → Addr
  /-- `self.precompiles.contains` -/
  isPrecompile : Addr → Bool
  /-- `db.has_storage` -/
  hasStorage : Addr → Bool

def createErrRes : CreateErr → IRes
  | .collision => .createCollision
  | .overflowPayment => .overflowPayment

/-- common tail of `make_create_frame` (L321-364) and `make_eofcreate_frame` (L440-486) -/
def createTail (db : Db) (s : JState) (specId : Nat) (caller : Addr) (value : Nat) (created : Addr)
    (isPrecompile : Addr → Bool) (hasStorage : Addr → Bool) : Option (JState × FrameOrResult × Addr) :=
  if isPrecompile created then some (s, .result .createCollision, created) else do
  let (s, _) ← loadAccount db s created
  let (s, r) ← createAccountCheckpoint s caller created (hasStorage created) value specId
  match r with
  | .ok cp => some (s, .frame cp, created)
  | .error e => some (s, .result (createErrRes e), created)

/-- `make_create_frame`; the third component is the created address of an opened frame -/
def makeCreateFrame (db : Db) (s : JState) (specId : Nat) (inp : CreateInputs) (o : CreateOracle) :
    Option (JState × FrameOrResult × Addr) :=
  if s.depth > CALL_STACK_LIMIT then some (s, .result .callTooDeep, 0) else
  if specId ≥ OSAKA ∧ o.initStartsEF00 then some (s, .result .createInitCodeStartingEF00, 0) else do
  let (s, _) ← loadAccount db s inp.caller
  let c ← s.state inp.caller
  if c.info.balance < inp.value then some (s, .result .outOfFunds, 0) else do
  let (s, n) ← incNonce s inp.caller
  match n with
  | none => some (s, .result .ret, 0)
  | some nonce => createTail db s specId inp.caller inp.value (o.createdAddr (nonce - 1)) o.isPrecompile o.hasStorage

inductive EofCreateKind
  | opcode (created : Addr)
  /-- `Tx { initdata }`: does it decode, does it validate, the address from `env.tx.nonce` if set -/
  | tx (decodes validates : Bool) (fromTxNonce : Option Addr)
deriving Repr

/-- `make_eofcreate_frame` -/
def makeEofCreateFrame (db : Db) (s : JState) (specId : Nat) (inp : CreateInputs) (kind : EofCreateKind)
    (o : CreateOracle) : Option (JState × FrameOrResult × Addr) :=
  let pre : Option (JState × Option (Option Addr)) :=
    match kind with
    | .opcode a => some (s, some (some a))
    | .tx decodes validates fromNonce =>
      if !decodes ∨ !validates then do
        let (s, _) ← incNonce s inp.caller
        some (s, none)
      else some (s, some fromNonce)
  match pre with
  | none => none
  | some (s, none) => some (s, .result .invalidEOFInitCode, 0)
  | some (s, some createdOpt) =>
    if s.depth > CALL_STACK_LIMIT then some (s, .result .callTooDeep, 0) else do
    let (s, _) ← loadAccount db s inp.caller
    let c ← s.state inp.caller
    if c.info.balance < inp.value then some (s, .result .outOfFunds, 0) else do
    let (s, n) ← incNonce s inp.caller
    match n with
    | none => some (s, .result .ret, 0)
    | some nonce =>
      let created := match createdOpt with
        | some a => a
        | none => o.createdAddr (nonce - 1)
      createTail db s specId inp.caller inp.value created o.isPrecompile o.hasStorage

/-- what `create_return` branches on -/
structure CreateRet where
  resultOk : Bool
  firstByteEF : Bool
  lenOverMax : Bool
  depositOk : Bool
  /-- hash of the code that is stored -/
  codeHash : Nat
deriving Repr

/-- `create_return`: new state and the final result -/
def createReturn (s : JState) (specId : Nat) (cp : Checkpoint) (addr : Addr) (r : CreateRet) : Option (JState × IRes) :=
  if !r.resultOk then (revert s cp).map (·, .otherHalt)
  else if specId ≥ LONDON ∧ r.firstByteEF then (revert s cp).map (·, .createContractStartingWithEF)
  else if specId ≥ SPURIOUS_DRAGON ∧ r.lenOverMax then (revert s cp).map (·, .createContractSizeLimit)
  else if !r.depositOk ∧ specId ≥ HOMESTEAD then (revert s cp).map (·, .outOfGas)
  else do
    -- (before HOMESTEAD a failing deposit empties the output and continues)
    let s := commit s
    let s ← setCode s addr (if r.depositOk then r.codeHash else KECCAK_EMPTY)
    some (s, .ret)

/-- what `eofcreate_return` branches on -/
structure EofCreateRet where
  isReturnContract : Bool
  lenOverMax : Bool
  depositOk : Bool
  /-- `Eof::decode(output)` succeeds (`expect`) -/
  decodes : Bool
  codeHash : Nat
deriving Repr

/-- `eofcreate_return` -/
def eofcreateReturn (s : JState) (cp : Checkpoint) (addr : Addr) (r : EofCreateRet) : Option (JState × IRes) :=
  if !r.isReturnContract then (revert s cp).map (·, .otherHalt)
  else if r.lenOverMax then (revert s cp).map (·, .createContractSizeLimit)
  else if !r.depositOk then (revert s cp).map (·, .outOfGas)
  else
    let s := commit s
    if !r.decodes then none else do
    let s ← setCode s addr r.codeHash
    some (s, .returnContract)

/-! ## `run_the_loop` over an arbitrary action oracle -/

/-- the journal operations an interpreter can perform through `Host` between two frame actions
(context.rs: load_account_delegated, balance, code / code_hash, sload, sstore, tload, tstore, log, selfdestruct) -/
inductive HostOp
  | loadAccountDelegated (a : Addr)
  | balance (a : Addr)
  | code (a : Addr)
  | sload (a : Addr) (k : Nat)
  | sstore (a : Addr) (k v : Nat)
  | tload (a : Addr) (k : Nat)
  | tstore (a : Addr) (k v : Nat)
  | log (l : Nat)
  | selfdestruct (a target : Addr)
deriving Repr

def hostStep (db : Db) (s : JState) : HostOp → Option JState
  | .loadAccountDelegated a => (loadAccountDelegated db s a).map (·.1)
  | .balance a => (loadAccount db s a).map (·.1)
  | .code a => (loadCode db s a).map (·.1)
  | .sload a k => (sload db s a k).map (·.1)
  | .sstore a k v => (sstore db s a k v).map (·.1)
  | .tload _ _ => some s
  | .tstore a k v => tstore s a k v
  | .log l => some (log s l)
  | .selfdestruct a t => (selfdestruct db s a t).map (·.1)

/-- a frame on `call_stack`: its kind, its checkpoint, the created address -/
inductive Frame
  | call (cp : Checkpoint)
  | create (cp : Checkpoint) (addr : Addr)
  | eofcreate (cp : Checkpoint) (addr : Addr)
deriving Repr

/-- the result an interpreter returns with (`InterpreterAction::Return`), for each kind of frame what the
matching `*_return` branches on -/
structure RetOracle where
  callOk : Bool
  create : CreateRet
  eofcreate : EofCreateRet
deriving Repr

/-- what the interpreter of the top frame does next: any sequence of these is a program -/
inductive Action
  | host (op : HostOp)
  | call (inp : CallInputs) (o : CallOracle)
  | create (inp : CreateInputs) (o : CreateOracle)
  | eofcreate (inp : CreateInputs) (kind : EofCreateKind) (o : CreateOracle)
  | ret (r : RetOracle)

structure Loop where
  js : JState
  /-- `call_stack`, innermost first -/
  stack : List Frame

inductive StepOut
  /-- the loop continues -/
  | running (l : Loop)
  /-- the first frame returned: `run_the_loop` returns `Ok(result)` -/
  | done (js : JState) (r : IRes)
  /-- `Err` -/
  | fatal

/-- push a new frame or hand the immediate result to the top frame (evm.rs L139-167) -/
def afterFrameOrResult (stack : List Frame) (s : JState) (mk : Checkpoint → Frame) : FrameOrResult → StepOut
  | .frame cp => .running { js := s, stack := mk cp :: stack }
  | .result _ => .running { js := s, stack := stack }
  | .fatal => .fatal

/-- one iteration of the loop body of `run_the_loop` (evm.rs L94-169) on the action the interpreter hands back;
a `host` action is one host call made while `execute_frame` runs. `none` = panic. -/
def step (db : Db) (specId : Nat) (l : Loop) : Action → Option StepOut
  | .host op => (hostStep db l.js op).map fun s => .running { l with js := s }
  | .call inp o => (makeCallFrame db l.js inp o).map fun (s, r) => afterFrameOrResult l.stack s Frame.call r
  | .create inp o => (makeCreateFrame db l.js specId inp o).map fun (s, r, a) =>
      afterFrameOrResult l.stack s (Frame.create · a) r
  | .eofcreate inp kind o => (makeEofCreateFrame db l.js specId inp kind o).map fun (s, r, a) =>
      afterFrameOrResult l.stack s (Frame.eofcreate · a) r
  | .ret r =>
    match l.stack with
    | [] => none   -- `call_stack.pop().expect(..)`
    | f :: rest =>
      let out : Option (JState × IRes) := match f with
        | .call cp => (callReturn l.js cp r.callOk).map (·, if r.callOk then IRes.otherOk else IRes.otherHalt)
        | .create cp a => createReturn l.js specId cp a r.create
        | .eofcreate cp a => eofcreateReturn l.js cp a r.eofcreate
      out.map fun (s, res) =>
        match rest with
        | [] => .done s res
        | _ :: _ => .running { js := s, stack := rest }

/-- run the loop over a list of actions (any program, any length); stops at `done` / `fatal` -/
def run (db : Db) (specId : Nat) : Loop → List Action → Option StepOut
  | l, [] => some (.running l)
  | l, a :: rest =>
    match step db specId l a with
    | none => none
    | some (.running l') => run db specId l' rest
    | some out => some out

/-- the first frame of `transact_preverified_inner` (evm.rs L346-374): a call, create or eofcreate made
on the transaction-level journal; an immediate result ends the transaction without entering the loop -/
inductive FirstFrame
  | call (inp : CallInputs) (o : CallOracle)
  | create (inp : CreateInputs) (o : CreateOracle)
  | eofcreate (inp : CreateInputs) (kind : EofCreateKind) (o : CreateOracle)

def firstFrame (db : Db) (specId : Nat) (s : JState) : FirstFrame → Option StepOut
  | .call inp o => (makeCallFrame db s inp o).map fun (s, r) =>
      match r with
      | .frame cp => .running { js := s, stack := [Frame.call cp] }
      | .result res => .done s res
      | .fatal => .fatal
  | .create inp o => (makeCreateFrame db s specId inp o).map fun (s, r, a) =>
      match r with
      | .frame cp => .running { js := s, stack := [Frame.create cp a] }
      | .result res => .done s res
      | .fatal => .fatal
  | .eofcreate inp kind o => (makeEofCreateFrame db s specId inp kind o).map fun (s, r, a) =>
      match r with
      | .frame cp => .running { js := s, stack := [Frame.eofcreate cp a] }
      | .result res => .done s res
      | .fatal => .fatal

/-- a whole transaction body: first frame, then the loop over the program's actions -/
def transactFrames (db : Db) (specId : Nat) (s : JState) (f : FirstFrame) (prog : List Action) : Option StepOut :=
  match firstFrame db specId s f with
  | none => none
  | some (.running l) => run db specId l prog
  | some out => some out

/-- the deepest self-recursion: keep calling with the same inputs from the current top frame until
`make_call_frame` does not open a frame any more; the number of frames that were opened -/
def nestUntilRefused (db : Db) (inp : CallInputs) (o : CallOracle) : Nat → JState → Nat → Option Nat
  | 0, _, acc => some acc
  | fuel + 1, s, acc =>
    match makeCallFrame db s inp o with
    | none => none
    | some (s', .frame _) => nestUntilRefused db inp o fuel s' (acc + 1)
    | some (_, _) => some acc

end Revm.Model.Frame
