/-! Code-shaped model of the EOF container codec
(`crates/primitives/src/bytecode/eof.rs`, `eof/header.rs`, `eof/body.rs`, `eof/types_section.rs`,
`eof/decode_helpers.rs`).

Bytes are `List Nat` (each `< 256` for a real byte string, see `IsBytes`). Every function has the
branches of the Rust function of the same name, in the same order, with the same error kinds.
Every Rust indexing / slicing site that would panic when out of range (`input[i * 2]`,
`&input[header_len..]`, `Bytes::slice`, `Bytes::split_off`) is the explicit outcome `R.panic` here,
never a default value; "decoding never panics" is then a theorem (`Revm.Props.C26.decode_total`).
`usize` sums cannot overflow (at most 65535 sizes of at most 65535 each) and are unbounded `Nat`s;
the only truncating casts, the `as u16` of `EofBody::into_eof`, are modelled as `% 65536`. -/
namespace Revm.Model.Eof

/-- `EofDecodeError` -/
inductive DecErr
  | MissingInput | MissingBodyWithoutData | DanglingData | InvalidTypesSection
  | InvalidTypesSectionSize | InvalidEOFMagicNumber | InvalidEOFVersion | InvalidTypesKind
  | InvalidCodeKind | InvalidTerminalByte | InvalidDataKind | InvalidKindAfterCode
  | MismatchCodeAndTypesSize | NonSizes | ShortInputForSizes | ZeroSize | TooManyCodeSections
  | ZeroCodeSections | TooManyContainerSections | InvalidEOFSize
  deriving DecidableEq, Repr, Inhabited

def DecErr.name : DecErr → String
  | .MissingInput => "MissingInput" | .MissingBodyWithoutData => "MissingBodyWithoutData"
  | .DanglingData => "DanglingData" | .InvalidTypesSection => "InvalidTypesSection"
  | .InvalidTypesSectionSize => "InvalidTypesSectionSize"
  | .InvalidEOFMagicNumber => "InvalidEOFMagicNumber" | .InvalidEOFVersion => "InvalidEOFVersion"
  | .InvalidTypesKind => "InvalidTypesKind" | .InvalidCodeKind => "InvalidCodeKind"
  | .InvalidTerminalByte => "InvalidTerminalByte" | .InvalidDataKind => "InvalidDataKind"
  | .InvalidKindAfterCode => "InvalidKindAfterCode"
  | .MismatchCodeAndTypesSize => "MismatchCodeAndTypesSize" | .NonSizes => "NonSizes"
  | .ShortInputForSizes => "ShortInputForSizes" | .ZeroSize => "ZeroSize"
  | .TooManyCodeSections => "TooManyCodeSections" | .ZeroCodeSections => "ZeroCodeSections"
  | .TooManyContainerSections => "TooManyContainerSections" | .InvalidEOFSize => "InvalidEOFSize"

/-- Result of a Rust function returning `Result<α, ε>` that may also panic. -/
inductive R (ε α : Type) where
  | ok (a : α)
  | err (e : ε)
  | panic
  deriving Repr

namespace R
variable {ε α β : Type}
@[inline] def bind (x : R ε α) (f : α → R ε β) : R ε β :=
  match x with
  | .ok a => f a
  | .err e => .err e
  | .panic => .panic
instance : Monad (R ε) where
  pure := .ok
  bind := R.bind
/-- the `?` operator with `From<ε> for ε'` -/
def mapErr {ε' : Type} (g : ε → ε') : R ε α → R ε' α
  | .ok a => .ok a
  | .err e => .err (g e)
  | .panic => .panic
end R

abbrev D := R DecErr

/-- a byte string: every element is a byte -/
def IsBytes (bs : List Nat) : Prop := ∀ b ∈ bs, b < 256

/-- `u16::to_be_bytes` -/
def be16 (v : Nat) : List Nat := [v / 256 % 256, v % 256]

/-! ## decode_helpers.rs -/

/-- `consume_u8` (returns rest first, like the Rust) -/
def consumeU8 (input : List Nat) : D (List Nat × Nat) :=
  match input with
  | [] => .err .MissingInput
  | b :: rest => .ok (rest, b)

/-- `consume_u16`: `u16::from_be_bytes([a, b])` -/
def consumeU16 (input : List Nat) : D (List Nat × Nat) :=
  match input with
  | a :: b :: rest => .ok (rest, a * 256 + b)
  | _ => .err .MissingInput

/-! ## types_section.rs -/

structure TypesSection where
  inputs : Nat
  outputs : Nat
  maxStackSize : Nat
  deriving DecidableEq, Repr, Inhabited

namespace TypesSection
def isNonReturning (t : TypesSection) : Bool := t.outputs == 0x80
/-- `io_diff`: `outputs as i32 - inputs as i32` -/
def ioDiff (t : TypesSection) : Int := (t.outputs : Int) - (t.inputs : Int)
def encode (t : TypesSection) : List Nat := [t.inputs, t.outputs] ++ be16 t.maxStackSize
/-- `TypesSection::validate` -/
def validate (t : TypesSection) : D Unit :=
  if t.inputs > 0x7f ∨ t.outputs > 0x80 ∨ t.maxStackSize > 0x03FF then .err .InvalidTypesSection
  else if t.inputs > t.maxStackSize then .err .InvalidTypesSection
  else .ok ()
/-- `TypesSection::decode` -/
def decode (input : List Nat) : D (TypesSection × List Nat) := do
  let (input, inputs) ← consumeU8 input
  let (input, outputs) ← consumeU8 input
  let (input, maxStackSize) ← consumeU16 input
  let sec : TypesSection := { inputs, outputs, maxStackSize }
  sec.validate
  pure (sec, input)
end TypesSection

/-! ## header.rs -/

structure Header where
  typesSize : Nat
  codeSizes : List Nat
  containerSizes : List Nat
  dataSize : Nat
  sumCodeSizes : Nat
  sumContainerSizes : Nat
  deriving DecidableEq, Repr, Inhabited

def KIND_TERMINAL := 0
def KIND_TYPES := 1
def KIND_CODE := 2
def KIND_CONTAINER := 3
def KIND_DATA := 4

/-- the loop of `consume_header_section_size`: iteration `i` reads `input[i*2]`, `input[i*2+1]`
(here: the first two bytes of what is left); an index out of range is a panic -/
def readSizes : Nat → List Nat → List Nat → Nat → D (List Nat × Nat)
  | 0, _, sizes, sum => .ok (sizes.reverse, sum)
  | n + 1, a :: b :: rest, sizes, sum =>
    let codeSize := a * 256 + b
    if codeSize = 0 then .err .ZeroSize
    else readSizes n rest (codeSize :: sizes) (sum + codeSize)
  | _ + 1, _, _, _ => .panic

/-- `consume_header_section_size` → (rest, sizes, sum) -/
def consumeHeaderSectionSize (input : List Nat) : D (List Nat × List Nat × Nat) := do
  let (input, numSections) ← consumeU16 input
  if numSections = 0 then .err .NonSizes else
  let byteSize := numSections * 2
  if input.length < byteSize then .err .ShortInputForSizes else do
  let (sizes, sum) ← readSizes numSections input [] 0
  -- `&input[byte_size..]`
  if byteSize ≤ input.length then pure (input.drop byteSize, sizes, sum) else .panic

namespace Header
/-- `EofHeader::size` -/
def size (h : Header) : Nat :=
  2 + 1 + 3 + 3 + 2 * h.codeSizes.length +
  (if h.containerSizes.isEmpty then 0 else 3 + 2 * h.containerSizes.length) + 3 + 1
/-- `data_size_raw_i` (`usize` subtraction; `size ≥ 13`) -/
def dataSizeRawI (h : Header) : Nat := h.size - 3
def typesCount (h : Header) : Nat := h.typesSize / 4
def bodySize (h : Header) : Nat := h.typesSize + h.sumCodeSizes + h.sumContainerSizes + h.dataSize
def eofSize (h : Header) : Nat := h.size + h.bodySize

/-- `EofHeader::encode` (`len() as u16` truncates) -/
def encode (h : Header) : List Nat :=
  be16 0xEF00 ++ [0x01] ++ [KIND_TYPES] ++ be16 h.typesSize ++ [KIND_CODE] ++
  be16 (h.codeSizes.length % 65536) ++ (h.codeSizes.map be16).flatten ++
  (if h.containerSizes.isEmpty then [KIND_DATA]
   else [KIND_CONTAINER] ++ be16 (h.containerSizes.length % 65536) ++
        (h.containerSizes.map be16).flatten ++ [KIND_DATA]) ++
  be16 h.dataSize ++ [KIND_TERMINAL]

/-- the tail of `EofHeader::decode` after the kind byte following the code sizes -/
def decodeTail (h : Header) (input : List Nat) : D (Header × List Nat) := do
  let (input, dataSize) ← consumeU16 input
  let h := { h with dataSize := dataSize }
  let (input, terminator) ← consumeU8 input
  if terminator ≠ KIND_TERMINAL then .err .InvalidTerminalByte else
  pure (h, input)

/-- `EofHeader::decode` -/
def decode (input : List Nat) : D (Header × List Nat) := do
  let (input, kind) ← consumeU16 input
  if kind ≠ 0xEF00 then .err .InvalidEOFMagicNumber else do
  let (input, version) ← consumeU8 input
  if version ≠ 0x01 then .err .InvalidEOFVersion else do
  let (input, kindTypes) ← consumeU8 input
  if kindTypes ≠ KIND_TYPES then .err .InvalidTypesKind else do
  let (input, typesSize) ← consumeU16 input
  if typesSize % 4 ≠ 0 then .err .InvalidTypesSection else do
  let (input, kindCode) ← consumeU8 input
  if kindCode ≠ KIND_CODE then .err .InvalidCodeKind else do
  let (input, sizes, sum) ← consumeHeaderSectionSize input
  if sizes.length > 0x0400 then .err .TooManyCodeSections else
  if sizes.isEmpty then .err .ZeroCodeSections else
  if sizes.length ≠ typesSize / 4 then .err .MismatchCodeAndTypesSize else do
  let h : Header := { typesSize := typesSize, codeSizes := sizes, containerSizes := [],
                      dataSize := 0, sumCodeSizes := sum, sumContainerSizes := 0 }
  let (input, kindContainerOrData) ← consumeU8 input
  if kindContainerOrData = KIND_CONTAINER then do
    let (input, sizes, sum) ← consumeHeaderSectionSize input
    if sizes.length > 0x0100 then .err .TooManyContainerSections else do
    let h := { h with containerSizes := sizes, sumContainerSizes := sum }
    let (input, kindData) ← consumeU8 input
    if kindData ≠ KIND_DATA then .err .InvalidDataKind else
    decodeTail h input
  else if kindContainerOrData = KIND_DATA then decodeTail h input
  else .err .InvalidKindAfterCode
end Header

/-! ## body.rs -/

structure Body where
  typesSection : List TypesSection
  codeSection : List (List Nat)
  containerSection : List (List Nat)
  dataSection : List Nat
  isDataFilled : Bool
  deriving DecidableEq, Repr, Inhabited

structure Eof where
  header : Header
  body : Body
  raw : List Nat
  deriving DecidableEq, Repr, Inhabited

/-- `&input[a..]` -/
def sliceFrom (input : List Nat) (a : Nat) : D (List Nat) :=
  if a ≤ input.length then .ok (input.drop a) else .panic

/-- `Bytes::slice(a..b)`: panics unless `a ≤ b ≤ len` -/
def slice (input : List Nat) (a b : Nat) : D (List Nat) :=
  if a ≤ b ∧ b ≤ input.length then .ok ((input.drop a).take (b - a)) else .panic

/-- the `for _ in 0..types_count` loop of `EofBody::decode` -/
def decodeTypes : Nat → List Nat → List TypesSection → D (List TypesSection)
  | 0, _, acc => .ok acc.reverse
  | n + 1, input, acc => do
    let (t, rest) ← TypesSection.decode input
    decodeTypes n rest (t :: acc)

/-- the two `for size in …` slicing loops of `EofBody::decode` → (sections, start) -/
def sliceSections (input : List Nat) : List Nat → Nat → List (List Nat) → D (List (List Nat) × Nat)
  | [], start, acc => .ok (acc.reverse, start)
  | size :: sizes, start, acc => do
    let s ← slice input start (start + size)
    sliceSections input sizes (start + size) (s :: acc)

namespace Body
/-- `EofBody::encode` -/
def encode (b : Body) : List Nat :=
  (b.typesSection.map TypesSection.encode).flatten ++ b.codeSection.flatten ++
  b.containerSection.flatten ++ b.dataSection

/-- `EofBody::decode` -/
def decode (input : List Nat) (h : Header) : D Body := do
  let headerLen := h.size
  let partialBodyLen := h.sumCodeSizes + h.sumContainerSizes + h.typesSize
  let fullBodyLen := partialBodyLen + h.dataSize
  if input.length < headerLen + partialBodyLen then .err .MissingBodyWithoutData else
  if input.length > headerLen + fullBodyLen then .err .DanglingData else do
  let typesInput ← sliceFrom input headerLen
  let types ← decodeTypes h.typesCount typesInput []
  let start := headerLen + h.typesSize
  let (codes, start) ← sliceSections input h.codeSizes start []
  let (containers, start) ← sliceSections input h.containerSizes start []
  let data ← sliceFrom input start
  pure { typesSection := types, codeSection := codes, containerSection := containers,
         dataSection := data, isDataFilled := data.length == h.dataSize }

/-- `EofBody::into_eof` (`as u16` casts truncate; the `* 4` is a `u16` multiplication that wraps in
release builds) -/
def intoEof (b : Body) : Eof :=
  let h : Header := {
    typesSize := (b.typesSection.length % 65536) * 4 % 65536
    codeSizes := b.codeSection.map (fun x => x.length % 65536)
    containerSizes := b.containerSection.map (fun x => x.length % 65536)
    dataSize := b.dataSection.length % 65536
    sumCodeSizes := (b.codeSection.map List.length).sum
    sumContainerSizes := (b.containerSection.map List.length).sum }
  { header := h, body := b, raw := h.encode ++ b.encode }
end Body

namespace Eof
/-- `Eof::size` -/
def size (e : Eof) : Nat := e.header.size + e.header.bodySize
/-- `Eof::encode_slow` -/
def encodeSlow (e : Eof) : List Nat := e.header.encode ++ e.body.encode
/-- `Eof::decode` -/
def decode (raw : List Nat) : D Eof := do
  let (header, _) ← Header.decode raw
  let body ← Body.decode raw header
  pure { header, body, raw }
/-- `Eof::decode_dangling`: `Bytes::split_off(at)` panics if `at > len` -/
def decodeDangling (raw : List Nat) : D (Eof × List Nat) := do
  let (header, _) ← Header.decode raw
  let eofSize := header.bodySize + header.size
  if eofSize > raw.length then .err .MissingInput else
  if eofSize ≤ raw.length then do
    let dangling := raw.drop eofSize
    let raw := raw.take eofSize
    let body ← Body.decode raw header
    pure ({ header, body, raw }, dangling)
  else .panic
/-- `Eof::data_slice` -/
def dataSlice (e : Eof) (offset len : Nat) : List Nat :=
  if offset ≤ e.body.dataSection.length then
    let bytes := e.body.dataSection.drop offset
    bytes.take (min len bytes.length)
  else []
end Eof

end Revm.Model.Eof
