import Revm.Util.Word
import Revm.Model.Gas
import Revm.Model.GasCalc
/-! Model of the transaction-level gas and payment pipeline (C09), function by function:

* `crates/primitives/src/env.rs`: `Env::effective_gas_price`, `calc_data_fee`, `calc_max_data_fee`,
  the fee-relevant checks of `validate_block_env`, `validate_tx`, `validate_tx_against_state`;
* `crates/revm/src/handler/mainnet/pre_execution.rs`: `deduct_caller_inner` (amount and balance),
  the refund returned by `apply_eip7702_auth_list` as a function of the number of refunded accounts;
* `crates/revm/src/handler/mainnet/execution.rs`: `last_frame_return`;
* `crates/revm/src/handler/mainnet/post_execution.rs`: `refund`, `reimburse_caller`,
  `reward_beneficiary`, `output` (the two gas numbers);
* `crates/revm/src/evm.rs::transact_preverified_inner`: `gas_limit - initial_gas`, the EIP-7623 floor.

The FIRST FRAME'S RESULT (`FrameRes`: the `InstructionResult` and the frame's `Gas`) is an
INPUT of the model: whatever the frame machine computed. The theorems constrain it only by what the
frame machine guarantees (`remaining ≤ gas_limit − initial_gas`, stated as a visible hypothesis).

`u64` operators are the release-profile wrapping ones (`U64ops.wadd/wsub/wmul`), the `U256` operator
`*` is ruint's wrapping multiplication (`U256.wmul`), `saturating_*` clamp, `as u64`/`as i64` are
two's-complement casts (`Model.Gas.i64AsU64/u64AsI64`). `Gas` and its operations are those of
`Revm.Model.Gas` (C13). -/
namespace Revm.Model.TxGas
open Revm Revm.Model.Gas
open Revm.Model.GasCalc (enabled)
open Revm.Model.GasCalc.SpecId (BERLIN LONDON SHANGHAI CANCUN PRAGUE)

/-- `InstructionResult` (crates/interpreter/src/instruction_result.rs) -/
inductive IR
  | Continue | Stop | Return | SelfDestruct | ReturnContract | Revert
  | CallTooDeep | OutOfFunds | CreateInitCodeStartingEF00 | InvalidEOFInitCode | InvalidExtDelegateCallTarget | CallOrCreate
  | OutOfGas | MemoryOOG | MemoryLimitOOG | PrecompileOOG | InvalidOperandOOG | OpcodeNotFound
  | CallNotAllowedInsideStatic | StateChangeDuringStaticCall | InvalidFEOpcode | InvalidJump | NotActivated | StackUnderflow
  | StackOverflow | OutOfOffset | CreateCollision | OverflowPayment | PrecompileError | NonceOverflow
  | CreateContractSizeLimit | CreateContractStartingWithEF | CreateInitCodeSizeLimit | FatalExternalError | ReturnContractInNotInitEOF | EOFOpcodeDisabledInLegacy
  | EOFFunctionStackOverflow | EofAuxDataOverflow | EofAuxDataTooSmall | InvalidEXTCALLTarget
  deriving DecidableEq, Repr

/-- the three arms of `last_frame_return`: `return_ok!()`, `return_revert!()`, `_` -/
inductive GasClass
  | ok | revert | other
  deriving DecidableEq, Repr

/-- `SuccessOrHalt::from(result)` as used by `output`: the three `ExecutionResult` variants;
`fatal` = `FatalExternalError` / `Internal(_)`, on which `output` panics -/
inductive Report
  | success | revert | halt | fatal
  deriving DecidableEq, Repr

/-- the macros `return_ok!` / `return_revert!` -/
def IR.gasClass : IR → GasClass
  | .Continue => .ok
  | .Stop => .ok
  | .Return => .ok
  | .SelfDestruct => .ok
  | .ReturnContract => .ok
  | .Revert => .revert
  | .CallTooDeep => .revert
  | .OutOfFunds => .revert
  | .CreateInitCodeStartingEF00 => .revert
  | .InvalidEOFInitCode => .revert
  | .InvalidExtDelegateCallTarget => .revert
  | _ => .other

/-- `impl From<InstructionResult> for SuccessOrHalt`, by variant class -/
def IR.report : IR → Report
  | .Stop => .success
  | .Return => .success
  | .SelfDestruct => .success
  | .ReturnContract => .success
  | .Revert => .revert
  | .CreateInitCodeStartingEF00 => .revert
  | .InvalidEOFInitCode => .revert
  | .Continue => .fatal
  | .InvalidExtDelegateCallTarget => .fatal
  | .CallOrCreate => .fatal
  | .FatalExternalError => .fatal
  | _ => .halt

def IR.all : List (String × IR) :=
  [("Continue", .Continue), ("Stop", .Stop), ("Return", .Return), ("SelfDestruct", .SelfDestruct),
   ("ReturnContract", .ReturnContract), ("Revert", .Revert), ("CallTooDeep", .CallTooDeep), ("OutOfFunds", .OutOfFunds),
   ("CreateInitCodeStartingEF00", .CreateInitCodeStartingEF00), ("InvalidEOFInitCode", .InvalidEOFInitCode), ("InvalidExtDelegateCallTarget", .InvalidExtDelegateCallTarget), ("CallOrCreate", .CallOrCreate),
   ("OutOfGas", .OutOfGas), ("MemoryOOG", .MemoryOOG), ("MemoryLimitOOG", .MemoryLimitOOG), ("PrecompileOOG", .PrecompileOOG),
   ("InvalidOperandOOG", .InvalidOperandOOG), ("OpcodeNotFound", .OpcodeNotFound), ("CallNotAllowedInsideStatic", .CallNotAllowedInsideStatic), ("StateChangeDuringStaticCall", .StateChangeDuringStaticCall),
   ("InvalidFEOpcode", .InvalidFEOpcode), ("InvalidJump", .InvalidJump), ("NotActivated", .NotActivated), ("StackUnderflow", .StackUnderflow),
   ("StackOverflow", .StackOverflow), ("OutOfOffset", .OutOfOffset), ("CreateCollision", .CreateCollision), ("OverflowPayment", .OverflowPayment),
   ("PrecompileError", .PrecompileError), ("NonceOverflow", .NonceOverflow), ("CreateContractSizeLimit", .CreateContractSizeLimit), ("CreateContractStartingWithEF", .CreateContractStartingWithEF),
   ("CreateInitCodeSizeLimit", .CreateInitCodeSizeLimit), ("FatalExternalError", .FatalExternalError), ("ReturnContractInNotInitEOF", .ReturnContractInNotInitEOF), ("EOFOpcodeDisabledInLegacy", .EOFOpcodeDisabledInLegacy),
   ("EOFFunctionStackOverflow", .EOFFunctionStackOverflow), ("EofAuxDataOverflow", .EofAuxDataOverflow), ("EofAuxDataTooSmall", .EofAuxDataTooSmall), ("InvalidEXTCALLTarget", .InvalidEXTCALLTarget)]

def IR.ofName (s : String) : Option IR := (IR.all.find? (fun p => p.1 == s)).map (·.2)

/-- what `run_the_loop` (or an early `FrameOrResult::Result`) hands to `last_frame_return` -/
structure FrameRes where
  ir : IR
  gas : Gas
  deriving DecidableEq, Repr

/-- the fields of `Env` the fee pipeline reads. `spec` is `SPEC::SPEC_ID as u8` (after
`spec_to_generic!`). `blobPrice` is `block.get_blob_gasprice()` (a `u128`), `nBlobs` is
`tx.blob_hashes.len()`. -/
structure Env where
  spec : Nat
  gasLimit : Nat
  gasPrice : Nat
  priorityFee : Option Nat
  basefee : Nat
  blobPrice : Option Nat
  nBlobs : Nat
  maxFeePerBlobGas : Option Nat
  value : Nat
  deriving DecidableEq, Repr

def GAS_PER_BLOB : Nat := 131072
def MAX_INITCODE_SIZE : Nat := 49152

/-- `Env::effective_gas_price`: `min(gas_price, basefee + priority_fee)` (`+` on `U256` wraps) -/
def effectiveGasPrice (e : Env) : Nat :=
  match e.priorityFee with
  | some p => min e.gasPrice (U256.wadd e.basefee p)
  | none => e.gasPrice

/-- `TxEnv::get_total_blob_gas`: `GAS_PER_BLOB * blob_hashes.len() as u64` -/
def totalBlobGas (e : Env) : Nat := U64ops.wmul GAS_PER_BLOB e.nBlobs

/-- `Env::calc_data_fee` -/
def calcDataFee (e : Env) : Option Nat :=
  match e.blobPrice with
  | some p => some (U256.saturatingMul p (totalBlobGas e))
  | none => none

/-- `Env::calc_max_data_fee` -/
def calcMaxDataFee (e : Env) : Option Nat :=
  match e.maxFeePerBlobGas with
  | some m => some (U256.saturatingMul m (totalBlobGas e))
  | none => none

/-! ### validation (the checks that guard the fee arithmetic) -/

/-- the remaining shape of the transaction that validation looks at -/
structure TxShape where
  isCreate : Bool
  dataLen : Nat
  /-- number of storage keys of each access-list item -/
  accessList : List Nat
  /-- `authorization_list.map(len)` -/
  authLen : Option Nat
  deriving DecidableEq, Repr

inductive Invalid
  | excessBlobGasNotSet | accessListNotSupported | priorityFeeGreaterThanMaxFee | gasPriceLessThanBasefee
  | createInitCodeSizeLimit | blobVersionedHashesNotSupported | blobGasPriceGreaterThanMax | emptyBlobs
  | blobCreateTransaction | tooManyBlobs | authorizationListNotSupported | emptyAuthorizationList
  | authorizationListInvalidFields | callGasCostMoreThanGasLimit | gasFloorMoreThanGasLimit
  | overflowPaymentInTransaction | lackOfFundForMaxFee
  /-- the `expect("already checked")` of `validate_tx` -/
  | panic
  deriving DecidableEq, Repr

/-- `validate_block_env` (Cancun needs the excess blob gas; `prevrandao` is always set by the harness)
followed by `validate_tx`, in the order of the code. Not modelled (fixed by the harness): chain id,
block gas limit (`U256::MAX`), blob hash versions (always `0x01`), the configurable initcode limit. -/
def validateEnv (e : Env) (t : TxShape) : Option Invalid :=
  if enabled e.spec CANCUN && e.blobPrice.isNone then some .excessBlobGasNotSet
  else if !enabled e.spec BERLIN && !t.accessList.isEmpty then some .accessListNotSupported
  else if enabled e.spec LONDON && (match e.priorityFee with | some p => decide (p > e.gasPrice) | none => false) then
    some .priorityFeeGreaterThanMaxFee
  else if enabled e.spec LONDON && decide (effectiveGasPrice e < e.basefee) then some .gasPriceLessThanBasefee
  else if enabled e.spec SHANGHAI && t.isCreate && decide (t.dataLen > MAX_INITCODE_SIZE) then
    some .createInitCodeSizeLimit
  else if !enabled e.spec CANCUN && (e.maxFeePerBlobGas.isSome || decide (e.nBlobs ≠ 0)) then
    some .blobVersionedHashesNotSupported
  else
    let blobChecks : Option Invalid :=
      match e.maxFeePerBlobGas with
      | some m =>
        match e.blobPrice with
        | none => some .panic
        | some price =>
          if price > m then some .blobGasPriceGreaterThanMax
          else if e.nBlobs = 0 then some .emptyBlobs
          else if t.isCreate then some .blobCreateTransaction
          else if enabled e.spec CANCUN && decide (e.nBlobs > (if enabled e.spec PRAGUE then 9 else 6)) then
            some .tooManyBlobs
          else none
      | none => if e.nBlobs ≠ 0 then some .blobVersionedHashesNotSupported else none
    match blobChecks with
    | some r => some r
    | none =>
      if !enabled e.spec PRAGUE && t.authLen.isSome then some .authorizationListNotSupported
      else match t.authLen with
        | some n =>
          if n = 0 then some .emptyAuthorizationList
          else if e.maxFeePerBlobGas.isSome || decide (e.nBlobs ≠ 0) then some .authorizationListInvalidFields
          else if t.isCreate then some .authorizationListInvalidFields
          else none
        | none => none

/-- `validate_initial_tx_gas` on given `(initial_gas, floor_gas)` (computed by
`GasCalc.calculateInitialTxGas`) -/
def validateInitialGas (e : Env) (initialGas floorGas : Nat) : Option Invalid :=
  if initialGas > e.gasLimit then some .callGasCostMoreThanGasLimit
  else if enabled e.spec PRAGUE && decide (floorGas > e.gasLimit) then some .gasFloorMoreThanGasLimit
  else none

/-- the `balance_check` of `validate_tx_against_state`:
`gas_limit.checked_mul(gas_price)?.checked_add(value)?` (+ `calc_max_data_fee().unwrap_or_default()`
from Cancun, checked); `none` = `OverflowPaymentInTransaction` -/
def balanceCheck (e : Env) : Option Nat :=
  match U256.checkedMul e.gasLimit e.gasPrice with
  | none => none
  | some c =>
    match U256.checkedAdd c e.value with
    | none => none
    | some c1 =>
      if enabled e.spec CANCUN then U256.checkedAdd c1 ((calcMaxDataFee e).getD 0) else some c1

/-- the balance part of `validate_tx_against_state` (sender without code, `tx.nonce = None`, balance
check enabled) -/
def validateAgainstState (e : Env) (balance : Nat) : Option Invalid :=
  match balanceCheck e with
  | none => some .overflowPaymentInTransaction
  | some c => if c > balance then some .lackOfFundForMaxFee else none

/-- the three validation stages of `Evm::transact` in order -/
def validate (e : Env) (t : TxShape) (initialGas floorGas balance : Nat) : Option Invalid :=
  match validateEnv e t with
  | some r => some r
  | none =>
    match validateInitialGas e initialGas floorGas with
    | some r => some r
    | none => validateAgainstState e balance

/-! ### pre-execution -/

/-- `deduct_caller_inner`: the `gas_cost` subtracted from the caller;
`none` = the `expect("already checked")` panic (Cancun without a blob gas price) -/
def deductAmount (e : Env) : Option Nat :=
  let gasCost := U256.saturatingMul e.gasLimit (effectiveGasPrice e)
  if enabled e.spec CANCUN then
    match calcDataFee e with
    | some dataFee => some (U256.saturatingAdd gasCost dataFee)
    | none => none
  else some gasCost

/-- `caller.balance.saturating_sub(gas_cost)` -/
def deductCaller (balance gasCost : Nat) : Nat := U256.saturatingSub balance gasCost

/-- the value returned by `apply_eip7702_auth_list` for `refundedAccounts` refunded authorities,
cast `as i64` by `transact_preverified_inner`:
`refunded_accounts * (PER_EMPTY_ACCOUNT_COST - PER_AUTH_BASE_COST)` -/
def eip7702Refund (refundedAccounts : Nat) : Int :=
  u64AsI64 (U64ops.wmul refundedAccounts (GasCalc.PER_EMPTY_ACCOUNT_COST - GasCalc.PER_AUTH_BASE_COST))

/-- `ctx.evm.env.tx.gas_limit - gas.initial_gas`: the gas limit of the first frame -/
def frameGasLimit (e : Env) (initialGas : Nat) : Nat := U64ops.wsub e.gasLimit initialGas

/-! ### execution / post-execution -/

/-- `handler::mainnet::last_frame_return` -/
def lastFrameReturn (e : Env) (fr : FrameRes) : Gas :=
  let remaining := fr.gas.remaining
  let refunded := fr.gas.refunded
  let gas := newSpent e.gasLimit
  match fr.ir.gasClass with
  | .ok => recordRefund (eraseCost gas remaining) refunded
  | .revert => eraseCost gas remaining
  | .other => gas

/-- `handler::mainnet::refund` -/
def refund (e : Env) (gas : Gas) (eip7702 : Int) : Gas :=
  setFinalRefund (recordRefund gas eip7702) (enabled e.spec LONDON)

/-- the EIP-7623 block of `transact_preverified_inner` -/
def floorAdjust (gas : Gas) (floorGas : Nat) : Gas :=
  if spentSubRefunded gas < floorGas then setRefund (setSpent gas floorGas) 0 else gas

/-- the `Gas` handed to `reimburse_caller`, `reward_beneficiary` and `output` -/
def finalGas (e : Env) (floorGas refundedAccounts : Nat) (fr : FrameRes) : Gas :=
  floorAdjust (refund e (lastFrameReturn e fr) (eip7702Refund refundedAccounts)) floorGas

/-- `reimburse_caller`: `effective_gas_price * U256::from(gas.remaining() + gas.refunded() as u64)` -/
def reimburseAmount (e : Env) (gas : Gas) : Nat :=
  U256.wmul (effectiveGasPrice e) (U64ops.wadd gas.remaining (i64AsU64 gas.refunded))

/-- the price used by `reward_beneficiary` -/
def coinbaseGasPrice (e : Env) : Nat :=
  if enabled e.spec LONDON then U256.saturatingSub (effectiveGasPrice e) e.basefee else effectiveGasPrice e

/-- `reward_beneficiary`: `coinbase_gas_price * U256::from(gas.spent() - gas.refunded() as u64)` -/
def rewardAmount (e : Env) (gas : Gas) : Nat :=
  U256.wmul (coinbaseGasPrice e) (U64ops.wsub (spent gas) (i64AsU64 gas.refunded))

/-- `output`: `gas_refunded = gas.refunded() as u64` -/
def gasRefunded (gas : Gas) : Nat := i64AsU64 gas.refunded
/-- `output`: `final_gas_used = gas.spent() - gas_refunded` -/
def gasUsed (gas : Gas) : Nat := U64ops.wsub (spent gas) (gasRefunded gas)

/-- everything the pipeline computes from the first frame's result -/
structure Out where
  gas : Gas
  gasUsed : Nat
  gasRefunded : Nat
  /-- `gas_cost` of `deduct_caller_inner` -/
  deducted : Nat
  /-- amount added by `reimburse_caller` -/
  reimbursed : Nat
  /-- amount added by `reward_beneficiary` (when the handle is enabled) -/
  reward : Nat
  deriving DecidableEq, Repr

/-- the fee pipeline of `transact_preverified_inner` after validation; `none` = the `expect` panic
of `deduct_caller_inner` -/
def pipeline (e : Env) (floorGas refundedAccounts : Nat) (fr : FrameRes) : Option Out :=
  match deductAmount e with
  | none => none
  | some d =>
    let g := finalGas e floorGas refundedAccounts fr
    some { gas := g, gasUsed := gasUsed g, gasRefunded := gasRefunded g, deducted := d,
           reimbursed := reimburseAmount e g, reward := rewardAmount e g }

/-- balances after the three balance-changing stages. `senderIsCoinbase`: the beneficiary is the
caller's own account; `rewardEnabled`: the `reward_beneficiary` handle is present.
Returns (sender balance, coinbase balance). -/
def balances (o : Out) (senderBalance coinbaseBalance : Nat) (senderIsCoinbase rewardEnabled : Bool) : Nat × Nat :=
  let s1 := deductCaller senderBalance o.deducted
  let s2 := U256.saturatingAdd s1 o.reimbursed
  if senderIsCoinbase then
    let s3 := if rewardEnabled then U256.saturatingAdd s2 o.reward else s2
    (s3, s3)
  else
    (s2, if rewardEnabled then U256.saturatingAdd coinbaseBalance o.reward else coinbaseBalance)

end Revm.Model.TxGas
