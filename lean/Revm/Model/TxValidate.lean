import Revm.Util.Word
import Revm.Model.GasCalc
/-! Code-shaped model of transaction validation (C02):

* `crates/primitives/src/env.rs`: `Env::effective_gas_price`, `calc_max_data_fee`,
  `validate_block_env`, `validate_tx`, `validate_tx_against_state`, `CfgEnv::blob_max_count`;
* `crates/revm/src/handler/mainnet/validation.rs`: `validate_env`, `validate_initial_tx_gas`,
  `validate_tx_against_state` (the sender is loaded with `journaled_state.load_code`);
* `crates/revm/src/evm.rs`: `preverify_transaction_inner`, the error path of `Evm::transact`
  (`inspect_err(|_| self.clear())`), `handler/mainnet/post_execution.rs::clear`.

Checks come in the code's ORDER, the first failing one wins, and the arithmetic is the code's:
`U256::checked_mul/checked_add/saturating_mul`, the WRAPPING 256-bit `+` of `effective_gas_price`,
`u64` wrapping `*` in `get_total_blob_gas`, `usize::saturating_mul` for the init-code limit.
The default build is modelled (`optional_*` features off: every `cfg.is_*_disabled()` is `false`).
The hardfork is the number `SPEC::SPEC_ID as u8` after `spec_to_generic!` (`GasCalc.canon`).

Every field is a `Nat` (callers supply the range of the Rust type: `U256` fields `< W`, `u64` fields
`< U64`, `u128` `< U128`, `u8` `< 256`), byte strings are `List Nat`. -/
namespace Revm.Model.TxValidate
open Revm
open Revm.Model.GasCalc (enabled canon calculateInitialTxGas)
open Revm.Model.GasCalc.SpecId

/-! ### the environment as far as validation reads it -/

/-- `CfgEnv`: `chain_id: u64`, `limit_contract_code_size: Option<usize>`,
`blob_target_and_max_count: Vec<(SpecId, u8, u8)>` as `(SpecId as u8, max)` in vector order -/
structure Cfg where
  chainId : Nat := 1
  limitContractCodeSize : Option Nat := none
  blobSchedule : List (Nat × Nat) := [(CANCUN, 6), (PRAGUE, 9)]
  deriving Repr, DecidableEq

/-- `BlockEnv`: `gas_limit`, `basefee` (U256), `prevrandao.is_some()`,
`blob_excess_gas_and_price.map(|a| a.blob_gasprice)` (u128) -/
structure Block where
  gasLimit : Nat
  basefee : Nat
  prevrandaoSet : Bool := true
  blobGasPrice : Option Nat := some 1
  deriving Repr, DecidableEq

/-- `TxEnv`. `accessList` = number of storage keys of each item, `blobHashes` = first byte of each
versioned hash, `authList` = `authorization_list.map(|l| l.len())` -/
structure Tx where
  gasLimit : Nat
  gasPrice : Nat
  priorityFee : Option Nat := none
  value : Nat := 0
  data : List Nat := []
  isCreate : Bool := false
  chainId : Option Nat := none
  nonce : Option Nat := none
  accessList : List Nat := []
  blobHashes : List Nat := []
  maxFeePerBlobGas : Option Nat := none
  authList : Option Nat := none
  deriving Repr, DecidableEq

/-- the sender's `Bytecode` as `validate_tx_against_state` distinguishes it: `is_empty()`,
`is_eip7702()`, anything else (legacy or EOF code) -/
inductive CodeKind
  | empty | eip7702 | other
  deriving Repr, DecidableEq

/-- the sender's `AccountInfo` after `load_code` (an absent account is `AccountInfo::default()`) -/
structure Sender where
  balance : Nat := 0
  nonce : Nat := 0
  code : CodeKind := .empty
  deriving Repr, DecidableEq

/-- `InvalidHeader` and `InvalidTransaction` variants that validation can return (payloads dropped) -/
inductive Err
  | PrevrandaoNotSet | ExcessBlobGasNotSet
  | InvalidChainId | CallerGasLimitMoreThanBlock | AccessListNotSupported
  | PriorityFeeGreaterThanMaxFee | GasPriceLessThanBasefee | CreateInitCodeSizeLimit
  | BlobVersionedHashesNotSupported | BlobGasPriceGreaterThanMax | EmptyBlobs
  | BlobCreateTransaction | BlobVersionNotSupported | TooManyBlobs
  | AuthorizationListNotSupported | EmptyAuthorizationList | AuthorizationListInvalidFields
  | CallGasCostMoreThanGasLimit | GasFloorMoreThanGasLimit
  | RejectCallerWithCode | NonceTooHigh | NonceTooLow | NonceOverflowInTransaction
  | OverflowPaymentInTransaction | LackOfFundForMaxFee
  deriving Repr, DecidableEq

def Err.name : Err → String
  | .PrevrandaoNotSet => "PrevrandaoNotSet" | .ExcessBlobGasNotSet => "ExcessBlobGasNotSet"
  | .InvalidChainId => "InvalidChainId" | .CallerGasLimitMoreThanBlock => "CallerGasLimitMoreThanBlock"
  | .AccessListNotSupported => "AccessListNotSupported"
  | .PriorityFeeGreaterThanMaxFee => "PriorityFeeGreaterThanMaxFee"
  | .GasPriceLessThanBasefee => "GasPriceLessThanBasefee"
  | .CreateInitCodeSizeLimit => "CreateInitCodeSizeLimit"
  | .BlobVersionedHashesNotSupported => "BlobVersionedHashesNotSupported"
  | .BlobGasPriceGreaterThanMax => "BlobGasPriceGreaterThanMax" | .EmptyBlobs => "EmptyBlobs"
  | .BlobCreateTransaction => "BlobCreateTransaction"
  | .BlobVersionNotSupported => "BlobVersionNotSupported" | .TooManyBlobs => "TooManyBlobs"
  | .AuthorizationListNotSupported => "AuthorizationListNotSupported"
  | .EmptyAuthorizationList => "EmptyAuthorizationList"
  | .AuthorizationListInvalidFields => "AuthorizationListInvalidFields"
  | .CallGasCostMoreThanGasLimit => "CallGasCostMoreThanGasLimit"
  | .GasFloorMoreThanGasLimit => "GasFloorMoreThanGasLimit"
  | .RejectCallerWithCode => "RejectCallerWithCode" | .NonceTooHigh => "NonceTooHigh"
  | .NonceTooLow => "NonceTooLow" | .NonceOverflowInTransaction => "NonceOverflowInTransaction"
  | .OverflowPaymentInTransaction => "OverflowPaymentInTransaction"
  | .LackOfFundForMaxFee => "LackOfFundForMaxFee"

/-- result of a validation stage: `Ok(())`, `Err(variant)`, or a Rust panic
(`expect("already checked")`, `initcode_cost` overflow) -/
inductive Res
  | ok
  | err (e : Err)
  | panic
  deriving Repr, DecidableEq

def Res.toString : Res → String
  | .ok => "ok" | .err e => e.name | .panic => "panic"

/-- the `?` operator: continue with `k` only after `Ok` -/
def Res.andThen (r : Res) (k : Res) : Res :=
  match r with
  | .ok => k
  | e => e

/-! ### env.rs -/

/-- `Env::effective_gas_price`: `min(gas_price, basefee + priority_fee)` with ruint's wrapping `+` -/
def effectiveGasPrice (blk : Block) (tx : Tx) : Nat :=
  match tx.priorityFee with
  | some p => min tx.gasPrice (U256.wadd blk.basefee p)
  | none => tx.gasPrice

/-- `GAS_PER_BLOB = 1 << 17` -/
def GAS_PER_BLOB : Nat := 131072
/-- `VERSIONED_HASH_VERSION_KZG` -/
def VERSIONED_HASH_VERSION_KZG : Nat := 1
/-- `MAX_INITCODE_SIZE = 2 * MAX_CODE_SIZE`, `MAX_CODE_SIZE = 0x6000` -/
def MAX_INITCODE_SIZE : Nat := 49152

/-- `TxEnv::get_total_blob_gas`: `GAS_PER_BLOB * blob_hashes.len() as u64` (plain u64 `*`) -/
def totalBlobGas (tx : Tx) : Nat := U64ops.wmul GAS_PER_BLOB tx.blobHashes.length

/-- `Env::calc_max_data_fee().unwrap_or_default()`: `max_fee_per_blob_gas.saturating_mul(total_blob_gas)` -/
def maxDataFee (tx : Tx) : Nat :=
  match tx.maxFeePerBlobGas with
  | some m => U256.saturatingMul m (totalBlobGas tx)
  | none => 0

/-- `CfgEnv::blob_max_count(spec_id)`: the LAST entry (vector order) with `spec_id as u8 >= id as u8`,
default 6 -/
def blobMaxCount (cfg : Cfg) (s : Nat) : Nat :=
  match cfg.blobSchedule.reverse.find? (fun e => decide (s ≥ e.1)) with
  | some e => e.2
  | none => 6

/-- `Env::validate_block_env::<SPEC>` -/
def validateBlockEnv (s : Nat) (blk : Block) : Res :=
  if enabled s MERGE && !blk.prevrandaoSet then .err .PrevrandaoNotSet
  else if enabled s CANCUN && blk.blobGasPrice.isNone then .err .ExcessBlobGasNotSet
  else .ok

/-- the chain-id block of `validate_tx` -/
def chainIdMismatch (cfg : Cfg) (tx : Tx) : Bool :=
  match tx.chainId with
  | some c => c != cfg.chainId
  | none => false

/-- the `if SPEC::enabled(LONDON)` block of `validate_tx` -/
def feeChecks (s : Nat) (blk : Block) (tx : Tx) : Res :=
  if enabled s LONDON then
    if (match tx.priorityFee with
        | some p => decide (p > tx.gasPrice)
        | none => false) then .err .PriorityFeeGreaterThanMaxFee
    else if effectiveGasPrice blk tx < blk.basefee then .err .GasPriceLessThanBasefee
    else .ok
  else .ok

/-- `limit_contract_code_size.map(|l| l.saturating_mul(2)).unwrap_or(MAX_INITCODE_SIZE)` (usize) -/
def maxInitcodeSize (cfg : Cfg) : Nat :=
  match cfg.limitContractCodeSize with
  | some l => U64ops.saturatingMul l 2
  | none => MAX_INITCODE_SIZE

/-- EIP-3860 block of `validate_tx` -/
def initcodeCheck (s : Nat) (cfg : Cfg) (tx : Tx) : Res :=
  if enabled s SHANGHAI && tx.isCreate then
    if tx.data.length > maxInitcodeSize cfg then .err .CreateInitCodeSizeLimit else .ok
  else .ok

/-- the blob blocks of `validate_tx`. `panic` is `get_blob_gasprice().expect("already checked")`. -/
def blobChecks (s : Nat) (cfg : Cfg) (blk : Block) (tx : Tx) : Res :=
  if !enabled s CANCUN && (tx.maxFeePerBlobGas.isSome || !tx.blobHashes.isEmpty) then
    .err .BlobVersionedHashesNotSupported
  else
    match tx.maxFeePerBlobGas with
    | some max =>
      match blk.blobGasPrice with
      | none => .panic
      | some price =>
        if price > max then .err .BlobGasPriceGreaterThanMax
        else if tx.blobHashes.isEmpty then .err .EmptyBlobs
        else if tx.isCreate then .err .BlobCreateTransaction
        else if tx.blobHashes.any (fun v => v != VERSIONED_HASH_VERSION_KZG) then .err .BlobVersionNotSupported
        else if enabled s CANCUN && decide (tx.blobHashes.length > blobMaxCount cfg s) then .err .TooManyBlobs
        else .ok
    | none =>
      if !tx.blobHashes.isEmpty then .err .BlobVersionedHashesNotSupported else .ok

/-- the EIP-7702 blocks of `validate_tx` (after the `fix:` commit rejecting `TxKind::Create`) -/
def authChecks (s : Nat) (tx : Tx) : Res :=
  if !enabled s PRAGUE && tx.authList.isSome then .err .AuthorizationListNotSupported
  else
    match tx.authList with
    | some n =>
      if n = 0 then .err .EmptyAuthorizationList
      else if tx.maxFeePerBlobGas.isSome || !tx.blobHashes.isEmpty then .err .AuthorizationListInvalidFields
      else if tx.isCreate then .err .AuthorizationListInvalidFields
      else .ok
    | none => .ok

/-- `Env::validate_tx::<SPEC>` -/
def validateTx (s : Nat) (cfg : Cfg) (blk : Block) (tx : Tx) : Res :=
  if chainIdMismatch cfg tx then .err .InvalidChainId
  else if tx.gasLimit > blk.gasLimit then .err .CallerGasLimitMoreThanBlock
  else if !enabled s BERLIN && !tx.accessList.isEmpty then .err .AccessListNotSupported
  else
    (feeChecks s blk tx).andThen <|
    (initcodeCheck s cfg tx).andThen <|
    (blobChecks s cfg blk tx).andThen <|
    authChecks s tx

/-- the nonce block of `validate_tx_against_state` (after the `fix:` commit for EIP-2681) -/
def nonceCheck (tx : Tx) (snd : Sender) : Res :=
  match tx.nonce with
  | some n =>
    if n > snd.nonce then .err .NonceTooHigh
    else if n < snd.nonce then .err .NonceTooLow
    else if n = U64 - 1 then .err .NonceOverflowInTransaction
    else .ok
  | none => .ok

/-- `balance_check`: `none` = `OverflowPaymentInTransaction` -/
def balanceCheck (s : Nat) (tx : Tx) : Option Nat :=
  match U256.checkedMul tx.gasLimit tx.gasPrice with
  | none => none
  | some gasCost =>
    match U256.checkedAdd gasCost tx.value with
    | none => none
    | some bc => if enabled s CANCUN then U256.checkedAdd bc (maxDataFee tx) else some bc

/-- `Env::validate_tx_against_state::<SPEC>` (EIP-3607 check enabled, balance check enabled) -/
def validateTxAgainstState (s : Nat) (tx : Tx) (snd : Sender) : Res :=
  if snd.code = .other then .err .RejectCallerWithCode
  else
    (nonceCheck tx snd).andThen <|
    match balanceCheck s tx with
    | none => .err .OverflowPaymentInTransaction
    | some bc => if bc > snd.balance then .err .LackOfFundForMaxFee else .ok

/-! ### handler/mainnet/validation.rs -/

/-- `validate_env`: block before tx -/
def validateEnv (s : Nat) (cfg : Cfg) (blk : Block) (tx : Tx) : Res :=
  (validateBlockEnv s blk).andThen (validateTx s cfg blk tx)

/-- `validate_initial_tx_gas` (`panic` = the `initcode_cost` overflow panic) -/
def validateInitialTxGas (s : Nat) (tx : Tx) : Res :=
  match calculateInitialTxGas s tx.data tx.isCreate tx.accessList (tx.authList.getD 0) with
  | none => .panic
  | some g =>
    if g.1 > tx.gasLimit then .err .CallGasCostMoreThanGasLimit
    else if enabled s PRAGUE && decide (g.2 > tx.gasLimit) then .err .GasFloorMoreThanGasLimit
    else .ok

/-- `Evm::preverify_transaction_inner` as a function of the loaded sender, for the marker type `s` -/
def validateCanon (s : Nat) (cfg : Cfg) (blk : Block) (tx : Tx) (snd : Sender) : Res :=
  (validateEnv s cfg blk tx).andThen <|
  (validateInitialTxGas s tx).andThen <|
  validateTxAgainstState s tx snd

/-- the same reached through `spec_to_generic!(spec_id, …)` (what `Evm::builder().with_spec_id` does) -/
def validate (spec : Nat) (cfg : Cfg) (blk : Block) (tx : Tx) (snd : Sender) : Res :=
  validateCanon (canon spec) cfg blk tx snd

/-! ### `Evm::transact`: the context and the error path

`Context` as far as the error path touches it: the database (read through `&mut self`, so a read may
change the database value, e.g. a cache fill), the journaled state (accounts loaded so far), the error
slot `EvmContext::error`. The accepted path (`transact_preverified_inner` + `post_execution().end`)
is a parameter `exec`: nothing is assumed about it. -/

/-- a database: one read returns the (possibly changed) database and the answer -/
structure DbOps (D : Type) where
  basic : D → Nat → D × Option Sender

/-- `JournaledState` as far as `load_code` of the caller and `clear` are concerned -/
structure Journal where
  spec : Nat
  /-- `state`: accounts loaded in this transaction -/
  loaded : List (Nat × Sender) := []
  /-- everything else the journal accumulates (entries, logs, depth, warm addresses …) abstractly:
  `0` is the fresh value -/
  dirt : Nat := 0
  deriving Repr, DecidableEq

/-- `JournaledState::new(spec, HashSet::default())` -/
def Journal.new (spec : Nat) : Journal := { spec := spec }
/-- `JournaledState::clear`: `*self = Self::new(self.spec, HashSet::default())` -/
def Journal.clear (j : Journal) : Journal := Journal.new j.spec

structure Ctx (D : Type) where
  db : D
  journal : Journal
  /-- `EvmContext::error`: `none` = `Ok(())` -/
  error : Option Nat := none

/-- the transaction's environment: `(cfg, block, tx, tx.caller)` -/
structure Env where
  cfg : Cfg
  blk : Block
  tx : Tx
  caller : Nat

/-- `journaled_state.load_code(caller, db)`: an account already in `state` is used as it is,
otherwise the database is read (an absent account becomes `Account::new_not_existing()`) and the
account is inserted into `state` -/
def loadCode {D : Type} (ops : DbOps D) (c : Ctx D) (addr : Nat) : Sender × Ctx D :=
  match c.journal.loaded.find? (fun e => e.1 == addr) with
  | some e => (e.2, c)
  | none =>
    let r := ops.basic c.db addr
    let acct := r.2.getD {}
    (acct, { c with db := r.1, journal := { c.journal with loaded := (addr, acct) :: c.journal.loaded } })

/-- `Evm::preverify_transaction_inner` on the context -/
def preverify {D : Type} (ops : DbOps D) (c : Ctx D) (env : Env) : Res × Ctx D :=
  let s := canon c.journal.spec
  match validateEnv s env.cfg env.blk env.tx with
  | .ok =>
    match validateInitialTxGas s env.tx with
    | .ok =>
      let r := loadCode ops c env.caller
      (validateTxAgainstState s env.tx r.1, r.2)
    | e => (e, c)
  | e => (e, c)

/-- `Evm::clear` → `post_execution().clear(context)`: `take_error` and `journaled_state.clear()` -/
def clear {D : Type} (c : Ctx D) : Ctx D :=
  { c with journal := c.journal.clear, error := none }

/-- `Evm::transact`. `exec` = the accepted path up to (not including) the final `clear`: it may do
anything to the context and produces an output `O`. A panic propagates (no `clear`). -/
def transact {D O : Type} (ops : DbOps D) (exec : Ctx D → Env → O × Ctx D) (c : Ctx D) (env : Env) :
    (Res × Option O) × Ctx D :=
  match preverify ops c env with
  | (.ok, c1) => let r := exec c1 env; ((.ok, some r.1), clear r.2)
  | (.err e, c1) => ((.err e, none), clear c1)
  | (.panic, c1) => ((.panic, none), c1)

end Revm.Model.TxValidate
