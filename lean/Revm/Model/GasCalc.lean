import Revm.Util.Word
import Revm.Model.Arith
/-! Code-shaped model of `crates/interpreter/src/gas/calc.rs`, `gas/constants.rs`,
`shared_memory.rs::num_words`, `interpreter.rs::resize_memory` (+ the `resize_memory!` macro) and
`handler/mainnet/validation.rs::validate_initial_tx_gas`.

Every function follows the Rust control flow and uses the same `checked_*` / `saturating_*` /
plain (`+`, `*`, `-` : wrapping in the release profile the harness is built with) u64 operations.
The hardfork is the number `SpecId as u8`; `enabled our other` is `our as u8 >= other as u8`.
`u64` values are `Nat` (callers supply `< 2^64`), `i64` values are `Int`, `usize` = `u64`. -/
namespace Revm.Model.GasCalc
open Revm Revm.U64ops

/-! ### `SpecId as u8` (default, non-optimism build) -/
namespace SpecId
def FRONTIER : Nat := 0
def FRONTIER_THAWING : Nat := 1
def HOMESTEAD : Nat := 2
def DAO_FORK : Nat := 3
def TANGERINE : Nat := 4
def SPURIOUS_DRAGON : Nat := 5
def BYZANTIUM : Nat := 6
def CONSTANTINOPLE : Nat := 7
def PETERSBURG : Nat := 8
def ISTANBUL : Nat := 9
def MUIR_GLACIER : Nat := 10
def BERLIN : Nat := 11
def LONDON : Nat := 12
def ARROW_GLACIER : Nat := 13
def GRAY_GLACIER : Nat := 14
def MERGE : Nat := 15
def SHANGHAI : Nat := 16
def CANCUN : Nat := 17
def PRAGUE : Nat := 18
def OSAKA : Nat := 19
def LATEST : Nat := 255
end SpecId
open SpecId

/-- `SpecId::enabled(our, other)` -/
def enabled (our other : Nat) : Bool := decide (our ≥ other)

/-- `spec_to_generic!`: the marker type a `SpecId` is executed as (`SPEC::SPEC_ID as u8`) -/
def canon (spec : Nat) : Nat :=
  if spec = FRONTIER_THAWING then FRONTIER
  else if spec = DAO_FORK then HOMESTEAD
  else if spec = CONSTANTINOPLE then PETERSBURG
  else if spec = MUIR_GLACIER then ISTANBUL
  else if spec = ARROW_GLACIER ∨ spec = GRAY_GLACIER then LONDON
  else spec

/-! ### gas/constants.rs -/
def ZERO : Nat := 0
def BASE : Nat := 2
def VERYLOW : Nat := 3
def DATA_LOADN_GAS : Nat := 3
def CONDITION_JUMP_GAS : Nat := 4
def RETF_GAS : Nat := 3
def DATA_LOAD_GAS : Nat := 4
def LOW : Nat := 5
def MID : Nat := 8
def HIGH : Nat := 10
def JUMPDEST : Nat := 1
def SELFDESTRUCT : Int := 24000
def CREATE : Nat := 32000
def CALLVALUE : Nat := 9000
def NEWACCOUNT : Nat := 25000
def EXP : Nat := 10
def MEMORY : Nat := 3
def LOG : Nat := 375
def LOGDATA : Nat := 8
def LOGTOPIC : Nat := 375
def KECCAK256 : Nat := 30
def KECCAK256WORD : Nat := 6
def COPY : Nat := 3
def BLOCKHASH : Nat := 20
def CODEDEPOSIT : Nat := 200
def INSTANBUL_SLOAD_GAS : Nat := 800
def SSTORE_SET : Nat := 20000
def SSTORE_RESET : Nat := 5000
def REFUND_SSTORE_CLEARS : Int := 15000
def STANDARD_TOKEN_COST : Nat := 4
def NON_ZERO_BYTE_DATA_COST : Nat := 68
def NON_ZERO_BYTE_MULTIPLIER : Nat := NON_ZERO_BYTE_DATA_COST / STANDARD_TOKEN_COST
def NON_ZERO_BYTE_DATA_COST_ISTANBUL : Nat := 16
def NON_ZERO_BYTE_MULTIPLIER_ISTANBUL : Nat := NON_ZERO_BYTE_DATA_COST_ISTANBUL / STANDARD_TOKEN_COST
def TOTAL_COST_FLOOR_PER_TOKEN : Nat := 10
def EOF_CREATE_GAS : Nat := 32000
def ACCESS_LIST_ADDRESS : Nat := 2400
def ACCESS_LIST_STORAGE_KEY : Nat := 1900
def COLD_SLOAD_COST : Nat := 2100
def COLD_ACCOUNT_ACCESS_COST : Nat := 2600
def WARM_STORAGE_READ_COST : Nat := 100
def WARM_SSTORE_RESET : Nat := SSTORE_RESET - COLD_SLOAD_COST
def INITCODE_WORD_COST : Nat := 2
def CALL_STIPEND : Nat := 2300
def MIN_CALLEE_GAS : Nat := CALL_STIPEND
/-- `eip7702::PER_EMPTY_ACCOUNT_COST` / `PER_AUTH_BASE_COST` (primitives/src/eip7702.rs) -/
def PER_EMPTY_ACCOUNT_COST : Nat := 25000
def PER_AUTH_BASE_COST : Nat := 12500

/-- the named constants as the correspondence stream asks for them (`i64` ones as `Int`) -/
def constByName : String → Option Int
  | "ZERO" => some ZERO | "BASE" => some BASE | "VERYLOW" => some VERYLOW
  | "DATA_LOADN_GAS" => some DATA_LOADN_GAS | "CONDITION_JUMP_GAS" => some CONDITION_JUMP_GAS
  | "RETF_GAS" => some RETF_GAS | "DATA_LOAD_GAS" => some DATA_LOAD_GAS | "LOW" => some LOW
  | "MID" => some MID | "HIGH" => some HIGH | "JUMPDEST" => some JUMPDEST
  | "SELFDESTRUCT" => some SELFDESTRUCT | "CREATE" => some CREATE | "CALLVALUE" => some CALLVALUE
  | "NEWACCOUNT" => some NEWACCOUNT | "EXP" => some EXP | "MEMORY" => some MEMORY | "LOG" => some LOG
  | "LOGDATA" => some LOGDATA | "LOGTOPIC" => some LOGTOPIC | "KECCAK256" => some KECCAK256
  | "KECCAK256WORD" => some KECCAK256WORD | "COPY" => some COPY | "BLOCKHASH" => some BLOCKHASH
  | "CODEDEPOSIT" => some CODEDEPOSIT | "INSTANBUL_SLOAD_GAS" => some INSTANBUL_SLOAD_GAS
  | "SSTORE_SET" => some SSTORE_SET | "SSTORE_RESET" => some SSTORE_RESET
  | "REFUND_SSTORE_CLEARS" => some REFUND_SSTORE_CLEARS | "STANDARD_TOKEN_COST" => some STANDARD_TOKEN_COST
  | "NON_ZERO_BYTE_DATA_COST" => some NON_ZERO_BYTE_DATA_COST
  | "NON_ZERO_BYTE_MULTIPLIER" => some NON_ZERO_BYTE_MULTIPLIER
  | "NON_ZERO_BYTE_DATA_COST_ISTANBUL" => some NON_ZERO_BYTE_DATA_COST_ISTANBUL
  | "NON_ZERO_BYTE_MULTIPLIER_ISTANBUL" => some NON_ZERO_BYTE_MULTIPLIER_ISTANBUL
  | "TOTAL_COST_FLOOR_PER_TOKEN" => some TOTAL_COST_FLOOR_PER_TOKEN | "EOF_CREATE_GAS" => some EOF_CREATE_GAS
  | "ACCESS_LIST_ADDRESS" => some ACCESS_LIST_ADDRESS | "ACCESS_LIST_STORAGE_KEY" => some ACCESS_LIST_STORAGE_KEY
  | "COLD_SLOAD_COST" => some COLD_SLOAD_COST | "COLD_ACCOUNT_ACCESS_COST" => some COLD_ACCOUNT_ACCESS_COST
  | "WARM_STORAGE_READ_COST" => some WARM_STORAGE_READ_COST | "WARM_SSTORE_RESET" => some WARM_SSTORE_RESET
  | "INITCODE_WORD_COST" => some INITCODE_WORD_COST | "CALL_STIPEND" => some CALL_STIPEND
  | "MIN_CALLEE_GAS" => some MIN_CALLEE_GAS | "PER_EMPTY_ACCOUNT_COST" => some PER_EMPTY_ACCOUNT_COST
  | "PER_AUTH_BASE_COST" => some PER_AUTH_BASE_COST
  | _ => none

/-! ### shared_memory.rs -/

/-- `num_words(len) = len.saturating_add(31) / 32` -/
def numWords (len : Nat) : Nat := saturatingAdd len 31 / 32

/-! ### gas/calc.rs -/

/-- `cost_per_word(len, multiple) = multiple.checked_mul(num_words(len))` -/
def costPerWord (len multiple : Nat) : Option Nat := checkedMul multiple (numWords len)

/-- `sload_cost` -/
def sloadCost (spec : Nat) (isCold : Bool) : Nat :=
  if enabled spec BERLIN then
    if isCold then COLD_SLOAD_COST else WARM_STORAGE_READ_COST
  else if enabled spec ISTANBUL then INSTANBUL_SLOAD_GAS
  else if enabled spec TANGERINE then 200
  else 50

/-- `sstore_refund(spec_id, vals) -> i64`; `o p n` = original / present / new value -/
def sstoreRefund (spec o p n : Nat) : Int :=
  if enabled spec ISTANBUL then
    let sched : Int :=
      if enabled spec LONDON then ((SSTORE_RESET - COLD_SLOAD_COST + ACCESS_LIST_STORAGE_KEY : Nat) : Int)
      else REFUND_SSTORE_CLEARS
    if n = p then 0
    else if o = p ∧ n = 0 then sched
    else
      let r0 : Int := 0
      let r1 : Int :=
        if o ≠ 0 then
          if p = 0 then r0 - sched else if n = 0 then r0 + sched else r0
        else r0
      if o = n then
        let gs : Nat × Nat :=
          if enabled spec BERLIN then (SSTORE_RESET - COLD_SLOAD_COST, WARM_STORAGE_READ_COST)
          else (SSTORE_RESET, sloadCost spec false)
        if o = 0 then r1 + ((SSTORE_SET - gs.2 : Nat) : Int)
        else r1 + ((gs.1 - gs.2 : Nat) : Int)
      else r1
  else
    if p ≠ 0 ∧ n = 0 then REFUND_SSTORE_CLEARS else 0

/-- `create2_cost` -/
def create2Cost (len : Nat) : Option Nat :=
  match costPerWord len KECCAK256WORD with
  | none => none
  | some c => checkedAdd CREATE c

/-- `verylowcopy_cost` -/
def verylowcopyCost (len : Nat) : Option Nat :=
  match costPerWord len COPY with
  | none => none
  | some c => checkedAdd VERYLOW c

/-- `warm_cold_cost` -/
def warmColdCost (isCold : Bool) : Nat :=
  if isCold then COLD_ACCOUNT_ACCESS_COST else WARM_STORAGE_READ_COST

/-- `extcodecopy_cost` -/
def extcodecopyCost (spec len : Nat) (isCold : Bool) : Option Nat :=
  let baseGas :=
    if enabled spec BERLIN then warmColdCost isCold
    else if enabled spec TANGERINE then 700
    else 20
  match costPerWord len COPY with
  | none => none
  | some c => checkedAdd baseGas c

/-- `log_cost(n: u8, len)`; `LOGTOPIC * n as u64` cannot overflow for `n < 256` -/
def logCost (n len : Nat) : Option Nat :=
  match checkedMul LOGDATA len with
  | none => none
  | some a =>
    match checkedAdd LOG a with
    | none => none
    | some b => checkedAdd b (LOGTOPIC * n)

/-- `keccak256_cost` -/
def keccak256Cost (len : Nat) : Option Nat :=
  match costPerWord len KECCAK256WORD with
  | none => none
  | some c => checkedAdd KECCAK256 c

/-- `initcode_cost`: `none` is the Rust `panic!("initcode cost overflow")` -/
def initcodeCost (len : Nat) : Option Nat := costPerWord len INITCODE_WORD_COST

/-- `exp_cost(spec_id, power)` (model shared with C03) -/
def expCost (spec power : Nat) : Option Nat :=
  Model.Arith.expCost (enabled spec SPURIOUS_DRAGON) power

/-- `istanbul_sstore_cost::<SLOAD_GAS, SSTORE_RESET_GAS>` -/
def istanbulSstoreCost (sloadGas sstoreResetGas o p n : Nat) : Nat :=
  if n = p then sloadGas
  else if o = p ∧ o = 0 then SSTORE_SET
  else if o = p then sstoreResetGas
  else sloadGas

/-- `frontier_sstore_cost` -/
def frontierSstoreCost (p n : Nat) : Nat :=
  if p = 0 ∧ n ≠ 0 then SSTORE_SET else SSTORE_RESET

/-- `sstore_cost(spec_id, vals, gas, is_cold)` -/
def sstoreCost (spec o p n gas : Nat) (isCold : Bool) : Option Nat :=
  if enabled spec ISTANBUL ∧ gas ≤ CALL_STIPEND then none
  else if enabled spec BERLIN then
    let gasCost := istanbulSstoreCost WARM_STORAGE_READ_COST WARM_SSTORE_RESET o p n
    some (if isCold then gasCost + COLD_SLOAD_COST else gasCost)
  else if enabled spec ISTANBUL then
    some (istanbulSstoreCost INSTANBUL_SLOAD_GAS SSTORE_RESET o p n)
  else
    some (frontierSstoreCost p n)

/-- `selfdestruct_cost(spec_id, StateLoad<SelfDestructResult>)`; `previously_destroyed` is not read -/
def selfdestructCost (spec : Nat) (hadValue targetExists isCold : Bool) : Nat :=
  let shouldChargeTopup :=
    if enabled spec SPURIOUS_DRAGON then hadValue && !targetExists else !targetExists
  let topup := if enabled spec TANGERINE && shouldChargeTopup then 25000 else 0
  let base := if enabled spec TANGERINE then 5000 else 0
  let gas := base + topup
  if enabled spec BERLIN && isCold then gas + COLD_ACCOUNT_ACCESS_COST else gas

/-- `warm_cold_cost_with_delegation(load)`; `deleg` = `is_delegate_account_cold` -/
def warmColdCostWithDelegation (isCold : Bool) (deleg : Option Bool) : Nat :=
  let gas := warmColdCost isCold
  match deleg with
  | some c => gas + warmColdCost c
  | none => gas

/-- `call_cost(spec_id, transfers_value, account_load)` -/
def callCost (spec : Nat) (transfersValue isCold : Bool) (deleg : Option Bool) (isEmpty : Bool) : Nat :=
  let gas0 :=
    if enabled spec BERLIN then warmColdCostWithDelegation isCold deleg
    else if enabled spec TANGERINE then 700
    else 40
  let gas1 := if transfersValue then gas0 + CALLVALUE else gas0
  if isEmpty then
    if enabled spec SPURIOUS_DRAGON then
      if transfersValue then gas1 + NEWACCOUNT else gas1
    else gas1 + NEWACCOUNT
  else gas1

/-- `memory_gas(num_words)`: `MEMORY as u128 * words + words * words / 512` in `u128` (no wrap for
`num_words < 2^64`: the sum stays below 2^120), saturated to `u64::MAX` -/
def memoryGas (numWords : Nat) : Nat :=
  let cost := MEMORY * numWords + numWords * numWords / 512
  if cost > U64 - 1 then U64 - 1 else cost

/-- `memory_gas_for_len(len: usize)` -/
def memoryGasForLen (len : Nat) : Nat := memoryGas (numWords len)

/-- `Gas::record_cost` as used by `resize_memory`: `(success, remaining')` -/
def recordCost (remaining cost : Nat) : Bool × Nat :=
  if cost ≤ remaining then (true, remaining - cost) else (false, remaining)

/-- `interpreter::resize_memory(memory, gas, new_size)`: `(success, remaining', memory.len()')`.
`new_cost - current_cost` is a plain u64 subtraction (wraps in the release profile). -/
def resizeMemory (curLen remaining newSize : Nat) : Bool × Nat × Nat :=
  let newWords := numWords newSize
  let newCost := memoryGas newWords
  let currentCost := memoryGasForLen curLen
  let cost := wsub newCost currentCost
  let r := recordCost remaining cost
  if r.1 then (true, r.2, newWords * 32) else (false, r.2, curLen)

/-- the `resize_memory!(interp, offset, len)` macro: `none` = `MemoryOOG` -/
def resizeMemoryMacro (curLen remaining offset len : Nat) : Option (Nat × Nat) :=
  let newSize := saturatingAdd offset len
  if newSize > curLen then
    let r := resizeMemory curLen remaining newSize
    if r.1 then some (r.2.1, r.2.2) else none
  else some (remaining, curLen)

/-- `get_tokens_in_calldata(input, is_istanbul)`; `input` is a byte slice (`input.length < 2^64`) -/
def getTokensInCalldata (input : List Nat) (isIstanbul : Bool) : Nat :=
  let zeroDataLen := (input.filter (fun v => v == 0)).length
  let nonZeroDataLen := wsub input.length zeroDataLen
  let mult := if isIstanbul then NON_ZERO_BYTE_MULTIPLIER_ISTANBUL else NON_ZERO_BYTE_MULTIPLIER
  wadd zeroDataLen (wmul nonZeroDataLen mult)

/-- `calc_tx_floor_cost` -/
def calcTxFloorCost (tokens : Nat) : Nat := wadd (wmul tokens TOTAL_COST_FLOOR_PER_TOKEN) 21000

/-- `calculate_initial_tx_gas`: `some (initial_gas, floor_gas)`; `none` is the Rust panic of
`initcode_cost`. `accessList` = number of storage keys of each item. All `+=` / `*` are plain u64
operations (wrapping in the release profile). -/
def calculateInitialTxGas (spec : Nat) (input : List Nat) (isCreate : Bool) (accessList : List Nat)
    (authorizationListNum : Nat) : Option (Nat × Nat) :=
  let tokens := getTokensInCalldata input (enabled spec ISTANBUL)
  let g0 := wadd 0 (wmul tokens STANDARD_TOKEN_COST)
  let g1 :=
    if enabled spec BERLIN then
      let accessedSlots := accessList.foldl (fun a k => wadd a k) 0
      let g := wadd g0 (wmul accessList.length ACCESS_LIST_ADDRESS)
      wadd g (wmul accessedSlots ACCESS_LIST_STORAGE_KEY)
    else g0
  let g2 := wadd g1 (if isCreate then (if enabled spec HOMESTEAD then 53000 else 21000) else 21000)
  let g3? : Option Nat :=
    if enabled spec SHANGHAI && isCreate then
      match initcodeCost input.length with
      | some c => some (wadd g2 c)
      | none => none
    else some g2
  match g3? with
  | none => none
  | some g3 =>
    if enabled spec PRAGUE then
      some (wadd g3 (wmul authorizationListNum PER_EMPTY_ACCOUNT_COST), calcTxFloorCost tokens)
    else some (g3, 0)

inductive TxGasResult
  | ok (initial floor : Nat)
  | callGasCostMoreThanGasLimit
  | gasFloorMoreThanGasLimit
  | panic
  deriving DecidableEq, Repr

/-- `handler::mainnet::validate_initial_tx_gas::<SPEC, DB>(env)` reached through `spec_to_generic!` -/
def validateInitialTxGas (spec : Nat) (input : List Nat) (isCreate : Bool) (accessList : List Nat)
    (authLen gasLimit : Nat) : TxGasResult :=
  let s := canon spec
  match calculateInitialTxGas s input isCreate accessList authLen with
  | none => .panic
  | some g =>
    if g.1 > gasLimit then .callGasCostMoreThanGasLimit
    else if enabled s PRAGUE ∧ g.2 > gasLimit then .gasFloorMoreThanGasLimit
    else .ok g.1 g.2

end Revm.Model.GasCalc
