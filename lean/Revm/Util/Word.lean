/-! Machine words as `Nat` with explicit ranges. The primitive operations of ruint's `U256`
and of Rust's `u64`/`i64`/`u128` are *definitions* here (trusted, see DESIGN §10): wrapping
operators are reduction mod 2^n, `checked_*` return `none` exactly when the true value does not
fit, `saturating_*` clamp. -/
namespace Revm

def W : Nat := 2^256
def U64 : Nat := 2^64
def U128 : Nat := 2^128

theorem W_val : W = 115792089237316195423570985008687907853269984665640564039457584007913129639936 := by
  unfold W; rfl
theorem U64_val : U64 = 18446744073709551616 := by unfold U64; rfl
theorem U128_val : U128 = 340282366920938463463374607431768211456 := by unfold U128; rfl

namespace U256
def wadd (a b : Nat) : Nat := (a + b) % W
def wsub (a b : Nat) : Nat := (a + W - b % W) % W
def wmul (a b : Nat) : Nat := (a * b) % W
def wneg (a : Nat) : Nat := (W - a) % W
def not (a : Nat) : Nat := W - 1 - a
def bit (a : Nat) (i : Nat) : Bool := a.testBit i
def isNeg (a : Nat) : Bool := a ≥ 2^255
/-- two's-complement reading -/
def toInt (a : Nat) : Int := if a ≥ 2^255 then (a : Int) - (W : Int) else a
def ofInt (i : Int) : Nat := (i % (W : Int)).toNat
def checkedAdd (a b : Nat) : Option Nat := if a + b < W then some (a + b) else none
def checkedMul (a b : Nat) : Option Nat := if a * b < W then some (a * b) else none
def saturatingAdd (a b : Nat) : Nat := if a + b < W then a + b else W - 1
def saturatingSub (a b : Nat) : Nat := a - b
def saturatingMul (a b : Nat) : Nat := if a * b < W then a * b else W - 1
/-- `as_u64_saturated!` / `as_usize_saturated!` -/
def asU64Sat (a : Nat) : Nat := if a < U64 then a else U64 - 1
end U256

namespace U64ops
def wadd (a b : Nat) : Nat := (a + b) % U64
def wsub (a b : Nat) : Nat := (a + U64 - b % U64) % U64
def wmul (a b : Nat) : Nat := (a * b) % U64
def checkedAdd (a b : Nat) : Option Nat := if a + b < U64 then some (a + b) else none
def checkedSub (a b : Nat) : Option Nat := if b ≤ a then some (a - b) else none
def checkedMul (a b : Nat) : Option Nat := if a * b < U64 then some (a * b) else none
def saturatingAdd (a b : Nat) : Nat := if a + b < U64 then a + b else U64 - 1
def saturatingSub (a b : Nat) : Nat := a - b
def saturatingMul (a b : Nat) : Nat := if a * b < U64 then a * b else U64 - 1
end U64ops

end Revm
