/-! Hex / token helpers for the line protocol (import-free, executable). -/
namespace Revm.Hex

def hexDigit? (c : Char) : Option Nat :=
  if '0' ≤ c ∧ c ≤ '9' then some (c.toNat - '0'.toNat)
  else if 'a' ≤ c ∧ c ≤ 'f' then some (c.toNat - 'a'.toNat + 10)
  else if 'A' ≤ c ∧ c ≤ 'F' then some (c.toNat - 'A'.toNat + 10)
  else none

/-- parse a hex natural number (no prefix); empty string is rejected -/
def parseHex? (s : String) : Option Nat :=
  if s.isEmpty then none else
  s.toList.foldl (fun acc c => match acc, hexDigit? c with
    | some a, some d => some (a * 16 + d)
    | _, _ => none) (some 0)

def digitChar (d : Nat) : Char :=
  if d < 10 then Char.ofNat (d + '0'.toNat) else Char.ofNat (d - 10 + 'a'.toNat)

def toHexAux : Nat → Nat → List Char → List Char
  | 0, _, acc => acc
  | fuel+1, n, acc => if n = 0 then acc else toHexAux fuel (n / 16) (digitChar (n % 16) :: acc)

/-- minimal lowercase hex, "0" for zero -/
def toHex (n : Nat) : String :=
  if n = 0 then "0" else String.ofList (toHexAux (n.log2 / 4 + 2) n [])

/-- bytes as hex, "-" for the empty string -/
def bytesToHex (bs : List Nat) : String :=
  if bs.isEmpty then "-" else
  String.ofList (bs.foldr (fun b acc => digitChar (b / 16 % 16) :: digitChar (b % 16) :: acc) [])

def parseBytesAux : List Char → List Nat → Option (List Nat)
  | [], acc => some acc.reverse
  | [_], _ => none
  | a :: b :: rest, acc => match hexDigit? a, hexDigit? b with
    | some x, some y => parseBytesAux rest ((x * 16 + y) :: acc)
    | _, _ => none

def parseBytes? (s : String) : Option (List Nat) :=
  if s = "-" then some [] else parseBytesAux s.toList []

def parseBool? (s : String) : Option Bool :=
  if s = "1" then some true else if s = "0" then some false else none

def boolStr (b : Bool) : String := if b then "1" else "0"

end Revm.Hex
