/-! Keccak-256 (the original Keccak padding 0x01, as used by Ethereum), RLP of `(address, nonce)` and the
CREATE / CREATE2 address derivations. Executable definitions over `UInt64` lanes; bytes are `List Nat`
like everywhere else in the model. These are *definitions* (trusted, DESIGN §10): they are validated
against `revm::primitives::keccak256`, `Address::create` and `Address::create2` by the `util`
correspondence stream on every run, not proved against FIPS-202. -/
namespace Revm.Keccak

def RC : Array UInt64 := #[
  0x0000000000000001, 0x0000000000008082, 0x800000000000808a, 0x8000000080008000,
  0x000000000000808b, 0x0000000080000001, 0x8000000080008081, 0x8000000000008009,
  0x000000000000008a, 0x0000000000000088, 0x0000000080008009, 0x000000008000000a,
  0x000000008000808b, 0x800000000000008b, 0x8000000000008089, 0x8000000000008003,
  0x8000000000008002, 0x8000000000000080, 0x000000000000800a, 0x800000008000000a,
  0x8000000080008081, 0x8000000000008080, 0x0000000080000001, 0x8000000080008008]

def ROTC : Array Nat := #[1, 3, 6, 10, 15, 21, 28, 36, 45, 55, 2, 14, 27, 41, 56, 8, 25, 43, 62, 18, 39, 61, 20, 44]
def PILN : Array Nat := #[10, 7, 11, 17, 18, 3, 5, 16, 8, 21, 24, 4, 15, 23, 19, 13, 12, 2, 20, 14, 22, 9, 6, 1]

def rotl (x : UInt64) (n : Nat) : UInt64 :=
  if n % 64 = 0 then x else (x <<< (n % 64).toUInt64) ||| (x >>> (64 - n % 64).toUInt64)

/-- one round of keccak-f[1600] on 25 lanes -/
def round (st : Array UInt64) (rc : UInt64) : Array UInt64 := Id.run do
  let mut st := st
  -- theta
  let mut bc : Array UInt64 := Array.replicate 5 0
  for i in [0:5] do
    bc := bc.set! i (st[i]! ^^^ st[i+5]! ^^^ st[i+10]! ^^^ st[i+15]! ^^^ st[i+20]!)
  for i in [0:5] do
    let t := bc[(i + 4) % 5]! ^^^ rotl bc[(i + 1) % 5]! 1
    for j in [0:5] do
      st := st.set! (5 * j + i) (st[5 * j + i]! ^^^ t)
  -- rho, pi
  let mut t := st[1]!
  for i in [0:24] do
    let j := PILN[i]!
    let b := st[j]!
    st := st.set! j (rotl t ROTC[i]!)
    t := b
  -- chi
  for j in [0:5] do
    for i in [0:5] do
      bc := bc.set! i st[5 * j + i]!
    for i in [0:5] do
      st := st.set! (5 * j + i) (st[5 * j + i]! ^^^ ((~~~ bc[(i + 1) % 5]!) &&& bc[(i + 2) % 5]!))
  -- iota
  st.set! 0 (st[0]! ^^^ rc)

def keccakF (st : Array UInt64) : Array UInt64 :=
  RC.foldl round st

/-- little-endian lane from 8 bytes starting at `off` -/
def laneOf (bs : Array UInt8) (off : Nat) : UInt64 := Id.run do
  let mut x : UInt64 := 0
  for k in [0:8] do
    x := x ||| ((bs[off + k]!).toUInt64 <<< (8 * k).toUInt64)
  x

def RATE : Nat := 136

def absorbBlock (st : Array UInt64) (block : Array UInt8) (off : Nat) : Array UInt64 := Id.run do
  let mut st := st
  for i in [0:RATE / 8] do
    st := st.set! i (st[i]! ^^^ laneOf block (off + 8 * i))
  keccakF st

/-- Keccak-256 of a byte array -/
def keccak256Bytes (inp : Array UInt8) : Array UInt8 := Id.run do
  let n := inp.size
  let padLen := RATE - n % RATE
  -- pad10*1 with domain byte 0x01
  let mut msg := inp
  if padLen = 1 then
    msg := msg.push 0x81
  else
    msg := msg.push 0x01
    for _ in [0:padLen - 2] do
      msg := msg.push 0
    msg := msg.push 0x80
  let mut st : Array UInt64 := Array.replicate 25 0
  for b in [0:msg.size / RATE] do
    st := absorbBlock st msg (b * RATE)
  let mut out : Array UInt8 := Array.emptyWithCapacity 32
  for i in [0:4] do
    for k in [0:8] do
      out := out.push ((st[i]! >>> (8 * k).toUInt64).toUInt8)
  out

/-- Keccak-256 over the model's byte lists (each element taken mod 256) -/
def keccak256 (bs : List Nat) : List Nat :=
  (keccak256Bytes (bs.toArray.map (fun b => b.toUInt8))).toList.map (·.toNat)

/-- big-endian value of a byte list -/
def beNat (bs : List Nat) : Nat := bs.foldl (fun acc b => acc * 256 + b % 256) 0

/-- the hash as a 256-bit word -/
def keccak256w (bs : List Nat) : Nat := beNat (keccak256 bs)

/-- big-endian bytes of `n`, exactly `len` bytes (high bytes dropped) -/
def beBytes (len : Nat) (n : Nat) : List Nat :=
  (List.range len).map fun i => (n / 256 ^ (len - 1 - i)) % 256

/-- minimal big-endian bytes (empty for 0) -/
def minBytes (n : Nat) : List Nat :=
  if n = 0 then [] else beBytes (n.log2 / 8 + 1) n

/-- RLP of a byte string shorter than 56 bytes (all that address derivation needs) -/
def rlpShortString (bs : List Nat) : List Nat :=
  match bs with
  | [b] => if b < 0x80 then [b] else [0x81, b]
  | _ => (0x80 + bs.length) :: bs

/-- `Address::create(nonce)`: last 20 bytes of keccak(rlp([address, nonce])) as a number -/
def createAddress (sender : Nat) (nonce : Nat) : Nat :=
  let payload := rlpShortString (beBytes 20 sender) ++ rlpShortString (minBytes nonce)
  let enc := (0xc0 + payload.length) :: payload
  keccak256w enc % 2 ^ 160

/-- `Address::create2(salt, init_code_hash)` -/
def create2Address (sender : Nat) (salt : Nat) (initCodeHash : Nat) : Nat :=
  keccak256w (0xff :: (beBytes 20 sender ++ beBytes 32 salt ++ beBytes 32 initCodeHash)) % 2 ^ 160

end Revm.Keccak
