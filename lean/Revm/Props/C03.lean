import Revm.Proofs.Arith
/-! C03 — arithmetic, comparison, bitwise and shift opcodes compute exact 256-bit results.
Statements only; proofs live in `Revm.Proofs.Arith`. `Model` follows the Rust code
(`arithmetic.rs`, `i256.rs`, `bitwise.rs`, `gas::exp_cost`), `Spec` is unbounded integer arithmetic
reduced mod 2^256 (two's complement for the signed opcodes, 0 on a zero divisor / modulus).
Operand order is stack order (first argument = top of stack). Static gas (3 / 5 / 8) and the number
of consumed stack items are compared with the real interpreter by the correspondence stream; the
only gas *formula* of this group, `exp_cost`, is proved here (`expCost_eq`). -/
namespace Revm.Props.C03
open Revm Revm.U256

/-! ## value theorems: `Model.op = Spec.op` for all 256-bit operands -/

theorem add_eq (a b : Nat) : Model.Arith.add a b = Spec.Arith.add a b := rfl
theorem mul_eq (a b : Nat) : Model.Arith.mul a b = Spec.Arith.mul a b := rfl
theorem sub_eq (a b : Nat) (ha : a < W) (hb : b < W) : Model.Arith.sub a b = Spec.Arith.sub a b :=
  Proofs.Arith.sub_eq a b ha hb
theorem div_eq (a b : Nat) : Model.Arith.div a b = Spec.Arith.div a b := Proofs.Arith.div_eq a b
theorem mod_eq (a b : Nat) : Model.Arith.rem a b = Spec.Arith.mod a b := Proofs.Arith.mod_eq a b
/-- SDIV = truncated division of the two's-complement readings (MIN / -1 wraps to MIN) -/
theorem sdiv_eq (a b : Nat) (ha : a < W) (hb : b < W) : Model.Arith.sdiv a b = Spec.Arith.sdiv a b :=
  Proofs.Arith.sdiv_eq a b ha hb
/-- SMOD = `Int.tmod` (sign of the dividend) of the two's-complement readings -/
theorem smod_eq (a b : Nat) (ha : a < W) (hb : b < W) : Model.Arith.smod a b = Spec.Arith.smod a b :=
  Proofs.Arith.smod_eq a b ha hb
theorem addmod_eq (a b n : Nat) : Model.Arith.addmod a b n = Spec.Arith.addmod a b n :=
  Proofs.Arith.addmod_eq a b n
theorem mulmod_eq (a b n : Nat) : Model.Arith.mulmod a b n = Spec.Arith.mulmod a b n :=
  Proofs.Arith.mulmod_eq a b n
/-- EXP: ruint's square-and-multiply loop with wrapping products = `a^b mod 2^256` -/
theorem exp_eq (a b : Nat) (hb : b < W) : Model.Arith.exp a b = Spec.Arith.exp a b :=
  Proofs.Arith.exp_eq a b hb
/-- SIGNEXTEND: the mask construction = signed reading of the low `8(k+1)` bits -/
theorem signextend_eq (k x : Nat) (hx : x < W) :
    Model.Arith.signextend k x = Spec.Arith.signextend k x := Proofs.Arith.signextend_eq k x hx
theorem lt_eq (a b : Nat) : Model.Arith.lt a b = Spec.Arith.lt a b := Proofs.Arith.lt_eq a b
theorem gt_eq (a b : Nat) : Model.Arith.gt a b = Spec.Arith.gt a b := Proofs.Arith.gt_eq a b
/-- SLT: `i256_cmp` (sign classes, then unsigned compare) = `<` on the two's-complement readings -/
theorem slt_eq (a b : Nat) (ha : a < W) (hb : b < W) : Model.Arith.slt a b = Spec.Arith.slt a b :=
  Proofs.Arith.slt_eq a b ha hb
theorem sgt_eq (a b : Nat) (ha : a < W) (hb : b < W) : Model.Arith.sgt a b = Spec.Arith.sgt a b :=
  Proofs.Arith.sgt_eq a b ha hb
theorem eq_eq (a b : Nat) : Model.Arith.eq a b = Spec.Arith.eq a b := Proofs.Arith.eq_eq a b
theorem iszero_eq (a : Nat) : Model.Arith.iszero a = Spec.Arith.iszero a := Proofs.Arith.iszero_eq a
theorem and_eq (a b : Nat) : Model.Arith.bitand a b = Spec.Arith.and a b := Proofs.Arith.and_eq a b
theorem or_eq (a b : Nat) : Model.Arith.bitor a b = Spec.Arith.or a b := Proofs.Arith.or_eq a b
theorem xor_eq (a b : Nat) : Model.Arith.bitxor a b = Spec.Arith.xor a b := Proofs.Arith.xor_eq a b
theorem not_eq (a : Nat) : Model.Arith.bitnot a = Spec.Arith.not a := Proofs.Arith.not_eq a
/-- what `Spec.not` (= `2^256 - 1 - a`) means bitwise: exactly the low 256 bits are flipped -/
theorem not_testBit (a : Nat) (ha : a < W) (i : Nat) :
    (Model.Arith.bitnot a).testBit i = (decide (i < 256) && !a.testBit i) :=
  Proofs.Arith.not_testBit a ha i
/-- … and arithmetically: `-a - 1` in two's complement -/
theorem not_int (a : Nat) (ha : a < W) : Model.Arith.bitnot a = ofInt (-(toInt a) - 1) :=
  Proofs.Arith.not_int a ha
/-- BYTE with any 256-bit index (saturated to `usize` in the code) -/
theorem byte_eq (i x : Nat) : Model.Arith.byte i x = Spec.Arith.byte i x := Proofs.Arith.byte_eq i x
/-- SHL with any shift amount, including ≥ 256 and ≥ 2^64 -/
theorem shl_eq (s x : Nat) : Model.Arith.shl s x = Spec.Arith.shl s x := Proofs.Arith.shl_eq s x
theorem shr_eq (s x : Nat) (hx : x < W) : Model.Arith.shr s x = Spec.Arith.shr s x :=
  Proofs.Arith.shr_eq s x hx
/-- SAR: sign-filling shift = floor division of the signed reading by `2^s`, any shift amount -/
theorem sar_eq (s x : Nat) (hx : x < W) : Model.Arith.sar s x = Spec.Arith.sar s x :=
  Proofs.Arith.sar_eq s x hx

/-! ## gas of EXP -/

/-- `log2floor` (scan of the four 64-bit limbs with `leading_zeros`) is the position of the top bit -/
theorem log2floor_eq (v : Nat) (hv : v < W) :
    Model.Arith.log2floor v = if v = 0 then 0 else v.log2 := Proofs.Arith.log2floor_eq v hv
/-- `exp_cost` never fails for a 256-bit exponent and equals `10 + (10|50) * byteLen(exponent)` -/
theorem expCost_eq (sd : Bool) (p : Nat) (hp : p < W) :
    Model.Arith.expCost sd p = some (Spec.Arith.expCost sd p) := Proofs.Arith.expCost_eq sd p hp

/-! ## every pushed value is again a 256-bit word -/

theorem add_lt (a b : Nat) : Model.Arith.add a b < W := Proofs.Arith.add_lt a b
theorem mul_lt (a b : Nat) : Model.Arith.mul a b < W := Proofs.Arith.mul_lt a b
theorem sub_lt (a b : Nat) : Model.Arith.sub a b < W := Proofs.Arith.sub_lt a b
theorem div_lt (a b : Nat) (ha : a < W) : Model.Arith.div a b < W := Proofs.Arith.div_lt_W a b ha
theorem mod_lt (a b : Nat) (hb : b < W) : Model.Arith.rem a b < W := Proofs.Arith.mod_lt_W a b hb
theorem sdiv_lt (a b : Nat) (ha : a < W) (hb : b < W) : Model.Arith.sdiv a b < W :=
  Proofs.Arith.sdiv_lt a b ha hb
theorem smod_lt (a b : Nat) (ha : a < W) (hb : b < W) : Model.Arith.smod a b < W :=
  Proofs.Arith.smod_lt a b ha hb
theorem addmod_lt (a b n : Nat) (hn : n < W) : Model.Arith.addmod a b n < W :=
  Proofs.Arith.addmod_lt a b n hn
theorem mulmod_lt (a b n : Nat) (hn : n < W) : Model.Arith.mulmod a b n < W :=
  Proofs.Arith.mulmod_lt a b n hn
theorem exp_lt (a b : Nat) (hb : b < W) : Model.Arith.exp a b < W := Proofs.Arith.exp_lt a b hb
theorem signextend_lt (k x : Nat) (hx : x < W) : Model.Arith.signextend k x < W :=
  Proofs.Arith.signextend_lt k x hx
theorem lt_lt (a b : Nat) : Model.Arith.lt a b < W := Proofs.Arith.lt_lt a b
theorem gt_lt (a b : Nat) : Model.Arith.gt a b < W := Proofs.Arith.gt_lt a b
theorem slt_lt (a b : Nat) : Model.Arith.slt a b < W := Proofs.Arith.slt_lt a b
theorem sgt_lt (a b : Nat) : Model.Arith.sgt a b < W := Proofs.Arith.sgt_lt a b
theorem eq_lt (a b : Nat) : Model.Arith.eq a b < W := Proofs.Arith.eq_lt a b
theorem iszero_lt (a : Nat) : Model.Arith.iszero a < W := Proofs.Arith.iszero_lt a
theorem and_lt (a b : Nat) (ha : a < W) : Model.Arith.bitand a b < W := Proofs.Arith.and_lt a b ha
theorem or_lt (a b : Nat) (ha : a < W) (hb : b < W) : Model.Arith.bitor a b < W :=
  Proofs.Arith.or_lt a b ha hb
theorem xor_lt (a b : Nat) (ha : a < W) (hb : b < W) : Model.Arith.bitxor a b < W :=
  Proofs.Arith.xor_lt a b ha hb
theorem not_lt (a : Nat) : Model.Arith.bitnot a < W := Proofs.Arith.not_lt a
theorem byte_lt (i x : Nat) : Model.Arith.byte i x < W := Proofs.Arith.byte_lt i x
theorem shl_lt (s x : Nat) : Model.Arith.shl s x < W := Proofs.Arith.shl_lt s x
theorem shr_lt (s x : Nat) (hx : x < W) : Model.Arith.shr s x < W := Proofs.Arith.shr_lt s x hx
theorem sar_lt (s x : Nat) (hx : x < W) : Model.Arith.sar s x < W := Proofs.Arith.sar_lt s x hx

/-! ## the hypotheses are satisfiable, and the functions are not trivial: boundary evaluations -/

/-- `-1` as a word -/
abbrev M1 : Nat := W - 1
/-- the most negative word -/
abbrev MIN : Nat := 2^255

example : M1 < W ∧ MIN < W ∧ (0 : Nat) < W ∧ (300 : Nat) < W := by
  unfold M1 MIN; rw [W_val]; omega
example : Model.Arith.sub 0 1 = M1 := by decide +kernel
example : Model.Arith.sdiv MIN M1 = MIN := by decide +kernel
example : Model.Arith.sdiv (W - 7) 2 = W - 3 := by decide +kernel
example : Model.Arith.smod (W - 7) 2 = M1 := by decide +kernel
example : Model.Arith.smod 7 (W - 2) = 1 := by decide +kernel
example : Model.Arith.exp 3 5 = 243 := by decide +kernel
example : Model.Arith.exp 2 256 = 0 := by decide +kernel
example : Model.Arith.exp 2 255 = MIN := by decide +kernel
example : Model.Arith.signextend 0 0x80 = W - 128 := by decide +kernel
example : Model.Arith.signextend 0 0x17f = 0x7f := by decide +kernel
example : Model.Arith.signextend 31 M1 = M1 := by decide +kernel
example : Model.Arith.slt M1 0 = 1 ∧ Model.Arith.lt M1 0 = 0 := by decide +kernel
example : Model.Arith.sgt 0 MIN = 1 ∧ Model.Arith.gt 0 MIN = 0 := by decide +kernel
example : Model.Arith.byte 31 0x1234 = 0x34 ∧ Model.Arith.byte 32 0x1234 = 0 := by decide +kernel
example : Model.Arith.shl 255 1 = MIN ∧ Model.Arith.shl 256 1 = 0 := by decide +kernel
example : Model.Arith.shr 255 MIN = 1 ∧ Model.Arith.shr 256 M1 = 0 := by decide +kernel
example : Model.Arith.sar 1 MIN = 2^255 + 2^254 := by decide +kernel
example : Model.Arith.sar 255 MIN = M1 ∧ Model.Arith.sar 256 MIN = M1 ∧ Model.Arith.sar M1 MIN = M1 := by
  decide +kernel
example : Model.Arith.sar 256 (MIN - 1) = 0 := by decide +kernel
example : Model.Arith.expCost true 0 = some 10 ∧ Model.Arith.expCost true 255 = some 60 ∧
    Model.Arith.expCost true 256 = some 110 ∧ Model.Arith.expCost false M1 = some 330 ∧
    Model.Arith.expCost true M1 = some 1610 := by decide +kernel

end Revm.Props.C03
