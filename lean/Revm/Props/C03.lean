import Revm.Proofs.Arith
/-! C03 — arithmetic, comparison, bitwise and shift opcodes compute exact 256-bit results.
Statements only; proofs live in `Revm.Proofs.Arith`. `Model` follows the Rust code, `Spec` is
unbounded integer arithmetic reduced mod 2^256. -/
namespace Revm.Props.C03
open Revm Revm.U256

theorem add_eq (a b : Nat) : Model.Arith.add a b = Spec.Arith.add a b := rfl
theorem mul_eq (a b : Nat) : Model.Arith.mul a b = Spec.Arith.mul a b := rfl
theorem sub_eq (a b : Nat) (ha : a < W) (hb : b < W) : Model.Arith.sub a b = Spec.Arith.sub a b :=
  Proofs.Arith.sub_eq a b ha hb
theorem div_eq (a b : Nat) : Model.Arith.div a b = Spec.Arith.div a b := Proofs.Arith.div_eq a b
theorem mod_eq (a b : Nat) : Model.Arith.rem a b = Spec.Arith.mod a b := Proofs.Arith.mod_eq a b
theorem sdiv_eq (a b : Nat) (ha : a < W) (hb : b < W) : Model.Arith.sdiv a b = Spec.Arith.sdiv a b :=
  Proofs.Arith.sdiv_eq a b ha hb

end Revm.Props.C03
