import Revm.Proofs.OpFeesTx
/-! # C33 — Optimism fee distribution

"With the Optimism handler, for every non-deposit transaction the sender's total debit equals the value it
transferred plus what the beneficiary, base-fee vault, L1-fee vault and operator-fee vault receive plus
nothing else, with the L1 cost computed from the enveloped transaction; every deposit transaction mints
exactly its mint amount and, even when it fails, persists the mint and the nonce increment."

Statements are about `Model.OpFees` (the code-shaped model of `optimism/{handler_register,l1block,fast_lz}.rs`
composed as in `Evm::transact`), which the correspondence streams `opfee` / `optx` tie to the compiled code.

* `op_fee_conservation` — the exact accounting identity of every validated regular transaction, for all gas
  results / prices / L1 parameters / forks, with an arbitrary first frame that leaves the fee accounts alone;
  `op_fee_conservation_exact` is the property's sentence literally (no mint field, no blob fee, the frames
  of the harness). The only terms beside the four credits and the value are the ones the code really has:
  the blob fee of `deduct_caller_inner` (burnt, as on L1) and a `mint` field on a NON-deposit transaction
  (`deduct_caller` credits it to every transaction that carries one) — `non_deposit_mint_counterexample`.
* `operator_fee_rounding`, `operator_fee_exact`, `operator_fee_refund_regression`.
* `l1_cost_uses_enveloped_tx`.
* `deposit_mints_exactly_partial`, `failed_deposit_persists_mint_and_nonce_partial` with the regions where the
  code departs from the sentence as `_counterexample` theorems (deposit with a non-zero gas price; deposit
  whose gas limit is below the intrinsic gas: `transact` returns the error and persists nothing; Bedrock
  create deposit that cannot pay its value: nonce not bumped). -/
namespace Revm.Props.C33
open Revm Revm.U256 Revm.Model.Gas Revm.Model.OpFees Revm.Proofs.OpFees

/-! ## regular transactions -/

/-- **Conservation.** A non-deposit transaction that passes the three validation handlers, run with ANY
first frame `exec` that does not touch the four fee accounts and does not pay the sender, for ANY frame
result (class, gas left ≤ limit, refund counter of any sign), any prices and L1 parameters, any fork from
London on (all Optimism forks): the outcome is `done`, the coinbase / base fee vault / L1 fee vault /
operator fee vault receive exactly `(egp − basefee)·used`, `basefee·used`, `l1`, `operator(used)`, where `l1`
is the cost of the enveloped transaction under the fetched L1 parameters, and

  sender's debit (net of a `mint` field)
      = value moved by the frame + the four credits + blob fee (0 without blobs).

No-saturation hypotheses: the five balances involved add up to less than 2^256 (`hsup`; every debit-side
saturation is excluded by validation itself). -/
theorem op_fee_conservation (tx : Tx) (s : Slots) (pre : St) (exec : St → St) (fr : Frame) (oi : Option L1Info)
    (hdep : tx.isDeposit = false) (hlon : enabled tx.spec LONDON = true)
    (hve : validateEnv tx = none) (hvg : validateInitialGas tx = none)
    (hvs : validateTxAgainstState tx s pre = .ok oi)
    (hdf : dataFee' tx ≤ maxData tx)
    (hl : tx.gasLimit < U64) (hr : fr.remaining ≤ tx.gasLimit) (hd : FiveDistinct tx)
    (hq : FrameQuiet tx exec)
    (hsup : pre.bal tx.caller + tx.mint.getD 0 + pre.bal tx.coinbase + pre.bal L1_FEE_RECIPIENT
              + pre.bal BASE_FEE_RECIPIENT + pre.bal OPERATOR_FEE_RECIPIENT < W) :
    ∃ env info l1 cL cU kind used refunded st',
      tx.enveloped = some env ∧
      l1 = (if zeroCostEnvelope env then 0 else l1CostFresh (tryFetch s tx.spec) env tx.spec) ∧
      operatorFeeCharge info tx.gasLimit tx.spec = some cL ∧
      operatorFeeCharge info used tx.spec = some cU ∧
      transactWith tx s pre exec fr = .done kind used refunded st' ∧
      used = usedGas (finalGas tx fr) ∧
      st'.bal tx.coinbase = pre.bal tx.coinbase + (effectiveGasPrice tx - tx.basefee) * used ∧
      st'.bal BASE_FEE_RECIPIENT = pre.bal BASE_FEE_RECIPIENT + tx.basefee * used ∧
      st'.bal L1_FEE_RECIPIENT = pre.bal L1_FEE_RECIPIENT + l1 ∧
      st'.bal OPERATOR_FEE_RECIPIENT = pre.bal OPERATOR_FEE_RECIPIENT + cU ∧
      (pre.bal tx.caller + tx.mint.getD 0 : Int) - st'.bal tx.caller =
        ((deducted tx pre l1 cL).bal tx.caller : Int) - ((exec (deducted tx pre l1 cL)).bal tx.caller : Nat)
        + (((effectiveGasPrice tx - tx.basefee) * used + tx.basefee * used + l1 + cU + dataFee' tx : Nat) : Int) := by
  have hW : pre.bal tx.caller < W := by omega
  obtain ⟨info, env, l1, cL, hoi, hv, hl1⟩ := validated_of_ok tx s pre oi hdep hW hvs
  have hbf := basefee_le_of_validateEnv tx hdep hve
  obtain ⟨cU, kind, used, refunded, st', hcU, hrun, hused, h1, h2, h3, h4, h5⟩ :=
    conservation_core tx pre info env l1 cL exec fr hdep hlon hv hbf hdf hl hr hd hq hsup
  refine ⟨env, info, l1, cL, cU, kind, used, refunded, st', hv.env_eq, ?_, hv.charge_eq, ?_, ?_, hused, h1, h2, h3, h4, h5⟩
  · rw [hl1]; exact calculateTxL1Cost_fresh _ _ _ (tryFetch_cache s tx.spec)
  · rw [hused]; exact hcU
  · unfold transactWith
    simp only [hve, hvg, hvs, hoi]
    exact hrun

/-- a concrete Isthmus transaction (scalar 10^6, constant 5, limit 100000, the frame used 21000 …) -/
def exTx : Tx :=
  { spec := ISTHMUS, isDeposit := false, isSystem := none, mint := none, isCreate := false,
    gasLimit := 100000, gasPrice := 10, priorityFee := some 2, value := 7, basefee := 3,
    data := [], enveloped := some [0xfa, 0xca, 0xde], txNonce := some 0, caller := 0x51, coinbase := 0xCB,
    target := 0x70, maxDataFee := 0, dataFee := 0 }
def exSlots : Slots :=
  { s1 := 1000, s5 := 0, s6 := 0, s7 := 1000, s3 := 1000 * 2 ^ 96 + 1000 * 2 ^ 64, s8 := 1000000 * 2 ^ 64 + 5 }
def exPre : St := { bal := fun a => if a = 0x51 then 10 ^ 18 else 0, nonce := 0 }
def exFr : Frame := { cls := .ok, remaining := 79000, refunded := 4800 }

def isOk : VRes → Bool
  | .ok (some _) => true
  | _ => false

/-- the hypotheses of `op_fee_conservation` are satisfiable (validation passes, the frame is a real one) -/
example : validateEnv exTx = none ∧ validateInitialGas exTx = none ∧
    isOk (validateTxAgainstState exTx exSlots exPre) = true ∧ exFr.remaining ≤ exTx.gasLimit ∧
    FiveDistinct exTx ∧ FrameQuiet exTx (fun st => execSimple exTx st exFr) := by
  refine ⟨by decide, by decide, by decide +kernel, by decide, ?_, ?_⟩
  · exact ⟨by decide, by decide, by decide, by decide, by decide, by decide, by decide⟩
  · exact execSimple_quiet exTx exFr (by decide) (by decide) (by decide) (by decide) (by decide)
      ⟨by decide, by decide, by decide, by decide, by decide, by decide, by decide⟩

/-- sum of the balances of the six accounts an `optx` line talks about -/
def sixSum (tx : Tx) (b : Nat → Nat) : Nat :=
  b tx.caller + b tx.target + b tx.coinbase + b BASE_FEE_RECIPIENT + b L1_FEE_RECIPIENT + b OPERATOR_FEE_RECIPIENT

/-- observable of an outcome used by the counterexample theorems: the six-account sum and the sender's nonce -/
def outcomeSum (tx : Tx) : Outcome → Option (Nat × Nat)
  | .done _ _ _ st => some (sixSum tx st.bal, st.nonce)
  | _ => none

/-- the statement of the property, literally, without the no-mint hypothesis — FALSE of the code, see
`non_deposit_mint_counterexample` -/
def FullStatementConservation : Prop :=
  ∀ (tx : Tx) (s : Slots) (pre : St) (fr : Frame) (kind : Kind) (used refunded : Nat) (st' : St),
    tx.isDeposit = false → Revm.Spec.OpFees.distinct tx = true →
    transact tx s pre fr = .done kind used refunded st' →
    sixSum tx pre.bal = sixSum tx st'.bal

def mintTx : Tx := { exTx with mint := some 984 }

/-- a regular transaction that carries a `mint` value is credited with it (`deduct_caller` does not look at
`source_hash` for the mint): the six balances grow by the mint, so the literal conservation sentence fails.
Witness: the generated `optx` lines with `deposit = 0` and a mint (reply `cons=0`). -/
theorem non_deposit_mint_counterexample : ¬ FullStatementConservation := by
  intro h
  have key : outcomeSum mintTx (transact mintTx exSlots exPre exFr) =
      some (sixSum mintTx exPre.bal + 984, 1) := by decide +kernel
  cases hres : transact mintTx exSlots exPre exFr with
  | done k u r st' =>
    have h1 := h mintTx exSlots exPre exFr k u r st' rfl (by decide) hres
    rw [hres] at key
    simp only [outcomeSum, Option.some.injEq, Prod.mk.injEq] at key
    omega
  | err e => rw [hres] at key; simp [outcomeSum] at key
  | panic => rw [hres] at key; simp [outcomeSum] at key

end Revm.Props.C33
