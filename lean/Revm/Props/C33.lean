import Revm.Proofs.OpFeesTx
import Revm.Proofs.OpFeesL1
import Revm.Proofs.OpFeesGas
/-! # C33 — Optimism fee distribution

"With the Optimism handler, for every non-deposit transaction the sender's total debit equals the value it
transferred plus what the beneficiary, base-fee vault, L1-fee vault and operator-fee vault receive plus
nothing else, with the L1 cost computed from the enveloped transaction; every deposit transaction mints
exactly its mint amount and, even when it fails, persists the mint and the nonce increment."

Statements are about `Model.OpFees` (the code-shaped model of `optimism/{handler_register,l1block,fast_lz}.rs`
composed as in `Evm::transact`), which the correspondence streams `opfee` / `optx` tie to the compiled code.

* `op_fee_conservation` — the exact accounting identity of every validated regular transaction, for all gas
  results / prices / L1 parameters / forks, with an arbitrary first frame that leaves the fee accounts alone;
  `op_fee_conservation_exact` is the property's sentence literally (no mint field, no blob fee, the frames
  of the harness). The only terms beside the four credits and the value are the ones the code really has:
  the blob fee of `deduct_caller_inner` (burnt, as on L1) and a `mint` field on a NON-deposit transaction
  (`deduct_caller` credits it to every transaction that carries one) — `non_deposit_mint_counterexample`.
* `operator_fee_rounding`, `operator_fee_exact`, `operator_fee_refund_regression`.
* `l1_cost_uses_enveloped_tx`.
* `deposit_mints_exactly_partial`, `failed_deposit_persists_mint_and_nonce_partial` with the regions where the
  code departs from the sentence as `_counterexample` theorems (deposit with a non-zero gas price, outside
  the protocol; known finding F2: Bedrock create deposit that cannot pay its value, nonce not bumped) and
  `deposit_intrinsic_gas_regression` (a deposit failing validation persisted nothing before commit 25ebe790). -/
namespace Revm.Props.C33
open Revm Revm.U256 Revm.Model.Gas Revm.Model.OpFees Revm.Proofs.OpFees

/-! ## regular transactions -/

/-- **Conservation.** A non-deposit transaction that passes the three validation handlers, run with ANY
first frame `exec` that does not touch the four fee accounts and does not pay the sender, for ANY frame
result (class, gas left ≤ limit, refund counter of any sign), any prices and L1 parameters, any fork from
London on (all Optimism forks): the outcome is `done`, the coinbase / base fee vault / L1 fee vault /
operator fee vault receive exactly `(egp − basefee)·used`, `basefee·used`, `l1`, `operator(used)`, where `l1`
is the cost of the enveloped transaction under the fetched L1 parameters, and

  sender's debit (net of a `mint` field)
      = value moved by the frame + the four credits + blob fee (0 without blobs).

No-saturation hypotheses: the five balances involved add up to less than 2^256 (`hsup`; every debit-side
saturation is excluded by validation itself). -/
theorem op_fee_conservation (tx : Tx) (s : Slots) (pre : St) (exec : St → St) (fr : Frame) (oi : Option L1Info)
    (hdep : tx.isDeposit = false) (hlon : enabled tx.spec LONDON = true)
    (hve : validateEnv tx = none) (hvg : validateInitialGas tx = none)
    (hvs : validateTxAgainstState tx s pre = .ok oi)
    (hdf : dataFee' tx ≤ maxData tx)
    (hl : tx.gasLimit < U64) (hr : fr.remaining ≤ tx.gasLimit) (hd : FiveDistinct tx)
    (hq : FrameQuiet tx exec)
    (hsup : pre.bal tx.caller + tx.mint.getD 0 + pre.bal tx.coinbase + pre.bal L1_FEE_RECIPIENT
              + pre.bal BASE_FEE_RECIPIENT + pre.bal OPERATOR_FEE_RECIPIENT < W) :
    ∃ env l1 cL cU kind used refunded st',
      tx.enveloped = some env ∧
      l1 = (if zeroCostEnvelope env then 0 else l1CostFresh (tryFetch s tx.spec) env tx.spec) ∧
      operatorFeeCharge (tryFetch s tx.spec) tx.gasLimit tx.spec = some cL ∧
      operatorFeeCharge (tryFetch s tx.spec) used tx.spec = some cU ∧
      transactWith tx s pre exec fr = .done kind used refunded st' ∧
      used = usedGas (finalGas tx fr) ∧
      st'.bal tx.coinbase = pre.bal tx.coinbase + (effectiveGasPrice tx - tx.basefee) * used ∧
      st'.bal BASE_FEE_RECIPIENT = pre.bal BASE_FEE_RECIPIENT + tx.basefee * used ∧
      st'.bal L1_FEE_RECIPIENT = pre.bal L1_FEE_RECIPIENT + l1 ∧
      st'.bal OPERATOR_FEE_RECIPIENT = pre.bal OPERATOR_FEE_RECIPIENT + cU ∧
      (pre.bal tx.caller + tx.mint.getD 0 : Int) - st'.bal tx.caller =
        ((deducted tx pre l1 cL).bal tx.caller : Int) - ((exec (deducted tx pre l1 cL)).bal tx.caller : Nat)
        + (((effectiveGasPrice tx - tx.basefee) * used + tx.basefee * used + l1 + cU + dataFee' tx : Nat) : Int) := by
  have hW : pre.bal tx.caller < W := by omega
  obtain ⟨info, env, l1, cL, hoi, hv, hl1⟩ := validated_of_ok tx s pre oi hdep hW hvs
  have hbf := basefee_le_of_validateEnv tx hdep hve
  obtain ⟨cU, kind, used, refunded, st', hcU, hrun, hused, h1, h2, h3, h4, h5⟩ :=
    conservation_core tx pre info env l1 cL exec fr hdep hlon hv hbf hdf hl hr hd hq hsup
  have hop : ∀ g, operatorFeeCharge (tryFetch s tx.spec) g tx.spec = operatorFeeCharge info g tx.spec := by
    intro g
    have := calculateTxL1Cost_op (tryFetch s tx.spec) env tx.spec g
    rw [hl1] at this
    exact this.symm
  refine ⟨env, l1, cL, cU, kind, used, refunded, st', hv.env_eq, ?_, ?_, ?_, ?_, hused, h1, h2, h3, h4, h5⟩
  · have h6 := calculateTxL1Cost_fresh (tryFetch s tx.spec) env tx.spec (tryFetch_cache s tx.spec)
    rw [hl1] at h6; exact h6
  · rw [hop]; exact hv.charge_eq
  · rw [hop, hused]; exact hcU
  · unfold transactWith
    simp only [hve, hvg, hvs, hoi]
    exact hrun

/-- a concrete Isthmus transaction (scalar 10^6, constant 5, limit 100000, the frame used 21000 …) -/
def exTx : Tx :=
  { spec := ISTHMUS, isDeposit := false, isSystem := none, mint := none, isCreate := false,
    gasLimit := 100000, gasPrice := 10, priorityFee := some 2, value := 7, basefee := 3,
    data := [], enveloped := some [0xfa, 0xca, 0xde], txNonce := some 0, caller := 0x51, coinbase := 0xCB,
    target := 0x70, maxDataFee := 0, dataFee := 0 }
def exSlots : Slots :=
  { s1 := 1000, s5 := 0, s6 := 0, s7 := 1000, s3 := 1000 * 2 ^ 96 + 1000 * 2 ^ 64, s8 := 1000000 * 2 ^ 64 + 5 }
def exPre : St := { bal := fun a => if a = 0x51 then 10 ^ 18 else 0, nonce := 0 }
def exFr : Frame := { cls := .ok, remaining := 79000, refunded := 4800 }

def isOk : VRes → Bool
  | .ok (some _) => true
  | _ => false

/-- the hypotheses of `op_fee_conservation` are satisfiable (validation passes, the frame is a real one) -/
example : validateEnv exTx = none ∧ validateInitialGas exTx = none ∧
    isOk (validateTxAgainstState exTx exSlots exPre) = true ∧ exFr.remaining ≤ exTx.gasLimit ∧
    FiveDistinct exTx ∧ FrameQuiet exTx (fun st => execSimple exTx st exFr) := by
  refine ⟨by decide, by decide, by decide +kernel, by decide, ?_, ?_⟩
  · exact ⟨by decide, by decide, by decide, by decide, by decide, by decide, by decide⟩
  · exact execSimple_quiet exTx exFr (by decide) (by decide) (by decide) (by decide) (by decide)
      ⟨by decide, by decide, by decide, by decide, by decide, by decide, by decide⟩

/-- sum of the balances of the six accounts an `optx` line talks about -/
def sixSum (tx : Tx) (b : Nat → Nat) : Nat :=
  b tx.caller + b tx.target + b tx.coinbase + b BASE_FEE_RECIPIENT + b L1_FEE_RECIPIENT + b OPERATOR_FEE_RECIPIENT

/-- observable of an outcome used by the counterexample theorems: the six-account sum and the sender's nonce -/
def outcomeSum (tx : Tx) : Outcome → Option (Nat × Nat)
  | .done _ _ _ st => some (sixSum tx st.bal, st.nonce)
  | _ => none

/-- the statement of the property, literally, without the no-mint hypothesis — FALSE of the code, see
`non_deposit_mint_counterexample` -/
def FullStatementConservation : Prop :=
  ∀ (tx : Tx) (s : Slots) (pre : St) (fr : Frame) (kind : Kind) (used refunded : Nat) (st' : St),
    tx.isDeposit = false → Revm.Spec.OpFees.distinct tx = true →
    transact tx s pre fr = .done kind used refunded st' →
    sixSum tx pre.bal = sixSum tx st'.bal

def mintTx : Tx := { exTx with mint := some 984 }

/-- a regular transaction that carries a `mint` value is credited with it (`deduct_caller` does not look at
`source_hash` for the mint): the six balances grow by the mint, so the literal conservation sentence fails.
Witness: the generated `optx` lines with `deposit = 0` and a mint (reply `cons=0`). -/
theorem non_deposit_mint_counterexample : ¬ FullStatementConservation := by
  intro h
  have key : outcomeSum mintTx (transact mintTx exSlots exPre exFr) =
      some (sixSum mintTx exPre.bal + 984, 1) := by decide +kernel
  cases hres : transact mintTx exSlots exPre exFr with
  | done k u r st' =>
    have h1 := h mintTx exSlots exPre exFr k u r st' rfl (by decide) hres
    rw [hres] at key
    simp only [outcomeSum, Option.some.injEq, Prod.mk.injEq] at key
    omega
  | err e => rw [hres] at key; simp [outcomeSum] at key
  | panic => rw [hres] at key; simp [outcomeSum] at key

/-- **The property's sentence, literally**, for the frames the harness runs (`execSimple`: a call / create
that moves the value iff it succeeds), a transaction without a `mint` field and without blobs: what the
sender loses is exactly the value moved (`tx.value` after a successful frame, 0 otherwise) plus what coinbase,
base fee vault, L1 fee vault and operator fee vault gain — and nothing else. -/
theorem op_fee_conservation_exact (tx : Tx) (s : Slots) (pre : St) (fr : Frame) (oi : Option L1Info)
    (hdep : tx.isDeposit = false) (hlon : enabled tx.spec LONDON = true)
    (hve : validateEnv tx = none) (hvg : validateInitialGas tx = none)
    (hvs : validateTxAgainstState tx s pre = .ok oi)
    (hmint : tx.mint = none) (hblob : dataFee' tx = 0)
    (hl : tx.gasLimit < U64) (hr : fr.remaining ≤ tx.gasLimit) (hn : pre.nonce + 1 < U64) (hd : FiveDistinct tx)
    (h0 : tx.target ≠ tx.caller) (h1 : tx.coinbase ≠ tx.target) (h2 : L1_FEE_RECIPIENT ≠ tx.target)
    (h3 : BASE_FEE_RECIPIENT ≠ tx.target) (h4 : OPERATOR_FEE_RECIPIENT ≠ tx.target)
    (hsup : pre.bal tx.caller + pre.bal tx.coinbase + pre.bal L1_FEE_RECIPIENT
              + pre.bal BASE_FEE_RECIPIENT + pre.bal OPERATOR_FEE_RECIPIENT < W)
    (htgt : pre.bal tx.target + tx.value < W) :
    ∃ kind used refunded st',
      transact tx s pre fr = .done kind used refunded st' ∧
      pre.bal tx.caller =
        st'.bal tx.caller + (if fr.cls = .ok then tx.value else 0)
        + (st'.bal tx.coinbase - pre.bal tx.coinbase) + (st'.bal BASE_FEE_RECIPIENT - pre.bal BASE_FEE_RECIPIENT)
        + (st'.bal L1_FEE_RECIPIENT - pre.bal L1_FEE_RECIPIENT)
        + (st'.bal OPERATOR_FEE_RECIPIENT - pre.bal OPERATOR_FEE_RECIPIENT) ∧
      pre.bal tx.coinbase ≤ st'.bal tx.coinbase ∧ pre.bal BASE_FEE_RECIPIENT ≤ st'.bal BASE_FEE_RECIPIENT ∧
      pre.bal L1_FEE_RECIPIENT ≤ st'.bal L1_FEE_RECIPIENT ∧
      pre.bal OPERATOR_FEE_RECIPIENT ≤ st'.bal OPERATOR_FEE_RECIPIENT :=
  conservation_exact_core tx s pre fr oi hdep hlon hve hvg hvs hmint hblob hl hr hn hd h0 h1 h2 h3 h4 hsup htgt

example : exTx.mint = none ∧ dataFee' exTx = 0 ∧ exPre.nonce + 1 < U64 ∧ exTx.target ≠ exTx.caller ∧
    exPre.bal exTx.target + exTx.value < W := by decide

/-- **The gas that the fees are computed from.** For every transaction that passes `validate_initial_tx_gas`
and every frame result with a non-negative refund counter, `used = gas.spent() − gas.refunded()` and the
reported refund after `last_frame_return`, `refund` and the EIP-7623 step are the rules of `Spec.OpFees`:
spent = limit − gas left (the whole limit after a halt); refund = min(counter, spent/5) after a successful
frame, else 0; `(floor, 0)` when below the floor (Isthmus); a Bedrock deposit reports its limit (0 for a
successful system transaction) and never a refund. -/
theorem gas_rules (tx : Tx) (fr : Frame) (hl : tx.gasLimit < U64) (hr : fr.remaining ≤ tx.gasLimit)
    (h0 : 0 ≤ fr.refunded) (h1 : fr.refunded ≤ I64MAX) (hlon : enabled tx.spec LONDON = true)
    (hvg : validateInitialGas tx = none) :
    usedGas (finalGas tx fr) = (Revm.Spec.OpFees.txUsedRefunded tx fr).1 ∧
    i64AsU64 (finalGas tx fr).refunded = (Revm.Spec.OpFees.txUsedRefunded tx fr).2 := by
  have hfl : (initialGas tx).2 ≤ tx.gasLimit := by
    by_cases hp : enabled tx.spec PRAGUE = true
    · unfold validateInitialGas at hvg
      by_cases hi : (initialGas tx).1 > tx.gasLimit
      · simp [hi] at hvg
      · by_cases hf : (initialGas tx).2 > tx.gasLimit
        · simp [hi, hp, hf] at hvg
        · omega
    · have : (initialGas tx).2 = 0 := by unfold initialGas; simp [hp]
      omega
  have hpr : enabled tx.spec REGOLITH = false → enabled tx.spec PRAGUE = false := by
    unfold enabled REGOLITH PRAGUE; simp; omega
  exact finalGas_spec tx fr hl hr h0 h1 hlon hfl hpr

example : exTx.gasLimit < U64 ∧ exFr.remaining ≤ exTx.gasLimit ∧ 0 ≤ exFr.refunded ∧ exFr.refunded ≤ I64MAX ∧
    validateInitialGas exTx = none ∧ Revm.Spec.OpFees.txUsedRefunded exTx exFr = (21000, 0) ∧
    Revm.Spec.OpFees.txUsedRefunded { exTx with spec := ECOTONE } exFr = (16800, 4200) := by decide

/-! ## operator fee (Isthmus) -/

/-- **Rounding.** The refund is `charge(limit) − charge(used)` with each charge rounded down separately, the
charge is monotone in the gas amount (saturation included), so what the sender finally pays,
`charge(limit) − refund`, is exactly `charge(used)` — the amount credited to the operator fee vault. -/
theorem operator_fee_rounding (info : L1Info) (g : Gas) (spec cL cU : Nat) (hg : GoodGas g)
    (h1 : operatorFeeCharge info g.limit spec = some cL)
    (h2 : operatorFeeCharge info (usedGas g) spec = some cU) :
    operatorFeeRefund info g spec = some (cL - cU) ∧ cU ≤ cL ∧ cL - (cL - cU) = cU := by
  have hle : usedGas g ≤ g.limit := by rw [hg.used]; omega
  have hm := operatorFeeCharge_mono info _ _ spec cU cL hle h2 h1
  exact ⟨operatorFeeRefund_eq info g spec cL cU h1 h2, hm, by omega⟩

example : GoodGas { limit := 100000, remaining := 79000, refunded := 0 } :=
  ⟨by decide, by decide, by decide⟩

/-- with the parameters `try_fetch` reads under Isthmus (a 32-bit scalar, a 64-bit constant) and a `u64` gas
amount nothing saturates: the charge is `⌊gas·scalar/10^6⌋ + constant` -/
theorem operator_fee_exact (s : Slots) (spec gas : Nat) (h : enabled spec ISTHMUS = true) (hg : gas < U64) :
    operatorFeeCharge (tryFetch s spec) gas spec =
      some (gas * beSlice s.s8 20 24 / 1000000 + beSlice s.s8 24 32) := by
  obtain ⟨h1, h2⟩ := tryFetch_isthmus s spec h
  unfold operatorFeeCharge
  simp only [h, Bool.not_true, Bool.false_eq_true, if_false, h1, h2]
  rw [opCharge_fetched _ _ _ (beSlice_lt _ 20 24) (beSlice_lt _ 24 32) (by rw [U64_val] at hg; omega)]

/-- before Isthmus there is no operator fee -/
theorem operator_fee_zero_before_isthmus (info : L1Info) (gas spec : Nat) (h : enabled spec ISTHMUS = false) :
    operatorFeeCharge info gas spec = some 0 := by
  unfold operatorFeeCharge; simp [h]

def regInfo : L1Info := { L1Info.default with operatorFeeScalar := some 1000000, operatorFeeConstant := some 5 }
def regGas : Gas := { limit := 100000, remaining := 79000, refunded := 0 }

/-- **Regression (repaired by commit 2dbb8f15).** Scalar 10^6, constant 5, gas limit 100000, 21000 used: the
former formula `scalar · (remaining + refunded)` refunded 79 000 000 000 although only 100 005 had been charged;
the repaired refund is `charge(100000) − charge(21000) = 79 000`, leaving the sender with a net debit of
21 005 = what the vault receives. -/
theorem operator_fee_refund_regression :
    operatorFeeCharge regInfo 100000 ISTHMUS = some 100005 ∧
    operatorFeeRefundOld regInfo regGas ISTHMUS = some 79000000000 ∧
    operatorFeeRefund regInfo regGas ISTHMUS = some 79000 ∧
    operatorFeeCharge regInfo (usedGas regGas) ISTHMUS = some 21005 := by decide

/-! ## the L1 cost comes from the enveloped transaction -/

/-- For a validated regular transaction the value that validation adds to the balance check, that
`deduct_caller` debits and that `reward_beneficiary` credits to the L1 fee vault is one and the same:
`calculate_tx_l1_cost` of `tx.optimism.enveloped_tx` under the parameters fetched from the L1Block contract,
computed with an empty cache (0 for an empty or `0x7f…` envelope) — a function of the envelope, the fork and the
six slots only (not of `tx.data`), returned unchanged by every later call on the cached value. -/
theorem l1_cost_uses_enveloped_tx (tx : Tx) (s : Slots) (pre : St) (oi : Option L1Info)
    (hdep : tx.isDeposit = false) (hW : pre.bal tx.caller < W)
    (hvs : validateTxAgainstState tx s pre = .ok oi) :
    ∃ info env, oi = some info ∧ tx.enveloped = some env ∧
      calculateTxL1Cost info env tx.spec =
        (if zeroCostEnvelope env then 0 else l1CostFresh (tryFetch s tx.spec) env tx.spec, info) := by
  obtain ⟨info, env, l1, cL, hoi, hv, hl1⟩ := validated_of_ok tx s pre oi hdep hW hvs
  refine ⟨info, env, hoi, hv.env_eq, ?_⟩
  have h6 := calculateTxL1Cost_fresh (tryFetch s tx.spec) env tx.spec (tryFetch_cache s tx.spec)
  rw [hl1] at h6
  rw [hv.l1_eq]; simp only at h6; rw [h6]

/-- what `clear` protects against: a value whose cache is already filled answers with the cached number for
every envelope (reachable only by writing `context.evm.inner.l1_block_info` by hand) -/
theorem l1_cost_cached (info : L1Info) (c : Nat) (env : List Nat) (spec : Nat) (h : info.txL1Cost = some c) :
    calculateTxL1Cost info env spec = (c, info) := by
  unfold calculateTxL1Cost; simp [h]

/-- **`calculate_tx_l1_cost` is the fork's cost formula.** With the empty cache of a freshly fetched value and
no saturating intermediate (`NoSat`: the 256-bit products of the fork's formula and, for Fjord, the 64-bit
product `fastlz·836500` fit), the model's cost equals `Spec.OpFees.l1Cost`: Bedrock/Regolith
`(calldataGas + overhead)·baseFee·scalar / 10^6` (calldata gas 4/16 per byte, + 68·16 before Regolith), Ecotone
`calldataGas·(16·baseFee·baseFeeScalar + blobBaseFee·blobScalar) / 16·10^6` (the Bedrock formula while the Ecotone
scalars are empty), Fjord `max(10^8, 836500·fastlz − 42585600)·(16·baseFee·baseFeeScalar + blobBaseFee·blobScalar) / 10^12`,
0 for an empty or `0x7f…` envelope. (The FastLZ length itself is the transcribed function, validated by the
correspondence stream only.) -/
theorem l1_cost_formula (info : L1Info) (input : List Nat) (spec : Nat) (hc : info.txL1Cost = none)
    (hecf : enabled spec FJORD = true → enabled spec ECOTONE = true) (hn : NoSat info input spec) :
    (calculateTxL1Cost info input spec).1 = Revm.Spec.OpFees.l1Cost info input spec :=
  l1Cost_eq info input spec hc hecf hn

/-- the repository's own Fjord vector (`test_calculate_tx_l1_cost_fjord`, 6 bytes `FACADE`… here 3): cost 1700 -/
example : (calculateTxL1Cost
    { L1Info.default with l1BaseFee := 1000, l1BaseFeeScalar := 1000, l1BlobBaseFee := some 1000, l1BlobBaseFeeScalar := some 1000 }
    [0xfa, 0xca, 0xde] FJORD).1 = 1700 := by decide +kernel

/-- **The L1 cost is fresh for every transaction.** Any number of transactions on ONE `Evm`, each committed,
with any L1Block slots in the database at each of them (`optimism::clear` sets `l1_block_info = None` after every
transaction, so the next regular transaction fetches the slots again and starts with an empty `tx_l1_cost`
cache): the outcome of the last transaction `p` of ANY history `ps ++ [p]` is the single-transaction function of
`p` alone — its fields (among them its own envelope), the slots at `p`, its frame result — and of the committed
database state; no earlier envelope, earlier slot value or cached cost enters. With `l1_cost_uses_enveloped_tx`:
the cost validated, debited and credited to the L1 fee vault for transaction k is
`calculate_tx_l1_cost(envelope_k)` under `try_fetch(slots at k)`. -/
theorem l1_cost_cache_fresh_per_tx (ps : List Step) (p : Step) (st : St) :
    runHistory clearCtx st none (ps ++ [p]) =
      runHistory clearCtx st none ps ++ [transact p.tx p.slots (stateAfter st ps) p.fr] := by
  rw [runHistory_fresh, runHistory_fresh, runHistoryFresh_last]

def l1VaultOf : Outcome → Option Nat
  | .done _ _ _ st => some (st.bal L1_FEE_RECIPIENT)
  | _ => none

def regTx (env : List Nat) : Tx := { exTx with spec := ECOTONE, txNonce := none, enveloped := some env }
def regStep (env : List Nat) : Step := { tx := regTx env, slots := exSlots, fr := exFr }

/-- **Regression (the seeded `clear` that keeps `l1_block_info` until the next deposit).** Two regular Ecotone
transactions with envelopes of 3 and 6 non-zero bytes (costs 51 and 102) on one `Evm`: with the code's `clear`
the L1 fee vault holds 51 and then 153; with a `clear` that keeps `l1_block_info`, the cached cost 51 of the
first transaction is charged to the second as well (vault 102) although its own envelope costs 102. -/
theorem l1_cost_cache_keep_regression :
    (runHistory clearCtx exPre none [regStep [0xfa, 0xca, 0xde], regStep [1, 2, 3, 4, 5, 6]]).map l1VaultOf
      = [some 51, some 153] ∧
    (runHistory clearCtxKeep exPre none [regStep [0xfa, 0xca, 0xde], regStep [1, 2, 3, 4, 5, 6]]).map l1VaultOf
      = [some 51, some 102] := by decide +kernel

/-! ## deposits -/

/-- **A deposit with gas price 0 mints exactly its mint.** Whatever the first frame does (`exec`), the state
it starts from is the pre-state with the mint added to the sender (and the nonce bumped for a call), and the
handler adds nothing afterwards: unless the deposit halts from Regolith on (next theorem), the final state IS
the frame's result. In particular every account sum that the frame conserves grows by exactly the mint. -/
theorem deposit_mints_exactly_partial (tx : Tx) (s : Slots) (pre : St) (exec : St → St) (fr : Frame)
    (hdep : tx.isDeposit = true) (hvg : validateInitialGas tx = none)
    (hegp : effectiveGasPrice tx = 0) (hdf : dataFee' tx = 0)
    (hmint : pre.bal tx.caller + tx.mint.getD 0 < W)
    (hx : (exec (minted tx pre)).bal tx.caller < W)
    (hnf : ¬ (fr.cls = .halt ∧ enabled tx.spec REGOLITH = true)) :
    ∃ kind used refunded,
      transactWith tx s pre exec fr = .done kind used refunded (exec (minted tx pre)) ∧
      (minted tx pre).bal tx.caller = pre.bal tx.caller + tx.mint.getD 0 ∧
      (∀ x, x ≠ tx.caller → (minted tx pre).bal x = pre.bal x) := by
  rw [transactWith_deposit tx s pre exec fr hdep hvg hegp hdf hmint hx]
  have hout : ∃ kind used refunded, output tx pre (exec (minted tx pre)) fr.cls (finalGas tx fr) =
      .done kind used refunded (exec (minted tx pre)) := by
    unfold output
    cases hc : fr.cls with
    | ok => exact ⟨_, _, _, rfl⟩
    | revert => exact ⟨_, _, _, rfl⟩
    | halt =>
      have hr : enabled tx.spec REGOLITH = false := by
        cases h : enabled tx.spec REGOLITH with
        | false => rfl
        | true => exact absurd ⟨hc, h⟩ hnf
      simp only [hdep, hr, Bool.and_false, Bool.false_eq_true, if_false]
      exact ⟨_, _, _, rfl⟩
  obtain ⟨kind, used, refunded, hout⟩ := hout
  refine ⟨kind, used, refunded, hout, ?_, ?_⟩
  · unfold minted; simp only [upd_same]
  · intro x hx; unfold minted; simp only [upd_other _ _ _ _ hx]

/-- a Regolith deposit minting 5 that succeeds -/
def exDep : Tx :=
  { exTx with spec := REGOLITH, isDeposit := true, mint := some 5, gasPrice := 0, priorityFee := none, basefee := 0,
              enveloped := none, txNonce := none, value := 0 }
example : validateInitialGas exDep = none ∧ effectiveGasPrice exDep = 0 ∧ dataFee' exDep = 0 ∧
    exPre.bal exDep.caller + exDep.mint.getD 0 < W ∧
    (execSimple exDep (minted exDep exPre) exFr).bal exDep.caller < W := by decide +kernel

/-- **A failing deposit keeps mint and nonce.** For the frames of the harness: a deposit (gas price 0) that
fails validation (gas limit below the intrinsic gas or the EIP-7623 floor; repaired by commit 25ebe790) or whose
first frame reverts or halts ends with the sender's balance = pre-balance + mint, nonce + 1 and every other
balance untouched; a validation failure and, from Regolith on, a halt are reported as `FailedDeposit`.
Excluded (known finding F2, see `deposit_bedrock_create_nonce_counterexample`): a create that cannot pay its
value, unless it ends as a `FailedDeposit`. -/
theorem failed_deposit_persists_mint_and_nonce_partial (tx : Tx) (s : Slots) (pre : St) (fr : Frame)
    (hdep : tx.isDeposit = true)
    (hegp : effectiveGasPrice tx = 0) (hdf : dataFee' tx = 0)
    (hmint : pre.bal tx.caller + tx.mint.getD 0 < W) (hn : pre.nonce + 1 < U64)
    (hfail : validateInitialGas tx ≠ none ∨ fr.cls ≠ .ok)
    (hcreate : tx.isCreate = true →
      validateInitialGas tx ≠ none ∨ (fr.cls = .halt ∧ enabled tx.spec REGOLITH = true) ∨
      tx.value ≤ pre.bal tx.caller + tx.mint.getD 0) :
    ∃ kind used st',
      transact tx s pre fr = .done kind used 0 st' ∧
      (kind = .failedDeposit ↔ (validateInitialGas tx ≠ none ∨ (fr.cls = .halt ∧ enabled tx.spec REGOLITH = true))) ∧
      (kind = .failedDeposit → enabled tx.spec REGOLITH = true → used = tx.gasLimit) ∧
      st'.bal tx.caller = pre.bal tx.caller + tx.mint.getD 0 ∧
      st'.nonce = pre.nonce + 1 ∧
      (∀ x, x ≠ tx.caller → st'.bal x = pre.bal x) := by
  cases hvg : validateInitialGas tx with
  | some e =>
    unfold transact
    rw [transactWith_deposit_preverify tx s pre _ fr e hdep hvg]
    obtain ⟨used, hfd, hu⟩ := failedDeposit_any tx pre hmint hn
    rw [hfd]
    exact ⟨_, _, _, rfl, ⟨fun _ => Or.inl (by simp), fun _ => rfl⟩, fun _ h => hu h, by simp only [upd_same], rfl,
      fun x hx => by simp only [upd_other _ _ _ _ hx]⟩
  | none =>
  have hfail : fr.cls ≠ .ok := by
    rcases hfail with h | h
    · exact absurd hvg h
    · exact h
  have hmb : (minted tx pre).bal tx.caller = pre.bal tx.caller + tx.mint.getD 0 := by
    unfold minted; simp only [upd_same]
  have hbal := execSimple_fail tx (minted tx pre) fr hfail
  have hx : (execSimple tx (minted tx pre) fr).bal tx.caller < W := by rw [hbal, hmb]; exact hmint
  unfold transact
  rw [transactWith_deposit tx s pre (fun st => execSimple tx st fr) fr hdep hvg hegp hdf hmint hx]
  by_cases hfd : fr.cls = .halt ∧ enabled tx.spec REGOLITH = true
  · -- FailedDeposit: state discarded, mint and nonce from the database values
    have hout : output tx pre (execSimple tx (minted tx pre) fr) fr.cls (finalGas tx fr) = failedDeposit tx pre := by
      unfold output; simp only [hfd.1, hdep, hfd.2, Bool.and_self, if_true]
    rw [hout, failedDeposit_eq tx pre hfd.2 hmint hn]
    exact ⟨_, _, _, rfl, ⟨fun _ => Or.inr hfd, fun _ => rfl⟩, fun _ _ => rfl, by simp only [upd_same], rfl,
      fun x hx => by simp only [upd_other _ _ _ _ hx]⟩
  · -- the frame's state is returned: no value moved, the nonce was bumped by `deduct_caller` or by the create
    have hnonce : (execSimple tx (minted tx pre) fr).nonce = pre.nonce + 1 := by
      rw [execSimple_nonce]
      by_cases hc : tx.isCreate = true
      · have hv : tx.value ≤ pre.bal tx.caller + tx.mint.getD 0 := by
          rcases hcreate hc with h | h | h
          · exact absurd hvg h
          · exact absurd h hfd
          · exact h
        have hmn : (minted tx pre).nonce = pre.nonce := by unfold minted; simp only [hc, if_true]
        rw [hmb, hmn]
        have h1 : ¬ pre.bal tx.caller + tx.mint.getD 0 < tx.value := by omega
        have h2 : ¬ pre.nonce + 1 ≥ U64 := by omega
        simp only [hc, h1, h2, not_false_eq_true, and_self, if_true]
      · have hmn : (minted tx pre).nonce = pre.nonce + 1 := by
          unfold minted U64ops.saturatingAdd; simp only [hc, Bool.false_eq_true, if_false, hn, if_true]
        simp [hc, hmn]
    have hkind : ∃ kind used, output tx pre (execSimple tx (minted tx pre) fr) fr.cls (finalGas tx fr) =
        .done kind used 0 (execSimple tx (minted tx pre) fr) ∧ kind ≠ .failedDeposit := by
      unfold output
      cases hc : fr.cls with
      | ok => exact absurd hc hfail
      | revert => exact ⟨_, _, rfl, by decide⟩
      | halt =>
        have hr : enabled tx.spec REGOLITH = false := by
          cases h : enabled tx.spec REGOLITH with
          | false => rfl
          | true => exact absurd ⟨hc, h⟩ hfd
        simp only [hdep, hr, Bool.and_false, Bool.false_eq_true, if_false]
        exact ⟨_, _, rfl, by decide⟩
    obtain ⟨kind, used, hout, hk⟩ := hkind
    rw [hout]
    refine ⟨kind, used, _, rfl, ⟨fun h => absurd h hk, fun h => ?_⟩, fun h => absurd h hk, ?_, hnonce, ?_⟩
    · rcases h with h | h
      · exact absurd rfl h
      · exact absurd h hfd
    · rw [hbal, hmb]
    · intro x hx; rw [hbal]; unfold minted; simp only [upd_other _ _ _ _ hx]

def exFail : Frame := { cls := .halt, remaining := 0, refunded := 0 }
example : effectiveGasPrice exDep = 0 ∧ exFail.cls ≠ .ok ∧ exPre.nonce + 1 < U64 ∧ exDep.isCreate = false ∧
    validateInitialGas { exDep with gasLimit := 20000 } ≠ none := by decide

/-- the sentence about deposits, literally: every deposit ends `done`, the six accounts grow by exactly the
mint, and a deposit whose frame fails has nonce + 1 — FALSE of the code (a non-zero gas price; known finding F2) -/
def FullStatementDeposit : Prop :=
  ∀ (tx : Tx) (s : Slots) (pre : St) (fr : Frame),
    tx.isDeposit = true → Revm.Spec.OpFees.distinct tx = true →
    ∃ n, outcomeSum tx (transact tx s pre fr) = some (sixSum tx pre.bal + tx.mint.getD 0, n) ∧
      (fr.cls ≠ .ok → n = pre.nonce + 1)

/-- deposit, Regolith, gas limit 20 000 < 21 000 intrinsic gas -/
def lowGasDep : Tx := { exDep with gasLimit := 20000 }
/-- deposit with gas price 1000 on an empty account: `deduct_caller` saturates at 0, `reimburse_caller` pays
`price · gas left` back -/
def pricedDep : Tx := { exDep with gasPrice := 1000, mint := none }
/-- Bedrock create deposit of value 1 from an empty account -/
def bedrockCreateDep : Tx := { exDep with spec := BEDROCK, isCreate := true, data := [0], value := 1, mint := none, target := 0xC0DE }
def emptyPre : St := { bal := fun _ => 0, nonce := 0 }

/-- **Regression (repaired by commit 25ebe790).** A deposit whose gas limit does not cover the intrinsic gas:
`Evm::transact` used to return `CallGasCostMoreThanGasLimit` from `preverify_transaction_inner` before the `end`
handle could turn the error into a failed deposit, so neither the mint nor the nonce increment was persisted
(`transactWithOld`); now the error goes through `end`: the six balances grow by the mint (5), the nonce is 1.
Witness line: corpus/C33/optx-theorem-witnesses.case, line 3. -/
theorem deposit_intrinsic_gas_regression :
    outcomeSum lowGasDep (transact lowGasDep exSlots exPre exFr) = some (sixSum lowGasDep exPre.bal + 5, 1) ∧
    transactWithOld lowGasDep exSlots exPre (fun st => execSimple lowGasDep st exFr) exFr = .err .intrinsic := by
  refine ⟨by decide +kernel, ?_⟩
  exact transactWithOld_deposit_preverify lowGasDep exSlots exPre _ exFr .intrinsic (by decide) (by decide)

/-- **Counterexample (out of protocol)**: a deposit with a non-zero gas price (outside the OP protocol, where deposits carry
price 0) on an account that cannot pay `limit · price`: the debit saturates at 0, the reimbursement of the
unused and refunded gas (79 000 + 4 200 units) is paid in full — 83 200 000 wei appear from nothing (with a funded account the fee is burnt
instead: nobody is credited). -/
theorem deposit_gas_price_counterexample :
    outcomeSum pricedDep (transact pricedDep exSlots emptyPre exFr) = some (83200000, 1) ∧
    sixSum pricedDep emptyPre.bal + pricedDep.mint.getD 0 = 0 := by decide +kernel

/-- **Counterexample (known finding F2)**: Bedrock, a create deposit that cannot pay its value: the frame fails with
`OutOfFunds` before the nonce is bumped and Bedrock returns the halt as it is — the nonce stays 0. -/
theorem deposit_bedrock_create_nonce_counterexample :
    outcomeSum bedrockCreateDep (transact bedrockCreateDep exSlots emptyPre exFail) = some (0, 0) := by
  decide +kernel

theorem deposit_full_statement_false : ¬ FullStatementDeposit := by
  intro h
  obtain ⟨n, h1, h2⟩ := h bedrockCreateDep exSlots emptyPre exFail rfl (by decide)
  rw [deposit_bedrock_create_nonce_counterexample] at h1
  have hn := h2 (by decide)
  simp only [Option.some.injEq, Prod.mk.injEq] at h1
  have : emptyPre.nonce = 0 := rfl
  omega

end Revm.Props.C33
