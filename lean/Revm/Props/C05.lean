import Revm.Gen.Tables
import Revm.Spec.Activation
/-! C05 — each opcode and precompile exists exactly from its activating hardfork.
`Revm.Gen.*` is regenerated on every run by *executing* the compiled implementation for all 256
opcode bytes × every SpecId (interpreter level and through `Evm::transact`) and for every
address 0..=0x20 (+ a few) × every SpecId; the theorems below are re-checked by the kernel
(`decide +kernel`, whole table) against the hand-written EIP activation tables of
`Spec.Activation`. The quantifier of C05 is finite, and it is enumerated completely. -/
namespace Revm.Props.C05
open Revm Revm.Spec.Activation

/-- "behaves as an undefined instruction": 1 NotActivated, 2 OpcodeNotFound, 3 EOFOpcodeDisabledInLegacy,
5 ReturnContractInNotInitEOF (RETURNCONTRACT outside EOF init code; reported as OpcodeNotFound by the
transaction result) -/
def isGate (c : Nat) : Bool := c = 1 ∨ c = 2 ∨ c = 3 ∨ c = 5

def opRowOk (spec : Nat) (codes : List Nat) : Bool :=
  (List.range 256).all fun op => isGate (codes.getD op 99) == undefinedIn spec op

def txRowOk (spec : Nat) (codes : List (Nat × Nat)) : Bool :=
  (List.range 256).all fun op =>
    let (c, allGas) := codes.getD op (99, 0)
    -- halted by a gate (NotActivated / OpcodeNotFound) exactly when undefined, and then all gas is used
    (isGate c == undefinedIn spec op) && (!isGate c || allGas == 1)

/-- the dump is complete: every SpecId, 256 opcodes each -/
theorem tables_complete :
    Gen.opStatus.map (·.1) = Gen.specIds ∧ Gen.txStatus.map (·.1) = Gen.specIds ∧
    Gen.precompiles.map (·.1) = Gen.specIds ∧
    Gen.opStatus.all (fun r => r.2.length == 256) = true ∧
    Gen.txStatus.all (fun r => r.2.length == 256) = true ∧
    Gen.specIds = [0,1,2,3,4,5,6,7,8,9,10,11,12,13,14,15,16,17,18,19,255] := by
  decide +kernel

/-- interpreter level: for every SpecId and every opcode byte, the single instruction ends in
NotActivated / OpcodeNotFound / EOFOpcodeDisabledInLegacy / ReturnContractInNotInitEOF iff the EIP tables say it is undefined -/
theorem undefined_iff_table : Gen.opStatus.all (fun r => opRowOk r.1 r.2) = true := by
  decide +kernel

theorem undefined_iff (spec : Nat) (codes : List Nat) (h : (spec, codes) ∈ Gen.opStatus)
    (op : Nat) (hop : op < 256) : isGate (codes.getD op 99) = undefinedIn spec op := by
  have h1 := List.all_eq_true.mp undefined_iff_table _ h
  have h2 := List.all_eq_true.mp h1 op (List.mem_range.mpr hop)
  simpa using h2

/-- transaction level (handler, frame machine, result conversion): halted by the gate iff
undefined, and such a halt consumes the whole gas limit -/
theorem undefined_halts_all_gas_table : Gen.txStatus.all (fun r => txRowOk r.1 r.2) = true := by
  decide +kernel

theorem undefined_halts_all_gas (spec : Nat) (codes : List (Nat × Nat)) (h : (spec, codes) ∈ Gen.txStatus)
    (op : Nat) (hop : op < 256) :
    isGate (codes.getD op (99, 0)).1 = undefinedIn spec op ∧
    (isGate (codes.getD op (99, 0)).1 = true → (codes.getD op (99, 0)).2 = 1) := by
  have h1 := List.all_eq_true.mp undefined_halts_all_gas_table _ h
  have h2 := List.all_eq_true.mp h1 op (List.mem_range.mpr hop)
  simp only [Bool.and_eq_true, beq_iff_eq, Bool.or_eq_true, Bool.not_eq_true'] at h2
  refine ⟨h2.1, fun hg => ?_⟩
  rcases h2.2 with h3 | h3
  · rw [hg] at h3; cases h3
  · exact h3

/-- the gate results are error-class results (so the frame machine spends all gas) -/
theorem gate_results_are_errors :
    (Gen.iresult.filter (fun r => r.1 = "NotActivated" ∨ r.1 = "OpcodeNotFound" ∨ r.1 = "EOFOpcodeDisabledInLegacy"
        ∨ r.1 = "ReturnContractInNotInitEOF")).map (fun r => (r.1, r.2.2.2)) =
    [("OpcodeNotFound", true), ("NotActivated", true), ("ReturnContractInNotInitEOF", true),
     ("EOFOpcodeDisabledInLegacy", true)] := by
  decide +kernel

def preRowOk (spec : Nat) (rows : List (Nat × Bool × Bool × Bool)) : Bool :=
  rows.all fun (addr, direct, viaHandler, behavesEmpty) =>
    direct == isPrecompileIn spec addr && viaHandler == isPrecompileIn spec addr &&
    behavesEmpty == !isPrecompileIn spec addr

/-- every address 0..=0x20, 0xff, 0x100, 0x101, 0xdead × every SpecId: member of the precompile
set (directly and as loaded by the handler) iff introduced, and a call transaction to it behaves
exactly like a call to an empty account iff it is not (yet) a precompile -/
theorem precompile_iff_table : Gen.precompiles.all (fun r => preRowOk r.1 r.2) = true := by
  decide +kernel

theorem precompile_addresses_covered :
    Gen.precompiles.all (fun r => r.2.map (·.1) == (List.range 33 ++ [0xff, 0x100, 0x101, 0xdead])) = true := by
  decide +kernel

theorem precompile_iff (spec : Nat) (rows : List (Nat × Bool × Bool × Bool)) (h : (spec, rows) ∈ Gen.precompiles)
    (addr : Nat) (d v e : Bool) (hr : (addr, d, v, e) ∈ rows) :
    d = isPrecompileIn spec addr ∧ v = isPrecompileIn spec addr ∧ e = !isPrecompileIn spec addr := by
  have h1 := List.all_eq_true.mp precompile_iff_table _ h
  have h2 := List.all_eq_true.mp h1 _ hr
  simpa [Bool.and_eq_true, and_assoc] using h2

/-- `SpecId::enabled(a, b)` is the numeric order, for every pair -/
theorem enabled_is_order : Gen.enabledTable.all (fun (a, b, e) => e == decide (a ≥ b)) = true := by
  decide +kernel

/-- the specification tables are not vacuous: SHL is undefined in Byzantium and defined in
Constantinople; blake2f is a precompile from Istanbul -/
example : undefinedIn 6 0x1b = true ∧ undefinedIn 7 0x1b = false ∧
    isPrecompileIn 8 9 = false ∧ isPrecompileIn 9 9 = true := by decide

end Revm.Props.C05
