import Revm.Proofs.Jump
/-! C04 — a jump is accepted only onto a real JUMPDEST outside push data.

`Model.Jump` follows `to_analysed` / `analyze` / `JumpTable::is_valid` / `Contract::is_valid_jump` /
`jump` / `jumpi` / `jump_inner`; `Spec.Jump.ValidDest code t` says: `t` is inside the code, the byte at `t`
is 0x5b and `t` is an instruction boundary (`ValidDestText`: ... and `t` is not in the immediate data of a
PUSH1..PUSH32; the two are proved equal). Statements only; proofs in `Revm.Proofs.Jump`.

Quantification: every list of bytes as code (`Bytes code`: elements `< 256`; truncated trailing PUSH data
included), every position / every 256-bit target. Reading used for JUMPI: with a zero condition no jump
is performed and the target is not examined (as the Yellow Paper has it). -/
namespace Revm.Props.C04
open Revm Revm.Model.Jump Revm.Spec.Jump

/-! ## the analysis -/

/-- the table that `to_analysed` builds (scan over the code padded with 33 zeros) answers
`JumpTable::is_valid` with exactly `ValidDest` of the original code: all byte strings, all positions
(also positions in the padding and beyond the table) -/
theorem analyze_correct (code : List Nat) (hb : Bytes code) (t : Nat) :
    isValid (analyze (pad code)) t = true ↔ ValidDest code t :=
  Proofs.Jump.analyze_correct hb t

/-- the same in the words of the property: inside the code, JUMPDEST byte, not PUSH immediate data -/
theorem analyze_correct_text (code : List Nat) (hb : Bytes code) (t : Nat) :
    isValid (analyze (pad code)) t = true ↔ ValidDestText code t := by
  rw [← Proofs.Jump.validDest_iff_text]; exact Proofs.Jump.analyze_correct hb t

/-- "instruction boundary" and "not inside PUSH immediate data" coincide -/
theorem validDest_iff_text (code : List Nat) (t : Nat) : ValidDest code t ↔ ValidDestText code t :=
  Proofs.Jump.validDest_iff_text code t

/-- the executable byte-by-byte Spec scan (the Spec column of the correspondence stream) decides `ValidDest` -/
theorem spec_scan_iff (code : List Nat) (t : Nat) : validDestB code t = true ↔ ValidDest code t :=
  Proofs.Jump.validDestB_iff code t

theorem spec_list_iff (code : List Nat) (t : Nat) : t ∈ validDests code ↔ ValidDest code t :=
  Proofs.Jump.mem_validDests code t

/-! ## padding facts -/

theorem pad_length (code : List Nat) : (pad code).length = code.length + 33 := Proofs.Jump.pad_length code
theorem pad_prefix (code : List Nat) : (pad code).take code.length = code := Proofs.Jump.pad_take code
theorem pad_tail_zero (code : List Nat) : (pad code).drop code.length = List.replicate 33 0 :=
  Proofs.Jump.pad_drop code
/-- the bit vector has one bit per byte of the padded code -/
theorem table_length (code : List Nat) (hb : Bytes code) : (analyze (pad code)).length = code.length + 33 :=
  Proofs.Jump.analyze_pad_length hb
/-- no position at or beyond the original length is ever valid (padding bytes, truncated-PUSH overrun) -/
theorem no_dest_in_padding (code : List Nat) (hb : Bytes code) (t : Nat) (ht : code.length ≤ t) :
    isValid (analyze (pad code)) t = false := Proofs.Jump.isValid_beyond hb t ht
/-- padding changes no destination: analysing `code ++ zeros` is about the same destinations as `code` -/
theorem padding_harmless (code : List Nat) (t : Nat) : ValidDest (pad code) t ↔ ValidDest code t :=
  Proofs.Jump.validDest_pad code t

/-! ## eager / lazy analysis -/

/-- shape of `to_analysed` on raw code -/
theorem to_analysed_raw (code : List Nat) :
    toAnalysed (.legacyRaw code) = .legacyAnalyzed ⟨pad code, code.length, analyze (pad code)⟩ := rfl
/-- already analysed code is returned as it is, so analysing eagerly and then again in `Contract::new`
(the lazy path) gives the same table -/
theorem to_analysed_idem (b : Bytecode) : toAnalysed (toAnalysed b) = toAnalysed b :=
  Proofs.Jump.toAnalysed_idem b
/-- `Contract::is_valid_jump` of a contract made by `Contract::new` from raw code -/
theorem contract_is_valid_jump (code : List Nat) (hb : Bytes code) (t : Nat) :
    isValidJump (contractNew (.legacyRaw code)) t = true ↔ ValidDest code t :=
  Proofs.Jump.isValidJump_contract hb t
/-- same when the bytecode had been analysed before it reached `Contract::new` -/
theorem contract_is_valid_jump_eager (code : List Nat) (hb : Bytes code) (t : Nat) :
    isValidJump (contractNew (toAnalysed (.legacyRaw code))) t = true ↔ ValidDest code t :=
  Proofs.Jump.isValidJump_contract hb t
/-- unanalysed code has no table (every jump would be invalid) and is refused by `Interpreter::new` -/
theorem raw_not_executable (code : List Nat) (t : Nat) :
    isValidJump (.legacyRaw code) t = false ∧ (Bytecode.legacyRaw code).isExecutionReady = false := ⟨rfl, rfl⟩

/-! ## JUMP -/

/-- `as_usize_or_fail!`: exactly the words below 2^64 pass, unchanged -/
theorem as_usize_or_fail_eq (v : Nat) (hv : v < W) :
    asUsizeOrFail v = if v < U64 then some v else none := Proofs.Jump.asUsizeOrFail_eq hv

/-- JUMP with enough gas and a target on the stack: the frame keeps running with `pc = target` exactly when
the target is a valid destination; for every 256-bit target. (`code.length ≤ 2^64`: a byte string in
memory; it only serves to say that a valid destination is `< 2^64`.) -/
theorem jump_ok_iff (code : List Nat) (hb : Bytes code) (hlen : code.length ≤ U64) (s : Interp)
    (hs : s.bytecode = contractNew (.legacyRaw code)) (hres : s.result = .Continue) (hgas : MID ≤ s.gas)
    (target : Nat) (rest : List Nat) (hst : s.stack = target :: rest) (ht : target < W) :
    ((jump s).result = .Continue ∧ (jump s).pc = target) ↔ ValidDest code target :=
  Proofs.Jump.jump_ok_iff hb hlen s hs hres hgas hst ht

/-- complete post-state of an accepted JUMP: 8 gas, target popped, pc moved, nothing else -/
theorem jump_ok (code : List Nat) (hb : Bytes code) (hlen : code.length ≤ U64) (s : Interp)
    (hs : s.bytecode = contractNew (.legacyRaw code)) (hgas : MID ≤ s.gas)
    (target : Nat) (rest : List Nat) (hst : s.stack = target :: rest) (ht : target < W)
    (hv : ValidDest code target) :
    jump s = { s with gas := s.gas - 8, stack := rest, pc := target } :=
  (Proofs.Jump.jump_eq hb s hs hgas hst ht).1 ((Proofs.Jump.accepts_iff_validDest hlen target).mpr hv)

/-- otherwise the frame halts with InvalidJump (pc untouched) -/
theorem jump_invalid (code : List Nat) (hb : Bytes code) (s : Interp)
    (hs : s.bytecode = contractNew (.legacyRaw code)) (hgas : MID ≤ s.gas)
    (target : Nat) (rest : List Nat) (hst : s.stack = target :: rest) (ht : target < W)
    (hv : ¬ ValidDest code target) :
    jump s = { s with gas := s.gas - 8, stack := rest, result := .InvalidJump } :=
  (Proofs.Jump.jump_eq hb s hs hgas hst ht).2 (fun ha => hv ha.2)

/-- targets of 2^64 and above are InvalidJump whatever the code is -/
theorem jump_huge_target (code : List Nat) (hb : Bytes code) (s : Interp)
    (hs : s.bytecode = contractNew (.legacyRaw code)) (hgas : MID ≤ s.gas)
    (target : Nat) (rest : List Nat) (hst : s.stack = target :: rest) (ht : target < W)
    (hbig : U64 ≤ target) :
    jump s = { s with gas := s.gas - 8, stack := rest, result := .InvalidJump } :=
  (Proofs.Jump.jump_eq hb s hs hgas hst ht).2 (fun ha => by have := ha.1; omega)

/-- safety form without any assumption on gas or stack depth: if the frame is still running after JUMP,
its pc is a valid destination (out-of-gas and stack underflow halt, they never move the pc) -/
theorem jump_lands_only_on_valid (code : List Nat) (hb : Bytes code) (s : Interp)
    (hs : s.bytecode = contractNew (.legacyRaw code)) (hw : ∀ w ∈ s.stack, w < W)
    (hres : (jump s).result = .Continue) : ValidDest code (jump s).pc :=
  (Proofs.Jump.jump_safe hb s hs hw hres).2

/-! ## JUMPI -/

/-- JUMPI with a non-zero condition behaves as JUMP -/
theorem jumpi_nonzero_ok_iff (code : List Nat) (hb : Bytes code) (hlen : code.length ≤ U64) (s : Interp)
    (hs : s.bytecode = contractNew (.legacyRaw code)) (hres : s.result = .Continue) (hgas : HIGH ≤ s.gas)
    (target cond : Nat) (rest : List Nat) (hst : s.stack = target :: cond :: rest) (ht : target < W)
    (hc : cond ≠ 0) :
    ((jumpi s).result = .Continue ∧ (jumpi s).pc = target) ↔ ValidDest code target :=
  Proofs.Jump.jumpi_nonzero_ok_iff hb hlen s hs hres hgas hst ht hc

theorem jumpi_nonzero_ok (code : List Nat) (hb : Bytes code) (hlen : code.length ≤ U64) (s : Interp)
    (hs : s.bytecode = contractNew (.legacyRaw code)) (hgas : HIGH ≤ s.gas)
    (target cond : Nat) (rest : List Nat) (hst : s.stack = target :: cond :: rest) (ht : target < W)
    (hc : cond ≠ 0) (hv : ValidDest code target) :
    jumpi s = { s with gas := s.gas - 10, stack := rest, pc := target } :=
  (Proofs.Jump.jumpi_eq hb s hs hgas hst ht).1 hc ((Proofs.Jump.accepts_iff_validDest hlen target).mpr hv)

theorem jumpi_nonzero_invalid (code : List Nat) (hb : Bytes code) (s : Interp)
    (hs : s.bytecode = contractNew (.legacyRaw code)) (hgas : HIGH ≤ s.gas)
    (target cond : Nat) (rest : List Nat) (hst : s.stack = target :: cond :: rest) (ht : target < W)
    (hc : cond ≠ 0) (hv : ¬ ValidDest code target) :
    jumpi s = { s with gas := s.gas - 10, stack := rest, result := .InvalidJump } :=
  (Proofs.Jump.jumpi_eq hb s hs hgas hst ht).2.1 hc (fun ha => hv ha.2)

/-- JUMPI with a zero condition falls through: pc and result unchanged, whatever the target is -/
theorem jumpi_zero_falls_through (code : List Nat) (hb : Bytes code) (s : Interp)
    (hs : s.bytecode = contractNew (.legacyRaw code)) (hgas : HIGH ≤ s.gas)
    (target : Nat) (rest : List Nat) (hst : s.stack = target :: 0 :: rest) (ht : target < W) :
    jumpi s = { s with gas := s.gas - 10, stack := rest } :=
  (Proofs.Jump.jumpi_eq hb s hs hgas hst ht).2.2 rfl

/-- safety form for JUMPI: still running ⇒ fell through or landed on a valid destination -/
theorem jumpi_lands_only_on_valid (code : List Nat) (hb : Bytes code) (s : Interp)
    (hs : s.bytecode = contractNew (.legacyRaw code)) (hw : ∀ w ∈ s.stack, w < W)
    (hres : (jumpi s).result = .Continue) :
    (jumpi s).pc = s.pc ∨ ValidDest code (jumpi s).pc :=
  (Proofs.Jump.jumpi_safe hb s hs hw hres).imp id And.right

/-! ## the other ways JUMP / JUMPI end: they halt the frame and never move the pc -/

theorem jump_out_of_gas (s : Interp) (h : s.gas < 8) : jump s = { s with result := .OutOfGas } :=
  Proofs.Jump.jump_oog s h
theorem jumpi_out_of_gas (s : Interp) (h : s.gas < 10) : jumpi s = { s with result := .OutOfGas } :=
  Proofs.Jump.jumpi_oog s h
theorem jump_stack_underflow (s : Interp) (h : 8 ≤ s.gas) (hst : s.stack = []) :
    jump s = { s with gas := s.gas - 8, result := .StackUnderflow } := Proofs.Jump.jump_underflow s h hst
theorem jumpi_stack_underflow (s : Interp) (h : 10 ≤ s.gas) (hst : s.stack.length < 2) :
    jumpi s = { s with gas := s.gas - 10, result := .StackUnderflow } := Proofs.Jump.jumpi_underflow s h hst

/-! ## the hypotheses are satisfiable (PUSH1 0x5b; JUMPDEST: position 1 is push data, position 2 is valid;
and a truncated PUSH2 at the end) -/

def exCode : List Nat := [0x60, 0x5b, 0x5b, 0x61, 0x5b]
def exState (stack : List Nat) : Interp := ⟨contractNew (.legacyRaw exCode), 1, stack, 100, .Continue⟩

example : Bytes exCode := by decide
example : exCode.length ≤ U64 := by decide
example : ValidDest exCode 2 := (spec_scan_iff _ _).mp (by decide)
example : ¬ ValidDest exCode 1 := fun h => absurd ((spec_scan_iff _ _).mpr h) (by decide)
example : ¬ ValidDest exCode 4 := fun h => absurd ((spec_scan_iff _ _).mpr h) (by decide)
private theorem exBytes : Bytes exCode := by decide
private theorem exValid2 : ValidDest exCode 2 := (spec_scan_iff _ _).mp (by decide)
private theorem exInvalid1 : ¬ ValidDest exCode 1 := fun h => absurd ((spec_scan_iff _ _).mpr h) (by decide)
private theorem exSmall (n : Nat) (h : n < 1000 := by decide) : n < W := by have := W_val; omega

example : isValid (analyze (pad exCode)) 2 = true := (analyze_correct exCode exBytes 2).mpr exValid2
example : isValid (analyze (pad exCode)) 1 = false :=
  Bool.eq_false_iff.mpr fun h => exInvalid1 ((analyze_correct exCode exBytes 1).mp h)
example : isValid (analyze (pad exCode)) 5 = false := no_dest_in_padding exCode exBytes 5 (by decide)
private theorem exJump2 : jump (exState [2]) = { exState [] with gas := 92, pc := 2 } :=
  jump_ok exCode exBytes (by decide) (exState [2]) rfl (by decide) 2 [] rfl (exSmall 2) exValid2
example : jump (exState [2]) = { exState [] with gas := 92, pc := 2 } := exJump2
/-- hypotheses of the safety form hold on a concrete run, and it yields the expected fact -/
example : (jump (exState [2])).result = .Continue ∧ ValidDest exCode (jump (exState [2])).pc := by
  have hres : (jump (exState [2])).result = .Continue := by rw [exJump2]; rfl
  exact ⟨hres, jump_lands_only_on_valid exCode exBytes (exState [2]) rfl
    (by intro w hw; have := W_val; simp [exState] at hw; omega) hres⟩
example : jump (exState [1]) = { exState [] with gas := 92, result := .InvalidJump } :=
  jump_invalid exCode exBytes (exState [1]) rfl (by decide) 1 [] rfl (exSmall 1) exInvalid1
example : jump (exState [2^64 + 2]) = { exState [] with gas := 92, result := .InvalidJump } :=
  jump_huge_target exCode exBytes (exState [2^64 + 2]) rfl (by decide) (2^64 + 2) [] rfl
    (by have := W_val; omega) (by rw [U64_val]; decide)
example : jumpi (exState [2, 7]) = { exState [] with gas := 90, pc := 2 } :=
  jumpi_nonzero_ok exCode exBytes (by decide) (exState [2, 7]) rfl (by decide) 2 7 [] rfl (exSmall 2)
    (by decide) exValid2
example : jumpi (exState [1, 7]) = { exState [] with gas := 90, result := .InvalidJump } :=
  jumpi_nonzero_invalid exCode exBytes (exState [1, 7]) rfl (by decide) 1 7 [] rfl (exSmall 1)
    (by decide) exInvalid1
example : jumpi (exState [1, 0]) = { exState [] with gas := 90 } :=
  jumpi_zero_falls_through exCode exBytes (exState [1, 0]) rfl (by decide) 1 [] rfl (exSmall 1)
example : (exState [2]).gas = 100 ∧ (exState []).stack = [] ∧ (exState [3]).stack.length < 2 := by decide
example : ∀ w ∈ (exState [2, 7]).stack, w < W := by
  intro w hw; have := W_val; simp [exState] at hw; omega

end Revm.Props.C04
