import Revm.Proofs.Memory
import Revm.Proofs.MemoryOutcome
/-! C11 — each call frame sees its own zero-initialised memory.

`Model.Memory` is `SharedMemory` as coded (one buffer, checkpoints, `last_checkpoint`; release-profile
usize arithmetic), `Spec.Memory` a stack of independent byte lists, `abs` cuts the buffer at the
checkpoints. `WF` is the representation invariant of the struct (checkpoints ordered and in bounds,
`last_checkpoint` = top checkpoint, `Vec` length ≤ isize::MAX); it holds in every state reachable
through the public API inside the stated domain (`reachable_wf`).

Domain of the theorems (explicit hypotheses, never silently assumed):
* `UsizeArgs`: numeric arguments are usize values;
* `NoWrap` / `Admissible`: `last_checkpoint + new_size < 2^64` in `resize`. Outside it the release
  build wraps and `resize_wrap_counterexample` shows the property FAILS there (the debug build panics);
* `expansion_charge`: the macro's guard `new_size > len` and fewer than 2^32 words (where the
  quadratic formula certainly fits in 64 bits; `memory_gas_full` gives the clamped formula for every
  word count after the repair of `memory_gas`); without the guard the u64 subtraction wraps
  (`resize_memory_unguarded_shrinks_counterexample`). -/
namespace Revm.Props.C11
open Revm Revm.Model.Memory Revm.Proofs.Memory
open Revm.Spec.Memory (Frames)

/-! ### the frame stack -/

theorem abs_new : abs Model.Memory.new = [[]] := Proofs.Memory.abs_new

/-- `frames_abs`: a child context starts with empty memory, all existing frames stay as they are -/
theorem frames_abs (m : SharedMemory) : abs (newContext m) = [] :: abs m := abs_newContext m

/-- a new frame has length 0 and no bytes -/
theorem child_starts_empty (m : SharedMemory) (h : WF m) :
    ctx (newContext m) = [] ∧ len (newContext m) = 0 := by
  have hw := newContext_wf h
  have hc : ctx (newContext m) = [] := by unfold ctx newContext; simp
  exact ⟨hc, by rw [len_eq hw, hc]; rfl⟩

/-- `free_context` pops exactly the running frame (and is a no-op without a checkpoint); it never
violates the `set_len` contract in a well-formed state -/
theorem free_context_pops (m : SharedMemory) (h : WF m) :
    ∃ m', freeContext m = .ok m' ∧ WF m' ∧
      abs m' = (if m.checkpoints = [] then abs m else (abs m).tail) := by
  obtain ⟨m', hm'⟩ := freeContext_ok h
  obtain ⟨hw, hs⟩ := freeContext_step h hm'
  refine ⟨m', hm', hw, ?_⟩
  unfold abs at hs ⊢
  cases hc : m.checkpoints with
  | nil => rw [hc] at hs; simp only [segs, Spec.Memory.step] at hs; injection hs with hs; simp [segs, hs]
  | cons c cs =>
    rw [hc] at hs
    obtain ⟨g, rest, hg⟩ := segs_ne_nil (List.take c m.buffer) cs
    simp only [segs, hg, Spec.Memory.step] at hs; injection hs with hs
    simp [segs, hg, hs]

/-- every call of the public API is the corresponding step of the frame-stack Spec (which by
construction touches the head frame only), and preserves the invariant -/
theorem step_refines (op : Op) (m m' : SharedMemory) (h : WF m) (hu : UsizeArgs op) (hn : NoWrap op m)
    (hr : apply op m = .ok m') : WF m' ∧ specStep (toSpec op) (abs m) = some (abs m') :=
  Proofs.Memory.step_refines h hu hn hr

/-- … and so is every sequence of calls -/
theorem run_refines (ops : List Op) (m m' : SharedMemory) (h : WF m) (ha : Admissible ops m)
    (hr : run ops m = .ok m') :
    WF m' ∧ Spec.Memory.run (specOps ops) (abs m) = some (abs m') :=
  Proofs.Memory.run_refines ops m m' h ha hr

/-- the invariant holds in every state reachable from `SharedMemory::new()` -/
theorem reachable_wf (ops : List Op) (m : SharedMemory) (ha : Admissible ops Model.Memory.new)
    (hr : run ops Model.Memory.new = .ok m) : WF m :=
  (Proofs.Memory.run_refines ops _ m new_wf ha hr).1

/-- `lower_frames_unchanged`: for ALL call sequences (writes, resizes, copies, nested contexts) that
do not free a context they did not open, every frame below the starting one is byte-for-byte
unchanged -/
theorem lower_frames_unchanged (ops : List Op) (m m' : SharedMemory) (h : WF m)
    (ha : Admissible ops m) (hs : Spec.Memory.StaysAbove 0 (specOps ops)) (hr : run ops m = .ok m') :
    ∃ hd', abs m' = hd' ++ (abs m).tail
      ∧ hd'.length = Spec.Memory.depthAfter 0 (specOps ops) + 1 :=
  Proofs.Memory.lower_frames_unchanged ops m m' h ha hs hr

/-- a whole child frame (new_context, anything the child and its own children do, free_context)
gives back the frame stack it found: the parent's memory and size are unchanged -/
theorem child_frame_isolated (ops : List Op) (m m1 m2 : SharedMemory) (h : WF m)
    (ha : Admissible ops (newContext m)) (hs : Spec.Memory.StaysAbove 0 (specOps ops))
    (hd : Spec.Memory.depthAfter 0 (specOps ops) = 0)
    (hr : run ops (newContext m) = .ok m1) (hf : freeContext m1 = .ok m2) :
    WF m2 ∧ abs m2 = abs m ∧ ctx m2 = ctx m ∧ len m2 = len m := by
  obtain ⟨hw, ha2⟩ := Proofs.Memory.child_frame_isolated ops m m1 m2 h ha hs hd hr hf
  obtain ⟨r1, h1⟩ := abs_head h
  obtain ⟨r2, h2⟩ := abs_head hw
  have hc : ctx m2 = ctx m := by rw [h1, h2] at ha2; injection ha2
  exact ⟨hw, ha2, hc, by rw [len_eq hw, len_eq h, hc]⟩

/-- `insert_call_outcome_window` (memory part of `Interpreter::insert_call_outcome`): after the child
returned, the parent's memory changes only inside `[out_offset, out_offset + min(out_len, ret.len))`,
where it holds the return data; its size and all lower frames are unchanged -/
theorem insert_call_outcome_window (m m' : SharedMemory) (outOffset outLen : Nat) (ret : List Nat)
    (h : WF m) (ho : outOffset < U64) (hl : ret.length < U64)
    (hne : min outLen ret.length ≠ 0)
    (hr : insertCallOutcomeMem m outOffset outLen ret = .ok m') :
    let t := min outLen ret.length
    (ctx m').length = (ctx m).length
    ∧ (∀ i, i < outOffset ∨ outOffset + t ≤ i → (ctx m')[i]? = (ctx m)[i]?)
    ∧ (∀ i, i < t → (ctx m')[outOffset + i]? = ret[i]?)
    ∧ abs m' = ctx m' :: (abs m).tail := by
  intro t
  unfold insertCallOutcomeMem at hr
  have hlen : (ret.take (min outLen ret.length)).length = t := by
    simp [List.length_take]; omega
  have hne' : ret.take (min outLen ret.length) ≠ [] := by
    intro hc; rw [hc] at hlen; simp at hlen; omega
  obtain ⟨h1, h2, h3, _⟩ := set_ctx h ho (by rw [hlen]; omega) hne' hr
  rw [hlen] at h1
  refine ⟨?_, ?_, ?_, h3⟩
  · rw [h2]; exact writeAt_length _ _ _ (by rw [hlen]; exact h1)
  · intro i hi; rw [h2]
    exact writeAt_getElem_outside _ _ _ i (by rw [hlen]; exact h1) (by rw [hlen]; exact hi)
  · intro i hi; rw [h2, writeAt_getElem_inside _ _ _ i (by rw [hlen]; exact h1) (by rw [hlen]; exact hi)]
    rw [List.getElem?_take, if_pos (by omega)]

/-- `parent_size_unchanged`, also when nothing is returned (`set` with an empty slice does nothing) -/
theorem insert_call_outcome_empty (m : SharedMemory) (outOffset outLen : Nat) (ret : List Nat)
    (hz : min outLen ret.length = 0) : insertCallOutcomeMem m outOffset outLen ret = .ok m := by
  unfold insertCallOutcomeMem; rw [hz]; exact set_empty m outOffset

/-! ### resize -/

/-- `resize_zero_fills`: `resize` is cut / extend-with-zeros on the running context only -/
theorem resize_zero_fills (m m' : SharedMemory) (n : Nat) (h : WF m)
    (hn : m.lastCheckpoint + n < U64) (hr : resize m n = .ok m') :
    (ctx m').length = n
    ∧ (∀ i, i < n → i < (ctx m).length → (ctx m')[i]? = (ctx m)[i]?)
    ∧ (∀ i, i < n → (ctx m).length ≤ i → (ctx m')[i]? = some 0)
    ∧ abs m' = ctx m' :: (abs m).tail := by
  obtain ⟨he, _⟩ := resize_head h hn hr
  have hc : ctx m' = Spec.Memory.resizeF n (ctx m) := by rw [he]; exact replaceCtx_ctx h _
  refine ⟨by rw [hc]; exact resizeF_length _ _, ?_, ?_, ?_⟩
  · intro i h1 h2; rw [hc]; exact resizeF_old _ _ i h1 h2
  · intro i h1 h2; rw [hc]; exact resizeF_new_zero _ _ i h1 h2
  · rw [he, replaceCtx_abs h, replaceCtx_ctx h]

/-- `resize_memory_words`, `only_grows`, `expansion_charge`: under the guard of the `resize_memory!`
macro (`new_size > len`) and below 2^32 words, `resize_memory` charges exactly
`C_mem(⌈new_size/32⌉) − C_mem(⌈len/32⌉)` (Yellow-Paper formula `3w + ⌊w²/512⌋`); if the gas suffices
the context keeps its bytes and is extended with zeros to `32·⌈new_size/32⌉ ≥ new_size > len` bytes,
otherwise nothing changes -/
theorem expansion_charge (m : SharedMemory) (rem newSize : Nat) (h : WF m)
    (hguard : len m < newSize) (hw : Spec.Memory.words newSize < 2^32)
    (hx : m.lastCheckpoint + 32 * Spec.Memory.words newSize ≤ ISIZE_MAX) :
    let w := Spec.Memory.words newSize
    let charge := Spec.Memory.memGas w - Spec.Memory.memGas (Spec.Memory.words (len m))
    (charge ≤ rem →
      ∃ m', resizeMemory m rem newSize = .ok (true, m', rem - charge)
        ∧ WF m'
        ∧ ctx m' = ctx m ++ List.replicate (32 * w - len m) 0
        ∧ len m' = 32 * w ∧ len m' % 32 = 0 ∧ newSize ≤ len m' ∧ len m < len m'
        ∧ abs m' = ctx m' :: (abs m).tail)
    ∧ (rem < charge → resizeMemory m rem newSize = .ok (false, m, rem)) := by
  intro w charge
  have hl := len_eq h
  have hsp := resizeMemory_spec (rem := rem) h (by rw [← hl]; exact hguard) hw hx
  rw [← hl] at hsp
  have hge : len m ≤ 32 * w := by
    show len m ≤ 32 * ((newSize + 31) / 32); omega
  constructor
  · intro hc
    rw [if_pos hc] at hsp
    have hlen' : m.lastCheckpoint + (ctx m ++ List.replicate (32 * w - len m) 0).length ≤ ISIZE_MAX := by
      rw [List.length_append, List.length_replicate, ← hl]
      have : len m + (32 * w - len m) = 32 * w := by omega
      rw [this]; exact hx
    have hw' := replaceCtx_wf h _ hlen'
    have hctx := replaceCtx_ctx h (ctx m ++ List.replicate (32 * w - len m) 0)
    refine ⟨_, hsp, hw', hctx, ?_, ?_, ?_, ?_, ?_⟩
    · rw [len_eq hw', hctx, List.length_append, List.length_replicate, ← hl]; omega
    · rw [len_eq hw', hctx, List.length_append, List.length_replicate, ← hl]
      have : len m + (32 * w - len m) = 32 * w := by omega
      rw [this]; omega
    · rw [len_eq hw', hctx, List.length_append, List.length_replicate, ← hl]
      have : len m + (32 * w - len m) = 32 * w := by omega
      rw [this]; show newSize ≤ 32 * ((newSize + 31) / 32); omega
    · rw [len_eq hw', hctx, List.length_append, List.length_replicate, ← hl]
      have : len m + (32 * w - len m) = 32 * w := by omega
      rw [this]
      have : newSize ≤ 32 * ((newSize + 31) / 32) := by omega
      show len m < 32 * ((newSize + 31) / 32); omega
    · rw [replaceCtx_abs h, hctx]
  · intro hc
    rw [if_neg (Nat.not_le.mpr hc)] at hsp
    exact hsp

/-- `only_grows`, as the instructions see it (`resize_memory!` macro: guard + `resize_memory`): the
running context never gets shorter, gas never increases, lower frames are untouched -/
theorem macro_only_grows (m : SharedMemory) (rem offset len_ : Nat) (h : WF m)
    (hw : Spec.Memory.words (U64ops.saturatingAdd offset len_) < 2^32)
    (hx : m.lastCheckpoint + 32 * Spec.Memory.words (U64ops.saturatingAdd offset len_) ≤ ISIZE_MAX) :
    ∃ s m' rem', resizeMemoryMacro m rem offset len_ = .ok (s, m', rem')
      ∧ len m ≤ len m' ∧ rem' ≤ rem ∧ (abs m').tail = (abs m).tail := by
  unfold resizeMemoryMacro
  simp only []
  by_cases hg : U64ops.saturatingAdd offset len_ > len m
  · rw [if_pos hg]
    obtain ⟨h1, h2⟩ := expansion_charge m rem _ h hg hw hx
    by_cases hc : Spec.Memory.memGas (Spec.Memory.words (U64ops.saturatingAdd offset len_))
        - Spec.Memory.memGas (Spec.Memory.words (len m)) ≤ rem
    · obtain ⟨m', hm', _, _, _, _, _, hlt, habs⟩ := h1 hc
      exact ⟨true, m', _, hm', Nat.le_of_lt hlt, Nat.sub_le _ _, by rw [habs]; rfl⟩
    · exact ⟨false, m, rem, h2 (Nat.lt_of_not_le hc), Nat.le_refl _, Nat.le_refl _, rfl⟩
  · rw [if_neg hg]
    exact ⟨true, m, rem, rfl, Nat.le_refl _, Nat.le_refl _, rfl⟩

/-- the pure functions: `num_words` is ⌈n/32⌉ (for n ≤ 2^64 − 32) and `memory_gas` the quadratic
formula (for fewer than 2^32 words) -/
theorem num_words_eq (n : Nat) (h : n + 31 < U64) : numWords n = Spec.Memory.words n := numWords_eq n h
theorem memory_gas_eq (w : Nat) (h : w < 2^32) : memoryGas w = Spec.Memory.memGas w := memoryGas_eq w h

/-! ### set_data, slice, copy -/

/-- `set_data` as coded (two branches, two `slice_mut`s) = one write of `len` bytes: `data[dOff..]`
cut to `len`, then zeros; only the running context changes -/
theorem set_data_semantics (m m' : SharedMemory) (moff dOff len_ : Nat) (data : List Nat) (h : WF m)
    (h1 : moff < U64) (h2 : dOff < U64) (h3 : len_ < U64) (h4 : data.length < U64)
    (hr : setData m moff dOff len_ data = .ok m') :
    moff + len_ ≤ (ctx m).length
    ∧ ctx m' = writeAt (ctx m) moff (Spec.Memory.paddedSlice data dOff len_)
    ∧ (∀ i, i < len_ → (ctx m')[moff + i]? = some ((data[dOff + i]?).getD 0))
    ∧ abs m' = ctx m' :: (abs m).tail := by
  obtain ⟨f', hf, hm⟩ := setData_head h h1 h2 h3 h4 hr
  have hpl : (Spec.Memory.paddedSlice data dOff len_).length = len_ := by
    unfold Spec.Memory.paddedSlice
    simp only [List.length_append, List.length_replicate, List.length_take, List.length_drop]; omega
  unfold Spec.Memory.setDataF Spec.Memory.writeF at hf
  rw [hpl] at hf
  by_cases hc : moff + len_ ≤ (ctx m).length
  · rw [if_pos hc] at hf; injection hf with hf
    have hctx : ctx m' = writeAt (ctx m) moff (Spec.Memory.paddedSlice data dOff len_) := by
      rw [hm, replaceCtx_ctx h, ← hf]; unfold writeAt; rw [hpl]
    refine ⟨hc, hctx, ?_, ?_⟩
    · intro i hi
      rw [hctx, writeAt_getElem_inside _ _ _ i (by rw [hpl]; exact hc) (by rw [hpl]; exact hi)]
      exact paddedSlice_getElem data dOff len_ i hi
    · rw [hm, replaceCtx_abs h, replaceCtx_ctx h]
  · rw [if_neg hc] at hf; cases hf

/-- out-of-range `slice` is never answered with a default value: it is `ub`
(`debug_unreachable!`: panic with debug assertions, undefined behaviour without) -/
theorem slice_ok_iff (m : SharedMemory) (h : WF m) (off size : Nat) (ho : off < U64) (hs : size < U64) :
    (∃ bs, slice m off size = .ok bs) ↔ off + size ≤ (ctx m).length :=
  Proofs.Memory.slice_ok_iff h off size ho hs

theorem slice_value (m : SharedMemory) (h : WF m) (off size : Nat) (hin : off + size ≤ (ctx m).length) :
    slice m off size = .ok (((ctx m).drop off).take size) := Proofs.Memory.slice_value h off size hin

/-- `copy` panics (a real panic, before anything moves) exactly when a range leaves the context -/
theorem copy_ok_iff (m : SharedMemory) (h : WF m) (dst src len_ : Nat) (hs : src < U64) (hl : len_ < U64) :
    (∃ m', copy m dst src len_ = .ok m') ↔ src + len_ ≤ (ctx m).length ∧ dst + len_ ≤ (ctx m).length :=
  Proofs.Memory.copy_ok_iff h dst src len_ hs hl

/-! ### where the code leaves the property (witnesses replayed by the harness, see harness/src/c11.rs) -/

def witnessParent : SharedMemory := ⟨List.replicate 32 255, [0], 0⟩
def witnessChildOps : List Op := [.resize (2^64 - 32), .resize 64]

/-- FINDING (release profile). `resize` computes `last_checkpoint + new_size` with a wrapping usize
add: a child frame resizing to 2^64−32 cuts the shared buffer to length 0 — below its own
checkpoint —, its next growth zero-fills the parent's region, and after `free_context` the parent
reads 32 zero bytes where it had stored 0xff…ff. All arguments are usize values and the child
frees nothing it did not open: only `NoWrap` fails. (Reaching this through `resize_memory` needs
≈1.84·10^19 gas: `memory_gas` saturates to u64::MAX there, so only a frame holding all of u64::MAX gas gets that far.) -/
theorem resize_wrap_counterexample :
    WF witnessParent
    ∧ (∀ op ∈ witnessChildOps, UsizeArgs op)
    ∧ Spec.Memory.StaysAbove 0 (specOps witnessChildOps)
    ∧ Spec.Memory.depthAfter 0 (specOps witnessChildOps) = 0
    ∧ ∃ m1 m2, run witnessChildOps (newContext witnessParent) = .ok m1 ∧ freeContext m1 = .ok m2
        ∧ ctx witnessParent = List.replicate 32 255 ∧ ctx m2 = List.replicate 32 0
        ∧ abs m2 ≠ abs witnessParent := by
  refine ⟨⟨⟨Nat.zero_le _, trivial⟩, rfl, by decide⟩, ?_, ?_, ?_, ?_⟩
  · intro op hop
    simp only [witnessChildOps, List.mem_cons, List.mem_nil_iff, or_false] at hop
    rcases hop with rfl | rfl <;> simp only [UsizeArgs] <;> rw [U64_val] <;> decide
  · simp [specOps, witnessChildOps, toSpec, Spec.Memory.StaysAbove]
  · simp [specOps, witnessChildOps, toSpec, Spec.Memory.depthAfter]
  · refine ⟨⟨List.replicate 96 0, [32, 0], 32⟩, ⟨List.replicate 32 0, [0], 0⟩, ?_, ?_, ?_, ?_, ?_⟩
    · decide +kernel
    · decide +kernel
    · decide +kernel
    · decide +kernel
    · decide +kernel

/-- API-level caveat (release profile). Without the macro's guard `new_size > len`, `resize_memory`
called with a smaller size and a full gas counter accepts the wrapped charge 2^64−6 and SHRINKS the
memory from 64 to 0 bytes, leaving 5 gas (the debug build panics on the subtraction). No instruction
reaches this: every instruction goes through the guarded macro. -/
theorem resize_memory_unguarded_shrinks_counterexample :
    resizeMemory ⟨List.replicate 64 0, [0], 0⟩ (2^64 - 1) 0 = .ok (true, ⟨[], [0], 0⟩, 5) := by
  decide +kernel

/-- `memory_gas` (after the repair `fix: memory_gas undercharged …`) is the quadratic formula for
every word count, clamped to `u64::MAX` where it needs more than 64 bits -/
theorem memory_gas_full (w : Nat) : memoryGas w = min (Spec.Memory.memGas w) (U64 - 1) :=
  memoryGas_full w

/-- regression of the repaired defect (the code used to return one less / far less from 2^32 words on) -/
theorem memory_gas_regression :
    memoryGas (2^32) = Spec.Memory.memGas (2^32) ∧ memoryGas (2^33) = Spec.Memory.memGas (2^33)
    ∧ memoryGas (2^37) = 2^64 - 1 := by
  decide +kernel

/-- `num_words` is one word short for the last 31 lengths -/
theorem num_words_saturates_counterexample :
    numWords (2^64 - 1) + 1 = Spec.Memory.words (2^64 - 1) := by decide +kernel

/-! ### non-vacuity: the hypotheses above are satisfiable by non-trivial states -/

def exState : SharedMemory := ⟨[1, 2, 3, 4, 5, 6, 7, 8], [4, 0], 4⟩
def exOps : List Op :=
  [.set 0 [9, 9], .newContext, .resize 3, .setData 0 1 3 [7, 8], .copy 0 1 2, .freeContext, .slice 2 2]

example : WF exState := ⟨⟨by decide, by decide, trivial⟩, rfl, by decide⟩
example : abs exState = [[5, 6, 7, 8], [1, 2, 3, 4], []] := by decide
example : run exOps exState = .ok ⟨[1, 2, 3, 4, 9, 9, 7, 8], [4, 0], 4⟩ := by decide +kernel
example : Spec.Memory.StaysAbove 0 (specOps exOps) := by
  simp [specOps, exOps, toSpec, Spec.Memory.StaysAbove, List.filterMap]
example : UsizeArgs (.setData 0 1 3 [7, 8]) ∧ NoWrap (.resize 3) exState := by
  refine ⟨⟨?_, ?_, ?_, ?_⟩, ?_⟩
  all_goals (show _ < U64; rw [U64_val]; decide)
example : resizeMemory exState 100 5 = .ok (true, ⟨[1, 2, 3, 4, 5, 6, 7, 8] ++ List.replicate 28 0, [4, 0], 4⟩, 100) := by
  decide +kernel
example : len exState < 5 ∧ Spec.Memory.words 5 < 2^32 ∧ exState.lastCheckpoint + 32 * Spec.Memory.words 5 ≤ ISIZE_MAX := by
  decide +kernel
example : Spec.Memory.words (U64ops.saturatingAdd 3 2) < 2^32 := by decide +kernel
example : insertCallOutcomeMem exState 1 2 [7, 7, 7] = .ok ⟨[1, 2, 3, 4, 5, 7, 7, 8], [4, 0], 4⟩ := by decide +kernel
example : setData exState 1 1 3 [7, 8] = .ok ⟨[1, 2, 3, 4, 5, 8, 0, 0], [4, 0], 4⟩ := by decide +kernel
example : slice exState 3 2 = .ub ∧ copy exState 3 0 2 = .panic := by decide +kernel

/-! ### re-entry of a child's result, on the integrated interpreter model

`Model.Interp.insertCallOutcome` is the model of the whole `Interpreter::insert_call_outcome` (return-data buffer, gas
give-back, refund, memory write, status word, `push!` overflow) that the frame machine of C01/C25 runs and that the
`mem ico` lines of the C11 stream execute against the REAL function on memories with non-zero bytes in and around the
window. The statements below are about that function, for every parent state, every child result, every window. -/

open Revm.Model.Interp in
/-- `insert_call_outcome_window` on `Interp.insertCallOutcome`: for every parent state and every child outcome whose
written part of the window is addressable (the CALL made the whole window addressable), either the result is
`FatalExternalError` (the `panic!`; nothing was written), or the function ends - normally or with `StackOverflow`
from the `push!` of the status word - in a state whose memory has the SAME size, is byte-for-byte what it was outside
`[out_offset, out_offset + min(out_len, returned.len()))`, holds the returned bytes there (nothing at all is written
for an error-class result), and all frames below are untouched. Bytes of the window beyond the returned length are
therefore NOT cleared. -/
theorem interp_insert_call_outcome_window (retStart retEnd : Nat) (o : ChildResult) (s : IState)
    (h : WF s.mem) (ho : retStart < U64) (hl : o.output.length < U64)
    (hwin : min (retEnd - retStart) o.output.length ≠ 0 →
      retStart + min (retEnd - retStart) o.output.length ≤ (ctx s.mem).length) :
    (o.result = .FatalExternalError ∧ insertCallOutcome retStart retEnd o s = .fault .panic)
    ∨ ∃ s', (insertCallOutcome retStart retEnd o s = .ok () s'
              ∨ insertCallOutcome retStart retEnd o s = .halt .StackOverflow [] s')
        ∧ WF s'.mem
        ∧ (ctx s'.mem).length = (ctx s.mem).length
        ∧ (∀ i, i < retStart ∨ retStart + min (retEnd - retStart) o.output.length ≤ i →
              (ctx s'.mem)[i]? = (ctx s.mem)[i]?)
        ∧ ((o.result.isOk = true ∨ o.result.isRevert = true) →
              ∀ i, i < min (retEnd - retStart) o.output.length → (ctx s'.mem)[retStart + i]? = o.output[i]?)
        ∧ (o.result.isOk = false → o.result.isRevert = false → s'.mem = s.mem)
        ∧ abs s'.mem = ctx s'.mem :: (abs s.mem).tail := by
  have hlen : (o.output.take (min (retEnd - retStart) o.output.length)).length
      = min (retEnd - retStart) o.output.length := by
    rw [List.length_take]; omega
  rcases Proofs.MemoryOutcome.insertCallOutcome_mem retStart retEnd o s with hf | ⟨_, hnok, hnrev, s', hL, hm⟩ | ⟨hcls, hw⟩
  · exact Or.inl hf
  · obtain ⟨r, hr⟩ := abs_head h
    refine Or.inr ⟨s', hL, by rw [hm]; exact h, by rw [hm], fun i _ => by rw [hm], ?_, fun _ _ => hm, by rw [hm, hr]; rfl⟩
    intro hc; rcases hc with hc | hc
    · rw [hnok] at hc; cases hc
    · rw [hnrev] at hc; cases hc
  · obtain ⟨m', hset⟩ := Proofs.MemoryOutcome.set_total h retStart
      (o.output.take (min (retEnd - retStart) o.output.length))
      (by intro hne; rw [hlen]; apply hwin; intro hz; apply hne
          exact List.eq_nil_of_length_eq_zero (by rw [hlen]; exact hz))
    rw [hset] at hw
    obtain ⟨s', hL, hm⟩ := hw
    obtain ⟨w1, w2, w3, w4, w5⟩ := Proofs.MemoryOutcome.set_window h ho (by rw [hlen]; omega) hset
    rw [hlen] at w3 w4
    refine Or.inr ⟨s', hL, by rw [hm]; exact w1, by rw [hm]; exact w2, by rw [hm]; exact w3, ?_, ?_, by rw [hm]; exact w5⟩
    · intro _ i hi
      rw [hm, w4 i hi, List.getElem?_take, if_pos hi]
    · intro h1 h2
      rcases hcls with hc | hc
      · rw [h1] at hc; cases hc
      · rw [h2] at hc; cases hc

open Revm.Model.Interp in
/-- `parent_size_unchanged` and the bytes behind a short return: when the child returns FEWER bytes than the window
is long (none included), the rest of the window keeps the parent's bytes -/
theorem interp_insert_call_outcome_short_return (retStart retEnd : Nat) (o : ChildResult) (s s' : IState)
    (h : WF s.mem) (ho : retStart < U64) (hl : o.output.length < U64)
    (hwin : retStart < retEnd → retEnd ≤ (ctx s.mem).length)
    (hr : insertCallOutcome retStart retEnd o s = .ok () s'
          ∨ insertCallOutcome retStart retEnd o s = .halt .StackOverflow [] s') :
    (ctx s'.mem).length = (ctx s.mem).length
    ∧ ∀ i, retStart + o.output.length ≤ i → (ctx s'.mem)[i]? = (ctx s.mem)[i]? := by
  have hw : min (retEnd - retStart) o.output.length ≠ 0 →
      retStart + min (retEnd - retStart) o.output.length ≤ (ctx s.mem).length := by
    intro hne
    have := hwin (by omega)
    omega
  rcases interp_insert_call_outcome_window retStart retEnd o s h ho hl hw with ⟨_, hp⟩ | ⟨s'', hL, _, h2, h3, _⟩
  · rw [hp] at hr; rcases hr with hr | hr <;> cases hr
  · have hs : s'' = s' := by
      rcases hL with hL | hL <;> rcases hr with hr | hr <;> rw [hL] at hr <;> injection hr
    subst hs
    exact ⟨h2, fun i hi => h3 i (Or.inr (by omega))⟩

open Revm.Model.Interp in
/-- `insert_create_outcome` and `insert_eofcreate_outcome` (which are not even handed the shared memory) leave the
parent's memory object exactly as it is, whatever the child returned -/
theorem interp_insert_create_outcome_memory (o : ChildResult) (s : IState) :
    (insertCreateOutcome o s = .fault .panic
      ∨ ∃ s', (insertCreateOutcome o s = .ok () s' ∨ insertCreateOutcome o s = .halt .StackOverflow [] s')
          ∧ s'.mem = s.mem)
    ∧ (insertEofCreateOutcome o s = .fault .panic
      ∨ ∃ s', (insertEofCreateOutcome o s = .ok () s' ∨ insertEofCreateOutcome o s = .halt .StackOverflow [] s')
          ∧ s'.mem = s.mem) := by
  refine ⟨?_, Proofs.MemoryOutcome.insertEofCreateOutcome_mem o s⟩
  rcases Proofs.MemoryOutcome.insertCreateOutcome_mem o s with ⟨_, hp⟩ | hx
  · exact Or.inl hp
  · exact Or.inr hx

/-- the parent of the examples: two frames, the running one `[5, 6, 7, 8]` -/
def exParent : Model.Interp.IState :=
  { Model.Interp.IState.init [0] [] 1000 false 17 0 0 0 {} exState with gas := ⟨1000, 400, 0⟩ }

example : WF exParent.mem ∧ (1 : Nat) < U64 ∧ ([9] : List Nat).length < U64
    ∧ (min (4 - 1) ([9] : List Nat).length ≠ 0 → 1 + min (4 - 1) ([9] : List Nat).length ≤ (ctx exParent.mem).length) := by
  refine ⟨⟨⟨by decide, by decide, trivial⟩, rfl, by decide⟩, ?_, ?_, by decide⟩
  all_goals (rw [U64_val]; decide)
/-- window `[1, 4)`, one byte returned: only byte 1 changes, bytes 2 and 3 of the window keep `7, 8` -/
example : ∃ s', Model.Interp.insertCallOutcome 1 4 ⟨.Return, [9], 100, 5, none⟩ exParent = .ok () s'
    ∧ s'.mem = ⟨[1, 2, 3, 4, 5, 9, 7, 8], [4, 0], 4⟩ ∧ s'.stack = [1] ∧ s'.gas = ⟨1000, 500, 5⟩ :=
  ⟨_, rfl, by decide +kernel, by decide +kernel, by decide +kernel⟩
/-- a reverting child that returns nothing: memory untouched, `0` pushed -/
example : ∃ s', Model.Interp.insertCallOutcome 0 4 ⟨.Revert, [], 100, 5, none⟩ exParent = .ok () s'
    ∧ s'.mem = exState ∧ s'.stack = [0] ∧ s'.gas = ⟨1000, 500, 0⟩ :=
  ⟨_, rfl, by decide +kernel, by decide +kernel, by decide +kernel⟩

end Revm.Props.C11
