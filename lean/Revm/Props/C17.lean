import Revm.Proofs.Bundle
/-! C17 — bundle reverts record the exact values before each merged transition.

Full statements: `Spec.Bundle.RevertKCorrectStatement` (per-block pre-values) and
`Spec.Bundle.RevertJEqualsPrefixStatement` (`revert(j)` ≙ prefix bundle). Neither is proved in general,
and both are FALSE of the current code on EVM-reachable histories (`_counterexample` theorems below,
witness request lines in corpus/C17/):
* F1 — literal reading of `RevertToSlot::Destroyed` (= 0, `to_previous_value`): a revert that wipes
  storage lists a slot written by the re-creation as `Destroyed`, although the slot was non-zero before
  the group. Under the reading "Destroyed in a wiping revert = pre-bundle (database) value" the same
  witness is correct, and the correspondence stream asserts that reading (`c17d`) on every case.
* F2 — `BundleState::revert(j)` across a storage-wiping revert: the account's original slot values were
  drained by the destroy, the reverted bundle gets `original = present` (known = Yes omits the slot) or
  keeps zeroed slots of the later re-creation (known = No writes zeros over database values).
Proved: structure of `revert(n)` on the revert list; the witnesses. The per-block statement in the
region "no taken/extended bundle" and `revert(j)` in the region "none of the j reverted blocks wipes
storage" are carried by the correspondence oracles (`check`, `revert`), stated as Spec columns. -/
namespace Revm.Props.C17
open Revm.Model.Bundle Revm.Spec.Bundle Revm.Proofs.Bundle

def FullStatementRevertK : Prop := RevertKCorrectStatement false
/-- the reading implemented by database writers (`Destroyed` + wipe ⇒ database value) -/
def FullStatementRevertKDbReading : Prop := RevertKCorrectStatement true
def FullStatementRevertJ : Prop := RevertJEqualsPrefixStatement

/-- `revert(0)` is the identity -/
theorem revert_zero (b : BState) : revertN b 0 = b := rfl

/-- `revert(n)` pops `min n len` blocks off the revert list and leaves the earlier ones untouched -/
theorem revert_n_reverts (b : BState) (n : Nat) :
    (revertN b n).reverts = b.reverts.take (b.reverts.length - n) :=
  revertN_reverts b n

theorem revert_n_length (b : BState) (n : Nat) : (revertN b n).reverts.length = b.reverts.length - n :=
  revertN_length b n

/-- `revert_latest` reports whether there was a block, and removes exactly the last one -/
theorem revert_latest_spec (b : BState) :
    (revertLatest b).2 = !b.reverts.isEmpty ∧ (revertLatest b).1.reverts = b.reverts.dropLast :=
  ⟨revertLatest_flag b, revertLatest_reverts b⟩

/-- FINDING F1 (literal reading). Account 1 has slot 1 = 7; one merge group destroys and re-creates it
writing slot 1. The block's plain revert gives slot 1 the value 0 (`Destroyed`), the value before the
group was 7. With the database reading the block gives 7. The history is EVM-reachable.
Request lines: corpus/C17/F1-destroyed-slot-in-wiped-revert.bundle.case -/
theorem revert_k_literal_counterexample :
    reachHistory true Wit.f1p0 Wit.f1h = true ∧ Wit.f1p0.slot 1 1 = 7 ∧
    (Wit.runLast { db := Wit.f1db, sc := true } Wit.f1p0 Wit.f1h).map (fun r =>
      Wit.slotsBefore false r.1.bundle Wit.f1p0 (Wit.refsOf { db := Wit.f1db, sc := true } Wit.f1p0 Wit.f1h) 1 1)
      = some [0] ∧
    (Wit.runLast { db := Wit.f1db, sc := true } Wit.f1p0 Wit.f1h).map (fun r =>
      Wit.slotsBefore true r.1.bundle Wit.f1p0 (Wit.refsOf { db := Wit.f1db, sc := true } Wit.f1p0 Wit.f1h) 1 1)
      = some [7] := by
  decide

/-- FINDING F2a (`OriginalValuesKnown::Yes`). Group 1 creates a contract over balance-only account 1 with
slot 2 := 9, group 2 destroys it. After `revert(1)` the changeset (Yes) applied to the pre-state gives
slot 2 = 0; the state after group 1 has 9 (with `No` it gives 9).
Request lines: corpus/C17/F2a-revert-across-wipe-known-yes.bundle.case -/
theorem revert_j_counterexample_known_yes :
    reachHistory true Wit.f2ap0 Wit.f2ah = true ∧
    (Wit.runLast { db := Wit.f2adb, sc := true } Wit.f2ap0 Wit.f2ah).map (fun r =>
      ((applyChangeset (toPlainState (revertN r.1.bundle 1) true) Wit.f2ap0).slot 1 2,
       (applyChangeset (toPlainState (revertN r.1.bundle 1) false) Wit.f2ap0).slot 1 2,
       ((Wit.refsOf { db := Wit.f2adb, sc := true } Wit.f2ap0 Wit.f2ah).getD 0 {}).slot 1 2)) = some (0, 9, 9) := by
  decide

/-- FINDING F2b (`OriginalValuesKnown::No`). Contract 3 (slot 1 = 9) destroyed in group 1, re-created with
slot 1 := 7 in group 2. After `revert(2)` the changeset (No) writes slot 1 = 0 over the pre-state value
9 (with `Yes` the slot is omitted and stays 9).
Request lines: corpus/C17/F2b-revert-across-wipe-known-no.bundle.case -/
theorem revert_j_counterexample_known_no :
    reachHistory true Wit.f2bp0 Wit.f2bh = true ∧ Wit.f2bp0.slot 3 1 = 9 ∧
    (Wit.runLast { db := Wit.f2bdb, sc := true } Wit.f2bp0 Wit.f2bh).map (fun r =>
      ((applyChangeset (toPlainState (revertN r.1.bundle 2) false) Wit.f2bp0).slot 3 1,
       (applyChangeset (toPlainState (revertN r.1.bundle 2) true) Wit.f2bp0).slot 3 1)) = some (0, 9) := by
  decide

/-- positive instance: a history without destruction (slot written, written back) reverts exactly -/
theorem revert_j_instance :
    (Wit.runLast { db := Wit.f4db, sc := true } Wit.f4p0
        (Wit.f4h1 ++ [[[(2, Wit.ea 3 1 1 false false [(1, ⟨7, 0⟩)])]]])).map (fun r =>
      ((applyChangeset (toPlainState (revertN r.1.bundle 1) true) Wit.f4p0).slot 2 1,
       (applyChangeset (toPlainState (revertN r.1.bundle 1) false) Wit.f4p0).slot 2 1,
       (applyChangeset (toPlainState (revertN r.1.bundle 2) false) Wit.f4p0).slot 2 1,
       (revertN r.1.bundle 2).reverts.length)) = some (7, 7, 0, 0) := by
  decide

end Revm.Props.C17
