import Revm.Proofs.BundleInvRevert
import Revm.Proofs.BundleRevMain
/-! C17 — bundle reverts record the exact values before each merged transition.

Full statements: `Spec.Bundle.RevertKCorrectStatement` (per-block pre-values, parameterised by the reading
of `RevertToSlot::Destroyed`) and `Spec.Bundle.RevertJEqualsPrefixStatement` (`revert(j)` ≙ prefix bundle).

PROVED at full strength: `revert_k_correct : RevertKCorrectStatement true` — for every database, both
state-clear settings, every EVM-reachable history and every merge schedule (bundle built by a fresh `State`),
block k of `to_plain_state_reverts`, applied to the reference state after group k (unlisted slots of a
wiping revert read as their pre-bundle value, a `Destroyed` slot of a wiping revert read as its database
value, as database writers do), gives the reference state before group k; nothing panics. The proof extends
the invariant of C16 by the revert side: every `AccountRevert` recorded by `update_and_create_revert` leads
from the current (info, slots) of its address back to those at the previous merge (`RevSem`, `merge_core`).
PROVED in the region outside finding F1: `revert_k_correct_literal_partial` — the same with the LITERAL
reading (`Destroyed` = 0, `RevertToSlot::to_previous_value`) for every block in which no wiping revert lists
a `Destroyed` slot (explicit decidable hypothesis `literalOk`). F1 (`revert_k_literal_counterexample`) shows
the literal statement `FullStatementRevertK` is false of the code without that hypothesis.
PROVED in the region outside findings F2a / F2b: the second sentence — `revert_latest_correct_partial` (one
`revert_latest` step) and `revert_j_equals_prefix_partial` (`revert(j)` for every j, also j > number of groups; by
induction on j from the step): for every database, both state-clear settings, every EVM-reachable history and merge
schedule and both `OriginalValuesKnown` settings, the changeset of the reverted bundle applied to the pre-bundle
state is the reference state after the first n - j groups, hence (`revert_j_equals_prefix_bundle_partial`, with
C16) the same state the changeset of the bundle built from only the first n - j groups gives. Region = explicit
decidable hypothesis `Spec.Bundle.revertOk b j`: every storage-WIPING `AccountRevert` met by the j steps lists no
slot and is applied to a bundle account that holds no slot entries (`wipeOk`); `noWipeInLast` (no wiping revert in
the last j blocks) is a simpler sufficient condition (`no_wipe_in_region`). The proof is time-indexed: the forward
bundle state and reference state after every group (`RevChain`), and per address the fact that the recorded
`AccountRevert` leads from any reverted entry matching the forward entry after the group to one matching the
forward entry before it (`RInv`, `rev_acct`; info revert DoNothing / DeleteIt / RevertTo, per-slot `Some v` /
`Destroyed`, `previous_status`). `BundleAccount::revert` ignores `wipe_storage`; F2a (wiping revert that lists
slots: the restored entries lose their original values) and F2b (wiping revert applied to an account holding stale
entries) show that neither half of `wipeOk` can be dropped (`region_excludes_findings`,
`revert_j_counterexample_known_yes`, `revert_j_counterexample_known_no`): `FullStatementRevertJ` is false of the code.
Literal equality of the two changesets is not claimed (a reverted bundle keeps unchanged entries the prefix bundle
never had; with `OriginalValuesKnown::No` they are listed): equality is of the described states.
Proved for `revert(n)`: its effect on the revert list. -/
namespace Revm.Props.C17
open Revm.Model.Bundle Revm.Spec.Bundle Revm.Proofs.Bundle

def FullStatementRevertK : Prop := RevertKCorrectStatement false
/-- the reading implemented by database writers (`Destroyed` + wipe ⇒ database value) -/
def FullStatementRevertKDbReading : Prop := RevertKCorrectStatement true
def FullStatementRevertJ : Prop := RevertJEqualsPrefixStatement

/-- **C17, first sentence, headline** (database reading of `Destroyed` in wiping reverts): all databases,
all EVM-reachable histories, all merge schedules, both state-clear settings -/
theorem revert_k_correct : FullStatementRevertKDbReading := revert_k_correct_proof

/-- **C17, first sentence, literal reading, region outside F1**: for every block of the final bundle in
which no wiping revert lists a `Destroyed` slot (`literalOk`), the block applied with `Destroyed` = 0 to the
state after its group gives the state before it. Missing for `FullStatementRevertK`: nothing provable — the
statement without `literalOk` is false of the code (F1 below). -/
theorem revert_k_correct_literal_partial (db : BMap Info) (sc : Bool) (p0 : Plain) (h : List Group)
    (hdb : dbMatches db p0) (hwf : plainWF p0) (hr : reachHistory sc p0 h = true) :
    ∃ l, runHistory { db := db, sc := sc } p0 h = some l ∧
      ∀ s r, l.getLast? = some (s, r) →
        ∀ (k : Nat) b before after, s.bundle.reverts[k]? = some b → literalOk b = true →
          ((p0 :: l.map (·.2))[k]? = some before) → ((l.map (·.2))[k]? = some after) →
          PlainEq (applyRevertBlock false p0 (revertBlockToPlain b) after) before :=
  revert_k_literal_proof db sc p0 h hdb hwf hr

/-- the region hypothesis is satisfiable by a non-trivial block: F2b's history (destroy, then re-create in
the next group) has a wiping revert without `Destroyed` slots; F1's block is outside the region -/
example : (Wit.runLast { db := Wit.f2bdb, sc := true } Wit.f2bp0 Wit.f2bh).map
    (fun r => r.1.bundle.reverts.map literalOk) = some [true, true] ∧
    (Wit.runLast { db := Wit.f1db, sc := true } Wit.f1p0 Wit.f1h).map
    (fun r => r.1.bundle.reverts.map literalOk) = some [false] := by decide

/-- one block of reverts satisfying the per-address revert semantics maps `after` to `before` (the fold over
the addresses of `applyRevertBlock`), for the database reading or inside the literal region -/
theorem revert_block_maps_back (dbr : Bool) (blk : BMap ARevert) (p0 before after : Plain)
    (h : BlockSem blk p0 before after) (hd : dbr = true ∨ literalOk blk = true) :
    PlainEq (applyRevertBlock dbr p0 (revertBlockToPlain blk) after) before :=
  revert_block_correct dbr blk p0 before after h hd

/-- **C17, second sentence, one step, region outside F2a / F2b**: one `revert_latest` on the bundle built from
groups 1..n (pop the last block, apply each `AccountRevert` through `BundleAccount::revert`) leaves a bundle whose
changeset, with either `OriginalValuesKnown`, applied to the pre-bundle state gives the reference state after
groups 1..n-1. Missing for the full statement: nothing provable — without `revertStepOk` it is false (F2a). -/
theorem revert_latest_correct_partial (db : BMap Info) (sc : Bool) (p0 : Plain) (h : List Group) (known : Bool)
    (hdb : dbMatches db p0) (hwf : plainWF p0) (hr : reachHistory sc p0 h = true) :
    ∃ l, runHistory { db := db, sc := sc } p0 h = some l ∧
      ∀ s r, l.getLast? = some (s, r) → revertStepOk s.bundle = true →
        ∀ tgt, (p0 :: l.map (·.2))[h.length - 1]? = some tgt →
          PlainEq (applyChangeset (toPlainState (revertLatest s.bundle).1 known) p0) tgt :=
  revert_latest_proof db sc p0 h known hdb hwf hr

/-- **C17, second sentence, region outside F2a / F2b**: `FullStatementRevertJ` with the extra hypothesis
`revertOk s.bundle j` (every j, also beyond the number of groups: then the target is the pre-bundle state).
Missing for the full statement: nothing provable — without `revertOk` it is false (F2a, F2b below). -/
theorem revert_j_equals_prefix_partial (db : BMap Info) (sc : Bool) (p0 : Plain) (h : List Group) (j : Nat)
    (known : Bool) (hdb : dbMatches db p0) (hwf : plainWF p0) (hr : reachHistory sc p0 h = true) :
    ∃ l, runHistory { db := db, sc := sc } p0 h = some l ∧
      ∀ s r, l.getLast? = some (s, r) → revertOk s.bundle j = true →
        ∀ tgt, (p0 :: l.map (·.2))[h.length - j]? = some tgt →
          PlainEq (applyChangeset (toPlainState (revertN s.bundle j) known) p0) tgt :=
  revert_j_proof db sc p0 h j known hdb hwf hr

/-- the same against the bundle built from only the earlier groups: running the first n - j groups gives the
prefix of the run, and the two changesets describe the same state -/
theorem revert_j_equals_prefix_bundle_partial (db : BMap Info) (sc : Bool) (p0 : Plain) (h : List Group) (j : Nat)
    (known : Bool) (hdb : dbMatches db p0) (hwf : plainWF p0) (hr : reachHistory sc p0 h = true) :
    ∃ l, runHistory { db := db, sc := sc } p0 h = some l ∧
      runHistory { db := db, sc := sc } p0 (h.take (h.length - j)) = some (l.take (h.length - j)) ∧
      ∀ s r, l.getLast? = some (s, r) → revertOk s.bundle j = true →
        PlainEq (applyChangeset (toPlainState (revertN s.bundle j) known) p0)
          (applyChangeset (toPlainState (prefixBundle l (h.length - j)) known) p0) :=
  revert_j_prefix_proof db sc p0 h j known hdb hwf hr

/-- no storage-wiping revert in the last j blocks ⇒ inside the region -/
theorem no_wipe_in_region (b : BState) (j : Nat) (h : noWipeInLast b j = true) : revertOk b j = true :=
  noWipe_revertOk j b h

/-- the region is satisfiable and wider than "no wipe": `f4` history plus a write (no destruction) is inside for
j = 1, 2, 3; in F2b's history, extended by nothing, `revert(1)` (re-creation reverted, no wipe) is inside; a
code-only contract destroyed in the last group is reverted exactly although its revert wipes
(`noWipeInLast` false, `revertOk` true) -/
example :
    (Wit.runLast { db := Wit.f4db, sc := true } Wit.f4p0
        (Wit.f4h1 ++ [[[(2, Wit.ea 3 1 1 false false [(1, ⟨7, 0⟩)])]]])).map (fun r =>
      (revertOk r.1.bundle 1, revertOk r.1.bundle 2, revertOk r.1.bundle 3)) = some (true, true, true) ∧
    (Wit.runLast { db := Wit.f2bdb, sc := true } Wit.f2bp0 Wit.f2bh).map (fun r => revertOk r.1.bundle 1) = some true ∧
    (Wit.runLast { db := Wit.f2bdb, sc := true } Wit.f2bp0 [[[(3, Wit.ea 0 1 1 false true [])]]]).map (fun r =>
      (noWipeInLast r.1.bundle 1, revertOk r.1.bundle 1,
       (applyChangeset (toPlainState (revertN r.1.bundle 1) false) Wit.f2bp0).slot 3 1,
       (applyChangeset (toPlainState (revertN r.1.bundle 1) true) Wit.f2bp0).acct 3)) =
      some (false, true, 9, some ⟨0xb1, 1, 1, false⟩) := by decide

/-- neither half of `wipeOk` can be dropped: F2a's last block holds a wiping revert that lists a slot
(`revertOk _ 1 = false`); in F2b the wiping revert lists nothing but is applied, at the second step, to an account
holding a stale entry (`revertOk _ 1 = true`, `revertOk _ 2 = false`) — and in both the statement fails (the two
counterexample theorems below) -/
theorem region_excludes_findings :
    (Wit.runLast { db := Wit.f2adb, sc := true } Wit.f2ap0 Wit.f2ah).map (fun r => revertOk r.1.bundle 1) = some false ∧
    (Wit.runLast { db := Wit.f2bdb, sc := true } Wit.f2bp0 Wit.f2bh).map (fun r =>
      (revertOk r.1.bundle 1, revertOk r.1.bundle 2,
       r.1.bundle.reverts.map (fun blk => blk.map (fun e => (e.2.wipe, e.2.storage.isEmpty))))) =
      some (true, false, [[(true, true)], [(false, false)]]) := by
  decide

/-- `revert(0)` is the identity -/
theorem revert_zero (b : BState) : revertN b 0 = b := rfl

/-- `revert(n)` pops `min n len` blocks off the revert list and leaves the earlier ones untouched -/
theorem revert_n_reverts (b : BState) (n : Nat) :
    (revertN b n).reverts = b.reverts.take (b.reverts.length - n) :=
  revertN_reverts b n

theorem revert_n_length (b : BState) (n : Nat) : (revertN b n).reverts.length = b.reverts.length - n :=
  revertN_length b n

/-- `revert_latest` reports whether there was a block, and removes exactly the last one -/
theorem revert_latest_spec (b : BState) :
    (revertLatest b).2 = !b.reverts.isEmpty ∧ (revertLatest b).1.reverts = b.reverts.dropLast :=
  ⟨revertLatest_flag b, revertLatest_reverts b⟩

/-- FINDING F1 (literal reading). Account 1 has slot 1 = 7; one merge group destroys and re-creates it
writing slot 1. The block's plain revert gives slot 1 the value 0 (`Destroyed`), the value before the
group was 7. With the database reading the block gives 7. The history is EVM-reachable.
Request lines: corpus/C17/F1-destroyed-slot-in-wiped-revert.bundle.case -/
theorem revert_k_literal_counterexample :
    reachHistory true Wit.f1p0 Wit.f1h = true ∧ Wit.f1p0.slot 1 1 = 7 ∧
    (Wit.runLast { db := Wit.f1db, sc := true } Wit.f1p0 Wit.f1h).map (fun r =>
      Wit.slotsBefore false r.1.bundle Wit.f1p0 (Wit.refsOf { db := Wit.f1db, sc := true } Wit.f1p0 Wit.f1h) 1 1)
      = some [0] ∧
    (Wit.runLast { db := Wit.f1db, sc := true } Wit.f1p0 Wit.f1h).map (fun r =>
      Wit.slotsBefore true r.1.bundle Wit.f1p0 (Wit.refsOf { db := Wit.f1db, sc := true } Wit.f1p0 Wit.f1h) 1 1)
      = some [7] := by
  decide

/-- FINDING F2a (`OriginalValuesKnown::Yes`). Group 1 creates a contract over balance-only account 1 with
slot 2 := 9, group 2 destroys it. After `revert(1)` the changeset (Yes) applied to the pre-state gives
slot 2 = 0; the state after group 1 has 9 (with `No` it gives 9).
Request lines: corpus/C17/F2a-revert-across-wipe-known-yes.bundle.case -/
theorem revert_j_counterexample_known_yes :
    reachHistory true Wit.f2ap0 Wit.f2ah = true ∧
    (Wit.runLast { db := Wit.f2adb, sc := true } Wit.f2ap0 Wit.f2ah).map (fun r =>
      ((applyChangeset (toPlainState (revertN r.1.bundle 1) true) Wit.f2ap0).slot 1 2,
       (applyChangeset (toPlainState (revertN r.1.bundle 1) false) Wit.f2ap0).slot 1 2,
       ((Wit.refsOf { db := Wit.f2adb, sc := true } Wit.f2ap0 Wit.f2ah).getD 0 {}).slot 1 2)) = some (0, 9, 9) := by
  decide

/-- FINDING F2b (`OriginalValuesKnown::No`). Contract 3 (slot 1 = 9) destroyed in group 1, re-created with
slot 1 := 7 in group 2. After `revert(2)` the changeset (No) writes slot 1 = 0 over the pre-state value
9 (with `Yes` the slot is omitted and stays 9).
Request lines: corpus/C17/F2b-revert-across-wipe-known-no.bundle.case -/
theorem revert_j_counterexample_known_no :
    reachHistory true Wit.f2bp0 Wit.f2bh = true ∧ Wit.f2bp0.slot 3 1 = 9 ∧
    (Wit.runLast { db := Wit.f2bdb, sc := true } Wit.f2bp0 Wit.f2bh).map (fun r =>
      ((applyChangeset (toPlainState (revertN r.1.bundle 2) false) Wit.f2bp0).slot 3 1,
       (applyChangeset (toPlainState (revertN r.1.bundle 2) true) Wit.f2bp0).slot 3 1)) = some (0, 9) := by
  decide

/-- positive instance: a history without destruction (slot written, written back) reverts exactly -/
theorem revert_j_instance :
    (Wit.runLast { db := Wit.f4db, sc := true } Wit.f4p0
        (Wit.f4h1 ++ [[[(2, Wit.ea 3 1 1 false false [(1, ⟨7, 0⟩)])]]])).map (fun r =>
      ((applyChangeset (toPlainState (revertN r.1.bundle 1) true) Wit.f4p0).slot 2 1,
       (applyChangeset (toPlainState (revertN r.1.bundle 1) false) Wit.f4p0).slot 2 1,
       (applyChangeset (toPlainState (revertN r.1.bundle 2) false) Wit.f4p0).slot 2 1,
       (revertN r.1.bundle 2).reverts.length)) = some (7, 7, 0, 0) := by
  decide

end Revm.Props.C17
