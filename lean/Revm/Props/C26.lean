import Revm.Proofs.Eof
import Revm.Proofs.EofValidate
import Revm.Proofs.EofTracker
import Revm.Proofs.EofJumps
import Revm.Gen.Tables
/-! C26 — EOF decoding round-trips and validation protects execution.

*Any byte string that decodes as an EOF container re-encodes to exactly the same bytes, decoding
never panics, and validation returns the same verdict every time. Every container that validation
accepts executes without reaching any interpreter path that assumes a valid container (missing
code section, jump outside a section, missing subcontainer).*

`Model.Eof` follows `eof.rs`, `eof/header.rs`, `eof/body.rs`, `eof/types_section.rs` function by
function; `Model.EofValidate` follows `analysis.rs` (`validate_raw_eof_inner`, `validate_eof_inner`,
`validate_eof_codes`, `validate_eof_code`, `AccessTracker`). Byte strings are `List Nat` with
`IsBytes` (every element `< 256`). Every Rust slicing / indexing / `split_off` / `panic!` site is
the explicit outcome `R.panic` of the model, so "never panics" is a statement about the model that
can fail. The model is tied to the compiled code by the correspondence stream `eof`
(decode / decode_dangling / into_eof / validate verdict incl. error kind, on random bytes,
header-shaped bytes, structurally generated containers, mutated containers and the shipped
vectors), and every container the *real* validator accepts is executed by the *real* interpreter
under `catch_unwind` (a panic there is reported as a violation of the last sentence).

Statements only; proofs are in `Revm.Proofs.Eof`, `Revm.Proofs.EofValidate`, `Revm.Proofs.EofJumps`
and `Revm.Proofs.EofTracker`. -/
namespace Revm.Props.C26
open Revm.Model.Eof Revm.Model.EofValidate

/-! ## 1. the codec -/

/-- **Round trip, all byte strings.** Whatever `Eof::decode` accepts re-encodes
(`Eof::encode_slow`) to exactly the input, including containers whose data section is only
partially present; the `raw` field is the input as well. -/
theorem decode_encode (bs : List Nat) (e : Eof) (hb : IsBytes bs) (h : Eof.decode bs = .ok e) :
    e.encodeSlow = bs ∧ e.raw = bs :=
  let r := Proofs.Eof.decode_ok h hb; ⟨r.1, r.2.1⟩

/-- non-vacuity: a container with a partially filled data section (1 of 2 bytes) decodes -/
example : (match Eof.decode [0xef, 0, 1, 1, 0, 4, 2, 0, 1, 0, 1, 4, 0, 2, 0, 0, 0x80, 0, 0, 0xfe, 0x11] with
    | .ok e => e.body.isDataFilled == false && e.body.dataSection == [0x11] && e.header.dataSize == 2
    | _ => false) = true := by decide

/-- **Decoding never panics**: no slice / index of `EofHeader::decode`, `consume_header_section_size`,
`EofBody::decode`, `TypesSection::decode` is out of range, for any byte string. -/
theorem decode_total (bs : List Nat) (hb : IsBytes bs) : Eof.decode bs ≠ .panic :=
  Proofs.Eof.decode_ne_panic hb

/-- the header alone: total, and what it accepts is `encode h ++ rest` (canonical header) -/
theorem header_decode_total (bs : List Nat) : Header.decode bs ≠ .panic :=
  Proofs.Eof.headerDecode_ne_panic bs

theorem header_decode_encode (bs rest : List Nat) (h : Header) (hb : IsBytes bs)
    (hd : Header.decode bs = .ok (h, rest)) : bs = h.encode ++ rest :=
  (Proofs.Eof.headerDecode_ok hd hb).1

/-- **`decode_dangling`**: never panics (`split_off` is in range); the container part re-encodes to
the prefix, the returned tail is the rest, and the data section is always completely filled. -/
theorem decode_dangling_total (bs : List Nat) (hb : IsBytes bs) : Eof.decodeDangling bs ≠ .panic :=
  Proofs.Eof.decodeDangling_ne_panic hb

theorem decode_dangling_encode (bs d : List Nat) (e : Eof) (hb : IsBytes bs)
    (h : Eof.decodeDangling bs = .ok (e, d)) :
    e.encodeSlow ++ d = bs ∧ e.raw = e.encodeSlow ∧ e.body.isDataFilled = true :=
  let r := Proofs.Eof.decodeDangling_ok h hb; ⟨r.1, r.2.1, r.2.2.1⟩

example : (match Eof.decodeDangling
    [0xef, 0, 1, 1, 0, 4, 2, 0, 1, 0, 1, 4, 0, 0, 0, 0, 0x80, 0, 0, 0xfe, 1, 2, 3] with
    | .ok (e, d) => d == [1, 2, 3] && e.body.codeSection == [[0xfe]]
    | _ => false) = true := by decide

/-! ## 2. header size arithmetic -/

/-- `EofHeader::size()` is the number of bytes `EofHeader::encode` writes — for every header. -/
theorem header_size_eq_encode_length (h : Header) : h.encode.length = h.size :=
  Proofs.Eof.encode_length h

/-- "It is minimum 15 bytes": `13 + 2·#code sections`, and a decoded header has ≥ 1 section. -/
theorem header_size_min (bs rest : List Nat) (h : Header) (hb : IsBytes bs)
    (hd : Header.decode bs = .ok (h, rest)) : 15 ≤ h.size := by
  have := (Proofs.Eof.headerDecode_ok hd hb).2.code_pos
  have := Proofs.Eof.size_ge h
  omega

/-- `data_size_raw_i()` indexes the two bytes holding `data_size` (used by RETURNCONTRACT to patch
the deployed container). -/
theorem data_size_raw_index (h : Header) :
    (h.encode.drop h.dataSizeRawI).take 2 = be16 h.dataSize :=
  Proofs.Eof.dataSizeRawI_spec h

theorem eof_size_def (h : Header) : h.eofSize = h.size + h.bodySize := rfl

/-- A decoded container: the header's sizes describe the body exactly; the input is
`size + types + Σcode + Σcontainers + |data present|` bytes long, never longer than `eof_size()`,
and equal to it iff the data section is filled; types count = code count = `types_size / 4`;
every code / container section has the announced non-zero length; sums do not overflow `usize`. -/
theorem decoded_sizes (bs : List Nat) (e : Eof) (hb : IsBytes bs) (h : Eof.decode bs = .ok e) :
    bs.length = e.header.size + e.header.typesSize + e.header.sumCodeSizes +
        e.header.sumContainerSizes + e.body.dataSection.length ∧
    bs.length ≤ e.header.eofSize ∧
    (e.body.isDataFilled = true ↔ bs.length = e.header.eofSize) ∧
    e.body.typesSection.length = e.body.codeSection.length ∧
    4 * e.body.typesSection.length = e.header.typesSize ∧
    1 ≤ e.body.codeSection.length ∧ e.body.codeSection.length ≤ 1024 ∧
    e.body.containerSection.length ≤ 256 ∧
    e.body.codeSection.map List.length = e.header.codeSizes ∧
    e.body.containerSection.map List.length = e.header.containerSizes ∧
    (∀ c ∈ e.body.codeSection, 0 < c.length ∧ c.length < 65536) ∧
    e.header.sumCodeSizes = e.header.codeSizes.sum ∧
    e.header.sumContainerSizes = e.header.containerSizes.sum ∧
    e.header.eofSize < 2 ^ 32 :=
  Proofs.Eof.decoded_sizes h hb

/-- every decoded types entry satisfies `TypesSection::validate` (so `max_stack_size - inputs`, a
`u16` subtraction in CALLF / JUMPF, cannot underflow) -/
theorem decoded_types_ok (bs : List Nat) (e : Eof) (hb : IsBytes bs) (h : Eof.decode bs = .ok e) :
    ∀ t ∈ e.body.typesSection,
      t.inputs ≤ 0x7f ∧ t.outputs ≤ 0x80 ∧ t.maxStackSize ≤ 0x3ff ∧ t.inputs ≤ t.maxStackSize :=
  (Proofs.Eof.decode_ok h hb).2.2.2.1.types_ok

/-! ## 3. validation is a function of the bytes (determinism) -/

/-- `validate_raw_eof_inner` is modelled as a pure function, so two calls agree by reflexivity; the
content of this obligation is therefore carried by the correspondence stream, where the *real*
function is called twice on every input and the verdicts are compared (`det=1`). -/
theorem validate_deterministic (bs : List Nat) (t : Option CodeType) :
    ∀ r₁ r₂, validateRawEofInner bs t = r₁ → validateRawEofInner bs t = r₂ → r₁ = r₂ :=
  fun _ _ h₁ h₂ => h₁ ▸ h₂ ▸ rfl

/-- oversized inputs are rejected before decoding; a decode error is reported as such -/
theorem validate_rejects_undecodable (bs : List Nat) (t : Option CodeType) (e : Eof)
    (h : validateRawEofInner bs t = .ok e) :
    bs.length ≤ 49152 ∧ Eof.decode bs = .ok e ∧ e.body.isDataFilled = true :=
  Proofs.EofValidate.validateRaw_ok h

/-! ## 4. validation protects execution -/
open Revm.Spec.Eof

/-- the hand-copied opcode table of the model is the `OPCODE_INFO_JUMPTABLE` of the compiled code
(dumped on every run into `Gen.opInfo`: exists, inputs, outputs, immediate size, not_eof, terminating) -/
theorem opTable_matches_code :
    Gen.opInfo.map (fun (op, ex, i, o, imm, ne, t) =>
      (op, if ex = 1 then some (OpInfo.mk i o imm (ne = 1) (t = 1)) else none)) =
    (List.range 256).map (fun op => (op, opInfo op)) := by decide +kernel

/-- **One code section.** If `validate_eof_code` accepts a section then every instruction of its
linear decoding (`IsInstrStart`) is `InstrOk`: defined and EOF-enabled opcode, all immediates inside
the section (no truncated immediate, nothing runs off the end), CALLF / JUMPF section index
`< types.len()`, EOFCREATE / RETURNCONTRACT container index `< container_section.len()`, every
RJUMP / RJUMPI / RJUMPV target inside `[0, code.len())`. -/
theorem section_validated_in_range (code : Array Nat) (dataSize idx nContainers : Nat)
    (types : Array TypesSection) (tr tr' : Tracker)
    (h : validateEofCode code dataSize idx nContainers types tr = .ok tr') :
    SectionOk code types.size nContainers :=
  Proofs.EofValidate.validateEofCode_ok h

/-- **One code section: no jump into immediate bytes.** If `validate_eof_code` accepts a section
then the target of every relative jump of its linear decoding — RJUMP, RJUMPI and **every entry of
every RJUMPV table** — is the first byte of an instruction of that decoding (`IsInstrStart`), never
an immediate byte (PUSHn data, a relative offset, an RJUMPV count or table byte, a section /
container index, a DUPN / SWAPN / EXCHANGE / DATALOADN operand). Both orders are covered by the
loop invariant (`Proofs.EofValidate.Inv`): the immediate is marked *before* the jump is processed
(`target.is_immediate` => `BackwardJumpToImmediateBytes`; also a jump into its own immediates), and
the jump is processed *before* the immediate is marked (forward jump into the immediates or the
RJUMPV table of a later instruction: `mark_as_immediate` finds `is_jumpdest` =>
`JumpToImmediateBytes`). -/
theorem section_jumps_on_starts (code : Array Nat) (dataSize idx nContainers : Nat)
    (types : Array TypesSection) (tr tr' : Tracker)
    (h : validateEofCode code dataSize idx nContainers types tr = .ok tr') :
    JumpsOnStarts code :=
  Proofs.EofValidate.validateEofCode_jumps h

/-- non-vacuity and the two neighbours: `PUSH0 PUSH0 RJUMPI+3 RJUMP+k NOP RJUMPV[0:+0] STOP` with the
RJUMP landing on the RJUMPV opcode (k = 1) or on the STOP after its table (k = 5) is accepted —
request `eof validate rs ef0001010004020001000e04000000008000025f5fe10003e000015be200000000` -/
example : (match validateRawEofInner [239, 0, 1, 1, 0, 4, 2, 0, 1, 0, 14, 4, 0, 0, 0, 0, 128, 0, 2, 95, 95, 225, 0, 3, 224, 0, 1, 91, 226, 0, 0, 0, 0] (some .ReturnOrStop),
      validateRawEofInner [239, 0, 1, 1, 0, 4, 2, 0, 1, 0, 14, 4, 0, 0, 0, 0, 128, 0, 2, 95, 95, 225, 0, 3, 224, 0, 5, 91, 226, 0, 0, 0, 0] (some .ReturnOrStop) with
    | .ok _, .ok _ => true
    | _, _ => false) = true := by decide +kernel

/-- the model refuses the same container when the earlier RJUMP lands on the count byte (k = 2) or
on a byte of the later RJUMPV's table (k = 3, 4) with `JumpToImmediateBytes` — the check made by
`mark_as_immediate` while the table is marked (request
`eof validate rs ef0001010004020001000e04000000008000025f5fe10003e000035be200000000`) -/
example : ([2, 3, 4].map fun k => match validateRawEofInner [239, 0, 1, 1, 0, 4, 2, 0, 1, 0, 14, 4, 0, 0, 0, 0, 128, 0, 2, 95, 95, 225, 0, 3, 224, 0, k, 91, 226, 0, 0, 0, 0] (some .ReturnOrStop) with
    | .err (.Validation .JumpToImmediateBytes) => true
    | _ => false) = [true, true, true] := by decide +kernel

/-- **One container.** If `validate_eof_codes` accepts, *every* code section went through
`validate_eof_code` (the access tracker: what is marked accessed is either still on the
processing stack or validated; at the end the stack is empty and everything is marked), so every
section is `SectionOk`; there are as many type entries as sections and at least one section
(`types_section.get(idx)` and `body.code(idx)` succeed together). -/
theorem container_validated_in_range (e : Eof) (t : Option CodeType) (l : List CodeType)
    (h : validateEofCodes e t = .ok l) : ContainerOk e ∧ l.length = e.body.containerSection.length :=
  ⟨Proofs.EofValidate.validateEofCodes_container h, (Proofs.EofValidate.validateEofCodes_ok h).2.2.2⟩

/-- **Whole container, recursively (partial).** What `validate_raw_eof_inner` accepts decodes, has a
filled data section, and it and — recursively — every sub-container is `ContainerOk`; every
sub-container decodes (so `Eof::decode(sub).expect("Subcontainer is verified")` in EOFCREATE and
`EofHeader::decode(&container).expect("valid EOF header")` in RETURNCONTRACT cannot fail).
That relative jumps land on instruction starts is `validate_ok_no_jump_into_immediate` below.

Partial: see `ValidatedSafeStatement` for the full statement. Not covered: RETF / JUMPF
return-stack discipline and stack-height soundness (`max_stack_size`), the validator itself never
panicking, and the step from these static facts to "the interpreter's EOF instructions never reach
their panic sites" — there is no Lean model of those instructions. These parts are carried by the
correspondence stream (verdict incl. error kind equal to the real validator on every input) and by
executing every accepted container on the real interpreter under `catch_unwind`. -/
theorem validated_in_range_partial (bs : List Nat) (t : Option CodeType) (e : Eof)
    (h : validateRawEofInner bs t = .ok e) :
    Eof.decode bs = .ok e ∧ e.body.isDataFilled = true ∧ DeepOk e :=
  ⟨(Proofs.EofValidate.validateRaw_ok h).2.1, (Proofs.EofValidate.validateRaw_ok h).2.2,
   Proofs.EofValidate.validateRaw_deep h⟩

/-- non-vacuity: a two-section container (CALLF 1; POP; STOP / ORIGIN; RJUMPI +2; PUSH0; RETF; STOP)
is accepted by the model, as by the real validator (request
`eof validate rs ef000101000802000200050007040000000080000100010001e30001500032e100025fe400`) -/
example : (match validateRawEofInner [239, 0, 1, 1, 0, 8, 2, 0, 2, 0, 5, 0, 7, 4, 0, 0, 0, 0, 128, 0, 1, 0, 1, 0, 1, 227, 0, 1, 80, 0, 50, 225, 0, 2, 95, 228, 0] (some .ReturnOrStop) with
    | .ok e => e.body.codeSection.length == 2
    | _ => false) = true := by decide +kernel

/-- **No jump into immediate bytes, whole container.** In an accepted container and in every
(transitive) sub-container `e'` of it (`SubOf`), every code section is `SectionOk` and the target of
every RJUMP / RJUMPI / RJUMPV-table entry of every code section is an instruction start of that
section. So `rjump` / `rjumpi` / `rjumpv` of the interpreter, which add the offset to the
instruction pointer unchecked, always continue at an opcode the validator has looked at as an
opcode (and never e.g. at a table byte that happens to read as RETF). -/
theorem validate_ok_no_jump_into_immediate (bs : List Nat) (t : Option CodeType) (e : Eof)
    (h : validateRawEofInner bs t = .ok e) :
    ∀ e', SubOf e e' →
      ContainerOk e' ∧ ∀ code, code ∈ e'.body.codeSection → JumpsOnStarts code.toArray :=
  fun _ hs => Proofs.EofValidate.validateRaw_sub h hs

/-- non-vacuity: a container with a sub-container (EOFCREATE of an initcode container that
RETURNCONTRACTs a runtime container) preceded by a taken RJUMPI is accepted; `SubOf` then ranges
over three containers (request
`eof validate rs ef0001010004020001000c030001003004000000008000055f5f5f5f6001e10000ec0000ef00010100040200010004030001001404000000008000025f5fee00ef00010100040200010001040000000080000000`) -/
example : (match validateRawEofInner [239, 0, 1, 1, 0, 4, 2, 0, 1, 0, 12, 3, 0, 1, 0, 48, 4, 0, 0, 0, 0, 128, 0, 5, 95, 95, 95, 95, 96, 1, 225, 0, 0, 236, 0, 0, 239, 0, 1, 1, 0, 4, 2, 0, 1, 0, 4, 3, 0, 1, 0, 20, 4, 0, 0, 0, 0, 128, 0, 2, 95, 95, 238, 0, 239, 0, 1, 1, 0, 4, 2, 0, 1, 0, 1, 4, 0, 0, 0, 0, 128, 0, 0, 0] (some .ReturnOrStop) with
    | .ok e => e.body.containerSection.length == 1
    | _ => false) = true := by decide +kernel

/-- The full statement behind C26's last sentence, as far as it can be said without a model of the
interpreter: validation never panics, and in every (sub-)container of an accepted container every
section is `SectionOk` **and** all relative jumps land on instruction starts. (Still missing from
this statement, and only described in prose: RETF is executed only with a non-empty return stack,
`max_stack_size` bounds the real stack height, and therefore no EOF instruction handler reaches a
`panic!` / `expect` / out-of-range pointer.) The second conjunct is
`validate_ok_no_jump_into_immediate`; NOT proved is the first one (every index of the validator
itself is in range), see `validated_safe_of_total`. -/
def ValidatedSafeStatement : Prop :=
  (∀ bs t, IsBytes bs → validateRawEofInner bs t ≠ .panic) ∧
  ∀ bs t e, validateRawEofInner bs t = .ok e → ∀ e', SubOf e e' →
    ContainerOk e' ∧ ∀ code, code ∈ e'.body.codeSection → JumpsOnStarts code.toArray

/-- what is left of `ValidatedSafeStatement`: totality of the validator -/
theorem validated_safe_of_total
    (htotal : ∀ bs t, IsBytes bs → validateRawEofInner bs t ≠ .panic) : ValidatedSafeStatement :=
  ⟨htotal, fun bs t e h => validate_ok_no_jump_into_immediate bs t e h⟩

end Revm.Props.C26
